(* Bridge between the code-level T1 translation of mesa/space.py (Generated.Tables, regenerated on every run
   by harness/tables/legacy_space_code.py: gen_torus_adj, gen_distance_squared, gen_is_cell_empty,
   gen_move_to_empty_branch, gen_closest, and the method bodies gen_body_* as lg_stmt lists) and the functions
   of the hand-written model Model/LegacyGrid.v that the C08 / C18 theorems are about.
   All bridge lemmas are proved by case analysis on the conditions of BOTH sides (lia with ZifyBool for the
   arithmetic ones), so a harmless rewrite of the source keeps them checking and a semantic change breaks them. *)
From Coq Require Import ZArith List Bool Lia ZifyBool.
From Mesa Require Import Common.ListX Generated.Tables Model.LegacyGrid Proofs.LegacyGridProofs.
Import ListNotations.
Open Scope Z_scope.

Ltac split_ifs :=
  repeat match goal with
         | |- context [if ?c then _ else _] => let E := fresh "E" in destruct c eqn:E
         end; try reflexivity; try (exfalso; lia).

(* ------------------------------------------------------------------ pure functions *)
Lemma oob_bridge c p : out_of_bounds c p = gen_out_of_bounds (c_w c) (c_h c) p.
Proof.
  destruct p as [x y]. unfold out_of_bounds, gen_out_of_bounds. cbn [fst snd].
  match goal with |- ?l = ?r => destruct l eqn:E1; destruct r eqn:E2 end; try reflexivity; exfalso; lia.
Qed.

Lemma torus_adj_bridge c p : torus_adj c p = gen_torus_adj (c_w c) (c_h c) (c_torus c) p.
Proof.
  unfold torus_adj, gen_torus_adj. rewrite <- oob_bridge.
  destruct (out_of_bounds c p), (c_torus c); cbn [negb]; split_ifs.
Qed.

Lemma torus_adj_2d_bridge c p : torus_adj_2d c p = gen_torus_adj_2d (c_w c) (c_h c) p.
Proof.
  unfold torus_adj_2d, gen_torus_adj_2d. destruct p as [x y]. cbn [fst snd].
  f_equal; try reflexivity; lia.
Qed.

Lemma dist2_bridge c p q : dist2 c p q = gen_distance_squared (c_w c) (c_h c) (c_torus c) p q.
Proof.
  unfold dist2, axis_dist, gen_distance_squared. destruct p as [px py], q as [qx qy]. cbn [fst snd].
  destruct (c_torus c); cbv zeta; try reflexivity; try lia;
    (* a sum of two squares on both sides: compare the per-axis distances linearly *)
    match goal with
    | |- ?a * ?a + ?b * ?b = ?a' * ?a' + ?b' * ?b' =>
      replace a' with a by lia; replace b' with b by lia; reflexivity
    end.
Qed.

Lemma is_cell_empty_bridge s p : is_cell_empty s p = gen_is_cell_empty (grid s) p.
Proof.
  destruct p as [x y]. unfold is_cell_empty, gen_is_cell_empty, gen_is_default, is_nil.
  destruct (grid s (x, y)); reflexivity.
Qed.

(* move_to_empty written with the translated `== 0` test and cutoff branch *)
Definition move_to_empty_src (c : cfg) (s : state) (a : agent) (above_cutoff : bool) (out : coord) : state * res :=
  let s0 := build_empties c s in
  match gen_move_to_empty_branch (Z.of_nat (length (empties s0))) above_cutoff with
  | None => (s0, Err E_NO_EMPTY)
  | Some sampling =>
    let legal := if sampling
                 then negb (gen_out_of_bounds (c_w c) (c_h c) out) && gen_is_cell_empty (grid s0) out
                 else memb coord_eqb out (empties s0) in
    if legal then bind (remove c s0 a) (fun s1 => place c s1 a out) else (s0, Illegal)
  end.

Lemma move_to_empty_bridge c s a smp out : move_to_empty c s a smp out = move_to_empty_src c s a smp out.
Proof.
  unfold move_to_empty, move_to_empty_src, gen_move_to_empty_branch. cbv zeta.
  rewrite <- oob_bridge, <- is_cell_empty_bridge.
  set (n := Z.of_nat (length (empties (build_empties c s)))).
  destruct smp; split_ifs.
Qed.

(* ------------------------------------------------------------------ the "closest" selection loop *)
Section Closest.
  Variables (w h : Z) (torus : bool) (cur : coord).
  Let D (x : coord) : Z := gen_distance_squared w h torus x cur.

  Definition closest_inv (l : list coord) (acc : option Z * list coord) : Prop :=
    match fst acc with
    | None => l = [] /\ snd acc = []
    | Some m => (forall x, In x (snd acc) <-> In x l /\ D x = m) /\
                (forall x, In x l -> m <= D x) /\ (exists x, In x l /\ D x = m)
    end.

  Lemma closest_step_inv l acc p :
    closest_inv l acc -> closest_inv (l ++ [p]) (gen_closest_step w h torus cur acc p).
  Proof.
    destruct acc as [[m|] L]; unfold closest_inv, gen_closest_step; cbn [fst snd]; cbv zeta; fold (D p).
    - intros (HL & Hmin & x0 & Hx0 & Hd0).
      match goal with |- context [if ?c1 then _ else _] => destruct c1 eqn:E1 end; cbn [fst snd].
      + (* strictly nearer: restart *)
        assert (D p < m) by lia.
        split; [|split].
        * intros x. cbn [In]. rewrite in_app_iff. cbn [In]. split.
          -- intros [<-|[]]. split; [right; left; reflexivity|reflexivity].
          -- intros [[Hx|[<-|[]]] Hdx]; [|left; reflexivity]. specialize (Hmin x Hx). lia.
        * intros x. rewrite in_app_iff. cbn [In]. intros [Hx|[<-|[]]]; [specialize (Hmin x Hx); lia|lia].
        * exists p. split; [apply in_or_app; right; left; reflexivity|reflexivity].
      + match goal with |- context [if ?c2 then _ else _] => destruct c2 eqn:E2 end; cbn [fst snd].
        * (* equally near: append *)
          assert (D p = m) by lia.
          split; [|split].
          -- intros x. rewrite !in_app_iff. cbn [In]. rewrite HL. split.
             ++ intros [[Hx Hdx]|[<-|[]]]; [split; [left; exact Hx|exact Hdx]|split; [right; left; reflexivity|assumption]].
             ++ intros [[Hx|[<-|[]]] Hdx]; [left; split; assumption|right; left; reflexivity].
          -- intros x. rewrite in_app_iff. cbn [In]. intros [Hx|[<-|[]]]; [apply Hmin; exact Hx|lia].
          -- exists x0. split; [apply in_or_app; left; exact Hx0|exact Hd0].
        * (* farther: unchanged *)
          assert (m < D p) by lia.
          split; [|split].
          -- intros x. rewrite in_app_iff. cbn [In]. rewrite HL. split.
             ++ intros [Hx Hdx]. split; [left; exact Hx|exact Hdx].
             ++ intros [[Hx|[<-|[]]] Hdx]; [split; assumption|lia].
          -- intros x. rewrite in_app_iff. cbn [In]. intros [Hx|[<-|[]]]; [apply Hmin; exact Hx|lia].
          -- exists x0. split; [apply in_or_app; left; exact Hx0|exact Hd0].
    - intros [-> ->]. cbn [app fst snd]. split; [|split].
      + intros x. cbn [In]. split; [intros [<-|[]]; split; [left; reflexivity|reflexivity]|intros [[<-|[]] _]; left; reflexivity].
      + intros x [<-|[]]. lia.
      + exists p. split; [left; reflexivity|reflexivity].
  Qed.

  Lemma closest_fold_inv cells : forall l acc,
    closest_inv l acc -> closest_inv (l ++ cells) (fold_left (gen_closest_step w h torus cur) cells acc).
  Proof.
    induction cells as [|p t IH]; intros l acc Hinv; cbn [fold_left].
    - rewrite app_nil_r. exact Hinv.
    - replace (l ++ p :: t) with ((l ++ [p]) ++ t) by (rewrite <- app_assoc; reflexivity).
      apply IH. apply closest_step_inv. exact Hinv.
  Qed.

  Lemma closest_inv_spec cells res out :
    closest_inv cells res ->
    (In out (snd res) <-> In out cells /\ forall p, In p cells -> D out <= D p).
  Proof.
    destruct res as [[m|] L]; unfold closest_inv; cbn [fst snd].
    - intros (HL & Hmin & x0 & Hx0 & Hd0). rewrite HL. split.
      + intros [Hin Hd]. split; [exact Hin|]. intros p Hp. specialize (Hmin p Hp). lia.
      + intros [Hin Hall]. split; [exact Hin|]. specialize (Hall x0 Hx0). specialize (Hmin out Hin). lia.
    - intros [-> ->]. cbn [In]. tauto.
  Qed.

  (* what the loop computes: exactly the offered positions of minimal _distance_squared *)
  Lemma closest_spec cells out :
    In out (gen_closest w h torus cur cells) <->
    In out cells /\ forall p, In p cells -> D out <= D p.
  Proof.
    unfold gen_closest. apply closest_inv_spec.
    apply (closest_fold_inv cells [] (None, [])). split; reflexivity.
  Qed.
End Closest.

(* the legality test of the model's "closest" outcome IS membership in what the translated loop keeps *)
Lemma closest_legal_bridge c cur cells out :
  (memb coord_eqb out cells && forallb (fun p => dist2 c out cur <=? dist2 c p cur) cells) =
  memb coord_eqb out (gen_closest (c_w c) (c_h c) (c_torus c) cur cells).
Proof.
  apply eq_true_iff_eq.
  rewrite andb_true_iff, !cmemb_In, forallb_forall, closest_spec.
  split; intros [H1 H2]; (split; [exact H1|]); intros p Hp; specialize (H2 p Hp);
    rewrite !dist2_bridge in *; lia.
Qed.

(* ------------------------------------------------------------------ interpreter of the statement DSL *)
Definition set_grid (s : state) g := {| grid := g; pos := pos s; built := built s; empties := empties s; mask := mask s |}.
Definition set_pos (s : state) f := {| grid := grid s; pos := f; built := built s; empties := empties s; mask := mask s |}.
Definition set_empties (s : state) e := {| grid := grid s; pos := pos s; built := built s; empties := e; mask := mask s |}.
Definition set_mask (s : state) m := {| grid := grid s; pos := pos s; built := built s; empties := empties s; mask := m |}.

Inductive lg_out := OCont | ORet | ORaise (k : Z).
Definition mach := ((state * option coord) * lg_out)%type.     (* state, the local variable `pos`, how control leaves *)

Section Exec.
  Variables (c : cfg) (a : agent).
  (* the callees:  self.remove_agent(agent), self.place_agent(agent, pos), super().move_agent(agent, pos) *)
  Variables (rm : state -> state * res) (pl : state -> coord -> state * res) (mv : state -> coord -> state * res).

  Fixpoint evalc (cd : lg_cond) (s : state) (p : option coord) : bool :=
    match cd with
    | LCBuilt => built s
    | LCCellEmpty => match p with Some q => gen_is_cell_empty (grid s) q | None => false end
    | LCAgentPosNone => is_none (pos s a)
    | LCAgentInCell => match p with Some q => zmemb a (grid s q) | None => false end
    | LCOccNone => match p with Some q => gen_is_default (grid s q) | None => false end
    | LCOccIsAgent => match p with
                      | Some q => match grid s q with b :: _ => b =? a | [] => false end
                      | None => false
                      end
    | LCNot x => negb (evalc x s p)
    | LCAnd x y => evalc x s p && evalc y s p
    | LCOr x y => evalc x s p || evalc y s p
    end.

  Definition of_res (sr : state * res) (p : option coord) : mach :=
    match snd sr with
    | Ok _ => ((fst sr, p), OCont)
    | Err k => ((fst sr, p), ORaise k)
    | _ => ((fst sr, p), ORaise E_INTERNAL)
    end.

  Definition with_pos (s : state) (p : option coord) (f : coord -> mach) : mach :=
    match p with Some q => f q | None => ((s, p), ORaise E_INTERNAL) end.    (* TypeError on None *)

  Fixpoint exec1 (i : lg_stmt) (s : state) (p : option coord) {struct i} : mach :=
    match i with
    | LSBindPosAgent => ((s, pos s a), OCont)
    | LSTorusAdj =>
      with_pos s p (fun q => match gen_torus_adj (c_w c) (c_h c) (c_torus c) q with
                             | None => ((s, p), ORaise E_OOB)
                             | Some q' => ((s, Some q'), OCont)
                             end)
    | LSUnpack => with_pos s p (fun _ => ((s, p), OCont))
    | LSBindOccupant => with_pos s p (fun _ => ((s, p), OCont))
    | LSCellSetAgent => with_pos s p (fun q => ((set_grid s (upd_c (grid s) q [a]), p), OCont))
    | LSCellSetDefault => with_pos s p (fun q => ((set_grid s (upd_c (grid s) q []), p), OCont))
    | LSCellAppend => with_pos s p (fun q => ((set_grid s (upd_c (grid s) q (grid s q ++ [a])), p), OCont))
    | LSCellRemove =>
      with_pos s p (fun q => if zmemb a (grid s q)
                             then ((set_grid s (upd_c (grid s) q (remove_first a (grid s q))), p), OCont)
                             else ((s, p), ORaise E_INTERNAL))               (* ValueError: not in list *)
    | LSEmptiesDiscard => with_pos s p (fun q => ((set_empties s (set_discard q (empties s)), p), OCont))
    | LSEmptiesAdd => with_pos s p (fun q => ((set_empties s (set_add q (empties s)), p), OCont))
    | LSMask ix v =>
      with_pos s (match ix with LIPos => p | LIAgentPos => pos s a end)
               (fun q => ((set_mask s (upd_c (mask s) q v), p), OCont))
    | LSPosSet => with_pos s p (fun q => ((set_pos s (upd_a (pos s) a (Some q)), p), OCont))
    | LSPosClear => ((set_pos s (upd_a (pos s) a None), p), OCont)
    | LSCallRemove => of_res (rm s) p
    | LSCallPlace => with_pos s p (fun q => of_res (pl s q) p)
    | LSCallSuperMove => with_pos s p (fun q => of_res (mv s q) p)
    | LSRaise k => ((s, p), ORaise k)
    | LSReturn => ((s, p), ORet)
    | LSIf cd th el =>
      (fix go (l : list lg_stmt) (s : state) (p : option coord) {struct l} : mach :=
         match l with
         | [] => ((s, p), OCont)
         | j :: t => match exec1 j s p with
                     | ((s', p'), OCont) => go t s' p'
                     | r => r
                     end
         end) (if evalc cd s p then th else el) s p
    end.

  Fixpoint exec_list (l : list lg_stmt) (s : state) (p : option coord) : mach :=
    match l with
    | [] => ((s, p), OCont)
    | j :: t => match exec1 j s p with
                | ((s', p'), OCont) => exec_list t s' p'
                | r => r
                end
    end.

  (* a method body as a function: falling off the end / `return` = normal return, raise = Err *)
  Definition run_body (body : list lg_stmt) (s : state) (p : option coord) : state * res :=
    match exec_list body s p with
    | ((s', _), ORaise k) => (s', Err k)
    | ((s', _), _) => (s', Ok [])
    end.
End Exec.

Definition no_rm (s : state) : state * res := (s, Err E_INTERNAL).
Definition no_pl (s : state) (_ : coord) : state * res := (s, Err E_INTERNAL).

Lemma upd_a_self {A} (f : agent -> A) a v : upd_a f a v a = v.
Proof. unfold upd_a. rewrite Z.eqb_refl. reflexivity. Qed.

Lemma upd_c_self {A} (f : coord -> A) q v : upd_c f q v q = v.
Proof. unfold upd_c. rewrite coord_eqb_refl. reflexivity. Qed.

(* Evaluate the interpreter symbolically.  The data the code branches on (cell content, built flag, agent.pos,
   membership) is case-split FIRST and remembered as equations; `norm` then alternates computation with rewriting by
   those equations and by the two "read what was just written" facts, whatever order the statements come in. *)
Ltac rw_hyps := repeat match goal with H : ?l = _ |- context [?l] => rewrite H end.
Ltac norm := repeat (progress (cbn; rewrite ?upd_a_self, ?upd_c_self; rw_hyps)).
Ltac fin_state := try reflexivity; unfold set_pos, set_mask, set_empties, set_grid; norm; reflexivity.
Ltac body_bridge :=
  unfold run_body, mask_write, gen_is_cell_empty, gen_is_default, is_cell_empty, is_nil; norm; fin_state.

(* ------------------------------------------------------------------ the four place / remove bodies *)
Lemma single_place_bridge c s a p :
  place_single s a p = run_body c a no_rm no_pl no_pl gen_body_single_place s (Some p).
Proof.
  destruct p as [x y]. unfold place_single, gen_body_single_place.
  destruct (grid s (x, y)) eqn:Hg; destruct (built s) eqn:Eb; body_bridge.
Qed.

Lemma single_remove_bridge c s a :
  remove_single s a = run_body c a no_rm no_pl no_pl gen_body_single_remove s None.
Proof.
  unfold remove_single, gen_body_single_remove.
  destruct (pos s a) as [[x y]|] eqn:Hp; destruct (built s) eqn:Eb; body_bridge.
Qed.

Lemma multi_place_bridge c s a p :
  place_multi s a p = run_body c a no_rm no_pl no_pl gen_body_multi_place s (Some p).
Proof.
  destruct p as [x y]. unfold place_multi, gen_body_multi_place.
  destruct (pos s a) as [q|] eqn:Hp; destruct (zmemb a (grid s (x, y))) eqn:Hm; destruct (built s) eqn:Eb; body_bridge.
Qed.

Lemma multi_remove_bridge c s a :
  remove_multi s a = run_body c a no_rm no_pl no_pl gen_body_multi_remove s None.
Proof.
  unfold remove_multi, gen_body_multi_remove.
  destruct (pos s a) as [[x y]|] eqn:Hp; [|body_bridge].
  destruct (zmemb a (grid s (x, y))) eqn:Hm; [|body_bridge].
  destruct (remove_first a (grid s (x, y))) eqn:Hr; destruct (built s) eqn:Eb; body_bridge.
Qed.

(* the class dispatch of the model, over the translated bodies *)
Definition src_place (c : cfg) (s : state) (a : agent) (p : coord) : state * res :=
  run_body c a no_rm no_pl no_pl (if c_multi c then gen_body_multi_place else gen_body_single_place) s (Some p).
Definition src_remove (c : cfg) (s : state) (a : agent) : state * res :=
  run_body c a no_rm no_pl no_pl (if c_multi c then gen_body_multi_remove else gen_body_single_remove) s None.

Lemma place_bridge c s a p : place c s a p = src_place c s a p.
Proof.
  unfold place, src_place. destruct (c_multi c); [apply multi_place_bridge|apply single_place_bridge].
Qed.

Lemma remove_bridge c s a : remove c s a = src_remove c s a.
Proof.
  unfold remove, src_remove. destruct (c_multi c); [apply multi_remove_bridge|apply single_remove_bridge].
Qed.

(* ------------------------------------------------------------------ _Grid.move_agent / SingleGrid.move_agent *)
Definition src_grid_move (c : cfg) (s : state) (a : agent) (p : coord) : state * res :=
  run_body c a (fun s1 => src_remove c s1 a) (fun s1 q => src_place c s1 a q) no_pl gen_body_grid_move s (Some p).

Lemma place_ok_nil c s a p s' r : place c s a p = (s', Ok r) -> r = [].
Proof.
  unfold place, place_multi, place_single. destruct (c_multi c).
  - destruct (is_none (pos s a) || negb (zmemb a (grid s p))); intros H; inversion H; reflexivity.
  - destruct (is_cell_empty s p); intros H; inversion H; reflexivity.
Qed.

Lemma place_not_odd c s a p s' : place c s a p <> (s', Illegal) /\ place c s a p <> (s', Skip).
Proof.
  unfold place, place_multi, place_single. destruct (c_multi c).
  - destruct (is_none (pos s a) || negb (zmemb a (grid s p))); split; discriminate.
  - destruct (is_cell_empty s p); split; discriminate.
Qed.

Lemma remove_not_odd c s a s' : remove c s a <> (s', Illegal) /\ remove c s a <> (s', Skip).
Proof.
  unfold remove, remove_multi, remove_single. destruct (c_multi c).
  - destruct (pos s a) as [q|]; [destruct (zmemb a (grid s q))|]; split; discriminate.
  - destruct (pos s a); split; discriminate.
Qed.

Arguments gen_torus_adj : simpl never.
Arguments gen_out_of_bounds : simpl never.
Arguments gen_distance_squared : simpl never.

Lemma grid_move_bridge c s a p : grid_move_agent c s a p = src_grid_move c s a p.
Proof.
  unfold grid_move_agent, src_grid_move, run_body, gen_body_grid_move. cbn.
  rewrite <- ?torus_adj_bridge. destruct (torus_adj c p) as [p'|] eqn:Ht; norm; try reflexivity.
  rewrite <- ?remove_bridge. unfold of_res, bind.
  destruct (remove c s a) as [s1 r1] eqn:Er; norm.
  destruct r1; norm; try reflexivity;
    try (exfalso; destruct (remove_not_odd c s a s1) as [H1 H2]; first [apply H1; exact Er | apply H2; exact Er]).
  rewrite <- ?place_bridge. destruct (place c s1 a p') as [s2 r2] eqn:Ep; norm.
  destruct r2; norm; try reflexivity;
    try (exfalso; destruct (place_not_odd c s1 a p' s2) as [H1 H2]; first [apply H1; exact Ep | apply H2; exact Ep]).
  apply place_ok_nil in Ep. subst. reflexivity.
Qed.

Lemma grid_move_res c s a p s' r :
  grid_move_agent c s a p = (s', r) -> r = Ok [] \/ exists k, r = Err k.
Proof.
  unfold grid_move_agent. destruct (torus_adj c p) as [p'|]; [|intros H; inversion H; right; eexists; reflexivity].
  unfold bind. destruct (remove c s a) as [s1 r1] eqn:Er.
  destruct r1; try (intros H; inversion H; subst; first [right; eexists; reflexivity
      | exfalso; destruct (remove_not_odd c s a s') as [H1 H2]; first [apply H1; exact Er | apply H2; exact Er]]).
  intros Ep. destruct r as [r| | |].
  - left. apply place_ok_nil in Ep. subst. reflexivity.
  - right. eexists. reflexivity.
  - exfalso. apply (proj1 (place_not_odd c s1 a p' s')). exact Ep.
  - exfalso. apply (proj2 (place_not_odd c s1 a p' s')). exact Ep.
Qed.

Definition src_single_move (c : cfg) (s : state) (a : agent) (p : coord) : state * res :=
  run_body c a no_rm no_pl (fun s1 q => src_grid_move c s1 a q) gen_body_single_move s (Some p).

(* SingleGrid.move_agent, MultiGrid inheriting _Grid.move_agent *)
Definition src_move (c : cfg) (s : state) (a : agent) (p : coord) : state * res :=
  if c_multi c then src_grid_move c s a p else src_single_move c s a p.

Lemma single_move_bridge c s a p :
  c_multi c = false -> move_agent c s a p = src_single_move c s a p.
Proof.
  intros Hs. unfold move_agent, src_single_move, run_body, gen_body_single_move. rewrite Hs. cbn.
  rewrite <- ?torus_adj_bridge. destruct (torus_adj c p) as [[x y]|] eqn:Ht; norm; try reflexivity.
  unfold blocked, gen_is_default.
  destruct (grid s (x, y)) as [|b t] eqn:Hg; [|destruct (b =? a) eqn:Eba]; norm; try reflexivity;
    rewrite <- ?grid_move_bridge; unfold of_res;
    destruct (grid_move_agent c s a (x, y)) as [s2 r2] eqn:E;
    destruct (grid_move_res c s a (x, y) s2 r2 E) as [->|[k ->]]; norm; reflexivity.
Qed.

Lemma move_bridge c s a p : move_agent c s a p = src_move c s a p.
Proof.
  unfold src_move. destruct (c_multi c) eqn:Em.
  - unfold move_agent. rewrite Em. apply grid_move_bridge.
  - apply single_move_bridge. exact Em.
Qed.

(* ================================================================== headline statements about the source *)
(* torus_adj as translated: wraps every integer pair into the grid on a torus, rejects on a bounded grid *)
Lemma torus_adj_of_source w h torus p :
  0 < w -> 0 < h ->
  (torus = true -> gen_torus_adj w h torus p = Some (fst p mod w, snd p mod h) /\
                   gen_out_of_bounds w h (fst p mod w, snd p mod h) = false) /\
  (torus = false -> gen_out_of_bounds w h p = true -> gen_torus_adj w h torus p = None) /\
  (gen_out_of_bounds w h p = false -> gen_torus_adj w h torus p = Some p).
Proof.
  intros Hw Hh.
  set (c := {| c_w := w; c_h := h; c_torus := torus; c_multi := false |}).
  assert (Hwf : wf c) by (split; assumption).
  pose proof (torus_adj_bridge c p) as Hb. cbn [c_w c_h c_torus c] in Hb.
  pose proof (oob_bridge c p) as Ho. cbn [c_w c_h c] in Ho.
  split; [|split].
  - intros Ht. rewrite <- Hb. pose proof (torus_adj_torus c p Hwf Ht) as H. cbn [c_w c_h c] in H.
    split; [exact H|]. pose proof (oob_bridge c (fst p mod w, snd p mod h)) as Ho2. cbn [c_w c_h c] in Ho2.
    rewrite <- Ho2. apply (torus_adj_in c p _ Hwf H).
  - intros Ht Hoob. rewrite <- Hb. apply torus_adj_bounded; [exact Ht|rewrite Ho; exact Hoob].
  - intros Hin. rewrite <- Hb. apply torus_adj_inb. rewrite Ho. exact Hin.
Qed.

(* _distance_squared as translated is invariant under wrapping the offered position (so "closest" among the
   offered positions = closest among the cells they wrap to), and move_agent_to_one_of's loop keeps exactly the
   offered positions at minimal such distance *)
Lemma closest_of_source w h torus cur cells out :
  0 < w -> 0 < h ->
  (In out (gen_closest w h torus cur cells) <->
   In out cells /\ forall p, In p cells -> gen_distance_squared w h torus out cur <= gen_distance_squared w h torus p cur) /\
  (forall p p', gen_torus_adj w h torus p = Some p' ->
                gen_distance_squared w h torus p' cur = gen_distance_squared w h torus p cur).
Proof.
  intros Hw Hh. split; [apply closest_spec|].
  intros p p' Ht.
  set (c := {| c_w := w; c_h := h; c_torus := torus; c_multi := false |}).
  assert (Hwf : wf c) by (split; assumption).
  pose proof (dist2_bridge c p' cur) as H1. pose proof (dist2_bridge c p cur) as H2.
  pose proof (torus_adj_bridge c p) as H3. cbn [c_w c_h c_torus c] in H1, H2, H3.
  rewrite <- H1, <- H2. apply (dist2_torus_adj c p p' cur Hwf). rewrite H3. exact Ht.
Qed.

(* the translated method bodies, composed as the classes compose them (SingleGrid.move_agent -> super().move_agent ->
   remove_agent; place_agent), preserve the invariant, land on the wrapped target, and are ATOMIC: if the composed
   source code raises, the whole observable state is as before *)
Lemma move_of_source c n s a pa p s' r :
  wf c -> Agree c s -> pos s a = Some pa -> src_move c s a p = (s', r) ->
  Agree c s' /\
  (r = Ok [] -> exists p', gen_torus_adj (c_w c) (c_h c) (c_torus c) p = Some p' /\ pos s' a = Some p' /\
                           forall b, b <> a -> pos s' b = pos s b) /\
  (forall e, r = Err e -> obs_state c n s' = obs_state c n s) /\
  (r = Ok [] \/ r = Err E_OOB \/ r = Err E_CELL_NOT_EMPTY).
Proof.
  intros Hwf Ha Hp Hm. rewrite <- move_bridge in Hm.
  destruct (move_cases c s a p pa s' r Hwf Ha Hp Hm) as [(Hr & Ha' & p' & Ht & Hp' & _ & Ho)|[(Hs & Hr & _)|(Hs & Hr & _)]].
  - split; [exact Ha'|]. split; [|split].
    + intros _. exists p'. rewrite <- torus_adj_bridge. split; [exact Ht|]. split; [exact Hp'|exact Ho].
    + intros e He. rewrite Hr in He. discriminate.
    + left. exact Hr.
  - subst s'. split; [exact Ha|]. split; [|split].
    + intros He. rewrite Hr in He. discriminate.
    + intros e _. reflexivity.
    + right. left. exact Hr.
  - subst s'. split; [exact Ha|]. split; [|split].
    + intros He. rewrite Hr in He. discriminate.
    + intros e _. reflexivity.
    + right. right. exact Hr.
Qed.

(* place_agent / remove_agent as translated preserve the invariant *)
Lemma place_remove_of_source c s a :
  Agree c s ->
  (forall p, pos s a = None -> out_of_bounds c p = false -> Agree c (fst (src_place c s a p))) /\
  (forall p, pos s a = Some p -> Agree c (fst (src_remove c s a)) /\ snd (src_remove c s a) = Ok [] /\
                                pos (fst (src_remove c s a)) a = None).
Proof.
  intros Ha. split.
  - intros p Hn Hin. rewrite <- place_bridge. destruct (place c s a p) as [s' r] eqn:E. cbn [fst].
    destruct (place_cases c s a p s' r Ha Hn Hin E) as [(_ & Ha' & _)|(Hs & _)]; [exact Ha'|subst; exact Ha].
  - intros p Hp. rewrite <- remove_bridge.
    destruct (remove_ok c s a p Ha Hp) as (s1 & Hr & Hrs). rewrite Hr. cbn [fst snd].
    split; [exact (removed_agree c s a p s1 Ha Hp Hrs)|]. split; [reflexivity|apply (removed_pos_none s a p s1 Hrs)].
Qed.

(* the three verbatim skeletons (glue that cannot be translated: objects, RNG calls, warnings, f-strings) *)
Lemma skeletons_ok :
  gen_swap_pos_skeleton_ok = true /\ gen_move_to_empty_skeleton_ok = true /\ gen_move_one_of_skeleton_ok = true.
Proof. repeat split; reflexivity. Qed.

(* all bridges at once: every function of the model named here IS the function regenerated from the source *)
Lemma source_is_model :
  (forall c p, out_of_bounds c p = gen_out_of_bounds (c_w c) (c_h c) p) /\
  (forall c p, torus_adj c p = gen_torus_adj (c_w c) (c_h c) (c_torus c) p) /\
  (forall c p q, dist2 c p q = gen_distance_squared (c_w c) (c_h c) (c_torus c) p q) /\
  (forall s p, is_cell_empty s p = gen_is_cell_empty (grid s) p) /\
  (forall c s a smp out, move_to_empty c s a smp out = move_to_empty_src c s a smp out) /\
  (forall c cur cells out,
     (memb coord_eqb out cells && forallb (fun p => dist2 c out cur <=? dist2 c p cur) cells) =
     memb coord_eqb out (gen_closest (c_w c) (c_h c) (c_torus c) cur cells)) /\
  (forall c s a p, place c s a p = src_place c s a p) /\
  (forall c s a, remove c s a = src_remove c s a) /\
  (forall c s a p, grid_move_agent c s a p = src_grid_move c s a p) /\
  (forall c s a p, move_agent c s a p = src_move c s a p).
Proof.
  split; [exact oob_bridge|]. split; [exact torus_adj_bridge|]. split; [exact dist2_bridge|].
  split; [exact is_cell_empty_bridge|]. split; [exact move_to_empty_bridge|]. split; [exact closest_legal_bridge|].
  split; [exact place_bridge|]. split; [exact remove_bridge|]. split; [exact grid_move_bridge|exact move_bridge].
Qed.
