From Coq Require Import ZArith List Bool Lia Permutation.
From Mesa Require Import Common.ListX Model.Activation.
Import ListNotations.
Open Scope Z_scope.
Lemma visit_nil sc s : visit sc [] s = (s, []).
Proof. reflexivity. Qed.
