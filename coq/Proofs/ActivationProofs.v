(* Lemmas about Model/Activation.v.  Part A: structure of the visiting loop (no invariant needed).
   Part B: death is final.  Part C: the registry invariant and its preservation by every op.
   Part D: what an activation does to the sets.  Part E: scripts that spare an agent. *)
From Coq Require Import ZArith List Bool Lia Permutation.
From Mesa Require Import Common.ListX Model.Activation.
Import ListNotations.
Open Scope Z_scope.

(* ------------------------------------------------------------------ basics *)
Lemma memz_In x l : memz x l = true <-> In x l.
Proof.
  unfold memz. rewrite existsb_exists. split.
  - intros [y [Hy He]]. apply Z.eqb_eq in He. subst. exact Hy.
  - intros H. exists x. split; [exact H|apply Z.eqb_refl].
Qed.

Lemma memz_false x l : memz x l = false <-> ~ In x l.
Proof.
  rewrite <- memz_In. destruct (memz x l); split; intros H; try congruence; try tauto;
    try (exfalso; apply H; reflexivity).
Qed.

Lemma remove_z_In x l y : In y (remove_z x l) <-> In y l /\ y <> x.
Proof.
  unfold remove_z. rewrite filter_In. split.
  - intros [H1 H2]. split; [exact H1|]. intros ->. rewrite Z.eqb_refl in H2. discriminate.
  - intros [H1 H2]. split; [exact H1|]. destruct (x =? y) eqn:E; [|reflexivity].
    apply Z.eqb_eq in E. congruence.
Qed.

Lemma remove_z_NoDup x l : NoDup l -> NoDup (remove_z x l).
Proof. intros H. unfold remove_z. apply NoDup_filter. exact H. Qed.

Lemma remove_first_In x l y : In y (remove_first x l) -> In y l.
Proof.
  induction l as [|z t IH]; simpl; [tauto|].
  destruct (x =? z); [tauto|]. simpl. intros [H|H]; [left; exact H|right; apply IH; exact H].
Qed.

Lemma sref_eqb_eq a b : sref_eqb a b = true <-> a = b.
Proof.
  destruct a, b; simpl; split; intros H; try discriminate; try reflexivity;
    try (apply Z.eqb_eq in H; subst; reflexivity);
    try (inversion H; subst; apply Z.eqb_refl).
Qed.

Lemma sref_eqb_refl a : sref_eqb a a = true.
Proof. apply sref_eqb_eq. reflexivity. Qed.

Lemma filter_true_id {A} (f : A -> bool) l : (forall x, In x l -> f x = true) -> filter f l = l.
Proof.
  induction l as [|x t IH]; simpl; intros H; [reflexivity|].
  rewrite (H x (or_introl eq_refl)). f_equal. apply IH. intros y Hy. apply H. right. exact Hy.
Qed.

Lemma filter_filter {A} (f g : A -> bool) l :
  filter f (filter g l) = filter (fun x => g x && f x) l.
Proof.
  induction l as [|x t IH]; simpl; [reflexivity|].
  destruct (g x); simpl; [destruct (f x); simpl; rewrite IH; reflexivity|exact IH].
Qed.

(* subsequence: order kept, elements possibly dropped *)
Inductive subseq : list Z -> list Z -> Prop :=
| sub_nil : subseq [] []
| sub_keep x l m : subseq l m -> subseq (x :: l) (x :: m)
| sub_skip x l m : subseq l m -> subseq l (x :: m).

Lemma subseq_In l m : subseq l m -> forall x, In x l -> In x m.
Proof.
  induction 1; simpl; intros y Hy; [tauto| |right; apply IHsubseq; exact Hy].
  destruct Hy as [Hy|Hy]; [left; exact Hy|right; apply IHsubseq; exact Hy].
Qed.

Lemma subseq_NoDup l m : subseq l m -> NoDup m -> NoDup l.
Proof.
  induction 1; intros Hn; [constructor| |inversion Hn; subst; apply IHsubseq; assumption].
  inversion Hn; subst. constructor; [|apply IHsubseq; assumption].
  intros Hin. apply H2. eapply subseq_In; eassumption.
Qed.

Lemma subseq_refl l : subseq l l.
Proof. induction l; constructor; assumption. Qed.

Lemma subseq_filter f l : subseq (filter f l) l.
Proof. induction l as [|x t IH]; simpl; [constructor|]. destruct (f x); constructor; exact IH. Qed.

(* ------------------------------------------------------------------ alive *)
Definition refs (s : st) (a : Z) : Prop := In a (reg s) \/ In a (ext s) \/ In (Some a) (cur s).

Lemma is_cur_spec s a : is_cur s a = true <-> In (Some a) (cur s).
Proof.
  unfold is_cur. rewrite existsb_exists. split.
  - intros [o [Ho Hh]]. destruct o as [c|]; simpl in Hh; [|discriminate].
    apply Z.eqb_eq in Hh. subst. exact Ho.
  - intros H. exists (Some a). split; [exact H|simpl; apply Z.eqb_refl].
Qed.

Lemma alive_spec s a : alive s a = true <-> refs s a.
Proof.
  unfold alive, refs. rewrite !orb_true_iff, !memz_In, is_cur_spec. tauto.
Qed.

Lemma alive_false s a : alive s a = false <-> ~ refs s a.
Proof.
  rewrite <- alive_spec. destruct (alive s a); split; intros H; try congruence; try tauto;
    try (exfalso; apply H; reflexivity).
Qed.

Lemma alive_sweep s a : alive (sweep s) a = alive s a.
Proof. reflexivity. Qed.

Lemma in_tl {A} (x : A) l : In x (tl l) -> In x l.
Proof. destruct l; simpl; tauto. Qed.

(* ------------------------------------------------------------------ Part B: how states evolve *)
Lemma lookup_upd g r l : lookup r (upd_sets g l) = option_map (g r) (lookup r l).
Proof.
  induction l as [|[r' m] t IH]; simpl; [reflexivity|].
  destruct (sref_eqb r r') eqn:E; [apply sref_eqb_eq in E; subst; reflexivity|exact IH].
Qed.

Lemma lookup_app r l r' m' :
  lookup r (l ++ [(r', m')]) =
  match lookup r l with Some m => Some m | None => if sref_eqb r r' then Some m' else None end.
Proof.
  induction l as [|[r0 m0] t IH]; simpl; [reflexivity|].
  destruct (sref_eqb r r0); [reflexivity|exact IH].
Qed.

Lemma filter_all_true (m : list Z) : filter (fun _ => true) m = m.
Proof. apply filter_true_id. reflexivity. Qed.

(* s' is a later state than s:
   ids only grow; an id below next_id that is dead stays dead (nothing can reach it any more);
   the registry gains only fresh ids; every set keeps its order: some members drop out, fresh ones
   are appended *)
Definition evolves (s s' : st) : Prop :=
  next_id s <= next_id s' /\
  (forall a, a < next_id s -> alive s' a = true -> alive s a = true) /\
  (forall a, In a (reg s') -> In a (reg s) \/ next_id s <= a < next_id s') /\
  (forall r m, lookup r (sets s) = Some m ->
     exists keep new, lookup r (sets s') = Some (filter keep m ++ new) /\
                      forall a, In a new -> next_id s <= a < next_id s').

Lemma evolves_refl s : evolves s s.
Proof.
  repeat split; try lia; try tauto.
  intros r m H. exists (fun _ => true), []. rewrite filter_all_true, app_nil_r. split; [exact H|].
  intros a [].
Qed.

Lemma evolves_trans s1 s2 s3 : evolves s1 s2 -> evolves s2 s3 -> evolves s1 s3.
Proof.
  intros (N1 & D1 & R1 & S1) (N2 & D2 & R2 & S2). repeat split.
  - lia.
  - intros a Ha H3. apply D1; [exact Ha|]. apply D2; [lia|exact H3].
  - intros a Ha. destruct (R2 a Ha) as [H|H]; [|right; lia].
    destruct (R1 a H) as [H'|H']; [left; exact H'|right; lia].
  - intros r m Hm. destruct (S1 r m Hm) as (k1 & n1 & L1 & B1).
    destruct (S2 r _ L1) as (k2 & n2 & L2 & B2).
    exists (fun x => k1 x && k2 x), (filter k2 n1 ++ n2). split.
    + rewrite L2. f_equal. rewrite filter_app, filter_filter, app_assoc. reflexivity.
    + intros a Ha. apply in_app_or in Ha. destruct Ha as [Ha|Ha].
      * apply filter_In in Ha. destruct Ha as [Ha _]. specialize (B1 a Ha). lia.
      * specialize (B2 a Ha). lia.
Qed.

(* sets unchanged, ids unchanged, references only fewer or moved to something already alive *)
Lemma evolves_same_sets s s' :
  next_id s' = next_id s -> reg s' = reg s -> sets s' = sets s ->
  (forall a, alive s' a = true -> alive s a = true) -> evolves s s'.
Proof.
  intros Hn Hr Hs Ha. repeat split.
  - lia.
  - intros a _. apply Ha.
  - rewrite Hr. tauto.
  - intros r m Hm. exists (fun _ => true), []. rewrite filter_all_true, app_nil_r, Hs.
    split; [exact Hm|]. intros a [].
Qed.

Lemma evolves_sweep s : evolves s (sweep s).
Proof.
  repeat split; simpl; try lia; try tauto.
  intros r m Hm. exists (alive s), []. rewrite lookup_upd, Hm, app_nil_r. split; [reflexivity|].
  intros a [].
Qed.

Lemma evolves_set_cur_some s r : alive s r = true -> evolves s (set_cur (Some r) s).
Proof.
  intros Hr. apply evolves_same_sets; try reflexivity.
  intros a Ha. apply alive_spec in Ha. destruct Ha as [H|[H|H]].
  - apply alive_spec. left. exact H.
  - apply alive_spec. right. left. exact H.
  - simpl in H. destruct H as [H|H]; [inversion H; subst; exact Hr|].
    apply alive_spec. right. right. apply in_tl. exact H.
Qed.

Lemma evolves_set_cur_none s : evolves s (set_cur None s).
Proof.
  apply evolves_same_sets; try reflexivity.
  intros a Ha. apply alive_spec in Ha. destruct Ha as [H|[H|H]].
  - apply alive_spec. left. exact H.
  - apply alive_spec. right. left. exact H.
  - simpl in H. destruct H as [H|H]; [discriminate|].
    apply alive_spec. right. right. apply in_tl. exact H.
Qed.

Lemma evolves_push s : evolves s (push_frame s).
Proof.
  apply evolves_same_sets; try reflexivity.
  intros a Ha. apply alive_spec in Ha. destruct Ha as [H|[H|H]].
  - apply alive_spec. left. exact H.
  - apply alive_spec. right. left. exact H.
  - simpl in H. destruct H as [H|H]; [discriminate|]. apply alive_spec. right. right. exact H.
Qed.

Lemma evolves_pop s : evolves s (pop_frame s).
Proof.
  apply evolves_same_sets; try reflexivity.
  intros a Ha. apply alive_spec in Ha. destruct Ha as [H|[H|H]].
  - apply alive_spec. left. exact H.
  - apply alive_spec. right. left. exact H.
  - simpl in H. apply alive_spec. right. right. apply in_tl. exact H.
Qed.

Lemma evolves_add_ext s i : alive s i = true -> evolves s (set_ext (ext s ++ [i]) s).
Proof.
  intros Hi. apply evolves_same_sets; try reflexivity.
  intros a Ha. apply alive_spec in Ha. destruct Ha as [H|[H|H]].
  - apply alive_spec. left. exact H.
  - simpl in H. apply in_app_or in H. destruct H as [H|[H|[]]].
    + apply alive_spec. right. left. exact H.
    + subst. exact Hi.
  - apply alive_spec. right. right. exact H.
Qed.

Lemma evolves_drop_ext s i : evolves s (set_ext (remove_first i (ext s)) s).
Proof.
  apply evolves_same_sets; try reflexivity.
  intros a Ha. apply alive_spec in Ha. destruct Ha as [H|[H|H]].
  - apply alive_spec. left. exact H.
  - simpl in H. apply remove_first_In in H. apply alive_spec. right. left. exact H.
  - apply alive_spec. right. right. exact H.
Qed.

Lemma deregister_reg a s x : In x (reg (deregister a s)) -> In x (reg s).
Proof.
  unfold deregister. destruct (memz a (reg s)); [|tauto]. simpl. rewrite remove_z_In. tauto.
Qed.

Lemma deregister_same a s :
  next_id (deregister a s) = next_id s /\ ext (deregister a s) = ext s /\ cur (deregister a s) = cur s.
Proof. unfold deregister. destruct (memz a (reg s)); simpl; auto. Qed.

Lemma evolves_deregister a s : evolves s (deregister a s).
Proof.
  destruct (deregister_same a s) as (Hn & He & Hc).
  unfold evolves. rewrite Hn. repeat split; try lia.
  - intros x _ Hx. apply alive_spec in Hx. apply alive_spec. unfold refs in *. rewrite He, Hc in Hx.
    destruct Hx as [H|H]; [left; eapply deregister_reg; exact H|right; exact H].
  - intros x Hx. left. eapply deregister_reg. exact Hx.
  - intros r m Hm. unfold deregister. destruct (memz a (reg s)).
    + cbn [sets]. rewrite lookup_upd, Hm. cbn [option_map].
      destruct (touches (class_of s a) r).
      * exists (fun y => negb (a =? y)), []. rewrite app_nil_r. split; [reflexivity|]. intros x [].
      * exists (fun _ => true), []. rewrite filter_all_true, app_nil_r. split; [reflexivity|]. intros x [].
    + exists (fun _ => true), []. rewrite filter_all_true, app_nil_r. split; [exact Hm|]. intros x [].
Qed.

Lemma evolves_do_remove a keep s : evolves s (do_remove a keep s).
Proof.
  unfold do_remove. destruct (alive s a) eqn:Ea; [|apply evolves_refl].
  eapply evolves_trans; [|apply evolves_sweep].
  destruct keep; [|apply evolves_deregister].
  (* the reference in hand is stored: a was alive before the call *)
  pose proof (evolves_deregister a s) as (N & D & R & S).
  destruct (deregister_same a s) as (Hn & He & Hc).
  repeat split.
  - exact N.
  - intros x Hx H. apply alive_spec in H. destruct H as [H|[H|H]].
    + apply alive_spec. left. eapply deregister_reg. exact H.
    + cbn [ext set_ext] in H. apply in_app_or in H. destruct H as [H|[H|[]]].
      * apply alive_spec. right. left. rewrite <- He. exact H.
      * subst. exact Ea.
    + apply alive_spec. right. right. cbn [cur set_cur set_ext] in H. rewrite <- Hc. exact H.
  - exact R.
  - exact S.
Qed.

Lemma lookup_create_sets c a l r m :
  lookup r l = Some m ->
  lookup r (if has_set (SType c) l
            then upd_sets (fun r m => if touches c r then m ++ [a] else m) l
            else upd_sets (fun r m => if touches c r then m ++ [a] else m) l ++ [(SType c, [a])])
  = Some (if touches c r then m ++ [a] else m).
Proof.
  intros H. destruct (has_set (SType c) l).
  - rewrite lookup_upd, H. reflexivity.
  - rewrite lookup_app, lookup_upd, H. reflexivity.
Qed.

Lemma evolves_create1 c keep s : evolves s (create1 c keep s).
Proof.
  repeat split; cbn [next_id create1]; try lia.
  - intros a Ha H. apply alive_spec in H. apply alive_spec. unfold refs in *. cbn [reg ext cur create1] in H.
    destruct H as [H|[H|H]].
    + apply in_app_or in H. destruct H as [H|[H|[]]]; [left; exact H|lia].
    + destruct keep; [|right; left; exact H].
      apply in_app_or in H. destruct H as [H|[H|[]]]; [right; left; exact H|lia].
    + right. right. exact H.
  - intros a H. cbn [reg create1] in H. apply in_app_or in H. destruct H as [H|[H|[]]]; [left; exact H|right; lia].
  - intros r m Hm. cbn [sets create1]. rewrite (lookup_create_sets c (next_id s) _ r m Hm).
    destruct (touches c r).
    + exists (fun _ => true), [next_id s]. rewrite filter_all_true. split; [reflexivity|].
      intros a [H|[]]. lia.
    + exists (fun _ => true), []. rewrite filter_all_true, app_nil_r. split; [reflexivity|]. intros a [].
Qed.

Lemma evolves_create_n n c keep s : evolves s (create_n n c keep s).
Proof.
  revert s. induction n as [|n IH]; intros s; simpl; [apply evolves_refl|].
  eapply evolves_trans; [apply evolves_create1|apply IH].
Qed.

Lemma evolves_exec_act self s a : evolves s (exec_act self s a).
Proof.
  destruct a; simpl.
  - apply evolves_refl.
  - apply evolves_do_remove.
  - apply evolves_do_remove.
  - apply evolves_create_n.
  - eapply evolves_trans; [apply evolves_drop_ext|apply evolves_sweep].
  - destruct (alive s i) eqn:E; [apply evolves_add_ext; exact E|apply evolves_refl].
  - apply evolves_refl.
  - apply evolves_refl.
  - apply evolves_refl.
Qed.

(* ------------------------------------------------------------------ Part C: the invariant *)
(* structure: the registry has no duplicates, every id in use has been handed out, every set is
   duplicate-free and holds handed-out ids, and Model._all_agents lists exactly Model._agents *)
Definition Wf (s : st) : Prop :=
  NoDup (reg s) /\
  (forall a, refs s a -> a < next_id s) /\
  (forall r m, lookup r (sets s) = Some m -> NoDup m /\ forall a, In a m -> a < next_id s) /\
  lookup SAll (sets s) = Some (reg s).

(* weak sets hold living agents only *)
Definition Live (s : st) : Prop :=
  forall r m, lookup r (sets s) = Some m -> forall a, In a m -> alive s a = true.

Definition Inv (s : st) : Prop := Wf s /\ Live s.

Lemma lookup_upd_inv g l r m' :
  lookup r (upd_sets g l) = Some m' -> exists m, lookup r l = Some m /\ m' = g r m.
Proof.
  rewrite lookup_upd. destruct (lookup r l) as [m|]; simpl; intros H; [|discriminate].
  inversion H. exists m. split; reflexivity.
Qed.

Lemma wf_same_sets s s' :
  Wf s -> next_id s' = next_id s -> reg s' = reg s -> sets s' = sets s ->
  (forall a, refs s' a -> a < next_id s) -> Wf s'.
Proof.
  intros (W1 & W2 & W3 & W4) Hn Hr Hs Ha. unfold Wf. rewrite Hn, Hr, Hs.
  repeat split; try assumption.
  - apply (W3 r m H).
  - apply (W3 r m H).
Qed.

Lemma wf_bound s a : Wf s -> alive s a = true -> a < next_id s.
Proof. intros (_ & W2 & _) H. apply W2. apply alive_spec. exact H. Qed.

Lemma wf_set_cur_some s r : Wf s -> alive s r = true -> Wf (set_cur (Some r) s).
Proof.
  intros W Hr. eapply wf_same_sets; try exact W; try reflexivity.
  intros a [H|[H|H]].
  - apply (wf_bound s a W). apply alive_spec. left. exact H.
  - apply (wf_bound s a W). apply alive_spec. right. left. exact H.
  - simpl in H. destruct H as [H|H]; [inversion H; subst; apply (wf_bound s a W Hr)|].
    apply (wf_bound s a W). apply alive_spec. right. right. apply in_tl. exact H.
Qed.

Lemma wf_set_cur_none s : Wf s -> Wf (set_cur None s).
Proof.
  intros W. eapply wf_same_sets; try exact W; try reflexivity.
  intros a [H|[H|H]].
  - apply (wf_bound s a W). apply alive_spec. left. exact H.
  - apply (wf_bound s a W). apply alive_spec. right. left. exact H.
  - simpl in H. destruct H as [H|H]; [discriminate|].
    apply (wf_bound s a W). apply alive_spec. right. right. apply in_tl. exact H.
Qed.

Lemma wf_push s : Wf s -> Wf (push_frame s).
Proof.
  intros W. eapply wf_same_sets; try exact W; try reflexivity.
  intros a [H|[H|H]].
  - apply (wf_bound s a W). apply alive_spec. left. exact H.
  - apply (wf_bound s a W). apply alive_spec. right. left. exact H.
  - simpl in H. destruct H as [H|H]; [discriminate|]. apply (wf_bound s a W). apply alive_spec. right. right. exact H.
Qed.

Lemma wf_pop s : Wf s -> Wf (pop_frame s).
Proof.
  intros W. eapply wf_same_sets; try exact W; try reflexivity.
  intros a [H|[H|H]].
  - apply (wf_bound s a W). apply alive_spec. left. exact H.
  - apply (wf_bound s a W). apply alive_spec. right. left. exact H.
  - simpl in H. apply (wf_bound s a W). apply alive_spec. right. right. apply in_tl. exact H.
Qed.

Lemma wf_add_ext s i : Wf s -> i < next_id s -> Wf (set_ext (ext s ++ [i]) s).
Proof.
  intros W Hi. eapply wf_same_sets; try exact W; try reflexivity.
  intros a [H|[H|H]].
  - apply (wf_bound s a W). apply alive_spec. left. exact H.
  - simpl in H. apply in_app_or in H. destruct H as [H|[H|[]]].
    + apply (wf_bound s a W). apply alive_spec. right. left. exact H.
    + subst. exact Hi.
  - apply (wf_bound s a W). apply alive_spec. right. right. exact H.
Qed.

Lemma wf_drop_ext s i : Wf s -> Wf (set_ext (remove_first i (ext s)) s).
Proof.
  intros W. eapply wf_same_sets; try exact W; try reflexivity.
  intros a [H|[H|H]].
  - apply (wf_bound s a W). apply alive_spec. left. exact H.
  - simpl in H. apply remove_first_In in H. apply (wf_bound s a W). apply alive_spec. right. left. exact H.
  - apply (wf_bound s a W). apply alive_spec. right. right. exact H.
Qed.

Lemma wf_sweep s : Wf s -> Wf (sweep s).
Proof.
  intros (W1 & W2 & W3 & W4). unfold Wf. cbn [reg next_id sets sweep set_sets]. repeat split.
  - exact W1.
  - exact W2.
  - apply lookup_upd_inv in H. destruct H as (m0 & H0 & ->). apply NoDup_filter. apply (W3 r m0 H0).
  - apply lookup_upd_inv in H. destruct H as (m0 & H0 & ->). intros a Ha. apply filter_In in Ha.
    apply (W3 r m0 H0). apply Ha.
  - rewrite lookup_upd, W4. cbn [option_map]. f_equal. apply filter_true_id.
    intros x Hx. apply alive_spec. left. exact Hx.
Qed.

Lemma live_sweep s : Live (sweep s).
Proof.
  intros r m H a Ha. cbn [sets sweep set_sets] in H. apply lookup_upd_inv in H.
  destruct H as (m0 & H0 & ->). apply filter_In in Ha. rewrite alive_sweep. apply Ha.
Qed.

Lemma live_same_sets s s' :
  Live s -> sets s' = sets s -> (forall a, alive s a = true -> alive s' a = true) -> Live s'.
Proof. intros L Hs Ha r m H a Hin. apply Ha. rewrite Hs in H. exact (L r m H a Hin). Qed.

Lemma wf_deregister a s : Wf s -> Wf (deregister a s).
Proof.
  intros W. unfold deregister. destruct (memz a (reg s)) eqn:E; [|exact W].
  destruct W as (W1 & W2 & W3 & W4). unfold Wf. cbn [reg next_id sets]. repeat split.
  - apply remove_z_NoDup. exact W1.
  - intros x [H|[H|H]]; cbn [reg ext cur] in H.
    + apply remove_z_In in H. apply W2. left. apply H.
    + apply W2. right. left. exact H.
    + apply W2. right. right. exact H.
  - apply lookup_upd_inv in H. destruct H as (m0 & H0 & ->).
    destruct (touches _ r); [apply remove_z_NoDup|]; apply (W3 r m0 H0).
  - apply lookup_upd_inv in H. destruct H as (m0 & H0 & ->). intros x Hx.
    apply (W3 r m0 H0). destruct (touches _ r); [apply remove_z_In in Hx; apply Hx|exact Hx].
  - rewrite lookup_upd, W4. reflexivity.
Qed.

Lemma inv_do_remove a keep s : Inv s -> Inv (do_remove a keep s).
Proof.
  intros [W L]. unfold do_remove. destruct (alive s a) eqn:Ea; [|split; assumption].
  split; [|apply live_sweep]. apply wf_sweep.
  pose proof (wf_deregister a s W) as Wd. destruct keep; [|exact Wd].
  apply wf_add_ext; [exact Wd|].
  destruct (deregister_same a s) as (Hn & _). rewrite Hn. apply (wf_bound s a W Ea).
Qed.

Lemma NoDup_snoc (l : list Z) x : NoDup l -> ~ In x l -> NoDup (l ++ [x]).
Proof.
  induction l as [|y t IH]; simpl; intros Hn Hx.
  - constructor; [simpl; tauto|constructor].
  - inversion Hn; subst. constructor.
    + intros H. apply in_app_or in H. destruct H as [H|[H|[]]]; [tauto|]. subst. apply Hx. left. reflexivity.
    + apply IH; [assumption|tauto].
Qed.

Lemma lookup_create_inv c a l r m' :
  lookup r (if has_set (SType c) l
            then upd_sets (fun r m => if touches c r then m ++ [a] else m) l
            else upd_sets (fun r m => if touches c r then m ++ [a] else m) l ++ [(SType c, [a])])
  = Some m' ->
  (exists m, lookup r l = Some m /\ m' = if touches c r then m ++ [a] else m) \/
  (lookup r l = None /\ r = SType c /\ m' = [a]).
Proof.
  destruct (has_set (SType c) l).
  - intros H. left. apply lookup_upd_inv in H. exact H.
  - rewrite lookup_app, lookup_upd. destruct (lookup r l) as [m|]; cbn [option_map].
    + intros H. inversion H. left. exists m. split; reflexivity.
    + destruct (sref_eqb r (SType c)) eqn:E; intros H; [|discriminate].
      apply sref_eqb_eq in E. inversion H. right. repeat split; assumption.
Qed.

Lemma alive_create1 c keep s a : alive s a = true -> alive (create1 c keep s) a = true.
Proof.
  intros H. apply alive_spec in H. apply alive_spec. unfold refs in *. cbn [reg ext cur create1].
  destruct H as [H|[H|H]].
  - left. apply in_or_app. left. exact H.
  - right. left. destruct keep; [apply in_or_app; left|]; exact H.
  - right. right. exact H.
Qed.

Lemma inv_create1 c keep s : Inv s -> Inv (create1 c keep s).
Proof.
  intros [(W1 & W2 & W3 & W4) L].
  assert (~ In (next_id s) (reg s)) as Hfresh.
  { intros H. specialize (W2 (next_id s) (or_introl H)). lia. }
  split; [unfold Wf; repeat split|].
  - cbn [reg create1]. apply NoDup_snoc; assumption.
  - intros a [H|[H|H]]; cbn [reg ext cur next_id create1] in *.
    + apply in_app_or in H. destruct H as [H|[H|[]]]; [specialize (W2 a (or_introl H))|]; lia.
    + destruct keep.
      * apply in_app_or in H. destruct H as [H|[H|[]]]; [specialize (W2 a (or_intror (or_introl H)))|]; lia.
      * specialize (W2 a (or_intror (or_introl H))). lia.
    + specialize (W2 a (or_intror (or_intror H))). lia.
  - cbn [sets create1] in H. apply lookup_create_inv in H.
    destruct H as [(m0 & H0 & ->)|(_ & _ & ->)].
    + destruct (W3 r m0 H0) as [Hn Hb]. destruct (touches c r); [|exact Hn].
      apply NoDup_snoc; [exact Hn|]. intros Hin. specialize (Hb _ Hin). lia.
    + constructor; [simpl; tauto|constructor].
  - cbn [sets create1 next_id] in *. apply lookup_create_inv in H.
    destruct H as [(m0 & H0 & ->)|(_ & _ & ->)]; intros a Ha.
    + destruct (W3 r m0 H0) as [_ Hb]. destruct (touches c r).
      * apply in_app_or in Ha. destruct Ha as [Ha|[Ha|[]]]; [specialize (Hb a Ha)|]; lia.
      * specialize (Hb a Ha). lia.
    + destruct Ha as [Ha|[]]. lia.
  - cbn [sets create1 reg]. rewrite (lookup_create_sets c (next_id s) _ SAll _ W4). reflexivity.
  - intros r m H a Ha. cbn [sets create1] in H. apply lookup_create_inv in H.
    assert (alive (create1 c keep s) (next_id s) = true) as Hnew.
    { apply alive_spec. left. cbn [reg create1]. apply in_or_app. right. left. reflexivity. }
    destruct H as [(m0 & H0 & ->)|(_ & _ & ->)].
    + destruct (touches c r).
      * apply in_app_or in Ha. destruct Ha as [Ha|[Ha|[]]]; [|subst; exact Hnew].
        apply alive_create1. exact (L r m0 H0 a Ha).
      * apply alive_create1. exact (L r m0 H0 a Ha).
    + destruct Ha as [Ha|[]]. subst. exact Hnew.
Qed.

Lemma inv_create_n n c keep s : Inv s -> Inv (create_n n c keep s).
Proof.
  revert s. induction n as [|n IH]; intros s H; simpl; [exact H|]. apply IH. apply inv_create1. exact H.
Qed.

Lemma inv_exec_act self s a : Inv s -> Inv (exec_act self s a).
Proof.
  intros I. destruct a; simpl.
  - exact I.
  - apply inv_do_remove. exact I.
  - apply inv_do_remove. exact I.
  - apply inv_create_n. exact I.
  - destruct I as [W L]. split; [apply wf_sweep; apply wf_drop_ext; exact W|apply live_sweep].
  - destruct (alive s i) eqn:E; [|exact I]. destruct I as [W L]. split.
    + apply wf_add_ext; [exact W|apply (wf_bound s i W E)].
    + eapply live_same_sets; [exact L|reflexivity|].
      intros a Ha. apply alive_spec in Ha. apply alive_spec. unfold refs in *. cbn [reg ext cur set_ext].
      destruct Ha as [H|[H|H]]; [left; exact H|right; left; apply in_or_app; left; exact H|right; right; exact H].
  - exact I.
  - exact I.
  - exact I.
Qed.


(* ------------------------------------------------------------------ Part H: program-made sets, exactly *)
(* a program-made set only ever loses members, and never one that is still alive *)
Definition utrack (s s' : st) : Prop :=
  forall k m, lookup (SUser k) (sets s) = Some m ->
    exists keep, lookup (SUser k) (sets s') = Some (filter keep m) /\
                 forall x, In x m -> x < next_id s -> alive s' x = true -> keep x = true.

Lemma utrack_user_unchanged s s' :
  (forall k, lookup (SUser k) (sets s') = lookup (SUser k) (sets s)) -> utrack s s'.
Proof.
  intros H k m Hm. exists (fun _ => true). rewrite filter_all_true, H. split; [exact Hm|reflexivity].
Qed.

Lemma utrack_sweep s : utrack s (sweep s).
Proof.
  intros k m Hm. exists (alive s). cbn [sets sweep set_sets]. rewrite lookup_upd, Hm. split; [reflexivity|].
  intros x _ _ H. exact H.
Qed.

Lemma lookup_user_deregister a s k :
  lookup (SUser k) (sets (deregister a s)) = lookup (SUser k) (sets s).
Proof.
  unfold deregister. destruct (memz a (reg s)); [|reflexivity].
  cbn [sets]. rewrite lookup_upd. cbn [touches]. destruct (lookup (SUser k) (sets s)); reflexivity.
Qed.

Lemma utrack_deregister a s : utrack s (deregister a s).
Proof. apply utrack_user_unchanged. intros k. apply lookup_user_deregister. Qed.

Lemma utrack_create1 c keep s : utrack s (create1 c keep s).
Proof.
  apply utrack_user_unchanged. intros k. cbn [sets create1].
  destruct (has_set (SType c) (sets s)).
  - rewrite lookup_upd. cbn [touches]. destruct (lookup (SUser k) (sets s)); reflexivity.
  - rewrite lookup_app, lookup_upd. cbn [touches sref_eqb]. destruct (lookup (SUser k) (sets s)); reflexivity.
Qed.

Definition ev2 (s s' : st) : Prop := evolves s s' /\ utrack s s'.

Lemma ev2_refl s : ev2 s s.
Proof. split; [apply evolves_refl|apply utrack_user_unchanged; reflexivity]. Qed.

Lemma ev2_trans s1 s2 s3 : ev2 s1 s2 -> ev2 s2 s3 -> ev2 s1 s3.
Proof.
  intros [E1 U1] [E2 U2]. split; [eapply evolves_trans; eassumption|].
  destruct E1 as (N1 & D1 & _ & _). destruct E2 as (N2 & D2 & _ & _).
  intros k m Hm. destruct (U1 k m Hm) as (k1 & L1 & C1). destruct (U2 k _ L1) as (k2 & L2 & C2).
  exists (fun x => k1 x && k2 x). split; [rewrite L2, filter_filter; reflexivity|].
  intros x Hx Hb H3.
  assert (alive s2 x = true) as H2 by (apply D2; [lia|exact H3]).
  assert (k1 x = true) as K1 by (apply C1; assumption).
  rewrite K1. simpl. apply C2; [apply filter_In; split; assumption|lia|exact H3].
Qed.

Lemma ev2_same_user s s' :
  evolves s s' -> (forall k, lookup (SUser k) (sets s') = lookup (SUser k) (sets s)) -> ev2 s s'.
Proof. intros E H. split; [exact E|apply utrack_user_unchanged; exact H]. Qed.

Lemma ev2_sweep s : ev2 s (sweep s).
Proof. split; [apply evolves_sweep|apply utrack_sweep]. Qed.

Lemma ev2_do_remove a keep s : ev2 s (do_remove a keep s).
Proof.
  split; [apply evolves_do_remove|].
  unfold do_remove. destruct (alive s a) eqn:Ea; [|apply utrack_user_unchanged; reflexivity].
  (* deregister (user sets untouched), maybe one more reference, then the sweep *)
  intros k m Hm.
  set (s2 := if keep then set_ext (ext (deregister a s) ++ [a]) (deregister a s) else deregister a s).
  assert (lookup (SUser k) (sets s2) = Some m) as H2.
  { assert (sets s2 = sets (deregister a s)) as -> by (unfold s2; destruct keep; reflexivity).
    rewrite lookup_user_deregister. exact Hm. }
  exists (alive s2). cbn [sets sweep set_sets]. rewrite lookup_upd, H2. split; [reflexivity|].
  intros x _ _ H. exact H.
Qed.

Lemma ev2_create_n n c keep s : ev2 s (create_n n c keep s).
Proof.
  revert s. induction n as [|n IH]; intros s; simpl; [apply ev2_refl|].
  eapply ev2_trans; [|apply IH]. split; [apply evolves_create1|apply utrack_create1].
Qed.

Lemma ev2_exec_act self s a : ev2 s (exec_act self s a).
Proof.
  destruct a; simpl.
  - apply ev2_refl.
  - apply ev2_do_remove.
  - apply ev2_do_remove.
  - apply ev2_create_n.
  - eapply ev2_trans; [|apply ev2_sweep]. apply ev2_same_user; [apply evolves_drop_ext|reflexivity].
  - destruct (alive s i) eqn:E; [|apply ev2_refl]. apply ev2_same_user; [apply evolves_add_ext; exact E|reflexivity].
  - apply ev2_refl.
  - apply ev2_refl.
  - apply ev2_refl.
Qed.


(* ------------------------------------------------------------------ Part E: scripts that spare an agent *)
Definition removes (self : Z) (x : act) (a : Z) : bool :=
  match x with
  | RemoveSelf _ => self =? a
  | RemoveId i _ => i =? a
  | Nested _ _ _ => true          (* the inner activation may remove anybody *)
  | TryNested _ _ _ => true
  | _ => false
  end.

(* acts that can make the callback raise *)
Definition may_raise (x : act) : bool :=
  match x with Raise => true | Nested _ _ _ => true | TryNested _ _ _ => true | _ => false end.

(* nobody's turn contains a removal of a *)
Definition spares (sc : script) (a : Z) : Prop :=
  forall r x, In x (script_of sc r) -> removes r x a = false.
(* no callback raises or starts an activation of its own *)
Definition calm (sc : script) : Prop :=
  forall r x, In x (script_of sc r) -> may_raise x = false.

Lemma reg_sweep s : reg (sweep s) = reg s.
Proof. reflexivity. Qed.

Lemma reg_kept_do_remove i keep s a : In a (reg s) -> i <> a -> In a (reg (do_remove i keep s)).
Proof.
  intros Ha Hi. unfold do_remove. destruct (alive s i); [|exact Ha].
  rewrite reg_sweep.
  assert (In a (reg (deregister i s))) as Hd.
  { unfold deregister. destruct (memz i (reg s)); [|exact Ha]. cbn [reg]. apply remove_z_In. split; [exact Ha|congruence]. }
  destruct keep; exact Hd.
Qed.

Lemma reg_kept_create_n n c keep s a : In a (reg s) -> In a (reg (create_n n c keep s)).
Proof.
  revert s. induction n as [|n IH]; intros s H; simpl; [exact H|].
  apply IH. cbn [reg create1]. apply in_or_app. left. exact H.
Qed.

Lemma reg_kept_act self s x a : In a (reg s) -> removes self x a = false -> In a (reg (exec_act self s x)).
Proof.
  intros Ha Hr. destruct x; simpl in *.
  - exact Ha.
  - apply reg_kept_do_remove; [exact Ha|]. apply Z.eqb_neq. exact Hr.
  - apply reg_kept_do_remove; [exact Ha|]. apply Z.eqb_neq. exact Hr.
  - apply reg_kept_create_n. exact Ha.
  - exact Ha.
  - destruct (alive s i); exact Ha.
  - exact Ha.
  - discriminate.
  - discriminate.
Qed.


(* ------------------------------------------------------------------ Part I: agents_by_type *)
Definition cfilter (s : st) (c : Z) : list Z := filter (fun a => class_of s a =? c) (reg s).

(* Model._agents_by_type[c] is the registry filtered by exact class, in registry order, and every
   class of a registered agent is a key *)
Definition BT (s : st) : Prop :=
  (forall c m, lookup (SType c) (sets s) = Some m -> m = cfilter s c) /\
  (forall a, In a (reg s) -> has_set (SType (class_of s a)) (sets s) = true).

Lemma bt_core s s' : reg s' = reg s -> cls s' = cls s -> sets s' = sets s -> BT s -> BT s'.
Proof.
  intros Hr Hc Hs [B1 B2]. unfold BT, cfilter, class_of in *. rewrite Hr, Hc, Hs. split; assumption.
Qed.

Lemma has_set_upd g r l : has_set r (upd_sets g l) = has_set r l.
Proof.
  unfold has_set, upd_sets. induction l as [|e t IH]; simpl; [reflexivity|]. rewrite IH. reflexivity.
Qed.

Lemma has_set_app r l l' : has_set r (l ++ l') = has_set r l || has_set r l'.
Proof. unfold has_set. apply existsb_app. Qed.

Lemma lookup_none_has_set r l : lookup r l = None -> has_set r l = false.
Proof.
  unfold has_set. induction l as [|[r' m] t IH]; simpl; [reflexivity|].
  destruct (sref_eqb r r'); [discriminate|]. exact IH.
Qed.

Lemma filter_none {A} (f : A -> bool) l : (forall x, In x l -> f x = false) -> filter f l = [].
Proof.
  induction l as [|x t IH]; simpl; intros H; [reflexivity|].
  rewrite (H x (or_introl eq_refl)). apply IH. intros y Hy. apply H. right. exact Hy.
Qed.

Lemma remove_z_notin a l : ~ In a l -> remove_z a l = l.
Proof.
  intros H. unfold remove_z. apply filter_true_id. intros x Hx.
  destruct (a =? x) eqn:E; [apply Z.eqb_eq in E; subst; tauto|reflexivity].
Qed.

Lemma filter_remove_comm f a l : filter f (remove_z a l) = remove_z a (filter f l).
Proof.
  unfold remove_z. rewrite !filter_filter. apply filter_ext. intros x. apply andb_comm.
Qed.

Lemma bt_sweep s : BT s -> BT (sweep s).
Proof.
  intros [B1 B2]. split.
  - intros c m H. cbn [sets sweep set_sets] in H. apply lookup_upd_inv in H. destruct H as (m0 & H0 & ->).
    rewrite (B1 c m0 H0). change (cfilter (sweep s) c) with (cfilter s c).
    apply filter_true_id. intros x Hx. apply filter_In in Hx. apply alive_spec. left. apply Hx.
  - intros a Ha. cbn [sets sweep set_sets]. rewrite has_set_upd. apply (B2 a Ha).
Qed.

Lemma bt_deregister a s : BT s -> BT (deregister a s).
Proof.
  intros [B1 B2]. unfold deregister. destruct (memz a (reg s)) eqn:E; [|split; assumption].
  split.
  - intros c m H. cbn [sets] in H. apply lookup_upd_inv in H. destruct H as (m0 & H0 & ->).
    rewrite (B1 c m0 H0). unfold cfilter, class_of. cbn [reg cls touches].
    rewrite filter_remove_comm.
    destruct (class_of_l (cls s) a =? c) eqn:Ec; [reflexivity|].
    symmetry. apply remove_z_notin. intros Hin. apply filter_In in Hin. destruct Hin as [_ Hin].
    unfold class_of in Ec. rewrite Ec in Hin. discriminate.
  - intros x Hx. cbn [reg] in Hx. apply remove_z_In in Hx. cbn [sets]. rewrite has_set_upd.
    apply (B2 x). apply Hx.
Qed.

Lemma has_set_create c a l r :
  has_set r l = true ->
  has_set r (if has_set (SType c) l
             then upd_sets (fun r m => if touches c r then m ++ [a] else m) l
             else upd_sets (fun r m => if touches c r then m ++ [a] else m) l ++ [(SType c, [a])]) = true.
Proof.
  intros H. destruct (has_set (SType c) l); [rewrite has_set_upd; exact H|].
  rewrite has_set_app, has_set_upd, H. reflexivity.
Qed.

Lemma has_set_create_new c a l :
  has_set (SType c)
          (if has_set (SType c) l
           then upd_sets (fun r m => if touches c r then m ++ [a] else m) l
           else upd_sets (fun r m => if touches c r then m ++ [a] else m) l ++ [(SType c, [a])]) = true.
Proof.
  destruct (has_set (SType c) l) eqn:E; [rewrite has_set_upd; exact E|].
  rewrite has_set_app. apply orb_true_iff. right. unfold has_set. simpl. rewrite Z.eqb_refl. reflexivity.
Qed.

Lemma bt_create1 c keep s : Wf s -> BT s -> BT (create1 c keep s).
Proof.
  intros (W1 & W2 & _ & _) [B1 B2].
  assert (forall x, In x (reg s) -> (x =? next_id s) = false) as Hne.
  { intros x Hx. apply Z.eqb_neq. specialize (W2 x (or_introl Hx)). lia. }
  assert (forall c', cfilter (create1 c keep s) c' = cfilter s c' ++ (if c =? c' then [next_id s] else [])) as Hcf.
  { intros c'. unfold cfilter, class_of. cbn [reg cls create1]. rewrite filter_app. f_equal.
    - apply filter_ext_in. intros x Hx. cbn [class_of_l]. rewrite (Hne x Hx). reflexivity.
    - cbn [filter class_of_l]. rewrite Z.eqb_refl. destruct (c =? c'); reflexivity. }
  split.
  - intros c' m H. cbn [sets create1] in H. apply lookup_create_inv in H. rewrite Hcf.
    destruct H as [(m0 & H0 & ->)|(Hnone & Heq & ->)].
    + rewrite (B1 c' m0 H0). cbn [touches]. destruct (c =? c'); [reflexivity|rewrite app_nil_r; reflexivity].
    + inversion Heq; subst c'. rewrite Z.eqb_refl.
      assert (cfilter s c = []) as ->; [|reflexivity].
      apply filter_none. intros x Hx. destruct (class_of s x =? c) eqn:Ec; [|reflexivity].
      apply Z.eqb_eq in Ec. pose proof (B2 x Hx) as Hh. rewrite Ec in Hh.
      rewrite (lookup_none_has_set _ _ Hnone) in Hh. discriminate.
  - intros x Hx. cbn [reg create1] in Hx. cbn [sets create1]. unfold class_of. cbn [cls create1 class_of_l].
    apply in_app_or in Hx. destruct Hx as [Hx|[Hx|[]]].
    + rewrite (Hne x Hx). apply has_set_create. apply (B2 x Hx).
    + subst x. rewrite Z.eqb_refl. apply has_set_create_new.
Qed.

Lemma inv_bt_create_n n c keep s : Inv s -> BT s -> BT (create_n n c keep s).
Proof.
  revert s. induction n as [|n IH]; intros s I B; simpl; [exact B|].
  apply IH; [apply inv_create1; exact I|apply bt_create1; [apply I|exact B]].
Qed.

Lemma bt_do_remove a keep s : BT s -> BT (do_remove a keep s).
Proof.
  intros B. unfold do_remove. destruct (alive s a); [|exact B].
  apply bt_sweep. pose proof (bt_deregister a s B) as Bd. destruct keep; [|exact Bd].
  eapply bt_core; [| | |exact Bd]; reflexivity.
Qed.

Lemma bt_exec_act self s a : Inv s -> BT s -> BT (exec_act self s a).
Proof.
  intros I B. destruct a; simpl.
  - exact B.
  - apply bt_do_remove. exact B.
  - apply bt_do_remove. exact B.
  - apply inv_bt_create_n; assumption.
  - apply bt_sweep. eapply bt_core; [| | |exact B]; reflexivity.
  - destruct (alive s i); [|exact B]. eapply bt_core; [| | |exact B]; reflexivity.
  - exact B.
  - exact B.
  - exact B.
Qed.

Lemma zlist_eqb_eq a : forall b, zlist_eqb a b = true -> a = b.
Proof.
  induction a as [|x a IH]; intros [|y b]; simpl; intros H; try discriminate; [reflexivity|].
  apply andb_true_iff in H. destruct H as [H1 H2]. apply Z.eqb_eq in H1. subst. f_equal. apply IH. exact H2.
Qed.

Lemma is_perm_Permutation p l : is_perm p l = true -> Permutation p l.
Proof.
  unfold is_perm. intros H. apply zlist_eqb_eq in H.
  eapply Permutation_trans; [apply zsort_perm|]. rewrite H. apply Permutation_sym. apply zsort_perm.
Qed.

Lemma visit_order_spec k perm snap order :
  visit_order k perm snap = Some order ->
  Permutation order snap /\ (k <> KShuffleDo -> order = snap) /\ (k = KShuffleDo -> order = perm).
Proof.
  destruct k; simpl.
  - intros H. inversion H. subst. repeat split; auto. discriminate.
  - destruct (is_perm perm snap) eqn:E; [|discriminate]. intros H. inversion H. subst.
    repeat split; auto; [apply is_perm_Permutation; exact E|congruence].
  - intros H. inversion H. subst. repeat split; auto. discriminate.
Qed.


(* ------------------------------------------------------------------ Part J: the loop, for any executor *)
Definition vst (x : st * list Z * bool) : st := fst (fst x).
Definition vlog (x : st * list Z * bool) : list Z := snd (fst x).
Definition vrz (x : st * list Z * bool) : bool := snd x.

Lemma subseq_nil l : subseq [] l.
Proof. induction l; constructor; assumption. Qed.

(* what the proofs need to know about the code run inside a callback *)
Definition good_ex (ex : executor) : Prop :=
  (forall self s a, ev2 s (fst (ex self s a))) /\
  (forall self s a, Inv s -> Inv (fst (ex self s a))) /\
  (forall self s a, Inv s -> BT s -> BT (fst (ex self s a))) /\
  (forall self s x a, In a (reg s) -> removes self x a = false -> In a (reg (fst (ex self s x)))) /\
  (forall self s x, may_raise x = false -> snd (ex self s x) = false).

Section Generic.
Variable ex : executor.

(* the reference r has been inspected and, if alive, its agent called: state, and did it raise *)
Definition visit1 (sc : script) (r : Z) (s : st) : st * bool :=
  if alive s r then run_acts ex r (script_of sc r) (sweep (set_cur (Some r) s))
  else (sweep (set_cur None s), false).

Lemma visit_cons sc r rest s :
  visit ex sc (r :: rest) s =
  if alive s r then
    if snd (visit1 sc r s) then (fst (visit1 sc r s), [r], true)
    else (vst (visit ex sc rest (fst (visit1 sc r s))),
          r :: vlog (visit ex sc rest (fst (visit1 sc r s))),
          vrz (visit ex sc rest (fst (visit1 sc r s))))
  else visit ex sc rest (fst (visit1 sc r s)).
Proof.
  simpl. unfold visit1. destruct (alive s r); [|reflexivity].
  destruct (run_acts ex r (script_of sc r) _) as [s2 rz]. cbn [fst snd]. destruct rz; [reflexivity|].
  destruct (visit ex sc rest s2) as [[s3 log] z]. reflexivity.
Qed.

Lemma visit1_dead sc r s : alive s r = false -> snd (visit1 sc r s) = false.
Proof. intros H. unfold visit1. rewrite H. reflexivity. Qed.

Lemma visit_app sc o1 o2 s :
  visit ex sc (o1 ++ o2) s =
  if vrz (visit ex sc o1 s) then visit ex sc o1 s
  else (vst (visit ex sc o2 (vst (visit ex sc o1 s))),
        vlog (visit ex sc o1 s) ++ vlog (visit ex sc o2 (vst (visit ex sc o1 s))),
        vrz (visit ex sc o2 (vst (visit ex sc o1 s)))).
Proof.
  revert s. induction o1 as [|r t IH]; intros s.
  - simpl. unfold vst, vlog, vrz. cbn [fst snd]. destruct (visit ex sc o2 s) as [[a b] c]. reflexivity.
  - rewrite <- app_comm_cons. rewrite !visit_cons. destruct (alive s r).
    + destruct (snd (visit1 sc r s)); [reflexivity|]. rewrite IH. unfold vst, vlog, vrz.
      destruct (visit ex sc t (fst (visit1 sc r s))) as [[a b] c]. cbn [fst snd].
      destruct c; reflexivity.
    + apply IH.
Qed.

Lemma visit_log_subseq sc order s : subseq (vlog (visit ex sc order s)) order.
Proof.
  revert s. induction order as [|r t IH]; intros s.
  - simpl. constructor.
  - rewrite visit_cons. destruct (alive s r).
    + destruct (snd (visit1 sc r s)); unfold vlog; cbn [fst snd]; constructor; [apply subseq_nil|apply IH].
    + constructor. apply IH.
Qed.

Lemma visit_log_NoDup sc order s : NoDup order -> NoDup (vlog (visit ex sc order s)).
Proof. intros H. eapply subseq_NoDup; [apply visit_log_subseq|exact H]. Qed.

(* the state in which the reference of agent a is inspected, if the loop gets that far *)
Fixpoint turn_state (sc : script) (order : list Z) (s : st) (a : Z) : option st :=
  match order with
  | [] => None
  | r :: rest => if r =? a then Some s
                 else if snd (visit1 sc r s) then None
                 else turn_state sc rest (fst (visit1 sc r s)) a
  end.

Lemma visit_exact sc order s a :
  NoDup order ->
  (In a (vlog (visit ex sc order s)) <->
   exists s1, turn_state sc order s a = Some s1 /\ alive s1 a = true).
Proof.
  revert s. induction order as [|r t IH]; intros s Hn.
  - simpl. split; [tauto|]. intros [s1 [H _]]. discriminate.
  - inversion Hn as [|? ? Hnotin Hn']; subst. rewrite visit_cons. cbn [turn_state].
    destruct (r =? a) eqn:E.
    + apply Z.eqb_eq in E. subst r. split.
      * intros H. exists s. split; [reflexivity|].
        destruct (alive s a) eqn:Ea; [reflexivity|]. exfalso. apply Hnotin.
        eapply subseq_In; [apply visit_log_subseq|exact H].
      * intros [s1 [H1 H2]]. inversion H1; subst s1. rewrite H2.
        destruct (snd (visit1 sc a s)); unfold vlog; cbn [fst snd]; left; reflexivity.
    + apply Z.eqb_neq in E. destruct (alive s r) eqn:Er.
      * destruct (snd (visit1 sc r s)).
        -- unfold vlog; cbn [fst snd]. split; [intros [H|[]]; congruence|intros [s1 [H _]]; discriminate].
        -- rewrite <- IH by exact Hn'. unfold vlog at 1; cbn [fst snd].
           split; [intros [H|H]; [congruence|exact H]|intros H; right; exact H].
      * rewrite (visit1_dead sc r s Er). apply IH. exact Hn'.
Qed.

(* a member still registered when its turn comes is called, unless an exception ended the loop before *)
Lemma visit_registered_called sc pre a post s :
  vrz (visit ex sc pre s) = false ->
  In a (reg (vst (visit ex sc pre s))) -> In a (vlog (visit ex sc (pre ++ a :: post) s)).
Proof.
  intros Hz H. rewrite visit_app, Hz. unfold vlog at 1. cbn [fst snd]. apply in_or_app. right.
  rewrite visit_cons.
  assert (alive (vst (visit ex sc pre s)) a = true) as -> by (apply alive_spec; left; exact H).
  destruct (snd (visit1 sc a _)); unfold vlog; cbn [fst snd]; left; reflexivity.
Qed.

(* an exception: the log ends with the agent whose callback raised, nobody after it in the visiting
   order is called, and the state left behind is the one at the raise *)
Lemma visit_raised sc order : forall s,
  vrz (visit ex sc order s) = true ->
  exists pre r post,
    order = pre ++ r :: post /\ vrz (visit ex sc pre s) = false /\
    alive (vst (visit ex sc pre s)) r = true /\
    snd (visit1 sc r (vst (visit ex sc pre s))) = true /\
    vlog (visit ex sc order s) = vlog (visit ex sc pre s) ++ [r] /\
    vst (visit ex sc order s) = fst (visit1 sc r (vst (visit ex sc pre s))).
Proof.
  induction order as [|r t IH]; intros s Hz; [simpl in Hz; discriminate|].
  rewrite visit_cons in Hz. rewrite visit_cons.
  destruct (alive s r) eqn:Er.
  - destruct (snd (visit1 sc r s)) eqn:Es.
    + exists [], r, t. simpl. repeat split; assumption.
    + unfold vrz in Hz; cbn [snd] in Hz. destruct (IH _ Hz) as (pre & r0 & post & -> & Hp & Ha & Hs & Hl & Hst).
      exists (r :: pre), r0, post. rewrite !visit_cons, Er, Es. unfold vrz, vlog, vst in *. cbn [fst snd] in *.
      repeat split; try assumption. rewrite Hl. reflexivity.
  - destruct (IH _ Hz) as (pre & r0 & post & -> & Hp & Ha & Hs & Hl & Hst).
    exists (r :: pre), r0, post. rewrite !visit_cons, Er. repeat split; assumption.
Qed.

Hypothesis G : good_ex ex.

Lemma ev2_run_acts self l : forall s, ev2 s (fst (run_acts ex self l s)).
Proof.
  induction l as [|a t IH]; intros s; simpl; [apply ev2_refl|].
  destruct G as (G1 & _). specialize (G1 self s a). destruct (ex self s a) as [s' rz]. cbn [fst] in G1.
  destruct rz; [exact G1|]. eapply ev2_trans; [exact G1|apply IH].
Qed.

Lemma inv_run_acts self l : forall s, Inv s -> Inv (fst (run_acts ex self l s)).
Proof.
  induction l as [|a t IH]; intros s I; simpl; [exact I|].
  destruct G as (_ & G2 & _). specialize (G2 self s a I). destruct (ex self s a) as [s' rz]. cbn [fst] in G2.
  destruct rz; [exact G2|]. apply IH. exact G2.
Qed.

Lemma bt_run_acts self l : forall s, Inv s -> BT s -> BT (fst (run_acts ex self l s)).
Proof.
  induction l as [|a t IH]; intros s I B; simpl; [exact B|].
  destruct G as (_ & G2 & G3 & _). specialize (G2 self s a I). specialize (G3 self s a I B).
  destruct (ex self s a) as [s' rz]. cbn [fst] in *.
  destruct rz; [exact G3|]. apply IH; assumption.
Qed.

Lemma reg_kept_run_acts self l a : forall s,
  In a (reg s) -> (forall x, In x l -> removes self x a = false) -> In a (reg (fst (run_acts ex self l s))).
Proof.
  induction l as [|x t IH]; intros s Ha Hl; simpl; [exact Ha|].
  destruct G as (_ & _ & _ & G4 & _). specialize (G4 self s x a Ha (Hl x (or_introl eq_refl))).
  destruct (ex self s x) as [s' rz]. cbn [fst] in G4. destruct rz; [exact G4|].
  apply IH; [exact G4|]. intros y Hy. apply Hl. right. exact Hy.
Qed.

Lemma calm_run_acts self l : forall s,
  (forall x, In x l -> may_raise x = false) -> snd (run_acts ex self l s) = false.
Proof.
  induction l as [|x t IH]; intros s Hl; simpl; [reflexivity|].
  destruct G as (_ & _ & _ & _ & G5). specialize (G5 self s x (Hl x (or_introl eq_refl))).
  destruct (ex self s x) as [s' rz]. cbn [snd] in G5. subst rz. apply IH. intros y Hy. apply Hl. right. exact Hy.
Qed.

Lemma ev2_visit1 sc r s : ev2 s (fst (visit1 sc r s)).
Proof.
  unfold visit1. destruct (alive s r) eqn:E.
  - eapply ev2_trans; [apply ev2_same_user; [apply evolves_set_cur_some; exact E|reflexivity]|].
    eapply ev2_trans; [apply ev2_sweep|apply ev2_run_acts].
  - eapply ev2_trans; [apply ev2_same_user; [apply evolves_set_cur_none|reflexivity]|apply ev2_sweep].
Qed.

Lemma inv_visit1 sc r s : Inv s -> Inv (fst (visit1 sc r s)).
Proof.
  intros [W L]. unfold visit1. destruct (alive s r) eqn:E.
  - apply inv_run_acts. split; [apply wf_sweep; apply wf_set_cur_some; assumption|apply live_sweep].
  - split; [apply wf_sweep; apply wf_set_cur_none; assumption|apply live_sweep].
Qed.

Lemma bt_visit1 sc r s : Inv s -> BT s -> BT (fst (visit1 sc r s)).
Proof.
  intros [W L] B. unfold visit1. destruct (alive s r) eqn:E.
  - apply bt_run_acts.
    + split; [apply wf_sweep; apply wf_set_cur_some; assumption|apply live_sweep].
    + apply bt_sweep. eapply bt_core; [| | |exact B]; reflexivity.
  - apply bt_sweep. eapply bt_core; [| | |exact B]; reflexivity.
Qed.

Lemma reg_kept_visit1 sc r s a : In a (reg s) -> spares sc a -> In a (reg (fst (visit1 sc r s))).
Proof.
  intros Ha Hs. unfold visit1. destruct (alive s r); [|exact Ha].
  apply reg_kept_run_acts; [exact Ha|]. intros x Hx. apply (Hs r x Hx).
Qed.

Lemma calm_visit1 sc r s : calm sc -> snd (visit1 sc r s) = false.
Proof.
  intros Hc. unfold visit1. destruct (alive s r); [|reflexivity].
  apply calm_run_acts. intros x Hx. apply (Hc r x Hx).
Qed.

(* everything below follows the same recursion *)
Lemma visit_ind_state (P : st -> Prop) sc :
  (forall r s, P s -> P (fst (visit1 sc r s))) ->
  forall order s, P s -> P (vst (visit ex sc order s)).
Proof.
  intros Hstep. induction order as [|r t IH]; intros s Hs; [exact Hs|].
  rewrite visit_cons. destruct (alive s r).
  - destruct (snd (visit1 sc r s)); unfold vst; cbn [fst]; [apply Hstep; exact Hs|].
    apply IH. apply Hstep. exact Hs.
  - apply IH. apply Hstep. exact Hs.
Qed.

Lemma ev2_visit sc order s : ev2 s (vst (visit ex sc order s)).
Proof.
  apply (visit_ind_state (fun s' => ev2 s s')); [|apply ev2_refl].
  intros r s' H. eapply ev2_trans; [exact H|apply ev2_visit1].
Qed.

Lemma inv_visit sc order s : Inv s -> Inv (vst (visit ex sc order s)).
Proof. apply (visit_ind_state Inv). intros r s'. apply inv_visit1. Qed.

Lemma inv_bt_visit sc order s : Inv s -> BT s -> Inv (vst (visit ex sc order s)) /\ BT (vst (visit ex sc order s)).
Proof.
  intros I B. apply (visit_ind_state (fun s' => Inv s' /\ BT s')); [|split; assumption].
  intros r s' [I' B']. split; [apply inv_visit1; exact I'|apply bt_visit1; assumption].
Qed.

Lemma reg_kept_visit sc order s a : In a (reg s) -> spares sc a -> In a (reg (vst (visit ex sc order s))).
Proof.
  intros Ha Hs. apply (visit_ind_state (fun s' => In a (reg s'))); [|exact Ha].
  intros r s' H. apply reg_kept_visit1; assumption.
Qed.

Lemma calm_visit sc order : forall s, calm sc -> vrz (visit ex sc order s) = false.
Proof.
  induction order as [|r t IH]; intros s Hc; [reflexivity|].
  rewrite visit_cons, (calm_visit1 sc r s Hc). destruct (alive s r); [unfold vrz; cbn [snd]|]; apply IH; exact Hc.
Qed.

(* death is final: a dead agent (its id already handed out) is never called again *)
Lemma dead_never_called sc order : forall s a,
  alive s a = false -> a < next_id s -> ~ In a (vlog (visit ex sc order s)).
Proof.
  induction order as [|r t IH]; intros s a Hd Hb; [simpl; tauto|].
  rewrite visit_cons.
  pose proof (ev2_visit1 sc r s) as [(N & D & _ & _) _].
  assert (alive (fst (visit1 sc r s)) a = false) as Hd'.
  { destruct (alive (fst (visit1 sc r s)) a) eqn:E; [|reflexivity]. rewrite (D a Hb E) in Hd. discriminate. }
  assert (~ In a (vlog (visit ex sc t (fst (visit1 sc r s))))) as Hrest by (apply IH; [exact Hd'|lia]).
  destruct (alive s r) eqn:Er; [|exact Hrest].
  destruct (snd (visit1 sc r s)); unfold vlog; cbn [fst snd].
  - intros [H|[]]. subst. congruence.
  - intros [H|H]; [subst; congruence|exact (Hrest H)].
Qed.

Lemma unremoved_called sc order s a :
  In a (reg s) -> spares sc a -> calm sc -> In a order -> In a (vlog (visit ex sc order s)).
Proof.
  intros Ha Hs Hc Hin. apply in_split in Hin. destruct Hin as (pre & post & ->).
  apply visit_registered_called; [apply calm_visit; exact Hc|apply reg_kept_visit; assumption].
Qed.

(* no removal, no exception anywhere in the script: the log is the whole visiting order *)
Lemma no_removal_all_called sc order : forall s,
  (forall a, spares sc a) -> calm sc -> (forall a, In a order -> In a (reg s)) ->
  vlog (visit ex sc order s) = order.
Proof.
  induction order as [|r t IH]; intros s Hs Hc Hr; [reflexivity|].
  rewrite visit_cons, (calm_visit1 sc r s Hc).
  assert (alive s r = true) as -> by (apply alive_spec; left; apply Hr; left; reflexivity).
  unfold vlog; cbn [fst snd]. f_equal. apply IH; [exact Hs|exact Hc|].
  intros a Ha. apply reg_kept_visit1; [|apply Hs]. apply Hr. right. exact Ha.
Qed.

(* --- one activation --- *)
Lemma activate_spec k perm sc snap s s' log rz :
  activate ex k perm sc snap s = Some (s', log, rz) ->
  exists order, visit_order k perm snap = Some order /\
                log = vlog (visit ex sc order (push_frame s)) /\
                rz = vrz (visit ex sc order (push_frame s)) /\
                s' = sweep (pop_frame (vst (visit ex sc order (push_frame s)))).
Proof.
  unfold activate. destruct (visit_order k perm snap) as [order|]; [|discriminate].
  destruct (visit ex sc order (push_frame s)) as [[s1 l] z] eqn:E. intros H. inversion H; subst.
  exists order. rewrite E. repeat split; reflexivity.
Qed.

Lemma ev2_activate k perm sc snap s s' log rz :
  activate ex k perm sc snap s = Some (s', log, rz) -> ev2 s s'.
Proof.
  intros H. apply activate_spec in H. destruct H as (order & _ & _ & _ & ->).
  eapply ev2_trans; [apply ev2_same_user; [apply evolves_push|reflexivity]|].
  eapply ev2_trans; [apply ev2_visit|].
  eapply ev2_trans; [apply ev2_same_user; [apply evolves_pop|reflexivity]|apply ev2_sweep].
Qed.

Lemma inv_bt_activate k perm sc snap s s' log rz :
  Inv s -> BT s -> activate ex k perm sc snap s = Some (s', log, rz) -> Inv s' /\ BT s'.
Proof.
  intros [W L] B H. apply activate_spec in H. destruct H as (order & _ & _ & _ & ->).
  destruct (inv_bt_visit sc order (push_frame s)) as [[W' L'] B'].
  - split; [apply wf_push; exact W|]. eapply live_same_sets; [exact L|reflexivity|].
    intros a Ha. apply alive_spec in Ha. apply alive_spec. unfold refs in *. cbn [reg ext cur push_frame set_frames].
    destruct Ha as [Ha|[Ha|Ha]]; [left; exact Ha|right; left; exact Ha|right; right; right; exact Ha].
  - eapply bt_core; [| | |exact B]; reflexivity.
  - split; [split; [apply wf_sweep; apply wf_pop; exact W'|apply live_sweep]|].
    apply bt_sweep. eapply bt_core; [| | |exact B']; reflexivity.
Qed.

Lemma inv_activate k perm sc snap s s' log rz :
  Inv s -> activate ex k perm sc snap s = Some (s', log, rz) -> Inv s'.
Proof.
  intros [W L] H. apply activate_spec in H. destruct H as (order & _ & _ & _ & ->).
  assert (Inv (push_frame s)) as Ip.
  { split; [apply wf_push; exact W|]. eapply live_same_sets; [exact L|reflexivity|].
    intros a Ha. apply alive_spec in Ha. apply alive_spec. unfold refs in *. cbn [reg ext cur push_frame set_frames].
    destruct Ha as [Ha|[Ha|Ha]]; [left; exact Ha|right; left; exact Ha|right; right; right; exact Ha]. }
  destruct (inv_visit sc order _ Ip) as [W' L'].
  split; [apply wf_sweep; apply wf_pop; exact W'|apply live_sweep].
Qed.

Lemma activate_once k perm sc snap s s' log rz :
  NoDup snap -> activate ex k perm sc snap s = Some (s', log, rz) -> NoDup log.
Proof.
  intros Hn H. apply activate_spec in H. destruct H as (order & Ho & -> & _).
  apply visit_log_NoDup. apply visit_order_spec in Ho. destruct Ho as (P & _).
  eapply Permutation_NoDup; [apply Permutation_sym; exact P|exact Hn].
Qed.

Lemma activate_order k perm sc snap s s' log rz :
  activate ex k perm sc snap s = Some (s', log, rz) ->
  match k with
  | KShuffleDo => subseq log perm /\ Permutation perm snap
  | _ => subseq log snap
  end.
Proof.
  intros H. apply activate_spec in H. destruct H as (order & Ho & -> & _).
  pose proof (visit_log_subseq sc order (push_frame s)) as Hs.
  apply visit_order_spec in Ho. destruct Ho as (P & H1 & H2).
  destruct k.
  - rewrite <- H1 by discriminate. exact Hs.
  - rewrite <- H2 by reflexivity. split; [exact Hs|exact P].
  - rewrite <- H1 by discriminate. exact Hs.
Qed.

Lemma activate_members_only k perm sc snap s s' log rz :
  activate ex k perm sc snap s = Some (s', log, rz) -> forall a, In a log -> In a snap.
Proof.
  intros H a Ha. apply activate_spec in H. destruct H as (order & Ho & -> & _).
  apply visit_order_spec in Ho. destruct Ho as (P & _).
  eapply Permutation_in; [exact P|]. eapply subseq_In; [apply visit_log_subseq|exact Ha].
Qed.

Lemma activate_exact k perm sc snap s s' log rz order :
  NoDup snap -> activate ex k perm sc snap s = Some (s', log, rz) -> visit_order k perm snap = Some order ->
  forall a, In a log <-> exists s1, turn_state sc order (push_frame s) a = Some s1 /\ alive s1 a = true.
Proof.
  intros Hn H Ho a. apply activate_spec in H. destruct H as (order' & Ho' & -> & _).
  rewrite Ho in Ho'. inversion Ho'; subst order'. apply visit_exact.
  apply visit_order_spec in Ho. destruct Ho as (P & _).
  eapply Permutation_NoDup; [apply Permutation_sym; exact P|exact Hn].
Qed.

Lemma activate_no_new k perm sc snap s s' log rz :
  (forall a, In a snap -> a < next_id s) ->
  activate ex k perm sc snap s = Some (s', log, rz) ->
  (forall a, In a log -> a < next_id s) /\
  (forall a, In a (reg s') -> ~ In a (reg s) -> next_id s <= a /\ ~ In a log).
Proof.
  intros Hb H. split.
  - intros a Ha. apply Hb. eapply activate_members_only; eassumption.
  - intros a Ha Hn. pose proof (ev2_activate _ _ _ _ _ _ _ _ H) as [(_ & _ & R & _) _].
    destruct (R a Ha) as [Hr|Hr]; [tauto|]. split; [lia|].
    intros Hl. assert (a < next_id s) by (apply Hb; eapply activate_members_only; eassumption). lia.
Qed.

(* --- GroupBy.do / map --- *)
Lemma inv_bt_visit_groups k sc gs : forall perms s s' logs rz,
  Inv s -> BT s -> visit_groups ex k sc gs perms s = Some (s', logs, rz) -> Inv s' /\ BT s'.
Proof.
  induction gs as [|[key g] gs IH]; intros perms s s' logs rz I B; simpl.
  - intros H. inversion H; subst. split; assumption.
  - destruct (activate ex k (hd [] perms) sc (filter (alive s) g) s) as [[[s1 log1] rz1]|] eqn:E; [|discriminate].
    destruct (inv_bt_activate _ _ _ _ _ _ _ _ I B E) as [I1 B1].
    destruct rz1; [intros H; inversion H; subst; split; assumption|].
    destruct (visit_groups ex k sc gs (tl perms) s1) as [[[s2 logs2] rz2]|] eqn:E2; [|discriminate].
    intros H. inversion H; subst. eapply IH; eassumption.
Qed.

End Generic.

(* ------------------------------------------------------------------ Part K: the two executors *)
Lemma ev2_nlog s l : ev2 s (set_nlog l s).
Proof.
  apply ev2_same_user; [|reflexivity]. apply evolves_same_sets; try reflexivity. intros a Ha. exact Ha.
Qed.

Lemma inv_nlog s l : Inv s -> Inv (set_nlog l s).
Proof.
  intros [W L]. split.
  - eapply wf_same_sets; try exact W; try reflexivity. intros a Ha. destruct W as (_ & W2 & _). apply W2. exact Ha.
  - eapply live_same_sets; [exact L|reflexivity|]. intros a Ha. exact Ha.
Qed.

Lemma bt_nlog s l : BT s -> BT (set_nlog l s).
Proof. intros B. eapply bt_core; [| | |exact B]; reflexivity. Qed.

Lemma good_ex0 : good_ex ex0.
Proof.
  unfold good_ex. split; [|split; [|split; [|split]]]; cbn [ex0 fst snd].
  - intros self s a. apply ev2_exec_act.
  - intros self s a I. apply inv_exec_act; assumption.
  - intros self s a I B. apply bt_exec_act; assumption.
  - intros self s x a. apply reg_kept_act.
  - intros self s x H. destruct x; simpl in *; congruence.
Qed.

(* what a nested activation leaves behind, whatever it was *)
Lemma ex_next_nested_cases inner sc2 self s a k r perm :
  a = Nested k r perm \/ a = TryNested k r perm ->
  fst (ex_next inner sc2 self s a) = s \/
  (exists l, fst (ex_next inner sc2 self s a) = set_nlog l s) \/
  (exists snap s' log rz l, activate inner k perm sc2 snap s = Some (s', log, rz) /\
                            fst (ex_next inner sc2 self s a) = set_nlog l s').
Proof.
  intros [->| ->]; cbn [ex_next]; (destruct (lookup r (sets s)) as [snap|]; [|left; reflexivity]);
    destruct (activate inner k perm sc2 snap s) as [[[s' log] rz]|] eqn:E.
  - right. right. exists snap, s', log, rz. eexists. split; [exact E|reflexivity].
  - right. left. eexists. reflexivity.
  - right. right. exists snap, s', log, rz. eexists. split; [exact E|reflexivity].
  - right. left. eexists. reflexivity.
Qed.

Lemma ex_next_nested_props inner sc2 self s a k r perm :
  good_ex inner -> a = Nested k r perm \/ a = TryNested k r perm ->
  ev2 s (fst (ex_next inner sc2 self s a)) /\
  (Inv s -> Inv (fst (ex_next inner sc2 self s a))) /\
  (Inv s -> BT s -> BT (fst (ex_next inner sc2 self s a))).
Proof.
  intros Gi Ha.
  destruct (ex_next_nested_cases inner sc2 self s a k r perm Ha) as [Hc|[(l & Hc)|(snap & s' & log & rz & l & E & Hc)]];
    rewrite Hc.
  - split; [apply ev2_refl|split; [tauto|tauto]].
  - split; [apply ev2_nlog|split; [apply inv_nlog|intros _; apply bt_nlog]].
  - split; [eapply ev2_trans; [apply (ev2_activate inner Gi _ _ _ _ _ _ _ _ E)|apply ev2_nlog]|split].
    + intros I. apply inv_nlog. apply (inv_activate inner Gi _ _ _ _ _ _ _ _ I E).
    + intros I B. apply bt_nlog. apply (inv_bt_activate inner Gi _ _ _ _ _ _ _ _ I B E).
Qed.

Lemma good_ex_next inner sc2 : good_ex inner -> good_ex (ex_next inner sc2).
Proof.
  intros Gi. destruct good_ex0 as (G1 & G2 & G3 & G4 & G5).
  unfold good_ex. split; [|split; [|split; [|split]]].
  - intros self s a. destruct a; try apply G1.
    + apply (ex_next_nested_props inner sc2 self s _ k r perm Gi (or_introl eq_refl)).
    + apply (ex_next_nested_props inner sc2 self s _ k r perm Gi (or_intror eq_refl)).
  - intros self s a. destruct a; try apply G2.
    + apply (ex_next_nested_props inner sc2 self s _ k r perm Gi (or_introl eq_refl)).
    + apply (ex_next_nested_props inner sc2 self s _ k r perm Gi (or_intror eq_refl)).
  - intros self s a. destruct a; try apply G3.
    + apply (ex_next_nested_props inner sc2 self s _ k r perm Gi (or_introl eq_refl)).
    + apply (ex_next_nested_props inner sc2 self s _ k r perm Gi (or_intror eq_refl)).
  - intros self s x a Ha Hr. destruct x; try (apply G4; assumption); discriminate.
  - intros self s x Hm. destruct x; try (apply G5; assumption); discriminate.
Qed.

Lemma good_ex1 sc2 : good_ex (ex1 sc2).
Proof. apply good_ex_next. apply good_ex0. Qed.

Lemma good_exN scs : good_ex (exN scs).
Proof. induction scs as [|sc2 rest IH]; [apply good_ex0|apply good_ex_next; exact IH]. Qed.

(* ------------------------------------------------------------------ Part L: histories *)
Lemma inv_init : Inv init_st.
Proof.
  split; [unfold Wf; repeat split|].
  - constructor.
  - intros a [H|[H|H]]; simpl in H; tauto.
  - simpl in H. destruct (sref_eqb r SAll); inversion H. constructor.
  - simpl in H. destruct (sref_eqb r SAll); inversion H. intros a [].
  - intros r m H a Ha. simpl in H. destruct (sref_eqb r SAll); inversion H. subst. destruct Ha.
Qed.

Lemma bt_init : BT init_st.
Proof. split; [intros c m H; simpl in H; discriminate|intros a []]. Qed.

Lemma shuffle_then_do_unfold ex perm sc snap s res :
  shuffle_then_do ex perm sc snap s = Some res ->
  activate ex KDo [] sc (filter (alive s) perm) s = Some res.
Proof. unfold shuffle_then_do, shuffle_new. destruct (is_perm perm snap); [tauto|discriminate]. Qed.

(* --- groupby(result_type="list"): strong lists --- *)
Lemma wf_frames_subset c s :
  Wf s -> (forall a, In (Some a) c -> In (Some a) (cur s) \/ a < next_id s) -> Wf (set_frames c s).
Proof.
  intros W H. eapply wf_same_sets; try exact W; try reflexivity.
  intros a [Ha|[Ha|Ha]].
  - apply (wf_bound s a W). apply alive_spec. left. exact Ha.
  - apply (wf_bound s a W). apply alive_spec. right. left. exact Ha.
  - cbn [cur set_frames] in Ha. destruct (H a Ha) as [Hc|Hc]; [|exact Hc].
    apply (wf_bound s a W). apply alive_spec. right. right. exact Hc.
Qed.

Lemma inv_bt_hold l s : Inv s -> BT s -> (forall a, In a l -> a < next_id s) -> Inv (hold l s) /\ BT (hold l s).
Proof.
  intros [W L] B Hb. split; [split|].
  - apply wf_frames_subset; [exact W|]. intros a Ha. apply in_app_or in Ha. destruct Ha as [Ha|Ha]; [|left; exact Ha].
    right. apply in_map_iff in Ha. destruct Ha as (x & Hx & Hin). inversion Hx; subst. apply Hb. exact Hin.
  - eapply live_same_sets; [exact L|reflexivity|]. intros a Ha. apply alive_spec in Ha. apply alive_spec.
    unfold refs in *. cbn [reg ext cur hold set_frames].
    destruct Ha as [Ha|[Ha|Ha]]; [left; exact Ha|right; left; exact Ha|right; right; apply in_or_app; right; exact Ha].
  - eapply bt_core; [| | |exact B]; reflexivity.
Qed.

Lemma in_skipn {A} (x : A) n l : In x (skipn n l) -> In x l.
Proof.
  revert l. induction n as [|n IH]; intros l; simpl; [tauto|]. destruct l as [|y t]; [tauto|].
  intros H. right. apply IH. exact H.
Qed.

Lemma inv_bt_release n s : Inv s -> BT s -> Inv (sweep (release n s)) /\ BT (sweep (release n s)).
Proof.
  intros [W L] B. split; [split; [|apply live_sweep]|].
  - apply wf_sweep. apply wf_frames_subset; [exact W|]. intros a Ha. left. eapply in_skipn. exact Ha.
  - apply bt_sweep. eapply bt_core; [| | |exact B]; reflexivity.
Qed.

Lemma inv_bt_visit_lists ex (G : good_ex ex) sc gs : forall s s' logs rz,
  Inv s -> BT s -> visit_lists ex sc gs s = (s', logs, rz) -> Inv s' /\ BT s'.
Proof.
  induction gs as [|[key g] gs IH]; intros s s' logs rz I B; simpl.
  - intros H. inversion H; subst. split; assumption.
  - destruct (visit ex sc g (push_frame s)) as [[s1 log1] rz1] eqn:E.
    assert (Inv (sweep (pop_frame s1)) /\ BT (sweep (pop_frame s1))) as [I1 B1].
    { assert (activate ex KDo [] sc g s = Some (sweep (pop_frame s1), log1, rz1)) as Ha.
      { unfold activate. cbn [visit_order]. rewrite E. reflexivity. }
      apply (inv_bt_activate ex G _ _ _ _ _ _ _ _ I B Ha). }
    destruct rz1; [intros H; inversion H; subst; split; assumption|].
    destruct (visit_lists ex sc gs (sweep (pop_frame s1))) as [[s2 logs2] rz2] eqn:E2.
    intros H. inversion H; subst. eapply IH; eassumption.
Qed.

Lemma inv_bt_group_lists ex (G : good_ex ex) sc m members s s' logs rz :
  Inv s -> BT s -> (forall a, In a members -> a < next_id s) ->
  group_lists ex sc m members s = (s', logs, rz) -> Inv s' /\ BT s'.
Proof.
  intros I B Hb. unfold group_lists.
  destruct (visit_lists ex sc (groups_of m members) (hold members s)) as [[s1 logs1] rz1] eqn:E.
  intros H. inversion H; subst.
  destruct (inv_bt_hold members s I B Hb) as [Ih Bh].
  destruct (inv_bt_visit_lists ex G sc _ _ _ _ _ Ih Bh E) as [I1 B1].
  apply inv_bt_release; assumption.
Qed.

Lemma inv_bt_step s o : Inv s -> BT s -> Inv (fst (step s o)) /\ BT (fst (step s o)).
Proof.
  intros I0 B0. unfold step.
  pose proof (inv_nlog s [] I0) as I. pose proof (bt_nlog s [] B0) as B.
  set (s1 := set_nlog [] s) in *. clearbody s1. clear I0 B0.
  destruct o.
  - cbn [fst]. split; [apply inv_exec_act; exact I|apply bt_exec_act; assumption].
  - cbn [fst]. destruct I as [(W1 & W2 & W3 & W4) L].
    assert (forall a, In a (dedup_first Z.eqb (filter (alive s1) ids)) -> alive s1 a = true) as Hal.
    { intros a Ha. apply (proj1 (dedup_first_In Z.eqb Z.eqb_eq _ _)) in Ha. apply filter_In in Ha. apply Ha. }
    split; [split; [unfold Wf; cbn [reg next_id sets]; repeat split|]|].
    + exact W1.
    + exact W2.
    + rewrite lookup_app in H. destruct (lookup r (sets s1)) as [m0|] eqn:E0.
      * inversion H; subst. apply (W3 r m E0).
      * destruct (sref_eqb r (SUser (nuser s1))); inversion H. apply (dedup_first_NoDup Z.eqb Z.eqb_eq).
    + rewrite lookup_app in H. destruct (lookup r (sets s1)) as [m0|] eqn:E0.
      * inversion H; subst. apply (W3 r m E0).
      * destruct (sref_eqb r (SUser (nuser s1))); inversion H. subst. intros a Ha.
        apply W2. apply alive_spec. apply Hal. exact Ha.
    + rewrite lookup_app, W4. reflexivity.
    + intros r m H a Ha. cbn [sets] in H. rewrite lookup_app in H.
      change (alive s1 a = true).
      destruct (lookup r (sets s1)) as [m0|] eqn:E0.
      * inversion H; subst. exact (L r m E0 a Ha).
      * destruct (sref_eqb r (SUser (nuser s1))); inversion H. subst. apply Hal. exact Ha.
    + destruct B as [B1 B2]. split.
      * intros c m H. cbn [sets] in H. rewrite lookup_app in H.
        destruct (lookup (SType c) (sets s1)) as [m0|] eqn:E0; [inversion H; subst; apply (B1 c m E0)|].
        cbn [sref_eqb] in H. discriminate.
      * intros a Ha. unfold class_of. cbn [sets cls]. rewrite has_set_app.
        pose proof (B2 a Ha) as Hh. unfold class_of in Hh. rewrite Hh. reflexivity.
  - split; assumption.
  - destruct (lookup s0 (sets s1)) as [snap|]; [|split; assumption].
    destruct (activate (exN scs) k perm sc snap s1) as [[[s' log] rz]|] eqn:E; [|split; assumption].
    unfold obs_activation. cbn [fst]. apply (inv_bt_activate _ (good_exN scs) _ _ _ _ _ _ _ _ I B E).
  - destruct (lookup s0 (sets s1)) as [snap|]; [|split; assumption].
    destruct (shuffle_then_do (exN scs) perm sc snap s1) as [[[s' log] rz]|] eqn:E; [|split; assumption].
    unfold obs_activation. cbn [fst]. apply shuffle_then_do_unfold in E.
    apply (inv_bt_activate _ (good_exN scs) _ _ _ _ _ _ _ _ I B E).
  - destruct (lookup s0 (sets s1)) as [members|]; [|split; assumption].
    destruct (m <=? 0); [split; assumption|].
    destruct (visit_groups (exN scs) k sc (groups_of m members) perms s1) as [[[s' logs] rz]|] eqn:E; [|split; assumption].
    cbn [fst]. apply (inv_bt_visit_groups _ (good_exN scs) _ _ _ _ _ _ _ _ I B E).
  - destruct (lookup s0 (sets s1)) as [members|] eqn:El; [|split; assumption].
    destruct (m <=? 0); [split; assumption|].
    destruct (group_lists (exN scs) sc m members s1) as [[s' logs] rz] eqn:E. cbn [fst].
    apply (inv_bt_group_lists _ (good_exN scs) sc m members s1 s' logs rz I B); [|exact E].
    intros a Ha. destruct I as [(_ & _ & W3 & _) _]. apply (W3 s0 members El). exact Ha.
  - destruct (lookup s0 (sets s1)) as [members|]; [|split; assumption].
    destruct (m <=? 0); split; assumption.
  - destruct (lookup s0 (sets s1)) as [members|]; [|split; assumption].
    destruct (m <=? 0); split; assumption.
Qed.

(* the state reached by a history *)
Fixpoint state_after (s : st) (ops : list op) : st :=
  match ops with
  | [] => s
  | o :: t => state_after (fst (step s o)) t
  end.

Lemma inv_bt_state_after ops : forall s, Inv s -> BT s -> Inv (state_after s ops) /\ BT (state_after s ops).
Proof.
  induction ops as [|o t IH]; intros s I B; simpl; [split; assumption|].
  destruct (inv_bt_step s o I B) as [I' B']. apply IH; assumption.
Qed.

Definition reached (ops : list op) : st := state_after init_st ops.

Lemma inv_reachable ops : Inv (reached ops).
Proof. apply (inv_bt_state_after ops init_st inv_init bt_init). Qed.

Lemma bt_reachable ops : BT (reached ops).
Proof. apply (inv_bt_state_after ops init_st inv_init bt_init). Qed.

(* run_ops really is the observation stream of state_after *)
Lemma run_ops_app s ops o :
  run_ops s (ops ++ [o]) = run_ops s ops ++ [snd (step (state_after s ops) o)].
Proof.
  revert s. induction ops as [|x t IH]; intros s; simpl.
  - destruct (step s o). reflexivity.
  - destruct (step s x) as [s' ob] eqn:E. cbn [fst]. rewrite IH. reflexivity.
Qed.

Lemma reached_set ops r snap :
  lookup r (sets (reached ops)) = Some snap ->
  NoDup snap /\ forall a, In a snap -> alive (reached ops) a = true /\ a < next_id (reached ops).
Proof.
  intros H. destruct (inv_reachable ops) as [(W1 & W2 & W3 & W4) L].
  destruct (W3 r snap H) as [Hn Hb]. split; [exact Hn|]. intros a Ha. split; [exact (L r snap H a Ha)|exact (Hb a Ha)].
Qed.

Lemma reached_all_is_reg ops : lookup SAll (sets (reached ops)) = Some (reg (reached ops)).
Proof. destruct (inv_reachable ops) as [(_ & _ & _ & W4) _]. exact W4. Qed.

Lemma has_set_lookup r l : has_set r l = true -> exists m, lookup r l = Some m.
Proof.
  destruct (lookup r l) as [m|] eqn:E; [intros _; exists m; reflexivity|].
  rewrite (lookup_none_has_set r l E). discriminate.
Qed.

(* agents_by_type[c] = the registry filtered by exact class c, in registry order; the class of every
   registered agent is a key and the agent is in that set *)
Lemma reached_by_type ops :
  (forall c m, lookup (SType c) (sets (reached ops)) = Some m ->
               m = filter (fun a => class_of (reached ops) a =? c) (reg (reached ops))) /\
  (forall a, In a (reg (reached ops)) ->
             exists m, lookup (SType (class_of (reached ops) a)) (sets (reached ops)) = Some m /\ In a m).
Proof.
  destruct (bt_reachable ops) as [B1 B2]. split; [exact B1|].
  intros a Ha. destruct (has_set_lookup _ _ (B2 a Ha)) as [m Hm]. exists m. split; [exact Hm|].
  rewrite (B1 _ m Hm). apply filter_In. split; [exact Ha|apply Z.eqb_refl].
Qed.

(* --- statements about one activation in a reached state, for any well-behaved executor --- *)
Section Reached.
Variable ex : executor.
Hypothesis G : good_ex ex.

Lemma reached_once ops k r perm sc snap s' log rz :
  lookup r (sets (reached ops)) = Some snap ->
  activate ex k perm sc snap (reached ops) = Some (s', log, rz) -> NoDup log.
Proof. intros H. apply activate_once. apply (reached_set ops r snap H). Qed.

Lemma reached_exact ops k r perm sc snap s' log rz order :
  lookup r (sets (reached ops)) = Some snap ->
  activate ex k perm sc snap (reached ops) = Some (s', log, rz) -> visit_order k perm snap = Some order ->
  forall a, In a log <->
            exists s1, turn_state ex sc order (push_frame (reached ops)) a = Some s1 /\ alive s1 a = true.
Proof. intros H. apply activate_exact. apply (reached_set ops r snap H). Qed.

Lemma reached_no_new ops k r perm sc snap s' log rz :
  lookup r (sets (reached ops)) = Some snap ->
  activate ex k perm sc snap (reached ops) = Some (s', log, rz) ->
  (forall a, In a log -> In a snap /\ a < next_id (reached ops)) /\
  (forall a, In a (reg s') -> ~ In a (reg (reached ops)) -> next_id (reached ops) <= a /\ ~ In a log).
Proof.
  intros H Ha. destruct (reached_set ops r snap H) as [_ Hb].
  destruct (activate_no_new ex G k perm sc snap _ s' log rz (fun a Hin => proj2 (Hb a Hin)) Ha) as [H1 H2].
  split; [|exact H2]. intros a Hin. split; [eapply activate_members_only; eassumption|apply H1; exact Hin].
Qed.

Lemma reached_unremoved_called ops k r perm sc snap s' log rz a :
  lookup r (sets (reached ops)) = Some snap ->
  activate ex k perm sc snap (reached ops) = Some (s', log, rz) ->
  In a snap -> In a (reg (reached ops)) -> spares sc a -> calm sc -> In a log.
Proof.
  intros H Hact Hin Hreg Hsp Hc. apply activate_spec in Hact. destruct Hact as (order & Ho & -> & _).
  apply (unremoved_called ex G); [exact Hreg|exact Hsp|exact Hc|].
  apply visit_order_spec in Ho. destruct Ho as (P & _).
  eapply Permutation_in; [apply Permutation_sym; exact P|exact Hin].
Qed.

(* activating a set of registered agents (model.agents, agents_by_type[c]) with callbacks that remove
   nobody, raise nothing and start no activation calls everybody, in visiting order *)
Lemma reached_all_called ops k r perm sc snap s' log rz order :
  lookup r (sets (reached ops)) = Some snap -> (forall a, In a snap -> In a (reg (reached ops))) ->
  activate ex k perm sc snap (reached ops) = Some (s', log, rz) ->
  visit_order k perm snap = Some order ->
  (forall a, spares sc a) -> calm sc -> log = order /\ rz = false.
Proof.
  intros _ Hreg Hact Ho Hsp Hc. apply activate_spec in Hact. destruct Hact as (order' & Ho' & -> & -> & _).
  rewrite Ho in Ho'. inversion Ho'; subst order'. split; [|apply (calm_visit ex G); exact Hc].
  apply (no_removal_all_called ex G); [exact Hsp|exact Hc|].
  apply visit_order_spec in Ho. destruct Ho as (P & _). intros a Ha. apply Hreg. eapply Permutation_in; [exact P|exact Ha].
Qed.

Lemma activate_sets_keep_order k perm sc snap s s' log rz :
  activate ex k perm sc snap s = Some (s', log, rz) ->
  forall r m, lookup r (sets s) = Some m ->
    exists keep new, lookup r (sets s') = Some (filter keep m ++ new) /\
                     forall a, In a new -> next_id s <= a < next_id s'.
Proof. intros H. pose proof (ev2_activate ex G _ _ _ _ _ _ _ _ H) as [(_ & _ & _ & S) _]. exact S. Qed.

(* death is final, also across an aborted prefix *)
Lemma dead_after_prefix_never_called sc pre post s a :
  alive (vst (visit ex sc pre s)) a = false -> a < next_id (vst (visit ex sc pre s)) ->
  ~ In a (vlog (visit ex sc post (vst (visit ex sc pre s)))).
Proof. intros Hd Hb. apply (dead_never_called ex G); assumption. Qed.

(* after any activation a program-made set is exactly its former self minus the agents that died *)
Lemma reached_user_set_exact ops k r perm sc snap s' log rz j m :
  lookup r (sets (reached ops)) = Some snap ->
  activate ex k perm sc snap (reached ops) = Some (s', log, rz) ->
  lookup (SUser j) (sets (reached ops)) = Some m ->
  lookup (SUser j) (sets s') = Some (filter (alive s') m).
Proof.
  intros _ Hact Hm.
  destruct (ev2_activate ex G _ _ _ _ _ _ _ _ Hact) as [_ U].
  destruct (U j m Hm) as (keep & L & C). rewrite L. f_equal.
  destruct (inv_activate ex G _ _ _ _ _ _ _ _ (inv_reachable ops) Hact) as [_ Lv].
  destruct (reached_set ops (SUser j) m Hm) as [_ Hb].
  apply filter_ext_in. intros x Hx.
  destruct (keep x) eqn:Ek.
  - symmetry. apply (Lv (SUser j) _ L). apply filter_In. split; assumption.
  - destruct (alive s' x) eqn:Ea; [|reflexivity].
    rewrite (C x Hx (proj2 (Hb x Hx)) Ea) in Ek. discriminate.
Qed.

(* by-type sets are sets of registered agents: they inherit the statements above *)
Lemma reached_by_type_members ops c snap :
  lookup (SType c) (sets (reached ops)) = Some snap -> forall a, In a snap -> In a (reg (reached ops)).
Proof.
  intros H a Ha. destruct (reached_by_type ops) as [B1 _]. rewrite (B1 c snap H) in Ha.
  apply filter_In in Ha. apply Ha.
Qed.

(* shuffle_do  =  shuffle() then do(): same outcome permutation of the same snapshot, same calls, same state *)
Lemma reached_shuffle_do_eq ops r snap perm sc :
  lookup r (sets (reached ops)) = Some snap ->
  shuffle_then_do ex perm sc snap (reached ops) = activate ex KShuffleDo perm sc snap (reached ops).
Proof.
  intros H. destruct (reached_set ops r snap H) as [_ Hb].
  unfold shuffle_then_do, shuffle_new, activate. cbn [visit_order].
  destruct (is_perm perm snap) eqn:E; [|reflexivity].
  assert (filter (alive (reached ops)) perm = perm) as ->; [|reflexivity].
  apply filter_true_id. intros x Hx. apply Hb.
  eapply Permutation_in; [apply is_perm_Permutation; exact E|exact Hx].
Qed.

End Reached.

Lemma obs_log_cons args a log : obs_log args (a :: log) = a :: args ++ obs_log args log.
Proof. reflexivity. Qed.

(* ------------------------------------------------------------------ Part G: GroupBy.do / map *)
Lemma NoDup_app_intro (l1 l2 : list Z) :
  NoDup l1 -> NoDup l2 -> (forall x, In x l1 -> ~ In x l2) -> NoDup (l1 ++ l2).
Proof.
  induction l1 as [|x t IH]; simpl; intros H1 H2 Hd; [exact H2|].
  inversion H1; subst. constructor.
  - intros H. apply in_app_or in H. destruct H as [H|H]; [tauto|]. apply (Hd x); [left; reflexivity|exact H].
  - apply IH; [assumption|assumption|]. intros y Hy. apply Hd. right. exact Hy.
Qed.

Lemma subseq_trans l1 l2 l3 : subseq l1 l2 -> subseq l2 l3 -> subseq l1 l3.
Proof.
  intros H12 H23. revert l1 H12. induction H23; intros l1 H12.
  - exact H12.
  - inversion H12; subst; [constructor; apply IHsubseq; assumption|apply sub_skip; apply IHsubseq; assumption].
  - apply sub_skip. apply IHsubseq. exact H12.
Qed.

(* each group's log: duplicate-free, made of that group's members; in group order for do/map *)
Lemma groups_of_keys m l : map fst (groups_of m l) = group_keys m l.
Proof. unfold groups_of. rewrite map_map. simpl. apply map_id. Qed.

Lemma groups_of_spec m l key g :
  In (key, g) (groups_of m l) -> g = filter (fun a => gkey m a =? key) l.
Proof.
  unfold groups_of. rewrite in_map_iff. intros (k0 & H & _). inversion H; subst. reflexivity.
Qed.

Lemma nodup_flat_logs m (logs : list (Z * list Z)) :
  NoDup (map fst logs) ->
  (forall key l, In (key, l) logs -> NoDup l /\ forall a, In a l -> gkey m a = key) ->
  NoDup (flat_map snd logs).
Proof.
  induction logs as [|[key l] t IH]; simpl; intros Hk Hl; [constructor|].
  inversion Hk; subst. apply NoDup_app_intro.
  - apply (Hl key l). left. reflexivity.
  - apply IH; [assumption|]. intros k0 l0 H0. apply Hl. right. exact H0.
  - intros x Hx Hin. apply in_flat_map in Hin. destruct Hin as ([k0 l0] & H0 & Hx0). simpl in Hx0.
    assert (gkey m x = key) as E1 by (apply (Hl key l); [left; reflexivity|exact Hx]).
    assert (gkey m x = k0) as E2 by (apply (Hl k0 l0); [right; exact H0|exact Hx0]).
    apply H1. rewrite in_map_iff. exists (k0, l0). split; [simpl; congruence|exact H0].
Qed.

Lemma Forall2_In_l {A B} (R : A -> B -> Prop) la lb x :
  Forall2 R la lb -> In x la -> exists y, In y lb /\ R x y.
Proof.
  induction 1; simpl; intros Hx; [tauto|]. destruct Hx as [Hx|Hx].
  - subst. eexists. split; [left; reflexivity|assumption].
  - destruct (IHForall2 Hx) as (y0 & Hy & Hr). exists y0. split; [right; exact Hy|exact Hr].
Qed.

Lemma Forall2_keys_eq (R : list Z -> list Z -> Prop) (logs gs : list (Z * list Z)) :
  Forall2 (fun kl kg => R (snd kg) (snd kl)) logs gs -> map fst logs = map fst gs -> NoDup (map fst gs) ->
  forall key l, In (key, l) logs -> exists g, In (key, g) gs /\ R g l.
Proof.
  induction 1 as [|[k1 l1] [k2 g2] logs gs HR HF IH]; simpl; intros Hk Hn key l Hin; [tauto|].
  inversion Hk as [[Hk1 Hk2]]. inversion Hn as [|? ? Hn1 Hn2]; subst. destruct Hin as [Hin|Hin].
  - inversion Hin; subst. exists g2. split; [left; reflexivity|exact HR].
  - destruct (IH Hk2 Hn2 key l Hin) as (g & Hg & Hr). exists g. split; [right; exact Hg|exact Hr].
Qed.


(* each group's log: duplicate-free, made of that group's members; in group order for do/map *)
Definition group_log_ok (k : akind) (g l : list Z) : Prop :=
  NoDup l /\ (forall a, In a l -> In a g) /\ (k <> KShuffleDo -> subseq l g).

(* the groups are visited in order; an exception stops the walk after the group it happened in *)
Lemma visit_groups_spec ex k sc gs : forall perms s s' logs rz,
  (forall key g, In (key, g) gs -> NoDup g) ->
  visit_groups ex k sc gs perms s = Some (s', logs, rz) ->
  exists gs1 gs2, gs = gs1 ++ gs2 /\ map fst logs = map fst gs1 /\
    Forall2 (fun kl kg => group_log_ok k (snd kg) (snd kl)) logs gs1 /\ (rz = false -> gs2 = []).
Proof.
  induction gs as [|[key g] gs IH]; intros perms s s' logs rz Hn; simpl.
  - intros H. inversion H; subst. exists [], []. repeat split; constructor.
  - destruct (activate ex k (hd [] perms) sc (filter (alive s) g) s) as [[[s1 log1] rz1]|] eqn:E; [|discriminate].
    assert (group_log_ok k g log1) as Hok.
    { assert (NoDup g) as Hg by (apply (Hn key g); left; reflexivity). repeat split.
      - eapply activate_once; [|exact E]. apply NoDup_filter. exact Hg.
      - intros a Ha. pose proof (activate_members_only _ _ _ _ _ _ _ _ _ E a Ha) as Hin.
        apply filter_In in Hin. apply Hin.
      - intros Hk'. pose proof (activate_order _ _ _ _ _ _ _ _ _ E) as Ho.
        eapply subseq_trans; [|apply subseq_filter].
        destruct k; [exact Ho|congruence|exact Ho]. }
    destruct rz1.
    + intros H. inversion H; subst. exists [(key, g)], gs. repeat split; try reflexivity.
      * constructor; [exact Hok|constructor].
      * discriminate.
    + destruct (visit_groups ex k sc gs (tl perms) s1) as [[[s2 logs2] rz2]|] eqn:E2; [|discriminate].
      intros H. inversion H; subst.
      destruct (IH (tl perms) s1 s' logs2 rz) as (gs1 & gs2 & -> & Hk & Hf & Hz);
        [intros k0 g0 H0; apply (Hn k0 g0); right; exact H0|exact E2|].
      exists ((key, g) :: gs1), gs2. repeat split.
      * simpl. f_equal. exact Hk.
      * constructor; assumption.
      * exact Hz.
Qed.

Lemma NoDup_app_left (l1 l2 : list Z) : NoDup (l1 ++ l2) -> NoDup l1.
Proof.
  induction l1 as [|x t IH]; simpl; intros H; [constructor|].
  inversion H; subst. constructor; [|apply IH; assumption].
  intros Hin. apply H2. apply in_or_app. left. exact Hin.
Qed.

Lemma reached_groupby_once ex ops k r m perms sc members s' logs rz :
  lookup r (sets (reached ops)) = Some members ->
  visit_groups ex k sc (groups_of m members) perms (reached ops) = Some (s', logs, rz) ->
  (exists rest, group_keys m members = map fst logs ++ rest /\ (rz = false -> rest = [])) /\
  NoDup (map fst logs) /\ NoDup (flat_map snd logs) /\
  forall key l, In (key, l) logs ->
    group_log_ok k (filter (fun a => gkey m a =? key) members) l.
Proof.
  intros H Hv. destruct (reached_set ops r members H) as [Hn _].
  assert (forall key g, In (key, g) (groups_of m members) -> NoDup g) as Hg.
  { intros key g Hin. rewrite (groups_of_spec m members key g Hin). apply NoDup_filter. exact Hn. }
  destruct (visit_groups_spec ex k sc _ perms _ s' logs rz Hg Hv) as (gs1 & gs2 & Hsplit & Hk & Hf & Hz).
  assert (NoDup (map fst (gs1 ++ gs2))) as Hnd.
  { rewrite <- Hsplit, groups_of_keys. apply (dedup_first_NoDup Z.eqb Z.eqb_eq). }
  rewrite map_app in Hnd.
  assert (NoDup (map fst logs)) as Hnk by (rewrite Hk; eapply NoDup_app_left; exact Hnd).
  assert (forall key l, In (key, l) logs -> group_log_ok k (filter (fun a => gkey m a =? key) members) l) as Hok.
  { intros key l Hin.
    destruct (Forall2_keys_eq (group_log_ok k) logs gs1 Hf Hk) with (key := key) (l := l) as (g & Hgin & Hr).
    - rewrite <- Hk. exact Hnk.
    - exact Hin.
    - assert (In (key, g) (groups_of m members)) as Hin' by (rewrite Hsplit; apply in_or_app; left; exact Hgin).
      rewrite <- (groups_of_spec m members key g Hin'). exact Hr. }
  split; [|split; [exact Hnk|split; [|exact Hok]]].
  - exists (map fst gs2). split.
    + rewrite <- groups_of_keys, Hsplit, map_app, Hk. reflexivity.
    + intros Hr. rewrite (Hz Hr). reflexivity.
  - apply (nodup_flat_logs m); [exact Hnk|]. intros key l Hin. destruct (Hok key l Hin) as (H1 & H2 & _).
    split; [exact H1|]. intros a Ha. specialize (H2 a Ha). apply filter_In in H2. apply Z.eqb_eq. apply H2.
Qed.

(* ------------------------------------------------------------------ Part M: frames; strong lists *)
(* the code run inside a callback leaves the stack of activation frames as it found it *)
Definition keeps_frames (ex : executor) : Prop := forall self s a, cur (fst (ex self s a)) = cur s.

Lemma cur_do_remove a keep s : cur (do_remove a keep s) = cur s.
Proof.
  unfold do_remove. destruct (alive s a); [|reflexivity].
  destruct (deregister_same a s) as (_ & _ & Hc). destruct keep; cbn [cur sweep set_sets set_ext]; exact Hc.
Qed.

Lemma cur_create_n n c keep : forall s, cur (create_n n c keep s) = cur s.
Proof. induction n as [|n IH]; intros s; simpl; [reflexivity|]. rewrite IH. reflexivity. Qed.

Lemma cur_exec_act self s a : cur (exec_act self s a) = cur s.
Proof.
  destruct a; simpl; try reflexivity.
  - apply cur_do_remove.
  - apply cur_do_remove.
  - apply cur_create_n.
  - destruct (alive s i); reflexivity.
Qed.

Lemma keeps_ex0 : keeps_frames ex0.
Proof. intros self s a. apply cur_exec_act. Qed.

Lemma run_acts_cur ex self l : keeps_frames ex -> forall s, cur (fst (run_acts ex self l s)) = cur s.
Proof.
  intros K. induction l as [|a t IH]; intros s; simpl; [reflexivity|].
  pose proof (K self s a) as Ha. destruct (ex self s a) as [s1 rz]. cbn [fst] in Ha.
  destruct rz; [exact Ha|]. rewrite IH. exact Ha.
Qed.

Lemma visit1_tl ex sc r s : keeps_frames ex -> tl (cur (fst (visit1 ex sc r s))) = tl (cur s).
Proof.
  intros K. unfold visit1. destruct (alive s r); [|reflexivity]. rewrite (run_acts_cur ex r _ K). reflexivity.
Qed.

Lemma visit_tl ex sc order s : keeps_frames ex -> tl (cur (vst (visit ex sc order s))) = tl (cur s).
Proof.
  intros K. apply (visit_ind_state ex (fun s' => tl (cur s') = tl (cur s))); [|reflexivity].
  intros r s' H. rewrite (visit1_tl ex sc r s' K). exact H.
Qed.

Lemma activate_cur ex k perm sc snap s s' log rz :
  keeps_frames ex -> activate ex k perm sc snap s = Some (s', log, rz) -> cur s' = cur s.
Proof.
  intros K H. apply activate_spec in H. destruct H as (order & _ & _ & _ & ->).
  cbn [cur sweep set_sets pop_frame set_frames]. rewrite (visit_tl ex sc order _ K). reflexivity.
Qed.

Lemma keeps_ex_next inner sc2 : keeps_frames inner -> keeps_frames (ex_next inner sc2).
Proof.
  intros K self s a. destruct a; try apply keeps_ex0.
  - destruct (ex_next_nested_cases inner sc2 self s _ k r perm (or_introl eq_refl))
      as [Hc|[(l & Hc)|(snap & s' & log & rz & l & E & Hc)]]; rewrite Hc; try reflexivity.
    cbn [cur set_nlog]. apply (activate_cur inner _ _ _ _ _ _ _ _ K E).
  - destruct (ex_next_nested_cases inner sc2 self s _ k r perm (or_intror eq_refl))
      as [Hc|[(l & Hc)|(snap & s' & log & rz & l & E & Hc)]]; rewrite Hc; try reflexivity.
    cbn [cur set_nlog]. apply (activate_cur inner _ _ _ _ _ _ _ _ K E).
Qed.

Lemma keeps_exN scs : keeps_frames (exN scs).
Proof. induction scs as [|sc2 rest IH]; [apply keeps_ex0|apply keeps_ex_next; exact IH]. Qed.

(* agents held by a strong container (deeper in the frame stack) are alive at their turn: unless an
   exception ends the loop, every one of them is called, whatever the callbacks remove *)
Lemma visit_held ex sc order : keeps_frames ex -> forall s,
  (forall a, In a order -> In (Some a) (tl (cur s))) ->
  vrz (visit ex sc order s) = false -> vlog (visit ex sc order s) = order.
Proof.
  intros K. induction order as [|r t IH]; intros s Hh Hz; [reflexivity|].
  rewrite visit_cons in *.
  assert (alive s r = true) as Ha.
  { apply alive_spec. right. right. apply in_tl. apply Hh. left. reflexivity. }
  rewrite Ha in *. destruct (snd (visit1 ex sc r s)); [discriminate Hz|].
  unfold vlog, vrz in *. cbn [fst snd] in *. f_equal. apply IH; [|exact Hz].
  intros a Hin. rewrite (visit1_tl ex sc r s K). apply Hh. right. exact Hin.
Qed.

Lemma visit_lists_all ex sc gs : keeps_frames ex -> forall s s' logs rz,
  (forall key g a, In (key, g) gs -> In a g -> In (Some a) (cur s)) ->
  visit_lists ex sc gs s = (s', logs, rz) -> rz = false -> logs = gs.
Proof.
  intros K. induction gs as [|[key g] gs IH]; intros s s' logs rz Hh; simpl.
  - intros H _. inversion H. reflexivity.
  - destruct (visit ex sc g (push_frame s)) as [[s1 log1] rz1] eqn:E.
    destruct rz1; [intros H Hz; inversion H; subst; discriminate|].
    destruct (visit_lists ex sc gs (sweep (pop_frame s1))) as [[s2 logs2] rz2] eqn:E2.
    intros H Hz. inversion H; subst. f_equal.
    + f_equal. pose proof (visit_held ex sc g K (push_frame s)) as Hv. rewrite E in Hv.
      apply Hv; [|reflexivity]. intros a Ha. cbn [cur push_frame set_frames tl]. apply (Hh key g a); [left; reflexivity|exact Ha].
    + eapply IH; [|exact E2|reflexivity]. intros k0 g0 a Hin Ha.
      cbn [cur sweep set_sets pop_frame set_frames].
      pose proof (visit_tl ex sc g (push_frame s) K) as Ht. rewrite E in Ht. unfold vst in Ht. cbn [fst] in Ht.
      rewrite Ht. cbn [cur push_frame set_frames tl]. apply (Hh k0 g0 a); [right; exact Hin|exact Ha].
Qed.

(* groupby(result_type="list").do/map(callable): unless a callback raises, every member at groupby time
   is reached exactly once, group by group in first-seen key order - removed or not *)
Lemma group_lists_all scs sc m members s s' logs :
  group_lists (exN scs) sc m members s = (s', logs, false) -> logs = groups_of m members.
Proof.
  unfold group_lists.
  destruct (visit_lists (exN scs) sc (groups_of m members) (hold members s)) as [[s1 logs1] rz1] eqn:E.
  intros H. inversion H; subst.
  eapply (visit_lists_all (exN scs) sc _ (keeps_exN scs)); [|exact E|reflexivity].
  intros key g a Hin Ha. rewrite (groups_of_spec m members key g Hin) in Ha. apply filter_In in Ha.
  cbn [cur hold set_frames]. apply in_or_app. left. apply in_map. apply Ha.
Qed.

Lemma try_nested_never_raises inner sc2 self s k r perm :
  snd (ex_next inner sc2 self s (TryNested k r perm)) = false.
Proof.
  cbn [ex_next]. destruct (lookup r (sets s)) as [snap|]; [|reflexivity].
  destruct (activate inner k perm sc2 snap s) as [[[s' log] rz]|]; reflexivity.
Qed.

Lemma activate_frames_restored scs k perm sc snap s s' log rz :
  activate (exN scs) k perm sc snap s = Some (s', log, rz) -> cur s' = cur s.
Proof. apply activate_cur. apply keeps_exN. Qed.

(* ------------------------------------------------------------------ Part N: an exception inside a list group *)
Lemma visit_held_raised ex sc order s : keeps_frames ex ->
  (forall a, In a order -> In (Some a) (tl (cur s))) ->
  vrz (visit ex sc order s) = true ->
  exists pre r post, order = pre ++ r :: post /\ vlog (visit ex sc order s) = pre ++ [r].
Proof.
  intros K Hh Hz. destruct (visit_raised ex sc order s Hz) as (pre & r & post & -> & Hp & _ & _ & Hl & _).
  exists pre, r, post. split; [reflexivity|]. rewrite Hl. f_equal.
  apply (visit_held ex sc pre K s); [|exact Hp]. intros a Ha. apply Hh. apply in_or_app. left. exact Ha.
Qed.

(* the groups before the one in which the exception happened are complete, that group's log is the part
   of the list up to and including the raiser, later groups are not reached *)
Lemma visit_lists_raised ex sc gs : keeps_frames ex -> forall s s' logs,
  (forall key g a, In (key, g) gs -> In a g -> In (Some a) (cur s)) ->
  visit_lists ex sc gs s = (s', logs, true) ->
  exists gs1 key pre r post gs2,
    gs = gs1 ++ (key, pre ++ r :: post) :: gs2 /\ logs = gs1 ++ [(key, pre ++ [r])].
Proof.
  intros K. induction gs as [|[key g] gs IH]; intros s s' logs Hh; simpl; [intros H; inversion H|].
  destruct (visit ex sc g (push_frame s)) as [[s1 log1] rz1] eqn:E.
  assert (forall a, In a g -> In (Some a) (tl (cur (push_frame s)))) as Hg.
  { intros a Ha. cbn [cur push_frame set_frames tl]. apply (Hh key g a); [left; reflexivity|exact Ha]. }
  destruct rz1.
  - intros H. inversion H; subst.
    pose proof (visit_held_raised ex sc g (push_frame s) K Hg) as Hr. rewrite E in Hr.
    destruct (Hr eq_refl) as (pre & r & post & -> & Hl). unfold vlog in Hl. cbn [fst snd] in Hl. subst log1.
    exists [], key, pre, r, post, gs. split; reflexivity.
  - destruct (visit_lists ex sc gs (sweep (pop_frame s1))) as [[s2 logs2] rz2] eqn:E2.
    intros H. inversion H; subst.
    assert (log1 = g) as ->.
    { pose proof (visit_held ex sc g K (push_frame s) Hg) as Hv. rewrite E in Hv. apply Hv. reflexivity. }
    destruct (IH (sweep (pop_frame s1)) s' logs2) as (gs1 & k0 & pre & r & post & gs2 & -> & ->); [|exact E2|].
    + intros k0 g0 a Hin Ha. cbn [cur sweep set_sets pop_frame set_frames].
      pose proof (visit_tl ex sc g (push_frame s) K) as Ht. rewrite E in Ht. unfold vst in Ht. cbn [fst] in Ht.
      rewrite Ht. cbn [cur push_frame set_frames tl]. apply (Hh k0 g0 a); [right; exact Hin|exact Ha].
    + exists ((key, g) :: gs1), k0, pre, r, post, gs2. split; reflexivity.
Qed.

Lemma group_lists_raised scs sc m members s s' logs :
  group_lists (exN scs) sc m members s = (s', logs, true) ->
  exists gs1 key pre r post gs2,
    groups_of m members = gs1 ++ (key, pre ++ r :: post) :: gs2 /\ logs = gs1 ++ [(key, pre ++ [r])].
Proof.
  unfold group_lists.
  destruct (visit_lists (exN scs) sc (groups_of m members) (hold members s)) as [[s1 logs1] rz1] eqn:E.
  intros H. inversion H; subst.
  eapply (visit_lists_raised (exN scs) sc _ (keeps_exN scs)); [|exact E].
  intros key g a Hin Ha. rewrite (groups_of_spec m members key g Hin) in Ha. apply filter_In in Ha.
  cbn [cur hold set_frames]. apply in_or_app. left. apply in_map. apply Ha.
Qed.

(* ------------------------------------------------------------------ Part O: GroupBy.count partitions the set *)
Lemma zsum_map_add {A} (f g : A -> Z) l : zsum (map (fun x => f x + g x) l) = zsum (map f l) + zsum (map g l).
Proof. induction l as [|x t IH]; simpl; [reflexivity|]. rewrite IH. lia. Qed.

Lemma count_ones keys v : NoDup keys -> In v keys -> zsum (map (fun k => if v =? k then 1 else 0) keys) = 1.
Proof.
  induction keys as [|k t IH]; simpl; intros Hn Hin; [tauto|]. inversion Hn; subst.
  destruct (v =? k) eqn:E.
  - apply Z.eqb_eq in E. subst k.
    assert (zsum (map (fun k => if v =? k then 1 else 0) t) = 0) as ->; [|lia].
    clear IH Hn Hin H2. induction t as [|y t IH]; simpl; [reflexivity|].
    destruct (v =? y) eqn:Ey; [apply Z.eqb_eq in Ey; subst; exfalso; apply H1; left; reflexivity|].
    rewrite IH; [lia|]. intros Hin. apply H1. right. exact Hin.
  - destruct Hin as [Hin|Hin]; [subst; rewrite Z.eqb_refl in E; discriminate|]. rewrite (IH H2 Hin). lia.
Qed.

Lemma group_sizes (key : Z -> Z) l keys :
  NoDup keys -> (forall x, In x l -> In (key x) keys) ->
  zsum (map (fun k => Z.of_nat (length (filter (fun a => key a =? k) l))) keys) = Z.of_nat (length l).
Proof.
  intros Hn. induction l as [|x t IH]; intros Hin.
  - simpl. clear Hn Hin. induction keys as [|k ks IHk]; simpl; [reflexivity|]. simpl in IHk. rewrite IHk. reflexivity.
  - rewrite (map_ext _ (fun k => (if key x =? k then 1 else 0) + Z.of_nat (length (filter (fun a => key a =? k) t)))).
    + rewrite zsum_map_add, IH, count_ones; [simpl length; lia|exact Hn|apply Hin; left; reflexivity|].
      intros y Hy. apply Hin. right. exact Hy.
    + intros k. simpl. destruct (key x =? k); simpl length; lia.
Qed.

(* GroupBy.count() of a reachable set: keys in first-seen order, each count = the members with that key,
   and the counts add up to the size of the set *)
Lemma reached_count ops r m members :
  lookup r (sets (reached ops)) = Some members ->
  map fst (group_count (groups_of m members) (reached ops)) = group_keys m members /\
  (forall k c, In (k, c) (group_count (groups_of m members) (reached ops)) ->
               c = Z.of_nat (length (filter (fun a => gkey m a =? k) members))) /\
  zsum (map snd (group_count (groups_of m members) (reached ops))) = Z.of_nat (length members).
Proof.
  intros H. destruct (reached_set ops r members H) as [_ Hal].
  assert (forall k, filter (alive (reached ops)) (filter (fun a => gkey m a =? k) members)
                    = filter (fun a => gkey m a =? k) members) as Hf.
  { intros k. apply filter_true_id. intros x Hx. apply filter_In in Hx. apply Hal. apply Hx. }
  assert (group_count (groups_of m members) (reached ops)
          = map (fun k => (k, Z.of_nat (length (filter (fun a => gkey m a =? k) members)))) (group_keys m members)) as Hc.
  { unfold group_count, groups_of. rewrite map_map. apply map_ext. intros k. cbn [fst snd]. rewrite Hf. reflexivity. }
  rewrite Hc. repeat split.
  - rewrite map_map. cbn [fst]. apply map_id.
  - intros k c Hin. apply in_map_iff in Hin. destruct Hin as (k0 & Heq & _). inversion Heq; subst. reflexivity.
  - rewrite map_map. cbn [snd]. apply group_sizes.
    + apply (dedup_first_NoDup Z.eqb Z.eqb_eq).
    + intros x Hx. apply (dedup_first_In Z.eqb Z.eqb_eq). apply in_map. exact Hx.
Qed.
