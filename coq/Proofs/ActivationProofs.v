(* Lemmas about Model/Activation.v.  Part A: structure of the visiting loop (no invariant needed).
   Part B: death is final.  Part C: the registry invariant and its preservation by every op.
   Part D: what an activation does to the sets.  Part E: scripts that spare an agent. *)
From Coq Require Import ZArith List Bool Lia Permutation.
From Mesa Require Import Common.ListX Model.Activation.
Import ListNotations.
Open Scope Z_scope.

(* ------------------------------------------------------------------ basics *)
Lemma memz_In x l : memz x l = true <-> In x l.
Proof.
  unfold memz. rewrite existsb_exists. split.
  - intros [y [Hy He]]. apply Z.eqb_eq in He. subst. exact Hy.
  - intros H. exists x. split; [exact H|apply Z.eqb_refl].
Qed.

Lemma memz_false x l : memz x l = false <-> ~ In x l.
Proof.
  rewrite <- memz_In. destruct (memz x l); split; intros H; try congruence; try tauto;
    try (exfalso; apply H; reflexivity).
Qed.

Lemma remove_z_In x l y : In y (remove_z x l) <-> In y l /\ y <> x.
Proof.
  unfold remove_z. rewrite filter_In. split.
  - intros [H1 H2]. split; [exact H1|]. intros ->. rewrite Z.eqb_refl in H2. discriminate.
  - intros [H1 H2]. split; [exact H1|]. destruct (x =? y) eqn:E; [|reflexivity].
    apply Z.eqb_eq in E. congruence.
Qed.

Lemma remove_z_NoDup x l : NoDup l -> NoDup (remove_z x l).
Proof. intros H. unfold remove_z. apply NoDup_filter. exact H. Qed.

Lemma remove_first_In x l y : In y (remove_first x l) -> In y l.
Proof.
  induction l as [|z t IH]; simpl; [tauto|].
  destruct (x =? z); [tauto|]. simpl. intros [H|H]; [left; exact H|right; apply IH; exact H].
Qed.

Lemma sref_eqb_eq a b : sref_eqb a b = true <-> a = b.
Proof.
  destruct a, b; simpl; split; intros H; try discriminate; try reflexivity;
    try (apply Z.eqb_eq in H; subst; reflexivity);
    try (inversion H; subst; apply Z.eqb_refl).
Qed.

Lemma sref_eqb_refl a : sref_eqb a a = true.
Proof. apply sref_eqb_eq. reflexivity. Qed.

Lemma filter_true_id {A} (f : A -> bool) l : (forall x, In x l -> f x = true) -> filter f l = l.
Proof.
  induction l as [|x t IH]; simpl; intros H; [reflexivity|].
  rewrite (H x (or_introl eq_refl)). f_equal. apply IH. intros y Hy. apply H. right. exact Hy.
Qed.

Lemma filter_filter {A} (f g : A -> bool) l :
  filter f (filter g l) = filter (fun x => g x && f x) l.
Proof.
  induction l as [|x t IH]; simpl; [reflexivity|].
  destruct (g x); simpl; [destruct (f x); simpl; rewrite IH; reflexivity|exact IH].
Qed.

(* subsequence: order kept, elements possibly dropped *)
Inductive subseq : list Z -> list Z -> Prop :=
| sub_nil : subseq [] []
| sub_keep x l m : subseq l m -> subseq (x :: l) (x :: m)
| sub_skip x l m : subseq l m -> subseq l (x :: m).

Lemma subseq_In l m : subseq l m -> forall x, In x l -> In x m.
Proof.
  induction 1; simpl; intros y Hy; [tauto| |right; apply IHsubseq; exact Hy].
  destruct Hy as [Hy|Hy]; [left; exact Hy|right; apply IHsubseq; exact Hy].
Qed.

Lemma subseq_NoDup l m : subseq l m -> NoDup m -> NoDup l.
Proof.
  induction 1; intros Hn; [constructor| |inversion Hn; subst; apply IHsubseq; assumption].
  inversion Hn; subst. constructor; [|apply IHsubseq; assumption].
  intros Hin. apply H2. eapply subseq_In; eassumption.
Qed.

Lemma subseq_refl l : subseq l l.
Proof. induction l; constructor; assumption. Qed.

Lemma subseq_filter f l : subseq (filter f l) l.
Proof. induction l as [|x t IH]; simpl; [constructor|]. destruct (f x); constructor; exact IH. Qed.

(* ------------------------------------------------------------------ alive *)
Definition refs (s : st) (a : Z) : Prop := In a (reg s) \/ In a (ext s) \/ cur s = Some a.

Lemma is_cur_spec s a : is_cur s a = true <-> cur s = Some a.
Proof.
  unfold is_cur. destruct (cur s) as [c|]; split; intros H; try discriminate.
  - apply Z.eqb_eq in H. subst. reflexivity.
  - inversion H. subst. apply Z.eqb_refl.
Qed.

Lemma alive_spec s a : alive s a = true <-> refs s a.
Proof.
  unfold alive, refs. rewrite !orb_true_iff, !memz_In, is_cur_spec. tauto.
Qed.

Lemma alive_false s a : alive s a = false <-> ~ refs s a.
Proof.
  rewrite <- alive_spec. destruct (alive s a); split; intros H; try congruence; try tauto;
    try (exfalso; apply H; reflexivity).
Qed.

Lemma alive_sweep s a : alive (sweep s) a = alive s a.
Proof. reflexivity. Qed.

Lemma alive_ext_irrel s s' :
  reg s' = reg s -> ext s' = ext s -> cur s' = cur s -> forall a, alive s' a = alive s a.
Proof. intros Hr He Hc a. unfold alive, is_cur. rewrite Hr, He, Hc. reflexivity. Qed.

(* ------------------------------------------------------------------ Part A: the loop *)
(* the state after the reference r has been inspected (and, if alive, its agent called) *)
Definition visit1 (sc : script) (r : Z) (s : st) : st :=
  if alive s r then run_acts r (script_of sc r) (sweep (set_cur (Some r) s))
  else sweep (set_cur None s).

Lemma visit_cons sc r rest s :
  visit sc (r :: rest) s =
  (fst (visit sc rest (visit1 sc r s)),
   if alive s r then r :: snd (visit sc rest (visit1 sc r s)) else snd (visit sc rest (visit1 sc r s))).
Proof.
  simpl. unfold visit1. destruct (alive s r).
  - destruct (visit sc rest _) as [s3 log]. reflexivity.
  - destruct (visit sc rest _) as [s3 log]. reflexivity.
Qed.

Lemma visit_app sc o1 o2 s :
  visit sc (o1 ++ o2) s =
  (fst (visit sc o2 (fst (visit sc o1 s))),
   snd (visit sc o1 s) ++ snd (visit sc o2 (fst (visit sc o1 s)))).
Proof.
  revert s. induction o1 as [|r t IH]; intros s.
  - simpl. destruct (visit sc o2 s). reflexivity.
  - rewrite <- app_comm_cons. rewrite !visit_cons. rewrite IH. simpl.
    destruct (alive s r); reflexivity.
Qed.

Lemma visit_log_subseq sc order s : subseq (snd (visit sc order s)) order.
Proof.
  revert s. induction order as [|r t IH]; intros s.
  - simpl. constructor.
  - rewrite visit_cons. simpl. destruct (alive s r); constructor; apply IH.
Qed.

Lemma visit_log_NoDup sc order s : NoDup order -> NoDup (snd (visit sc order s)).
Proof. intros H. eapply subseq_NoDup; [apply visit_log_subseq|exact H]. Qed.

(* the state in which the reference of agent a is inspected *)
Fixpoint turn_state (sc : script) (order : list Z) (s : st) (a : Z) : option st :=
  match order with
  | [] => None
  | r :: rest => if r =? a then Some s else turn_state sc rest (visit1 sc r s) a
  end.

Lemma turn_state_some sc order s a : In a order -> exists s1, turn_state sc order s a = Some s1.
Proof.
  revert s. induction order as [|r t IH]; intros s; simpl; [tauto|].
  intros [H|H].
  - subst. rewrite Z.eqb_refl. eexists. reflexivity.
  - destruct (r =? a); [eexists; reflexivity|apply IH; exact H].
Qed.

Lemma visit_exact sc order s a :
  NoDup order ->
  (In a (snd (visit sc order s)) <->
   exists s1, turn_state sc order s a = Some s1 /\ alive s1 a = true).
Proof.
  revert s. induction order as [|r t IH]; intros s Hn.
  - simpl. split; [tauto|]. intros [s1 [H _]]. discriminate.
  - inversion Hn as [|? ? Hnotin Hn']; subst. rewrite visit_cons. cbn [snd turn_state].
    destruct (r =? a) eqn:E.
    + apply Z.eqb_eq in E. subst r. split.
      * intros H. exists s. split; [reflexivity|].
        destruct (alive s a) eqn:Ea; [reflexivity|]. exfalso. apply Hnotin.
        eapply subseq_In; [apply visit_log_subseq|exact H].
      * intros [s1 [H1 H2]]. inversion H1; subst s1. rewrite H2. left. reflexivity.
    + apply Z.eqb_neq in E. rewrite <- IH by exact Hn'.
      destruct (alive s r); simpl; [|tauto]. split; [intros [H|H]; [congruence|exact H]|tauto].
Qed.

(* a member still registered when its turn comes is called *)
Lemma visit_registered_called sc pre a post s :
  In a (reg (fst (visit sc pre s))) -> In a (snd (visit sc (pre ++ a :: post) s)).
Proof.
  intros H. rewrite visit_app. cbn [snd]. apply in_or_app. right. rewrite visit_cons. cbn [snd].
  assert (alive (fst (visit sc pre s)) a = true) as ->.
  { apply alive_spec. left. exact H. }
  left. reflexivity.
Qed.

(* ------------------------------------------------------------------ Part B: how states evolve *)
Lemma lookup_upd g r l : lookup r (upd_sets g l) = option_map (g r) (lookup r l).
Proof.
  induction l as [|[r' m] t IH]; simpl; [reflexivity|].
  destruct (sref_eqb r r') eqn:E; [apply sref_eqb_eq in E; subst; reflexivity|exact IH].
Qed.

Lemma lookup_app r l r' m' :
  lookup r (l ++ [(r', m')]) =
  match lookup r l with Some m => Some m | None => if sref_eqb r r' then Some m' else None end.
Proof.
  induction l as [|[r0 m0] t IH]; simpl; [reflexivity|].
  destruct (sref_eqb r r0); [reflexivity|exact IH].
Qed.

Lemma filter_all_true (m : list Z) : filter (fun _ => true) m = m.
Proof. apply filter_true_id. reflexivity. Qed.

(* s' is a later state than s:
   ids only grow; an id below next_id that is dead stays dead (nothing can reach it any more);
   the registry gains only fresh ids; every set keeps its order: some members drop out, fresh ones
   are appended *)
Definition evolves (s s' : st) : Prop :=
  next_id s <= next_id s' /\
  (forall a, a < next_id s -> alive s' a = true -> alive s a = true) /\
  (forall a, In a (reg s') -> In a (reg s) \/ next_id s <= a < next_id s') /\
  (forall r m, lookup r (sets s) = Some m ->
     exists keep new, lookup r (sets s') = Some (filter keep m ++ new) /\
                      forall a, In a new -> next_id s <= a < next_id s').

Lemma evolves_refl s : evolves s s.
Proof.
  repeat split; try lia; try tauto.
  intros r m H. exists (fun _ => true), []. rewrite filter_all_true, app_nil_r. split; [exact H|].
  intros a [].
Qed.

Lemma evolves_trans s1 s2 s3 : evolves s1 s2 -> evolves s2 s3 -> evolves s1 s3.
Proof.
  intros (N1 & D1 & R1 & S1) (N2 & D2 & R2 & S2). repeat split.
  - lia.
  - intros a Ha H3. apply D1; [exact Ha|]. apply D2; [lia|exact H3].
  - intros a Ha. destruct (R2 a Ha) as [H|H]; [|right; lia].
    destruct (R1 a H) as [H'|H']; [left; exact H'|right; lia].
  - intros r m Hm. destruct (S1 r m Hm) as (k1 & n1 & L1 & B1).
    destruct (S2 r _ L1) as (k2 & n2 & L2 & B2).
    exists (fun x => k1 x && k2 x), (filter k2 n1 ++ n2). split.
    + rewrite L2. f_equal. rewrite filter_app, filter_filter, app_assoc. reflexivity.
    + intros a Ha. apply in_app_or in Ha. destruct Ha as [Ha|Ha].
      * apply filter_In in Ha. destruct Ha as [Ha _]. specialize (B1 a Ha). lia.
      * specialize (B2 a Ha). lia.
Qed.

(* sets unchanged, ids unchanged, references only fewer or moved to something already alive *)
Lemma evolves_same_sets s s' :
  next_id s' = next_id s -> reg s' = reg s -> sets s' = sets s ->
  (forall a, alive s' a = true -> alive s a = true) -> evolves s s'.
Proof.
  intros Hn Hr Hs Ha. repeat split.
  - lia.
  - intros a _. apply Ha.
  - rewrite Hr. tauto.
  - intros r m Hm. exists (fun _ => true), []. rewrite filter_all_true, app_nil_r, Hs.
    split; [exact Hm|]. intros a [].
Qed.

Lemma evolves_sweep s : evolves s (sweep s).
Proof.
  repeat split; simpl; try lia; try tauto.
  intros r m Hm. exists (alive s), []. rewrite lookup_upd, Hm, app_nil_r. split; [reflexivity|].
  intros a [].
Qed.

Lemma evolves_set_cur_some s r : alive s r = true -> evolves s (set_cur (Some r) s).
Proof.
  intros Hr. apply evolves_same_sets; try reflexivity.
  intros a Ha. apply alive_spec in Ha. destruct Ha as [H|[H|H]].
  - apply alive_spec. left. exact H.
  - apply alive_spec. right. left. exact H.
  - simpl in H. inversion H. subst. exact Hr.
Qed.

Lemma evolves_set_cur_none s : evolves s (set_cur None s).
Proof.
  apply evolves_same_sets; try reflexivity.
  intros a Ha. apply alive_spec in Ha. destruct Ha as [H|[H|H]].
  - apply alive_spec. left. exact H.
  - apply alive_spec. right. left. exact H.
  - simpl in H. discriminate.
Qed.

Lemma evolves_add_ext s i : alive s i = true -> evolves s (set_ext (ext s ++ [i]) s).
Proof.
  intros Hi. apply evolves_same_sets; try reflexivity.
  intros a Ha. apply alive_spec in Ha. destruct Ha as [H|[H|H]].
  - apply alive_spec. left. exact H.
  - simpl in H. apply in_app_or in H. destruct H as [H|[H|[]]].
    + apply alive_spec. right. left. exact H.
    + subst. exact Hi.
  - apply alive_spec. right. right. exact H.
Qed.

Lemma evolves_drop_ext s i : evolves s (set_ext (remove_first i (ext s)) s).
Proof.
  apply evolves_same_sets; try reflexivity.
  intros a Ha. apply alive_spec in Ha. destruct Ha as [H|[H|H]].
  - apply alive_spec. left. exact H.
  - simpl in H. apply remove_first_In in H. apply alive_spec. right. left. exact H.
  - apply alive_spec. right. right. exact H.
Qed.

Lemma deregister_reg a s x : In x (reg (deregister a s)) -> In x (reg s).
Proof.
  unfold deregister. destruct (memz a (reg s)); [|tauto]. simpl. rewrite remove_z_In. tauto.
Qed.

Lemma deregister_same a s :
  next_id (deregister a s) = next_id s /\ ext (deregister a s) = ext s /\ cur (deregister a s) = cur s.
Proof. unfold deregister. destruct (memz a (reg s)); simpl; auto. Qed.

Lemma evolves_deregister a s : evolves s (deregister a s).
Proof.
  destruct (deregister_same a s) as (Hn & He & Hc).
  unfold evolves. rewrite Hn. repeat split; try lia.
  - intros x _ Hx. apply alive_spec in Hx. apply alive_spec. unfold refs in *. rewrite He, Hc in Hx.
    destruct Hx as [H|H]; [left; eapply deregister_reg; exact H|right; exact H].
  - intros x Hx. left. eapply deregister_reg. exact Hx.
  - intros r m Hm. unfold deregister. destruct (memz a (reg s)).
    + cbn [sets]. rewrite lookup_upd, Hm. cbn [option_map].
      destruct (touches (class_of s a) r).
      * exists (fun y => negb (a =? y)), []. rewrite app_nil_r. split; [reflexivity|]. intros x [].
      * exists (fun _ => true), []. rewrite filter_all_true, app_nil_r. split; [reflexivity|]. intros x [].
    + exists (fun _ => true), []. rewrite filter_all_true, app_nil_r. split; [exact Hm|]. intros x [].
Qed.

Lemma evolves_do_remove a keep s : evolves s (do_remove a keep s).
Proof.
  unfold do_remove. destruct (alive s a) eqn:Ea; [|apply evolves_refl].
  eapply evolves_trans; [|apply evolves_sweep].
  destruct keep; [|apply evolves_deregister].
  (* the reference in hand is stored: a was alive before the call *)
  pose proof (evolves_deregister a s) as (N & D & R & S).
  destruct (deregister_same a s) as (Hn & He & Hc).
  repeat split.
  - exact N.
  - intros x Hx H. apply alive_spec in H. destruct H as [H|[H|H]].
    + apply alive_spec. left. eapply deregister_reg. exact H.
    + cbn [ext set_ext] in H. apply in_app_or in H. destruct H as [H|[H|[]]].
      * apply alive_spec. right. left. rewrite <- He. exact H.
      * subst. exact Ea.
    + apply alive_spec. right. right. cbn [cur set_cur set_ext] in H. rewrite <- Hc. exact H.
  - exact R.
  - exact S.
Qed.

Lemma lookup_create_sets c a l r m :
  lookup r l = Some m ->
  lookup r (if has_set (SType c) l
            then upd_sets (fun r m => if touches c r then m ++ [a] else m) l
            else upd_sets (fun r m => if touches c r then m ++ [a] else m) l ++ [(SType c, [a])])
  = Some (if touches c r then m ++ [a] else m).
Proof.
  intros H. destruct (has_set (SType c) l).
  - rewrite lookup_upd, H. reflexivity.
  - rewrite lookup_app, lookup_upd, H. reflexivity.
Qed.

Lemma evolves_create1 c keep s : evolves s (create1 c keep s).
Proof.
  repeat split; cbn [next_id create1]; try lia.
  - intros a Ha H. apply alive_spec in H. apply alive_spec. unfold refs in *. cbn [reg ext cur create1] in H.
    destruct H as [H|[H|H]].
    + apply in_app_or in H. destruct H as [H|[H|[]]]; [left; exact H|lia].
    + destruct keep; [|right; left; exact H].
      apply in_app_or in H. destruct H as [H|[H|[]]]; [right; left; exact H|lia].
    + right. right. exact H.
  - intros a H. cbn [reg create1] in H. apply in_app_or in H. destruct H as [H|[H|[]]]; [left; exact H|right; lia].
  - intros r m Hm. cbn [sets create1]. rewrite (lookup_create_sets c (next_id s) _ r m Hm).
    destruct (touches c r).
    + exists (fun _ => true), [next_id s]. rewrite filter_all_true. split; [reflexivity|].
      intros a [H|[]]. lia.
    + exists (fun _ => true), []. rewrite filter_all_true, app_nil_r. split; [reflexivity|]. intros a [].
Qed.

Lemma evolves_create_n n c keep s : evolves s (create_n n c keep s).
Proof.
  revert s. induction n as [|n IH]; intros s; simpl; [apply evolves_refl|].
  eapply evolves_trans; [apply evolves_create1|apply IH].
Qed.

Lemma evolves_exec_act self s a : evolves s (exec_act self s a).
Proof.
  destruct a; simpl.
  - apply evolves_refl.
  - apply evolves_do_remove.
  - apply evolves_do_remove.
  - apply evolves_create_n.
  - eapply evolves_trans; [apply evolves_drop_ext|apply evolves_sweep].
  - destruct (alive s i) eqn:E; [apply evolves_add_ext; exact E|apply evolves_refl].
Qed.

Lemma evolves_run_acts self l s : evolves s (run_acts self l s).
Proof.
  revert s. induction l as [|a t IH]; intros s; simpl; [apply evolves_refl|].
  eapply evolves_trans; [apply evolves_exec_act|apply IH].
Qed.

Lemma evolves_visit1 sc r s : evolves s (visit1 sc r s).
Proof.
  unfold visit1. destruct (alive s r) eqn:E.
  - eapply evolves_trans; [apply evolves_set_cur_some; exact E|].
    eapply evolves_trans; [apply evolves_sweep|apply evolves_run_acts].
  - eapply evolves_trans; [apply evolves_set_cur_none|apply evolves_sweep].
Qed.

Lemma evolves_visit sc order s : evolves s (fst (visit sc order s)).
Proof.
  revert s. induction order as [|r t IH]; intros s; [apply evolves_refl|].
  rewrite visit_cons. cbn [fst]. eapply evolves_trans; [apply evolves_visit1|apply IH].
Qed.

(* death is final: a dead agent (its id already handed out) is never called again *)
Lemma dead_never_called sc order s a :
  alive s a = false -> a < next_id s -> ~ In a (snd (visit sc order s)).
Proof.
  revert s. induction order as [|r t IH]; intros s Hd Hb; [simpl; tauto|].
  rewrite visit_cons. cbn [snd].
  pose proof (evolves_visit1 sc r s) as (N & D & _ & _).
  assert (alive (visit1 sc r s) a = false) as Hd'.
  { destruct (alive (visit1 sc r s) a) eqn:E; [|reflexivity]. rewrite (D a Hb E) in Hd. discriminate. }
  assert (~ In a (snd (visit sc t (visit1 sc r s)))) as Hrest by (apply IH; [exact Hd'|lia]).
  destruct (alive s r) eqn:Er; [|exact Hrest].
  intros [H|H]; [subst; congruence|exact (Hrest H)].
Qed.

Lemma evolves_activate k perm sc snap s s' log :
  activate k perm sc snap s = Some (s', log) -> evolves s s'.
Proof.
  unfold activate. destruct (visit_order k perm snap) as [order|]; [|discriminate].
  destruct (visit sc order s) as [s1 l] eqn:E. intros H. inversion H; subst.
  pose proof (evolves_visit sc order s) as Hv. rewrite E in Hv. cbn [fst] in Hv.
  eapply evolves_trans; [exact Hv|]. eapply evolves_trans; [apply evolves_set_cur_none|apply evolves_sweep].
Qed.

(* ------------------------------------------------------------------ Part C: the invariant *)
(* structure: the registry has no duplicates, every id in use has been handed out, every set is
   duplicate-free and holds handed-out ids, and Model._all_agents lists exactly Model._agents *)
Definition Wf (s : st) : Prop :=
  NoDup (reg s) /\
  (forall a, refs s a -> a < next_id s) /\
  (forall r m, lookup r (sets s) = Some m -> NoDup m /\ forall a, In a m -> a < next_id s) /\
  lookup SAll (sets s) = Some (reg s).

(* weak sets hold living agents only *)
Definition Live (s : st) : Prop :=
  forall r m, lookup r (sets s) = Some m -> forall a, In a m -> alive s a = true.

Definition Inv (s : st) : Prop := Wf s /\ Live s.

Lemma lookup_upd_inv g l r m' :
  lookup r (upd_sets g l) = Some m' -> exists m, lookup r l = Some m /\ m' = g r m.
Proof.
  rewrite lookup_upd. destruct (lookup r l) as [m|]; simpl; intros H; [|discriminate].
  inversion H. exists m. split; reflexivity.
Qed.

Lemma wf_same_sets s s' :
  Wf s -> next_id s' = next_id s -> reg s' = reg s -> sets s' = sets s ->
  (forall a, refs s' a -> a < next_id s) -> Wf s'.
Proof.
  intros (W1 & W2 & W3 & W4) Hn Hr Hs Ha. unfold Wf. rewrite Hn, Hr, Hs.
  repeat split; try assumption.
  - apply (W3 r m H).
  - apply (W3 r m H).
Qed.

Lemma wf_bound s a : Wf s -> alive s a = true -> a < next_id s.
Proof. intros (_ & W2 & _) H. apply W2. apply alive_spec. exact H. Qed.

Lemma wf_set_cur_some s r : Wf s -> alive s r = true -> Wf (set_cur (Some r) s).
Proof.
  intros W Hr. eapply wf_same_sets; try exact W; try reflexivity.
  intros a [H|[H|H]].
  - apply (wf_bound s a W). apply alive_spec. left. exact H.
  - apply (wf_bound s a W). apply alive_spec. right. left. exact H.
  - simpl in H. inversion H; subst. apply (wf_bound s a W Hr).
Qed.

Lemma wf_set_cur_none s : Wf s -> Wf (set_cur None s).
Proof.
  intros W. eapply wf_same_sets; try exact W; try reflexivity.
  intros a [H|[H|H]].
  - apply (wf_bound s a W). apply alive_spec. left. exact H.
  - apply (wf_bound s a W). apply alive_spec. right. left. exact H.
  - simpl in H. discriminate.
Qed.

Lemma wf_add_ext s i : Wf s -> i < next_id s -> Wf (set_ext (ext s ++ [i]) s).
Proof.
  intros W Hi. eapply wf_same_sets; try exact W; try reflexivity.
  intros a [H|[H|H]].
  - apply (wf_bound s a W). apply alive_spec. left. exact H.
  - simpl in H. apply in_app_or in H. destruct H as [H|[H|[]]].
    + apply (wf_bound s a W). apply alive_spec. right. left. exact H.
    + subst. exact Hi.
  - apply (wf_bound s a W). apply alive_spec. right. right. exact H.
Qed.

Lemma wf_drop_ext s i : Wf s -> Wf (set_ext (remove_first i (ext s)) s).
Proof.
  intros W. eapply wf_same_sets; try exact W; try reflexivity.
  intros a [H|[H|H]].
  - apply (wf_bound s a W). apply alive_spec. left. exact H.
  - simpl in H. apply remove_first_In in H. apply (wf_bound s a W). apply alive_spec. right. left. exact H.
  - apply (wf_bound s a W). apply alive_spec. right. right. exact H.
Qed.

Lemma wf_sweep s : Wf s -> Wf (sweep s).
Proof.
  intros (W1 & W2 & W3 & W4). unfold Wf. cbn [reg next_id sets sweep set_sets]. repeat split.
  - exact W1.
  - exact W2.
  - apply lookup_upd_inv in H. destruct H as (m0 & H0 & ->). apply NoDup_filter. apply (W3 r m0 H0).
  - apply lookup_upd_inv in H. destruct H as (m0 & H0 & ->). intros a Ha. apply filter_In in Ha.
    apply (W3 r m0 H0). apply Ha.
  - rewrite lookup_upd, W4. cbn [option_map]. f_equal. apply filter_true_id.
    intros x Hx. apply alive_spec. left. exact Hx.
Qed.

Lemma live_sweep s : Live (sweep s).
Proof.
  intros r m H a Ha. cbn [sets sweep set_sets] in H. apply lookup_upd_inv in H.
  destruct H as (m0 & H0 & ->). apply filter_In in Ha. rewrite alive_sweep. apply Ha.
Qed.

Lemma live_same_sets s s' :
  Live s -> sets s' = sets s -> (forall a, alive s a = true -> alive s' a = true) -> Live s'.
Proof. intros L Hs Ha r m H a Hin. apply Ha. rewrite Hs in H. exact (L r m H a Hin). Qed.

Lemma wf_deregister a s : Wf s -> Wf (deregister a s).
Proof.
  intros W. unfold deregister. destruct (memz a (reg s)) eqn:E; [|exact W].
  destruct W as (W1 & W2 & W3 & W4). unfold Wf. cbn [reg next_id sets]. repeat split.
  - apply remove_z_NoDup. exact W1.
  - intros x [H|[H|H]]; cbn [reg ext cur] in H.
    + apply remove_z_In in H. apply W2. left. apply H.
    + apply W2. right. left. exact H.
    + apply W2. right. right. exact H.
  - apply lookup_upd_inv in H. destruct H as (m0 & H0 & ->).
    destruct (touches _ r); [apply remove_z_NoDup|]; apply (W3 r m0 H0).
  - apply lookup_upd_inv in H. destruct H as (m0 & H0 & ->). intros x Hx.
    apply (W3 r m0 H0). destruct (touches _ r); [apply remove_z_In in Hx; apply Hx|exact Hx].
  - rewrite lookup_upd, W4. reflexivity.
Qed.

Lemma inv_do_remove a keep s : Inv s -> Inv (do_remove a keep s).
Proof.
  intros [W L]. unfold do_remove. destruct (alive s a) eqn:Ea; [|split; assumption].
  split; [|apply live_sweep]. apply wf_sweep.
  pose proof (wf_deregister a s W) as Wd. destruct keep; [|exact Wd].
  apply wf_add_ext; [exact Wd|].
  destruct (deregister_same a s) as (Hn & _). rewrite Hn. apply (wf_bound s a W Ea).
Qed.

Lemma NoDup_snoc (l : list Z) x : NoDup l -> ~ In x l -> NoDup (l ++ [x]).
Proof.
  induction l as [|y t IH]; simpl; intros Hn Hx.
  - constructor; [simpl; tauto|constructor].
  - inversion Hn; subst. constructor.
    + intros H. apply in_app_or in H. destruct H as [H|[H|[]]]; [tauto|]. subst. apply Hx. left. reflexivity.
    + apply IH; [assumption|tauto].
Qed.

Lemma lookup_create_inv c a l r m' :
  lookup r (if has_set (SType c) l
            then upd_sets (fun r m => if touches c r then m ++ [a] else m) l
            else upd_sets (fun r m => if touches c r then m ++ [a] else m) l ++ [(SType c, [a])])
  = Some m' ->
  (exists m, lookup r l = Some m /\ m' = if touches c r then m ++ [a] else m) \/
  (lookup r l = None /\ r = SType c /\ m' = [a]).
Proof.
  destruct (has_set (SType c) l).
  - intros H. left. apply lookup_upd_inv in H. exact H.
  - rewrite lookup_app, lookup_upd. destruct (lookup r l) as [m|]; cbn [option_map].
    + intros H. inversion H. left. exists m. split; reflexivity.
    + destruct (sref_eqb r (SType c)) eqn:E; intros H; [|discriminate].
      apply sref_eqb_eq in E. inversion H. right. repeat split; assumption.
Qed.

Lemma alive_create1 c keep s a : alive s a = true -> alive (create1 c keep s) a = true.
Proof.
  intros H. apply alive_spec in H. apply alive_spec. unfold refs in *. cbn [reg ext cur create1].
  destruct H as [H|[H|H]].
  - left. apply in_or_app. left. exact H.
  - right. left. destruct keep; [apply in_or_app; left|]; exact H.
  - right. right. exact H.
Qed.

Lemma inv_create1 c keep s : Inv s -> Inv (create1 c keep s).
Proof.
  intros [(W1 & W2 & W3 & W4) L].
  assert (~ In (next_id s) (reg s)) as Hfresh.
  { intros H. specialize (W2 (next_id s) (or_introl H)). lia. }
  split; [unfold Wf; repeat split|].
  - cbn [reg create1]. apply NoDup_snoc; assumption.
  - intros a [H|[H|H]]; cbn [reg ext cur next_id create1] in *.
    + apply in_app_or in H. destruct H as [H|[H|[]]]; [specialize (W2 a (or_introl H))|]; lia.
    + destruct keep.
      * apply in_app_or in H. destruct H as [H|[H|[]]]; [specialize (W2 a (or_intror (or_introl H)))|]; lia.
      * specialize (W2 a (or_intror (or_introl H))). lia.
    + specialize (W2 a (or_intror (or_intror H))). lia.
  - cbn [sets create1] in H. apply lookup_create_inv in H.
    destruct H as [(m0 & H0 & ->)|(_ & _ & ->)].
    + destruct (W3 r m0 H0) as [Hn Hb]. destruct (touches c r); [|exact Hn].
      apply NoDup_snoc; [exact Hn|]. intros Hin. specialize (Hb _ Hin). lia.
    + constructor; [simpl; tauto|constructor].
  - cbn [sets create1 next_id] in *. apply lookup_create_inv in H.
    destruct H as [(m0 & H0 & ->)|(_ & _ & ->)]; intros a Ha.
    + destruct (W3 r m0 H0) as [_ Hb]. destruct (touches c r).
      * apply in_app_or in Ha. destruct Ha as [Ha|[Ha|[]]]; [specialize (Hb a Ha)|]; lia.
      * specialize (Hb a Ha). lia.
    + destruct Ha as [Ha|[]]. lia.
  - cbn [sets create1 reg]. rewrite (lookup_create_sets c (next_id s) _ SAll _ W4). reflexivity.
  - intros r m H a Ha. cbn [sets create1] in H. apply lookup_create_inv in H.
    assert (alive (create1 c keep s) (next_id s) = true) as Hnew.
    { apply alive_spec. left. cbn [reg create1]. apply in_or_app. right. left. reflexivity. }
    destruct H as [(m0 & H0 & ->)|(_ & _ & ->)].
    + destruct (touches c r).
      * apply in_app_or in Ha. destruct Ha as [Ha|[Ha|[]]]; [|subst; exact Hnew].
        apply alive_create1. exact (L r m0 H0 a Ha).
      * apply alive_create1. exact (L r m0 H0 a Ha).
    + destruct Ha as [Ha|[]]. subst. exact Hnew.
Qed.

Lemma inv_create_n n c keep s : Inv s -> Inv (create_n n c keep s).
Proof.
  revert s. induction n as [|n IH]; intros s H; simpl; [exact H|]. apply IH. apply inv_create1. exact H.
Qed.

Lemma inv_exec_act self s a : Inv s -> Inv (exec_act self s a).
Proof.
  intros I. destruct a; simpl.
  - exact I.
  - apply inv_do_remove. exact I.
  - apply inv_do_remove. exact I.
  - apply inv_create_n. exact I.
  - destruct I as [W L]. split; [apply wf_sweep; apply wf_drop_ext; exact W|apply live_sweep].
  - destruct (alive s i) eqn:E; [|exact I]. destruct I as [W L]. split.
    + apply wf_add_ext; [exact W|apply (wf_bound s i W E)].
    + eapply live_same_sets; [exact L|reflexivity|].
      intros a Ha. apply alive_spec in Ha. apply alive_spec. unfold refs in *. cbn [reg ext cur set_ext].
      destruct Ha as [H|[H|H]]; [left; exact H|right; left; apply in_or_app; left; exact H|right; right; exact H].
Qed.

Lemma inv_run_acts self l s : Inv s -> Inv (run_acts self l s).
Proof.
  revert s. induction l as [|a t IH]; intros s I; simpl; [exact I|]. apply IH. apply inv_exec_act. exact I.
Qed.

Lemma inv_visit1 sc r s : Inv s -> Inv (visit1 sc r s).
Proof.
  intros [W L]. unfold visit1. destruct (alive s r) eqn:E.
  - apply inv_run_acts. split; [apply wf_sweep; apply wf_set_cur_some; assumption|apply live_sweep].
  - split; [apply wf_sweep; apply wf_set_cur_none; assumption|apply live_sweep].
Qed.

Lemma inv_visit sc order s : Inv s -> Inv (fst (visit sc order s)).
Proof.
  revert s. induction order as [|r t IH]; intros s I; [exact I|].
  rewrite visit_cons. cbn [fst]. apply IH. apply inv_visit1. exact I.
Qed.

Lemma inv_activate k perm sc snap s s' log :
  Inv s -> activate k perm sc snap s = Some (s', log) -> Inv s'.
Proof.
  intros I. unfold activate. destruct (visit_order k perm snap) as [order|]; [|discriminate].
  destruct (visit sc order s) as [s1 l] eqn:E. intros H. inversion H; subst.
  pose proof (inv_visit sc order s I) as Iv. rewrite E in Iv. cbn [fst] in Iv. destruct Iv as [W L].
  split; [apply wf_sweep; apply wf_set_cur_none; exact W|apply live_sweep].
Qed.

Lemma inv_visit_groups k sc gs : forall perms s s' logs,
  Inv s -> visit_groups k sc gs perms s = Some (s', logs) -> Inv s'.
Proof.
  induction gs as [|[key g] gs IH]; intros perms s s' logs I; simpl.
  - intros H. inversion H; subst. exact I.
  - destruct (activate k (hd [] perms) sc (filter (alive s) g) s) as [[s1 log1]|] eqn:E; [|discriminate].
    destruct (visit_groups k sc gs (tl perms) s1) as [[s2 logs2]|] eqn:E2; [|discriminate].
    intros H. inversion H; subst. eapply IH; [|exact E2]. eapply inv_activate; eassumption.
Qed.

Lemma inv_init : Inv init_st.
Proof.
  split; [unfold Wf; repeat split|].
  - constructor.
  - intros a [H|[H|H]]; simpl in H; [tauto|tauto|discriminate].
  - simpl in H. destruct (sref_eqb r SAll); inversion H. constructor.
  - simpl in H. destruct (sref_eqb r SAll); inversion H. intros a [].
  - intros r m H a Ha. simpl in H. destruct (sref_eqb r SAll); inversion H. subst. destruct Ha.
Qed.

Lemma inv_step s o : Inv s -> Inv (fst (step s o)).
Proof.
  intros I. destruct o; simpl.
  - apply inv_exec_act. exact I.
  - destruct I as [(W1 & W2 & W3 & W4) L].
    assert (forall a, In a (dedup_first Z.eqb (filter (alive s) ids)) -> alive s a = true) as Hal.
    { intros a Ha. apply (proj1 (dedup_first_In Z.eqb Z.eqb_eq _ _)) in Ha. apply filter_In in Ha. apply Ha. }
    split; [unfold Wf; cbn [reg next_id sets]; repeat split|].
    + exact W1.
    + exact W2.
    + rewrite lookup_app in H. destruct (lookup r (sets s)) as [m0|] eqn:E0.
      * inversion H; subst. apply (W3 r m E0).
      * destruct (sref_eqb r (SUser (nuser s))); inversion H. apply (dedup_first_NoDup Z.eqb Z.eqb_eq).
    + rewrite lookup_app in H. destruct (lookup r (sets s)) as [m0|] eqn:E0.
      * inversion H; subst. apply (W3 r m E0).
      * destruct (sref_eqb r (SUser (nuser s))); inversion H. subst. intros a Ha.
        apply W2. apply alive_spec. apply Hal. exact Ha.
    + rewrite lookup_app, W4. reflexivity.
    + intros r m H a Ha. cbn [sets] in H. rewrite lookup_app in H.
      change (alive s a = true).
      destruct (lookup r (sets s)) as [m0|] eqn:E0.
      * inversion H; subst. exact (L r m E0 a Ha).
      * destruct (sref_eqb r (SUser (nuser s))); inversion H. subst. apply Hal. exact Ha.
  - exact I.
  - destruct (lookup s0 (sets s)) as [snap|]; [|exact I].
    destruct (activate k perm sc snap s) as [[s' log]|] eqn:E; [|exact I].
    cbn [fst]. eapply inv_activate; eassumption.
  - destruct (lookup s0 (sets s)) as [members|]; [|exact I].
    destruct (m <=? 0); [exact I|].
    destruct (visit_groups k sc (groups_of m members) perms s) as [[s' logs]|] eqn:E; [|exact I].
    cbn [fst]. eapply inv_visit_groups; eassumption.
Qed.

(* the state reached by a history *)
Fixpoint state_after (s : st) (ops : list op) : st :=
  match ops with
  | [] => s
  | o :: t => state_after (fst (step s o)) t
  end.

Lemma inv_state_after ops : forall s, Inv s -> Inv (state_after s ops).
Proof.
  induction ops as [|o t IH]; intros s I; simpl; [exact I|]. apply IH. apply inv_step. exact I.
Qed.

Lemma inv_reachable ops : Inv (state_after init_st ops).
Proof. apply inv_state_after. apply inv_init. Qed.

(* run_ops really is the observation stream of state_after *)
Lemma run_ops_app s ops o :
  run_ops s (ops ++ [o]) = run_ops s ops ++ [snd (step (state_after s ops) o)].
Proof.
  revert s. induction ops as [|x t IH]; intros s; simpl.
  - destruct (step s o). reflexivity.
  - destruct (step s x) as [s' ob] eqn:E. cbn [fst]. rewrite IH. reflexivity.
Qed.

(* ------------------------------------------------------------------ Part D: one activation *)
Lemma zlist_eqb_eq a : forall b, zlist_eqb a b = true -> a = b.
Proof.
  induction a as [|x a IH]; intros [|y b]; simpl; intros H; try discriminate; [reflexivity|].
  apply andb_true_iff in H. destruct H as [H1 H2]. apply Z.eqb_eq in H1. subst. f_equal. apply IH. exact H2.
Qed.

Lemma is_perm_Permutation p l : is_perm p l = true -> Permutation p l.
Proof.
  unfold is_perm. intros H. apply zlist_eqb_eq in H.
  eapply Permutation_trans; [apply zsort_perm|]. rewrite H. apply Permutation_sym. apply zsort_perm.
Qed.

Lemma visit_order_spec k perm snap order :
  visit_order k perm snap = Some order ->
  Permutation order snap /\ (k <> KShuffleDo -> order = snap) /\ (k = KShuffleDo -> order = perm).
Proof.
  destruct k; simpl.
  - intros H. inversion H. subst. repeat split; auto. discriminate.
  - destruct (is_perm perm snap) eqn:E; [|discriminate]. intros H. inversion H. subst.
    repeat split; auto; [apply is_perm_Permutation; exact E|congruence].
  - intros H. inversion H. subst. repeat split; auto. discriminate.
Qed.

Lemma activate_spec k perm sc snap s s' log :
  activate k perm sc snap s = Some (s', log) ->
  exists order, visit_order k perm snap = Some order /\
                log = snd (visit sc order s) /\
                s' = sweep (set_cur None (fst (visit sc order s))).
Proof.
  unfold activate. destruct (visit_order k perm snap) as [order|]; [|discriminate].
  destruct (visit sc order s) as [s1 l] eqn:E. intros H. inversion H; subst.
  exists order. rewrite E. repeat split; reflexivity.
Qed.

Lemma activate_once k perm sc snap s s' log :
  NoDup snap -> activate k perm sc snap s = Some (s', log) -> NoDup log.
Proof.
  intros Hn H. apply activate_spec in H. destruct H as (order & Ho & -> & _).
  apply visit_log_NoDup. apply visit_order_spec in Ho. destruct Ho as (P & _).
  eapply Permutation_NoDup; [apply Permutation_sym; exact P|exact Hn].
Qed.

Lemma activate_order k perm sc snap s s' log :
  activate k perm sc snap s = Some (s', log) ->
  match k with
  | KShuffleDo => subseq log perm /\ Permutation perm snap
  | _ => subseq log snap
  end.
Proof.
  intros H. apply activate_spec in H. destruct H as (order & Ho & -> & _).
  pose proof (visit_log_subseq sc order s) as Hs.
  apply visit_order_spec in Ho. destruct Ho as (P & H1 & H2).
  destruct k.
  - rewrite <- H1 by discriminate. exact Hs.
  - rewrite <- H2 by reflexivity. split; [exact Hs|exact P].
  - rewrite <- H1 by discriminate. exact Hs.
Qed.

Lemma activate_members_only k perm sc snap s s' log :
  activate k perm sc snap s = Some (s', log) -> forall a, In a log -> In a snap.
Proof.
  intros H a Ha. apply activate_spec in H. destruct H as (order & Ho & -> & _).
  apply visit_order_spec in Ho. destruct Ho as (P & _).
  eapply Permutation_in; [exact P|]. eapply subseq_In; [apply visit_log_subseq|exact Ha].
Qed.

Lemma activate_exact k perm sc snap s s' log order :
  NoDup snap -> activate k perm sc snap s = Some (s', log) -> visit_order k perm snap = Some order ->
  forall a, In a log <-> exists s1, turn_state sc order s a = Some s1 /\ alive s1 a = true.
Proof.
  intros Hn H Ho a. apply activate_spec in H. destruct H as (order' & Ho' & -> & _).
  rewrite Ho in Ho'. inversion Ho'; subst order'. apply visit_exact.
  apply visit_order_spec in Ho. destruct Ho as (P & _).
  eapply Permutation_NoDup; [apply Permutation_sym; exact P|exact Hn].
Qed.

(* agents registered during the call have fresh ids; members of the snapshot have old ones *)
Lemma activate_no_new k perm sc snap s s' log :
  (forall a, In a snap -> a < next_id s) ->
  activate k perm sc snap s = Some (s', log) ->
  (forall a, In a log -> a < next_id s) /\
  (forall a, In a (reg s') -> ~ In a (reg s) -> next_id s <= a /\ ~ In a log).
Proof.
  intros Hb H. split.
  - intros a Ha. apply Hb. eapply activate_members_only; eassumption.
  - intros a Ha Hn. pose proof (evolves_activate _ _ _ _ _ _ _ H) as (_ & _ & R & _).
    destruct (R a Ha) as [Hr|Hr]; [tauto|]. split; [lia|].
    intros Hl. assert (a < next_id s) by (apply Hb; eapply activate_members_only; eassumption). lia.
Qed.

(* ------------------------------------------------------------------ Part E: scripts that spare an agent *)
Definition removes (self : Z) (x : act) (a : Z) : bool :=
  match x with
  | RemoveSelf _ => self =? a
  | RemoveId i _ => i =? a
  | _ => false
  end.

(* nobody's turn contains a removal of a *)
Definition spares (sc : script) (a : Z) : Prop :=
  forall r x, In x (script_of sc r) -> removes r x a = false.

Lemma reg_sweep s : reg (sweep s) = reg s.
Proof. reflexivity. Qed.

Lemma reg_kept_do_remove i keep s a : In a (reg s) -> i <> a -> In a (reg (do_remove i keep s)).
Proof.
  intros Ha Hi. unfold do_remove. destruct (alive s i); [|exact Ha].
  rewrite reg_sweep.
  assert (In a (reg (deregister i s))) as Hd.
  { unfold deregister. destruct (memz i (reg s)); [|exact Ha]. cbn [reg]. apply remove_z_In. split; [exact Ha|congruence]. }
  destruct keep; exact Hd.
Qed.

Lemma reg_kept_create_n n c keep s a : In a (reg s) -> In a (reg (create_n n c keep s)).
Proof.
  revert s. induction n as [|n IH]; intros s H; simpl; [exact H|].
  apply IH. cbn [reg create1]. apply in_or_app. left. exact H.
Qed.

Lemma reg_kept_act self s x a : In a (reg s) -> removes self x a = false -> In a (reg (exec_act self s x)).
Proof.
  intros Ha Hr. destruct x; simpl in *.
  - exact Ha.
  - apply reg_kept_do_remove; [exact Ha|]. apply Z.eqb_neq. exact Hr.
  - apply reg_kept_do_remove; [exact Ha|]. apply Z.eqb_neq. exact Hr.
  - apply reg_kept_create_n. exact Ha.
  - exact Ha.
  - destruct (alive s i); exact Ha.
Qed.

Lemma reg_kept_run_acts self l s a :
  In a (reg s) -> (forall x, In x l -> removes self x a = false) -> In a (reg (run_acts self l s)).
Proof.
  revert s. induction l as [|x t IH]; intros s Ha Hl; simpl; [exact Ha|].
  apply IH; [apply reg_kept_act; [exact Ha|apply Hl; left; reflexivity]|].
  intros y Hy. apply Hl. right. exact Hy.
Qed.

Lemma reg_kept_visit1 sc r s a : In a (reg s) -> spares sc a -> In a (reg (visit1 sc r s)).
Proof.
  intros Ha Hs. unfold visit1. destruct (alive s r); [|exact Ha].
  apply reg_kept_run_acts; [exact Ha|]. intros x Hx. apply (Hs r x Hx).
Qed.

Lemma reg_kept_visit sc order s a : In a (reg s) -> spares sc a -> In a (reg (fst (visit sc order s))).
Proof.
  revert s. induction order as [|r t IH]; intros s Ha Hs; [exact Ha|].
  rewrite visit_cons. cbn [fst]. apply IH; [apply reg_kept_visit1; assumption|exact Hs].
Qed.

Lemma unremoved_called sc order s a :
  In a (reg s) -> spares sc a -> In a order -> In a (snd (visit sc order s)).
Proof.
  intros Ha Hs Hin. apply in_split in Hin. destruct Hin as (pre & post & ->).
  apply visit_registered_called. apply reg_kept_visit; assumption.
Qed.

(* no removal anywhere in the script: the log is the whole visiting order *)
Lemma no_removal_all_called sc order : forall s,
  (forall a, spares sc a) -> (forall a, In a order -> In a (reg s)) -> snd (visit sc order s) = order.
Proof.
  induction order as [|r t IH]; intros s Hs Hr; [reflexivity|].
  rewrite visit_cons. cbn [snd].
  assert (alive s r = true) as -> by (apply alive_spec; left; apply Hr; left; reflexivity).
  f_equal. apply IH; [exact Hs|]. intros a Ha. apply reg_kept_visit1; [|apply Hs]. apply Hr. right. exact Ha.
Qed.

(* ------------------------------------------------------------------ Part F: statements over all histories *)
Definition reached (ops : list op) : st := state_after init_st ops.

Lemma reached_set ops r snap :
  lookup r (sets (reached ops)) = Some snap ->
  NoDup snap /\ forall a, In a snap -> alive (reached ops) a = true /\ a < next_id (reached ops).
Proof.
  intros H. destruct (inv_reachable ops) as [(W1 & W2 & W3 & W4) L]. fold (reached ops) in *.
  destruct (W3 r snap H) as [Hn Hb]. split; [exact Hn|]. intros a Ha. split; [exact (L r snap H a Ha)|exact (Hb a Ha)].
Qed.

Lemma reached_all_is_reg ops : lookup SAll (sets (reached ops)) = Some (reg (reached ops)).
Proof. destruct (inv_reachable ops) as [(_ & _ & _ & W4) _]. exact W4. Qed.

Lemma reached_once ops k r perm sc snap s' log :
  lookup r (sets (reached ops)) = Some snap ->
  activate k perm sc snap (reached ops) = Some (s', log) -> NoDup log.
Proof. intros H. apply activate_once. apply (reached_set ops r snap H). Qed.

Lemma reached_exact ops k r perm sc snap s' log order :
  lookup r (sets (reached ops)) = Some snap ->
  activate k perm sc snap (reached ops) = Some (s', log) -> visit_order k perm snap = Some order ->
  forall a, In a log <->
            exists s1, turn_state sc order (reached ops) a = Some s1 /\ alive s1 a = true.
Proof. intros H. apply activate_exact. apply (reached_set ops r snap H). Qed.

Lemma reached_no_new ops k r perm sc snap s' log :
  lookup r (sets (reached ops)) = Some snap ->
  activate k perm sc snap (reached ops) = Some (s', log) ->
  (forall a, In a log -> In a snap /\ a < next_id (reached ops)) /\
  (forall a, In a (reg s') -> ~ In a (reg (reached ops)) -> next_id (reached ops) <= a /\ ~ In a log).
Proof.
  intros H Ha. destruct (reached_set ops r snap H) as [_ Hb].
  destruct (activate_no_new k perm sc snap _ s' log (fun a Hin => proj2 (Hb a Hin)) Ha) as [H1 H2].
  split; [|exact H2]. intros a Hin. split; [eapply activate_members_only; eassumption|apply H1; exact Hin].
Qed.

Lemma reached_unremoved_called ops k r perm sc snap s' log a :
  lookup r (sets (reached ops)) = Some snap ->
  activate k perm sc snap (reached ops) = Some (s', log) ->
  In a snap -> In a (reg (reached ops)) -> spares sc a -> In a log.
Proof.
  intros H Hact Hin Hreg Hsp. apply activate_spec in Hact. destruct Hact as (order & Ho & -> & _).
  apply unremoved_called; [exact Hreg|exact Hsp|].
  apply visit_order_spec in Ho. destruct Ho as (P & _).
  eapply Permutation_in; [apply Permutation_sym; exact P|exact Hin].
Qed.

(* activating model.agents with callbacks that remove nobody calls everybody, in visiting order *)
Lemma reached_all_called ops k perm sc s' log order :
  activate k perm sc (reg (reached ops)) (reached ops) = Some (s', log) ->
  visit_order k perm (reg (reached ops)) = Some order ->
  (forall a, spares sc a) -> log = order.
Proof.
  intros Hact Ho Hsp. apply activate_spec in Hact. destruct Hact as (order' & Ho' & -> & _).
  rewrite Ho in Ho'. inversion Ho'; subst order'.
  apply no_removal_all_called; [exact Hsp|].
  apply visit_order_spec in Ho. destruct Ho as (P & _). intros a Ha. eapply Permutation_in; [exact P|exact Ha].
Qed.

Lemma activate_sets_keep_order k perm sc snap s s' log :
  activate k perm sc snap s = Some (s', log) ->
  forall r m, lookup r (sets s) = Some m ->
    exists keep new, lookup r (sets s') = Some (filter keep m ++ new) /\
                     forall a, In a new -> next_id s <= a < next_id s'.
Proof. intros H. pose proof (evolves_activate _ _ _ _ _ _ _ H) as (_ & _ & _ & S). exact S. Qed.

Lemma dead_after_prefix_never_called sc pre post s a :
  alive (fst (visit sc pre s)) a = false -> a < next_id (fst (visit sc pre s)) ->
  snd (visit sc (pre ++ post) s) = snd (visit sc pre s) ++ snd (visit sc post (fst (visit sc pre s))) /\
  ~ In a (snd (visit sc post (fst (visit sc pre s)))).
Proof.
  intros Hd Hb. split; [rewrite visit_app; reflexivity|apply dead_never_called; assumption].
Qed.

Lemma obs_log_cons args a log : obs_log args (a :: log) = a :: args ++ obs_log args log.
Proof. reflexivity. Qed.

Lemma obs_log_calls args log : length (obs_log args log) = (length log * S (length args))%nat.
Proof.
  induction log as [|a t IH]; [reflexivity|]. rewrite obs_log_cons. cbn [length]. rewrite app_length, IH. lia.
Qed.

(* ------------------------------------------------------------------ Part G: GroupBy.do / map *)
Lemma NoDup_app_intro (l1 l2 : list Z) :
  NoDup l1 -> NoDup l2 -> (forall x, In x l1 -> ~ In x l2) -> NoDup (l1 ++ l2).
Proof.
  induction l1 as [|x t IH]; simpl; intros H1 H2 Hd; [exact H2|].
  inversion H1; subst. constructor.
  - intros H. apply in_app_or in H. destruct H as [H|H]; [tauto|]. apply (Hd x); [left; reflexivity|exact H].
  - apply IH; [assumption|assumption|]. intros y Hy. apply Hd. right. exact Hy.
Qed.

Lemma subseq_trans l1 l2 l3 : subseq l1 l2 -> subseq l2 l3 -> subseq l1 l3.
Proof.
  intros H12 H23. revert l1 H12. induction H23; intros l1 H12.
  - exact H12.
  - inversion H12; subst; [constructor; apply IHsubseq; assumption|apply sub_skip; apply IHsubseq; assumption].
  - apply sub_skip. apply IHsubseq. exact H12.
Qed.

(* each group's log: duplicate-free, made of that group's members; in group order for do/map *)
Definition group_log_ok (k : akind) (g l : list Z) : Prop :=
  NoDup l /\ (forall a, In a l -> In a g) /\ (k <> KShuffleDo -> subseq l g).

Lemma visit_groups_spec k sc gs : forall perms s s' logs,
  (forall key g, In (key, g) gs -> NoDup g) ->
  visit_groups k sc gs perms s = Some (s', logs) ->
  map fst logs = map fst gs /\
  Forall2 (fun kl kg => group_log_ok k (snd kg) (snd kl)) logs gs.
Proof.
  induction gs as [|[key g] gs IH]; intros perms s s' logs Hn; simpl.
  - intros H. inversion H; subst. split; [reflexivity|constructor].
  - destruct (activate k (hd [] perms) sc (filter (alive s) g) s) as [[s1 log1]|] eqn:E; [|discriminate].
    destruct (visit_groups k sc gs (tl perms) s1) as [[s2 logs2]|] eqn:E2; [|discriminate].
    intros H. inversion H; subst.
    destruct (IH (tl perms) s1 s' logs2) as [Hk Hf]; [intros k0 g0 H0; apply (Hn k0 g0); right; exact H0|exact E2|].
    split; [simpl; f_equal; exact Hk|]. constructor; [|exact Hf].
    cbn [snd]. assert (NoDup g) as Hg by (apply (Hn key g); left; reflexivity).
    repeat split.
    + eapply activate_once; [|exact E]. apply NoDup_filter. exact Hg.
    + intros a Ha. pose proof (activate_members_only _ _ _ _ _ _ _ E a Ha) as Hin.
      apply filter_In in Hin. apply Hin.
    + intros Hk'. pose proof (activate_order _ _ _ _ _ _ _ E) as Ho.
      eapply subseq_trans; [|apply subseq_filter].
      destruct k; [exact Ho|congruence|exact Ho].
Qed.

Lemma groups_of_keys m l : map fst (groups_of m l) = group_keys m l.
Proof. unfold groups_of. rewrite map_map. simpl. apply map_id. Qed.

Lemma groups_of_spec m l key g :
  In (key, g) (groups_of m l) -> g = filter (fun a => gkey m a =? key) l.
Proof.
  unfold groups_of. rewrite in_map_iff. intros (k0 & H & _). inversion H; subst. reflexivity.
Qed.

Lemma nodup_flat_logs m (logs : list (Z * list Z)) :
  NoDup (map fst logs) ->
  (forall key l, In (key, l) logs -> NoDup l /\ forall a, In a l -> gkey m a = key) ->
  NoDup (flat_map snd logs).
Proof.
  induction logs as [|[key l] t IH]; simpl; intros Hk Hl; [constructor|].
  inversion Hk; subst. apply NoDup_app_intro.
  - apply (Hl key l). left. reflexivity.
  - apply IH; [assumption|]. intros k0 l0 H0. apply Hl. right. exact H0.
  - intros x Hx Hin. apply in_flat_map in Hin. destruct Hin as ([k0 l0] & H0 & Hx0). simpl in Hx0.
    assert (gkey m x = key) as E1 by (apply (Hl key l); [left; reflexivity|exact Hx]).
    assert (gkey m x = k0) as E2 by (apply (Hl k0 l0); [right; exact H0|exact Hx0]).
    apply H1. rewrite in_map_iff. exists (k0, l0). split; [simpl; congruence|exact H0].
Qed.

Lemma Forall2_In_l {A B} (R : A -> B -> Prop) la lb x :
  Forall2 R la lb -> In x la -> exists y, In y lb /\ R x y.
Proof.
  induction 1; simpl; intros Hx; [tauto|]. destruct Hx as [Hx|Hx].
  - subst. eexists. split; [left; reflexivity|assumption].
  - destruct (IHForall2 Hx) as (y0 & Hy & Hr). exists y0. split; [right; exact Hy|exact Hr].
Qed.

Lemma Forall2_keys_eq (R : list Z -> list Z -> Prop) (logs gs : list (Z * list Z)) :
  Forall2 (fun kl kg => R (snd kg) (snd kl)) logs gs -> map fst logs = map fst gs -> NoDup (map fst gs) ->
  forall key l, In (key, l) logs -> exists g, In (key, g) gs /\ R g l.
Proof.
  induction 1 as [|[k1 l1] [k2 g2] logs gs HR HF IH]; simpl; intros Hk Hn key l Hin; [tauto|].
  inversion Hk as [[Hk1 Hk2]]. inversion Hn as [|? ? Hn1 Hn2]; subst. destruct Hin as [Hin|Hin].
  - inversion Hin; subst. exists g2. split; [left; reflexivity|exact HR].
  - destruct (IH Hk2 Hn2 key l Hin) as (g & Hg & Hr). exists g. split; [right; exact Hg|exact Hr].
Qed.

Lemma reached_groupby_once ops k r m perms sc members s' logs :
  lookup r (sets (reached ops)) = Some members ->
  visit_groups k sc (groups_of m members) perms (reached ops) = Some (s', logs) ->
  map fst logs = group_keys m members /\ NoDup (map fst logs) /\
  NoDup (flat_map snd logs) /\
  forall key l, In (key, l) logs ->
    group_log_ok k (filter (fun a => gkey m a =? key) members) l.
Proof.
  intros H Hv. destruct (reached_set ops r members H) as [Hn _].
  assert (forall key g, In (key, g) (groups_of m members) -> NoDup g) as Hg.
  { intros key g Hin. rewrite (groups_of_spec m members key g Hin). apply NoDup_filter. exact Hn. }
  destruct (visit_groups_spec k sc _ perms _ s' logs Hg Hv) as [Hk Hf].
  rewrite groups_of_keys in Hk.
  assert (NoDup (map fst logs)) as Hnk.
  { rewrite Hk. apply (dedup_first_NoDup Z.eqb Z.eqb_eq). }
  assert (forall key l, In (key, l) logs -> group_log_ok k (filter (fun a => gkey m a =? key) members) l) as Hok.
  { intros key l Hin.
    destruct (Forall2_keys_eq (group_log_ok k) logs (groups_of m members) Hf) with (key := key) (l := l)
      as (g & Hgin & Hr).
    - rewrite groups_of_keys. exact Hk.
    - rewrite groups_of_keys. rewrite <- Hk. exact Hnk.
    - exact Hin.
    - rewrite <- (groups_of_spec m members key g Hgin). exact Hr. }
  repeat split; try assumption.
  - apply (nodup_flat_logs m); [exact Hnk|]. intros key l Hin. destruct (Hok key l Hin) as (H1 & H2 & _).
    split; [exact H1|]. intros a Ha. specialize (H2 a Ha). apply filter_In in H2. apply Z.eqb_eq. apply H2.
  - apply (Hok key l H0).
  - apply (Hok key l H0).
  - apply (Hok key l H0).
Qed.

(* ------------------------------------------------------------------ Part H: program-made sets, exactly *)
(* a program-made set only ever loses members, and never one that is still alive *)
Definition utrack (s s' : st) : Prop :=
  forall k m, lookup (SUser k) (sets s) = Some m ->
    exists keep, lookup (SUser k) (sets s') = Some (filter keep m) /\
                 forall x, In x m -> x < next_id s -> alive s' x = true -> keep x = true.

Lemma utrack_user_unchanged s s' :
  (forall k, lookup (SUser k) (sets s') = lookup (SUser k) (sets s)) -> utrack s s'.
Proof.
  intros H k m Hm. exists (fun _ => true). rewrite filter_all_true, H. split; [exact Hm|reflexivity].
Qed.

Lemma utrack_sweep s : utrack s (sweep s).
Proof.
  intros k m Hm. exists (alive s). cbn [sets sweep set_sets]. rewrite lookup_upd, Hm. split; [reflexivity|].
  intros x _ _ H. exact H.
Qed.

Lemma lookup_user_deregister a s k :
  lookup (SUser k) (sets (deregister a s)) = lookup (SUser k) (sets s).
Proof.
  unfold deregister. destruct (memz a (reg s)); [|reflexivity].
  cbn [sets]. rewrite lookup_upd. cbn [touches]. destruct (lookup (SUser k) (sets s)); reflexivity.
Qed.

Lemma utrack_deregister a s : utrack s (deregister a s).
Proof. apply utrack_user_unchanged. intros k. apply lookup_user_deregister. Qed.

Lemma utrack_create1 c keep s : utrack s (create1 c keep s).
Proof.
  apply utrack_user_unchanged. intros k. cbn [sets create1].
  destruct (has_set (SType c) (sets s)).
  - rewrite lookup_upd. cbn [touches]. destruct (lookup (SUser k) (sets s)); reflexivity.
  - rewrite lookup_app, lookup_upd. cbn [touches sref_eqb]. destruct (lookup (SUser k) (sets s)); reflexivity.
Qed.

Definition ev2 (s s' : st) : Prop := evolves s s' /\ utrack s s'.

Lemma ev2_refl s : ev2 s s.
Proof. split; [apply evolves_refl|apply utrack_user_unchanged; reflexivity]. Qed.

Lemma ev2_trans s1 s2 s3 : ev2 s1 s2 -> ev2 s2 s3 -> ev2 s1 s3.
Proof.
  intros [E1 U1] [E2 U2]. split; [eapply evolves_trans; eassumption|].
  destruct E1 as (N1 & D1 & _ & _). destruct E2 as (N2 & D2 & _ & _).
  intros k m Hm. destruct (U1 k m Hm) as (k1 & L1 & C1). destruct (U2 k _ L1) as (k2 & L2 & C2).
  exists (fun x => k1 x && k2 x). split; [rewrite L2, filter_filter; reflexivity|].
  intros x Hx Hb H3.
  assert (alive s2 x = true) as H2 by (apply D2; [lia|exact H3]).
  assert (k1 x = true) as K1 by (apply C1; assumption).
  rewrite K1. simpl. apply C2; [apply filter_In; split; assumption|lia|exact H3].
Qed.

Lemma ev2_same_user s s' :
  evolves s s' -> (forall k, lookup (SUser k) (sets s') = lookup (SUser k) (sets s)) -> ev2 s s'.
Proof. intros E H. split; [exact E|apply utrack_user_unchanged; exact H]. Qed.

Lemma ev2_sweep s : ev2 s (sweep s).
Proof. split; [apply evolves_sweep|apply utrack_sweep]. Qed.

Lemma ev2_do_remove a keep s : ev2 s (do_remove a keep s).
Proof.
  split; [apply evolves_do_remove|].
  unfold do_remove. destruct (alive s a) eqn:Ea; [|apply utrack_user_unchanged; reflexivity].
  (* deregister (user sets untouched), maybe one more reference, then the sweep *)
  intros k m Hm.
  set (s2 := if keep then set_ext (ext (deregister a s) ++ [a]) (deregister a s) else deregister a s).
  assert (lookup (SUser k) (sets s2) = Some m) as H2.
  { assert (sets s2 = sets (deregister a s)) as -> by (unfold s2; destruct keep; reflexivity).
    rewrite lookup_user_deregister. exact Hm. }
  exists (alive s2). cbn [sets sweep set_sets]. rewrite lookup_upd, H2. split; [reflexivity|].
  intros x _ _ H. exact H.
Qed.

Lemma ev2_create_n n c keep s : ev2 s (create_n n c keep s).
Proof.
  revert s. induction n as [|n IH]; intros s; simpl; [apply ev2_refl|].
  eapply ev2_trans; [|apply IH]. split; [apply evolves_create1|apply utrack_create1].
Qed.

Lemma ev2_exec_act self s a : ev2 s (exec_act self s a).
Proof.
  destruct a; simpl.
  - apply ev2_refl.
  - apply ev2_do_remove.
  - apply ev2_do_remove.
  - apply ev2_create_n.
  - eapply ev2_trans; [|apply ev2_sweep]. apply ev2_same_user; [apply evolves_drop_ext|reflexivity].
  - destruct (alive s i) eqn:E; [|apply ev2_refl]. apply ev2_same_user; [apply evolves_add_ext; exact E|reflexivity].
Qed.

Lemma ev2_run_acts self l s : ev2 s (run_acts self l s).
Proof.
  revert s. induction l as [|a t IH]; intros s; simpl; [apply ev2_refl|].
  eapply ev2_trans; [apply ev2_exec_act|apply IH].
Qed.

Lemma ev2_visit1 sc r s : ev2 s (visit1 sc r s).
Proof.
  unfold visit1. destruct (alive s r) eqn:E.
  - eapply ev2_trans; [apply ev2_same_user; [apply evolves_set_cur_some; exact E|reflexivity]|].
    eapply ev2_trans; [apply ev2_sweep|apply ev2_run_acts].
  - eapply ev2_trans; [apply ev2_same_user; [apply evolves_set_cur_none|reflexivity]|apply ev2_sweep].
Qed.

Lemma ev2_visit sc order s : ev2 s (fst (visit sc order s)).
Proof.
  revert s. induction order as [|r t IH]; intros s; [apply ev2_refl|].
  rewrite visit_cons. cbn [fst]. eapply ev2_trans; [apply ev2_visit1|apply IH].
Qed.

Lemma ev2_activate k perm sc snap s s' log :
  activate k perm sc snap s = Some (s', log) -> ev2 s s'.
Proof.
  intros H. apply activate_spec in H. destruct H as (order & _ & _ & ->).
  eapply ev2_trans; [apply ev2_visit|].
  eapply ev2_trans; [apply ev2_same_user; [apply evolves_set_cur_none|reflexivity]|apply ev2_sweep].
Qed.

(* after any activation a program-made set is exactly its former self minus the agents that died *)
Lemma reached_user_set_exact ops k r perm sc snap s' log j m :
  lookup r (sets (reached ops)) = Some snap ->
  activate k perm sc snap (reached ops) = Some (s', log) ->
  lookup (SUser j) (sets (reached ops)) = Some m ->
  lookup (SUser j) (sets s') = Some (filter (alive s') m).
Proof.
  intros _ Hact Hm.
  destruct (ev2_activate _ _ _ _ _ _ _ Hact) as [_ U].
  destruct (U j m Hm) as (keep & L & C). rewrite L. f_equal.
  destruct (inv_activate _ _ _ _ _ _ _ (inv_reachable ops) Hact) as [_ Lv].
  destruct (reached_set ops (SUser j) m Hm) as [_ Hb].
  apply filter_ext_in. intros x Hx.
  destruct (keep x) eqn:Ek.
  - symmetry. apply (Lv (SUser j) _ L). apply filter_In. split; assumption.
  - destruct (alive s' x) eqn:Ea; [|reflexivity].
    rewrite (C x Hx (proj2 (Hb x Hx)) Ea) in Ek. discriminate.
Qed.
