(* History-level facts about which events can appear as `LExec e c` in the logs of Model/Devs.v:
   (A) an event executes at most once over a whole history (ids are fresh);
   (B) an event cancelled now never executes later;
   (C) an event whose callable holder is dead now never executes later.
   One generic preservation principle (Section Pres: state predicates through schedule .. exec_event;
   Section Hist: predicates indexed by the events executed so far through run_loop .. run_state),
   instantiated three times. *)
From Coq Require Import ZArith List Bool Lia Sorted Permutation.
From Mesa Require Import Generated.Tables Model.Devs Model.DevsSpec Proofs.DevsProofs.
Import ListNotations. Open Scope Z_scope.

(* ---------- 0. what a log can contain ---------- *)
Lemma execs_app : forall l1 l2, execs (l1 ++ l2) = execs l1 ++ execs l2.
Proof. intros l1 l2. unfold execs. apply flat_map_app. Qed.

Lemma execs_nil : execs [] = [].
Proof. reflexivity. Qed.

Lemma execs_cons_step : forall k c l, execs (LStep k c :: l) = execs l.
Proof. reflexivity. Qed.

Lemma execs_cons_exec : forall e c l, execs (LExec e c :: l) = e :: execs l.
Proof. reflexivity. Qed.

Lemma do_act_execs : forall cfg a st st' l, do_act cfg st a = (st', l) -> execs l = [].
Proof.
  intros cfg a st st' l H. destruct a as [k t p tag h body|tag|h|]; cbn [do_act] in H.
  - destruct (do_sched cfg st k t p tag h body) as [s rc]. inversion H; subst. reflexivity.
  - inversion H; reflexivity.
  - inversion H; reflexivity.
  - inversion H; reflexivity.
Qed.

Lemma do_acts_execs : forall cfg acts st st' l, do_acts cfg st acts = (st', l) -> execs l = [].
Proof.
  intros cfg acts. induction acts as [|a r IH]; intros st st' l H; cbn [do_acts] in H.
  - inversion H; reflexivity.
  - destruct (do_act cfg st a) as [s1 l1] eqn:E1.
    destruct (has_raise l1) eqn:Hr.
    { inversion H; subst. eapply do_act_execs; exact E1. }
    destruct (do_acts cfg s1 r) as [s2 l2] eqn:E2. inversion H; subst.
    rewrite execs_app, (do_act_execs _ _ _ _ _ E1), (IH _ _ _ E2). reflexivity.
Qed.

(* execute logs at most the event itself, and only if it is live and its callable is alive *)
Lemma execute_execs : forall cfg st e st' l, execute cfg st e = (st', l) ->
  execs l = [] \/
  (execs l = [e] /\ e_cancelled e = false /\ memz (e_holder e) (s_dead st) = false).
Proof.
  intros cfg st e st' l H. unfold execute in H.
  destruct (e_cancelled e) eqn:Ec; [inversion H; subst; left; reflexivity|].
  destruct (e_step e).
  - match type of H with context [do_acts ?a ?b ?c] =>
      destruct (do_acts a b c) as [s2 l2] eqn:E end.
    inversion H; subst. left. rewrite execs_cons_step. eapply do_acts_execs; exact E.
  - destruct (memz (e_holder e) (s_dead st)) eqn:Em; [inversion H; subst; left; reflexivity|].
    destruct (do_acts cfg st (e_body e)) as [s2 l2] eqn:E.
    inversion H; subst. right. rewrite execs_cons_exec, (do_acts_execs _ _ _ _ _ E). auto.
Qed.

Lemma schedule_dead : forall cfg st t p tag h stp body st' rc,
  schedule cfg st t p tag h stp body = (st', rc) -> s_dead st' = s_dead st.
Proof.
  intros cfg st t p tag h stp body st' rc H.
  destruct (schedule_cases _ _ _ _ _ _ _ _ _ _ H) as [[_ [_ ->]]|[_ ->]]; reflexivity.
Qed.

Lemma schedule_relative_dead : forall cfg st d p tag h stp body st' rc,
  schedule_relative cfg st d p tag h stp body = (st', rc) -> s_dead st' = s_dead st.
Proof.
  intros cfg st d p tag h stp body st' rc H.
  destruct (schedule_relative_cases _ _ _ _ _ _ _ _ _ _ H) as [[_ ->]|[_ H1]];
    [reflexivity|eapply schedule_dead; exact H1].
Qed.

Lemma exec_event_execs : forall cfg st e st' l, exec_event cfg st e = (st', l) ->
  execs l = [] \/
  (execs l = [e] /\ e_cancelled e = false /\ memz (e_holder e) (s_dead st) = false).
Proof.
  intros cfg st e st' l H. unfold exec_event in H.
  apply execute_execs in H. destruct H as [H|[H1 [H2 H3]]]; [left; exact H|right].
  split; [exact H1|]. split; [exact H2|]. rewrite <- H3. f_equal.
  destruct (c_abm cfg && e_step e); [|reflexivity].
  destruct (schedule_relative cfg (set_time st (e_time e)) SCALE gen_step_prio (-1) (-1) true [])
    as [s rc] eqn:E.
  cbn [fst]. rewrite (schedule_relative_dead _ _ _ _ _ _ _ _ _ _ E). reflexivity.
Qed.

(* ---------- 1. generic preservation of a state predicate, schedule .. exec_event ---------- *)
Section Pres.
  Variable cfg : config.
  Variable P : state -> Prop.
  Hypothesis P_uid : forall st, P st -> P (set_uid st (s_uid st + 1)).
  Hypothesis P_ins : forall st t p tag h stp body, P st ->
    P (set_events (set_uid st (s_uid st + 1))
         (ev_insert (mk_event t p (s_uid st) tag h stp body) (s_events st))).
  Hypothesis P_cancel : forall st tag, P st -> P (do_cancel st tag).
  Hypothesis P_drop : forall st h, P st -> P (do_drop st h).
  Hypothesis P_steps : forall st k, P st -> P (set_steps st k).
  Hypothesis P_time : forall st t, P st -> P (set_time st t).

  Lemma pres_schedule : forall st t p tag h stp body st' rc, P st ->
    schedule cfg st t p tag h stp body = (st', rc) -> P st'.
  Proof.
    intros st t p tag h stp body st' rc Hp H.
    destruct (schedule_cases _ _ _ _ _ _ _ _ _ _ H) as [[_ [_ ->]]|[_ ->]];
      [apply P_ins|apply P_uid]; exact Hp.
  Qed.

  Lemma pres_schedule_relative : forall st d p tag h stp body st' rc, P st ->
    schedule_relative cfg st d p tag h stp body = (st', rc) -> P st'.
  Proof.
    intros st d p tag h stp body st' rc Hp H.
    destruct (schedule_relative_cases _ _ _ _ _ _ _ _ _ _ H) as [[_ ->]|[_ H1]];
      [exact Hp|eapply pres_schedule; eassumption].
  Qed.

  Lemma pres_do_sched : forall st k t p tag h body st' rc, P st ->
    do_sched cfg st k t p tag h body = (st', rc) -> P st'.
  Proof.
    intros st k t p tag h body st' rc Hp H. unfold do_sched in H.
    destruct (memz h (s_dead st)); [inversion H; subst; exact Hp|].
    destruct k.
    - eapply pres_schedule_relative; eassumption.
    - eapply pres_schedule_relative; eassumption.
    - destruct (s_time st >? t); [inversion H; subst; exact Hp|eapply pres_schedule; eassumption].
    - destruct (c_abm cfg); [eapply pres_schedule_relative; eassumption|inversion H; subst; exact Hp].
  Qed.

  Lemma pres_do_act : forall a st st' l, P st -> do_act cfg st a = (st', l) -> P st'.
  Proof.
    intros a st st' l Hp H. destruct a as [k t p tag h body|tag|h|]; cbn [do_act] in H.
    - destruct (do_sched cfg st k t p tag h body) as [s rc] eqn:E. inversion H; subst.
      eapply pres_do_sched; eassumption.
    - inversion H; subst. apply P_cancel, Hp.
    - inversion H; subst. apply P_drop, Hp.
    - inversion H; subst. exact Hp.
  Qed.

  Lemma pres_do_acts : forall acts st st' l, P st -> do_acts cfg st acts = (st', l) -> P st'.
  Proof.
    induction acts as [|a r IH]; intros st st' l Hp H; cbn [do_acts] in H.
    - inversion H; subst. exact Hp.
    - destruct (do_act cfg st a) as [s1 l1] eqn:E1.
      destruct (has_raise l1) eqn:Hr.
      { inversion H; subst. eapply pres_do_act; eassumption. }
      destruct (do_acts cfg s1 r) as [s2 l2] eqn:E2. inversion H; subst.
      eapply IH; [|exact E2]. eapply pres_do_act; eassumption.
  Qed.

  Lemma pres_execute : forall st e st' l, P st -> execute cfg st e = (st', l) -> P st'.
  Proof.
    intros st e st' l Hp H. unfold execute in H.
    destruct (e_cancelled e); [inversion H; subst; exact Hp|].
    destruct (e_step e).
    - match type of H with context [do_acts ?a ?b ?c] =>
        destruct (do_acts a b c) as [s2 l2] eqn:E end.
      inversion H; subst. eapply pres_do_acts; [|exact E]. apply P_steps, Hp.
    - destruct (memz (e_holder e) (s_dead st)); [inversion H; subst; exact Hp|].
      destruct (do_acts cfg st (e_body e)) as [s2 l2] eqn:E.
      inversion H; subst. eapply pres_do_acts; [|exact E]. exact Hp.
  Qed.

  Lemma pres_exec_event : forall st e st' l, P st -> exec_event cfg st e = (st', l) -> P st'.
  Proof.
    intros st e st' l Hp H. unfold exec_event in H.
    eapply pres_execute; [|exact H].
    destruct (c_abm cfg && e_step e); [|apply P_time, Hp].
    destruct (schedule_relative cfg (set_time st (e_time e)) SCALE gen_step_prio (-1) (-1) true [])
      as [s rc] eqn:E.
    cbn [fst]. eapply pres_schedule_relative; [|exact E]. apply P_time, Hp.
  Qed.
End Pres.

(* ---------- 2. generic preservation along a history, indexed by the events executed so far ---------- *)
Definition hist_ok (cfg : config) (I : list event -> state -> Prop) : Prop :=
  (forall s st k t p tag h body st' rc, I s st ->
     do_sched cfg st k t p tag h body = (st', rc) -> I s st') /\
  (forall s st tag, I s st -> I s (do_cancel st tag)) /\
  (forall s st h, I s st -> I s (do_drop st h)) /\
  (forall s st t, I s st -> I s (set_time st t)) /\
  (forall s st, I s st -> I s (set_events st [])) /\
  (forall s st e rest st' l, I s st ->
     pop_event (s_events st) = Some (e, rest) ->
     exec_event cfg (set_events st rest) e = (st', l) -> I (s ++ execs l) st') /\
  (forall s st e rest endt, I s st ->
     pop_event (s_events st) = Some (e, rest) ->
     I s (set_events (set_time (set_events st rest) endt) (ev_insert e rest))).

Section Hist.
  Variable cfg : config.
  Variable I : list event -> state -> Prop.
  Hypothesis HI : hist_ok cfg I.

  Lemma I_sched : forall s st k t p tag h body st' rc, I s st ->
    do_sched cfg st k t p tag h body = (st', rc) -> I s st'.
  Proof. exact (proj1 HI). Qed.
  Lemma I_cancel : forall s st tag, I s st -> I s (do_cancel st tag).
  Proof. exact (proj1 (proj2 HI)). Qed.
  Lemma I_drop : forall s st h, I s st -> I s (do_drop st h).
  Proof. exact (proj1 (proj2 (proj2 HI))). Qed.
  Lemma I_time : forall s st t, I s st -> I s (set_time st t).
  Proof. exact (proj1 (proj2 (proj2 (proj2 HI)))). Qed.
  Lemma I_clear : forall s st, I s st -> I s (set_events st []).
  Proof. exact (proj1 (proj2 (proj2 (proj2 (proj2 HI))))). Qed.
  Lemma I_exec : forall s st e rest st' l, I s st ->
    pop_event (s_events st) = Some (e, rest) ->
    exec_event cfg (set_events st rest) e = (st', l) -> I (s ++ execs l) st'.
  Proof. exact (proj1 (proj2 (proj2 (proj2 (proj2 (proj2 HI)))))). Qed.
  Lemma I_stop : forall s st e rest endt, I s st ->
    pop_event (s_events st) = Some (e, rest) ->
    I s (set_events (set_time (set_events st rest) endt) (ev_insert e rest)).
  Proof. exact (proj2 (proj2 (proj2 (proj2 (proj2 (proj2 HI)))))). Qed.

  Lemma hist_run_loop : forall fuel endt s st st' l ok, I s st ->
    run_loop cfg fuel endt st = (st', l, ok) -> I (s ++ execs l) st'.
  Proof.
    induction fuel as [|n IH]; intros endt s st st' l ok Hi H; cbn [run_loop] in H.
    - inversion H; subst. rewrite execs_nil, app_nil_r. exact Hi.
    - destruct (pop_event (s_events st)) as [[e rest]|] eqn:Ep.
      + destruct (e_time e <=? endt).
        * destruct (exec_event cfg (set_events st rest) e) as [s1 l1] eqn:E1.
          destruct (has_raise l1) eqn:Hr.
          { inversion H; subst. eapply I_exec; eassumption. }
          destruct (run_loop cfg n endt s1) as [[s2 l2] ok2] eqn:E2. inversion H; subst.
          rewrite execs_app, app_assoc. eapply IH; [|exact E2]. eapply I_exec; eassumption.
        * inversion H; subst. rewrite execs_nil, app_nil_r. apply I_stop; assumption.
      + inversion H; subst. rewrite execs_nil, app_nil_r. apply I_time, I_clear, Hi.
  Qed.

  Lemma hist_run_next : forall s st st' l, I s st -> run_next cfg st = (st', l) -> I (s ++ execs l) st'.
  Proof.
    intros s st st' l Hi H. unfold run_next in H.
    destruct (pop_event (s_events st)) as [[e rest]|] eqn:Ep.
    - eapply I_exec; eassumption.
    - inversion H; subst. rewrite execs_nil, app_nil_r. apply I_clear, Hi.
  Qed.

  Lemma hist_step_op : forall fuel s st o st' ob l, I s st ->
    step_op cfg fuel st o = (st', ob, l) -> I (s ++ execs l) st'.
  Proof.
    intros fuel s st o st' ob l Hi H. destruct o; cbn [step_op] in H.
    - destruct (do_sched cfg st k t p tag holder body) as [s1 rc] eqn:E. inversion H; subst.
      rewrite execs_nil, app_nil_r. eapply I_sched; eassumption.
    - inversion H; subst. cbn [execs flat_map exec_of app]. rewrite app_nil_r. apply I_cancel, Hi.
    - inversion H; subst. cbn [execs flat_map exec_of app]. rewrite app_nil_r. apply I_drop, Hi.
    - destruct (run_loop cfg fuel t st) as [[s1 l1] ok] eqn:E. inversion H; subst.
      eapply hist_run_loop; eassumption.
    - destruct (run_loop cfg fuel (s_time st + d) st) as [[s1 l1] ok] eqn:E. inversion H; subst.
      eapply hist_run_loop; eassumption.
    - destruct (run_next cfg st) as [s1 l1] eqn:E. inversion H; subst.
      eapply hist_run_next; eassumption.
    - destruct (s_events st); inversion H; subst; rewrite execs_nil, app_nil_r; exact Hi.
  Qed.

  Lemma hist_run_state : forall fuel ops s st st' l, I s st ->
    run_state cfg fuel st ops = (st', l) -> I (s ++ execs l) st'.
  Proof.
    intros fuel ops. induction ops as [|o r IH]; intros s st st' l Hi H; cbn [run_state] in H.
    - inversion H; subst. rewrite execs_nil, app_nil_r. exact Hi.
    - destruct (step_op cfg fuel st o) as [[s1 ob] l1] eqn:E1.
      destruct (run_state cfg fuel s1 r) as [s2 l2] eqn:E2. inversion H; subst.
      rewrite execs_app, app_assoc. eapply IH; [|exact E2]. eapply hist_step_op; eassumption.
  Qed.
End Hist.

(* ---------- 3. (C) dead callables never run ---------- *)

Definition dead_I (h : Z) (s : list event) (st : state) : Prop :=
  dead_holder h st /\ Forall (fun e => e_holder e <> h) s.

Lemma dead_drop : forall h st h', dead_holder h st -> dead_holder h (do_drop st h').
Proof.
  intros h st h' H. unfold dead_holder, do_drop in *. cbn [s_dead set_dead].
  unfold memz in *. cbn [existsb]. rewrite H. apply orb_true_r.
Qed.

Lemma dead_exec_event : forall cfg h st e st' l, dead_holder h st -> exec_event cfg st e = (st', l) ->
  dead_holder h st'.
Proof.
  intros cfg h st e st' l Hd H.
  eapply (pres_exec_event cfg (dead_holder h)); try eassumption; clear; intros; try assumption.
  apply dead_drop; assumption.
Qed.

Lemma dead_do_sched : forall cfg h st k t p tag hh body st' rc, dead_holder h st ->
  do_sched cfg st k t p tag hh body = (st', rc) -> dead_holder h st'.
Proof.
  intros cfg h st k t p tag hh body st' rc Hd H.
  eapply (pres_do_sched cfg (dead_holder h)); try eassumption; clear; intros; assumption.
Qed.

Lemma dead_hist_ok : forall cfg h, hist_ok cfg (dead_I h).
Proof.
  intros cfg h. unfold hist_ok.
  refine (conj _ (conj _ (conj _ (conj _ (conj _ (conj _ _)))))).
  - intros s st k t p tag hh body st' rc [Hd Hs] H. split; [|exact Hs]. eapply dead_do_sched; eassumption.
  - intros s st tag [Hd Hs]. split; assumption.
  - intros s st hh [Hd Hs]. split; [apply dead_drop; exact Hd|exact Hs].
  - intros s st t [Hd Hs]. split; assumption.
  - intros s st [Hd Hs]. split; assumption.
  - intros s st e rest st' l [Hd Hs] Hp H. split.
    + eapply dead_exec_event; [|exact H]. exact Hd.
    + apply Forall_app. split; [exact Hs|].
      destruct (exec_event_execs _ _ _ _ _ H) as [->|[-> [_ Hm]]]; [constructor|].
      constructor; [|constructor]. intros Heq. cbn [s_dead set_events] in Hm.
      unfold dead_holder in Hd. rewrite Heq in Hm. congruence.
  - intros s st e rest endt [Hd Hs] Hp. split; assumption.
Qed.

Lemma dead_I_nil : forall h st, dead_holder h st -> dead_I h [] st.
Proof. intros h st H. split; [exact H|constructor]. Qed.

Lemma dead_step_op : forall cfg fuel h st o st' ob l, dead_holder h st ->
  step_op cfg fuel st o = (st', ob, l) ->
  dead_holder h st' /\ Forall (fun e => e_holder e <> h) (execs l).
Proof.
  intros cfg fuel h st o st' ob l Hd H.
  exact (hist_step_op cfg (dead_I h) (dead_hist_ok cfg h) fuel [] st o st' ob l (dead_I_nil _ _ Hd) H).
Qed.

Lemma dead_run_state : forall cfg fuel ops h st st' l, dead_holder h st ->
  run_state cfg fuel st ops = (st', l) ->
  dead_holder h st' /\ Forall (fun e => e_holder e <> h) (execs l).
Proof.
  intros cfg fuel ops h st st' l Hd H.
  exact (hist_run_state cfg (dead_I h) (dead_hist_ok cfg h) fuel ops [] st st' l (dead_I_nil _ _ Hd) H).
Qed.

Theorem dead_never_runs : forall cfg fuel ops h st st' l, dead_holder h st ->
  run_state cfg fuel st ops = (st', l) -> Forall (fun e => e_holder e <> h) (execs l).
Proof.
  intros cfg fuel ops h st st' l Hd H. exact (proj2 (dead_run_state _ _ _ _ _ _ _ Hd H)).
Qed.

Lemma dead_holder_In : forall h st, dead_holder h st <-> In h (s_dead st).
Proof.
  intros h st. unfold dead_holder, memz. rewrite existsb_exists. split.
  - intros [x [Hx He]]. apply Z.eqb_eq in He. subst. exact Hx.
  - intros Hx. exists h. split; [exact Hx|apply Z.eqb_refl].
Qed.

(* ---------- 4. (B) cancelled events never run ---------- *)

Definition cancelled_I (u : Z) (s : list event) (st : state) : Prop :=
  cancelled_id u st /\ Forall (fun e => e_uid e <> u) s.

Lemma cancel_ev_uid : forall tag e, e_uid (cancel_ev tag e) = e_uid e.
Proof. intros tag e. unfold cancel_ev. destruct ((e_tag e =? tag) && negb (e_step e)); reflexivity. Qed.

Lemma cancel_ev_keeps : forall tag e, e_cancelled e = true -> e_cancelled (cancel_ev tag e) = true.
Proof.
  intros tag e H. unfold cancel_ev. destruct ((e_tag e =? tag) && negb (e_step e)); [reflexivity|exact H].
Qed.

Lemma cancel_ev_tag : forall tag e, e_tag (cancel_ev tag e) = e_tag e.
Proof. intros tag e. unfold cancel_ev. destruct ((e_tag e =? tag) && negb (e_step e)); reflexivity. Qed.

Lemma cancel_ev_step : forall tag e, e_step (cancel_ev tag e) = e_step e.
Proof. intros tag e. unfold cancel_ev. destruct ((e_tag e =? tag) && negb (e_step e)); reflexivity. Qed.

Lemma do_cancel_cancels : forall st tag x, In x (s_events (do_cancel st tag)) -> e_tag x = tag ->
  e_step x = false -> e_cancelled x = true.
Proof.
  intros st tag x Hx Ht Hs. unfold do_cancel in Hx. cbn [s_events set_events] in Hx.
  apply in_map_iff in Hx. destruct Hx as [y [<- Hy]].
  rewrite cancel_ev_tag in Ht. rewrite cancel_ev_step in Hs.
  unfold cancel_ev. rewrite Ht, Hs, Z.eqb_refl. reflexivity.
Qed.

Lemma cancelled_uid : forall u st, cancelled_id u st -> cancelled_id u (set_uid st (s_uid st + 1)).
Proof. intros u st [H1 H2]. split; [cbn [s_uid set_uid]; lia|exact H2]. Qed.

Lemma cancelled_ins : forall u st t p tag h stp body, cancelled_id u st ->
  cancelled_id u (set_events (set_uid st (s_uid st + 1))
                    (ev_insert (mk_event t p (s_uid st) tag h stp body) (s_events st))).
Proof.
  intros u st t p tag h stp body [H1 H2]. split; [cbn [s_uid set_uid set_events]; lia|].
  cbn [s_events set_events]. intros x Hx Hu. apply ev_insert_In in Hx. destruct Hx as [->|Hx].
  - cbn [e_uid mk_event] in Hu. lia.
  - apply H2; assumption.
Qed.

Lemma cancelled_cancel : forall u st tag, cancelled_id u st -> cancelled_id u (do_cancel st tag).
Proof.
  intros u st tag [H1 H2]. split; [exact H1|]. unfold do_cancel. cbn [s_events set_events].
  intros x Hx Hu. apply in_map_iff in Hx. destruct Hx as [y [<- Hy]].
  rewrite cancel_ev_uid in Hu. apply cancel_ev_keeps. apply H2; assumption.
Qed.

Lemma cancelled_exec_event : forall cfg u st e st' l, cancelled_id u st ->
  exec_event cfg st e = (st', l) -> cancelled_id u st'.
Proof.
  intros cfg u st e st' l Hc H.
  eapply (pres_exec_event cfg (cancelled_id u)); try eassumption; clear; intros; try assumption.
  - apply cancelled_uid; assumption.
  - apply cancelled_ins; assumption.
  - apply cancelled_cancel; assumption.
Qed.

Lemma cancelled_do_sched : forall cfg u st k t p tag hh body st' rc, cancelled_id u st ->
  do_sched cfg st k t p tag hh body = (st', rc) -> cancelled_id u st'.
Proof.
  intros cfg u st k t p tag hh body st' rc Hc H.
  eapply (pres_do_sched cfg (cancelled_id u)); try eassumption; clear; intros.
  - apply cancelled_uid; assumption.
  - apply cancelled_ins; assumption.
Qed.

(* popping: the popped event is live, so it is not u; what remains is part of the old list *)
Lemma cancelled_pop : forall u st e rest, cancelled_id u st ->
  pop_event (s_events st) = Some (e, rest) ->
  e_uid e <> u /\ cancelled_id u (set_events st rest).
Proof.
  intros u st e rest [H1 H2] Hp.
  destruct (pop_event_some _ _ _ Hp) as [Hc _].
  destruct (pop_event_In _ _ _ Hp) as [He Hr]. split.
  - intros Hu. rewrite (H2 e He Hu) in Hc. discriminate.
  - split; [exact H1|]. cbn [s_events set_events]. intros x Hx. apply H2, Hr, Hx.
Qed.

Lemma cancelled_hist_ok : forall cfg u, hist_ok cfg (cancelled_I u).
Proof.
  intros cfg u. unfold hist_ok.
  refine (conj _ (conj _ (conj _ (conj _ (conj _ (conj _ _)))))).
  - intros s st k t p tag hh body st' rc [Hd Hs] H. split; [|exact Hs].
    eapply cancelled_do_sched; eassumption.
  - intros s st tag [Hd Hs]. split; [apply cancelled_cancel; exact Hd|exact Hs].
  - intros s st hh [Hd Hs]. split; assumption.
  - intros s st t [Hd Hs]. split; assumption.
  - intros s st [[H1 H2] Hs]. split; [|exact Hs]. split; [exact H1|].
    cbn [s_events set_events]. intros x [].
  - intros s st e rest st' l [Hd Hs] Hp H.
    destruct (cancelled_pop _ _ _ _ Hd Hp) as [Hne Hc]. split.
    + eapply cancelled_exec_event; [|exact H]. exact Hc.
    + apply Forall_app. split; [exact Hs|].
      destruct (exec_event_execs _ _ _ _ _ H) as [->|[-> _]]; [constructor|].
      constructor; [exact Hne|constructor].
  - intros s st e rest endt [Hd Hs] Hp. split; [|exact Hs].
    destruct Hd as [H1 H2]. split; [exact H1|]. cbn [s_events set_events].
    destruct (pop_event_In _ _ _ Hp) as [He Hr].
    intros x Hx. apply ev_insert_In in Hx. destruct Hx as [->|Hx]; [apply H2, He|apply H2, Hr, Hx].
Qed.

Lemma cancelled_I_nil : forall u st, cancelled_id u st -> cancelled_I u [] st.
Proof. intros u st H. split; [exact H|constructor]. Qed.

Lemma cancelled_step_op : forall cfg fuel u st o st' ob l, cancelled_id u st ->
  step_op cfg fuel st o = (st', ob, l) ->
  cancelled_id u st' /\ Forall (fun e => e_uid e <> u) (execs l).
Proof.
  intros cfg fuel u st o st' ob l Hc H.
  exact (hist_step_op cfg (cancelled_I u) (cancelled_hist_ok cfg u) fuel [] st o st' ob l
           (cancelled_I_nil _ _ Hc) H).
Qed.

Lemma cancelled_run_state : forall cfg fuel ops u st st' l, cancelled_id u st ->
  run_state cfg fuel st ops = (st', l) ->
  cancelled_id u st' /\ Forall (fun e => e_uid e <> u) (execs l).
Proof.
  intros cfg fuel ops u st st' l Hc H.
  exact (hist_run_state cfg (cancelled_I u) (cancelled_hist_ok cfg u) fuel ops [] st st' l
           (cancelled_I_nil _ _ Hc) H).
Qed.

Theorem cancelled_never_runs : forall cfg fuel ops u st st' l, cancelled_id u st ->
  run_state cfg fuel st ops = (st', l) -> Forall (fun e => e_uid e <> u) (execs l).
Proof.
  intros cfg fuel ops u st st' l Hc H. exact (proj2 (cancelled_run_state _ _ _ _ _ _ _ Hc H)).
Qed.

(* ---------- 5. (A) an event executes at most once ---------- *)
(* ids are pairwise distinct and below the counter *)
Definition fr (uid : Z) (l : list Z) : Prop := NoDup l /\ Forall (fun u => u < uid) l.

Lemma NoDup_app_r : forall (a b : list Z), NoDup (a ++ b) -> NoDup b.
Proof.
  induction a as [|x a IH]; intros b H; [exact H|].
  cbn [app] in H. inversion H; subst. apply IH; assumption.
Qed.

Lemma fr_perm : forall uid l l', Permutation l l' -> fr uid l -> fr uid l'.
Proof.
  intros uid l l' Hp [H1 H2]. split.
  - eapply Permutation_NoDup; eassumption.
  - rewrite Forall_forall in *. intros x Hx. apply H2. eapply Permutation_in; [|exact Hx].
    apply Permutation_sym, Hp.
Qed.

Lemma fr_app_r : forall uid a b, fr uid (a ++ b) -> fr uid b.
Proof.
  intros uid a b [H1 H2]. split; [eapply NoDup_app_r; exact H1|].
  apply Forall_app in H2. apply H2.
Qed.

Lemma fr_app_l : forall uid a b, fr uid (a ++ b) -> fr uid a.
Proof.
  intros uid a b H. apply (fr_app_r uid b a). eapply fr_perm; [|exact H]. apply Permutation_app_comm.
Qed.

Lemma fr_mono : forall uid uid' l, uid <= uid' -> fr uid l -> fr uid' l.
Proof.
  intros uid uid' l Hle [H1 H2]. split; [exact H1|].
  eapply Forall_impl; [|exact H2]. cbv beta. intros; lia.
Qed.

Lemma fr_cons : forall uid l, fr uid l -> fr (uid + 1) (uid :: l).
Proof.
  intros uid l [H1 H2]. split.
  - constructor; [|exact H1]. intros Hin. rewrite Forall_forall in H2. specialize (H2 _ Hin). lia.
  - constructor; [lia|]. eapply Forall_impl; [|exact H2]. cbv beta. intros; lia.
Qed.

Definition fresh_inv (seen : list Z) (st : state) : Prop :=
  NoDup (seen ++ map e_uid (s_events st)) /\
  Forall (fun u => u < s_uid st) (seen ++ map e_uid (s_events st)).

Lemma fresh_inv_fr : forall seen st, fresh_inv seen st <-> fr (s_uid st) (seen ++ map e_uid (s_events st)).
Proof. intros seen st. unfold fresh_inv, fr. tauto. Qed.

Lemma ev_insert_ids : forall e l, Permutation (e_uid e :: map e_uid l) (map e_uid (ev_insert e l)).
Proof. intros e l. apply (Permutation_map e_uid (ev_insert_perm e l)). Qed.

Lemma cancel_ids : forall tag l, map e_uid (map (cancel_ev tag) l) = map e_uid l.
Proof. intros tag l. rewrite map_map. apply map_ext. intros a. apply cancel_ev_uid. Qed.

Lemma fresh_uid : forall seen st, fresh_inv seen st -> fresh_inv seen (set_uid st (s_uid st + 1)).
Proof.
  intros seen st H. apply (proj1 (fresh_inv_fr _ _)) in H. apply (proj2 (fresh_inv_fr _ _)).
  cbn [s_uid s_events set_uid]. eapply fr_mono; [|exact H]. lia.
Qed.

Lemma fresh_ins : forall seen st t p tag h stp body, fresh_inv seen st ->
  fresh_inv seen (set_events (set_uid st (s_uid st + 1))
                    (ev_insert (mk_event t p (s_uid st) tag h stp body) (s_events st))).
Proof.
  intros seen st t p tag h stp body H. apply (proj1 (fresh_inv_fr _ _)) in H. apply (proj2 (fresh_inv_fr _ _)).
  cbn [s_uid s_events set_uid set_events].
  apply fr_cons in H.
  eapply fr_perm; [|exact H].
  eapply perm_trans; [apply Permutation_middle|].
  apply Permutation_app_head.
  apply (ev_insert_ids (mk_event t p (s_uid st) tag h stp body)).
Qed.

Lemma fresh_cancel : forall seen st tag, fresh_inv seen st -> fresh_inv seen (do_cancel st tag).
Proof.
  intros seen st tag H. unfold fresh_inv, do_cancel in *. cbn [s_uid s_events set_events].
  rewrite cancel_ids. exact H.
Qed.

Lemma fresh_exec_event_pres : forall cfg seen st e st' l, fresh_inv seen st ->
  exec_event cfg st e = (st', l) -> fresh_inv seen st'.
Proof.
  intros cfg seen st e st' l Hc H.
  eapply (pres_exec_event cfg (fresh_inv seen)); try eassumption; clear; intros; try assumption.
  - apply fresh_uid; assumption.
  - apply fresh_ins; assumption.
  - apply fresh_cancel; assumption.
Qed.

Lemma fresh_do_sched : forall cfg seen st k t p tag hh body st' rc, fresh_inv seen st ->
  do_sched cfg st k t p tag hh body = (st', rc) -> fresh_inv seen st'.
Proof.
  intros cfg seen st k t p tag hh body st' rc Hc H.
  eapply (pres_do_sched cfg (fresh_inv seen)); try eassumption; clear; intros.
  - apply fresh_uid; assumption.
  - apply fresh_ins; assumption.
Qed.

Lemma fresh_inv_init : forall cfg, fresh_inv [] (init cfg).
Proof.
  intros cfg. assert (Hf : fresh_inv [] fresh).
  { unfold fresh_inv, fresh. cbn. split; constructor. }
  unfold init. destruct (c_abm cfg); [|exact Hf].
  destruct (schedule_relative cfg fresh SCALE gen_step_prio (-1) (-1) true []) as [s rc] eqn:E.
  cbn [fst]. eapply (pres_schedule_relative cfg (fresh_inv [])); try eassumption; clear; intros.
  - apply fresh_uid; assumption.
  - apply fresh_ins; assumption.
Qed.

(* popping e: its id moves from the pending ids to the ids in flight *)
Lemma fresh_pop : forall seen st e rest, fresh_inv seen st ->
  pop_event (s_events st) = Some (e, rest) ->
  fresh_inv (seen ++ [e_uid e]) (set_events st rest).
Proof.
  intros seen st e rest H Hp. apply (proj1 (fresh_inv_fr _ _)) in H. apply (proj2 (fresh_inv_fr _ _)).
  cbn [s_uid s_events set_events].
  destruct (pop_event_some _ _ _ Hp) as [_ [pre [Hl _]]]. rewrite Hl in H.
  rewrite map_app in H. cbn [map] in H.
  rewrite <- app_assoc. cbn [app].
  apply (fr_app_r _ (map e_uid pre)).
  eapply fr_perm; [|exact H]. apply Permutation_app_swap_app.
Qed.

Lemma fresh_forget : forall seen u st, fresh_inv (seen ++ [u]) st -> fresh_inv seen st.
Proof.
  intros seen u st H. apply (proj1 (fresh_inv_fr _ _)) in H. apply (proj2 (fresh_inv_fr _ _)).
  rewrite <- app_assoc in H. cbn [app] in H.
  apply (fr_app_r _ [u]). cbn [app].
  eapply fr_perm; [|exact H]. apply Permutation_sym, Permutation_middle.
Qed.

Lemma once_exec_event : forall cfg seen st e rest st' l, fresh_inv seen st ->
  pop_event (s_events st) = Some (e, rest) ->
  exec_event cfg (set_events st rest) e = (st', l) -> fresh_inv (seen ++ map e_uid (execs l)) st'.
Proof.
  intros cfg seen st e rest st' l Hf Hp H.
  assert (H1 : fresh_inv (seen ++ [e_uid e]) st').
  { eapply fresh_exec_event_pres; [|exact H]. apply fresh_pop; assumption. }
  destruct (exec_event_execs _ _ _ _ _ H) as [->|[-> _]]; cbn [map].
  - rewrite app_nil_r. eapply fresh_forget; exact H1.
  - exact H1.
Qed.

Lemma fresh_stop : forall seen st e rest endt, fresh_inv seen st ->
  pop_event (s_events st) = Some (e, rest) ->
  fresh_inv seen (set_events (set_time (set_events st rest) endt) (ev_insert e rest)).
Proof.
  intros seen st e rest endt H Hp. apply (proj1 (fresh_inv_fr _ _)) in H. apply (proj2 (fresh_inv_fr _ _)).
  cbn [s_uid s_events set_events set_time].
  destruct (pop_event_some _ _ _ Hp) as [_ [pre [Hl _]]]. rewrite Hl in H.
  rewrite map_app in H. cbn [map] in H.
  eapply fr_perm; [apply Permutation_app_head, ev_insert_ids|].
  apply (fr_app_r _ (map e_uid pre)).
  eapply fr_perm; [|exact H]. apply Permutation_app_swap_app.
Qed.

Lemma fresh_clear : forall seen st, fresh_inv seen st -> fresh_inv seen (set_events st []).
Proof.
  intros seen st H. apply (proj1 (fresh_inv_fr _ _)) in H. apply (proj2 (fresh_inv_fr _ _)).
  cbn [s_uid s_events set_events map]. rewrite app_nil_r. eapply fr_app_l; exact H.
Qed.

Definition fresh_I (seen : list Z) (s : list event) (st : state) : Prop :=
  fresh_inv (seen ++ map e_uid s) st.

Lemma fresh_hist_ok : forall cfg seen, hist_ok cfg (fresh_I seen).
Proof.
  intros cfg seen. unfold hist_ok, fresh_I.
  refine (conj _ (conj _ (conj _ (conj _ (conj _ (conj _ _)))))).
  - intros s st k t p tag hh body st' rc Hf H. eapply fresh_do_sched; eassumption.
  - intros s st tag Hf. apply fresh_cancel, Hf.
  - intros s st hh Hf. exact Hf.
  - intros s st t Hf. exact Hf.
  - intros s st Hf. apply fresh_clear, Hf.
  - intros s st e rest st' l Hf Hp H. rewrite map_app, app_assoc.
    eapply once_exec_event; eassumption.
  - intros s st e rest endt Hf Hp. apply fresh_stop; assumption.
Qed.

Lemma fresh_I_nil : forall seen st, fresh_inv seen st -> fresh_I seen [] st.
Proof. intros seen st H. unfold fresh_I. cbn [map]. rewrite app_nil_r. exact H. Qed.

Lemma once_run_loop : forall cfg fuel endt seen st st' l ok, fresh_inv seen st ->
  run_loop cfg fuel endt st = (st', l, ok) -> fresh_inv (seen ++ map e_uid (execs l)) st'.
Proof.
  intros cfg fuel endt seen st st' l ok Hf H.
  exact (hist_run_loop cfg (fresh_I seen) (fresh_hist_ok cfg seen) fuel endt [] st st' l ok
           (fresh_I_nil _ _ Hf) H).
Qed.

Lemma once_run_next : forall cfg seen st st' l, fresh_inv seen st ->
  run_next cfg st = (st', l) -> fresh_inv (seen ++ map e_uid (execs l)) st'.
Proof.
  intros cfg seen st st' l Hf H.
  exact (hist_run_next cfg (fresh_I seen) (fresh_hist_ok cfg seen) [] st st' l (fresh_I_nil _ _ Hf) H).
Qed.

Lemma once_step_op : forall cfg fuel seen st o st' ob l, fresh_inv seen st ->
  step_op cfg fuel st o = (st', ob, l) -> fresh_inv (seen ++ map e_uid (execs l)) st'.
Proof.
  intros cfg fuel seen st o st' ob l Hf H.
  exact (hist_step_op cfg (fresh_I seen) (fresh_hist_ok cfg seen) fuel [] st o st' ob l
           (fresh_I_nil _ _ Hf) H).
Qed.

Lemma once_run_state : forall cfg fuel ops seen st st' l, fresh_inv seen st ->
  run_state cfg fuel st ops = (st', l) -> fresh_inv (seen ++ map e_uid (execs l)) st'.
Proof.
  intros cfg fuel ops seen st st' l Hf H.
  exact (hist_run_state cfg (fresh_I seen) (fresh_hist_ok cfg seen) fuel ops [] st st' l
           (fresh_I_nil _ _ Hf) H).
Qed.

Theorem executed_at_most_once : forall cfg fuel ops st' l,
  run_state cfg fuel (init cfg) ops = (st', l) -> NoDup (map e_uid (execs l)).
Proof.
  intros cfg fuel ops st' l H.
  pose proof (once_run_state cfg fuel ops [] (init cfg) st' l (fresh_inv_init cfg) H) as Hf.
  apply (proj1 (fresh_inv_fr _ _)) in Hf. cbn [app] in Hf. apply fr_app_l in Hf. apply Hf.
Qed.

(* ---------- 6. how the hypotheses of (B) and (C) arise ---------- *)
Lemma uid_inj : forall (l : list event) x y, NoDup (map e_uid l) -> In x l -> In y l ->
  e_uid x = e_uid y -> x = y.
Proof.
  induction l as [|h t IH]; intros x y Hn Hx Hy He; [destruct Hx|].
  cbn [map] in Hn. inversion Hn as [|? ? Hnin Hn']; subst.
  destruct Hx as [->|Hx]; destruct Hy as [->|Hy].
  - reflexivity.
  - exfalso. apply Hnin. rewrite He. apply in_map, Hy.
  - exfalso. apply Hnin. rewrite <- He. apply in_map, Hx.
  - apply IH; assumption.
Qed.

(* a pending event that is cancelled: its id is a cancelled id *)
Lemma cancelled_id_of_event : forall seen st x, fresh_inv seen st -> In x (s_events st) ->
  e_cancelled x = true -> cancelled_id (e_uid x) st.
Proof.
  intros seen st x [Hn Hf] Hx Hc. split.
  - rewrite Forall_forall in Hf. apply Hf. apply in_or_app. right. apply in_map, Hx.
  - intros y Hy He. apply NoDup_app_r in Hn.
    rewrite (uid_inj _ _ _ Hn Hy Hx He). exact Hc.
Qed.

(* event.cancel() then anything: the event never runs *)
Theorem cancel_then_never_runs : forall cfg fuel ops seen st tag x st' l, fresh_inv seen st ->
  In x (s_events (do_cancel st tag)) -> e_tag x = tag -> e_step x = false ->
  run_state cfg fuel (do_cancel st tag) ops = (st', l) ->
  Forall (fun e => e_uid e <> e_uid x) (execs l).
Proof.
  intros cfg fuel ops seen st tag x st' l Hf Hx Ht Hs H.
  eapply cancelled_never_runs; [|exact H].
  eapply cancelled_id_of_event; [apply fresh_cancel; exact Hf|exact Hx|].
  eapply do_cancel_cancels; eassumption.
Qed.

Lemma do_drop_dead : forall st h, dead_holder h (do_drop st h).
Proof.
  intros st h. unfold dead_holder, do_drop, memz. cbn [s_dead set_dead existsb].
  rewrite Z.eqb_refl. reflexivity.
Qed.

(* dropping the holder then anything: none of its callables runs *)
Theorem drop_then_never_runs : forall cfg fuel ops st h st' l,
  run_state cfg fuel (do_drop st h) ops = (st', l) ->
  Forall (fun e => e_holder e <> h) (execs l).
Proof.
  intros cfg fuel ops st h st' l H. eapply dead_never_runs; [apply do_drop_dead|exact H].
Qed.

(* an id that ran is never pending again and never runs again *)
Theorem executed_not_pending : forall cfg fuel ops st' l e,
  run_state cfg fuel (init cfg) ops = (st', l) -> In e (execs l) ->
  forall x, In x (s_events st') -> e_uid x <> e_uid e.
Proof.
  intros cfg fuel ops st' l e H He x Hx Heq.
  pose proof (once_run_state cfg fuel ops [] (init cfg) st' l (fresh_inv_init cfg) H) as [Hn _].
  cbn [app] in Hn. apply (in_map e_uid) in He. apply (in_map e_uid) in Hx. rewrite Heq in Hx.
  revert Hn He Hx. generalize (map e_uid (execs l)) (map e_uid (s_events st')) (e_uid e).
  clear. intros a b u Hn Ha Hb. induction a as [|y a IH]; [destruct Ha|].
  cbn [app] in Hn. inversion Hn as [|? ? Hnin Hn']; subst. destruct Ha as [->|Ha].
  - apply Hnin. apply in_or_app. right. exact Hb.
  - apply IH; assumption.
Qed.
