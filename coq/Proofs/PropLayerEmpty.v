(* The built-in emptiness layer of the discrete-space grids equals actual cell emptiness after
   every history that does not itself write or detach that layer (Model/PropLayer.v). *)
From Coq Require Import ZArith List Bool Lia FinFun.
From Mesa Require Import Common.ListX Model.PropLayer Proofs.PropLayerProofs.
Import ListNotations.
Open Scope Z_scope.

Definition refs_empty (r : lref) : bool :=
  match r with ByHandle h => h =? 0 | ByName n => n =? EMPTY end.
(* the history itself writes to / detaches the emptiness layer *)
Definition touches_empty (o : op) : bool :=
  match o with
  | RemoveLayer n => n =? EMPTY
  | CellWrite _ n _ => n =? EMPTY
  | LayerWrite r _ _ | SetCells r _ _ | SetArray r _ => refs_empty r
  | ModifyCells r _ _ _ _ | ModifyCell r _ _ _ _ => refs_empty r
  | _ => false
  end.

Lemma agent_cell_in ag a c : agent_cell ag a = Some c -> In (a, c) ag.
Proof.
  unfold agent_cell. destruct (find (fun p => fst p =? a) ag) as [[a' c']|] eqn:E; [|discriminate].
  intros [= <-]. apply find_some in E. destruct E as [Hin He]. simpl in He.
  apply Z.eqb_eq in He. subst a'. exact Hin.
Qed.
Lemma occupied_app ag a c c' : occupied (ag ++ [(a, c)]) c' = occupied ag c' || coord_eqb c c'.
Proof. unfold occupied. rewrite existsb_app. simpl. rewrite orb_false_r. reflexivity. Qed.
Lemma occupied_true ag c : occupied ag c = true -> exists b, In (b, c) ag.
Proof.
  unfold occupied. intros H. apply existsb_exists in H. destruct H as [[b cb] [Hin He]]. simpl in He.
  apply coord_eqb_eq in He. subst cb. eauto.
Qed.
Lemma occupied_in ag b c : In (b, c) ag -> occupied ag c = true.
Proof. intros H. unfold occupied. apply existsb_exists. exists (b, c). split; [exact H|apply coord_eqb_refl]. Qed.
Lemma in_remove_pair ag a c b cb :
  In (b, cb) (remove_pair ag a c) <-> In (b, cb) ag /\ ~ (b = a /\ cb = c).
Proof.
  unfold remove_pair. rewrite filter_In. simpl. rewrite negb_true_iff, andb_false_iff, Z.eqb_neq.
  split; intros [H1 H2]; (split; [exact H1|]).
  - intros [-> ->]. destruct H2 as [H2|H2]; [congruence|]. rewrite coord_eqb_refl in H2. discriminate.
  - destruct (Z.eq_dec b a) as [->|Hn]; [|left; exact Hn]. right.
    destruct (coord_eqb cb c) eqn:E; [|reflexivity]. apply coord_eqb_eq in E. exfalso. apply H2. auto.
Qed.
Lemma in_drop ag a b c : In (b, c) (drop_agent ag a) <-> In (b, c) ag /\ b <> a.
Proof.
  unfold drop_agent. rewrite filter_In. simpl. rewrite negb_true_iff, Z.eqb_neq. tauto.
Qed.
(* taking agent a out of cell c0 does not change who is in any other cell *)
Lemma occupied_remove_other ag a c0 c' : c' <> c0 -> occupied (remove_pair ag a c0) c' = occupied ag c'.
Proof.
  intros Hne. destruct (occupied ag c') eqn:E.
  - apply occupied_true in E. destruct E as [b Hb]. apply (occupied_in _ b). apply in_remove_pair.
    split; [exact Hb|]. intros [_ H]. contradiction.
  - destruct (occupied (remove_pair ag a c0) c') eqn:E2; [|reflexivity].
    apply occupied_true in E2. destruct E2 as [b Hb]. apply in_remove_pair in Hb.
    rewrite (occupied_in ag b c') in E; [discriminate|tauto].
Qed.
Lemma count_pos_occupied ag c : 0 < count_at ag c -> occupied ag c = true.
Proof.
  unfold count_at, occupied. induction ag as [|[b cb] ag IH]; simpl; [lia|].
  destruct (coord_eqb cb c); simpl; [reflexivity|exact IH].
Qed.
Lemma cell_full_occupied st c : 0 <= s_cap st -> cell_full st c = true -> occupied (s_agents st) c = true.
Proof.
  intros Hc. unfold cell_full. rewrite andb_true_iff, negb_true_iff, Z.eqb_neq, Z.leb_le. intros [H1 H2].
  apply count_pos_occupied. lia.
Qed.

Record einv (st : state) : Prop := {
  e_cap : 0 <= s_cap st;
  e_valid : forall a c, In (a, c) (s_agents st) -> valid_coord (s_dims st) c = true;
  e_grid : assoc EMPTY (s_grid st) = Some 0;
  e_only : forall n, assoc n (s_grid st) = Some 0 -> n = EMPTY;
  e_obj : exists L, get_obj st 0 = Some L /\ l_name L = EMPTY /\ l_dims L = s_dims st /\
            forall c, valid_coord (s_dims st) c = true ->
                      aget (l_data L) c = Some (b2z (negb (occupied (s_agents st) c)))
}.

Lemma aget_full dims v c : valid_coord dims c = true -> aget (full dims v) c = Some v.
Proof.
  intros H. apply valid_in_all_coords in H. unfold full.
  induction (all_coords dims) as [|k l IH]; [destruct H|]. simpl.
  destruct (coord_eqb k c) eqn:E; [reflexivity|]. destruct H as [->|H]; [|exact (IH H)].
  rewrite coord_eqb_refl in E. discriminate.
Qed.

Lemma einv_init multi cap dims : 0 <= cap -> einv (init true multi cap dims).
Proof.
  intros Hc. constructor; simpl.
  - exact Hc.
  - intros a c [].
  - reflexivity.
  - intros n. destruct (n =? EMPTY) eqn:E; [|discriminate]. intros _. apply Z.eqb_eq. exact E.
  - eexists. split; [reflexivity|]. simpl. repeat split. intros c Hc'. apply aget_full. exact Hc'.
Qed.

(* a write into another object *)
Lemma einv_other st id L d : einv st -> get_obj st id = Some L -> id <> 0 -> einv (set_data st id L d).
Proof.
  intros [E1 E2 E3 E4 [L0 [H0 [Hn [Hd Hv]]]]] HL Hne. constructor; simpl; auto.
  exists L0. rewrite (get_obj_set_data st id L d 0 HL).
  assert (0 =? id = false) as -> by (apply Z.eqb_neq; congruence). auto.
Qed.

(* cell.empty = v on a valid cell goes to object 0 *)
Lemma setattr_empty st c v L :
  inv st -> s_discrete st = true -> assoc EMPTY (s_grid st) = Some 0 -> get_obj st 0 = Some L ->
  l_dims L = s_dims st -> valid_coord (s_dims st) c = true ->
  cell_setattr st c EMPTY v = set_data st 0 L (aset (l_data L) c v).
Proof.
  intros I Hd Hg HL Hdims Hc. unfold cell_setattr. rewrite (inv_descr _ I Hd), Hg, HL, Hdims.
  rewrite (valid_norm _ _ Hc). reflexivity.
Qed.

(* Cell.add_agent, accepted or refused: the layer stays right (a refusing cell is not empty) *)
Lemma einv_add st a c :
  inv st -> s_discrete st = true -> einv st -> valid_coord (s_dims st) c = true ->
  einv (fst (cell_add_agent st a c)).
Proof.
  intros I Hd [E0 E2 E3 E4 [L [HL [Hn [Hdims Hv]]]]] Hc. unfold cell_add_agent.
  rewrite (setattr_empty st c 0 L I Hd E3 HL Hdims Hc).
  destruct (cell_full st c) eqn:Ef; simpl.
  - pose proof (cell_full_occupied st c E0 Ef) as Ho. constructor; simpl; auto.
    eexists. split; [apply (get_obj_set_data st 0 L _ 0 HL)|]. simpl. repeat split; auto.
    intros c' Hc'. rewrite aget_aset, (Hv c' Hc').
    destruct (coord_eqb c c') eqn:E; [|reflexivity]. apply coord_eqb_eq in E. subst c'. rewrite Ho. reflexivity.
  - constructor; simpl; auto.
    + intros b cb Hin. apply in_app_iff in Hin. destruct Hin as [Hin|[Hin|[]]]; [eapply E2; eauto|].
      inversion Hin; subst. exact Hc.
    + eexists. split; [apply (get_obj_set_data st 0 L _ 0 HL)|]. simpl. repeat split; auto.
      intros c' Hc'. rewrite aget_aset, occupied_app, (Hv c' Hc').
      destruct (coord_eqb c c'); [rewrite orb_true_r|rewrite orb_false_r]; reflexivity.
Qed.

Lemma einv_remove st a c0 :
  inv st -> s_discrete st = true -> einv st -> valid_coord (s_dims st) c0 = true ->
  einv (cell_remove_agent st a c0).
Proof.
  intros I Hd [E0 E2 E3 E4 [L [HL [Hn [Hdims Hv]]]]] Hc0. unfold cell_remove_agent.
  set (st1 := set_agents st (s_emask st) (remove_pair (s_agents st) a c0)).
  assert (inv st1) as I1 by (apply inv_set_agents; exact I).
  rewrite (setattr_empty st1 c0 _ L I1 Hd E3 HL Hdims Hc0). constructor; simpl; auto.
  - intros b cb Hin. apply in_remove_pair in Hin. eapply E2. apply Hin.
  - eexists. split; [apply (get_obj_set_data st1 0 L _ 0 HL)|]. simpl. repeat split; auto.
    intros c' Hc'. rewrite aget_aset, (Hv c' Hc').
    destruct (coord_eqb c0 c') eqn:E.
    + apply coord_eqb_eq in E. subst c'. reflexivity.
    + rewrite (occupied_remove_other _ a c0 c'); [reflexivity|].
      intros ->. rewrite coord_eqb_refl in E. discriminate.
Qed.

Lemma einv_do_move st a c0 c :
  inv st -> s_discrete st = true -> einv st ->
  valid_coord (s_dims st) c0 = true -> valid_coord (s_dims st) c = true ->
  einv (fst (do_move st a c0 c)).
Proof.
  intros I Hd E Hc0 Hc. unfold do_move. rewrite Hd.
  destruct (coord_eqb c c0); [exact E|].
  pose proof (einv_add st a c I Hd E Hc) as E1. pose proof (inv_cell_add st a c I) as I1.
  pose proof (frame_cell_add st a c) as [F1 [F2 _]].
  destruct (cell_add_agent st a c) as [st1 [|]]; simpl in *; [|exact E1].
  apply einv_remove; auto; congruence.
Qed.

Lemma resolve_not_empty st r id :
  einv st -> refs_empty r = false -> resolve st r = Some id -> id <> 0.
Proof.
  intros E Hr. destruct r as [h|n]; simpl in *.
  - destruct (get_obj st h); [|discriminate]. intros [= <-]. apply Z.eqb_neq. exact Hr.
  - intros Hn ->. apply (e_only _ E) in Hn. subst n. discriminate.
Qed.

Lemma einv_tables st g d p :
  einv st -> assoc EMPTY g = Some 0 -> (forall n, assoc n g = Some 0 -> n = EMPTY) ->
  einv (set_tables st g d p).
Proof. intros [E1 E2 E3 E4 E5] H1 H2. constructor; simpl; auto. Qed.

Lemma einv_new_obj st L : einv st -> einv (set_objs st (s_objs st ++ [L])).
Proof.
  intros [E1 E2 E3 E4 [L0 [H0 H]]]. constructor; simpl; auto.
  exists L0. split; [apply get_obj_app; exact H0|exact H].
Qed.

Lemma einv_add_layer st id L st' r :
  inv st -> einv st -> (id = 0 -> l_name L = EMPTY) -> add_layer st id L = (st', r) -> einv st'.
Proof.
  intros I E Hid HA. destruct (add_layer_inv _ _ _ _ _ I HA) as [Hne Heq].
  destruct r as [[|z p]|k|]; try (assert (st' = st) as -> by (apply Hne; discriminate); exact E).
  destruct (Heq eq_refl) as [Hg [Ho [_ [Hnone [Hd [_ [_ [Hag _]]]]]]]].
  destruct (frame_add st id L) as [_ [_ [_ Fc]]]. rewrite HA in Fc. simpl in Fc.
  destruct E as [E0 E2 E3 E4 [L0 [H0 H]]]. constructor.
  - rewrite Fc. exact E0.
  - rewrite Hag, Hd. exact E2.
  - rewrite Hg, assoc_app, E3. reflexivity.
  - intros n. rewrite Hg, assoc_app. destruct (assoc n (s_grid st)) eqn:En.
    + intros [= ->]. apply E4. exact En.
    + simpl. destruct (n =? l_name L) eqn:E; [|discriminate]. intros [= ->].
      apply Z.eqb_eq in E. subst n. apply Hid. reflexivity.
  - exists L0. rewrite (get_obj_same_objs st st' 0 Ho), Hd, Hag. auto.
Qed.

Lemma get_obj0_len st L : get_obj st 0 = Some L -> (0 < length (s_objs st))%nat.
Proof.
  unfold get_obj. change (0 <? 0) with false. change (Z.to_nat 0) with 0%nat. cbv iota.
  destruct (s_objs st); simpl; [discriminate|lia].
Qed.

Lemma step_einv st o :
  inv st -> s_discrete st = true -> einv st -> touches_empty o = false -> einv (fst (step st o)).
Proof.
  intros I Hd E Ht. destruct o; simpl in *; rewrite ?Hd; simpl.
  - apply einv_new_obj. exact E.
  - destruct (add_layer st _ _) as [st1 r] eqn:EA.
    assert (einv st1) as E1.
    { eapply einv_add_layer; [exact I|exact E| |exact EA].
      intros H0. exfalso. destruct (e_obj _ E) as [L0 [H0' _]].
      apply get_obj0_len in H0'. lia. }
    destruct r; simpl; try exact E; apply einv_new_obj; exact E1.
  - destruct (get_obj st h) as [L|] eqn:EL; [|exact E].
    destruct (add_layer st h L) as [st1 r] eqn:EA. simpl.
    eapply einv_add_layer; [exact I|exact E| |exact EA].
    intros ->. destruct (e_obj _ E) as [L0 [H0 [Hn _]]]. congruence.
  - destruct (remove_layer st n) as [st' r] eqn:ER. simpl.
    destruct (remove_layer_spec _ _ _ _ I ER) as [[_ [-> _]]|[id [En [_ ->]]]]; [exact E|].
    apply Z.eqb_neq in Ht. apply einv_tables; [exact E| |].
    + rewrite assoc_del_other; [apply (e_grid _ E)|]. unfold EMPTY in *. congruence.
    + intros n'. destruct (Z.eq_dec n' n) as [->|Hne]; [rewrite assoc_del_same; discriminate|].
      rewrite (assoc_del_other n n' _ Hne). apply (e_only _ E).
  - destruct (valid_coord (s_dims st) c); [|exact E].
    destruct (assoc n (s_descr st)) as [id|] eqn:En; [|exact E]. simpl.
    unfold cell_setattr. rewrite En. rewrite (inv_descr _ I Hd) in En.
    destruct (get_obj st id) as [L|] eqn:EL; [|exact E].
    destruct (norm_coord (l_dims L) c); [|exact E].
    apply einv_other; auto. intros ->. apply (e_only _ E) in En. subst n. discriminate.
  - destruct (resolve st r) as [id|] eqn:Er; [|exact E].
    destruct (get_obj st id) as [L|] eqn:EL; [|exact E].
    destruct (norm_coord (l_dims L) c); [|exact E]. simpl.
    apply einv_other; auto. eapply resolve_not_empty; eauto.
  - destruct (resolve st r) as [id|] eqn:Er; [|exact E].
    destruct (get_obj st id) as [L|] eqn:EL; [|exact E]. simpl.
    apply einv_other; auto. eapply resolve_not_empty; eauto.
  - destruct (resolve st r) as [id|] eqn:Er; [|exact E].
    destruct (get_obj st id) as [L|] eqn:EL; [|exact E].
    destruct (Nat.eqb (length vals) (length (l_data L))); [|exact E]. simpl.
    apply einv_other; auto. eapply resolve_not_empty; eauto.
  - destruct (resolve st r) as [id|] eqn:Er; [|exact E].
    destruct (get_obj st id) as [L|] eqn:EL; [|exact E].
    destruct (modify_cells L fm f hasval cd); [|exact E]. simpl.
    apply einv_other; auto. eapply resolve_not_empty; eauto.
  - exact E.
  - destruct (select_mask st conds exts masks only_empty); exact E.
  - destruct (valid_coord (s_dims st) c) eqn:Hc; [|exact E].
    destruct (agent_cell (s_agents st) a) eqn:Ha; [exact E|].
    pose proof (einv_add st a c I Hd E Hc) as E1.
    destruct (cell_add_agent st a c) as [st1 [|]]; exact E1.
  - destruct (valid_coord (s_dims st) c) eqn:Hc; [|exact E].
    destruct (agent_cell (s_agents st) a) as [c0|] eqn:Ha; [|exact E].
    apply einv_do_move; auto. apply (e_valid _ E a). apply agent_cell_in. exact Ha.
  - destruct (agent_cell (s_agents st) a) as [c0|] eqn:Ha; [|exact E].
    destruct (move_target (s_dims st) c0 dir geom torus) as [c|] eqn:Eg; [|exact E].
    apply move_target_valid in Eg.
    apply einv_do_move; auto. apply (e_valid _ E a). apply agent_cell_in. exact Ha.
  - destruct (agent_cell (s_agents st) a) as [c0|] eqn:Ha; [|exact E]. simpl.
    apply einv_remove; auto. apply (e_valid _ E a). apply agent_cell_in. exact Ha.
  - exact E.
  - case_all; exact E.
  - case_all; exact E.
  - exact E.
  - case_all; exact E.
Qed.

Definition clean (ops : list op) : bool := forallb (fun o => negb (touches_empty o)) ops.

Lemma run_einv ops : forall st,
  inv st -> s_discrete st = true -> einv st -> clean ops = true -> einv (run_state st ops).
Proof.
  induction ops as [|o t IH]; intros st I Hd E Hs; simpl; [exact E|].
  unfold clean in Hs. simpl in Hs. apply andb_true_iff in Hs. destruct Hs as [H1 H2]. apply negb_true_iff in H1.
  apply IH; [apply step_inv; exact I| |apply step_einv; assumption|exact H2].
  destruct (step_frame st o) as [F _]. congruence.
Qed.

(* the emptiness layer, read through the grid or through the cell attribute, says "empty"
   exactly for the cells that hold no agent *)
Lemma empty_layer_true multi cap dims ops c :
  0 <= cap -> clean ops = true -> valid_coord dims c = true ->
  let st := run_state (init true multi cap dims) ops in
  layer_read st EMPTY c = Some (b2z (negb (occupied (s_agents st) c))) /\
  cell_read st c EMPTY = Some (b2z (negb (occupied (s_agents st) c))).
Proof.
  intros Hcap Hs Hc st.
  assert (einv st) as E by (apply run_einv; [apply inv_init|reflexivity|apply einv_init; exact Hcap|exact Hs]).
  assert (s_dims st = dims) as Hdims by (destruct (run_state_frame (init true multi cap dims) ops) as [_ [F _]]; exact F).
  assert (cell_read st c EMPTY = layer_read st EMPTY c) as OV by apply (one_value multi cap dims ops c EMPTY).
  rewrite OV. cut (layer_read st EMPTY c = Some (b2z (negb (occupied (s_agents st) c)))); [auto|].
  destruct E as [_ _ E3 _ [L [HL [_ [Hd Hv]]]]]. unfold layer_read. rewrite E3, HL. unfold layer_get.
  rewrite Hd, Hdims, (valid_norm _ _ Hc). apply Hv. rewrite Hdims. exact Hc.
Qed.

(* ---------- legacy SingleGrid / MultiGrid: empty_mask = emptiness ---------- *)
Definition injective (ag : list (Z * coord)) : Prop :=
  forall a1 a2 c, In (a1, c) ag -> In (a2, c) ag -> a1 = a2.

Record linv (st : state) : Prop := {
  l_inj : s_multi st = false -> injective (s_agents st);
  l_mask : forall c, valid_coord (s_dims st) c = true ->
             aget (s_emask st) c = Some (b2z (negb (occupied (s_agents st) c)))
}.

Lemma linv_ext st st' :
  s_emask st' = s_emask st -> s_agents st' = s_agents st -> s_dims st' = s_dims st ->
  s_multi st' = s_multi st -> linv st -> linv st'.
Proof. intros H1 H2 H3 H4 [A C]. constructor; rewrite ?H1, ?H2, ?H3, ?H4; assumption. Qed.

Lemma injective_remove ag a c : injective ag -> injective (remove_pair ag a c).
Proof. intros Hi a1 a2 c' H1 H2. apply in_remove_pair in H1. apply in_remove_pair in H2. apply (Hi a1 a2 c'); tauto. Qed.
Lemma injective_add ag a c : injective ag -> (forall b, In (b, c) ag -> b = a) -> injective (ag ++ [(a, c)]).
Proof.
  intros Hi Ho a1 a2 c' H1 H2. apply in_app_iff in H1. apply in_app_iff in H2.
  destruct H1 as [H1|[H1|[]]], H2 as [H2|[H2|[]]].
  - apply (Hi a1 a2 c'); assumption.
  - inversion H2; subst. apply Ho. exact H1.
  - inversion H1; subst. symmetry. apply Ho. exact H2.
  - congruence.
Qed.

Lemma linv_init multi cap dims : linv (init false multi cap dims).
Proof.
  constructor; simpl.
  - intros _ a1 a2 c [].
  - intros c Hc. apply aget_full. exact Hc.
Qed.

Lemma linv_place st a c :
  linv st -> (s_multi st = false -> forall b, In (b, c) (s_agents st) -> b = a) -> linv (leg_place st a c).
Proof.
  intros [A C] Ho. unfold leg_place. constructor; simpl.
  - intros Hm. apply injective_add; auto.
  - intros c' Hc'. rewrite aget_aset, occupied_app, (C c' Hc').
    destruct (coord_eqb c c'); [rewrite orb_true_r|rewrite orb_false_r]; reflexivity.
Qed.

Lemma linv_remove st a c0 : linv st -> In (a, c0) (s_agents st) -> linv (leg_remove st a c0).
Proof.
  intros [A C] Hin. unfold leg_remove. constructor; simpl.
  - intros Hm. apply injective_remove. auto.
  - intros c' Hc'.
    assert (c' <> c0 -> occupied (remove_pair (s_agents st) a c0) c' = occupied (s_agents st) c') as Hoth
      by apply occupied_remove_other.
    destruct (s_multi st) eqn:Em; simpl.
    + destruct (occupied (remove_pair (s_agents st) a c0) c0) eqn:Eo.
      * rewrite (C c' Hc'). destruct (coord_eqb c0 c') eqn:E.
        -- apply coord_eqb_eq in E. subst c'. rewrite Eo, (occupied_in _ a c0 Hin). reflexivity.
        -- rewrite Hoth; [reflexivity|]. intros ->. rewrite coord_eqb_refl in E. discriminate.
      * rewrite aget_aset, (C c' Hc'). destruct (coord_eqb c0 c') eqn:E.
        -- apply coord_eqb_eq in E. subst c'. rewrite Eo. reflexivity.
        -- rewrite Hoth; [reflexivity|]. intros ->. rewrite coord_eqb_refl in E. discriminate.
    + rewrite aget_aset, (C c' Hc'). destruct (coord_eqb c0 c') eqn:E.
      * apply coord_eqb_eq in E. subst c'.
        assert (occupied (remove_pair (s_agents st) a c0) c0 = false) as ->; [|reflexivity].
        destruct (occupied (remove_pair (s_agents st) a c0) c0) eqn:Eo; [|reflexivity].
        apply occupied_true in Eo. destruct Eo as [b Hb]. apply in_remove_pair in Hb. destruct Hb as [Hb Hn].
        exfalso. apply Hn. split; [|reflexivity]. apply (A eq_refl b a c0 Hb Hin).
      * rewrite Hoth; [reflexivity|]. intros ->. rewrite coord_eqb_refl in E. discriminate.
Qed.

Lemma linv_do_move st a c0 c :
  s_discrete st = false -> linv st -> In (a, c0) (s_agents st) -> linv (fst (do_move st a c0 c)).
Proof.
  intros Hd E Hin. unfold do_move. rewrite Hd.
  destruct (negb (s_multi st) && occupied (drop_agent (s_agents st) a) c) eqn:Eg; simpl; [exact E|].
  apply linv_place; [apply linv_remove; assumption|].
  unfold leg_remove. simpl. intros Hm b Hb. apply in_remove_pair in Hb. destruct Hb as [Hb _].
  rewrite Hm in Eg. simpl in Eg.
  destruct (Z.eq_dec b a) as [->|Hne]; [reflexivity|].
  rewrite (occupied_in (drop_agent (s_agents st) a) b c) in Eg; [discriminate|]. apply in_drop. auto.
Qed.

Lemma step_linv st o : s_discrete st = false -> linv st -> linv (fst (step st o)).
Proof.
  intros Hd E. destruct o; simpl; rewrite ?Hd; simpl; try exact E.
  - eapply linv_ext; [| | | |exact E]; reflexivity.
  - destruct (get_obj st h) as [L|]; [|exact E]. unfold add_layer. rewrite Hd.
    case_all; try exact E; (eapply linv_ext; [| | | |exact E]; reflexivity).
  - unfold remove_layer. rewrite Hd. case_all; try exact E; (eapply linv_ext; [| | | |exact E]; reflexivity).
  - case_all; try exact E; (eapply linv_ext; [| | | |exact E]; reflexivity).
  - case_all; try exact E; (eapply linv_ext; [| | | |exact E]; reflexivity).
  - case_all; try exact E; (eapply linv_ext; [| | | |exact E]; reflexivity).
  - destruct (resolve st r); [|exact E]. destruct (get_obj st z); [|exact E].
    destruct (modify_cells l fm f hasval cd); simpl; [|exact E]. eapply linv_ext; [| | | |exact E]; reflexivity.
  - case_all; try exact E; (eapply linv_ext; [| | | |exact E]; reflexivity).
  - destruct (select_mask st conds exts masks only_empty); exact E.
  - destruct (valid_coord (s_dims st) c) eqn:Hc; [|exact E].
    destruct (agent_cell (s_agents st) a) eqn:Ha; [exact E|].
    destruct (s_multi st) eqn:Em; simpl.
    + apply linv_place; [exact E|]. intros Hm. congruence.
    + destruct (occupied (s_agents st) c) eqn:Ho; [exact E|]. simpl. apply linv_place; [exact E|].
      intros _ b Hb. rewrite (occupied_in _ b c Hb) in Ho. discriminate.
  - destruct (valid_coord (s_dims st) c) eqn:Hc; [|exact E].
    destruct (agent_cell (s_agents st) a) as [c0|] eqn:Ha; [|exact E].
    apply linv_do_move; auto. apply agent_cell_in. exact Ha.
  - destruct (agent_cell (s_agents st) a) as [c0|] eqn:Ha; [|exact E]. simpl.
    apply linv_remove; [exact E|]. apply agent_cell_in. exact Ha.
  - case_all; exact E.
  - case_all; exact E.
  - case_all; exact E.
Qed.

Lemma run_linv ops : forall st, s_discrete st = false -> linv st -> linv (run_state st ops).
Proof.
  induction ops as [|o t IH]; intros st Hd E; simpl; [exact E|].
  apply IH; [|apply step_linv; assumption].
  destruct (step_frame st o) as [F _]. congruence.
Qed.

Lemma empty_mask_true multi cap dims ops c :
  valid_coord dims c = true ->
  let st := run_state (init false multi cap dims) ops in
  aget (s_emask st) c = Some (b2z (negb (occupied (s_agents st) c))).
Proof.
  intros Hc st. assert (linv st) as E by (apply run_linv; [reflexivity|apply linv_init]).
  apply (l_mask _ E). destruct (run_state_frame (init false multi cap dims) ops) as [_ [F _]]. fold st in F. rewrite F. exact Hc.
Qed.

(* ---------- select_cells in terms of ACTUAL emptiness ---------- *)
Definition passes_actual (st : state) (masks : list (list bool)) (oe : bool) (conds : list (Z * cond))
           (c : coord) : Prop :=
  (forall um, In um masks -> mget (user_mask (s_dims st) um) c = true) /\
  (oe = true -> occupied (s_agents st) c = false) /\
  (forall n cd, In (n, cd) conds -> exists d, grid_data st n = Some d /\ eval_cond cd (aget0 d c) = true).

Lemma passes_exts_ext st exts : forall P Q,
  (forall c, In c (all_coords (s_dims st)) -> (P c <-> Q c)) ->
  forall c, In c (all_coords (s_dims st)) -> (passes_exts st P exts c <-> passes_exts st Q exts c).
Proof.
  induction exts as [|[n mode] t IH]; intros P Q H c Hc; simpl; [apply H; exact Hc|].
  apply IH; [|exact Hc]. intros c1 Hc1. rewrite (H c1 Hc1). split.
  - intros [HQ [d [Hd Hb]]]. split; [exact HQ|]. exists d. split; [exact Hd|].
    intros c' Hc' HQ'. apply Hb; [exact Hc'|]. apply (H c' Hc'). exact HQ'.
  - intros [HQ [d [Hd Hb]]]. split; [exact HQ|]. exists d. split; [exact Hd|].
    intros c' Hc' HP'. apply Hb; [exact Hc'|]. apply (H c' Hc'). exact HP'.
Qed.

(* the emptiness view of the grid is right in state st *)
Definition empty_ok (st : state) : Prop :=
  forall c, valid_coord (s_dims st) c = true ->
    exists e, empty_view st = Some e /\ aget e c = Some (b2z (negb (occupied (s_agents st) c))).

Lemma einv_empty_ok st : s_discrete st = true -> einv st -> empty_ok st.
Proof.
  intros Hd [_ _ E3 _ [L [HL [_ [_ Hv]]]]] c Hc. unfold empty_view. rewrite Hd, E3, HL. eauto.
Qed.
Lemma linv_empty_ok st : s_discrete st = false -> linv st -> empty_ok st.
Proof. intros Hd [_ C] c Hc. unfold empty_view. rewrite Hd. eauto. Qed.

Lemma select_exact_actual_st st conds exts masks oe m :
  empty_ok st -> select_mask st conds exts masks oe = inl m ->
  forall c, In c (mask_list m) <->
            (In c (all_coords (s_dims st)) /\ passes_exts st (passes_actual st masks oe conds) exts c).
Proof.
  intros Hok Hs c. destruct (select_exact st conds exts masks oe m Hs) as [_ H]. rewrite H.
  split; intros [Hc HP]; (split; [exact Hc|]); revert HP; apply passes_exts_ext; try exact Hc;
    intros c1 Hc1; unfold passes_base, passes_actual;
    destruct (Hok c1 (proj2 (valid_in_all_coords _ _) Hc1)) as [e [He Hv]];
    (assert ((exists e0, empty_view st = Some e0 /\ nz (aget0 e0 c1) = true) <-> occupied (s_agents st) c1 = false) as X;
     [ split;
       [ intros [e0 [He0 Hn]]; rewrite He in He0; inversion He0; subst e0; unfold aget0 in Hn; rewrite Hv in Hn;
         destruct (occupied (s_agents st) c1); [discriminate|reflexivity]
       | intros Ho; exists e; split; [exact He|]; unfold aget0; rewrite Hv, Ho; reflexivity ]
     | ]).
  - split; intros [H1 [H2 H3]]; (split; [exact H1|split; [|exact H3]]); intros Hoe; apply X; apply H2; exact Hoe.
  - split; intros [H1 [H2 H3]]; (split; [exact H1|split; [|exact H3]]); intros Hoe; apply X; apply H2; exact Hoe.
Qed.

Lemma reachable_empty_ok d multi cap dims ops :
  (d = true -> 0 <= cap /\ clean ops = true) -> empty_ok (run_state (init d multi cap dims) ops).
Proof.
  intros H. destruct d.
  - destruct (H eq_refl) as [Hc Hs]. apply einv_empty_ok.
    + destruct (run_state_frame (init true multi cap dims) ops) as [F _]. exact F.
    + apply run_einv; [apply inv_init|reflexivity|apply einv_init; exact Hc|exact Hs].
  - apply linv_empty_ok.
    + destruct (run_state_frame (init false multi cap dims) ops) as [F _]. exact F.
    + apply run_linv; [reflexivity|apply linv_init].
Qed.

Lemma select_exact_actual d multi cap dims ops conds exts masks oe m :
  (d = true -> 0 <= cap /\ clean ops = true) ->
  let st := run_state (init d multi cap dims) ops in
  select_mask st conds exts masks oe = inl m ->
  forall c, In c (mask_list m) <->
            (In c (all_coords dims) /\ passes_exts st (passes_actual st masks oe conds) exts c).
Proof.
  intros H st Hs c.
  assert (s_dims st = dims) as Hd by (destruct (run_state_frame (init d multi cap dims) ops) as [_ [F _]]; destruct d; exact F).
  rewrite <- Hd. apply select_exact_actual_st; [apply reachable_empty_ok; exact H|exact Hs].
Qed.

(* ---------- "Cell is full": the statement executed before the raise changes nothing ---------- *)
Lemma nodup_app {A} (a b : list A) :
  NoDup a -> NoDup b -> (forall x, In x a -> ~ In x b) -> NoDup (a ++ b).
Proof.
  induction a as [|x a IH]; simpl; intros Ha Hb Hd.
  { exact Hb. }
  inversion Ha as [|x' a' Hnin Hnd]; subst. apply NoDup_cons.
  { intros H. apply in_app_or in H. destruct H as [H|H].
    { exact (Hnin H). }
    { exact (Hd x (or_introl eq_refl) H). } }
  { apply IH; auto. }
Qed.
Lemma nodup_zrange lo hi : NoDup (zrange lo hi).
Proof.
  unfold zrange. apply Injective_map_NoDup; [|apply seq_NoDup]. intros i j H. lia.
Qed.
Lemma nodup_all_coords dims : NoDup (all_coords dims).
Proof.
  induction dims as [|d t IH]; simpl; [constructor; [intros []|constructor]|].
  generalize (nodup_zrange 0 (d - 1)). generalize (zrange 0 (d - 1)) as xs.
  induction xs as [|x xs IHx]; intros Hx; simpl; [constructor|]. inversion Hx; subst.
  apply nodup_app.
  - apply Injective_map_NoDup; [|exact IH]. intros a b H. inversion H. reflexivity.
  - apply IHx. assumption.
  - intros c Hc Hc'. apply in_map_iff in Hc. destruct Hc as [c0 [<- _]].
    apply in_flat_map in Hc'. destruct Hc' as [x' [Hx' Hin]]. apply in_map_iff in Hin.
    destruct Hin as [c1 [E _]]. inversion E; subst. contradiction.
Qed.

Lemma aset_absent a c v : ~ In c (akeys a) -> aset a c v = a.
Proof.
  unfold aset, akeys. induction a as [|[k x] a IH]; simpl; intros H; [reflexivity|].
  destruct (coord_eqb k c) eqn:E.
  - apply coord_eqb_eq in E. exfalso. apply H. left. exact E.
  - simpl. f_equal. apply IH. intros Hin. apply H. right. exact Hin.
Qed.
Lemma aset_same a c v : NoDup (akeys a) -> aget a c = Some v -> aset a c v = a.
Proof.
  induction a as [|[k x] a IH]; simpl; intros Hn Hg; [discriminate|]. inversion Hn; subst.
  unfold aset in *. simpl. destruct (coord_eqb k c) eqn:E.
  - inversion Hg; subst. apply coord_eqb_eq in E. subst k. f_equal. apply (aset_absent a c v). assumption.
  - f_equal. apply IH; assumption.
Qed.
Lemma upd_nth_same {A} (l : list A) n x : nth_error l n = Some x -> upd_nth l n x = l.
Proof.
  revert n. induction l as [|y l IH]; intros [|n]; simpl; try discriminate.
  - intros [= ->]. reflexivity.
  - intros H. f_equal. apply IH. exact H.
Qed.
Lemma set_data_same st id L : get_obj st id = Some L -> set_data st id L (l_data L) = st.
Proof.
  intros H. unfold set_data, set_objs. unfold get_obj in H. destruct (id <? 0); [discriminate|].
  replace {| l_name := l_name L; l_dt := l_dt L; l_dims := l_dims L; l_data := l_data L |} with L by (destruct L; reflexivity).
  rewrite (upd_nth_same _ _ _ H). destruct st; reflexivity.
Qed.

(* in a state whose emptiness layer is right, `self.empty = False` on a full cell is a no-op *)
Lemma setattr_full_noop st c :
  inv st -> s_discrete st = true -> einv st -> valid_coord (s_dims st) c = true ->
  cell_full st c = true -> cell_setattr st c EMPTY 0 = st.
Proof.
  intros I Hd E Hc Hf. pose proof (cell_full_occupied st c (e_cap _ E) Hf) as Ho.
  destruct E as [E0 E2 E3 E4 [L [HL [Hn [Hdims Hv]]]]].
  rewrite (setattr_empty st c 0 L I Hd E3 HL Hdims Hc).
  rewrite aset_same; [apply set_data_same; exact HL| |].
  - rewrite (inv_keys _ I _ _ HL). apply nodup_all_coords.
  - rewrite (Hv c Hc), Ho. reflexivity.
Qed.

(* every rejection - "Cell is full" included - leaves a clean-reachable state exactly as it was *)
Lemma atomic_clean d multi cap dims ops o st' k :
  (d = true -> 0 <= cap /\ clean ops = true) ->
  let st := run_state (init d multi cap dims) ops in
  step st o = (st', RErr k) -> st' = st.
Proof.
  intros H st. assert (inv st) as I by (apply run_state_inv; apply inv_init).
  apply step_err_unchanged; [exact I|]. intros Hd c Hc Hf.
  destruct d.
  - destruct (H eq_refl) as [H0 Hs]. apply setattr_full_noop; auto.
    apply run_einv; [apply inv_init|reflexivity|apply einv_init; exact H0|exact Hs].
  - destruct (run_state_frame (init false multi cap dims) ops) as [F _]. fold st in F. simpl in F. congruence.
Qed.
