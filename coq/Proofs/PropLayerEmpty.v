(* The built-in emptiness layer of the discrete-space grids equals actual cell emptiness after
   every history that does not itself write or detach that layer (Model/PropLayer.v). *)
From Coq Require Import ZArith List Bool Lia.
From Mesa Require Import Common.ListX Model.PropLayer Proofs.PropLayerProofs.
Import ListNotations.
Open Scope Z_scope.

Definition refs_empty (r : lref) : bool :=
  match r with ByHandle h => h =? 0 | ByName n => n =? EMPTY end.
(* the history itself writes to / detaches the emptiness layer *)
Definition touches_empty (o : op) : bool :=
  match o with
  | RemoveLayer n => n =? EMPTY
  | CellWrite _ n _ => n =? EMPTY
  | LayerWrite r _ _ | SetCells r _ _ | SetArray r _ => refs_empty r
  | ModifyCells r _ _ _ _ | ModifyCell r _ _ _ _ => refs_empty r
  | _ => false
  end.

Definition functional (ag : list (Z * coord)) : Prop :=
  forall a c1 c2, In (a, c1) ag -> In (a, c2) ag -> c1 = c2.

Lemma agent_cell_in ag a c : agent_cell ag a = Some c -> In (a, c) ag.
Proof.
  unfold agent_cell. destruct (find (fun p => fst p =? a) ag) as [[a' c']|] eqn:E; [|discriminate].
  intros [= <-]. apply find_some in E. destruct E as [Hin He]. simpl in He.
  apply Z.eqb_eq in He. subst a'. exact Hin.
Qed.
Lemma agent_cell_none ag a c : agent_cell ag a = None -> ~ In (a, c) ag.
Proof.
  unfold agent_cell. destruct (find (fun p => fst p =? a) ag) eqn:E; [destruct p; discriminate|].
  intros _ Hin. pose proof (find_none _ _ E _ Hin) as H. simpl in H. rewrite Z.eqb_refl in H. discriminate.
Qed.
Lemma occupied_app ag a c c' : occupied (ag ++ [(a, c)]) c' = occupied ag c' || coord_eqb c c'.
Proof. unfold occupied. rewrite existsb_app. simpl. rewrite orb_false_r. reflexivity. Qed.
Lemma in_drop ag a b c : In (b, c) (drop_agent ag a) <-> In (b, c) ag /\ b <> a.
Proof.
  unfold drop_agent. rewrite filter_In. simpl. rewrite negb_true_iff, Z.eqb_neq. tauto.
Qed.
Lemma occupied_drop ag a c0 c' :
  functional ag -> In (a, c0) ag -> c' <> c0 -> occupied (drop_agent ag a) c' = occupied ag c'.
Proof.
  intros Hf Hin Hne. unfold occupied.
  destruct (existsb (fun x => coord_eqb (snd x) c') ag) eqn:E.
  - apply existsb_exists in E. destruct E as [[b cb] [Hb He]]. simpl in He.
    apply coord_eqb_eq in He. subst cb. apply existsb_exists. exists (b, c'). split; [|apply coord_eqb_refl].
    apply in_drop. split; [exact Hb|]. intros ->. apply Hne. apply (Hf a c' c0 Hb Hin).
  - destruct (existsb (fun x => coord_eqb (snd x) c') (drop_agent ag a)) eqn:E2; [|reflexivity].
    apply existsb_exists in E2. destruct E2 as [[b cb] [Hb He]]. apply in_drop in Hb.
    assert (existsb (fun x => coord_eqb (snd x) c') ag = true) as X.
    { apply existsb_exists. exists (b, cb). tauto. }
    congruence.
Qed.
Lemma functional_drop ag a : functional ag -> functional (drop_agent ag a).
Proof. intros Hf b c1 c2 H1 H2. apply in_drop in H1. apply in_drop in H2. apply (Hf b); tauto. Qed.
Lemma functional_add ag a c : functional ag -> (forall c', ~ In (a, c') ag) -> functional (ag ++ [(a, c)]).
Proof.
  intros Hf Hn b c1 c2 H1 H2. apply in_app_iff in H1. apply in_app_iff in H2.
  destruct H1 as [H1|[H1|[]]], H2 as [H2|[H2|[]]].
  - apply (Hf b); assumption.
  - inversion H2; subst. exfalso. apply (Hn _ H1).
  - inversion H1; subst. exfalso. apply (Hn _ H2).
  - congruence.
Qed.
Lemma agent_cell_drop ag a : agent_cell (drop_agent ag a) a = None.
Proof.
  unfold agent_cell. destruct (find (fun p => fst p =? a) (drop_agent ag a)) as [[b c]|] eqn:E; [|reflexivity].
  apply find_some in E. destruct E as [Hin He]. simpl in He. apply Z.eqb_eq in He. subst b.
  apply in_drop in Hin. destruct Hin as [_ Hn]. contradiction.
Qed.

Record einv (st : state) : Prop := {
  e_fun : functional (s_agents st);
  e_valid : forall a c, In (a, c) (s_agents st) -> valid_coord (s_dims st) c = true;
  e_grid : assoc EMPTY (s_grid st) = Some 0;
  e_only : forall n, assoc n (s_grid st) = Some 0 -> n = EMPTY;
  e_obj : exists L, get_obj st 0 = Some L /\ l_name L = EMPTY /\ l_dims L = s_dims st /\
            forall c, valid_coord (s_dims st) c = true ->
                      aget (l_data L) c = Some (b2z (negb (occupied (s_agents st) c)))
}.

Lemma aget_full dims v c : valid_coord dims c = true -> aget (full dims v) c = Some v.
Proof.
  intros H. apply valid_in_all_coords in H. unfold full.
  induction (all_coords dims) as [|k l IH]; [destruct H|]. simpl.
  destruct (coord_eqb k c) eqn:E; [reflexivity|]. destruct H as [->|H]; [|exact (IH H)].
  rewrite coord_eqb_refl in E. discriminate.
Qed.

Lemma einv_init dims : einv (init true dims).
Proof.
  constructor; simpl.
  - intros a c1 c2 [].
  - intros a c [].
  - reflexivity.
  - intros n. destruct (n =? EMPTY) eqn:E; [|discriminate]. intros _. apply Z.eqb_eq. exact E.
  - eexists. split; [reflexivity|]. simpl. repeat split. intros c Hc. apply aget_full. exact Hc.
Qed.

(* a write into another object *)
Lemma einv_other st id L d : einv st -> get_obj st id = Some L -> id <> 0 -> einv (set_data st id L d).
Proof.
  intros [E1 E2 E3 E4 [L0 [H0 [Hn [Hd Hv]]]]] HL Hne. constructor; simpl; auto.
  exists L0. rewrite (get_obj_set_data st id L d 0 HL).
  assert (0 =? id = false) as -> by (apply Z.eqb_neq; congruence). auto.
Qed.

(* cell.empty = v on a valid cell goes to object 0 *)
Lemma setattr_empty st c v L :
  inv st -> s_discrete st = true -> assoc EMPTY (s_grid st) = Some 0 -> get_obj st 0 = Some L ->
  l_dims L = s_dims st -> valid_coord (s_dims st) c = true ->
  cell_setattr st c EMPTY v = set_data st 0 L (aset (l_data L) c v).
Proof.
  intros I Hd Hg HL Hdims Hc. unfold cell_setattr. rewrite (inv_descr _ I Hd), Hg, HL, Hdims.
  rewrite (valid_norm _ _ Hc). reflexivity.
Qed.

Lemma einv_add st a c :
  inv st -> s_discrete st = true -> einv st -> agent_cell (s_agents st) a = None ->
  valid_coord (s_dims st) c = true -> einv (cell_add_agent st a c).
Proof.
  intros I Hd [E1 E2 E3 E4 [L [HL [Hn [Hdims Hv]]]]] Ha Hc. unfold cell_add_agent.
  rewrite (setattr_empty st c 0 L I Hd E3 HL Hdims Hc). constructor; simpl; auto.
  - apply functional_add; [exact E1|]. intros c'. apply agent_cell_none. exact Ha.
  - intros b cb Hin. apply in_app_iff in Hin. destruct Hin as [Hin|[Hin|[]]]; [eapply E2; eauto|].
    inversion Hin; subst. exact Hc.
  - eexists. split; [apply (get_obj_set_data st 0 L _ 0 HL)|]. simpl. repeat split; auto.
    intros c' Hc'. rewrite aget_aset, occupied_app, (Hv c' Hc').
    destruct (coord_eqb c c'); [rewrite orb_true_r|rewrite orb_false_r]; reflexivity.
Qed.

Lemma einv_remove st a c0 :
  inv st -> s_discrete st = true -> einv st -> agent_cell (s_agents st) a = Some c0 ->
  einv (cell_remove_agent st a c0).
Proof.
  intros I Hd [E1 E2 E3 E4 [L [HL [Hn [Hdims Hv]]]]] Ha. unfold cell_remove_agent.
  pose proof (agent_cell_in _ _ _ Ha) as Hin0.
  pose proof (E2 _ _ Hin0) as Hc0.
  set (st1 := set_agents st (s_emask st) (drop_agent (s_agents st) a)).
  assert (inv st1) as I1 by (apply inv_set_agents; exact I).
  rewrite (setattr_empty st1 c0 _ L I1 Hd E3 HL Hdims Hc0). constructor; simpl; auto.
  - apply functional_drop. exact E1.
  - intros b cb Hin. apply in_drop in Hin. eapply E2. apply Hin.
  - eexists. split; [apply (get_obj_set_data st1 0 L _ 0 HL)|]. simpl. repeat split; auto.
    intros c' Hc'. rewrite aget_aset, (Hv c' Hc').
    destruct (coord_eqb c0 c') eqn:E.
    + apply coord_eqb_eq in E. subst c'. reflexivity.
    + rewrite (occupied_drop _ a c0 c' E1 Hin0); [reflexivity|].
      intros ->. rewrite coord_eqb_refl in E. discriminate.
Qed.

Lemma resolve_not_empty st r id :
  einv st -> refs_empty r = false -> resolve st r = Some id -> id <> 0.
Proof.
  intros E Hr. destruct r as [h|n]; simpl in *.
  - destruct (get_obj st h); [|discriminate]. intros [= <-]. apply Z.eqb_neq. exact Hr.
  - intros Hn ->. apply (e_only _ E) in Hn. subst n. discriminate.
Qed.

Lemma einv_tables st g d p :
  einv st -> assoc EMPTY g = Some 0 -> (forall n, assoc n g = Some 0 -> n = EMPTY) ->
  einv (set_tables st g d p).
Proof. intros [E1 E2 E3 E4 E5] H1 H2. constructor; simpl; auto. Qed.

Lemma einv_new_obj st L : einv st -> einv (set_objs st (s_objs st ++ [L])).
Proof.
  intros [E1 E2 E3 E4 [L0 [H0 H]]]. constructor; simpl; auto.
  exists L0. split; [apply get_obj_app; exact H0|exact H].
Qed.

Lemma einv_add_layer st id L st' r :
  inv st -> einv st -> (id = 0 -> l_name L = EMPTY) -> add_layer st id L = (st', r) -> einv st'.
Proof.
  intros I E Hid HA. destruct (add_layer_inv _ _ _ _ _ I HA) as [Hne Heq].
  destruct r as [[|z p]|k|]; try (assert (st' = st) as -> by (apply Hne; discriminate); exact E).
  destruct (Heq eq_refl) as [Hg [Ho [_ [Hnone [Hd [_ [_ [Hag _]]]]]]]].
  destruct E as [E1 E2 E3 E4 [L0 [H0 H]]]. constructor.
  - rewrite Hag. exact E1.
  - rewrite Hag, Hd. exact E2.
  - rewrite Hg, assoc_app, E3. reflexivity.
  - intros n. rewrite Hg, assoc_app. destruct (assoc n (s_grid st)) eqn:En.
    + intros [= ->]. apply E4. exact En.
    + simpl. destruct (n =? l_name L) eqn:E; [|discriminate]. intros [= ->].
      apply Z.eqb_eq in E. subst n. apply Hid. reflexivity.
  - exists L0. rewrite (get_obj_same_objs st st' 0 Ho), Hd, Hag. auto.
Qed.

Lemma get_obj0_len st L : get_obj st 0 = Some L -> (0 < length (s_objs st))%nat.
Proof.
  unfold get_obj. change (0 <? 0) with false. change (Z.to_nat 0) with 0%nat. cbv iota.
  destruct (s_objs st); simpl; [discriminate|lia].
Qed.

Lemma step_einv st o :
  inv st -> s_discrete st = true -> einv st -> touches_empty o = false -> einv (fst (step st o)).
Proof.
  intros I Hd E Ht. destruct o; simpl in *; rewrite ?Hd; simpl.
  - apply einv_new_obj. exact E.
  - destruct (add_layer st _ _) as [st1 r] eqn:EA.
    assert (einv st1) as E1.
    { eapply einv_add_layer; [exact I|exact E| |exact EA].
      intros H0. exfalso. destruct (e_obj _ E) as [L0 [H0' _]].
      apply get_obj0_len in H0'. lia. }
    destruct r; simpl; try exact E; apply einv_new_obj; exact E1.
  - destruct (get_obj st h) as [L|] eqn:EL; [|exact E].
    destruct (add_layer st h L) as [st1 r] eqn:EA. simpl.
    eapply einv_add_layer; [exact I|exact E| |exact EA].
    intros ->. destruct (e_obj _ E) as [L0 [H0 [Hn _]]]. congruence.
  - destruct (remove_layer st n) as [st' r] eqn:ER. simpl.
    destruct (remove_layer_spec _ _ _ _ I ER) as [[_ [-> _]]|[id [En [_ ->]]]]; [exact E|].
    apply Z.eqb_neq in Ht. apply einv_tables; [exact E| |].
    + rewrite assoc_del_other; [apply (e_grid _ E)|]. unfold EMPTY in *. congruence.
    + intros n'. destruct (Z.eq_dec n' n) as [->|Hne]; [rewrite assoc_del_same; discriminate|].
      rewrite (assoc_del_other n n' _ Hne). apply (e_only _ E).
  - destruct (valid_coord (s_dims st) c); [|exact E].
    destruct (assoc n (s_descr st)) as [id|] eqn:En; [|exact E]. simpl.
    unfold cell_setattr. rewrite En. rewrite (inv_descr _ I Hd) in En.
    destruct (get_obj st id) as [L|] eqn:EL; [|exact E].
    destruct (norm_coord (l_dims L) c); [|exact E].
    apply einv_other; auto. intros ->. apply (e_only _ E) in En. subst n. discriminate.
  - destruct (resolve st r) as [id|] eqn:Er; [|exact E].
    destruct (get_obj st id) as [L|] eqn:EL; [|exact E].
    destruct (norm_coord (l_dims L) c); [|exact E]. simpl.
    apply einv_other; auto. eapply resolve_not_empty; eauto.
  - destruct (resolve st r) as [id|] eqn:Er; [|exact E].
    destruct (get_obj st id) as [L|] eqn:EL; [|exact E]. simpl.
    apply einv_other; auto. eapply resolve_not_empty; eauto.
  - destruct (resolve st r) as [id|] eqn:Er; [|exact E].
    destruct (get_obj st id) as [L|] eqn:EL; [|exact E].
    destruct (Nat.eqb (length vals) (length (l_data L))); [|exact E]. simpl.
    apply einv_other; auto. eapply resolve_not_empty; eauto.
  - destruct (resolve st r) as [id|] eqn:Er; [|exact E].
    destruct (get_obj st id) as [L|] eqn:EL; [|exact E].
    destruct (modify_cells L fm f hasval cd); [|exact E]. simpl.
    apply einv_other; auto. eapply resolve_not_empty; eauto.
  - exact E.
  - destruct (select_mask st conds exts masks only_empty); exact E.
  - destruct (valid_coord (s_dims st) c) eqn:Hc; [|exact E].
    destruct (agent_cell (s_agents st) a) eqn:Ha; [exact E|]. simpl.
    apply einv_add; auto.
  - destruct (valid_coord (s_dims st) c) eqn:Hc; [|exact E].
    destruct (agent_cell (s_agents st) a) as [c0|] eqn:Ha; [|exact E]. simpl.
    assert (frame st (cell_remove_agent st a c0)) as [F1 F2].
    { unfold cell_remove_agent. eapply frame_trans; [|apply frame_cell_setattr]. split; reflexivity. }
    apply einv_add.
    + apply inv_cell_remove. exact I.
    + congruence.
    + apply einv_remove; auto.
    + unfold cell_remove_agent.
      assert (forall s c1 n1 v1, s_agents (cell_setattr s c1 n1 v1) = s_agents s) as X.
      { intros. unfold cell_setattr. case_all; reflexivity. }
      rewrite X. simpl. apply agent_cell_drop.
    + rewrite F2. exact Hc.
  - destruct (agent_cell (s_agents st) a) as [c0|] eqn:Ha; [|exact E]. simpl.
    apply einv_remove; auto.
  - exact E.
Qed.

Lemma run_einv ops : forall st,
  inv st -> s_discrete st = true -> einv st -> forallb (fun o => negb (touches_empty o)) ops = true ->
  einv (run_state st ops).
Proof.
  induction ops as [|o t IH]; intros st I Hd E Hs; simpl; [exact E|].
  simpl in Hs. apply andb_true_iff in Hs. destruct Hs as [H1 H2]. apply negb_true_iff in H1.
  apply IH; [apply step_inv; exact I| |apply step_einv; assumption|exact H2].
  destruct (step_frame st o) as [F _]. congruence.
Qed.

(* the emptiness layer, read through the grid or through the cell attribute, says "empty"
   exactly for the cells that hold no agent *)
Lemma empty_layer_true dims ops c :
  forallb (fun o => negb (touches_empty o)) ops = true ->
  valid_coord dims c = true ->
  let st := run_state (init true dims) ops in
  layer_read st EMPTY c = Some (b2z (negb (occupied (s_agents st) c))) /\
  cell_read st c EMPTY = Some (b2z (negb (occupied (s_agents st) c))).
Proof.
  intros Hs Hc st.
  assert (einv st) as E by (apply run_einv; [apply inv_init|reflexivity|apply einv_init|exact Hs]).
  assert (s_dims st = dims) as Hdims by (destruct (run_state_frame (init true dims) ops) as [_ F]; exact F).
  assert (cell_read st c EMPTY = layer_read st EMPTY c) as OV by apply (one_value dims ops c EMPTY).
  rewrite OV. cut (layer_read st EMPTY c = Some (b2z (negb (occupied (s_agents st) c)))); [auto|].
  destruct E as [_ _ E3 _ [L [HL [_ [Hd Hv]]]]]. unfold layer_read. rewrite E3, HL. unfold layer_get.
  rewrite Hd, Hdims, (valid_norm _ _ Hc). apply Hv. rewrite Hdims. exact Hc.
Qed.

(* ---------- legacy SingleGrid: empty_mask = emptiness ---------- *)
Definition injective (ag : list (Z * coord)) : Prop :=
  forall a1 a2 c, In (a1, c) ag -> In (a2, c) ag -> a1 = a2.

Record linv (st : state) : Prop := {
  l_fun : functional (s_agents st);
  l_inj : injective (s_agents st);
  l_mask : forall c, valid_coord (s_dims st) c = true ->
             aget (s_emask st) c = Some (b2z (negb (occupied (s_agents st) c)))
}.

Lemma linv_ext st st' :
  s_emask st' = s_emask st -> s_agents st' = s_agents st -> s_dims st' = s_dims st -> linv st -> linv st'.
Proof. intros H1 H2 H3 [A B C]. constructor; rewrite ?H1, ?H2, ?H3; assumption. Qed.

Lemma occupied_true ag c : occupied ag c = true -> exists b, In (b, c) ag.
Proof.
  unfold occupied. intros H. apply existsb_exists in H. destruct H as [[b cb] [Hin He]]. simpl in He.
  apply coord_eqb_eq in He. subst cb. eauto.
Qed.
Lemma occupied_in ag b c : In (b, c) ag -> occupied ag c = true.
Proof. intros H. unfold occupied. apply existsb_exists. exists (b, c). split; [exact H|apply coord_eqb_refl]. Qed.

Lemma occupied_drop_self ag a c0 : injective ag -> In (a, c0) ag -> occupied (drop_agent ag a) c0 = false.
Proof.
  intros Hi Hin. destruct (occupied (drop_agent ag a) c0) eqn:E; [|reflexivity].
  apply occupied_true in E. destruct E as [b Hb]. apply in_drop in Hb. destruct Hb as [Hb Hne].
  exfalso. apply Hne. apply (Hi b a c0 Hb Hin).
Qed.
Lemma injective_drop ag a : injective ag -> injective (drop_agent ag a).
Proof. intros Hi a1 a2 c H1 H2. apply in_drop in H1. apply in_drop in H2. apply (Hi a1 a2 c); tauto. Qed.
Lemma injective_add ag a c : injective ag -> occupied ag c = false -> injective (ag ++ [(a, c)]).
Proof.
  intros Hi Ho a1 a2 c' H1 H2. apply in_app_iff in H1. apply in_app_iff in H2.
  destruct H1 as [H1|[H1|[]]], H2 as [H2|[H2|[]]].
  - apply (Hi a1 a2 c'); assumption.
  - inversion H2; subst. apply occupied_in in H1. congruence.
  - inversion H1; subst. apply occupied_in in H2. congruence.
  - congruence.
Qed.

Lemma linv_init dims : linv (init false dims).
Proof.
  constructor; simpl.
  - intros a c1 c2 [].
  - intros a1 a2 c [].
  - intros c Hc. apply aget_full. exact Hc.
Qed.

Lemma linv_place st a c :
  linv st -> valid_coord (s_dims st) c = true -> agent_cell (s_agents st) a = None ->
  occupied (s_agents st) c = false ->
  linv (set_agents st (aset (s_emask st) c 0) (s_agents st ++ [(a, c)])).
Proof.
  intros [A B C] Hc Ha Ho. constructor; simpl.
  - apply functional_add; [exact A|]. intros c'. apply agent_cell_none. exact Ha.
  - apply injective_add; assumption.
  - intros c' Hc'. rewrite aget_aset, occupied_app, (C c' Hc').
    destruct (coord_eqb c c'); [rewrite orb_true_r|rewrite orb_false_r]; reflexivity.
Qed.

Lemma linv_unplace st a c0 :
  linv st -> agent_cell (s_agents st) a = Some c0 ->
  linv (set_agents st (aset (s_emask st) c0 1) (drop_agent (s_agents st) a)).
Proof.
  intros [A B C] Ha. pose proof (agent_cell_in _ _ _ Ha) as Hin. constructor; simpl.
  - apply functional_drop. exact A.
  - apply injective_drop. exact B.
  - intros c' Hc'. rewrite aget_aset, (C c' Hc').
    destruct (coord_eqb c0 c') eqn:E.
    + apply coord_eqb_eq in E. subst c'. rewrite (occupied_drop_self _ _ _ B Hin). reflexivity.
    + rewrite (occupied_drop _ a c0 c' A Hin); [reflexivity|].
      intros ->. rewrite coord_eqb_refl in E. discriminate.
Qed.

Lemma step_linv st o : s_discrete st = false -> linv st -> linv (fst (step st o)).
Proof.
  intros Hd E. destruct o; simpl; rewrite ?Hd; simpl; try exact E.
  - eapply linv_ext; [| | |exact E]; reflexivity.
  - destruct (get_obj st h) as [L|]; [|exact E]. unfold add_layer. rewrite Hd.
    case_all; try exact E; (eapply linv_ext; [| | |exact E]; reflexivity).
  - unfold remove_layer. rewrite Hd. case_all; try exact E; (eapply linv_ext; [| | |exact E]; reflexivity).
  - case_all; try exact E; (eapply linv_ext; [| | |exact E]; reflexivity).
  - case_all; try exact E; (eapply linv_ext; [| | |exact E]; reflexivity).
  - case_all; try exact E; (eapply linv_ext; [| | |exact E]; reflexivity).
  - destruct (resolve st r); [|exact E]. destruct (get_obj st z); [|exact E].
    destruct (modify_cells l fm f hasval cd); simpl; [|exact E]. eapply linv_ext; [| | |exact E]; reflexivity.
  - case_all; try exact E; (eapply linv_ext; [| | |exact E]; reflexivity).
  - destruct (select_mask st conds exts masks only_empty); exact E.
  - destruct (valid_coord (s_dims st) c) eqn:Hc; [|exact E].
    destruct (agent_cell (s_agents st) a) eqn:Ha; [exact E|].
    destruct (occupied (s_agents st) c) eqn:Ho; [exact E|]. simpl. apply linv_place; assumption.
  - destruct (valid_coord (s_dims st) c) eqn:Hc; [|exact E].
    destruct (agent_cell (s_agents st) a) as [c0|] eqn:Ha; [|exact E].
    destruct (occupied (drop_agent (s_agents st) a) c) eqn:Ho; [exact E|]. simpl.
    pose proof (linv_unplace st a c0 E Ha) as E1.
    pose proof (linv_place _ a c E1 Hc (agent_cell_drop _ a) Ho) as E2. exact E2.
  - destruct (agent_cell (s_agents st) a) as [c0|] eqn:Ha; [|exact E]. simpl.
    apply linv_unplace; assumption.
Qed.

Lemma run_linv ops : forall st, s_discrete st = false -> linv st -> linv (run_state st ops).
Proof.
  induction ops as [|o t IH]; intros st Hd E; simpl; [exact E|].
  apply IH; [|apply step_linv; assumption].
  destruct (step_frame st o) as [F _]. congruence.
Qed.

Lemma empty_mask_true dims ops c :
  valid_coord dims c = true ->
  let st := run_state (init false dims) ops in
  aget (s_emask st) c = Some (b2z (negb (occupied (s_agents st) c))).
Proof.
  intros Hc st. assert (linv st) as E by (apply run_linv; [reflexivity|apply linv_init]).
  apply (l_mask _ E). destruct (run_state_frame (init false dims) ops) as [_ F]. fold st in F. rewrite F. exact Hc.
Qed.
