(* Lemmas about Model/LegacyGrid.v: the invariant Agree, its preservation by every operation of
   every history, the exactness of the emptiness views, the movers' postconditions, and
   atomicity of rejected calls (the legacy-grid sites of C18). *)
From Coq Require Import ZArith List Bool Lia.
From Mesa Require Import Common.ListX Model.LegacyGrid.
Import ListNotations.
Open Scope Z_scope.

(* ------------------------------------------------------------------ basics *)
Lemma coord_eqb_spec (a b : coord) : coord_eqb a b = true <-> a = b.
Proof.
  destruct a as [a1 a2], b as [b1 b2]. unfold coord_eqb. cbn [fst snd].
  rewrite andb_true_iff, !Z.eqb_eq. split.
  - intros [-> ->]. reflexivity.
  - intros H. inversion H. split; reflexivity.
Qed.

Lemma coord_eqb_refl (a : coord) : coord_eqb a a = true.
Proof. apply coord_eqb_spec. reflexivity. Qed.

Lemma coord_eqb_neq (a b : coord) : a <> b -> coord_eqb a b = false.
Proof.
  intros H. destruct (coord_eqb a b) eqn:E; [|reflexivity].
  apply coord_eqb_spec in E. contradiction.
Qed.

Lemma coord_eqb_sym (a b : coord) : coord_eqb a b = coord_eqb b a.
Proof.
  destruct (coord_eqb a b) eqn:E1, (coord_eqb b a) eqn:E2; try reflexivity.
  - apply coord_eqb_spec in E1. subst. rewrite coord_eqb_refl in E2. discriminate.
  - apply coord_eqb_spec in E2. subst. rewrite coord_eqb_refl in E1. discriminate.
Qed.

Lemma coord_eq_dec (a b : coord) : a = b \/ a <> b.
Proof.
  destruct (coord_eqb a b) eqn:E.
  - left. apply coord_eqb_spec. exact E.
  - right. intros ->. rewrite coord_eqb_refl in E. discriminate.
Qed.

Lemma zeqb_spec (a b : Z) : Z.eqb a b = true <-> a = b.
Proof. apply Z.eqb_eq. Qed.

Lemma zmemb_In a l : zmemb a l = true <-> In a l.
Proof. unfold zmemb. apply memb_In. exact zeqb_spec. Qed.

Lemma cmemb_In p l : memb coord_eqb p l = true <-> In p l.
Proof. apply memb_In. exact coord_eqb_spec. Qed.

Definition wf (c : cfg) : Prop := 0 < c_w c /\ 0 < c_h c.

Lemma oob_false_iff c p :
  out_of_bounds c p = false <-> (0 <= fst p < c_w c /\ 0 <= snd p < c_h c).
Proof.
  unfold out_of_bounds. rewrite !orb_false_iff, !Z.geb_leb, !Z.ltb_ge, !Z.leb_gt. lia.
Qed.

Lemma all_cells_In c p : In p (all_cells c) <-> out_of_bounds c p = false.
Proof.
  rewrite oob_false_iff. unfold all_cells. rewrite in_flat_map. split.
  - intros [x [Hx Hp]]. apply in_map_iff in Hp. destruct Hp as [y [<- Hy]].
    apply zrange_In in Hx. apply zrange_In in Hy. cbn [fst snd]. lia.
  - intros [H1 H2]. exists (fst p). split; [apply zrange_In; lia|].
    apply in_map_iff. exists (snd p). split; [destruct p; reflexivity|apply zrange_In; lia].
Qed.

Lemma torus_adj_in c p p' : wf c -> torus_adj c p = Some p' -> out_of_bounds c p' = false.
Proof.
  intros [Hw Hh]. unfold torus_adj.
  destruct (out_of_bounds c p) eqn:E; cbn [negb].
  - destruct (c_torus c); cbn [negb]; [|discriminate].
    intros H. inversion H. subst p'. apply oob_false_iff. cbn [fst snd].
    pose proof (Z.mod_pos_bound (fst p) (c_w c) Hw). pose proof (Z.mod_pos_bound (snd p) (c_h c) Hh). lia.
  - intros H. inversion H. subst. exact E.
Qed.

Lemma torus_adj_inb c p : out_of_bounds c p = false -> torus_adj c p = Some p.
Proof. intros H. unfold torus_adj. rewrite H. reflexivity. Qed.

Lemma torus_adj_torus c p :
  wf c -> c_torus c = true -> torus_adj c p = Some (fst p mod c_w c, snd p mod c_h c).
Proof.
  intros [Hw Hh] Ht. unfold torus_adj. rewrite Ht.
  destruct (out_of_bounds c p) eqn:E; cbn [negb]; [reflexivity|].
  apply oob_false_iff in E. rewrite !Z.mod_small by lia. destruct p; reflexivity.
Qed.

Lemma torus_adj_bounded c p :
  c_torus c = false -> out_of_bounds c p = true -> torus_adj c p = None.
Proof. intros Ht Ho. unfold torus_adj. rewrite Ho, Ht. reflexivity. Qed.

(* ------------------------------------------------------------------ remove_first *)
Lemma remove_first_In a l x : NoDup l -> (In x (remove_first a l) <-> In x l /\ x <> a).
Proof.
  induction l as [|y t IH]; intros Hnd; cbn [remove_first In].
  - tauto.
  - inversion Hnd as [|? ? Hy Ht]. subst. destruct (y =? a) eqn:E.
    + apply Z.eqb_eq in E. subst y. split.
      * intros H. split; [right; exact H|]. intros ->. contradiction.
      * intros [[H|H] Hne]; [congruence|exact H].
    + apply Z.eqb_neq in E. cbn [In]. rewrite (IH Ht). split.
      * intros [H|[H1 H2]]; [subst; tauto|tauto].
      * intros [[H|H] Hne]; tauto.
Qed.

Lemma remove_first_subset a l x : In x (remove_first a l) -> In x l.
Proof.
  induction l as [|y t IH]; cbn [remove_first In]; [tauto|].
  destruct (y =? a); cbn [In]; tauto.
Qed.

Lemma remove_first_NoDup a l : NoDup l -> NoDup (remove_first a l).
Proof.
  induction l as [|y t IH]; intros Hnd; cbn [remove_first]; [constructor|].
  inversion Hnd as [|? ? Hy Ht]. subst. destruct (y =? a); [exact Ht|].
  constructor; [|apply IH; exact Ht].
  intros H. apply remove_first_subset in H. contradiction.
Qed.

Lemma remove_first_length a l : (length (remove_first a l) <= length l)%nat.
Proof.
  induction l as [|y t IH]; cbn [remove_first length]; [lia|].
  destruct (y =? a); cbn [length]; lia.
Qed.

Lemma NoDup_app_snoc (l : list Z) a : NoDup l -> ~ In a l -> NoDup (l ++ [a]).
Proof.
  induction l as [|x t IH]; intros Hnd Hn; cbn [app].
  - constructor; [intros []|constructor].
  - inversion Hnd as [|? ? Hx Ht]. subst. constructor.
    + rewrite in_app_iff. cbn [In]. intros [H|[H|[]]]; [contradiction|]. subst. apply Hn. left. reflexivity.
    + apply IH; [exact Ht|]. intros H. apply Hn. right. exact H.
Qed.

Lemma is_nil_true {A} (l : list A) : is_nil l = true <-> l = [].
Proof. destruct l; cbn; split; congruence. Qed.

Lemma is_nil_false {A} (l : list A) : is_nil l = false <-> l <> [].
Proof. destruct l; cbn; split; congruence. Qed.

(* ------------------------------------------------------------------ the invariant *)
Record Agree (c : cfg) (s : state) : Prop := {
  ag_inb : forall a p, pos s a = Some p -> out_of_bounds c p = false;
  ag_pos : forall a p, pos s a = Some p <-> In a (grid s p);
  ag_nodup : forall p, NoDup (grid s p);
  ag_single : c_multi c = false -> forall p, (length (grid s p) <= 1)%nat;
  ag_emp : built s = true ->
           forall p, In p (empties s) <-> (out_of_bounds c p = false /\ grid s p = []);
  ag_mask : forall p, out_of_bounds c p = false -> mask s p = is_nil (grid s p)
}.

Lemma init_agree c : Agree c init.
Proof.
  constructor; cbn.
  - intros; discriminate.
  - intros a p. split; [discriminate|tauto].
  - intros; constructor.
  - intros; lia.
  - intros; discriminate.
  - intros; reflexivity.
Qed.

Lemma agree_single_cell c s a p :
  Agree c s -> c_multi c = false -> pos s a = Some p -> grid s p = [a].
Proof.
  intros Ha Hs Hp. pose proof (ag_single c s Ha Hs p) as Hl.
  apply (ag_pos c s Ha) in Hp. destruct (grid s p) as [|x [|y t]]; cbn in *.
  - contradiction.
  - destruct Hp as [->|[]]. reflexivity.
  - lia.
Qed.

(* ---- the effect of a successful placement / removal, independent of the grid kind ---- *)
Definition placed_state (s : state) (a : agent) (p : coord) (s' : state) : Prop :=
  (forall q, grid s' q = if coord_eqb q p then grid s p ++ [a] else grid s q) /\
  (forall b, pos s' b = if b =? a then Some p else pos s b) /\
  built s' = built s /\
  empties s' = (if built s then set_discard p (empties s) else empties s) /\
  (forall q, mask s' q = if coord_eqb q p then false else mask s q).

Definition removed_state (s : state) (a : agent) (p : coord) (s' : state) : Prop :=
  let l := remove_first a (grid s p) in
  (forall q, grid s' q = if coord_eqb q p then l else grid s q) /\
  (forall b, pos s' b = if b =? a then None else pos s b) /\
  built s' = built s /\
  empties s' = (if built s && is_nil l then set_add p (empties s) else empties s) /\
  (forall q, mask s' q = if coord_eqb q p && is_nil l then true else mask s q).

Lemma place_ok c s a p :
  pos s a = None -> (c_multi c = false -> grid s p = []) ->
  exists s', place c s a p = (s', Ok []) /\ placed_state s a p s'.
Proof.
  intros Hp He. unfold place. destruct (c_multi c) eqn:Em.
  - unfold place_multi. rewrite Hp. cbn [is_none orb].
    eexists. split; [reflexivity|].
    unfold placed_state, upd_c, upd_a. cbn. repeat split; reflexivity.
  - specialize (He eq_refl). unfold place_single, is_cell_empty. rewrite He. cbn [is_nil].
    eexists. split; [reflexivity|].
    unfold placed_state, upd_c, upd_a. cbn. rewrite He. repeat split; reflexivity.
Qed.

Lemma remove_ok c s a p :
  Agree c s -> pos s a = Some p ->
  exists s', remove c s a = (s', Ok []) /\ removed_state s a p s'.
Proof.
  intros Ha Hp. unfold remove. destruct (c_multi c) eqn:Em.
  - unfold remove_multi. rewrite Hp.
    assert (zmemb a (grid s p) = true) as Hm by (apply zmemb_In, (ag_pos c s Ha); exact Hp).
    rewrite Hm. eexists. split; [reflexivity|].
    unfold removed_state, upd_c. cbn. repeat split; try reflexivity.
    intros q. destruct (is_nil (remove_first a (grid s p))); [|rewrite andb_false_r; reflexivity].
    rewrite andb_true_r. reflexivity.
  - unfold remove_single. rewrite Hp.
    pose proof (agree_single_cell c s a p Ha Em Hp) as Hc.
    eexists. split; [reflexivity|].
    unfold removed_state, upd_c. cbn. rewrite Hc. cbn [remove_first]. rewrite Z.eqb_refl. cbn [is_nil].
    rewrite andb_true_r. repeat split; try reflexivity.
    intros q. rewrite andb_true_r. reflexivity.
Qed.

Lemma set_discard_In p l q : In q (set_discard p l) <-> In q l /\ q <> p.
Proof. unfold set_discard. apply remove_key_In. exact coord_eqb_spec. Qed.

Lemma set_add_In p l q : In q (set_add p l) <-> q = p \/ In q l.
Proof.
  unfold set_add. destruct (memb coord_eqb p l) eqn:E.
  - apply cmemb_In in E. split; [tauto|]. intros [->|H]; assumption.
  - cbn [In]. split; intros [H|H]; auto.
Qed.

Lemma placed_agree c s a p s' :
  Agree c s -> pos s a = None -> out_of_bounds c p = false ->
  (c_multi c = false -> grid s p = []) ->
  placed_state s a p s' -> Agree c s'.
Proof.
  intros Ha Hp Hin He (Hg & Hpos & Hb & Hemp & Hm).
  assert (Hnot : forall q, ~ In a (grid s q)).
  { intros q H. apply (ag_pos c s Ha) in H. congruence. }
  constructor.
  - intros b q. rewrite Hpos. destruct (b =? a) eqn:E.
    + intros H. inversion H. subst. exact Hin.
    + apply (ag_inb c s Ha).
  - intros b q. rewrite Hpos, Hg. destruct (b =? a) eqn:E.
    + apply Z.eqb_eq in E. subst b. destruct (coord_eqb q p) eqn:E2.
      * apply coord_eqb_spec in E2. subst q. split; [|reflexivity].
        intros _. apply in_or_app. right. left. reflexivity.
      * split.
        -- intros H. inversion H. subst. rewrite coord_eqb_refl in E2. discriminate.
        -- intros H. exfalso. exact (Hnot q H).
    + apply Z.eqb_neq in E. destruct (coord_eqb q p) eqn:E2.
      * apply coord_eqb_spec in E2. subst q. rewrite (ag_pos c s Ha). rewrite in_app_iff. cbn [In].
        split; [tauto|]. intros [H|[H|[]]]; [exact H|congruence].
      * apply (ag_pos c s Ha).
  - intros q. rewrite Hg. destruct (coord_eqb q p); [|apply (ag_nodup c s Ha)].
    apply NoDup_app_snoc.
    + apply (ag_nodup c s Ha).
    + apply Hnot.
  - intros Hs q. rewrite Hg. destruct (coord_eqb q p); [|apply (ag_single c s Ha Hs)].
    rewrite (He Hs). cbn. lia.
  - rewrite Hb. intros Hbt q. rewrite Hemp, Hbt, set_discard_In, (ag_emp c s Ha Hbt), Hg.
    destruct (coord_eqb q p) eqn:E2.
    + apply coord_eqb_spec in E2. subst q. split; [tauto|].
      intros [_ H]. destruct (grid s p); discriminate.
    + split; [tauto|]. intros H. split; [exact H|]. intros ->. rewrite coord_eqb_refl in E2. discriminate.
  - intros q Hq. rewrite Hm, Hg. destruct (coord_eqb q p); [|apply (ag_mask c s Ha q Hq)].
    destruct (grid s p); reflexivity.
Qed.

Lemma removed_agree c s a p s' :
  Agree c s -> pos s a = Some p -> removed_state s a p s' -> Agree c s'.
Proof.
  intros Ha Hp (Hg & Hpos & Hb & Hemp & Hm).
  set (l := remove_first a (grid s p)) in *.
  pose proof (ag_nodup c s Ha p) as Hnd.
  assert (Hin_a : In a (grid s p)) by (apply (ag_pos c s Ha); exact Hp).
  assert (Hl : forall x, In x l <-> In x (grid s p) /\ x <> a) by (intros x; apply remove_first_In; exact Hnd).
  constructor.
  - intros b q. rewrite Hpos. destruct (b =? a); [discriminate|apply (ag_inb c s Ha)].
  - intros b q. rewrite Hpos, Hg. destruct (b =? a) eqn:E.
    + apply Z.eqb_eq in E. subst b. split; [discriminate|]. intros H. exfalso.
      destruct (coord_eqb q p) eqn:E2.
      * apply Hl in H. destruct H as [_ H]. apply H. reflexivity.
      * apply (ag_pos c s Ha) in H. rewrite Hp in H. inversion H. subst.
        rewrite coord_eqb_refl in E2. discriminate.
    + apply Z.eqb_neq in E. destruct (coord_eqb q p) eqn:E2.
      * apply coord_eqb_spec in E2. subst q. rewrite Hl, (ag_pos c s Ha). tauto.
      * apply (ag_pos c s Ha).
  - intros q. rewrite Hg. destruct (coord_eqb q p); [|apply (ag_nodup c s Ha)].
    apply remove_first_NoDup. exact Hnd.
  - intros Hs q. rewrite Hg. destruct (coord_eqb q p); [|apply (ag_single c s Ha Hs)].
    unfold l. pose proof (remove_first_length a (grid s p)) as H1. pose proof (ag_single c s Ha Hs p) as H2. exact (Nat.le_trans _ _ _ H1 H2).
  - rewrite Hb. intros Hbt q. rewrite Hemp, Hbt, Hg. cbn [andb].
    destruct (is_nil l) eqn:En.
    + apply is_nil_true in En. rewrite set_add_In, (ag_emp c s Ha Hbt).
      destruct (coord_eqb q p) eqn:E2.
      * apply coord_eqb_spec in E2. subst q. split; [|tauto].
        intros _. split; [apply (ag_inb c s Ha a p Hp)|exact En].
      * split; [|tauto]. intros [->|H]; [rewrite coord_eqb_refl in E2; discriminate|exact H].
    + apply is_nil_false in En. rewrite (ag_emp c s Ha Hbt).
      destruct (coord_eqb q p) eqn:E2; [|tauto].
      apply coord_eqb_spec in E2. subst q. split.
      * intros [_ H]. rewrite H in Hin_a. destruct Hin_a.
      * intros [_ H]. contradiction.
  - intros q Hq. rewrite Hm, Hg. destruct (coord_eqb q p) eqn:E2; cbn [andb]; [|apply (ag_mask c s Ha q Hq)].
    destruct (is_nil l) eqn:En; [symmetry; exact En|].
    apply coord_eqb_spec in E2. subst q. rewrite (ag_mask c s Ha p Hq).
    transitivity false; [|symmetry; exact En].
    destruct (grid s p); [destruct Hin_a|reflexivity].
Qed.

Lemma build_empties_agree c s : Agree c s -> Agree c (build_empties c s).
Proof.
  intros Ha. unfold build_empties. destruct (built s) eqn:Eb; [exact Ha|].
  constructor; cbn.
  - apply (ag_inb c s Ha).
  - apply (ag_pos c s Ha).
  - apply (ag_nodup c s Ha).
  - apply (ag_single c s Ha).
  - intros _ p. rewrite filter_In, all_cells_In. unfold is_cell_empty. rewrite is_nil_true. tauto.
  - apply (ag_mask c s Ha).
Qed.

Lemma build_empties_grid c s : grid (build_empties c s) = grid s.
Proof. unfold build_empties. destruct (built s); reflexivity. Qed.
Lemma build_empties_pos c s : pos (build_empties c s) = pos s.
Proof. unfold build_empties. destruct (built s); reflexivity. Qed.
Lemma build_empties_mask c s : mask (build_empties c s) = mask s.
Proof. unfold build_empties. destruct (built s); reflexivity. Qed.
Lemma build_empties_built c s : built (build_empties c s) = true.
Proof. unfold build_empties. destruct (built s) eqn:E; [exact E|reflexivity]. Qed.

(* ---- remove then place: the core of every mover ---- *)
Lemma removed_pos_none s a p s' : removed_state s a p s' -> pos s' a = None.
Proof. intros (_ & Hpos & _). rewrite Hpos, Z.eqb_refl. reflexivity. Qed.

Lemma removed_pos_other s a p s' b : removed_state s a p s' -> b <> a -> pos s' b = pos s b.
Proof. intros (_ & Hpos & _) Hne. rewrite Hpos. apply Z.eqb_neq in Hne. rewrite Hne. reflexivity. Qed.

Lemma placed_pos_self s a p s' : placed_state s a p s' -> pos s' a = Some p.
Proof. intros (_ & Hpos & _). rewrite Hpos, Z.eqb_refl. reflexivity. Qed.

Lemma placed_pos_other s a p s' b : placed_state s a p s' -> b <> a -> pos s' b = pos s b.
Proof. intros (_ & Hpos & _) Hne. rewrite Hpos. apply Z.eqb_neq in Hne. rewrite Hne. reflexivity. Qed.

(* a cell is "free for a" when it is empty or holds only a *)
Definition free_for (s : state) (a : agent) (q : coord) : Prop := forall b, In b (grid s q) -> b = a.

Lemma removed_cell_empty c s a p s' q :
  Agree c s -> pos s a = Some p -> removed_state s a p s' ->
  c_multi c = false -> free_for s a q -> grid s' q = [].
Proof.
  intros Ha Hp Hr Hs Hf. unfold free_for in Hf. destruct Hr as (Hg & _). rewrite Hg.
  pose proof (agree_single_cell c s a p Ha Hs Hp) as Hc.
  destruct (coord_eqb q p) eqn:E.
  - rewrite Hc. cbn [remove_first]. rewrite Z.eqb_refl. reflexivity.
  - destruct (grid s q) as [|b t] eqn:Eg; [reflexivity|].
    assert (b = a) by (apply Hf; left; reflexivity). subst b.
    assert (pos s a = Some q) by (apply (ag_pos c s Ha); rewrite Eg; left; reflexivity).
    rewrite Hp in H. inversion H. subst. rewrite coord_eqb_refl in E. discriminate.
Qed.

Lemma remove_place_ok c s a p q :
  Agree c s -> pos s a = Some p -> out_of_bounds c q = false ->
  (c_multi c = false -> free_for s a q) ->
  exists s1 s2, remove c s a = (s1, Ok []) /\ removed_state s a p s1 /\ Agree c s1 /\
                place c s1 a q = (s2, Ok []) /\ placed_state s1 a q s2 /\ Agree c s2.
Proof.
  intros Ha Hp Hq Hf.
  destruct (remove_ok c s a p Ha Hp) as (s1 & Hr & Hrs).
  pose proof (removed_agree c s a p s1 Ha Hp Hrs) as Ha1.
  pose proof (removed_pos_none s a p s1 Hrs) as Hn.
  assert (He : c_multi c = false -> grid s1 q = []).
  { intros Hs. exact (removed_cell_empty c s a p s1 q Ha Hp Hrs Hs (Hf Hs)). }
  destruct (place_ok c s1 a q Hn He) as (s2 & Hpl & Hps).
  exists s1, s2. split; [exact Hr|]. split; [exact Hrs|]. split; [exact Ha1|].
  split; [exact Hpl|]. split; [exact Hps|].
  exact (placed_agree c s1 a q s2 Ha1 Hn Hq He Hps).
Qed.

Lemma blocked_false_free s a q : blocked s a q = false -> (length (grid s q) <= 1)%nat -> free_for s a q.
Proof.
  unfold blocked, free_for. intros Hb Hl b Hin.
  destruct (grid s q) as [|x [|y t]]; cbn in *.
  - contradiction.
  - destruct Hin as [<-|[]]. apply negb_false_iff, Z.eqb_eq in Hb. exact Hb.
  - lia.
Qed.

(* ---- move_agent ---- *)
Lemma grid_move_ok c s a p p' pa :
  Agree c s -> pos s a = Some pa -> torus_adj c p = Some p' -> out_of_bounds c p' = false ->
  (c_multi c = false -> free_for s a p') ->
  exists s', grid_move_agent c s a p = (s', Ok []) /\ Agree c s' /\ pos s' a = Some p' /\
             (forall b, b <> a -> pos s' b = pos s b).
Proof.
  intros Ha Hp Ht Hin Hf. unfold grid_move_agent. rewrite Ht.
  destruct (remove_place_ok c s a pa p' Ha Hp Hin Hf) as (s1 & s2 & Hr & Hrs & Ha1 & Hpl & Hps & Ha2).
  exists s2. rewrite Hr. cbn [bind]. rewrite Hpl. split; [reflexivity|]. split; [exact Ha2|]. split.
  - apply (placed_pos_self s1 a p' s2 Hps).
  - intros b Hne. rewrite (placed_pos_other s1 a p' s2 b Hps Hne). apply (removed_pos_other s a pa s1 b Hrs Hne).
Qed.

Lemma move_ok c s a p p' pa :
  wf c -> Agree c s -> pos s a = Some pa -> torus_adj c p = Some p' ->
  (c_multi c = false -> blocked s a p' = false) ->
  exists s', move_agent c s a p = (s', Ok []) /\ Agree c s' /\ pos s' a = Some p' /\
             (forall b, b <> a -> pos s' b = pos s b).
Proof.
  intros Hwf Ha Hp Ht Hb. pose proof (torus_adj_in c p p' Hwf Ht) as Hin.
  unfold move_agent. destruct (c_multi c) eqn:Em.
  - apply (grid_move_ok c s a p p' pa Ha Hp Ht Hin). rewrite Em. discriminate.
  - rewrite Ht, (Hb eq_refl).
    apply (grid_move_ok c s a p' p' pa Ha Hp (torus_adj_inb c p' Hin) Hin).
    intros _. apply blocked_false_free; [apply Hb; reflexivity|apply (ag_single c s Ha Em)].
Qed.

(* every outcome of move_agent: Ok with the postcondition, or one of two rejections with s' = s *)
Lemma move_cases c s a p pa s' r :
  wf c -> Agree c s -> pos s a = Some pa -> move_agent c s a p = (s', r) ->
  (r = Ok [] /\ Agree c s' /\ exists p', torus_adj c p = Some p' /\ pos s' a = Some p' /\
      (c_multi c = false -> blocked s a p' = false) /\ (forall b, b <> a -> pos s' b = pos s b)) \/
  (s' = s /\ r = Err E_OOB /\ torus_adj c p = None) \/
  (s' = s /\ r = Err E_CELL_NOT_EMPTY /\ c_multi c = false /\
      exists p', torus_adj c p = Some p' /\ blocked s a p' = true).
Proof.
  intros Hwf Ha Hp Hm. destruct (torus_adj c p) as [p'|] eqn:Ht.
  - destruct (c_multi c) eqn:Em.
    + destruct (move_ok c s a p p' pa Hwf Ha Hp Ht) as (s2 & Hmo & Ha2 & Hp2 & Hoth); [rewrite Em; discriminate|].
      rewrite Hmo in Hm. inversion Hm. subst. left. split; [reflexivity|]. split; [exact Ha2|].
      exists p'. split; [reflexivity|]. split; [exact Hp2|]. split; [discriminate|exact Hoth].
    + destruct (blocked s a p') eqn:Eb.
      * unfold move_agent in Hm. rewrite Em, Ht, Eb in Hm. inversion Hm. subst.
        right. right. repeat split. exists p'. split; [reflexivity|exact Eb].
      * destruct (move_ok c s a p p' pa Hwf Ha Hp Ht) as (s2 & Hmo & Ha2 & Hp2 & Hoth); [intros _; exact Eb|].
        rewrite Hmo in Hm. inversion Hm. subst. left. split; [reflexivity|]. split; [exact Ha2|].
        exists p'. split; [reflexivity|]. split; [exact Hp2|]. split; [intros _; exact Eb|exact Hoth].
  - unfold move_agent, grid_move_agent in Hm. rewrite Ht in Hm.
    destruct (c_multi c); inversion Hm; subst; right; left; repeat split.
Qed.

(* ---- swap_pos ---- *)
Lemma cell_empty_if_no_pos c s q : Agree c s -> (forall x, pos s x <> Some q) -> grid s q = [].
Proof.
  intros Ha H. destruct (grid s q) as [|x t] eqn:E; [reflexivity|].
  exfalso. apply (H x). apply (ag_pos c s Ha). rewrite E. left. reflexivity.
Qed.

Lemma pos_inj_single c s x y q :
  Agree c s -> c_multi c = false -> pos s x = Some q -> pos s y = Some q -> x = y.
Proof.
  intros Ha Hs Hx Hy. pose proof (agree_single_cell c s x q Ha Hs Hx) as Hc.
  apply (ag_pos c s Ha) in Hy. rewrite Hc in Hy. destruct Hy as [H|[]]. exact H.
Qed.

Lemma swap_cases c s a b s' r :
  Agree c s -> swap_pos c s a b = (s', r) ->
  (r = Ok [] /\ Agree c s' /\ exists pa pb, pos s a = Some pa /\ pos s b = Some pb /\
      pos s' a = Some pb /\ pos s' b = Some pa /\
      (forall x, x <> a -> x <> b -> pos s' x = pos s x)) \/
  (s' = s /\ r = Err E_NOT_ON_GRID /\ (pos s a = None \/ pos s b = None)).
Proof.
  intros Ha Hsw. unfold swap_pos in Hsw.
  destruct (pos s a) as [pa|] eqn:Hpa; [|inversion Hsw; subst; right; repeat split; left; reflexivity].
  destruct (pos s b) as [pb|] eqn:Hpb; [|inversion Hsw; subst; right; repeat split; right; reflexivity].
  left. destruct (coord_eqb pa pb) eqn:E.
  - apply coord_eqb_spec in E. subst pb. inversion Hsw. subst.
    split; [reflexivity|]. split; [exact Ha|]. exists pa, pa.
    split; [reflexivity|]. split; [reflexivity|]. split; [exact Hpa|]. split; [exact Hpb|]. reflexivity.
  - assert (Hab : a <> b) by (intros ->; rewrite Hpa in Hpb; inversion Hpb; subst; rewrite coord_eqb_refl in E; discriminate).
    assert (Hba : b <> a) by (intros H; apply Hab; symmetry; exact H).
    assert (Hne : pa <> pb) by (intros ->; rewrite coord_eqb_refl in E; discriminate).
    (* remove a *)
    destruct (remove_ok c s a pa Ha Hpa) as (s1 & Hr1 & Hrs1).
    pose proof (removed_agree c s a pa s1 Ha Hpa Hrs1) as Ha1.
    assert (Hpb1 : pos s1 b = Some pb) by (rewrite (removed_pos_other s a pa s1 b Hrs1 Hba); exact Hpb).
    (* remove b *)
    destruct (remove_ok c s1 b pb Ha1 Hpb1) as (s2 & Hr2 & Hrs2).
    pose proof (removed_agree c s1 b pb s2 Ha1 Hpb1 Hrs2) as Ha2.
    assert (Hpos2 : forall x, pos s2 x = if x =? b then None else if x =? a then None else pos s x).
    { intros x. destruct Hrs2 as (_ & Hp2 & _). destruct Hrs1 as (_ & Hp1 & _). rewrite Hp2, Hp1. reflexivity. }
    assert (Hn2a : pos s2 a = None).
    { rewrite Hpos2, Z.eqb_refl. destruct (a =? b); reflexivity. }
    assert (He2 : c_multi c = false -> grid s2 pb = []).
    { intros Hs. apply (cell_empty_if_no_pos c s2 pb Ha2). intros x. rewrite Hpos2.
      destruct (x =? b) eqn:Exb; [discriminate|]. destruct (x =? a) eqn:Exa; [discriminate|].
      intros Hx. apply Z.eqb_neq in Exb. apply Exb. apply (pos_inj_single c s x b pb Ha Hs Hx Hpb). }
    (* place a at pb *)
    destruct (place_ok c s2 a pb Hn2a He2) as (s3 & Hpl3 & Hps3).
    pose proof (placed_agree c s2 a pb s3 Ha2 Hn2a (ag_inb c s Ha b pb Hpb) He2 Hps3) as Ha3.
    assert (Hpos3 : forall x, pos s3 x = if x =? a then Some pb else pos s2 x).
    { destruct Hps3 as (_ & Hp3 & _). exact Hp3. }
    assert (Hn3b : pos s3 b = None).
    { rewrite Hpos3, Hpos2, Z.eqb_refl. apply Z.eqb_neq in Hba. rewrite Hba. reflexivity. }
    assert (He3 : c_multi c = false -> grid s3 pa = []).
    { intros Hs. apply (cell_empty_if_no_pos c s3 pa Ha3). intros x. rewrite Hpos3, Hpos2.
      destruct (x =? a) eqn:Exa; [intros H; inversion H; subst; apply Hne; reflexivity|].
      destruct (x =? b) eqn:Exb; [discriminate|].
      intros Hx. apply Z.eqb_neq in Exa. apply Exa. apply (pos_inj_single c s x a pa Ha Hs Hx Hpa). }
    (* place b at pa *)
    destruct (place_ok c s3 b pa Hn3b He3) as (s4 & Hpl4 & Hps4).
    pose proof (placed_agree c s3 b pa s4 Ha3 Hn3b (ag_inb c s Ha a pa Hpa) He3 Hps4) as Ha4.
    rewrite Hr1 in Hsw. cbn [bind] in Hsw. rewrite Hr2 in Hsw. cbn [bind] in Hsw.
    rewrite Hpl3 in Hsw. cbn [bind] in Hsw. rewrite Hpl4 in Hsw. inversion Hsw. subst s' r.
    split; [reflexivity|]. split; [exact Ha4|]. exists pa, pb.
    split; [reflexivity|]. split; [reflexivity|].
    assert (Hpos4 : forall x, pos s4 x = if x =? b then Some pa else pos s3 x).
    { destruct Hps4 as (_ & Hp4 & _). exact Hp4. }
    split; [|split].
    + rewrite Hpos4, Hpos3, Z.eqb_refl. apply Z.eqb_neq in Hab. rewrite Hab. reflexivity.
    + rewrite Hpos4, Z.eqb_refl. reflexivity.
    + intros x Hxa Hxb. rewrite Hpos4, Hpos3, Hpos2.
      apply Z.eqb_neq in Hxa. apply Z.eqb_neq in Hxb. rewrite Hxa, Hxb. reflexivity.
Qed.

(* ---- move_to_empty ---- *)
Lemma move_to_empty_cases c s a pa smp out s' r :
  Agree c s -> pos s a = Some pa -> move_to_empty c s a smp out = (s', r) ->
  (r = Ok [] /\ Agree c s' /\ out_of_bounds c out = false /\ grid s out = [] /\
      pos s' a = Some out /\ (forall b, b <> a -> pos s' b = pos s b)) \/
  (s' = build_empties c s /\ r = Err E_NO_EMPTY /\
      forall q, out_of_bounds c q = false -> grid s q <> []) \/
  (s' = build_empties c s /\ r = Illegal).
Proof.
  intros Ha Hp Hm. unfold move_to_empty in Hm.
  pose proof (build_empties_agree c s Ha) as Ha0.
  set (s0 := build_empties c s) in *.
  assert (Hg0 : grid s0 = grid s) by apply build_empties_grid.
  assert (Hp0 : pos s0 = pos s) by apply build_empties_pos.
  assert (Hb0 : built s0 = true) by apply build_empties_built.
  destruct (Z.of_nat (length (empties s0)) =? 0) eqn:En.
  - inversion Hm. subst. right. left. split; [reflexivity|]. split; [reflexivity|].
    intros q Hq Hnil. apply Z.eqb_eq in En.
    assert (In q (empties s0)) as Hin by (apply (ag_emp c s0 Ha0 Hb0); rewrite Hg0; tauto).
    destruct (empties s0); [destruct Hin|cbn [length] in En; lia].
  - match type of Hm with (if ?L then _ else _) = _ => destruct L eqn:El end.
    + assert (Hout : out_of_bounds c out = false /\ grid s out = []).
      { destruct smp.
        - apply andb_true_iff in El. destruct El as [E1 E2]. apply negb_true_iff in E1.
          unfold is_cell_empty in E2. apply is_nil_true in E2. rewrite Hg0 in E2. tauto.
        - apply cmemb_In in El. apply (ag_emp c s0 Ha0 Hb0) in El. rewrite Hg0 in El. exact El. }
      destruct Hout as [Hin Hnil].
      assert (Hp' : pos s0 a = Some pa) by (rewrite Hp0; exact Hp).
      destruct (remove_place_ok c s0 a pa out Ha0 Hp' Hin) as (s1 & s2 & Hr & Hrs & Ha1 & Hpl & Hps & Ha2).
      { intros _ b Hb. rewrite Hg0, Hnil in Hb. destruct Hb. }
      rewrite Hr in Hm. cbn [bind] in Hm. rewrite Hpl in Hm. inversion Hm. subst s' r.
      left. split; [reflexivity|]. split; [exact Ha2|]. split; [exact Hin|]. split; [exact Hnil|].
      split; [apply (placed_pos_self s1 a out s2 Hps)|].
      intros b Hne. rewrite (placed_pos_other s1 a out s2 b Hps Hne), (removed_pos_other s0 a pa s1 b Hrs Hne), Hp0.
      reflexivity.
    + inversion Hm. subst. right. right. split; reflexivity.
Qed.

(* ---- move_agent_to_one_of ---- *)
Lemma move_one_of_cases c s a pa cells sl he out s' r :
  wf c -> Agree c s -> pos s a = Some pa -> move_agent_to_one_of c s a cells sl he out = (s', r) ->
  (* moved *)
  (r = Ok [] /\ Agree c s' /\ cells <> [] /\ In out cells /\
     (sl = SelClosest -> forall q, In q cells -> dist2 c out pa <= dist2 c q pa) /\
     exists p', torus_adj c out = Some p' /\ pos s' a = Some p' /\
       (c_multi c = false -> blocked s a p' = false) /\ (forall b, b <> a -> pos s' b = pos s b)) \/
  (* nothing to do *)
  (s' = s /\ cells = [] /\ exists w, r = Ok [w]) \/
  (* rejected, state untouched *)
  (s' = s /\ (exists k, r = Err k) ) \/
  (s' = s /\ r = Illegal).
Proof.
  intros Hwf Ha Hp Hm. unfold move_agent_to_one_of in Hm.
  destruct cells as [|c0 ct].
  - destruct he; inversion Hm; subst.
    + right. left. split; [reflexivity|]. split; [reflexivity|]. exists 0. reflexivity.
    + right. left. split; [reflexivity|]. split; [reflexivity|]. exists 1. reflexivity.
    + right. right. left. split; [reflexivity|]. exists E_NO_POSITIONS. reflexivity.
  - set (cells := c0 :: ct) in *.
    assert (Hmove : forall (Hcl : sl = SelClosest -> forall q, In q cells -> dist2 c out pa <= dist2 c q pa),
               In out cells -> move_agent c s a out = (s', r) ->
               (r = Ok [] /\ Agree c s' /\ cells <> [] /\ In out cells /\
                 (sl = SelClosest -> forall q, In q cells -> dist2 c out pa <= dist2 c q pa) /\
                 exists p', torus_adj c out = Some p' /\ pos s' a = Some p' /\
                   (c_multi c = false -> blocked s a p' = false) /\ (forall b, b <> a -> pos s' b = pos s b)) \/
               (s' = s /\ cells = [] /\ exists w, r = Ok [w]) \/
               (s' = s /\ (exists k, r = Err k)) \/ (s' = s /\ r = Illegal)).
    { intros Hcl Hin Hmv.
      destruct (move_cases c s a out pa s' r Hwf Ha Hp Hmv) as [(Hr & Ha' & p' & Ht & Hp' & Hb & Ho)|[(Hs & Hr & _)|(Hs & Hr & _)]].
      - left. split; [exact Hr|]. split; [exact Ha'|]. split; [discriminate|]. split; [exact Hin|].
        split; [exact Hcl|]. exists p'. split; [exact Ht|]. split; [exact Hp'|]. split; [exact Hb|exact Ho].
      - right. right. left. split; [exact Hs|]. exists E_OOB. exact Hr.
      - right. right. left. split; [exact Hs|]. exists E_CELL_NOT_EMPTY. exact Hr. }
    destruct sl.
    + destruct (memb coord_eqb out cells) eqn:Em.
      * apply cmemb_In in Em. apply Hmove; [discriminate|exact Em|exact Hm].
      * inversion Hm. subst. right. right. right. split; reflexivity.
    + rewrite Hp in Hm.
      match type of Hm with (if ?L then _ else _) = _ => destruct L eqn:El end.
      * apply andb_true_iff in El. destruct El as [Em Hall]. apply cmemb_In in Em.
        rewrite forallb_forall in Hall.
        apply Hmove; [|exact Em|exact Hm].
        intros _ q Hq. apply Z.leb_le. apply Hall. exact Hq.
      * inversion Hm. subst. right. right. right. split; reflexivity.
    + inversion Hm. subst. right. right. left. split; [reflexivity|]. exists E_BAD_SELECTION. reflexivity.
Qed.

(* ---- place_agent of an unplaced agent at in-grid coordinates ---- *)
Lemma place_cases c s a p s' r :
  Agree c s -> pos s a = None -> out_of_bounds c p = false -> place c s a p = (s', r) ->
  (r = Ok [] /\ Agree c s' /\ pos s' a = Some p /\ (forall b, b <> a -> pos s' b = pos s b) /\
     (c_multi c = false -> grid s p = [])) \/
  (s' = s /\ r = Err E_CELL_NOT_EMPTY /\ c_multi c = false /\ grid s p <> []).
Proof.
  intros Ha Hn Hin Hpl.
  assert (Hdec : (c_multi c = false -> grid s p = []) \/ (c_multi c = false /\ grid s p <> [])).
  { destruct (c_multi c); [left; discriminate|]. destruct (grid s p); [left; reflexivity|right; split; [reflexivity|discriminate]]. }
  destruct Hdec as [He|[Hs Hne]].
  - destruct (place_ok c s a p Hn He) as (s2 & Hpl2 & Hps). rewrite Hpl2 in Hpl. inversion Hpl. subst.
    left. split; [reflexivity|]. split; [exact (placed_agree c s a p s' Ha Hn Hin He Hps)|].
    split; [apply (placed_pos_self s a p s' Hps)|]. split; [|exact He].
    intros b Hb. apply (placed_pos_other s a p s' b Hps Hb).
  - unfold place in Hpl. rewrite Hs in Hpl. unfold place_single, is_cell_empty in Hpl.
    apply is_nil_false in Hne. rewrite Hne in Hpl. inversion Hpl. subst.
    right. split; [reflexivity|]. split; [reflexivity|]. split; [exact Hs|]. apply is_nil_false. exact Hne.
Qed.

(* ------------------------------------------------------------------ every step *)
Definition rejected (r : res) : Prop := match r with Ok _ => False | _ => True end.

Lemma placed_true s a : placed s a = true -> exists p, pos s a = Some p.
Proof. unfold placed. destruct (pos s a) as [p|]; [exists p; reflexivity|discriminate]. Qed.

Lemma placed_false s a : placed s a = false -> pos s a = None.
Proof. unfold placed. destruct (pos s a); [discriminate|reflexivity]. Qed.

(* invariant preserved; a call that does not return normally leaves the state as it was,
   except that the lazily built empties set may have been built *)
Lemma step_sound c s o s' r :
  wf c -> Agree c s -> step c s o = (s', r) ->
  Agree c s' /\ (rejected r -> s' = s \/ s' = build_empties c s).
Proof.
  intros Hwf Ha Hst. destruct o; cbn [step] in Hst.
  - (* Place *)
    destruct (placed s a || out_of_bounds c p) eqn:E.
    + inversion Hst. subst. split; [exact Ha|]. intros _. left. reflexivity.
    + apply orb_false_iff in E. destruct E as [E1 E2]. apply placed_false in E1.
      destruct (place_cases c s a p s' r Ha E1 E2 Hst) as [(Hr & Ha' & _)|(Hs & Hr & _)].
      * subst r. split; [exact Ha'|]. intros [].
      * subst s'. split; [exact Ha|]. intros _. left. reflexivity.
  - (* Remove *)
    destruct (placed s a) eqn:E.
    + apply placed_true in E. destruct E as [p Hp].
      destruct (remove_ok c s a p Ha Hp) as (s1 & Hr & Hrs). rewrite Hr in Hst. inversion Hst. subst.
      split; [exact (removed_agree c s a p s' Ha Hp Hrs)|]. intros [].
    + inversion Hst. subst. split; [exact Ha|]. intros _. left. reflexivity.
  - (* Move *)
    destruct (placed s a) eqn:E.
    + apply placed_true in E. destruct E as [pa Hp].
      destruct (move_cases c s a p pa s' r Hwf Ha Hp Hst) as [(Hr & Ha' & _)|[(Hs & Hr & _)|(Hs & Hr & _)]].
      * subst r. split; [exact Ha'|]. intros [].
      * subst s'. split; [exact Ha|]. intros _. left. reflexivity.
      * subst s'. split; [exact Ha|]. intros _. left. reflexivity.
    + inversion Hst. subst. split; [exact Ha|]. intros _. left. reflexivity.
  - (* Swap *)
    destruct (swap_cases c s a b s' r Ha Hst) as [(Hr & Ha' & _)|(Hs & Hr & _)].
    + subst r. split; [exact Ha'|]. intros [].
    + subst s'. split; [exact Ha|]. intros _. left. reflexivity.
  - (* MoveToEmpty *)
    destruct (placed s a) eqn:E.
    + apply placed_true in E. destruct E as [pa Hp].
      destruct (move_to_empty_cases c s a pa sampling out s' r Ha Hp Hst) as [(Hr & Ha' & _)|[(Hs & Hr & _)|(Hs & Hr)]].
      * subst r. split; [exact Ha'|]. intros [].
      * subst s'. split; [apply build_empties_agree; exact Ha|]. intros _. right. reflexivity.
      * subst s'. split; [apply build_empties_agree; exact Ha|]. intros _. right. reflexivity.
    + inversion Hst. subst. split; [exact Ha|]. intros _. left. reflexivity.
  - (* MoveToOneOf *)
    destruct (placed s a) eqn:E.
    + apply placed_true in E. destruct E as [pa Hp].
      destruct (move_one_of_cases c s a pa cells sl he out s' r Hwf Ha Hp Hst)
        as [(Hr & Ha' & _)|[(Hs & _ & w & Hr)|[(Hs & _)|(Hs & _)]]].
      * subst r. split; [exact Ha'|]. intros [].
      * subst s' r. split; [exact Ha|]. intros [].
      * subst s'. split; [exact Ha|]. intros _. left. reflexivity.
      * subst s'. split; [exact Ha|]. intros _. left. reflexivity.
    + inversion Hst. subst. split; [exact Ha|]. intros _. left. reflexivity.
  - inversion Hst. subst. split; [apply build_empties_agree; exact Ha|]. intros [].
  - inversion Hst. subst. split; [exact Ha|]. intros [].
  - destruct (out_of_bounds c p); inversion Hst; subst; (split; [exact Ha|]); intros _; left; reflexivity.
  - inversion Hst. subst. split; [apply build_empties_agree; exact Ha|]. intros [].
  - destruct (view_index c s p); inversion Hst; subst; (split; [exact Ha|]); intros _; left; reflexivity.
  - inversion Hst. subst. split; [exact Ha|]. intros [].
  - inversion Hst. subst. split; [exact Ha|]. intros [].
  - inversion Hst. subst. split; [exact Ha|]. intros [].
  - inversion Hst. subst. split; [exact Ha|]. intros _. left. reflexivity.
  - inversion Hst. subst. split; [exact Ha|]. intros _. left. reflexivity.
Qed.

Lemma step_agree c s o : wf c -> Agree c s -> Agree c (fst (step c s o)).
Proof.
  intros Hwf Ha. destruct (step c s o) as [s' r] eqn:E. cbn [fst].
  apply (step_sound c s o s' r Hwf Ha E).
Qed.

Lemma run_agree_from c ops : wf c -> forall s, Agree c s -> Agree c (run c s ops).
Proof.
  intros Hwf. induction ops as [|o t IH]; intros s Ha; cbn [run]; [exact Ha|].
  apply IH. apply step_agree; assumption.
Qed.

(* C08_agree: after ANY history the state satisfies Agree *)
Lemma run_agree c ops : wf c -> Agree c (run c init ops).
Proof. intros Hwf. apply run_agree_from; [exact Hwf|apply init_agree]. Qed.

(* ------------------------------------------------------------------ the views *)
Lemma view_empties_exact c s :
  Agree c s -> view_empties c s = filter (is_cell_empty s) (all_cells c).
Proof.
  intros Ha. unfold view_empties. apply filter_ext_in. intros p Hp.
  destruct (built s) eqn:Eb; [|reflexivity].
  apply all_cells_In in Hp. unfold is_cell_empty.
  destruct (memb coord_eqb p (empties s)) eqn:Em.
  - apply cmemb_In in Em. apply (ag_emp c s Ha Eb) in Em. destruct Em as [_ Em]. rewrite Em. reflexivity.
  - destruct (grid s p) eqn:Eg; [|reflexivity].
    assert (In p (empties s)) as Hin by (apply (ag_emp c s Ha Eb); tauto).
    apply cmemb_In in Hin. congruence.
Qed.

Lemma view_empties_build c s : view_empties c (build_empties c s) = view_empties c s.
Proof.
  unfold build_empties. destruct (built s) eqn:Eb; [reflexivity|].
  unfold view_empties. cbn [built empties]. rewrite Eb. apply filter_ext_in. intros p Hp.
  change (is_cell_empty {| grid := grid s; pos := pos s; built := true;
                           empties := filter (is_cell_empty s) (all_cells c); mask := mask s |} p)
    with (is_cell_empty s p).
  destruct (memb coord_eqb p (filter (is_cell_empty s) (all_cells c))) eqn:Em.
  - apply cmemb_In in Em. apply filter_In in Em. destruct Em as [_ Em]. exact (eq_sym Em).
  - destruct (is_cell_empty s p) eqn:Ee; [|reflexivity].
    assert (In p (filter (is_cell_empty s) (all_cells c))) as Hin by (apply filter_In; tauto).
    apply cmemb_In in Hin. congruence.
Qed.

Lemma view_mask_exact c s :
  Agree c s -> view_mask c s = map (is_cell_empty s) (all_cells c).
Proof.
  intros Ha. unfold view_mask. apply map_ext_in. intros p Hp. apply all_cells_In in Hp.
  apply (ag_mask c s Ha p Hp).
Qed.

Lemma view_exists_exact c s :
  Agree c s -> view_exists c s = existsb (is_cell_empty s) (all_cells c).
Proof.
  intros Ha. unfold view_exists.
  pose proof (build_empties_agree c s Ha) as Ha0.
  pose proof (ag_emp c _ Ha0 (build_empties_built c s)) as He. rewrite build_empties_grid in He.
  destruct (existsb (is_cell_empty s) (all_cells c)) eqn:Ex.
  - apply existsb_exists in Ex. destruct Ex as [p [Hp He2]]. apply all_cells_In in Hp.
    unfold is_cell_empty in He2. apply is_nil_true in He2.
    assert (In p (empties (build_empties c s))) as Hin by (apply He; tauto).
    destruct (empties (build_empties c s)); [destruct Hin|]. cbn [length]. apply Z.ltb_lt. lia.
  - destruct (empties (build_empties c s)) as [|p t] eqn:El; [reflexivity|].
    exfalso. assert (In p (p :: t)) as Hin by (left; reflexivity). apply He in Hin. destruct Hin as [H1 H2].
    assert (existsb (is_cell_empty s) (all_cells c) = true).
    { apply existsb_exists. exists p. split; [apply all_cells_In; exact H1|].
      unfold is_cell_empty. rewrite H2. reflexivity. }
    congruence.
Qed.

(* the whole-state observation does not see whether empties has been built *)
Lemma obs_state_build c n s : obs_state c n (build_empties c s) = obs_state c n s.
Proof.
  unfold obs_state, obs_pos, view_mask.
  rewrite view_empties_build, build_empties_grid, build_empties_pos, build_empties_mask. reflexivity.
Qed.

(* C18, legacy-grid sites: a call that raises (or whose recorded outcome is rejected as illegal,
   or that is skipped) leaves the observation of the whole state unchanged *)
Lemma step_atomic c n s o s' r :
  wf c -> Agree c s -> step c s o = (s', r) -> rejected r -> obs_state c n s' = obs_state c n s.
Proof.
  intros Hwf Ha Hst Hr. destruct (step_sound c s o s' r Hwf Ha Hst) as [_ H].
  destruct (H Hr) as [->| ->]; [reflexivity|apply obs_state_build].
Qed.

(* ------------------------------------------------------------------ toroidal distance *)
(* the per-axis distance of _distance_squared (as repaired) is the distance between residues *)
Lemma axis_dist_mod n d : 0 < n -> axis_dist true n d = Z.min (d mod n) (n - d mod n).
Proof.
  intros Hn. unfold axis_dist. cbv zeta.
  pose proof (Z.mod_pos_bound d n Hn) as Hb.
  destruct (Z_le_gt_dec 0 d) as [Hd|Hd].
  - rewrite Z.abs_eq by exact Hd. reflexivity.
  - rewrite Z.abs_neq by lia.
    destruct (Z.eq_dec (d mod n) 0) as [Hz|Hnz].
    + rewrite (Z.mod_opp_l_z d n) by (try lia; exact Hz). rewrite Hz. lia.
    + rewrite (Z.mod_opp_l_nz d n) by (try lia; exact Hnz). lia.
Qed.

(* ... hence it does not change when a coordinate is wrapped ... *)
Lemma axis_dist_wrap n x y : 0 < n -> axis_dist true n (x mod n - y) = axis_dist true n (x - y).
Proof.
  intros Hn. rewrite !axis_dist_mod by exact Hn. rewrite Zminus_mod_idemp_l. reflexivity.
Qed.

(* ... and it is the least |d + k n| over all wraps k (and is attained) *)
Lemma axis_dist_least n d k : 0 < n -> axis_dist true n d <= Z.abs (d + k * n).
Proof.
  intros Hn. rewrite axis_dist_mod by exact Hn.
  pose proof (Z.mod_pos_bound d n Hn) as Hb.
  pose proof (Z.div_mod d n ltac:(lia)) as Hdm.
  set (x := d mod n) in *. set (q := d / n) in *.
  assert (d + k * n = n * (q + k) + x) as -> by lia.
  destruct (Z_le_gt_dec 0 (q + k)) as [Hm|Hm].
  - assert (0 <= n * (q + k)) by (apply Z.mul_nonneg_nonneg; lia). lia.
  - assert (n * (q + k) <= n * (-1)) by (apply Z.mul_le_mono_nonneg_l; lia). lia.
Qed.

Lemma axis_dist_attained n d : 0 < n -> exists k, axis_dist true n d = Z.abs (d + k * n).
Proof.
  intros Hn. rewrite axis_dist_mod by exact Hn.
  pose proof (Z.mod_pos_bound d n Hn) as Hb.
  pose proof (Z.div_mod d n ltac:(lia)) as Hdm.
  destruct (Z_le_gt_dec (d mod n) (n - d mod n)) as [Hle|Hgt].
  - exists (- (d / n)). rewrite Z.min_l by lia. lia.
  - exists (- (d / n) - 1). rewrite Z.min_r by lia. lia.
Qed.

Lemma dist2_torus_adj c p p' q :
  wf c -> torus_adj c p = Some p' -> dist2 c p' q = dist2 c p q.
Proof.
  intros [Hw Hh] Ht. unfold torus_adj in Ht.
  destruct (out_of_bounds c p); cbn [negb] in Ht; [|inversion Ht; reflexivity].
  destruct (c_torus c) eqn:Et; cbn [negb] in Ht; [|discriminate].
  inversion Ht. subst p'. unfold dist2. rewrite Et. cbn [fst snd].
  rewrite (axis_dist_wrap (c_w c) (fst p) (fst q) Hw), (axis_dist_wrap (c_h c) (snd p) (snd q) Hh).
  reflexivity.
Qed.

(* ------------------------------------------------------------------ grid.agents / iteration *)
Lemma NoDup_map_inj {A B} (f : A -> B) l :
  (forall x y, In x l -> In y l -> f x = f y -> x = y) -> NoDup l -> NoDup (map f l).
Proof.
  induction l as [|x t IH]; intros Hinj Hnd; cbn [map]; [constructor|].
  inversion Hnd as [|? ? Hx Ht]. subst. constructor.
  - intros H. apply in_map_iff in H. destruct H as [y [Hy Hin]].
    assert (y = x) by (apply Hinj; [right; exact Hin|left; reflexivity|exact Hy]). subst. contradiction.
  - apply IH; [|exact Ht]. intros a b Ha Hb. apply Hinj; right; assumption.
Qed.

Lemma zrange_NoDup lo hi : NoDup (zrange lo hi).
Proof.
  unfold zrange. apply NoDup_map_inj; [|apply seq_NoDup].
  intros x y _ _ H. lia.
Qed.

Lemma NoDup_flat_map {A B} (f : A -> list B) l :
  NoDup l -> (forall x, In x l -> NoDup (f x)) ->
  (forall x y b, In x l -> In y l -> In b (f x) -> In b (f y) -> x = y) ->
  NoDup (flat_map f l).
Proof.
  induction l as [|x t IH]; intros Hnd Hf Hdis; cbn [flat_map]; [constructor|].
  inversion Hnd as [|? ? Hx Ht]. subst.
  assert (NoDup (flat_map f t)) as IHt.
  { apply IH; [exact Ht| |].
    - intros y Hy. apply Hf. right. exact Hy.
    - intros a b e Ha Hb. apply Hdis; right; assumption. }
  assert (NoDup (f x)) as Hfx by (apply Hf; left; reflexivity).
  assert (forall b, In b (f x) -> ~ In b (flat_map f t)) as Hsep.
  { intros b Hb Hin. apply in_flat_map in Hin. destruct Hin as [y [Hy Hby]].
    assert (x = y) by (apply (Hdis x y b); [left; reflexivity|right; exact Hy|exact Hb|exact Hby]).
    subst. contradiction. }
  clear - IHt Hfx Hsep. induction (f x) as [|b u IHu]; cbn [app]; [exact IHt|].
  inversion Hfx as [|? ? Hb Hu]. subst. constructor.
  - rewrite in_app_iff. intros [H|H]; [contradiction|]. apply (Hsep b); [left; reflexivity|exact H].
  - apply IHu; [exact Hu|]. intros e He. apply Hsep. right. exact He.
Qed.

Lemma all_cells_NoDup c : NoDup (all_cells c).
Proof.
  unfold all_cells. apply NoDup_flat_map.
  - apply zrange_NoDup.
  - intros x _. apply NoDup_map_inj; [|apply zrange_NoDup]. intros a b _ _ H. inversion H. reflexivity.
  - intros x y b _ _ Hx Hy. apply in_map_iff in Hx. apply in_map_iff in Hy.
    destruct Hx as [u [<- _]]. destruct Hy as [v [Hv _]]. inversion Hv. reflexivity.
Qed.

(* grid.agents / iteration list every placed agent exactly once and nobody else *)
Lemma view_agents_In c s a : Agree c s -> (In a (view_agents c s) <-> exists p, pos s a = Some p).
Proof.
  intros Ha. unfold view_agents. rewrite in_flat_map. split.
  - intros [p [_ Hin]]. exists p. apply (ag_pos c s Ha). exact Hin.
  - intros [p Hp]. exists p. split; [apply all_cells_In, (ag_inb c s Ha a p Hp)|apply (ag_pos c s Ha); exact Hp].
Qed.

Lemma view_agents_NoDup c s : Agree c s -> NoDup (view_agents c s).
Proof.
  intros Ha. unfold view_agents. apply NoDup_flat_map.
  - apply all_cells_NoDup.
  - intros p _. apply (ag_nodup c s Ha).
  - intros p q a _ _ Hp Hq. apply (ag_pos c s Ha) in Hp. apply (ag_pos c s Ha) in Hq. congruence.
Qed.

(* an agent is in exactly one cell: the one its pos names *)
Lemma one_cell c s a p q : Agree c s -> In a (grid s p) -> In a (grid s q) -> p = q.
Proof.
  intros Ha Hp Hq. apply (ag_pos c s Ha) in Hp. apply (ag_pos c s Ha) in Hq. congruence.
Qed.

(* ================================================================== statements exported to C08 *)
Definition spec_empties (c : cfg) (s : state) : list coord := filter (is_cell_empty s) (all_cells c).

Lemma agree_history c ops : wf c -> Agree c (run c init ops).
Proof. apply run_agree. Qed.

Lemma pos_one_cell_history c ops a :
  wf c -> let s := run c init ops in
  (forall p, pos s a = Some p <-> In a (grid s p)) /\
  (pos s a = None <-> forall q, ~ In a (grid s q)) /\
  (forall p q, In a (grid s p) -> In a (grid s q) -> p = q) /\
  (forall p, NoDup (grid s p)) /\
  (forall p, pos s a = Some p -> out_of_bounds c p = false).
Proof.
  intros Hwf s. pose proof (run_agree c ops Hwf) as Ha. fold s in Ha.
  split; [apply (ag_pos c s Ha)|]. split; [|split; [|split]].
  - split.
    + intros Hn q Hq. apply (ag_pos c s Ha) in Hq. congruence.
    + intros H. destruct (pos s a) as [p|] eqn:E; [|reflexivity].
      exfalso. apply (H p). apply (ag_pos c s Ha). exact E.
  - intros p q. apply (one_cell c s a p q Ha).
  - apply (ag_nodup c s Ha).
  - intros p. apply (ag_inb c s Ha).
Qed.

Lemma single_capacity_history c ops p :
  wf c -> c_multi c = false -> (length (grid (run c init ops) p) <= 1)%nat.
Proof. intros Hwf Hs. apply (ag_single c _ (run_agree c ops Hwf) Hs). Qed.

(* all emptiness views are the same function of the cell contents, at every point of every
   history, whether or not empties has been built (both values of the flag are covered: the
   statement is about the state as it is and about the state after forcing the build) *)
Lemma views_history c ops :
  wf c -> let s := run c init ops in
  view_empties c s = spec_empties c s /\
  view_empties c (build_empties c s) = spec_empties c s /\
  (forall p, In p (spec_empties c s) <-> out_of_bounds c p = false /\ grid s p = []) /\
  view_mask c s = map (is_cell_empty s) (all_cells c) /\
  view_exists c s = existsb (is_cell_empty s) (all_cells c) /\
  (forall p, out_of_bounds c p = false -> mask s p = is_cell_empty s p) /\
  (forall p, view_index c s p = option_map (grid s) (torus_adj c p)) /\
  view_iter c s = map (grid s) (all_cells c) /\
  map fst (view_coord_iter c s) = view_iter c s /\ map snd (view_coord_iter c s) = all_cells c /\
  view_agents c s = concat (view_iter c s).
Proof.
  intros Hwf s. pose proof (run_agree c ops Hwf) as Ha. fold s in Ha.
  split; [apply view_empties_exact; exact Ha|].
  split; [rewrite view_empties_build; apply view_empties_exact; exact Ha|].
  split. { intros p. unfold spec_empties. rewrite filter_In, all_cells_In. unfold is_cell_empty. rewrite is_nil_true. tauto. }
  split; [apply view_mask_exact; exact Ha|].
  split; [apply view_exists_exact; exact Ha|].
  split; [apply (ag_mask c s Ha)|].
  split. { intros p. unfold view_index. destruct (torus_adj c p); reflexivity. }
  split; [reflexivity|].
  unfold view_coord_iter, view_iter, view_agents. rewrite !map_map. cbn [fst snd].
  split; [reflexivity|]. split; [apply map_id|]. apply flat_map_concat_map.
Qed.

Lemma agents_once_history c ops :
  wf c -> let s := run c init ops in
  NoDup (view_agents c s) /\ forall a, In a (view_agents c s) <-> exists p, pos s a = Some p.
Proof.
  intros Hwf s. pose proof (run_agree c ops Hwf) as Ha. fold s in Ha.
  split; [apply view_agents_NoDup; exact Ha|]. intros a. apply view_agents_In. exact Ha.
Qed.

(* movers *)
Lemma torus_wrap_step c s a pa p s' r :
  wf c -> Agree c s -> c_torus c = true -> pos s a = Some pa ->
  let target := (fst p mod c_w c, snd p mod c_h c) in
  (c_multi c = false -> blocked s a target = false) ->
  step c s (Move a p) = (s', r) ->
  r = Ok [] /\ pos s' a = Some target /\ out_of_bounds c target = false /\
  (forall b, b <> a -> pos s' b = pos s b).
Proof.
  intros Hwf Ha Ht Hp target Hb Hst. cbn [step] in Hst. unfold placed in Hst. rewrite Hp in Hst.
  pose proof (torus_adj_torus c p Hwf Ht) as Hta. fold target in Hta.
  destruct (move_ok c s a p target pa Hwf Ha Hp Hta Hb) as (s2 & Hm & _ & Hp2 & Ho).
  rewrite Hm in Hst. inversion Hst. subst. split; [reflexivity|]. split; [exact Hp2|].
  split; [apply (torus_adj_in c p target Hwf Hta)|exact Ho].
Qed.

Lemma bounded_reject_step c s a p :
  c_torus c = false -> out_of_bounds c p = true -> placed s a = true ->
  step c s (Move a p) = (s, Err E_OOB) /\ step c s (Index p) = (s, Err E_OOB).
Proof.
  intros Ht Ho Hp. pose proof (torus_adj_bounded c p Ht Ho) as Hta. split.
  - cbn [step]. rewrite Hp. unfold move_agent, grid_move_agent. rewrite Hta. destruct (c_multi c); reflexivity.
  - cbn [step]. unfold view_index. rewrite Hta. reflexivity.
Qed.

Lemma in_grid_move_step c s a pa p s' r :
  wf c -> Agree c s -> pos s a = Some pa -> out_of_bounds c p = false ->
  (c_multi c = false -> blocked s a p = false) ->
  step c s (Move a p) = (s', r) ->
  r = Ok [] /\ pos s' a = Some p /\ (forall b, b <> a -> pos s' b = pos s b).
Proof.
  intros Hwf Ha Hp Hin Hb Hst. cbn [step] in Hst. unfold placed in Hst. rewrite Hp in Hst.
  destruct (move_ok c s a p p pa Hwf Ha Hp (torus_adj_inb c p Hin) Hb) as (s2 & Hm & _ & Hp2 & Ho).
  rewrite Hm in Hst. inversion Hst. subst. split; [reflexivity|]. split; [exact Hp2|exact Ho].
Qed.

Lemma single_occupied_reject_step c s a pa p p' :
  c_multi c = false -> pos s a = Some pa -> torus_adj c p = Some p' -> blocked s a p' = true ->
  step c s (Move a p) = (s, Err E_CELL_NOT_EMPTY).
Proof.
  intros Hs Hp Ht Hb. cbn [step]. unfold placed. rewrite Hp. unfold move_agent. rewrite Hs, Ht, Hb. reflexivity.
Qed.

Lemma blocked_spec c s a q :
  Agree c s -> c_multi c = false ->
  (blocked s a q = true <-> exists b, b <> a /\ pos s b = Some q).
Proof.
  intros Ha Hs. unfold blocked. pose proof (ag_single c s Ha Hs q) as Hl. split.
  - destruct (grid s q) as [|b t] eqn:E; [discriminate|]. intros H. apply negb_true_iff, Z.eqb_neq in H.
    exists b. split; [exact H|]. apply (ag_pos c s Ha). rewrite E. left. reflexivity.
  - intros [b [Hne Hb]]. rewrite (agree_single_cell c s b q Ha Hs Hb).
    apply negb_true_iff, Z.eqb_neq. exact Hne.
Qed.

Lemma move_to_empty_step c s a pa smp out s' r :
  Agree c s -> pos s a = Some pa -> step c s (MoveToEmpty a smp out) = (s', r) ->
  (forall l, r = Ok l -> out_of_bounds c out = false /\ grid s out = [] /\ pos s' a = Some out /\
                         (forall b, b <> a -> pos s' b = pos s b)) /\
  (forall k, r = Err k -> k = E_NO_EMPTY /\ forall q, out_of_bounds c q = false -> grid s q <> []).
Proof.
  intros Ha Hp Hst. cbn [step] in Hst. unfold placed in Hst. rewrite Hp in Hst.
  destruct (move_to_empty_cases c s a pa smp out s' r Ha Hp Hst) as [(Hr & _ & H1 & H2 & H3 & H4)|[(_ & Hr & H)|(_ & Hr)]];
    subst r; split; intros x Hx; try discriminate.
  - repeat split; assumption.
  - inversion Hx. subst. split; [reflexivity|exact H].
Qed.

Lemma move_to_empty_full_step c s a smp out :
  Agree c s -> placed s a = true -> (forall q, out_of_bounds c q = false -> grid s q <> []) ->
  step c s (MoveToEmpty a smp out) = (build_empties c s, Err E_NO_EMPTY).
Proof.
  intros Ha Hp Hfull. cbn [step]. rewrite Hp. unfold move_to_empty.
  pose proof (build_empties_agree c s Ha) as Ha0.
  pose proof (ag_emp c _ Ha0 (build_empties_built c s)) as He. rewrite build_empties_grid in He.
  destruct (empties (build_empties c s)) as [|q t] eqn:El; [reflexivity|].
  exfalso. assert (In q (q :: t)) as Hin by (left; reflexivity). apply He in Hin.
  destruct Hin as [H1 H2]. exact (Hfull q H1 H2).
Qed.

Lemma move_one_of_step c s a pa cells sl he out s' l :
  wf c -> Agree c s -> pos s a = Some pa -> cells <> [] ->
  step c s (MoveToOneOf a cells sl he out) = (s', Ok l) ->
  exists offered landing,
    In offered cells /\ torus_adj c offered = Some landing /\ pos s' a = Some landing /\
    (forall b, b <> a -> pos s' b = pos s b) /\
    (sl = SelClosest ->
       forall q q', In q cells -> torus_adj c q = Some q' -> dist2 c landing pa <= dist2 c q' pa).
Proof.
  intros Hwf Ha Hp Hne Hst. cbn [step] in Hst. unfold placed in Hst. rewrite Hp in Hst.
  destruct (move_one_of_cases c s a pa cells sl he out s' (Ok l) Hwf Ha Hp Hst)
    as [(_ & _ & _ & Hin & Hcl & p' & Ht & Hp' & _ & Ho)|[(_ & Hc & _)|[(_ & k & Hk)|(_ & Hk)]]];
    try contradiction; try discriminate.
  exists out, p'. split; [exact Hin|]. split; [exact Ht|]. split; [exact Hp'|]. split; [exact Ho|].
  intros Hsl q q' Hq Hq'. rewrite (dist2_torus_adj c out p' pa Hwf Ht), (dist2_torus_adj c q q' pa Hwf Hq').
  apply Hcl; assumption.
Qed.

Lemma move_one_of_empty_step c s a he out :
  placed s a = true ->
  step c s (MoveToOneOf a [] SelRandom he out) =
    (s, match he with HNone => Ok [0] | HWarn => Ok [1] | HError => Err E_NO_POSITIONS end).
Proof. intros Hp. cbn [step]. rewrite Hp. destruct he; reflexivity. Qed.

Lemma swap_step c s a b s' r :
  Agree c s -> step c s (Swap a b) = (s', r) ->
  (r = Ok [] /\ pos s' a = pos s b /\ pos s' b = pos s a /\ pos s a <> None /\ pos s b <> None /\
     (forall x, x <> a -> x <> b -> pos s' x = pos s x)) \/
  (s' = s /\ r = Err E_NOT_ON_GRID /\ (pos s a = None \/ pos s b = None)).
Proof.
  intros Ha Hst. cbn [step] in Hst.
  destruct (swap_cases c s a b s' r Ha Hst) as [(Hr & _ & pa & pb & H1 & H2 & H3 & H4 & H5)|H]; [left|right; exact H].
  split; [exact Hr|]. rewrite H1, H2, H3, H4. repeat split; try discriminate. exact H5.
Qed.

(* ================================================================== C18: legacy-grid sites *)
(* every raising call - SingleGrid.place_agent / move_agent onto an occupied cell, out-of-bounds
   targets on a bounded grid, swap_pos with an unplaced agent, move_to_empty without an empty
   cell, move_agent_to_one_of with an invalid selection / handle_empty="error" / a rejected
   chosen position, grid[x, y] out of bounds - leaves the observation of the state unchanged *)
Lemma C18_legacygrid_atomic c n s o s' e :
  wf c -> Agree c s -> step c s o = (s', Err e) -> obs_state c n s' = obs_state c n s.
Proof. intros Hwf Ha Hst. apply (step_atomic c n s o s' (Err e) Hwf Ha Hst). exact I. Qed.

Lemma C18_legacygrid_atomic_illegal c n s o s' :
  wf c -> Agree c s -> step c s o = (s', Illegal) -> obs_state c n s' = obs_state c n s.
Proof. intros Hwf Ha Hst. apply (step_atomic c n s o s' Illegal Hwf Ha Hst). exact I. Qed.

(* the same at every point of every history *)
Lemma C18_legacygrid_atomic_history c n ops o s' e :
  wf c -> step c (run c init ops) o = (s', Err e) ->
  obs_state c n s' = obs_state c n (run c init ops).
Proof. intros Hwf. apply C18_legacygrid_atomic; [exact Hwf|apply run_agree; exact Hwf]. Qed.

(* and, stronger than the observation: positions, contents and mask are literally untouched *)
Lemma C18_legacygrid_atomic_fields c s o s' e :
  wf c -> Agree c s -> step c s o = (s', Err e) ->
  grid s' = grid s /\ pos s' = pos s /\ mask s' = mask s.
Proof.
  intros Hwf Ha Hst. destruct (step_sound c s o s' (Err e) Hwf Ha Hst) as [_ H].
  destruct (H I) as [->| ->]; [repeat split|].
  rewrite build_empties_grid, build_empties_pos, build_empties_mask. repeat split.
Qed.

(* the two halves of move_one_of_step under the names of DESIGN.md *)
Lemma move_one_of_member c s a pa cells sl he out s' l :
  wf c -> Agree c s -> pos s a = Some pa -> cells <> [] ->
  step c s (MoveToOneOf a cells sl he out) = (s', Ok l) ->
  exists offered landing,
    In offered cells /\ torus_adj c offered = Some landing /\ pos s' a = Some landing /\
    (forall b, b <> a -> pos s' b = pos s b).
Proof.
  intros Hwf Ha Hp Hne Hst.
  destruct (move_one_of_step c s a pa cells sl he out s' l Hwf Ha Hp Hne Hst) as (o & ld & H1 & H2 & H3 & H4 & _).
  exists o, ld. repeat split; assumption.
Qed.

Lemma closest_is_nearest c s a pa cells he out s' l :
  wf c -> Agree c s -> pos s a = Some pa -> cells <> [] ->
  step c s (MoveToOneOf a cells SelClosest he out) = (s', Ok l) ->
  exists landing, pos s' a = Some landing /\
    forall q q', In q cells -> torus_adj c q = Some q' -> dist2 c landing pa <= dist2 c q' pa.
Proof.
  intros Hwf Ha Hp Hne Hst.
  destruct (move_one_of_step c s a pa cells SelClosest he out s' l Hwf Ha Hp Hne Hst) as (o & ld & _ & _ & H3 & _ & H5).
  exists ld. split; [exact H3|]. apply H5. reflexivity.
Qed.

(* ================================================================== place / remove at step level *)

Lemma place_step c s a p s' r :
  Agree c s -> pos s a = None -> out_of_bounds c p = false -> step c s (Place a p) = (s', r) ->
  (r = Ok [] /\ pos s' a = Some p /\ (forall b, b <> a -> pos s' b = pos s b) /\
     (c_multi c = false -> grid s p = [])) \/
  (s' = s /\ r = Err E_CELL_NOT_EMPTY /\ c_multi c = false /\ grid s p <> []).
Proof.
  intros Ha Hn Hin Hst. cbn [step] in Hst. unfold placed in Hst. rewrite Hn, Hin in Hst. cbn [orb] in Hst.
  destruct (place_cases c s a p s' r Ha Hn Hin Hst) as [(H1 & _ & H2 & H3 & H4)|H]; [left|right; exact H].
  repeat split; assumption.
Qed.

Lemma remove_step c s a p s' r :
  Agree c s -> pos s a = Some p -> step c s (Remove a) = (s', r) ->
  r = Ok [] /\ pos s' a = None /\ (forall b, b <> a -> pos s' b = pos s b) /\
  (forall q, q <> p -> grid s' q = grid s q).
Proof.
  intros Ha Hp Hst. cbn [step] in Hst. unfold placed in Hst. rewrite Hp in Hst.
  destruct (remove_ok c s a p Ha Hp) as (s1 & Hr & Hrs). rewrite Hr in Hst. inversion Hst. subst.
  split; [reflexivity|]. split; [apply (removed_pos_none s a p s' Hrs)|]. split.
  - intros b Hb. apply (removed_pos_other s a p s' b Hrs Hb).
  - intros q Hq. destruct Hrs as (Hg & _). rewrite Hg. rewrite (coord_eqb_neq q p Hq). reflexivity.
Qed.

(* ================================================================== run_case runs this very step *)

(* the observation stream the correspondence check compares with the implementation is produced by
   the very `step` the theorems speak about, applied to the states `run c init (prefix)` *)
Lemma run_app c ops1 ops2 s : run c s (ops1 ++ ops2) = run c (run c s ops1) ops2.
Proof. revert s. induction ops1 as [|o t IH]; intros s; cbn [app run]; [reflexivity|apply IH]. Qed.

Lemma run_obs_nth_from c n ops : forall s k o,
  nth_error ops k = Some o ->
  nth_error (run_obs c n s ops) k =
    Some (let sr := step c (run c s (firstn k ops)) o in
          obs_res (snd sr) ++ (-8) :: obs_state c n (fst sr)).
Proof.
  induction ops as [|o' t IH]; intros s k o Hk.
  - destruct k; discriminate.
  - destruct k as [|k].
    + cbn in Hk. inversion Hk. subst o'. cbn [run_obs firstn run].
      destruct (step c s o) as [s' r]. reflexivity.
    + cbn [nth_error] in Hk. cbn [run_obs firstn run].
      destruct (step c s o') as [s' r] eqn:E. cbn [nth_error fst].
      rewrite (IH s' k o Hk). reflexivity.
Qed.

Lemma run_obs_length c n ops : forall s, length (run_obs c n s ops) = length ops.
Proof.
  induction ops as [|o t IH]; intros s; cbn [run_obs length]; [reflexivity|].
  destruct (step c s o) as [s' r]. cbn [length]. rewrite IH. reflexivity.
Qed.

(* ---- the grid with its property layers: the layers live beside the grid state and never touch it ---- *)
Lemma is_layer_op_dec (o : op) : (exists l, o = LayerOp l) \/ ~ (exists l, o = LayerOp l).
Proof. destruct o; try (right; intros [l H]; discriminate). left. eexists. reflexivity. Qed.

Lemma lstep_grid c k s L o : fst (fst (lstep c k (s, L) o)) = fst (step c s o).
Proof.
  destruct (is_layer_op_dec o) as [[l ->]|Hn].
  - destruct l; cbn [lstep step fst];
      match goal with |- context [if ?b then _ else _] => destruct b; reflexivity end.
  - destruct o; try (exfalso; apply Hn; eexists; reflexivity); cbn [lstep fst snd];
      match goal with |- context [step ?c ?s ?o] => destruct (step c s o) as [s' r]; reflexivity end.
Qed.

Definition is_layer_op (o : op) : bool := match o with LayerOp _ => true | _ => false end.

(* a grid call leaves every layer as it was and returns what the layer-free step returns *)
Lemma lstep_grid_op c k s L o :
  is_layer_op o = false -> lstep c k (s, L) o = ((fst (step c s o), L), snd (step c s o)).
Proof.
  destruct o; cbn [is_layer_op]; try discriminate; intros _; cbn [lstep fst snd];
    match goal with |- context [step ?c ?s ?o] => destruct (step c s o) as [s' r]; reflexivity end.
Qed.

(* a layer call leaves the grid state as it was (literally) *)
Lemma lstep_layer_op c k s L l : fst (fst (lstep c k (s, L) (LayerOp l))) = s.
Proof.
  destruct l; cbn [lstep]; match goal with |- context [if ?b then _ else _] => destruct b; reflexivity end.
Qed.

Lemma lrun_grid c k ops : forall s L, fst (lrun c k (s, L) ops) = run c s ops.
Proof.
  induction ops as [|o t IH]; intros s L; cbn [lrun run]; [reflexivity|].
  destruct (lstep c k (s, L) o) as [[s' L'] r] eqn:E. cbn [fst].
  rewrite IH. f_equal. pose proof (lstep_grid c k s L o) as H. rewrite E in H. exact H.
Qed.

(* C08_agree for the layered grid: any history of grid calls and layer writes, any number of layers *)
Lemma agree_layered_history c k ops : wf c -> Agree c (fst (lrun c k (init, linit) ops)).
Proof. intros Hwf. rewrite lrun_grid. apply run_agree. exact Hwf. Qed.

(* the layers after a history depend on the layer calls only *)
Fixpoint layer_ops (ops : list op) : list op :=
  match ops with
  | [] => []
  | o :: t => if is_layer_op o then o :: layer_ops t else layer_ops t
  end.

Lemma lstep_layers_only c k s s2 L o :
  snd (fst (lstep c k (s, L) o)) = snd (fst (lstep c k (s2, L) o)).
Proof.
  destruct (is_layer_op_dec o) as [[l ->]|Hn].
  - destruct l; cbn [lstep]; match goal with |- context [if ?b then _ else _] => destruct b; reflexivity end.
  - destruct o; try (exfalso; apply Hn; eexists; reflexivity); cbn [lstep fst snd];
      match goal with |- context [step ?c s ?o] => destruct (step c s o) as [s' r]; destruct (step c s2 o) as [s2' r2]; reflexivity end.
Qed.

Lemma lrun_layers c k ops : forall s L,
  snd (lrun c k (s, L) ops) = snd (lrun c k (init, L) (layer_ops ops)).
Proof.
  induction ops as [|o t IH]; intros s L; cbn [lrun layer_ops]; [reflexivity|].
  destruct (is_layer_op o) eqn:El.
  - cbn [lrun].
    destruct (lstep c k (s, L) o) as [[s1 L1] r1] eqn:E1. destruct (lstep c k (init, L) o) as [[s2 L2] r2] eqn:E2.
    cbn [fst]. pose proof (lstep_layers_only c k s init L o) as H. rewrite E1, E2 in H. cbn [fst snd] in H. subst L2.
    rewrite (IH s1 L1). destruct o; try discriminate.
    pose proof (lstep_layer_op c k init L l) as H2. rewrite E2 in H2. cbn [fst] in H2. subst s2. reflexivity.
  - rewrite (lstep_grid_op c k s L o El). cbn [fst]. apply IH.
Qed.

Lemma layers_never_interfere c k :
  (forall ops s L, fst (lrun c k (s, L) ops) = run c s ops) /\
  (forall s L o, is_layer_op o = false -> lstep c k (s, L) o = ((fst (step c s o), L), snd (step c s o))) /\
  (forall s L l, fst (fst (lstep c k (s, L) (LayerOp l))) = s) /\
  (forall ops s L, snd (lrun c k (s, L) ops) = snd (lrun c k (init, L) (layer_ops ops))).
Proof.
  split; [exact (lrun_grid c k)|]. split; [exact (lstep_grid_op c k)|].
  split; [exact (lstep_layer_op c k)|exact (lrun_layers c k)].
Qed.

Lemma lrun_obs_nth_from c n k ops : forall sl i o,
  nth_error ops i = Some o ->
  nth_error (lrun_obs c n k sl ops) i =
    Some (let sr := lstep c k (lrun c k sl (firstn i ops)) o in
          obs_res (snd sr) ++ (-8) :: obs_state c n (fst (fst sr)) ++ (-9) :: obs_layers c k (snd (fst sr))).
Proof.
  induction ops as [|o' t IH]; intros sl i o Hi.
  - destruct i; discriminate.
  - destruct i as [|i].
    + cbn in Hi. inversion Hi. subst o'. cbn [lrun_obs firstn lrun].
      destruct (lstep c k sl o) as [sl' r]. reflexivity.
    + cbn [nth_error] in Hi. cbn [lrun_obs firstn lrun].
      destruct (lstep c k sl o') as [sl' r] eqn:E. cbn [nth_error fst].
      rewrite (IH sl' i o Hi). reflexivity.
Qed.

Lemma lrun_obs_length c n k ops : forall sl, length (lrun_obs c n k sl ops) = length ops.
Proof.
  induction ops as [|o t IH]; intros sl; cbn [lrun_obs length]; [reflexivity|].
  destruct (lstep c k sl o) as [sl' r]. cbn [length]. rewrite IH. reflexivity.
Qed.

Lemma run_case_is_step k i o :
  nth_error (k_ops k) i = Some o ->
  length (run_case k) = length (k_ops k) /\
  nth_error (run_case k) i =
    Some (let sr := lstep (k_cfg k) (k_layers k) (lrun (k_cfg k) (k_layers k) (init, linit) (firstn i (k_ops k))) o in
          obs_res (snd sr) ++ (-8) :: obs_state (k_cfg k) (k_n k) (fst (fst sr))
            ++ (-9) :: obs_layers (k_cfg k) (k_layers k) (snd (fst sr))) /\
  fst (lrun (k_cfg k) (k_layers k) (init, linit) (firstn i (k_ops k))) = run (k_cfg k) init (firstn i (k_ops k)).
Proof.
  intros H. unfold run_case. split; [apply lrun_obs_length|]. split; [apply lrun_obs_nth_from; exact H|apply lrun_grid].
Qed.

(* ================================================================== the unpatched mover *)

(* why SingleGrid needs its own move_agent (fixes/C08-2): the inherited _Grid.move_agent
   (grid_move_agent: torus_adj; remove; place) is NOT atomic on a SingleGrid - defect #8 of the
   unchanged tree, exhibited on the model *)
Lemma unpatched_move_agent_not_atomic :
  exists c s a p s' e,
    Agree c s /\ c_multi c = false /\ grid_move_agent c s a p = (s', Err e) /\
    obs_state c 2 s' <> obs_state c 2 s /\ pos s' a = None.
Proof.
  exists {| c_w := 3; c_h := 2; c_torus := false; c_multi := false |}.
  exists (run {| c_w := 3; c_h := 2; c_torus := false; c_multi := false |} init [Place 1 (0, 0); Place 2 (1, 1)]).
  exists 1, (1, 1).
  eexists. exists E_CELL_NOT_EMPTY.
  split; [apply run_agree; split; reflexivity|].
  split; [reflexivity|]. split; [vm_compute; reflexivity|].
  split; [vm_compute; discriminate|reflexivity].
Qed.
