From Coq Require Import ZArith List Bool Lia.
From Mesa Require Import Common.ListX Model.LegacyGrid.
Import ListNotations.
Open Scope Z_scope.
