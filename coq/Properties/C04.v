(* C04 - one activation calls each surviving member exactly once, even under churn.
   ONLY statements closed by `exact`, with Print Assumptions beneath each, and one Example per theorem
   showing that its hypotheses are satisfiable by a non-trivial state.
   `reached ops` is the state after ANY history of creations, removals, reference keeping/dropping,
   set construction, activations and group activations, from the empty model. *)
From Coq Require Import ZArith List Bool Permutation.
From Mesa Require Import Common.ListX Model.Activation Proofs.ActivationProofs.
Import ListNotations.
Open Scope Z_scope.

(* --- the registry the activation runs on --- *)
(* every reachable state: no duplicate registrations, every id in use was handed out, every set is
   duplicate-free and contains living agents only, model.agents lists exactly the registry *)
Theorem C04_reachable_invariant : forall ops, Inv (reached ops).
Proof. exact inv_reachable. Qed.
Print Assumptions C04_reachable_invariant.

Theorem C04_snapshot_is_live_members : forall ops r snap,
  lookup r (sets (reached ops)) = Some snap ->
  NoDup snap /\ forall a, In a snap -> alive (reached ops) a = true /\ a < next_id (reached ops).
Proof. exact reached_set. Qed.
Print Assumptions C04_snapshot_is_live_members.

Theorem C04_all_agents_is_registry : forall ops,
  lookup SAll (sets (reached ops)) = Some (reg (reached ops)).
Proof. exact reached_all_is_reg. Qed.
Print Assumptions C04_all_agents_is_registry.

(* --- one activation (do / shuffle_do / map), any set, any script, any shuffle outcome --- *)
(* nobody is called twice *)
Theorem C04_once : forall ops k r perm sc snap s' log,
  lookup r (sets (reached ops)) = Some snap ->
  activate k perm sc snap (reached ops) = Some (s', log) -> NoDup log.
Proof. exact reached_once. Qed.
Print Assumptions C04_once.

(* do and map visit in set order; shuffle_do in the order random.shuffle gave, which is a permutation
   of the members *)
Theorem C04_order : forall k perm sc snap s s' log,
  activate k perm sc snap s = Some (s', log) ->
  match k with
  | KShuffleDo => subseq log perm /\ Permutation perm snap
  | _ => subseq log snap
  end.
Proof. exact activate_order. Qed.
Print Assumptions C04_order.

(* called  <->  a member at call start that is alive when its turn comes *)
Theorem C04_exact : forall ops k r perm sc snap s' log order,
  lookup r (sets (reached ops)) = Some snap ->
  activate k perm sc snap (reached ops) = Some (s', log) -> visit_order k perm snap = Some order ->
  forall a, In a log <->
            exists s1, turn_state sc order (reached ops) a = Some s1 /\ alive s1 a = true.
Proof. exact reached_exact. Qed.
Print Assumptions C04_exact.

(* a member that is still registered with its model when its turn comes is called, whatever happened
   before (any state s, any prefix of the visiting order) *)
Theorem C04_registered_called : forall sc pre a post s,
  In a (reg (fst (visit sc pre s))) -> In a (snd (visit sc (pre ++ a :: post) s)).
Proof. exact visit_registered_called. Qed.
Print Assumptions C04_registered_called.

(* once an agent is removed from its model and neither the program nor the running frame refers to
   it, it is dead for good: none of the remaining turns calls it *)
Theorem C04_no_removed : forall sc pre post s a,
  alive (fst (visit sc pre s)) a = false -> a < next_id (fst (visit sc pre s)) ->
  snd (visit sc (pre ++ post) s) = snd (visit sc pre s) ++ snd (visit sc post (fst (visit sc pre s))) /\
  ~ In a (snd (visit sc post (fst (visit sc pre s)))).
Proof. exact dead_after_prefix_never_called. Qed.
Print Assumptions C04_no_removed.

(* only members at call start are called; agents registered during the call have fresh ids and are
   not called *)
Theorem C04_no_new : forall ops k r perm sc snap s' log,
  lookup r (sets (reached ops)) = Some snap ->
  activate k perm sc snap (reached ops) = Some (s', log) ->
  (forall a, In a log -> In a snap /\ a < next_id (reached ops)) /\
  (forall a, In a (reg s') -> ~ In a (reg (reached ops)) -> next_id (reached ops) <= a /\ ~ In a log).
Proof. exact reached_no_new. Qed.
Print Assumptions C04_no_new.

(* a registered member that no callback removes is called - for every script that spares it *)
Theorem C04_unremoved_called : forall ops k r perm sc snap s' log a,
  lookup r (sets (reached ops)) = Some snap ->
  activate k perm sc snap (reached ops) = Some (s', log) ->
  In a snap -> In a (reg (reached ops)) -> spares sc a -> In a log.
Proof. exact reached_unremoved_called. Qed.
Print Assumptions C04_unremoved_called.

(* model.agents, callbacks that remove nobody (they may create, keep and drop references): the log
   is exactly the visiting order *)
Theorem C04_all_called : forall ops k perm sc s' log order,
  activate k perm sc (reg (reached ops)) (reached ops) = Some (s', log) ->
  visit_order k perm (reg (reached ops)) = Some order ->
  (forall a, spares sc a) -> log = order.
Proof. exact reached_all_called. Qed.
Print Assumptions C04_all_called.

(* no activation (in particular shuffle_do) reorders any set: afterwards each set is what it was,
   minus some members, plus agents created during the call appended at the end *)
Theorem C04_set_order_untouched : forall k perm sc snap s s' log,
  activate k perm sc snap s = Some (s', log) ->
  forall r m, lookup r (sets s) = Some m ->
    exists keep new, lookup r (sets s') = Some (filter keep m ++ new) /\
                     forall a, In a new -> next_id s <= a < next_id s'.
Proof. exact activate_sets_keep_order. Qed.
Print Assumptions C04_set_order_untouched.

(* a program-made set after the call is exactly the set before minus the agents that have died, order
   kept (removal from the model alone does not take an agent out of it) *)
Theorem C04_user_set_exact : forall ops k r perm sc snap s' log j m,
  lookup r (sets (reached ops)) = Some snap ->
  activate k perm sc snap (reached ops) = Some (s', log) ->
  lookup (SUser j) (sets (reached ops)) = Some m ->
  lookup (SUser j) (sets s') = Some (filter (alive s') m).
Proof. exact reached_user_set_exact. Qed.
Print Assumptions C04_user_set_exact.

(* groupby(...).do / map: the groups are visited in first-seen key order, each group's activation
   calls only members of that group, none twice, in group order for do/map - hence nobody is called
   twice by the whole group activation *)
Theorem C04_groupby_once : forall ops k r m perms sc members s' logs,
  lookup r (sets (reached ops)) = Some members ->
  visit_groups k sc (groups_of m members) perms (reached ops) = Some (s', logs) ->
  map fst logs = group_keys m members /\ NoDup (map fst logs) /\
  NoDup (flat_map snd logs) /\
  forall key l, In (key, l) logs ->
    group_log_ok k (filter (fun a => gkey m a =? key) members) l.
Proof. exact reached_groupby_once. Qed.
Print Assumptions C04_groupby_once.

(* what a callback receives is the caller's argument list, once per call *)
Theorem C04_args_passthrough : forall args a log,
  obs_log args (a :: log) = a :: args ++ obs_log args log.
Proof. exact obs_log_cons. Qed.
Print Assumptions C04_args_passthrough.

(* ------------------------------------------------------------------ non-vacuity *)
(* five agents (4 kept by the program after removal), a program-made set in another order *)
Definition ex_ops : list op :=
  [OAct (Create 0 3 false); OAct (Create 1 2 false); OAct (RemoveId 4 true); ONewSet [5; 4; 2; 1; 9; 2]].
(* on its turn 5 removes 2 (dropped: dies) and 1 (kept); 4 creates an agent; 1 removes itself *)
Definition ex_sc : script :=
  [(5, [RemoveId 2 false; RemoveId 1 true]); (4, [Create 2 1 false]); (1, [RemoveSelf false])].

Example C04_example_reach :
  lookup (SUser 0) (sets (reached ex_ops)) = Some [5; 4; 2; 1] /\ reg (reached ex_ops) = [1; 2; 3; 5] /\
  ext (reached ex_ops) = [4].
Proof. vm_compute. repeat split. Qed.

Example C04_example_do :
  exists s', activate KDo [] ex_sc [5; 4; 2; 1] (reached ex_ops) = Some (s', [5; 4; 1]) /\
             reg s' = [3; 5; 6] /\ lookup (SUser 0) (sets s') = Some [5; 4; 1] /\
             lookup (SType 2) (sets s') = Some [6].
Proof. eexists. vm_compute. repeat split. Qed.

Example C04_example_shuffle :
  exists s', activate KShuffleDo [2; 1; 5; 4] ex_sc [5; 4; 2; 1] (reached ex_ops) = Some (s', [2; 1; 5; 4]) /\
             lookup (SUser 0) (sets s') = Some [5; 4] /\ reg s' = [3; 5; 6].
Proof. eexists. vm_compute. repeat split. Qed.

(* C04_exact / C04_no_removed: agent 2 is dead when its turn comes, agent 1 is alive only through ext *)
Example C04_example_turn :
  (exists s1, turn_state ex_sc [5; 4; 2; 1] (reached ex_ops) 2 = Some s1 /\ alive s1 2 = false /\ 2 < next_id s1) /\
  (exists s1, turn_state ex_sc [5; 4; 2; 1] (reached ex_ops) 1 = Some s1 /\ alive s1 1 = true /\
              memz 1 (reg s1) = false).
Proof. split; eexists; vm_compute; repeat split; congruence. Qed.

Example C04_example_spares : spares ex_sc 5 /\ spares ex_sc 4 /\ ~ spares ex_sc 2.
Proof.
  assert (forall a, (forall r, In r [5; 4; 1] -> forallb (fun x => negb (removes r x a)) (script_of ex_sc r) = true) ->
                    spares ex_sc a) as Hs.
  { intros a H r x Hx.
    assert (In r [5; 4; 1]) as Hr.
    { unfold ex_sc in Hx. simpl in Hx.
      destruct (r =? 5) eqn:E5; [apply Z.eqb_eq in E5; subst; simpl; tauto|].
      destruct (r =? 4) eqn:E4; [apply Z.eqb_eq in E4; subst; simpl; tauto|].
      destruct (r =? 1) eqn:E1; [apply Z.eqb_eq in E1; subst; simpl; tauto|]. destruct Hx. }
    specialize (H r Hr). rewrite forallb_forall in H. specialize (H x Hx).
    destruct (removes r x a); [discriminate|reflexivity]. }
  split; [|split].
  - apply Hs. intros r [<-|[<-|[<-|[]]]]; reflexivity.
  - apply Hs. intros r [<-|[<-|[<-|[]]]]; reflexivity.
  - intros H. specialize (H 5 (RemoveId 2 false)). simpl in H. discriminate H. left. reflexivity.
Qed.

(* C04_all_called: a script that only creates and keeps references, on model.agents, shuffled *)
Example C04_example_all_called :
  let sc := [(3, [Create 1 2 true; AddRef 5]); (5, [DropRef 4])] in
  exists s', activate KShuffleDo [3; 5; 1; 2] sc (reg (reached ex_ops)) (reached ex_ops) = Some (s', [3; 5; 1; 2]) /\
             reg s' = [1; 2; 3; 5; 6; 7] /\ ext s' = [6; 7; 5].
Proof. eexists. vm_compute. repeat split. Qed.

Example C04_example_args : obs_log [7; 8] [5; 4; 1] = [5; 7; 8; 4; 7; 8; 1; 7; 8].
Proof. reflexivity. Qed.

(* groups by id mod 2 of the program-made set [5;4;2;1]: keys 1,0; 5 kills 2 before group 0 runs *)
Example C04_example_groups :
  exists s', visit_groups KDo ex_sc (groups_of 2 [5; 4; 2; 1]) [] (reached ex_ops)
             = Some (s', [(1, [5; 1]); (0, [4])]).
Proof. eexists. vm_compute. reflexivity. Qed.
