(* C04 - one activation calls each surviving member exactly once, even under churn.
   ONLY statements closed by `exact`, with Print Assumptions beneath each, and Examples showing that
   the hypotheses are satisfiable by non-trivial states.
   `reached ops` is the state after ANY history of creations, removals, reference keeping/dropping,
   set construction, activations (with callbacks that may raise or start activations of their own)
   and group activations, from the empty model.  `exN scs` is the executor of the callbacks of an
   op's activation (scs = what agents called by nested activations do, one script per nesting level, any depth); statements marked "any ex"
   hold for every executor. *)
From Coq Require Import ZArith List Bool Permutation.
From Mesa Require Import Common.ListX Generated.Tables Model.Activation Model.ActivationCode
                         Proofs.ActivationProofs Proofs.ActivationBridge.
Import ListNotations.
Open Scope Z_scope.

(* --- the registry the activation runs on --- *)
Theorem C04_reachable_invariant : forall ops, Inv (reached ops).
Proof. exact inv_reachable. Qed.
Print Assumptions C04_reachable_invariant.

Theorem C04_snapshot_is_live_members : forall ops r snap,
  lookup r (sets (reached ops)) = Some snap ->
  NoDup snap /\ forall a, In a snap -> alive (reached ops) a = true /\ a < next_id (reached ops).
Proof. exact reached_set. Qed.
Print Assumptions C04_snapshot_is_live_members.

Theorem C04_all_agents_is_registry : forall ops,
  lookup SAll (sets (reached ops)) = Some (reg (reached ops)).
Proof. exact reached_all_is_reg. Qed.
Print Assumptions C04_all_agents_is_registry.

(* agents_by_type[c] is the registry filtered by exact class c, in registry order, and every class
   with a registered agent is a key whose set contains that agent *)
Theorem C04_by_type_is_filtered_registry : forall ops,
  (forall c m, lookup (SType c) (sets (reached ops)) = Some m ->
               m = filter (fun a => class_of (reached ops) a =? c) (reg (reached ops))) /\
  (forall a, In a (reg (reached ops)) ->
             exists m, lookup (SType (class_of (reached ops) a)) (sets (reached ops)) = Some m /\ In a m).
Proof. exact reached_by_type. Qed.
Print Assumptions C04_by_type_is_filtered_registry.

(* --- one activation (do / shuffle_do / map), any set, any scripts, any shuffle outcome --- *)
Theorem C04_once : forall scs ops k r perm sc snap s' log rz,
  lookup r (sets (reached ops)) = Some snap ->
  activate (exN scs) k perm sc snap (reached ops) = Some (s', log, rz) -> NoDup log.
Proof. intro scs. exact (reached_once (exN scs)). Qed.
Print Assumptions C04_once.

(* any ex *)
Theorem C04_order : forall ex k perm sc snap s s' log rz,
  activate ex k perm sc snap s = Some (s', log, rz) ->
  match k with
  | KShuffleDo => subseq log perm /\ Permutation perm snap
  | _ => subseq log snap
  end.
Proof. exact activate_order. Qed.
Print Assumptions C04_order.

(* called  <->  a member at call start whose turn is reached and that is alive at that moment *)
Theorem C04_exact : forall scs ops k r perm sc snap s' log rz order,
  lookup r (sets (reached ops)) = Some snap ->
  activate (exN scs) k perm sc snap (reached ops) = Some (s', log, rz) -> visit_order k perm snap = Some order ->
  forall a, In a log <->
            exists s1, turn_state (exN scs) sc order (push_frame (reached ops)) a = Some s1 /\ alive s1 a = true.
Proof. intro scs. exact (reached_exact (exN scs)). Qed.
Print Assumptions C04_exact.

(* any ex, any state: a member still registered when its turn comes is called, unless an exception
   ended the loop before *)
Theorem C04_registered_called : forall ex sc pre a post s,
  vrz (visit ex sc pre s) = false ->
  In a (reg (vst (visit ex sc pre s))) -> In a (vlog (visit ex sc (pre ++ a :: post) s)).
Proof. exact visit_registered_called. Qed.
Print Assumptions C04_registered_called.

(* once an agent is removed from its model and neither the program nor a running frame refers to it,
   it is dead for good: none of the remaining turns calls it *)
Theorem C04_no_removed : forall scs sc pre post s a,
  alive (vst (visit (exN scs) sc pre s)) a = false -> a < next_id (vst (visit (exN scs) sc pre s)) ->
  ~ In a (vlog (visit (exN scs) sc post (vst (visit (exN scs) sc pre s)))).
Proof. intro scs. exact (dead_after_prefix_never_called (exN scs) (good_exN scs)). Qed.
Print Assumptions C04_no_removed.

Theorem C04_no_new : forall scs ops k r perm sc snap s' log rz,
  lookup r (sets (reached ops)) = Some snap ->
  activate (exN scs) k perm sc snap (reached ops) = Some (s', log, rz) ->
  (forall a, In a log -> In a snap /\ a < next_id (reached ops)) /\
  (forall a, In a (reg s') -> ~ In a (reg (reached ops)) -> next_id (reached ops) <= a /\ ~ In a log).
Proof. intro scs. exact (reached_no_new (exN scs) (good_exN scs)). Qed.
Print Assumptions C04_no_new.

(* a registered member that no callback removes is called - for every script that spares it and
   neither raises nor nests *)
Theorem C04_unremoved_called : forall scs ops k r perm sc snap s' log rz a,
  lookup r (sets (reached ops)) = Some snap ->
  activate (exN scs) k perm sc snap (reached ops) = Some (s', log, rz) ->
  In a snap -> In a (reg (reached ops)) -> spares sc a -> calm sc -> In a log.
Proof. intro scs. exact (reached_unremoved_called (exN scs) (good_exN scs)). Qed.
Print Assumptions C04_unremoved_called.

(* a set of registered agents, callbacks that remove nobody / raise nothing / start no activation
   (they may create, keep and drop references): the log is exactly the visiting order *)
Theorem C04_all_called : forall scs ops k r perm sc snap s' log rz order,
  lookup r (sets (reached ops)) = Some snap -> (forall a, In a snap -> In a (reg (reached ops))) ->
  activate (exN scs) k perm sc snap (reached ops) = Some (s', log, rz) ->
  visit_order k perm snap = Some order ->
  (forall a, spares sc a) -> calm sc -> log = order /\ rz = false.
Proof. intro scs. exact (reached_all_called (exN scs) (good_exN scs)). Qed.
Print Assumptions C04_all_called.

(* ... and agents_by_type[c] is such a set: activations on by-type sets inherit the theorems above *)
Theorem C04_by_type_members_registered : forall ops c snap,
  lookup (SType c) (sets (reached ops)) = Some snap -> forall a, In a snap -> In a (reg (reached ops)).
Proof. exact reached_by_type_members. Qed.
Print Assumptions C04_by_type_members_registered.

Theorem C04_set_order_untouched : forall scs k perm sc snap s s' log rz,
  activate (exN scs) k perm sc snap s = Some (s', log, rz) ->
  forall r m, lookup r (sets s) = Some m ->
    exists keep new, lookup r (sets s') = Some (filter keep m ++ new) /\
                     forall a, In a new -> next_id s <= a < next_id s'.
Proof. intro scs. exact (activate_sets_keep_order (exN scs) (good_exN scs)). Qed.
Print Assumptions C04_set_order_untouched.

Theorem C04_user_set_exact : forall scs ops k r perm sc snap s' log rz j m,
  lookup r (sets (reached ops)) = Some snap ->
  activate (exN scs) k perm sc snap (reached ops) = Some (s', log, rz) ->
  lookup (SUser j) (sets (reached ops)) = Some m ->
  lookup (SUser j) (sets s') = Some (filter (alive s') m).
Proof. intro scs. exact (reached_user_set_exact (exN scs) (good_exN scs)). Qed.
Print Assumptions C04_user_set_exact.

(* shuffle_do is shuffle() followed by do(): given the same outcome of random.shuffle on the same
   weak-key snapshot, the same agents are called in the same order and the same state results *)
Theorem C04_shuffle_do_eq_shuffle_then_do : forall ex ops r snap perm sc,
  lookup r (sets (reached ops)) = Some snap ->
  shuffle_then_do ex perm sc snap (reached ops) = activate ex KShuffleDo perm sc snap (reached ops).
Proof. exact reached_shuffle_do_eq. Qed.
Print Assumptions C04_shuffle_do_eq_shuffle_then_do.

(* a callback raises (itself or out of a nested activation): the loop is left at once - the log is
   the log of the prefix visited before plus the raiser, the state is the one at the raise *)
Theorem C04_exception_aborts : forall ex sc order s,
  vrz (visit ex sc order s) = true ->
  exists pre r post,
    order = pre ++ r :: post /\ vrz (visit ex sc pre s) = false /\
    alive (vst (visit ex sc pre s)) r = true /\
    snd (visit1 ex sc r (vst (visit ex sc pre s))) = true /\
    vlog (visit ex sc order s) = vlog (visit ex sc pre s) ++ [r] /\
    vst (visit ex sc order s) = fst (visit1 ex sc r (vst (visit ex sc pre s))).
Proof. exact visit_raised. Qed.
Print Assumptions C04_exception_aborts.

(* the nested activation is an activation: every statement proved for `activate ex0` applies to the
   calls it makes, and whatever it does the outer executor stays well behaved *)
Theorem C04_nested_executor_good : forall scs, good_ex (exN scs).
Proof. exact good_exN. Qed.
Print Assumptions C04_nested_executor_good.

Theorem C04_groupby_once : forall ex ops k r m perms sc members s' logs rz,
  lookup r (sets (reached ops)) = Some members ->
  visit_groups ex k sc (groups_of m members) perms (reached ops) = Some (s', logs, rz) ->
  (exists rest, group_keys m members = map fst logs ++ rest /\ (rz = false -> rest = [])) /\
  NoDup (map fst logs) /\ NoDup (flat_map snd logs) /\
  forall key l, In (key, l) logs ->
    group_log_ok k (filter (fun a => gkey m a =? key) members) l.
Proof. exact reached_groupby_once. Qed.
Print Assumptions C04_groupby_once.

Theorem C04_args_passthrough : forall args a log,
  obs_log args (a :: log) = a :: args ++ obs_log args log.
Proof. exact obs_log_cons. Qed.
Print Assumptions C04_args_passthrough.

(* ------------------------------------------------------------------ code-level T1 *)
(* gen_do_fn, gen_shuffle_do_fn, gen_map_fn (and the GroupBy records) are regenerated from mesa/agent.py
   on every run; run_fn executes such a record on the model state.  The check evaluates the translated
   branch condition and liveness guard on all boolean inputs, the iterated source (weak keyrefs snapshot /
   private shuffled copy), the call form and the argument forwarding. *)
Theorem C04_source_functions_ok : forallb (fun kf => fn_ok (fst kf) (snd kf)) source_fns = true.
Proof. exact source_fns_ok. Qed.
Print Assumptions C04_source_functions_ok.

Theorem C04_source_groupby_ok :
  gfn_ok false gen_groupby_do_fn && gfn_ok true gen_groupby_map_fn &&
  (gcomp_ok false gen_groupby_count && gcomp_ok true gen_groupby_agg && gen_shuffle_groupby_skeleton_ok) = true.
Proof. exact source_groupby_ok. Qed.
Print Assumptions C04_source_groupby_ok.

(* the source functions, run on the model state, are the model's activations *)
Theorem C04_source_is_activation : forall k f,
  In (k, f) source_fns ->
  forall ex sc is_str perm snap s, run_fn ex sc f is_str perm snap s = activate ex k perm sc snap s.
Proof. exact source_is_activation. Qed.
Print Assumptions C04_source_is_activation.

(* by name when method is a str, as a callable otherwise; *args and **kwargs forwarded; self / list returned *)
Theorem C04_source_calls : forall k f,
  In (k, f) source_fns ->
  forall is_str, al_call (pick f is_str) = (if is_str then CallByName else CallCallable) /\
                 al_fwd_args (pick f is_str) = true /\ al_fwd_kwargs (pick f is_str) = true /\
                 af_ret f = match k with KMap => RetList | _ => RetSelf end.
Proof. exact source_calls. Qed.
Print Assumptions C04_source_calls.

(* the headline, about the translated code: do / shuffle_do / map of the working tree call nobody twice,
   call exactly the members whose turn is reached alive, and only members at call start *)
Theorem C04_exactly_once_of_source : forall k f,
  In (k, f) source_fns ->
  forall scs ops r snap is_str perm sc s' log rz order,
    lookup r (sets (reached ops)) = Some snap ->
    run_fn (exN scs) sc f is_str perm snap (reached ops) = Some (s', log, rz) ->
    visit_order k perm snap = Some order ->
    NoDup log /\
    (forall a, In a log <->
               exists s1, turn_state (exN scs) sc order (push_frame (reached ops)) a = Some s1 /\ alive s1 a = true) /\
    (forall a, In a log -> In a snap /\ a < next_id (reached ops)).
Proof. exact source_exactly_once. Qed.
Print Assumptions C04_exactly_once_of_source.

Theorem C04_all_called_of_source : forall k f,
  In (k, f) source_fns ->
  forall scs ops r snap is_str perm sc s' log rz order,
    lookup r (sets (reached ops)) = Some snap -> (forall a, In a snap -> In a (reg (reached ops))) ->
    run_fn (exN scs) sc f is_str perm snap (reached ops) = Some (s', log, rz) ->
    visit_order k perm snap = Some order ->
    (forall a, spares sc a) -> calm sc -> log = order /\ rz = false.
Proof. exact source_all_called. Qed.
Print Assumptions C04_all_called_of_source.

(* Agent.__init__ / register_agent and Agent.remove / deregister_agent, statement by statement in the
   order extracted from mesa/model.py (tables of the C02 builder), are the model's create1 / deregister *)
Theorem C04_source_registry :
  gen_agent_first_id = next_id init_st /\ gen_remove_suppresses_keyerror = true /\
  (forall a s, Inv s -> BT s -> dereg_run a gen_deregister_order s = deregister a s) /\
  (forall c keep s, Inv s -> create_stmts gen_register_order c keep s = create1 c keep s).
Proof. exact source_registry. Qed.
Print Assumptions C04_source_registry.

(* GroupBy.do / map of the working tree, with `method` naming a translated AgentSet method, run on the model
   state, IS the model's visit_groups (both forms of `method` at both levels) *)
Theorem C04_source_groupby_is_visit_groups : forall k f,
  In (k, f) source_fns ->
  forall ex sc is_str inner_is_str gs perms s,
    run_gfn ex sc gen_groupby_do_fn is_str f inner_is_str gs perms s = visit_groups ex k sc gs perms s /\
    run_gfn ex sc gen_groupby_map_fn is_str f inner_is_str gs perms s = visit_groups ex k sc gs perms s.
Proof. exact source_groupby_is_visit_groups. Qed.
Print Assumptions C04_source_groupby_is_visit_groups.

(* --- round 3: any nesting depth, caught exceptions, strong lists --- *)
(* an exception caught inside the callback (try: set.do(...) except Exception) never leaves it *)
Theorem C04_caught_exception_stays_inside : forall inner sc2 self s k r perm,
  snd (ex_next inner sc2 self s (TryNested k r perm)) = false.
Proof. exact try_nested_never_raises. Qed.
Print Assumptions C04_caught_exception_stays_inside.

(* whatever happens inside (nesting of any depth, exceptions caught or not), an activation leaves the
   stack of activation frames exactly as it found it: no frame - and no agent bound in one - leaks *)
Theorem C04_frames_restored : forall scs k perm sc snap s s' log rz,
  activate (exN scs) k perm sc snap s = Some (s', log, rz) -> cur s' = cur s.
Proof. exact activate_frames_restored. Qed.
Print Assumptions C04_frames_restored.

(* groupby(result_type="list").do/map(callable): the GroupBy holds the agents strongly, so unless a
   callback raises EVERY member at groupby time is reached exactly once, group by group in first-seen
   key order - whether or not it was removed from its model meanwhile *)
Theorem C04_grouplist_all_reached : forall scs sc m members s s' logs,
  group_lists (exN scs) sc m members s = (s', logs, false) -> logs = groups_of m members.
Proof. exact group_lists_all. Qed.
Print Assumptions C04_grouplist_all_reached.

(* --- round 4 --- *)
(* a callback raises inside a list group: the groups before are complete, that group's log is the part of
   its list up to and including the raiser, later groups are not reached *)
Theorem C04_grouplist_exception_shape : forall scs sc m members s s' logs,
  group_lists (exN scs) sc m members s = (s', logs, true) ->
  exists gs1 key pre r post gs2,
    groups_of m members = gs1 ++ (key, pre ++ r :: post) :: gs2 /\ logs = gs1 ++ [(key, pre ++ [r])].
Proof. exact group_lists_raised. Qed.
Print Assumptions C04_grouplist_exception_shape.

(* GroupBy.count() on any set of any reachable state: keys in first-seen order, each count is the number of
   members with that key, and the counts add up to the size of the set *)
Theorem C04_groupby_count_partition : forall ops r m members,
  lookup r (sets (reached ops)) = Some members ->
  map fst (group_count (groups_of m members) (reached ops)) = group_keys m members /\
  (forall k c, In (k, c) (group_count (groups_of m members) (reached ops)) ->
               c = Z.of_nat (length (filter (fun a => gkey m a =? k) members))) /\
  zsum (map snd (group_count (groups_of m members) (reached ops))) = Z.of_nat (length members).
Proof. exact reached_count. Qed.
Print Assumptions C04_groupby_count_partition.

(* GroupBy.count / agg of the working tree (translated, not compared as text) are the model's functions *)
Theorem C04_source_count_agg : forall f attr gs s,
  run_gcomp gen_groupby_count f attr gs s = group_count gs s /\
  run_gcomp gen_groupby_agg f attr gs s = group_agg f attr gs s.
Proof. exact source_count_agg. Qed.
Print Assumptions C04_source_count_agg.

(* ------------------------------------------------------------------ non-vacuity *)
Definition ex_ops : list op :=
  [OAct (Create 0 3 false); OAct (Create 1 2 false); OAct (RemoveId 4 true); ONewSet [5; 4; 2; 1; 9; 2]].
Definition ex_sc : script :=
  [(5, [RemoveId 2 false; RemoveId 1 true]); (4, [Create 2 1 false]); (1, [RemoveSelf false])].

Example C04_example_reach :
  lookup (SUser 0) (sets (reached ex_ops)) = Some [5; 4; 2; 1] /\ reg (reached ex_ops) = [1; 2; 3; 5] /\
  ext (reached ex_ops) = [4] /\
  lookup (SType 0) (sets (reached ex_ops)) = Some [1; 2; 3] /\ lookup (SType 1) (sets (reached ex_ops)) = Some [5].
Proof. vm_compute. repeat split. Qed.

Example C04_example_do :
  exists s', activate (ex1 []) KDo [] ex_sc [5; 4; 2; 1] (reached ex_ops) = Some (s', [5; 4; 1], false) /\
             reg s' = [3; 5; 6] /\ lookup (SUser 0) (sets s') = Some [5; 4; 1] /\
             lookup (SType 2) (sets s') = Some [6] /\ lookup (SType 0) (sets s') = Some [3].
Proof. eexists. vm_compute. repeat split. Qed.

Example C04_example_shuffle :
  exists s', activate (ex1 []) KShuffleDo [2; 1; 5; 4] ex_sc [5; 4; 2; 1] (reached ex_ops) = Some (s', [2; 1; 5; 4], false) /\
             shuffle_then_do (ex1 []) [2; 1; 5; 4] ex_sc [5; 4; 2; 1] (reached ex_ops) = Some (s', [2; 1; 5; 4], false) /\
             lookup (SUser 0) (sets s') = Some [5; 4] /\ reg s' = [3; 5; 6].
Proof. eexists. vm_compute. repeat split. Qed.

Example C04_example_turn :
  (exists s1, turn_state (ex1 []) ex_sc [5; 4; 2; 1] (push_frame (reached ex_ops)) 2 = Some s1 /\ alive s1 2 = false /\ 2 < next_id s1) /\
  (exists s1, turn_state (ex1 []) ex_sc [5; 4; 2; 1] (push_frame (reached ex_ops)) 1 = Some s1 /\ alive s1 1 = true /\
              memz 1 (reg s1) = false).
Proof. split; eexists; vm_compute; repeat split; congruence. Qed.

(* agent 5 raises after removing 2: 4, 2, 1 are never visited, 2 is gone, the frame is released *)
Example C04_example_raise :
  exists s', activate (ex1 []) KDo [] [(5, [RemoveId 2 false; Raise; RemoveId 1 false])] [5; 4; 2; 1] (reached ex_ops)
             = Some (s', [5], true) /\ reg s' = [1; 3; 5] /\ cur s' = [].
Proof. eexists. vm_compute. repeat split. Qed.

(* agent 1, called by model.agents.do, runs agents_by_type[0].shuffle_do itself; in there 3 removes 1
   (the running outer agent) and 2 raises: inner log [3;2], the exception leaves both activations *)
Example C04_example_nested :
  exists s', activate (ex1 [(3, [RemoveId 1 false]); (2, [Raise])]) KDo [] [(1, [Nested KShuffleDo (SType 0) [3; 2; 1]])]
                      [1; 2; 3; 5] (reached ex_ops) = Some (s', [1], true) /\
             nlog s' = [-35; 3; 2] /\ reg s' = [2; 3; 5] /\ cur s' = [].
Proof. eexists. vm_compute. repeat split. Qed.

Example C04_example_calm_spares :
  let sc := [(3, [Create 1 2 true; AddRef 5]); (5, [DropRef 4])] in
  calm sc /\ (forall a, spares sc a) /\ ~ calm [(1, [Raise])] /\ ~ spares ex_sc 2.
Proof.
  split; [|split; [|split]].
  - intros r x Hx. simpl in Hx.
    destruct (r =? 3); [simpl in Hx; destruct Hx as [Hx|[Hx|Hx]]; [subst x; reflexivity|subst x; reflexivity|contradiction]|].
    destruct (r =? 5); [simpl in Hx; destruct Hx as [Hx|Hx]; [subst x; reflexivity|contradiction]|contradiction].
  - intros a r x Hx. simpl in Hx.
    destruct (r =? 3); [simpl in Hx; destruct Hx as [Hx|[Hx|Hx]]; [subst x; reflexivity|subst x; reflexivity|contradiction]|].
    destruct (r =? 5); [simpl in Hx; destruct Hx as [Hx|Hx]; [subst x; reflexivity|contradiction]|contradiction].
  - intros H. specialize (H 1 Raise). simpl in H. discriminate H. left. reflexivity.
  - intros H. specialize (H 5 (RemoveId 2 false)). simpl in H. discriminate H. left. reflexivity.
Qed.

Example C04_example_all_called :
  let sc := [(3, [Create 1 2 true; AddRef 5]); (5, [DropRef 4])] in
  exists s', activate (ex1 []) KShuffleDo [3; 5; 1; 2] sc (reg (reached ex_ops)) (reached ex_ops) = Some (s', [3; 5; 1; 2], false) /\
             reg s' = [1; 2; 3; 5; 6; 7] /\ ext s' = [6; 7; 5].
Proof. eexists. vm_compute. repeat split. Qed.

Example C04_example_groups :
  exists s', visit_groups (ex1 []) KDo ex_sc (groups_of 2 [5; 4; 2; 1]) [] (reached ex_ops)
             = Some (s', [(1, [5; 1]); (0, [4])], false).
Proof. eexists. vm_compute. reflexivity. Qed.

Example C04_example_args : obs_log [7; 8] [5; 4; 1] = [5; 7; 8; 4; 7; 8; 1; 7; 8].
Proof. reflexivity. Qed.

(* the translated do, by name and as a callable, on the example state; and what a STRONG snapshot
   (list(self._agents.keys())) would do instead: agent 2, removed and unreferenced, is still called -
   such a record fails the check *)
Example C04_example_source_run :
  (exists s', run_fn (ex1 []) ex_sc gen_do_fn true [] [5; 4; 2; 1] (reached ex_ops) = Some (s', [5; 4; 1], false)) /\
  (exists s', run_fn (ex1 []) ex_sc gen_shuffle_do_fn false [2; 1; 5; 4] [5; 4; 2; 1] (reached ex_ops) = Some (s', [2; 1; 5; 4], false)) /\
  let strong := {| af_test := af_test gen_do_fn;
                   af_then := {| al_src := SrcStrong; al_guard := fun _ => true; al_call := CallByName; al_fwd_args := true; al_fwd_kwargs := true |};
                   af_else := af_else gen_do_fn; af_ret := RetSelf |} in
  fn_ok KDo strong = false /\
  exists s', run_fn (ex1 []) ex_sc strong true [] [5; 4; 2; 1] (reached ex_ops) = Some (s', [5; 4; 2; 1], false).
Proof. split; [|split; [|split]]; try (eexists; vm_compute; reflexivity). Qed.

Example C04_example_source_registry :
  dereg_run 5 gen_deregister_order (reached ex_ops) = deregister 5 (reached ex_ops) /\
  reg (deregister 5 (reached ex_ops)) = [1; 2; 3] /\
  create_stmts gen_register_order 2 true (reached ex_ops) = create1 2 true (reached ex_ops) /\
  lookup (SType 2) (sets (create1 2 true (reached ex_ops))) = Some [6].
Proof. vm_compute. repeat split. Qed.

(* depth 3 with a caught exception: 1 runs user-set.map inside try/except (4 raises in there: caught,
   marked -36) and goes on to remove 4; 2 runs model.agents.do, in which 3 runs agents_by_type[0].do,
   in which 3 raises: that exception leaves all three activations *)
Definition ex_ops4 : list op :=
  [OAct (Create 0 1 false); OAct (Create 1 1 false); OAct (Create 0 1 false); OAct (Create 1 1 false); ONewSet [4; 3; 2; 1]].
Example C04_example_deep :
  exists s', activate (exN [[(4, [Raise]); (3, [Nested KDo (SType 0) []])]; [(1, [RemoveId 2 false]); (3, [Raise])]])
                      KDo [] [(1, [TryNested KMap (SUser 0) []; RemoveId 4 false]); (2, [Nested KDo SAll []])]
                      [1; 2; 3; 4] (reached ex_ops4) = Some (s', [1; 2], true) /\
             nlog s' = [-35; 4; -36; -35; 1; 3; -35; 1; 2; 3] /\ reg s' = [1; 3] /\ cur s' = [].
Proof. eexists. vm_compute. repeat split. Qed.

(* list groups: 1 removes 3 and 2 removes itself, both are still reached (the GroupBy holds them) *)
Example C04_example_grouplist :
  exists s', group_lists (exN []) [(1, [RemoveId 3 false]); (2, [RemoveSelf false])] 2 [1; 2; 3; 4] (reached ex_ops4)
             = (s', [(1, [1; 3]); (0, [2; 4])], false) /\ reg s' = [1; 4] /\ cur s' = [].
Proof. eexists. vm_compute. repeat split. Qed.

Example C04_example_group_bridge :
  exists s', run_gfn (ex1 []) ex_sc gen_groupby_do_fn true gen_do_fn false (groups_of 2 [5; 4; 2; 1]) [] (reached ex_ops)
             = Some (s', [(1, [5; 1]); (0, [4])], false).
Proof. eexists. vm_compute. reflexivity. Qed.

(* list groups, agent 3 raises: group 1 = [1;3] is cut after 3, group 0 is not reached *)
Example C04_example_grouplist_raise :
  exists s', group_lists (exN []) [(3, [Raise])] 2 [1; 2; 3; 4] (reached ex_ops4) = (s', [(1, [1; 3])], true) /\ cur s' = [].
Proof. eexists. vm_compute. repeat split. Qed.

Example C04_example_count :
  group_count (groups_of 3 [5; 4; 2; 1]) (reached ex_ops) = [(2, 2); (1, 2)] /\
  group_agg zsum (fun a => a) (groups_of 3 [5; 4; 2; 1]) (reached ex_ops) = [(2, 7); (1, 5)] /\
  run_gcomp gen_groupby_count zsum (fun a => a) (groups_of 3 [5; 4; 2; 1]) (reached ex_ops) = [(2, 2); (1, 2)].
Proof. vm_compute. repeat split. Qed.
