From Coq Require Import ZArith List Bool.
From Mesa Require Import Common.ListX Model.Activation Proofs.ActivationProofs.
Import ListNotations.
Open Scope Z_scope.
Theorem C04_stub : forall sc s, visit sc [] s = (s, []).
Proof. exact visit_nil. Qed.
Print Assumptions C04_stub.
