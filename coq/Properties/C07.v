(* C07 - cell-space connections and neighbourhoods are exactly the geometry's.
   ONLY statements closed by `exact`, with Print Assumptions beneath each. *)
From Coq Require Import ZArith List Bool PeanoNat.
From Mesa Require Import Common.ListX Generated.Tables Model.CellGeom Proofs.CellGeomProofs.
Import ListNotations.
Open Scope Z_scope.

(* ---------------------------------------------------------------- neighbourhoods ------------- *)
(* For EVERY connection function (any topology: self-connected cells, cells without connections,
   asymmetric connections), every radius S n >= 1, both flags, every cell: the neighbourhood computed
   by the (repaired) recursion of Cell._neighborhood is exactly the set of cells within S n connection
   hops, the cell itself being a member if and only if include_center is set. *)
Theorem C07_nbhd_is_ball : forall (conn : cell -> list cell) n ic c d,
  In d (nbhd conn n ic c) <-> (d <> c /\ within conn (S n) c d) \/ (ic = true /\ d = c).
Proof. exact nbhd_is_ball. Qed.
Print Assumptions C07_nbhd_is_ball.

Theorem C07_nbhd_nodup : forall conn n ic c, NoDup (nbhd conn n ic c).
Proof. exact nbhd_NoDup. Qed.
Print Assumptions C07_nbhd_nodup.

Theorem C07_center_rule : forall conn n ic c, In c (nbhd conn n ic c) <-> ic = true.
Proof. exact center_rule. Qed.
Print Assumptions C07_center_rule.

Theorem C07_nbhd_monotone : forall conn n n' ic c d,
  (n <= n')%nat -> In d (nbhd conn n ic c) -> In d (nbhd conn n' ic c).
Proof. exact nbhd_mono. Qed.
Print Assumptions C07_nbhd_monotone.

(* connection symmetric => "is in the radius-r neighbourhood of" is symmetric *)
Theorem C07_nbhd_symmetric : forall conn n ic c d,
  (forall a b, In b (conn a) -> In a (conn b)) ->
  In d (nbhd conn n ic c) -> In c (nbhd conn n ic d).
Proof. exact nbhd_sym. Qed.
Print Assumptions C07_nbhd_symmetric.

(* The recursion as it stands in the UNCHANGED source (nbhd_src) agrees with the repaired one when
   no cell is connected to itself, every cell has a connection and connections are symmetric ... *)
Theorem C07_nbhd_src_partial : forall conn,
  (forall a, conn a <> []) -> (forall a, ~ In a (conn a)) ->
  (forall a b, In b (conn a) -> In a (conn b)) ->
  forall n ic c d, In d (nbhd_src conn n ic c) <-> In d (nbhd conn n ic c).
Proof. exact nbhd_src_agrees. Qed.
Print Assumptions C07_nbhd_src_partial.

(* ... and violates the statement in the two corners repaired by fixes/C07-1: a self-connected cell
   (size-1 torus axis) is in its own radius-1 neighbourhood without include_center; a cell without
   connections (1x1 grid, isolated node) is missing from its radius-2 neighbourhood with include_center. *)
Theorem C07_nbhd_src_refuted :
  (exists conn n c, In c (nbhd_src conn n false c)) /\
  (exists conn n c, ~ In c (nbhd_src conn n true c)).
Proof. exact nbhd_src_refuted. Qed.
Print Assumptions C07_nbhd_src_refuted.

(* ---------------------------------------------------------------- caches --------------------- *)
(* the parameter tuples functools.cache keys on, re-extracted from cell.py on every run, name the
   cell, the radius and the flag *)
Theorem C07_source_keys_complete :
  cfg_ok gen_cell_inner_cache = true /\ cfg_ok gen_cell_get_cache = true.
Proof. vm_compute. split; reflexivity. Qed.
Print Assumptions C07_source_keys_complete.

(* hence EVERY history of operations on one space (get_neighborhood in any call shape, .neighborhood,
   re-reading the connections, in any order and with any repetition) observes, operation by operation,
   what a fresh space with the same connection table answers: spec_run consults no cache. *)
Theorem C07_cache_transparent : forall c,
  run_case c = spec_run (c_space c) None (c_ops c).
Proof.
  intros c. apply run_ops_init; [exact (proj1 C07_source_keys_complete)|exact (proj2 C07_source_keys_complete)].
Qed.
Print Assumptions C07_cache_transparent.

(* the same for any cache configuration whose keys are complete (or no caching at all) *)
Theorem C07_cache_transparent_any : forall pI pG cprop sp ops,
  cfg_ok pI = true -> cfg_ok pG = true ->
  run_ops pI pG cprop sp init_state ops = spec_run sp None ops.
Proof. intros. apply run_ops_init; assumption. Qed.
Print Assumptions C07_cache_transparent_any.

(* non-vacuity: the 1x3 Moore torus of defect #5 (every cell connected to itself and twice to the others) *)
Example C07_example_nbhd :
  let conn := conn_of [[2;0;1;2;1;2;0;1]; [0;1;2;0;2;0;1;2]; [1;2;0;1;0;1;2;0]] in
  nbhd conn 0 false 0 = [2; 1] /\ nbhd conn 1 true 0 = [1; 2; 0] /\
  within conn 1 0 0 /\ nbhd_src conn 0 false 0 = [2; 0; 1].
Proof.
  vm_compute. split; [reflexivity|]. split; [reflexivity|]. split; [|reflexivity].
  exists 0%nat. split; [apply Nat.le_0_l|apply hops_O].
Qed.

Example C07_example_history :
  run_case {| c_space := SOrth true [1; 3] true;
              c_ops := [Nbhd 0 0 1 false; Build [[2;0;1;2;1;2;0;1]; [0;1;2;0;2;0;1;2]; [1;2;0;1;0;1;2;0]];
                        Nbhd 0 0 2 true; Nbhd 1 0 1 false; Nbhd 0 0 2 true; NbhdProp 0; Nbhd 2 1 0 true; Nbhd 0 7 1 true] |}
  = [[-2]; [-5; 9000002; 10000000; 11000001; 12000002; 14000001; 15000002; 16000000; 17000001;
            -5; 9000000; 10000001; 11000002; 12000000; 14000002; 15000000; 16000001; 17000002;
            -5; 9000001; 10000002; 11000000; 12000001; 14000000; 15000001; 16000002; 17000000];
     [0; 0; 1; 2]; [0; 1; 2]; [0; 0; 1; 2]; [0; 1; 2]; [-1; 1]; [-2]].
Proof. vm_compute. reflexivity. Qed.
