(* C07 - cell-space connections and neighbourhoods are exactly the geometry's.
   ONLY statements closed by `exact`, with Print Assumptions beneath each. *)
From Coq Require Import ZArith List Bool PeanoNat.
From Mesa Require Import Common.ListX Generated.Tables Model.CellGeom Proofs.CellGeomProofs Proofs.CellGeomBridge.
Import ListNotations.
Open Scope Z_scope.

(* ---------------------------------------------------------------- neighbourhoods ------------- *)
(* For EVERY connection function (any topology: self-connected cells, cells without connections,
   asymmetric connections), every radius S n >= 1, both flags, every cell: the neighbourhood computed
   by the (repaired) recursion of Cell._neighborhood is exactly the set of cells within S n connection
   hops, the cell itself being a member if and only if include_center is set. *)
Theorem C07_nbhd_is_ball : forall (conn : cell -> list cell) n ic c d,
  In d (nbhd conn n ic c) <-> (d <> c /\ within conn (S n) c d) \/ (ic = true /\ d = c).
Proof. exact nbhd_is_ball. Qed.
Print Assumptions C07_nbhd_is_ball.

Theorem C07_nbhd_nodup : forall conn n ic c, NoDup (nbhd conn n ic c).
Proof. exact nbhd_NoDup. Qed.
Print Assumptions C07_nbhd_nodup.

Theorem C07_center_rule : forall conn n ic c, In c (nbhd conn n ic c) <-> ic = true.
Proof. exact center_rule. Qed.
Print Assumptions C07_center_rule.

Theorem C07_nbhd_monotone : forall conn n n' ic c d,
  (n <= n')%nat -> In d (nbhd conn n ic c) -> In d (nbhd conn n' ic c).
Proof. exact nbhd_mono. Qed.
Print Assumptions C07_nbhd_monotone.

(* connection symmetric => "is in the radius-r neighbourhood of" is symmetric *)
Theorem C07_nbhd_symmetric : forall conn n ic c d,
  (forall a b, In b (conn a) -> In a (conn b)) ->
  In d (nbhd conn n ic c) -> In c (nbhd conn n ic d).
Proof. exact nbhd_sym. Qed.
Print Assumptions C07_nbhd_symmetric.

(* The recursion as it stands in the UNCHANGED source (nbhd_src) agrees with the repaired one when
   no cell is connected to itself, every cell has a connection and connections are symmetric ... *)
Theorem C07_nbhd_src_partial : forall conn,
  (forall a, conn a <> []) -> (forall a, ~ In a (conn a)) ->
  (forall a b, In b (conn a) -> In a (conn b)) ->
  forall n ic c d, In d (nbhd_src conn n ic c) <-> In d (nbhd conn n ic c).
Proof. exact nbhd_src_agrees. Qed.
Print Assumptions C07_nbhd_src_partial.

(* ... and violates the statement in the two corners repaired by fixes/C07-1: a self-connected cell
   (size-1 torus axis) is in its own radius-1 neighbourhood without include_center; a cell without
   connections (1x1 grid, isolated node) is missing from its radius-2 neighbourhood with include_center. *)
Theorem C07_nbhd_src_refuted :
  (exists conn n c, In c (nbhd_src conn n false c)) /\
  (exists conn n c, ~ In c (nbhd_src conn n true c)).
Proof. exact nbhd_src_refuted. Qed.
Print Assumptions C07_nbhd_src_refuted.

(* ---------------------------------------------------------------- caches --------------------- *)
(* the parameter tuples functools.cache keys on, re-extracted from cell.py on every run, name the
   cell, the radius and the flag *)
Theorem C07_source_keys_complete :
  cfg_ok gen_cell_inner_cache = true /\ cfg_ok gen_cell_get_cache = true.
Proof. vm_compute. split; reflexivity. Qed.
Print Assumptions C07_source_keys_complete.

(* hence EVERY history of operations on one space (get_neighborhood in any call shape, .neighborhood,
   re-reading the connections, in any order and with any repetition) observes, operation by operation,
   what a fresh space with the same connection table answers: spec_run consults no cache. *)
Theorem C07_cache_transparent : forall c,
  run_case c = spec_run (c_space c) None [] (c_ops c).
Proof.
  intros c. apply run_ops_init; [exact (proj1 C07_source_keys_complete)|exact (proj2 C07_source_keys_complete)].
Qed.
Print Assumptions C07_cache_transparent.

(* the same for any cache configuration whose keys are complete (or no caching at all) *)
Theorem C07_cache_transparent_any : forall pI pG cprop sp ops,
  cfg_ok pI = true -> cfg_ok pG = true ->
  run_ops pI pG cprop sp init_state ops = spec_run sp None [] ops.
Proof. intros. apply run_ops_init; assumption. Qed.
Print Assumptions C07_cache_transparent_any.

(* non-vacuity: the 1x3 Moore torus of defect #5 (every cell connected to itself and twice to the others) *)
Example C07_example_nbhd :
  let conn := conn_of [[2;0;1;2;1;2;0;1]; [0;1;2;0;2;0;1;2]; [1;2;0;1;0;1;2;0]] in
  nbhd conn 0 false 0 = [2; 1] /\ nbhd conn 1 true 0 = [1; 2; 0] /\
  within conn 1 0 0 /\ nbhd_src conn 0 false 0 = [2; 0; 1].
Proof.
  vm_compute. split; [reflexivity|]. split; [reflexivity|]. split; [|reflexivity].
  exists 0%nat. split; [apply Nat.le_0_l|apply hops_O].
Qed.

Example C07_example_history :
  run_case {| c_space := SOrth true [1; 3] true;
              c_ops := [Nbhd 0 0 1 false; Build [[2;0;1;2;1;2;0;1]; [0;1;2;0;2;0;1;2]; [1;2;0;1;0;1;2;0]];
                        Nbhd 0 0 2 true; Nbhd 1 0 1 false; Nbhd 0 0 2 true; NbhdProp 0; Nbhd 2 1 0 true; Nbhd 0 7 1 true] |}
  = [[-2]; [-5; 9000002; 10000000; 11000001; 12000002; 14000001; 15000002; 16000000; 17000001;
            -5; 9000000; 10000001; 11000002; 12000000; 14000002; 15000000; 16000001; 17000002;
            -5; 9000001; 10000002; 11000000; 12000001; 14000000; 15000001; 16000002; 17000000];
     [0; 0; 1; 2]; [0; 1; 2]; [0; 0; 1; 2]; [0; 1; 2]; [-1; 1]; [-2]].
Proof. vm_compute. reflexivity. Qed.

(* ---------------------------------------------------------------- orthogonal grids ----------- *)
(* the n-D offset constructions of OrthogonalMooreGrid / OrthogonalVonNeumannGrid._connect_cells_nd,
   for EVERY number of axes: exactly the offsets of Chebyshev / Manhattan norm 1, none twice
   (so no connection key is overwritten) *)
Theorem C07_nd_offsets_moore : forall n d,
  In d (moore_offsets n) <-> length d = n /\ norm_inf d = 1.
Proof. exact moore_offsets_spec. Qed.
Print Assumptions C07_nd_offsets_moore.

Theorem C07_nd_offsets_vn : forall n d,
  In d (vn_offsets n) <-> length d = n /\ norm_1 d = 1.
Proof. exact vn_offsets_spec. Qed.
Print Assumptions C07_nd_offsets_vn.

Theorem C07_offsets_nodup : forall n, NoDup (moore_offsets n) /\ NoDup (vn_offsets n).
Proof. intros n. split; [exact (moore_offsets_NoDup n)|exact (vn_offsets_NoDup n)]. Qed.
Print Assumptions C07_offsets_nodup.

(* the 2-D tables regenerated from grid.py on this run: exactly the norm-1 offsets, none twice *)
Theorem C07_tables_2d :
  (forall a b, In (a, b) gen_moore_offsets_2d <-> Z.max (Z.abs a) (Z.abs b) = 1) /\
  (forall a b, In (a, b) gen_vn_offsets_2d <-> Z.abs a + Z.abs b = 1) /\
  NoDup gen_moore_offsets_2d /\ NoDup gen_vn_offsets_2d.
Proof. apply tables_2d_of_check. vm_compute. reflexivity. Qed.
Print Assumptions C07_tables_2d.

(* ... and the 2-D helper (i, j = coordinate; height, width = dimensions) is the n-D one on two axes *)
Theorem C07_2d_is_nd : forall torus h w i j di dj,
  connect_2d torus [h; w] [i; j] (di, dj) = connect_nd torus [h; w] [i; j] [di; dj].
Proof. exact connect_2d_eq_nd. Qed.
Print Assumptions C07_2d_is_nd.

(* cell c is connected under offset d to c+d, wrapped on a torus, absent beyond the edge; for every
   dimension vector (any number of axes, any sizes incl. 1 and 2) *)
Theorem C07_conn_spec : forall torus dims c d c',
  connect_nd torus dims c d = Some c' <->
  c' = (if torus then wrap dims (vadd c d) else vadd c d) /\ in_bounds dims c' = true.
Proof. exact connect_nd_spec. Qed.
Print Assumptions C07_conn_spec.

Theorem C07_in_bounds_spec : forall dims c, length c = length dims ->
  (in_bounds dims c = true <-> Forall2 (fun x n => 0 <= x < n) c dims).
Proof. exact in_bounds_spec. Qed.
Print Assumptions C07_in_bounds_spec.

(* the connections of a cell are exactly (d, target) for the offsets d that connect, each key once *)
Theorem C07_cell_connections : forall torus dims offsets c,
  (forall d c', In (d, c') (conns_nd torus dims offsets c) <-> In d offsets /\ connect_nd torus dims c d = Some c') /\
  (NoDup offsets -> NoDup (map fst (conns_nd torus dims offsets c))).
Proof. intros. split; [intros; apply conns_nd_In|apply conns_nd_keys_NoDup]. Qed.
Print Assumptions C07_cell_connections.

(* cell.connections is a dict filled by  connections[d] = target : since no offset occurs twice
   (C07_offsets_nodup, C07_tables_2d) nothing is overwritten and the dict is the list the model uses *)
Theorem C07_connections_dict : forall torus dims offsets c,
  NoDup offsets -> conns_dict torus dims offsets c = conns_nd torus dims offsets c.
Proof. exact conns_dict_eq. Qed.
Print Assumptions C07_connections_dict.

(* connection is symmetric: the target is connected back under the opposite offset (which is again an
   offset of the same family), for every dimension vector, torus or not *)
Theorem C07_symmetric : forall torus dims c d c',
  length c = length dims -> length d = length dims -> in_bounds dims c = true ->
  connect_nd torus dims c d = Some c' -> connect_nd torus dims c' (map Z.opp d) = Some c.
Proof. exact connect_nd_symmetric. Qed.
Print Assumptions C07_symmetric.

Theorem C07_offsets_closed_under_opp : forall n d,
  (In d (moore_offsets n) -> In (map Z.opp d) (moore_offsets n)) /\
  (In d (vn_offsets n) -> In (map Z.opp d) (vn_offsets n)).
Proof. intros n d. split; [apply moore_offsets_opp|apply vn_offsets_opp]. Qed.
Print Assumptions C07_offsets_closed_under_opp.

(* THE CONNECTION STATEMENT for OrthogonalMooreGrid (moore = true) / OrthogonalVonNeumannGrid (false) as the
   source builds them (2 axes: the regenerated tables through _connect_single_cell_2d; otherwise the n-D
   constructions through _connect_single_cell_nd): for every dimension vector, torus flag and cell c, the
   cell's connections are exactly  d |-> c+d  (wrapped on a torus) for the offsets d of Chebyshev /
   Manhattan norm 1 whose target lies inside the grid. *)
Theorem C07_conn_spec_orth : forall moore torus dims c d c', length c = length dims ->
  (In (d, c') (orth_conns moore torus dims c) <->
   length d = length dims /\ (if moore then norm_inf d else norm_1 d) = 1 /\
   c' = (if torus then wrap dims (vadd c d) else vadd c d) /\ in_bounds dims c' = true).
Proof. apply orth_conns_spec. vm_compute. reflexivity. Qed.
Print Assumptions C07_conn_spec_orth.

(* cells are identified in observations by their position in all_cells (= itertools.product order):
   the mixed-radix id of an in-grid coordinate is that position *)
Theorem C07_cell_ids : forall dims, Forall (fun d => 0 < d) dims ->
  forall c, length c = length dims -> in_bounds dims c = true ->
  0 <= coord_id dims c < dims_prod dims /\
  nth_error (all_coords dims) (Z.to_nat (coord_id dims c)) = Some c.
Proof. exact coord_id_index. Qed.
Print Assumptions C07_cell_ids.

(* ---------------------------------------------------------------- the geometric reading ------- *)
(* For EVERY dimension vector (any number of axes, sizes >= 1 incl. 1 and 2), torus flag, cell c and radius r:
   the r-hop ball of the Moore (von Neumann) connection relation is exactly the set of in-grid cells whose
   Chebyshev (Manhattan) distance from c is <= r, the per-axis distance being min((a-b) mod n, (b-a) mod n)
   on a torus and |a-b| otherwise (gdist).  Both directions are constructive: a step changes the distance by
   at most the norm of its offset; `toward` gives a neighbour one nearer (Moore moves all axes, von Neumann one). *)
Theorem C07_ball_is_metric_ball : forall moore torus dims r c d, good dims c ->
  ((exists k, (k <= r)%nat /\ ghops (conn_c moore torus dims) k c d) <->
   good dims d /\ gdist moore torus dims c d <= Z.of_nat r).
Proof. apply ball_is_metric. vm_compute. reflexivity. Qed.
Print Assumptions C07_ball_is_metric_ball.

(* ... combined with C07_nbhd_is_ball, about the model's neighbourhood function (the repaired
   Cell._neighborhood) running on the model's own connection table of the grid (id_conn = conn_of of the table
   whose observation T2 compares with the implementation's connections), cells named by their position in
   all_cells: the radius-(S n) neighbourhood of c is exactly the in-grid cells at distance 1..S n, plus c itself
   iff include_center; and it contains nothing but cells of the grid. *)
Theorem C07_nbhd_is_metric_ball : forall moore torus dims, Forall (fun d => 0 < d) dims ->
  forall c, good dims c -> forall n ic,
  (forall d, good dims d ->
     (In (coord_id dims d) (nbhd (id_conn moore torus dims) n ic (coord_id dims c)) <->
      (1 <= gdist moore torus dims c d <= Z.of_nat (S n)) \/ (ic = true /\ d = c))) /\
  (forall z, In z (nbhd (id_conn moore torus dims) n ic (coord_id dims c)) ->
     exists d, good dims d /\ z = coord_id dims d).
Proof. apply nbhd_metric_ball. vm_compute. reflexivity. Qed.
Print Assumptions C07_nbhd_is_metric_ball.

Example C07_example_metric :
  good [2; 1; 4] [1; 0; 3] /\ good [2; 1; 4] [0; 0; 1] /\
  gdist true true [2; 1; 4] [1; 0; 3] [0; 0; 1] = 2 /\ gdist false true [2; 1; 4] [1; 0; 3] [0; 0; 1] = 3 /\
  gdist false false [2; 1; 4] [1; 0; 3] [0; 0; 1] = 3 /\
  In (coord_id [2; 1; 4] [0; 0; 1]) (nbhd (id_conn true true [2; 1; 4]) 1 false (coord_id [2; 1; 4] [1; 0; 3])) /\
  ~ In (coord_id [2; 1; 4] [0; 0; 1]) (nbhd (id_conn false true [2; 1; 4]) 1 false (coord_id [2; 1; 4] [1; 0; 3])).
Proof.
  vm_compute. repeat split; try reflexivity; try (intros H; repeat (destruct H as [H|H]; [discriminate|]); destruct H).
  auto 20.
Qed.

(* ---------------------------------------------------------------- hex ------------------------ *)
(* with the even/odd tables and the parity selector regenerated from HexGrid._connect_cells_2d:
   for EVERY cell (i, j) of Z^2, (di, dj) is one of its offsets iff the hexagons of (i, j) and
   (i+di, j+dj) touch, i.e. are at cube distance 1 (even-q layout, column = coordinate[1]) *)
Theorem C07_hex_touching : forall i j di dj,
  In (di, dj) (hex_offsets [i; j]) <-> cube_dist i j (i + di) (j + dj) = 1.
Proof. apply hex_touching_of_tables. vm_compute. reflexivity. Qed.
Print Assumptions C07_hex_touching.

(* THE CONNECTION STATEMENT for HexGrid: the connections of cell (i, j) are exactly  (di, dj) |-> (i+di, j+dj)
   (wrapped on a torus, absent beyond the edge) for the cells whose hexagons touch it *)
Theorem C07_conn_spec_hex : forall torus h w i j k c',
  (In (k, c') (hex_conns torus [h; w] [i; j]) <->
   exists di dj, k = [di; dj] /\ cube_dist i j (i + di) (j + dj) = 1 /\
     c' = (if torus then wrap [h; w] (vadd [i; j] [di; dj]) else vadd [i; j] [di; dj]) /\
     in_bounds [h; w] c' = true).
Proof. apply hex_conns_spec. vm_compute. reflexivity. Qed.
Print Assumptions C07_conn_spec_hex.

(* hex connections are symmetric without wrapping and on tori whose parity axis has even size *)
Theorem C07_hex_symmetric : forall torus h w i j di dj c',
  0 < h -> 0 < w -> (torus = false \/ w mod 2 = 0) ->
  in_bounds [h; w] [i; j] = true ->
  In (di, dj) (hex_offsets [i; j]) ->
  connect_2d torus [h; w] [i; j] (di, dj) = Some c' ->
  In (- di, - dj) (hex_offsets c') /\ connect_2d torus [h; w] c' (- di, - dj) = Some [i; j].
Proof. apply hex_symmetric. vm_compute. reflexivity. Qed.
Print Assumptions C07_hex_symmetric.

(* on a torus with an ODD parity axis the wrapped hexagonal tiling does not exist: asymmetric *)
Theorem C07_hex_odd_torus_refuted :
  exists c d c', In d (hex_offsets c) /\ connect_2d true [3; 3] c d = Some c' /\
    forall d', In d' (hex_offsets c') -> connect_2d true [3; 3] c' d' <> Some c.
Proof. exact hex_odd_torus_asymmetric. Qed.
Print Assumptions C07_hex_odd_torus_refuted.

(* ---------------------------------------------------------------- network -------------------- *)
(* a Network's connections are the graph's edges (adjacency built like networkx add_edges_from) *)
Theorem C07_network : forall edges u v,
  In v (net_adj edges u) <-> In (u, v) edges \/ In (v, u) edges.
Proof. exact net_adj_In. Qed.
Print Assumptions C07_network.

Theorem C07_network_symmetric : forall edges u v,
  (In v (net_adj edges u) -> In u (net_adj edges v)) /\ NoDup (net_adj edges u).
Proof. intros. split; [apply net_adj_sym|apply net_adj_NoDup]. Qed.
Print Assumptions C07_network_symmetric.

(* ---------------------------------------------------------------- Voronoi (specification) ----- *)
(* what the implementation's connections are compared with: i ~ j iff i <> j and (only two centroids,
   or) some third centroid spans with them a proper circle with no centroid strictly inside -
   decided with exact integer arithmetic; symmetric.  Bowyer-Watson itself is not modelled. *)
Theorem C07_delaunay_spec : forall pts i j,
  delaunay_adj pts i j = true <->
  i <> j /\ (Z.of_nat (length pts) = 2 \/
             exists k, In k (idxs pts) /\ k <> i /\ k <> j /\
               let a := znth pts i (0, 0) in let b := znth pts j (0, 0) in let c := znth pts k (0, 0) in
               orient a b c <> 0 /\ forall p, In p pts -> strictly_inside a b c p = false).
Proof. exact delaunay_adj_spec. Qed.
Print Assumptions C07_delaunay_spec.

(* the integer in-circle test means what it says: with U = circumcentre of a, b, c (the point at equal
   distance from the three), p is strictly_inside iff p is strictly nearer to U than a is
   (sdist2 = squared distance to U scaled by (2 * orient a b c)^2, so that everything stays in Z) *)
Theorem C07_incircle_geometric : forall a b c p, orient a b c <> 0 ->
  (sdist2 a b c b = sdist2 a b c a /\ sdist2 a b c c = sdist2 a b c a) /\
  (strictly_inside a b c p = true <-> sdist2 a b c p < sdist2 a b c a).
Proof. intros a b c p H. split; [exact (circ_equidistant a b c)|exact (strictly_inside_geometric a b c p H)]. Qed.
Print Assumptions C07_incircle_geometric.

Theorem C07_delaunay_symmetric : forall pts i j, delaunay_adj pts i j = delaunay_adj pts j i.
Proof. exact delaunay_adj_sym. Qed.
Print Assumptions C07_delaunay_symmetric.

(* TRANSLATION VALIDATION of the implementation's triangulation (op Cert: the triangles exported by
   VoronoiGrid.triangulation, checked by vm_compute in every Cases run): if delaunay_cert accepts them, then
   i-j is an edge of some exported triangle iff i <> j and some third centroid spans with them a proper circle
   with no centroid strictly inside (exact integer tests) ... *)
Theorem C07_voronoi_cert_sound : forall pts tris, delaunay_cert pts tris = true ->
  forall i j, In i (idxs pts) -> In j (idxs pts) ->
  (tri_adj tris i j = true <->
   i <> j /\ exists k, In k (idxs pts) /\ k <> i /\ k <> j /\
                       empty_circle pts (pnt pts i) (pnt pts j) (pnt pts k) = true).
Proof. exact cert_sound. Qed.
Print Assumptions C07_voronoi_cert_sound.

(* ... i.e. (more than two centroids) the certified triangulation has exactly the edges of the specification
   the connections are compared with *)
Theorem C07_voronoi_cert_delaunay : forall pts tris,
  delaunay_cert pts tris = true -> Z.of_nat (length pts) <> 2 ->
  forall i j, In i (idxs pts) -> In j (idxs pts) -> tri_adj tris i j = delaunay_adj pts i j.
Proof. exact cert_delaunay. Qed.
Print Assumptions C07_voronoi_cert_delaunay.

Example C07_example_cert :
  let pts := [(0, 0); (4, 0); (0, 4); (4, 4); (2, 1)] in
  delaunay_cert pts [(4, 0, 1); (4, 1, 3); (4, 3, 2); (4, 2, 0)] = true /\
  delaunay_cert pts [(4, 0, 1); (4, 1, 3); (4, 3, 2)] = false /\
  delaunay_cert pts [(0, 1, 3); (0, 3, 2); (4, 0, 1)] = false /\
  tri_adj [(4, 0, 1); (4, 1, 3); (4, 3, 2); (4, 2, 0)] 2 0 = true.
Proof. vm_compute. repeat split; reflexivity. Qed.

(* non-vacuity *)
Example C07_example_grid :
  connect_nd true [1; 2; 4] [0; 1; 3] [-1; 1; 1] = Some [0; 0; 0] /\
  In [-1; 1; 1] (moore_offsets 3) /\ in_bounds [1; 2; 4] [0; 1; 3] = true /\
  connect_nd false [1; 2; 4] [0; 1; 3] [0; 0; 1] = None /\ length (vn_offsets 4) = 8%nat.
Proof. vm_compute. repeat split; try reflexivity. right; right; right; right; right; right; right; right. left. reflexivity. Qed.

Example C07_example_hex :
  hex_offsets [2; 3] = gen_hex_even_offsets /\ In (-1, 1) (hex_offsets [2; 3]) /\
  connect_2d true [3; 4] [0; 3] (-1, 1) = Some [2; 0] /\ In (1, -1) (hex_offsets [2; 0]).
Proof. vm_compute. repeat split; try reflexivity; auto 10. Qed.

Example C07_example_delaunay :
  delaunay_nbrs [(0, 0); (4, 0); (0, 4); (4, 4); (2, 1)] 0 = [1; 2; 4] /\
  delaunay_adj [(0, 0); (4, 0); (0, 4); (4, 4); (2, 1)] 0 3 = false /\
  net_adj [(0, 1); (2, 0)] 0 = [1; 2].
Proof. vm_compute. repeat split; reflexivity. Qed.

(* ---------------------------------------------------------------- code-level T1: theorems about the translated source *)
(* harness/tables/cellgeom_code.py re-translates, on every run, Grid._connect_single_cell_2d / _nd (offset loop,
   zip-add, % under torus, bounds test, connect as emission of (key, target)), the literals of the two n-D offset
   constructions and the conditions / recursive-call arguments of Cell._neighborhood into gen_* definitions
   (Generated.Tables); the glue that cannot be translated is checked verbatim: *)
Theorem C07_source_skeletons :
  gen_grid_dispatch_skeleton_ok = true /\ gen_cell_connect_skeleton_ok = true /\ gen_cell_nbhd_skeleton_ok = true.
Proof. vm_compute. repeat split; reflexivity. Qed.
Print Assumptions C07_source_skeletons.

(* the translated helpers ARE the functions of the model (robust bridge: both sides case-split, lia) *)
Theorem C07_source_connect_is_model : forall torus h w i j offsets dims offs c,
  conns_2d torus [h; w] offsets [i; j] = map conv2 (gen_connect_2d torus h w i j offsets) /\
  conns_nd torus dims offs c = gen_connect_nd torus dims c offs.
Proof. intros. split; [apply connect_2d_bridge|apply connect_nd_bridge]. Qed.
Print Assumptions C07_source_connect_is_model.

(* the n-D offset lists built from the literals found in the source are the norm-1 offsets *)
Theorem C07_source_offsets_nd : forall n d,
  (In d (moore_offsets_src n) <-> length d = n /\ norm_inf d = 1) /\
  (In d (vn_offsets_src n) <-> length d = n /\ norm_1 d = 1).
Proof.
  intros n d. split.
  - rewrite moore_src_In by (vm_compute; reflexivity). apply moore_offsets_spec.
  - rewrite vn_src_In by (vm_compute; reflexivity). apply vn_offsets_spec.
Qed.
Print Assumptions C07_source_offsets_nd.

(* THE CONNECTION STATEMENT about the translated code: n-D path ... *)
Theorem C07_conn_spec_nd_of_source : forall (moore torus : bool) dims c d c',
  In (d, c') (gen_connect_nd torus dims c
                (if moore then moore_offsets_src (length dims) else vn_offsets_src (length dims))) <->
  length d = length dims /\ (if moore then norm_inf d else norm_1 d) = 1 /\
  c' = (if torus then wrap dims (vadd c d) else vadd c d) /\ in_bounds dims c' = true.
Proof. apply conn_spec_nd_of_source; vm_compute; reflexivity. Qed.
Print Assumptions C07_conn_spec_nd_of_source.

(* ... and 2-D path (regenerated tables through the translated 2-D helper) *)
Theorem C07_conn_spec_2d_of_source : forall (moore torus : bool) h w i j a b x y,
  In ((a, b), (x, y)) (gen_connect_2d torus h w i j (if moore then gen_moore_offsets_2d else gen_vn_offsets_2d)) <->
  (if moore then Z.max (Z.abs a) (Z.abs b) else Z.abs a + Z.abs b) = 1 /\
  [x; y] = (if torus then wrap [h; w] (vadd [i; j] [a; b]) else vadd [i; j] [a; b]) /\
  in_bounds [h; w] [x; y] = true.
Proof. apply conn_spec_2d_of_source. vm_compute. reflexivity. Qed.
Print Assumptions C07_conn_spec_2d_of_source.

(* Cell._neighborhood: the statement skeleton of the source with the TRANSLATED conditions (radius < 1, radius == 1,
   include_center) and recursive-call arguments (radius - 1, include_center=True), recursing on the integer radius,
   is the model's recursion; an invalid radius raises *)
Theorem C07_source_nbhd_is_model : forall conn n ic c fuel r,
  src_nbhd conn (S n) (Z.of_nat n + 1) ic c = Some (nbhd conn n ic c) /\
  (r < 1 -> src_nbhd conn fuel r ic c = None).
Proof. intros. split; [apply src_nbhd_model|apply src_nbhd_invalid]. Qed.
Print Assumptions C07_source_nbhd_is_model.

(* ... so the neighbourhood theorem holds of the translated source itself *)
Theorem C07_nbhd_is_ball_of_source : forall conn r ic c, 1 <= r ->
  exists l, src_nbhd conn (Z.to_nat r) r ic c = Some l /\ NoDup l /\
    forall d, In d l <-> (d <> c /\ within conn (Z.to_nat r) c d) \/ (ic = true /\ d = c).
Proof. exact nbhd_is_ball_of_source. Qed.
Print Assumptions C07_nbhd_is_ball_of_source.

Example C07_example_source :
  gen_connect_2d true 1 3 0 0 gen_vn_offsets_2d = [((-1, 0), (0, 0)); ((0, -1), (0, 2)); ((0, 1), (0, 1)); ((1, 0), (0, 0))] /\
  gen_connect_nd false [2; 2; 2] [0; 1; 1] (vn_offsets_src 3) = [([1; 0; 0], [1; 1; 1]); ([0; -1; 0], [0; 0; 1]); ([0; 0; -1], [0; 1; 0])] /\
  src_nbhd (fun _ => [0]) 2 2 false 0 = Some [] /\ src_nbhd (fun _ => []) 3 3 true 0 = Some [0] /\
  src_nbhd (fun _ => [0]) 5 0 true 0 = None.
Proof. vm_compute. repeat split; reflexivity. Qed.

(* ---------------------------------------------------------------- round 3: hex selector, Network, Voronoi end to end, CellCollection *)
(* the TRANSLATED selector test of HexGrid._connect_cells_2d (gen_hex_select, whatever way the source writes the
   parity test) depends on the parity of the coordinate only; C07_hex_touching / C07_conn_spec_hex above are re-checked
   against it and the regenerated tables on every run *)
Theorem C07_hex_selector_is_parity : forall p, gen_hex_select p = gen_hex_select (p mod 2).
Proof. exact hex_select_parity. Qed.
Print Assumptions C07_hex_selector_is_parity.

(* Network: the connections the translated _connect_single_cell makes from G.neighbors(u): key = target = every graph
   neighbour (undirected simple graphs: the statement) *)
Theorem C07_network_connections_of_source : forall edges u k v,
  In (k, v) (gen_net_connect (net_adj edges u)) <-> k = v /\ (In (u, v) edges \/ In (v, u) edges).
Proof. exact net_conn_of_source. Qed.
Print Assumptions C07_network_connections_of_source.

(* boundary of the statement - directed graphs (networkx.DiGraph: neighbours = successors): connections are the
   out-edges; they are symmetric exactly when the edge set is, and the neighbourhood theorems (C07_nbhd_is_ball is
   generic in conn) then describe balls of DIRECTED hops; witness of asymmetry: the single edge 0 -> 1 *)
Theorem C07_network_directed : forall edges,
  (forall u k v, In (k, v) (gen_net_connect (dnet_adj edges u)) <-> k = v /\ In (u, v) edges) /\
  ((forall u v, In v (dnet_adj edges u) -> In u (dnet_adj edges v)) <-> (forall u v, In (u, v) edges -> In (v, u) edges)).
Proof. intros edges. split; [intros; apply dnet_conn_of_source|apply dnet_symmetric_iff]. Qed.
Print Assumptions C07_network_directed.

Theorem C07_network_directed_asymmetric :
  exists edges u v, In v (dnet_adj edges u) /\ ~ In u (dnet_adj edges v) /\
    In v (nbhd (dnet_adj edges) 0 false u) /\ ~ In u (nbhd (dnet_adj edges) 5 false v).
Proof. exact dnet_asymmetric_witness. Qed.
Print Assumptions C07_network_directed_asymmetric.

(* VoronoiGrid._connect_cells END TO END, about the translated source: `full` = every triangle of the implementation's
   triangulation (exported by the driver, op Cert).  If the certificate holds (delaunay_cert of the triangles the
   TRANSLATED export_triangles keeps, every connect call of the TRANSLATED loops is in range, keyed (cell, target) and a
   Delaunay pair, two centroids are joined), then the connect calls are exactly the Delaunay adjacency. *)
Theorem C07_voronoi_connections_of_source : forall pts full, vor_conn_cert pts full = true ->
  let conns := gen_vor_connect (gen_vor_export full) full in
  (forall i j, In i (idxs pts) -> In j (idxs pts) ->
     (vor_emitted conns i j = true <-> delaunay_adj pts i j = true)) /\
  (forall x k1 k2 y, In (x, ((k1, k2), y)) conns -> In x (idxs pts) /\ In y (idxs pts) /\ k1 = x /\ k2 = y).
Proof. exact voronoi_connections_of_source. Qed.
Print Assumptions C07_voronoi_connections_of_source.

(* bridge to the model's edge function: the first translated loop connects every edge of an exported triangle *)
Theorem C07_voronoi_loop_is_tri_adj : forall exported full i j,
  tri_adj exported i j = true -> vor_emitted (gen_vor_connect exported full) i j = true.
Proof. exact vor_loop1_bridge. Qed.
Print Assumptions C07_voronoi_loop_is_tri_adj.

(* CellCollection level: the agents of a neighbourhood collection are exactly the agents that are NOW in one of its
   cells (C07_cache_transparent covers the ops Place / NbhdAgents: the cached collection shows the current agents);
   an agent is in one cell only, the one it entered last *)
Theorem C07_collection_agents : forall ag cells a,
  In a (agents_in ag cells) <-> exists c, In c cells /\ In (a, c) ag.
Proof. exact agents_in_spec. Qed.
Print Assumptions C07_collection_agents.

Theorem C07_agent_in_one_cell : forall ag a c,
  (forall a' c', In (a', c') (place ag a c) <-> (a' = a /\ c' = c) \/ (a' <> a /\ In (a', c') ag)) /\
  (single_valued ag -> single_valued (place ag a c)).
Proof. intros. split; [intros; apply place_In|apply place_single_valued]. Qed.
Print Assumptions C07_agent_in_one_cell.

Example C07_example_round3 :
  run_case {| c_space := SDNet 3 [(0, 1); (1, 2)];
              c_ops := [Build [[1]; [2]; []]; NbhdAgents 0 0 2 false; Place 7 2; Place 8 1; NbhdAgents 0 0 2 false;
                        Place 7 0; NbhdAgents 1 0 2 true; Nbhd 0 2 3 true] |}
  = [[-5; 1000001; -5; 2000002; -5]; [2; 0]; [0; 7]; [0; 8]; [2; 0; 7; 8]; [0; 7]; [3; 0; 7; 8]; [0; 2]] /\
  vor_conn_cert [(3, 15); (18, 20)] [(0, 1, 4); (1, 5, 4); (1, 2, 5); (2, 3, 5); (3, 4, 5); (3, 0, 4)] = true /\
  hex_offsets [0; 3] = gen_hex_even_offsets /\ hex_offsets [7; 4] = gen_hex_odd_offsets.
Proof. vm_compute. repeat split; reflexivity. Qed.
