(* C05 - every step() call advances model.steps by exactly one, before user code.
   ONLY statements closed by `exact`, with Print Assumptions beneath each.

   A hierarchy h is ANY list of levels (any depth; any subset of levels defining step, with any arity or
   variadic; any subset calling super().step, forwarding arguments or not; raising or clearing `running` at any
   threshold).  wrapped_step h mid st args is what instance.step( *args) does to the instance state st;
   its result is (state afterwards, the log of user bodies run, outcome Ok | ErrType | ErrBoom).
   The theorems hold for every outcome, including the failing ones.
   Multiple inheritance: h is the MRO (C3 linearisation) of the instance's class without Model/object - super()
   continues at the next class of that list whichever base it came from - so every theorem below covers diamonds
   and mixins as they stand (the harness builds them with type(name, (B1, B2), ...) and checks that CPython's
   __mro__ is the list the model was given).
   Recursion: `rec_free h` = no body calls self.step() again.  For hierarchies whose bodies do
   (l_rec := Some k: `if self.steps < k: self.step()`), C05_recursive_calls_each_count_once is the statement. *)
From Coq Require Import ZArith List Bool.
From Mesa Require Import Generated.Tables Model.C3 Model.StepCounter Proofs.StepCounterProofs.
Import ListNotations.
Open Scope Z_scope.

(* each call advances steps by exactly one - however step is defined, whatever the arguments, also when the
   call protocol rejects the arguments or user code raises *)
Theorem C05_exactly_one : forall h mid st args, rec_free h = true ->
  steps (res_state (wrapped_step h mid st args)) = steps st + 1.
Proof. exact wrapped_exactly_one. Qed.
Print Assumptions C05_exactly_one.

(* ... and does so before any user code runs: every user body run during the call (at any level of the
   hierarchy) sees the already incremented value, and belongs to this instance *)
Theorem C05_before_user : forall h mid st args, rec_free h = true ->
  Forall (fun e => e_seen e = steps st + 1 /\ e_inst e = mid) (res_events (wrapped_step h mid st args)).
Proof. exact wrapped_before_user. Qed.
Print Assumptions C05_before_user.

(* the user bodies run are the super chain from the first definer: all of it, in order, when the call returns
   normally; a prefix of it when a body or the call protocol raises *)
Theorem C05_user_runs_once_per_definer_chain : forall h mid st args, rec_free h = true ->
  exists rest, super_chain h 0 = map e_lvl (res_events (wrapped_step h mid st args)) ++ rest /\
               (res_status (wrapped_step h mid st args) = Ok -> rest = []).
Proof. exact wrapped_levels. Qed.
Print Assumptions C05_user_runs_once_per_definer_chain.

(* ... hence no level's body runs twice in one call *)
Theorem C05_each_body_at_most_once : forall h mid st args, rec_free h = true ->
  NoDup (map e_lvl (res_events (wrapped_step h mid st args))).
Proof. exact wrapped_each_once. Qed.
Print Assumptions C05_each_body_at_most_once.

(* the resolved user step (overridden directly or inherited from an intermediate base) receives the caller's
   arguments unchanged, runs first, and sees the new counter and the old `running` *)
Theorem C05_args_passthrough : forall h mid st args i l,
  resolve h 0 = Some (i, l) -> arity_ok l args = true ->
  exists e rest, res_events (wrapped_step h mid st args) = e :: rest /\
    e_lvl e = i /\ e_args e = args /\ e_seen e = steps st + 1 /\ e_run e = running st.
Proof. exact wrapped_args. Qed.
Print Assumptions C05_args_passthrough.

(* a call whose arguments the resolved step does not accept raises TypeError, runs no user code, and is counted *)
Theorem C05_rejected_call_counts : forall h mid st args i l,
  resolve h 0 = Some (i, l) -> arity_ok l args = false ->
  wrapped_step h mid st args = ({| steps := steps st + 1; running := running st |}, [], ErrType).
Proof. exact wrapped_rejected. Qed.
Print Assumptions C05_rejected_call_counts.

(* step not overridden at all: the call only counts *)
Theorem C05_not_overridden : forall h mid st,
  resolve h 0 = None ->
  wrapped_step h mid st [] = ({| steps := steps st + 1; running := running st |}, [], Ok).
Proof. exact wrapped_not_overridden. Qed.
Print Assumptions C05_not_overridden.

(* run_model keeps stepping exactly until running becomes false: when it returns, running is false and it made
   n successful calls, each started while running was true; steps advanced by n; with running already false it
   does nothing *)
Theorem C05_run_model_stops : forall h mid fuel, rec_free h = true -> forall st st' evs,
  run_model fuel h mid st = (st', evs, Ok) ->
  running st' = false /\
  exists n, (n <= fuel)%nat /\ steps_while_running h mid st n st' /\ steps st' = steps st + Z.of_nat n.
Proof. exact run_model_ok. Qed.
Print Assumptions C05_run_model_stops.

Theorem C05_run_model_not_running : forall h mid fuel st,
  running st = false -> run_model fuel h mid st = (st, [], Ok).
Proof. exact run_model_not_running. Qed.
Print Assumptions C05_run_model_not_running.

(* a run_model loop ended by an exception: n complete calls plus the raising one, all counted *)
Theorem C05_run_model_exception : forall h mid fuel, rec_free h = true -> forall st st' evs r,
  run_model fuel h mid st = (st', evs, r) -> r = ErrType \/ r = ErrBoom ->
  exists n st1 ev, steps_while_running h mid st n st1 /\ running st1 = true /\
                   wrapped_step h mid st1 [] = (st', ev, r) /\ steps st' = steps st + Z.of_nat n + 1.
Proof. exact run_model_err. Qed.
Print Assumptions C05_run_model_exception.

(* user code run inside run_model never sees a stale counter *)
Theorem C05_run_model_before_user : forall h mid fuel, rec_free h = true -> forall st,
  Forall (fun e => steps st < e_seen e <= steps (res_state (run_model fuel h mid st)) /\ e_inst e = mid)
         (res_events (run_model fuel h mid st)).
Proof. exact run_model_events. Qed.
Print Assumptions C05_run_model_before_user.

(* the counter of one model is unaffected by any other model: for ALL interleavings of step / run_model /
   running= / construction on any number of instances of any classes, instance i ends exactly where its own
   operations alone take it *)
Theorem C05_models_independent : forall ops w i x h,
  class_of w i = Some (x, h) ->
  class_of (final w ops) i =
  Some ({| i_cls := i_cls x; i_st := fold_left (inst_step h i) (filter (aimed_at i) ops) (i_st x) |}, h).
Proof. exact projection. Qed.
Print Assumptions C05_models_independent.

Theorem C05_other_instance_untouched : forall w o i x h,
  class_of w i = Some (x, h) -> aimed_at i o = false -> class_of (fst (step w o)) i = Some (x, h).
Proof. exact independent. Qed.
Print Assumptions C05_other_instance_untouched.

(* over whole histories: steps = the number of step calls made on the instance (any arguments, any outcome) *)
Theorem C05_steps_count_calls : forall ops w i x h,
  class_of w i = Some (x, h) -> rec_free h = true -> forallb (fun o => negb (is_run o)) ops = true ->
  exists x', class_of (final w ops) i = Some (x', h) /\
             steps (i_st x') = steps (i_st x) + Z.of_nat (length (filter (is_step_at i) ops)).
Proof. exact steps_count_calls. Qed.
Print Assumptions C05_steps_count_calls.

(* recursive self.step() inside user code, to any depth, at any level of the hierarchy: the bodies of the
   resolved (variadic) user step - one per call, outer or nested - saw steps+1, steps+2, ..., up to the final
   value, in this order.  So every nested call went through the wrapper, was counted exactly once, and was
   counted before its user code ran; the counter advanced by exactly the number of calls.  (Any outcome other than
   exhaustion of the model's recursion fuel, exceptions included.) *)
Theorem C05_recursive_calls_each_count_once : forall h mid i l st args,
  resolve h 0 = Some (i, l) -> l_arity l < 0 ->
  res_status (wrapped_step h mid st args) <> OutOfFuel ->
  tops i (res_events (wrapped_step h mid st args)) =
    zrange (steps st + 1) (steps (res_state (wrapped_step h mid st args))) /\
  steps st + 1 <= steps (res_state (wrapped_step h mid st args)) /\
  steps (res_state (wrapped_step h mid st args)) =
    steps st + Z.of_nat (length (tops i (res_events (wrapped_step h mid st args)))).
Proof. exact wrapped_step_counted. Qed.
Print Assumptions C05_recursive_calls_each_count_once.

(* the same with a resolved step that takes no parameters (`def step(self)`): nested self.step() calls are accepted *)
Theorem C05_recursive_calls_each_count_once_arity0 : forall h mid i l st args,
  resolve h 0 = Some (i, l) -> arity_ok l [] = true -> arity_ok l args = true ->
  res_status (wrapped_step h mid st args) <> OutOfFuel ->
  tops i (res_events (wrapped_step h mid st args)) =
    zrange (steps st + 1) (steps (res_state (wrapped_step h mid st args))) /\
  steps st + 1 <= steps (res_state (wrapped_step h mid st args)) /\
  steps (res_state (wrapped_step h mid st args)) =
    steps st + Z.of_nat (length (tops i (res_events (wrapped_step h mid st args)))).
Proof. exact wrapped_step_counted_gen. Qed.
Print Assumptions C05_recursive_calls_each_count_once_arity0.

(* recursion with a resolved step that HAS parameters (`def step(self, a, b)`): a nested self.step() - at whatever
   level of the hierarchy it is made - is counted, then rejected by the call protocol before any user code, and
   the TypeError unwinds the outer call.  So every body that ran saw steps+1, and the call leaves steps+1 (no nested
   call was made) or steps+2 with TypeError (the outer call and the one rejected nested call, each counted once). *)
Theorem C05_recursive_fixed_arity : forall h mid i l st args,
  resolve h 0 = Some (i, l) -> arity_ok l [] = false ->
  let x := wrapped_step h mid st args in
  Forall (fun e => e_seen e = steps st + 1 /\ e_inst e = mid) (res_events x) /\
  (steps (res_state x) = steps st + 1 \/ (steps (res_state x) = steps st + 2 /\ res_status x = ErrType)).
Proof. exact wrapped_step_fixed_arity. Qed.
Print Assumptions C05_recursive_fixed_arity.

(* Multiple inheritance: C3.  Model/C3.v is the merge algorithm of CPython's type.mro; NewInstance in run_case refuses
   (observation [-3]) a class whose declared base lists do not linearise to the order of its levels.  For the
   hierarchies the generator builds - every class lists the next level first and then any subset of the later
   ones, in ascending order - the C3 linearisation IS the level order: checked here for all 1 + 1 + 1 + 2 + 8 + 64 +
   1024 + 32768 such hierarchies of depth <= 7 (the generator stops at 6), so the MRO lists the model is given are not
   taken on trust from the generator.  (The driver additionally compares CPython's __mro__.) *)
Theorem C05_generated_mro_is_c3 :
  forallb (fun n => forallb mro_is_level_order (family n)) [0; 1; 2; 3; 4; 5; 6; 7]%nat = true.
Proof. vm_compute. exact eq_refl. Qed.
Print Assumptions C05_generated_mro_is_c3.

(* pickle round trip (any protocol, also through a pickled agent or AgentSet of the model) and copy.deepcopy: the result
   is a NEW instance of the same class with the same counter and flag, the original is untouched; being an instance like
   any other, every theorem of this file applies to it from there on - in particular its step is again the counting
   wrapper (C05_exactly_one, C05_before_user) and it evolves independently of the original (C05_models_independent) *)
Theorem C05_clone_keeps_counter : forall w i x h,
  class_of w i = Some (x, h) ->
  class_of (fst (step w (Clone i))) (zlen (w_insts w)) = Some ({| i_cls := i_cls x; i_st := i_st x |}, h) /\
  class_of (fst (step w (Clone i))) i = Some (x, h).
Proof. exact clone_spec. Qed.
Print Assumptions C05_clone_keeps_counter.

(* T1: the shape of the source the model transcribes, re-read from the source on this run:
   __init__ binds _user_step to self.step and then shadows step on the instance; _wrapped_step is
   `self.steps += 1` followed by `self._user_step( *args, **kwargs)`; run_model is `while self.running: self.step()`;
   Model.step is empty *)
Theorem C05_source_shape :
  gen_wrapped_step_order = [WIncr; WCall] /\ gen_run_model_loop = [RMWhileRunning; RMStep].
Proof. exact (conj eq_refl eq_refl). Qed.
Print Assumptions C05_source_shape.

(* ---------- non-vacuity ---------- *)
(* depth 4: level 0 does not define step, level 1 overrides it with two parameters and calls super forwarding
   them, level 2 does not define it, level 3 is variadic, calls super() without arguments and clears running
   at 3 *)
Definition ex_h : hierarchy :=
  [ {| l_def := false; l_arity := 0; l_super := false; l_fwd := false; l_stop := None; l_raise := None; l_rec := None |};
    {| l_def := true; l_arity := 2; l_super := true; l_fwd := true; l_stop := None; l_raise := None; l_rec := None |};
    {| l_def := false; l_arity := 0; l_super := false; l_fwd := false; l_stop := None; l_raise := None; l_rec := None |};
    {| l_def := true; l_arity := -1; l_super := true; l_fwd := false; l_stop := Some 3; l_raise := None; l_rec := None |} ].
Definition ex_loop : hierarchy :=
  [ {| l_def := true; l_arity := -1; l_super := true; l_fwd := true; l_stop := Some 5; l_raise := None; l_rec := None |} ].

Example C05_example_call :
  resolve ex_h 0 = Some (1, nth 1 ex_h (nth 0 ex_h (nth 0 ex_h (nth 0 ex_h
     {| l_def := false; l_arity := 0; l_super := false; l_fwd := false; l_stop := None; l_raise := None; l_rec := None |})))) /\
  super_chain ex_h 0 = [1; 3] /\
  wrapped_step ex_h 7 {| steps := 2; running := true |} [10; 20] =
    ({| steps := 3; running := false |},
     [ {| e_inst := 7; e_lvl := 1; e_seen := 3; e_run := true; e_args := [10; 20] |};
       {| e_inst := 7; e_lvl := 3; e_seen := 3; e_run := true; e_args := [10; 20] |} ], Ok) /\
  res_status (wrapped_step ex_h 7 {| steps := 2; running := true |} [10]) = ErrType.
Proof. vm_compute. repeat split; reflexivity. Qed.

Example C05_example_run_model :
  run_model 20 ex_loop 0 {| steps := 2; running := true |} =
    ({| steps := 5; running := false |},
     [ {| e_inst := 0; e_lvl := 0; e_seen := 3; e_run := true; e_args := [] |};
       {| e_inst := 0; e_lvl := 0; e_seen := 4; e_run := true; e_args := [] |};
       {| e_inst := 0; e_lvl := 0; e_seen := 5; e_run := true; e_args := [] |} ], Ok).
Proof. vm_compute. reflexivity. Qed.

Example C05_example_interleaving :
  let w := final (init [ex_h; ex_loop] []) [NewInstance 0; NewInstance 1; NewInstance 1] in
  let ops := [Step 0 [1; 2]; Step 1 []; Step 2 [4]; Step 0 [3]; SetRunning 1 false; Step 1 [9; 9]; Step 0 [5; 6]] in
  map (fun x => steps (i_st x)) (w_insts (final w ops)) = [3; 2; 1] /\
  forallb (fun o => negb (is_run o)) ops = true.
Proof. vm_compute. split; reflexivity. Qed.

(* recursion: the top body recurses while steps < 4, and so does the super-called body while steps < 6 *)
Definition ex_rec : hierarchy :=
  [ {| l_def := true; l_arity := -1; l_super := true; l_fwd := false; l_stop := None; l_raise := None; l_rec := Some 4 |};
    {| l_def := true; l_arity := 0; l_super := false; l_fwd := false; l_stop := None; l_raise := None; l_rec := Some 6 |} ].

Example C05_example_recursion :
  rec_free ex_rec = false /\
  resolve ex_rec 0 = Some (0, nth 0 ex_rec (nth 1 ex_rec (nth 1 ex_rec (nth 1 ex_rec
     {| l_def := false; l_arity := 0; l_super := false; l_fwd := false; l_stop := None; l_raise := None; l_rec := None |})))) /\
  res_status (wrapped_step ex_rec 0 {| steps := 1; running := true |} [9]) = Ok /\
  steps (res_state (wrapped_step ex_rec 0 {| steps := 1; running := true |} [9])) = 6 /\
  tops 0 (res_events (wrapped_step ex_rec 0 {| steps := 1; running := true |} [9])) = [2; 3; 4; 5; 6] /\
  tops 1 (res_events (wrapped_step ex_rec 0 {| steps := 1; running := true |} [9])) = [4; 5; 6; 6; 6].
Proof. vm_compute. repeat split; reflexivity. Qed.

(* fixed arity 2 at the top, the variadic super-called level recurses: the nested call is counted and rejected *)
Definition ex_rec2 : hierarchy :=
  [ {| l_def := true; l_arity := 2; l_super := true; l_fwd := true; l_stop := None; l_raise := None; l_rec := None |};
    {| l_def := true; l_arity := -1; l_super := false; l_fwd := false; l_stop := None; l_raise := None; l_rec := Some 9 |} ].
Example C05_example_fixed_arity_recursion :
  arity_ok (nth 0 ex_rec2 (nth 1 ex_rec2 (nth 1 ex_rec2 (nth 1 ex_rec2
     {| l_def := false; l_arity := 0; l_super := false; l_fwd := false; l_stop := None; l_raise := None; l_rec := None |})))) [] = false /\
  wrapped_step ex_rec2 0 {| steps := 3; running := true |} [7; 8] =
    ({| steps := 5; running := true |},
     [ {| e_inst := 0; e_lvl := 0; e_seen := 4; e_run := true; e_args := [7; 8] |};
       {| e_inst := 0; e_lvl := 1; e_seen := 4; e_run := true; e_args := [7; 8] |} ], ErrType).
Proof. vm_compute. split; reflexivity. Qed.

(* C3 on a diamond with both bases defining step, on a hierarchy whose level order is NOT its MRO, and on an
   inconsistent one (CPython: "Cannot create a consistent method resolution order") *)
Example C05_example_c3 :
  mro_of_first [[1; 2]; [3]; [3]; []] = Some [0; 1; 2; 3] /\
  mro_of_first [[2; 1]; [3]; [3]; []] = Some [0; 2; 1; 3] /\ mro_is_level_order [[2; 1]; [3]; [3]; []] = false /\
  mro_of_first [[2; 1]; [2]; []] = None /\
  length (family 6) = 1024%nat /\
  fst (step (init [ex_h] [[[2; 1]; [3]; [3]; []]]) (NewInstance 0)) = init [ex_h] [[[2; 1]; [3]; [3]; []]].
Proof. vm_compute. repeat split; reflexivity. Qed.

(* stepping continues on a restored copy and on the original, each with its own counter *)
Example C05_example_clone :
  let w := final (init [ex_loop] []) [NewInstance 0; Step 0 []; Step 0 []; Clone 0; Step 1 []; Step 0 []; Step 0 []] in
  map (fun x => steps (i_st x)) (w_insts w) = [4; 3].
Proof. vm_compute. reflexivity. Qed.
