(* C16 - signals describe every change exactly once, to exactly the subscribers
   (+ C18, signal-registry site: a rejected call leaves the registry unchanged).
   ONLY statements closed by `exact`, with Print Assumptions beneath each.
   Model: Model/Signals.v (the code as repaired by fixes/C16-1..4).  `run_case` of the correspondence
   is  run_ops gen_sig_tables (init_state c) (c_ops c); run_state / step below are the same step function. *)
From Coq Require Import ZArith List Bool Permutation.
From Mesa Require Import Common.ListX Generated.Tables Model.Signals Proofs.SignalsProofs Proofs.SignalsBridge.
Import ListNotations.
Open Scope Z_scope.

(* T1: the signal-type sets and emitted types re-extracted from the CURRENT source are duplicate free,
   every emitting site uses a type its observable declares, the five emitted types are distinct *)
Theorem C16_source_tables_ok : tables_ok gen_sig_tables = true.
Proof. vm_compute. reflexivity. Qed.
Print Assumptions C16_source_tables_ok.

(* For EVERY history `pre` from the start of a case: the live part of subscribers[name][type] of every
   instance equals the live part of the ledger the history implies - observe appends the handler to
   every (name, type) the call names (All expanded over the known names / over the types that name
   emits), unobserve deletes it from them, clear_all_subscriptions empties them - in subscription order. *)
Theorem C16_registry_is_ledger : forall (c : case) (pre : list op),
  agrees (run_state gen_sig_tables (init_state c) pre)
         (lrun gen_sig_tables (slots_of_case c) [] pre empty_ledger).
Proof.
  intros c pre.
  exact (registry_is_ledger gen_sig_tables (slots_of_case c) C16_source_tables_ok pre (init_state c) empty_ledger
           (init_kinds_agree c) (init_agrees c)).
Qed.
Print Assumptions C16_registry_is_ledger.

(* ... and an assignment / list mutation made after any history delivers each signal it emits exactly
   once per subscription to each live handler the ledger lists for (name, type of the signal), in
   subscription order, signals in emission order, carrying owner, name, type, old, new, index *)
Theorem C16_exactly_subscribers : forall (c : case) (pre : list op) o i x,
  op_inst o = Some i ->
  inst_at (st_insts (run_state gen_sig_tables (init_state c) pre)) i = Some x ->
  snd (snd (step gen_sig_tables (run_state gen_sig_tables (init_state c) pre) o)) =
  match emitted gen_sig_tables x o with
  | Some (n, es) =>
      deliveries_by (st_dead (run_state gen_sig_tables (init_state c) pre)) i n
                    (lrun gen_sig_tables (slots_of_case c) [] pre empty_ledger i) es
  | None => []
  end.
Proof.
  intros c pre.
  exact (exactly_subscribers gen_sig_tables (slots_of_case c) C16_source_tables_ok pre (init_state c) empty_ledger
           (init_kinds_agree c) (init_agrees c)).
Qed.
Print Assumptions C16_exactly_subscribers.

(* the payload of each elementary change: old is the value / item that was there (the fallback before the
   first assignment), new the value / item put there, index the position given *)
Theorem C16_payload : forall tb,
  (forall x i n v cur fb, slot_at (i_slots x) n = Some (SObs cur fb) ->
     emitted tb x (Assign i n v) =
     Some (n, [{| e_type := tb_emit_assign tb; e_old := old_of_obs cur fb; e_new := VInt v; e_index := INone |}])) /\
  (forall x i n vs cur, slot_at (i_slots x) n = Some (SList cur) ->
     emitted tb x (AssignList i n vs) =
     Some (n, [{| e_type := tb_emit_assign tb; e_old := old_of_list cur; e_new := VList vs; e_index := INone |}])) /\
  (forall d v, list_op tb d (LAppend v) =
     LOk (d ++ [v]) [{| e_type := tb_emit_append tb; e_old := VNone; e_new := VInt v; e_index := IInt (zlen d) |}] VNone) /\
  (forall d i v, list_op tb d (LInsert i v) =
     LOk (py_insert d i v) [{| e_type := tb_emit_insert tb; e_old := VNone; e_new := VInt v; e_index := IInt i |}] VNone) /\
  (forall d i j v, norm_index (zlen d) i = Some j -> list_op tb d (LSetItem i v) =
     LOk (zupd d j v) [{| e_type := tb_emit_setitem tb; e_old := VInt (znth d j); e_new := VInt v; e_index := IInt i |}] VNone) /\
  (forall d i j, norm_index (zlen d) i = Some j -> list_op tb d (LDelItem i) =
     LOk (zdel d j) [{| e_type := tb_emit_delitem tb; e_old := VInt (znth d j); e_new := VNone; e_index := IInt i |}] VNone) /\
  (forall d i j, norm_index (zlen d) i = Some j -> list_op tb d (LPop (Some i)) =
     LOk (zdel d j) [{| e_type := tb_emit_delitem tb; e_old := VInt (znth d j); e_new := VNone; e_index := IInt i |}] (VInt (znth d j))).
Proof. exact payload_spec. Qed.
Print Assumptions C16_payload.

(* with the type names of the source: change=1 replace=2 remove=3 insert=4 append=5 *)
Theorem C16_source_emits :
  tb_emit_assign gen_sig_tables = 1 /\ tb_emit_setitem gen_sig_tables = 2 /\ tb_emit_delitem gen_sig_tables = 3 /\
  tb_emit_insert gen_sig_tables = 4 /\ tb_emit_append gen_sig_tables = 5.
Proof. vm_compute. repeat split; reflexivity. Qed.
Print Assumptions C16_source_emits.

(* a listener that applies the signals of ANY list operation (append, insert, setitem / delitem with ints and
   slices, pop, remove, extend, +=, reverse, clear), in order, to a copy of the old list holds the new list *)
Theorem C16_replay : forall d o d' es r,
  list_op gen_sig_tables d o = LOk d' es r -> replay gen_sig_tables d es = d'.
Proof.
  assert (nodupb (emitted_types gen_sig_tables) = true) as H by (vm_compute; reflexivity).
  exact (list_op_replay gen_sig_tables H).
Qed.
Print Assumptions C16_replay.

Theorem C16_extend_appends : forall d vs d' es r, l_extend gen_sig_tables d vs = LOk d' es r -> d' = d ++ vs.
Proof. exact (extend_spec gen_sig_tables). Qed.
Print Assumptions C16_extend_appends.

Theorem C16_clear_empties : forall d d' es r, l_clear gen_sig_tables d = LOk d' es r -> d' = [].
Proof. exact (clear_spec gen_sig_tables). Qed.
Print Assumptions C16_clear_empties.

(* every one of the 13 mutators computes the corresponding Coq list function (None = raises, nothing changes):
   append d++[v]; insert at the clamped index; setitem / delitem at the normalised index; slice assignment
   (step 1: splice, extended: position-wise, sizes must agree) and slice deletion by slice.indices;
   pop() = removelast returning last; pop(i); remove = first occurrence; extend / extend(self) / += = ++;
   reverse = rev; clear = [] *)
Theorem C16_list_op_spec : forall tb d o,
  match list_op tb d o with
  | LOk d' _ r => list_op_result d o = Some d' /\ r = list_op_ret d o
  | LErr _ => list_op_result d o = None
  end.
Proof. exact list_op_spec. Qed.
Print Assumptions C16_list_op_spec.

Theorem C16_reverse_reverses : forall tb d d' es r, l_reverse tb d = LOk d' es r -> d' = rev d.
Proof. exact reverse_spec. Qed.
Print Assumptions C16_reverse_reverses.

(* THE replay property as one theorem.  For every case (any number of instances, any mix of Observable /
   ObservableList attributes, any initial values) and every history `ops` in which nobody unsubscribes, clears
   or kills the listener h or subscribes it a second time: the listener subscribes with observe(All(), All(), h)
   on every instance from the initial state and applies every signal it is called with to its own copy (indexed
   by signal.owner and signal.name; the Python operation chosen by signal.type, using signal.index / signal.new);
   after EVERY operation (every prefix `firstn n ops`) its copy is exactly the real value of every observable of
   every instance - scalars and lists. *)
Theorem C16_listener_replay : forall (h : Z) (c : case) (ops : list op) (n : nat),
  forallb (undisturbed h) ops = true ->
  let hist := subscribe_all h (length (c_insts c)) ++ firstn n ops in
  listen gen_sig_tables h (c_insts c) (run_deliveries gen_sig_tables (init_state c) hist) =
  map i_slots (st_insts (run_state gen_sig_tables (init_state c) hist)).
Proof. exact (listener_replay gen_sig_tables C16_source_tables_ok). Qed.
Print Assumptions C16_listener_replay.

(* the class hierarchy.  T1: descriptor_generator of the CURRENT source walks type(obj).__mro__ most derived
   class first and skips names already seen ... *)
Theorem C16_source_shadowing : gen_dg_shadowing = true.
Proof. reflexivity. Qed.
Print Assumptions C16_source_shadowing.

(* ... hence observables[name] is the most derived definition of name (what attribute lookup finds), present
   exactly when that definition is an Observable / ObservableList - whatever base classes bind the name to,
   and not at all when a subclass shadows an inherited observable with a plain attribute *)
Theorem C16_observables_most_derived : forall mro n,
  dict_get n (observables_of gen_dg_shadowing mro) =
  match most_derived mro n with Some e => if is_obs e then Some e else None | None => None end.
Proof. rewrite C16_source_shadowing. exact observables_most_derived. Qed.
Print Assumptions C16_observables_most_derived.

(* ... and the signal types run_case uses for attribute n of every instance of a case are those of the most
   derived definition of n in the case's hierarchy *)
Theorem C16_effective_types : forall (c : case) vals n s e,
  In vals (c_vals c) -> 0 <= n -> nth_error vals (Z.to_nat n) = Some s ->
  most_derived (c_mro c) n = Some e -> is_obs e = true ->
  types_of gen_sig_tables (build_slots (observables_of gen_dg_shadowing (c_mro c)) 0 vals) n =
  types_of_entry gen_sig_tables e.
Proof.
  intros c vals n s e _. exact (effective_types gen_sig_tables gen_dg_shadowing (c_mro c) vals n s e C16_source_shadowing).
Qed.
Print Assumptions C16_effective_types.

(* after unobserve(nm, ty, h) - from any state that agrees with a ledger, i.e. after any history - h receives
   no signal of any (name, type) the call names, as long as h is not subscribed to instance i again *)
Theorem C16_unobserve_silences : forall slots_of st L,
  kinds_agree st slots_of -> agrees st L ->
  forall i nm ty h k slots ops,
    slots_of i = Some slots -> zmem h (st_dead st) = false ->
    unobserve_ok slots nm ty = true -> matches gen_sig_tables slots nm ty k = true ->
    forallb (fun o => negb (observes i h o)) ops = true ->
    forall o d, In d (snd (snd (step gen_sig_tables (run_state gen_sig_tables st (Unobserve i nm ty h :: ops)) o))) ->
    s_owner (snd d) = i -> (s_name (snd d), s_type (snd d)) = k -> fst d <> h.
Proof. intros slots_of. exact (unobserve_silences gen_sig_tables slots_of C16_source_tables_ok). Qed.
Print Assumptions C16_unobserve_silences.

Theorem C16_clear_silences : forall slots_of st L,
  kinds_agree st slots_of -> agrees st L ->
  forall i nm h k slots ops,
    slots_of i = Some slots -> clear_scope nm (fst k) = true ->
    forallb (fun o => negb (observes i h o)) ops = true ->
    forall o d, In d (snd (snd (step gen_sig_tables (run_state gen_sig_tables st (ClearAll i nm :: ops)) o))) ->
    s_owner (snd d) = i -> (s_name (snd d), s_type (snd d)) = k -> fst d <> h.
Proof. intros slots_of. exact (clear_silences gen_sig_tables slots_of C16_source_tables_ok). Qed.
Print Assumptions C16_clear_silences.

(* a handler whose last reference went is never called again; dropping it raises nothing *)
Theorem C16_dead_dropped : forall slots_of st L,
  kinds_agree st slots_of -> agrees st L ->
  forall hs h ops o d, In h hs ->
    In d (snd (snd (step gen_sig_tables (run_state gen_sig_tables st (Kill hs :: ops)) o))) -> fst d <> h.
Proof. intros slots_of. exact (dead_dropped gen_sig_tables slots_of C16_source_tables_ok). Qed.
Print Assumptions C16_dead_dropped.

(* observe is rejected exactly when it names an unknown observable or a signal type that some named
   observable does not emit (All in either position included) ... *)
Theorem C16_unknown_rejected : forall tb st i x nm ty h,
  inst_at (st_insts st) i = Some x -> zmem h (st_dead st) = false ->
  (observe_ok tb (i_slots x) nm ty = false -> exists e, step tb st (Observe i nm ty h) = (st, (Raised e, VNone, []))) /\
  (observe_ok tb (i_slots x) nm ty = true -> fst (fst (snd (step tb st (Observe i nm ty h)))) = Done) /\
  (observe_ok tb (i_slots x) nm ty = true <->
     (forall n, nm = TName n -> known (i_slots x) n = true) /\
     (forall t n, ty = SType t -> in_scope (i_slots x) nm n = true -> In t (types_of tb (i_slots x) n))).
Proof.
  intros tb st i x nm ty h Ex Hd. split; [|split].
  - exact (observe_rejects tb st i x nm ty h Ex Hd).
  - exact (observe_accepts tb st i x nm ty h Ex Hd).
  - exact (observe_ok_spec tb (i_slots x) nm ty).
Qed.
Print Assumptions C16_unknown_rejected.

(* ... and (C18) ANY operation of the model that raises - observe with an unknown name / type, unobserve of an
   unknown name with All(), a list operation with a bad index / value / slice - leaves the whole state,
   registry included, exactly as it was and calls no handler *)
Theorem C18_signals_atomic : forall tb st o st' e r ds,
  step tb st o = (st', (Raised e, r, ds)) -> st' = st /\ ds = [].
Proof. exact step_atomic. Qed.
Print Assumptions C18_signals_atomic.

(* the order in which observe / unobserve walk the (hash ordered) set of signal types, or the names, cannot be
   observed: the registry is read through sget only *)
Theorem C16_type_order_irrelevant : forall dead h ks ks' s k, Permutation ks ks' ->
  sget k (fold_left (sub_append h) ks s) = sget k (fold_left (sub_append h) ks' s) /\
  sget k (fold_left (sub_remove dead h) ks s) = sget k (fold_left (sub_remove dead h) ks' s).
Proof.
  intros dead h ks ks' s k P. split.
  - exact (append_order_irrelevant h ks ks' s k P).
  - exact (remove_order_irrelevant dead h ks ks' s k P).
Qed.
Print Assumptions C16_type_order_irrelevant.

(* ... and for WHOLE RUNS: replace the two extracted signal-type tables by any permutations of them (= any hash order
   of the Python sets, in every observe / unobserve of the history): every observation of every history from every
   case - statuses, returned values, deliveries in order, live registry, values - is identical *)
Theorem C16_type_order_irrelevant_runs : forall l1 l2,
  Permutation (tb_obs_types gen_sig_tables) l1 -> Permutation (tb_list_types gen_sig_tables) l2 ->
  tables_ok (retype gen_sig_tables l1 l2) = true ->
  forall (c : case) (ops : list op),
    run_ops gen_sig_tables (init_state c) ops = run_ops (retype gen_sig_tables l1 l2) (init_state c) ops.
Proof.
  intros l1 l2 P1 P2 Hok' c ops.
  exact (run_ops_retype gen_sig_tables l1 l2 P1 P2 C16_source_tables_ok Hok' ops (init_state c) (init_state c)
           (state_eq_refl (init_state c))).
Qed.
Print Assumptions C16_type_order_irrelevant_runs.

(* ------------------------------------------------------------------ code-level T1: the translated source
   gen_observe, gen_unobserve, gen_clear_all_subscriptions, gen_mesa_notify and gen_sl_setitem / delitem / insert /
   append are TRANSLATED from the bodies of the functions in the working tree on every run (harness/tables/
   signals_code.py); src_* are their instances with the model's registry primitives and CPython list indexing. *)
Theorem C16_source_glue : gen_signals_glue_ok = true.
Proof. reflexivity. Qed.
Print Assumptions C16_source_glue.

(* the translated code IS the hand-written model: observe / unobserve (All expansion, validation before any
   subscription, the registry a raise leaves behind), clear_all_subscriptions, _mesa_notify (live filter, order, what
   is kept) and every SignalingList mutator (read-old-then-mutate order, what is passed as old / new / index) *)
Theorem C16_source_code_is_model : forall tb dead slots s0 nm ty h,
  (let x := {| i_slots := slots; i_subs := s0 |} in
   observe tb x nm ty h =
   match src_observe tb dead slots (opt_nm nm) (opt_ty ty) h s0 with
   | inl s => ({| i_slots := slots; i_subs := s |}, Done)
   | inr (k, s) => ({| i_slots := slots; i_subs := s |}, Raised k)
   end) /\
  (let x := {| i_slots := slots; i_subs := s0 |} in
   unobserve tb dead x nm ty h =
   match src_unobserve tb dead slots (opt_nm nm) (opt_ty ty) h s0 with
   | inl s => ({| i_slots := slots; i_subs := s |}, Done)
   | inr (k, s) => ({| i_slots := slots; i_subs := s |}, Raised k)
   end) /\
  (let x := {| i_slots := slots; i_subs := s0 |} in
   (clear_all x nm, Done) =
   match src_clear tb dead slots (opt_nm nm) s0 with
   | inl s => ({| i_slots := slots; i_subs := s |}, Done)
   | inr (k, s) => ({| i_slots := slots; i_subs := s |}, Raised k)
   end) /\
  (forall owner n e,
   notify1 dead owner n s0 e =
   match src_mesa_notify tb dead slots n (e_type e) s0 with
   | inl (s', calls) => (s', map (fun h => (h, mk_signal owner n e)) calls)
   | inr (_, s') => (s', [])
   end).
Proof.
  intros tb dead slots s0 nm ty h. split; [|split; [|split]].
  - exact (observe_bridge tb dead slots s0 nm ty h).
  - exact (unobserve_bridge tb dead slots s0 nm ty h).
  - exact (clear_bridge tb dead slots s0 nm).
  - exact (fun owner n e => mesa_notify_bridge tb dead slots owner n s0 e).
Qed.
Print Assumptions C16_source_code_is_model.

Theorem C16_source_list_code_is_model : forall d,
  (forall i v, src_setitem d (IInt i) (VInt v) = of_lres d (p_setitem gen_sig_tables d i v)) /\
  (forall a b c vs, src_setitem d (ISlice a b c) (VList vs) = of_lres d (p_setslice gen_sig_tables d a b c vs)) /\
  (forall i, src_delitem d (IInt i) = of_lres d (p_delitem gen_sig_tables d i)) /\
  (forall a b c, src_delitem d (ISlice a b c) = of_lres d (p_delslice gen_sig_tables d a b c)) /\
  (forall i v, src_insert d (IInt i) (VInt v) = of_lres d (p_insert gen_sig_tables d i v)) /\
  (forall v, src_append d (VInt v) = of_lres d (p_append gen_sig_tables d v)).
Proof.
  intros d.
  exact (conj (setitem_bridge d) (conj (setslice_bridge d) (conj (delitem_bridge d) (conj (delslice_bridge d)
        (conj (insert_bridge d) (append_bridge d)))))).
Qed.
Print Assumptions C16_source_list_code_is_model.

(* headline (C16_unknown_rejected + the All expansion of C16_registry_is_ledger + C18 atomicity) OF THE TRANSLATED
   SOURCE: observe is accepted exactly when every requested (name, type) exists - All in either position - and then
   appends the handler to exactly the lists the call names; otherwise it raises and the registry is untouched *)
Theorem C16_observe_exact_of_source : forall dead slots s0 nm ty h,
  match src_observe gen_sig_tables dead slots (opt_nm nm) (opt_ty ty) h s0 with
  | inl s => observe_ok gen_sig_tables slots nm ty = true /\
             forall k, sget k s = if matches gen_sig_tables slots nm ty k then sget k s0 ++ [h] else sget k s0
  | inr (e, s) => observe_ok gen_sig_tables slots nm ty = false /\ s = s0 /\ (e = E_UNKNOWN_NAME \/ e = E_UNKNOWN_TYPE)
  end.
Proof. intros dead slots s0 nm ty h. exact (src_observe_spec gen_sig_tables dead slots s0 nm ty h C16_source_tables_ok). Qed.
Print Assumptions C16_observe_exact_of_source.

(* the translated _mesa_notify calls exactly the live references of subscribers[name][type], in list order, and keeps them *)
Theorem C16_notify_exact_of_source : forall tb dead slots n t s,
  src_mesa_notify tb dead slots n t s = inl (sset (n, t) (live dead (sget (n, t) s)) s, live dead (sget (n, t) s)).
Proof. exact src_mesa_notify_spec. Qed.
Print Assumptions C16_notify_exact_of_source.

(* the six mutators SignalingList inherits are the programs TRANSLATED from collections.abc.MutableSequence of the
   running interpreter (stdlib source checked against the running bytecode), run over SignalingList's own translated
   __getitem__ / __setitem__ / __delitem__ / append: the model's pop / remove / extend / extend(self) / += / reverse /
   clear - data, returned value and the whole signal sequence - are derived, not assumed *)
Theorem C16_source_stdlib_glue : gen_ms_glue_ok = true /\ gen_ms_pop_default = -1.
Proof. split; reflexivity. Qed.
Print Assumptions C16_source_stdlib_glue.

Theorem C16_source_derived_code_is_model : forall tb d,
  (forall i, list_op tb d (LPop (Some i)) = lres_of_q (src_pop tb (d, []) i)) /\
  (list_op tb d (LPop None) = lres_of_q (src_pop tb (d, []) gen_ms_pop_default)) /\
  (forall v, list_op tb d (LRemove v) = lres_of_q (src_remove tb (d, []) v)) /\
  (forall vs, list_op tb d (LExtend vs) = lres_of_q (src_extend tb (d, []) vs false)) /\
  (forall vs, list_op tb d LExtendSelf = lres_of_q (src_extend tb (d, []) vs true)) /\
  (forall vs, l_extend tb d vs = lres_of_q (src_iadd tb (d, []) vs false)) /\
  (list_op tb d LReverse = lres_of_q (src_reverse tb (d, []))) /\
  (list_op tb d LClear = lres_of_q (src_clear_list tb (S (length d)) (d, []))).
Proof.
  intros tb d.
  exact (conj (pop_bridge tb d) (conj (pop_bridge tb d (-1)) (conj (remove_bridge tb d) (conj (extend_bridge tb d)
        (conj (extend_self_bridge tb d) (conj (iadd_bridge tb d) (conj (reverse_bridge tb d) (clear_bridge_list tb d)))))))).
Qed.
Print Assumptions C16_source_derived_code_is_model.

(* hence the translated stdlib reverse, run over the translated SignalingList methods, reverses the list *)
Theorem C16_reverse_reverses_of_source : forall tb d,
  match src_reverse tb (d, []) with inl ((d', _), _) => d' = rev d | inr _ => False end.
Proof.
  intros tb d. pose proof (reverse_bridge tb d) as B. pose proof (reverse_spec tb d) as R.
  destruct (src_reverse tb (d, [])) as [[[d' es] [v|]]|k]; cbn [lres_of_q] in B.
  - exact (R _ _ _ B).
  - exact (R _ _ _ B).
  - unfold l_reverse in B. destruct (reverse_loop tb (Z.to_nat (zlen d / 2)) 0 d []). discriminate.
Qed.
Print Assumptions C16_reverse_reverses_of_source.

(* ------------------------------------------------------------------ re-entrancy (outside the property's quantifier)
   handlers that call observe / unobserve on the (name, type) being notified.  Stated precisely, for the model
   notify_re that the correspondence runs against the implementation (the oracle demands nothing here):
   the list left in the registry after one notification is exactly the handlers called in that round, in call order *)
Theorem C16_reentrant_registry_is_called : forall sc reg calls reg',
  round_re sc reg = Some (calls, reg') -> reg' = calls.
Proof. exact round_re_registry. Qed.
Print Assumptions C16_reentrant_registry_is_called.

(* so C16_unobserve_silences does NOT extend to an unobserve() made by a handler during the notification: the full
   statement "after unobserve(n, t, h) - wherever it is called from - h receives nothing more" is refuted: handler 1
   unobserves handler 2 while ("x","change") is being delivered; 2 is still called in that round, is still in the
   registry afterwards and is called again in the next round *)
Theorem C16_unobserve_silences_reentrant_refuted :
  exists sc reg, script_get sc 1 = HUnobserve 2 /\
    run_rounds sc 2 reg = [[1; 2; -7; 1; 2]; [1; 2; -7; 1; 2]].
Proof. exists [(1, HUnobserve 2)], [1; 2]. vm_compute. split; reflexivity. Qed.
Print Assumptions C16_unobserve_silences_reentrant_refuted.

(* assignments made by handlers (model assign_re / walk, in the correspondence): the outer store wins ... *)
Theorem C16_reentrant_outer_store_wins : forall fuel sc v w w' obj,
  assign_re fuel sc v w = Some (w', obj) -> w_val w' = v.
Proof. exact outer_store_wins. Qed.
Print Assumptions C16_reentrant_outer_store_wins.

(* ... and the nested assignment reports as `old` the value from before the OUTER assignment, is delivered to all
   handlers before the outer signal reaches the later ones: handler 1 assigns 10 when it sees new = 1 *)
Example C16_example_reentrant_assign :
  run_rcase2 {| rc2_subs := [1; 2]; rc2_script := [(1, AAssignIf 1 10)]; rc2_init := 0; rc2_values := [1] |} =
  [[1; 0; 1;  1; 0; 10;  2; 0; 10;  2; 0; 1;  -7; 1; 2; -6; 1]].
Proof. vm_compute. reflexivity. Qed.

(* a handler subscribed by another handler during the round is reached by the same loop (called in that round) *)
Example C16_example_reentrant_observe :
  run_rounds [(1, HObserve 3)] 2 [1; 2] = [[1; 2; 3; -7; 1; 2; 3]; [1; 2; 3; 3; -7; 1; 2; 3; 3]].
Proof. vm_compute. reflexivity. Qed.

(* ------------------------------------------------------------------ non-vacuity *)
Definition ex_case : case :=
  {| c_mro := [[(0, EObs (Some 3))]; [(1, EList)]]; c_vals := [[SObs None None; SList (Some [1; 2; 3])]];
     c_ops := [Observe 0 TAll SAll 1; Observe 0 (TName 1) (SType 5) 2; Observe 0 TAll (SType 5) 2;
               ListOp 0 1 (LAppend 7); Assign 0 0 4; Unobserve 0 TAll SAll 1; ListOp 0 1 LReverse;
               Kill [2]; ListOp 0 1 LClear] |}.
(* registry/ledger/deliveries: handler 1 subscribed through All/All and handler 2 through (name, append) both get
   the append, in that order; observe(All, "append") is rejected atomically; the first assignment shows the fallback *)
Example C16_example_run :
  map (fun o => firstn 4 o) (run_case ex_case) =
  [[0; 0; 0; -7]; [0; 0; 0; -7]; [-1; 2; 0; 0]; [0; 0; 2; 1]; [0; 0; 1; 1]; [0; 0; 0; -7]; [0; 0; 0; -7];
   [0; 0; 0; -7]; [0; 0; 0; -7]]
  /\ nth 3 (run_case ex_case) [] =
     [0; 0; 2; 1; 0; 1; 5; 0; 1; 7; 1; 3; 2; 0; 1; 5; 0; 1; 7; 1; 3; -7;
      0; 1; 1; 1; 1; 1; 1; 1; 1; 2; 1; 1; 1; 3; 1; 1; 1; 4; 1; 1; 1; 5; 2; 1; 2; -8; 0; 2; 4; 1; 2; 3; 7; -9].
Proof. vm_compute. split; reflexivity. Qed.
(* hypotheses of the silence theorems are satisfiable: slots of ex_case, key (1, append) *)
Example C16_example_silence :
  let slots := [SObs None (Some 3); SList (Some [1; 2; 3])] in
  unobserve_ok slots TAll SAll = true /\ matches gen_sig_tables slots TAll SAll (1, 5) = true /\
  clear_scope (TName 1) (fst (1, 5)) = true /\
  forallb (fun o => negb (observes 0 1 o)) [ListOp 0 1 LReverse; Observe 0 TAll SAll 2; Observe 1 TAll SAll 1] = true /\
  observe_ok gen_sig_tables slots TAll (SType 5) = false /\ observe_ok gen_sig_tables slots TAll SAll = true /\
  observe_ok gen_sig_tables slots (TName 7) SAll = false.
Proof. vm_compute. repeat split; reflexivity. Qed.
(* replay: reverse of [1;2;3;4] emits four replace signals, clear three removes with the removed item as old *)
Example C16_example_replay :
  (exists es, list_op gen_sig_tables [1; 2; 3; 4] LReverse = LOk [4; 3; 2; 1] es VNone /\ length es = 4%nat) /\
  list_op gen_sig_tables [5; 6] LClear =
    LOk [] [{| e_type := 3; e_old := VInt 6; e_new := VNone; e_index := IInt (-1) |};
            {| e_type := 3; e_old := VInt 5; e_new := VNone; e_index := IInt (-1) |}] VNone /\
  (exists d' es, list_op gen_sig_tables [0; 1; 2; 3; 4] (LSetSlice (Some (-1)) None (Some (-2)) [7; 8; 9]) = LOk d' es VNone
                 /\ d' = [9; 1; 8; 3; 7]).
Proof. vm_compute. split; [eexists; split; reflexivity|split; [reflexivity|eexists; eexists; split; reflexivity]]. Qed.
(* atomicity: raising steps exist *)
Example C18_example_raises :
  let st := init_state ex_case in
  (exists e, snd (step gen_sig_tables st (Observe 0 TAll (SType 5) 1)) = (Raised e, VNone, [])) /\
  (exists e, snd (step gen_sig_tables st (ListOp 0 1 (LSetSlice None None (Some 2) [1]))) = (Raised e, VNone, [])) /\
  (exists e, snd (step gen_sig_tables st (Unobserve 0 (TName 9) SAll 1)) = (Raised e, VNone, [])).
Proof. vm_compute. repeat split; eexists; reflexivity. Qed.
(* list_op_result is not vacuous: concrete values, incl. clamped insert, negative-step slice, pop default *)
Example C16_example_list_spec :
  list_op_result [1; 2; 3] (LInsert (-9) 7) = Some [7; 1; 2; 3] /\
  list_op_result [1; 2; 3] (LInsert 9 7) = Some [1; 2; 3; 7] /\
  list_op_result [0; 1; 2; 3; 4] (LDelSlice (Some 3) None (Some (-2))) = Some [0; 2; 4] /\
  list_op_result [0; 1; 2; 3; 4] (LSetSlice (Some 1) (Some 3) None [9]) = Some [0; 9; 3; 4] /\
  list_op_result [0; 1; 2] (LSetSlice None None (Some 2) [9]) = None /\
  list_op_result [5; 6; 5] (LRemove 5) = Some [6; 5] /\ list_op_result [5; 6] (LRemove 7) = None /\
  list_op_result [5; 6] (LPop None) = Some [5] /\ list_op_ret [5; 6] (LPop None) = VInt 6 /\
  list_op_result [] (LPop None) = None /\ list_op_result [1; 2; 3] LReverse = Some [3; 2; 1].
Proof. vm_compute. repeat split; reflexivity. Qed.
(* listener replay is not vacuous: two instances, other handlers come and go, 9 is left alone; its copy after the
   history holds the real values, which did change *)
Example C16_example_listener :
  let c := {| c_mro := [[(1, EList)]; [(0, EObs (Some 3)); (1, EObs None)]];
              c_vals := [[SObs None None; SList (Some [1; 2; 3])]; [SObs (Some 5) None; SList None]]; c_ops := [] |} in
  let ops := [Observe 0 TAll (SType 1) 4; ListOp 0 1 (LSetSlice None None (Some (-1)) [7; 8; 9]); Assign 0 0 6;
              AssignList 1 1 [4; 4]; ListOp 1 1 (LIAdd [5]); Kill [4]; ListOp 0 1 LReverse; ListOp 1 1 (LPop None);
              Unobserve 0 TAll SAll 4; ListOp 0 1 LClear; Assign 1 0 8] in
  forallb (undisturbed 9) ops = true /\
  listen gen_sig_tables 9 (c_insts c)
         (run_deliveries gen_sig_tables (init_state c) (subscribe_all 9 2 ++ ops)) =
  [[SObs (Some 6) (Some 3); SList (Some [])]; [SObs (Some 8) (Some 3); SList (Some [4; 4])]].
Proof. vm_compute. split; reflexivity. Qed.
(* hierarchy: Sub overrides the inherited Observable 0 with an ObservableList, shadows the inherited ObservableList 7
   with a plain attribute, inherits 2; without the shadowing walk (the unrepaired code) the base class's kind wins *)
Example C16_example_hierarchy :
  let mro := [[(0, EList); (7, EPlain)]; [(0, EObs None); (7, EList); (2, EObs (Some 1))]] in
  most_derived mro 0 = Some EList /\ most_derived mro 7 = Some EPlain /\
  observables_of true mro = [(0, EList); (2, EObs (Some 1))] /\
  observables_of false mro = [(0, EObs None); (7, EList); (2, EObs (Some 1))].
Proof. vm_compute. repeat split; reflexivity. Qed.
(* the translated code runs: All/All on a mixed class, a rejected All/"append", a dead reference pruned by _mesa_notify,
   del l[-1] passing the removed item as old *)
Example C16_example_source :
  let slots := [SObs None None; SList (Some [1; 2])] in
  src_observe gen_sig_tables [] slots None None 7 [] =
    inl [((0, 1), [7]); ((1, 1), [7]); ((1, 2), [7]); ((1, 3), [7]); ((1, 4), [7]); ((1, 5), [7])] /\
  src_observe gen_sig_tables [] slots None (Some 5) 7 [((1, 5), [4])] = inr (2, [((1, 5), [4])]) /\
  src_mesa_notify gen_sig_tables [8] slots 1 5 [((1, 5), [4; 8; 7])] = inl ([((1, 5), [4; 7])], [4; 7]) /\
  src_delitem [1; 2; 3] (IInt (-1)) = inl ([1; 2], (3, VInt 3, VNone, IInt (-1))) /\
  src_setitem [1; 2; 3] (IInt 5) (VInt 0) = inr (4, [1; 2; 3]).
Proof. vm_compute. repeat split; reflexivity. Qed.
(* the translated stdlib programs run: reverse of [1;2;3] through the translated __setitem__, clear through pop() *)
Example C16_example_stdlib :
  src_reverse gen_sig_tables ([1; 2; 3], []) =
    inl (([3; 2; 1], [{| e_type := 2; e_old := VInt 1; e_new := VInt 3; e_index := IInt 0 |};
                      {| e_type := 2; e_old := VInt 3; e_new := VInt 1; e_index := IInt 2 |}]), None) /\
  src_pop gen_sig_tables ([5; 6], []) gen_ms_pop_default =
    inl (([5], [{| e_type := 3; e_old := VInt 6; e_new := VNone; e_index := IInt (-1) |}]), Some 6) /\
  src_remove gen_sig_tables ([5; 6], []) 7 = inr 5 /\
  (exists es, src_clear_list gen_sig_tables 3 ([5; 6], []) = inl (([], es), None) /\ length es = 2%nat) /\
  (exists es, src_extend gen_sig_tables ([1; 2], []) [9] true = inl (([1; 2; 1; 2], es), None)).
Proof. vm_compute. repeat split; try reflexivity; eexists; split; reflexivity || reflexivity. Qed.
(* the hypotheses of C16_type_order_irrelevant_runs hold for a real reordering of the ObservableList type set *)
Example C16_example_retype :
  tables_ok (retype gen_sig_tables [1] [5; 3; 1; 4; 2]) = true /\
  Permutation (tb_list_types gen_sig_tables) [5; 3; 1; 4; 2].
Proof.
  split; [vm_compute; reflexivity|]. vm_compute.
  apply (Permutation_trans (l' := [5; 1; 2; 3; 4])).
  - change [1; 2; 3; 4; 5] with ([1; 2; 3; 4] ++ [5]). apply Permutation_sym. apply (Permutation_cons_append [1; 2; 3; 4] 5).
  - apply perm_skip. apply (Permutation_trans (l' := [3; 1; 2; 4])).
    + apply (Permutation_trans (l' := [1; 3; 2; 4])); [apply perm_skip; apply perm_swap|apply perm_swap].
    + apply perm_skip. apply perm_skip. apply perm_swap.
Qed.
