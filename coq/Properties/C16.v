From Coq Require Import ZArith List Bool.
From Mesa Require Import Common.ListX Generated.Tables Model.Signals Proofs.SignalsProofs.
Import ListNotations.
Open Scope Z_scope.
