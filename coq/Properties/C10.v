(* C10 - continuous spaces keep every position and answer range queries exactly
   (+ the continuous-space sites of C18: a rejected call leaves the state unchanged).
   ONLY statements closed by `exact`, with Print Assumptions beneath each, and one Example per
   theorem showing its hypotheses are satisfiable by a non-trivial state.
   Coordinates are Z scaled by 16, squared distances scaled by 256 (Model/ContGeom.v). *)
From Coq Require Import ZArith List Bool.
From Mesa Require Import Common.ListX Generated.Tables Model.ContGeom Model.ContLegacy Model.ContExp
  Proofs.ContGeomProofs Proofs.ContExpProofs Proofs.ContLegacyProofs Proofs.ContBridge.
Import ListNotations.
Open Scope Z_scope.

(* ================= experimental ContinuousSpace / ContinuousSpaceAgent ================= *)

(* For every bounds vector, torus flag, INITIAL CAPACITY (0, 1, ...) and every history of add / move /
   remove / queries, the model of the code (row array with capacity and growth, index dictionary,
   compaction and re-indexing on removal, position read and written through the index) produces exactly
   the observations - result of every call and full view (space.agents, every agent.position) after every
   call - of the specification over a plain map agent -> position. *)
Theorem C10_exp_refines : forall c ops, e_run c (e_init c) ops = espec_run c [] ops.
Proof. exact exp_refines. Qed.
Print Assumptions C10_exp_refines.

(* n = len(active_agents) <= capacity, no duplicates, _agent_to_index = position in active_agents,
   in every reachable state (this is what fails on the unrepaired code for capacity 0 and 1) *)
Theorem C10_exp_invariant : forall c ops, EInv (e_final c (e_init c) ops).
Proof. exact exp_reachable_inv. Qed.
Print Assumptions C10_exp_invariant.

(* an agent's reported position is the last position assigned to it (wrapped on a torus, a rejected
   assignment ignored), whatever happened to other agents and to the array in between:
   e_track looks only at the operations that name the agent *)
Theorem C10_exp_position_last_assigned : forall c ops a,
  e_getpos (e_final c (e_init c) ops) a = fold_left (e_track c a) ops None.
Proof. exact exp_position_last_assigned. Qed.
Print Assumptions C10_exp_position_last_assigned.

(* ... made explicit: deleting from the history every operation that does not name the agent (other agents added,
   moved, removed; every query) and changing the initial capacity leaves the reported position unchanged *)
Theorem C10_exp_position_independent : forall c c' ops a,
  ec_bounds c' = ec_bounds c -> ec_torus c' = ec_torus c ->
  e_getpos (e_final c (e_init c) ops) a
  = e_getpos (e_final c' (e_init c') (filter (e_names a) ops)) a.
Proof. exact exp_position_independent. Qed.
Print Assumptions C10_exp_position_independent.

(* capacity growth is invisible: insert growth steps of ANY size (k uninitialised rows appended to _agent_positions,
   the view re-taken) at ANY points of ANY history - every observation of every operation stays the same, and so do
   space.agents and every position in the final state: growth never changes the active prefix *)
Theorem C10_exp_growth_invisible : forall c l,
  g_run c (e_init c) l = e_run c (e_init c) (ops_of l).
Proof. exact exp_growth_invisible. Qed.
Print Assumptions C10_exp_growth_invisible.

Theorem C10_exp_growth_view_invariant : forall c l a,
  e_active (g_final c (e_init c) l) = e_active (e_final c (e_init c) (ops_of l)) /\
  e_getpos (g_final c (e_init c) l) a = e_getpos (e_final c (e_init c) (ops_of l)) a.
Proof. exact exp_growth_view_invariant. Qed.
Print Assumptions C10_exp_growth_view_invariant.

Theorem C10_exp_growth_keeps_prefix : forall s k, EInv s -> e_rows (grow s k) = e_rows s.
Proof. exact grow_rows. Qed.
Print Assumptions C10_exp_growth_keeps_prefix.

(* space.agents is exactly the set of agents added and not removed, each once *)
Theorem C10_exp_agents_exact : forall c ops a,
  NoDup (e_active (e_final c (e_init c) ops)) /\
  (In a (e_active (e_final c (e_init c) ops)) <-> fold_left (e_track c a) ops None <> None).
Proof. exact exp_agents_exact. Qed.
Print Assumptions C10_exp_agents_exact.

(* the IndexError / KeyError paths of the implementation are unreachable: the only error is the
   documented rejection of an out-of-bounds assignment *)
Theorem C10_exp_no_internal_error : forall c ops o s' e,
  estep c (e_final c (e_init c) ops) o = (s', Some (Err e)) -> e = E_OOB.
Proof. exact exp_no_internal_error. Qed.
Print Assumptions C10_exp_no_internal_error.

(* a radius query returns exactly the agents within the radius, each with its distance *)
Theorem C10_radius_exact : forall c (m : amap) q r a d,
  In (a, d) (in_radius c m q r) <->
  exists p, In (a, p) m /\ d = dist2 (ec_torus c) (ec_bounds c) p q /\ 0 <= r /\ d <= r * r.
Proof. exact radius_exact. Qed.
Print Assumptions C10_radius_exact.

Theorem C10_radius_no_duplicates : forall c (m : amap) q r,
  NoDup (akeys m) -> NoDup (map fst (in_radius c m q r)).
Proof. exact exp_radius_nodup. Qed.
Print Assumptions C10_radius_no_duplicates.

(* calculate_distances(q) lists every agent of the space once, in order, with its distance *)
Theorem C10_distances_all : forall c (m : amap) q,
  map fst (distances c m q) = akeys m /\
  forall a p, NoDup (akeys m) -> In (a, p) m ->
    In (a, dist2 (ec_torus c) (ec_bounds c) p q) (distances c m q).
Proof. exact exp_distances_all. Qed.
Print Assumptions C10_distances_all.

(* every k-nearest outcome the model accepts: k distinct agents of the space, none of them farther
   than an agent left out; the distance reported for an agent is its distance *)
Theorem C10_knearest : forall ds k out,
  knn_legal ds k out = true ->
  length out = k /\ NoDup out /\ (forall a, In a out -> In a (akeys ds)) /\
  (forall a b d, In a out -> In (b, d) ds -> ~ In b out -> dist_of ds a <= d).
Proof. exact knn_legal_sound. Qed.
Print Assumptions C10_knearest.

(* agent.get_nearest_neighbors(k): k distinct OTHER agents, none farther from the asking agent than one left out *)
Theorem C10_nearest_neighbors : forall ds k a out,
  knn_legal ds (S k) (a :: out) = true ->
  length out = k /\ NoDup out /\ ~ In a out /\ (forall b, In b out -> In b (akeys ds)) /\
  (forall b x d, In b out -> In (x, d) ds -> x <> a -> ~ In x out -> dist_of ds b <= d).
Proof. exact nearest_nbrs_sound. Qed.
Print Assumptions C10_nearest_neighbors.

(* ... and the question always has such an answer: for every reachable state, query point and k <= n some
   outcome is accepted (so the check above is never vacuous and never forces a refusal) *)
Theorem C10_knearest_exists : forall c ops q k,
  let s := e_final c (e_init c) ops in
  (k <= e_n s)%nat -> exists out, knn_legal (distances c (e_abs s) q) k out = true.
Proof. exact exp_knearest_exists. Qed.
Print Assumptions C10_knearest_exists.

Theorem C10_knearest_distance : forall c (m : amap) q a,
  NoDup (akeys m) -> forall p, In (a, p) m ->
  dist_of (distances c m q) a = dist2 (ec_torus c) (ec_bounds c) p q.
Proof. exact dist_of_spec. Qed.
Print Assumptions C10_knearest_distance.

(* every reported position lies inside the (closed) bounds *)
Theorem C10_exp_torus_in_bounds : forall c ops a p,
  bounds_ok (ec_bounds c) = true ->
  e_getpos (e_final c (e_init c) ops) a = Some p -> in_closed (ec_bounds c) p = true.
Proof. exact exp_positions_in_bounds. Qed.
Print Assumptions C10_exp_torus_in_bounds.

Theorem C10_exp_bounded_reject : forall c s a p,
  ec_torus c = false -> in_closed (ec_bounds c) p = false ->
  estep c s (ESet a p) = (s, None) \/ estep c s (ESet a p) = (s, Some (Err E_OOB)).
Proof. exact exp_bounded_reject. Qed.
Print Assumptions C10_exp_bounded_reject.

Theorem C10_exp_torus_accepts : forall c ops a p,
  ec_torus c = true -> dim_ok (ec_bounds c) p = true -> In a (e_active (e_final c (e_init c) ops)) ->
  snd (estep c (e_final c (e_init c) ops) (ESet a p)) = Some (Ok []).
Proof. exact exp_torus_accepts. Qed.
Print Assumptions C10_exp_torus_accepts.

(* END TO END: the radius query issued after ANY history (any capacity, growth, compaction) returns exactly the
   agents whose last assigned (wrapped) position is within the radius, each with that distance *)
Theorem C10_exp_radius_end_to_end : forall c ops q r a d,
  let s := e_final c (e_init c) ops in
  snd (estep c s (ERadius q r)) = snd (espec_step c (e_abs s) (ERadius q r)) /\
  (In (a, d) (in_radius c (e_abs s) q r) <->
   exists p, fold_left (e_track c a) ops None = Some p /\
             d = dist2 (ec_torus c) (ec_bounds c) p q /\ 0 <= r /\ d <= r * r).
Proof. exact exp_radius_end_to_end. Qed.
Print Assumptions C10_exp_radius_end_to_end.

(* END TO END: a k-nearest outcome accepted after ANY history has k distinct agents, each reported with the distance
   of its last assigned position, none farther than an agent of the space that was left out *)
Theorem C10_exp_knearest_end_to_end : forall c ops q k out,
  let s := e_final c (e_init c) ops in
  knn_legal (distances c (e_abs s) q) k out = true ->
  length out = k /\ NoDup out /\
  forall a, In a out ->
    exists p, fold_left (e_track c a) ops None = Some p /\
      dist_of (distances c (e_abs s) q) a = dist2 (ec_torus c) (ec_bounds c) p q /\
      forall b pb, fold_left (e_track c b) ops None = Some pb -> ~ In b out ->
        dist2 (ec_torus c) (ec_bounds c) p q <= dist2 (ec_torus c) (ec_bounds c) pb q.
Proof. exact exp_knearest_end_to_end. Qed.
Print Assumptions C10_exp_knearest_end_to_end.

(* ================= legacy mesa.space.ContinuousSpace ================= *)

(* every history produces exactly the observations of the specification that has no cache:
   lazily building _agent_points, patching it in move_agent and dropping it in place/remove is invisible *)
Theorem C10_legacy_refines : forall c ops, l_run c l_init ops = lspec_run c [] ops.
Proof. exact legacy_refines. Qed.
Print Assumptions C10_legacy_refines.

(* whenever the cache exists it holds agent.pos of every agent of the space in dictionary order, and
   both index dictionaries are the matching enumerations *)
Theorem C10_legacy_cache_coherent : forall c ops, LInv (l_final c l_init ops).
Proof. exact legacy_cache_coherent. Qed.
Print Assumptions C10_legacy_cache_coherent.

Theorem C10_legacy_position_last_assigned : forall c ops a,
  aget a (l_pos (l_final c l_init ops)) = fold_left (l_track c a) ops None.
Proof. exact legacy_position_last_assigned. Qed.
Print Assumptions C10_legacy_position_last_assigned.

Theorem C10_legacy_position_independent : forall c ops a,
  aget a (l_pos (l_final c l_init ops)) = aget a (l_pos (l_final c l_init (filter (l_names a) ops))).
Proof. exact legacy_position_independent. Qed.
Print Assumptions C10_legacy_position_independent.

Theorem C10_legacy_agents_exact : forall c ops a,
  NoDup (akeys (l_a2i (l_final c l_init ops))) /\
  (In a (akeys (l_a2i (l_final c l_init ops))) <-> fold_left (l_track c a) ops None <> None).
Proof. exact legacy_agents_exact. Qed.
Print Assumptions C10_legacy_agents_exact.

(* get_neighbors returns exactly the agents within the radius (centre excluded on request) *)
Theorem C10_legacy_radius_exact : forall c (m : amap) q r ic a,
  In a (spec_neighbors c m q r ic) <->
  exists p, In (a, p) m /\ dist2 (lc_torus c) (lc_bounds c) p q <= r * r /\
            (ic = true \/ 0 < dist2 (lc_torus c) (lc_bounds c) p q).
Proof. exact legacy_neighbors_exact. Qed.
Print Assumptions C10_legacy_radius_exact.

Theorem C10_legacy_radius_no_duplicates : forall c (m : amap) q r ic,
  NoDup (akeys m) -> NoDup (spec_neighbors c m q r ic).
Proof. exact legacy_neighbors_nodup. Qed.
Print Assumptions C10_legacy_radius_no_duplicates.

(* END TO END: get_neighbors issued after ANY history (cache absent, freshly built, or built earlier and patched by
   moves since) returns exactly the agents whose last assigned (wrapped) position is within the radius *)
Theorem C10_legacy_neighbors_end_to_end : forall c ops q r ic a,
  let s := l_final c l_init ops in
  snd (lstep c s (LNeighbors q r ic)) = snd (lspec_step c (l_pos s) (LNeighbors q r ic)) /\
  (In a (spec_neighbors c (l_pos s) q r ic) <->
   exists p, fold_left (l_track c a) ops None = Some p /\
             dist2 (lc_torus c) (lc_bounds c) p q <= r * r /\
             (ic = true \/ 0 < dist2 (lc_torus c) (lc_bounds c) p q)).
Proof. exact legacy_neighbors_end_to_end. Qed.
Print Assumptions C10_legacy_neighbors_end_to_end.

Theorem C10_legacy_torus_in_bounds : forall c ops a p,
  bounds_ok (lc_bounds c) = true ->
  aget a (l_pos (l_final c l_init ops)) = Some p -> oob_half (lc_bounds c) p = false.
Proof. exact legacy_positions_in_bounds. Qed.
Print Assumptions C10_legacy_torus_in_bounds.

Theorem C10_legacy_bounded_reject : forall c s a p,
  lc_torus c = false -> oob_half (lc_bounds c) p = true ->
  (lstep c s (LPlace a p) = (s, None) \/ lstep c s (LPlace a p) = (s, Some (Err E_OOB))) /\
  (lstep c s (LMove a p) = (s, None) \/ lstep c s (LMove a p) = (s, Some (Err E_OOB))).
Proof. exact legacy_bounded_reject. Qed.
Print Assumptions C10_legacy_bounded_reject.

(* ================= round 3: order of space.agents, agent.remove(), agents= forms, coincident agents ================= *)

(* space.agents / model.agents ORDER (compared in order by T2): appended by a creation, deleted in place by a removal,
   untouched by moves and queries; the same list for the space and for the model *)
Theorem C10_exp_agents_order : forall c ops,
  e_active (e_final c (e_init c) ops) = fold_left (e_order_step c) ops [] /\
  e_model (e_final c (e_init c) ops) = fold_left (e_order_step c) ops [].
Proof. exact exp_agents_order. Qed.
Print Assumptions C10_exp_agents_order.

Theorem C10_legacy_agents_order : forall c ops,
  akeys (l_a2i (l_final c l_init ops)) = fold_left (l_order_step c) ops [].
Proof. exact legacy_agents_order. Qed.
Print Assumptions C10_legacy_agents_order.

(* ContinuousSpaceAgent.remove() (model.deregister_agent, then space._remove_agent) and model.remove_all_agents():
   in every reachable state model.agents = space.agents; a removed agent is in neither, reports no position, everybody
   else keeps theirs; remove_all_agents() empties both *)
Theorem C10_remove_from_model_leaves_space : forall c ops a,
  let s := e_final c (e_init c) ops in
  e_model s = e_active s /\
  (In a (e_model s) ->
   let s' := fst (estep c s (ERemove a)) in
   snd (estep c s (ERemove a)) = Some (Ok []) /\
   ~ In a (e_model s') /\ ~ In a (e_active s') /\ e_getpos s' a = None /\
   e_abs s' = adel a (e_abs s) /\
   (forall b, b <> a -> e_getpos s' b = e_getpos s b)) /\
  (let s' := fst (estep c s EClear) in
   snd (estep c s EClear) = Some (Ok []) /\ e_model s' = [] /\ e_active s' = []).
Proof. exact remove_from_model_leaves_space. Qed.
Print Assumptions C10_remove_from_model_leaves_space.

(* calculate_distances / calculate_difference_vector with agents=[...] after any history: defined iff every listed agent
   is in the space; the answer lists exactly the listed agents, in the order given (repeats, empty list included), each
   with the distance / difference vector of its last assigned position *)
Theorem C10_exp_subset_forms_exact : forall c ops q l,
  let s := e_final c (e_init c) ops in
  dim_ok (ec_bounds c) q = true ->
  (snd (estep c s (EDistancesOf q l)) <> None <-> forall a, In a l -> In a (e_active s)) /\
  (forall rows, Forall2 (fun a p => fold_left (e_track c a) ops None = Some p) l rows ->
     snd (estep c s (EDistancesOf q l))
     = Some (Ok (concat (map (fun ar : Z * point => [fst ar; dist2 (ec_torus c) (ec_bounds c) (snd ar) q]) (combine l rows)))) /\
     snd (estep c s (EDiffsOf q l))
     = Some (Ok (concat (map (fun ar : Z * point => fst ar :: diffv (ec_torus c) (ec_bounds c) q (snd ar)) (combine l rows))))).
Proof. exact exp_subset_forms_exact. Qed.
Print Assumptions C10_exp_subset_forms_exact.

(* DOCUMENTED BOUNDARY of agent.get_nearest_neighbors(k) = get_k_nearest_agents(self.position, k + 1) minus self, for ANY
   legal choice raw of the k+1 nearest:  self in raw -> exactly k distinct other agents, none farther than an other agent
   left out;  self not in raw -> the answer is raw: k+1 agents, all of them exactly on self (needs >= k+1 coincident others) *)
Theorem C10_nearest_neighbors_boundary : forall ds k a raw,
  In (a, 0) ds -> knn_legal ds (S k) raw = true ->
  let out := filter (fun b => negb (b =? a)) raw in
  (In a raw ->
     length out = k /\ NoDup out /\ ~ In a out /\
     (forall b x d, In b out -> In (x, d) ds -> x <> a -> ~ In x out -> dist_of ds b <= d)) /\
  (~ In a raw ->
     out = raw /\ length out = S k /\ NoDup out /\ (forall b, In b out -> b <> a /\ dist_of ds b <= 0)).
Proof. exact nearest_neighbors_boundary. Qed.
Print Assumptions C10_nearest_neighbors_boundary.

(* legacy get_neighbors: include_center=False drops EVERY agent at distance 0 of the query point and nothing else;
   radius 0 returns exactly the agents at distance 0 (centre included) / nobody (centre excluded); on a bounded space
   distance 0 means the same point *)
Theorem C10_legacy_center_rule : forall c (m : amap) q r a,
  (In a (spec_neighbors c m q r false) <->
   exists p, In (a, p) m /\ 0 < dist2 (lc_torus c) (lc_bounds c) p q <= r * r) /\
  (In a (spec_neighbors c m q r true) <->
   exists p, In (a, p) m /\ dist2 (lc_torus c) (lc_bounds c) p q <= r * r).
Proof. exact legacy_center_rule. Qed.
Print Assumptions C10_legacy_center_rule.

Theorem C10_legacy_radius_zero : forall c (m : amap) q a,
  (In a (spec_neighbors c m q 0 true) <-> exists p, In (a, p) m /\ dist2 (lc_torus c) (lc_bounds c) p q = 0) /\
  ~ In a (spec_neighbors c m q 0 false).
Proof. exact legacy_radius_zero. Qed.
Print Assumptions C10_legacy_radius_zero.

Theorem C10_coincident_means_same_point : forall bs p q,
  length p = length bs -> length q = length bs -> (dist2 false bs p q = 0 <-> p = q).
Proof. exact dist2_zero_bounded. Qed.
Print Assumptions C10_coincident_means_same_point.

(* DOCUMENTED BOUNDARY (round 4).  Agent.remove() of a plain mesa.Agent sitting in a LEGACY space (Mesa's Agent.remove only
   deregisters from the model and tells users to extend it): after any history the call succeeds, NO field of the space
   changes - the agent keeps its entry, its pos, its cached row, it is still listed by space.agents - and every later
   space operation answers and acts exactly as if the call had not happened.  The property's "agents placed and not
   removed" means removed FROM THE SPACE (remove_agent); under that reading the statement covers this case and holds *)
Theorem C10_legacy_agent_remove_leaves_space_entry : forall c ops a,
  let s := l_final c l_init ops in
  let s' := fst (lstep c s (LAgentRemove a)) in
  snd (lstep c s (LAgentRemove a)) = Some (Ok []) /\
  l_a2i s' = l_a2i s /\ l_i2a s' = l_i2a s /\ l_points s' = l_points s /\ l_pos s' = l_pos s /\
  In a (l_gone s') /\
  (In a (akeys (l_a2i s)) -> In a (akeys (l_a2i s'))) /\
  (forall o, snd (lstep c s' o) = snd (lstep c s o) /\ l_pos (fst (lstep c s' o)) = l_pos (fst (lstep c s o)) /\
             akeys (l_a2i (fst (lstep c s' o))) = akeys (l_a2i (fst (lstep c s o)))).
Proof. exact legacy_agent_remove_leaves_space_entry. Qed.
Print Assumptions C10_legacy_agent_remove_leaves_space_entry.

(* DOCUMENTED BOUNDARY (round 4).  place_agent of an agent that is ALREADY placed (the decorator only warns) is an
   assignment like move_agent: same answer, same new pos, same place in space.agents, no second entry; it differs only
   in dropping the cache instead of patching it.  So "position = last assigned" and "agents = placed and not removed"
   cover it (C10_legacy_position_last_assigned / C10_legacy_agents_order now range over such histories too) *)
Theorem C10_legacy_replace_is_move : forall c ops a p,
  let s := l_final c l_init ops in
  In a (akeys (l_a2i s)) -> dim_ok (lc_bounds c) p = true ->
  snd (lstep c s (LPlace a p)) = snd (lstep c s (LMove a p)) /\
  l_pos (fst (lstep c s (LPlace a p))) = l_pos (fst (lstep c s (LMove a p))) /\
  akeys (l_a2i (fst (lstep c s (LPlace a p)))) = akeys (l_a2i s) /\
  NoDup (akeys (l_a2i (fst (lstep c s (LPlace a p))))) /\
  (snd (lstep c s (LPlace a p)) = Some (Ok []) -> l_points (fst (lstep c s (LPlace a p))) = None).
Proof. exact legacy_replace_is_move. Qed.
Print Assumptions C10_legacy_replace_is_move.

Example C10_round4_legacy_example :
  let c := {| lc_bounds := [(-16, 48); (0, 64)]; lc_torus := false |} in
  let ops := [LPlace 1 [0; 16]; LPlace 2 [16; 16]; LNeighbors [0; 16] 16 true; LAgentRemove 1; LAgentRemove 1;
              LNeighbors [0; 16] 16 true; LPlace 1 [32; 48]; LNeighbors [0; 16] 16 true; LPlace 2 [200; 0]] in
  let s := l_final c l_init ops in
  akeys (l_a2i s) = [1; 2] /\ l_pos s = [(1, [32; 48]); (2, [16; 16])] /\ l_gone s = [1] /\
  map (fun o => firstn 3 o) (l_run c l_init ops)
  = [[-9; 1; 1]; [-9; 2; 1]; [0; 1; 2]; [-9; 2; 1]; [-9; 2; 1]; [0; 1; 2]; [-9; 2; 1]; [0; 2; -9]; [-1; 1; -9]].
Proof. vm_compute. repeat split; reflexivity. Qed.

(* three agents on one point and one elsewhere: agent 3 asking for 1 neighbour may get 2 (self dropped by argpartition),
   or 1; order of space.agents / model.agents; remove and remove_all *)
Example C10_round3_example :
  let c := {| ec_bounds := [(-16, 48); (0, 64)]; ec_torus := false; ec_cap := 2 |} in
  let ops := [EAdd 1 [0; 16]; EAdd 2 [0; 16]; EAdd 3 [0; 16]; EAdd 4 [32; 48]; ESet 1 [0; 16]] in
  let s := e_final c (e_init c) ops in
  e_active s = [1; 2; 3; 4] /\ e_model s = [1; 2; 3; 4] /\
  firstn 4 (nth 0 (e_run c s [ENearestNbrs 3 1 [1; 2]]) []) = [1; 0; 2; 0] /\
  firstn 2 (nth 0 (e_run c s [ENearestNbrs 3 1 [3; 1]]) []) = [1; 0] /\
  nth 0 (e_run c s [ENearestNbrs 3 1 [3; 4]]) [] = -3 :: SEP :: e_view s /\
  e_active (fst (estep c s (ERemove 2))) = [1; 3; 4] /\ e_model (fst (estep c s (ERemove 2))) = [1; 3; 4] /\
  e_model (fst (estep c s EClear)) = [] /\ e_rows (fst (estep c s EClear)) = [] /\
  firstn 4 (nth 0 (e_run c s [EDistancesOf [0; 0] [4; 1; 4]]) []) = [4; 3328; 1; 256] /\
  firstn 1 (nth 0 (e_run c s [EDistancesOf [0; 0] []]) []) = [SEP].
Proof. vm_compute. repeat split; reflexivity. Qed.

Example C10_round3_legacy_example :
  let c := {| lc_bounds := [(-16, 48); (0, 64)]; lc_torus := false |} in
  let ops := [LPlace 1 [0; 16]; LPlace 2 [0; 16]; LPlace 3 [32; 48]; LRemove 1; LPlace 1 [0; 16]; LMove 2 [0; 16]] in
  let s := l_final c l_init ops in
  akeys (l_a2i s) = [2; 3; 1] /\
  map (fun o => firstn 3 o) (l_run c s [LNeighbors [0; 16] 0 true; LNeighbors [0; 16] 0 false; LNeighbors [0; 16] 64 false])
  = [[0; 1; 2]; [0; -9; 3]; [0; 3; -9]].
Proof. vm_compute. repeat split; reflexivity. Qed.

(* ================= the function the correspondence check (T2) evaluates ================= *)

(* run_case - what `vm_compute` evaluates against the implementation's observations on every run - is, for every
   history of either space, the run of the cache-free / array-free specification *)
Theorem C10_run_case_refines : forall c, run_case c = spec_run_case c.
Proof. exact run_case_refines. Qed.
Print Assumptions C10_run_case_refines.

(* ================= geometry (both spaces) ================= *)

Theorem C10_dist_symmetric : forall t bs p q, dist2 t bs p q = dist2 t bs q p.
Proof. exact dist2_sym. Qed.
Print Assumptions C10_dist_symmetric.

(* what "toroidal" means: along each axis the distance used on a torus is the shortest |a - b + k*size| over all
   whole numbers of turns k (for points at most one period apart, e.g. both inside the closed bounds) *)
Theorem C10_torus_distance_is_shortest : forall size a b,
  0 < size -> Z.abs (a - b) <= size ->
  (forall k, axis_dist true size a b <= Z.abs (a - b + k * size)) /\
  (exists k, (k = -1 \/ k = 0 \/ k = 1) /\ axis_dist true size a b = Z.abs (a - b + k * size)).
Proof. exact axis_dist_quotient. Qed.
Print Assumptions C10_torus_distance_is_shortest.

(* heading (legacy) / difference vector (experimental): squared length = squared distance; on a torus
   for points inside the closed bounds (the shorter of the two representatives per axis) *)
Theorem C10_heading_norm : forall t bs p q,
  bounds_ok bs = true ->
  (t = true -> in_closed bs p = true /\ in_closed bs q = true) ->
  norm2 (diffv t bs p q) = dist2 t bs p q.
Proof. exact heading_norm. Qed.
Print Assumptions C10_heading_norm.

(* torus wrapping: lands in the half-open (hence closed) bounds, is the identity inside them *)
Theorem C10_torus_in_bounds : forall bs p,
  bounds_ok bs = true -> oob_half bs (wrap bs p) = false /\ in_closed bs (wrap bs p) = true.
Proof. exact wrap_in_bounds. Qed.
Print Assumptions C10_torus_in_bounds.

Theorem C10_wrap_identity_inside : forall bs p,
  length p = length bs -> oob_half bs p = false -> wrap bs p = p.
Proof. exact wrap_id. Qed.
Print Assumptions C10_wrap_identity_inside.

(* ================= C18, continuous-space sites ================= *)

(* legacy place_agent / move_agent out of bounds on a bounded space, remove_agent of an absent agent:
   the call raises and the WHOLE state (hence every observation) is unchanged *)
Theorem C18_continuous_atomic_legacy : forall c ops o s' e,
  lstep c (l_final c l_init ops) o = (s', Some (Err e)) ->
  s' = l_final c l_init ops /\ (e = E_OOB \/ e = E_NOTIN).
Proof. exact legacy_atomic. Qed.
Print Assumptions C18_continuous_atomic_legacy.

(* experimental ContinuousSpaceAgent.position out of bounds *)
Theorem C18_continuous_atomic_exp_position : forall c ops o s' e,
  estep c (e_final c (e_init c) ops) o = (s', Some (Err e)) -> s' = e_final c (e_init c) ops.
Proof. exact exp_atomic. Qed.
Print Assumptions C18_continuous_atomic_exp_position.

(* C18_continue: hence the rest of any history behaves as if the rejected call had not been made *)
Theorem C18_continuous_continue_legacy : forall c ops o s' e rest,
  lstep c (l_final c l_init ops) o = (s', Some (Err e)) ->
  l_run c s' rest = l_run c (l_final c l_init ops) rest.
Proof. exact legacy_continue. Qed.
Print Assumptions C18_continuous_continue_legacy.

Theorem C18_continuous_continue_exp : forall c ops o s' e rest,
  estep c (e_final c (e_init c) ops) o = (s', Some (Err e)) ->
  e_run c s' rest = e_run c (e_final c (e_init c) ops) rest.
Proof. exact exp_continue. Qed.
Print Assumptions C18_continuous_continue_exp.

(* ================= T1 at code level: the source functions, translated ================= *)

(* harness/tables/continuous_code.py TRANSLATES (harness/pyexpr.py, per-axis reading of the NumPy expressions) on every
   run: legacy out_of_bounds, torus_adj, get_distance (read squared), get_heading, the delta / squared-norm / selection
   expressions of get_neighbors; experimental in_bounds, torus_correct, the growth rule and its guard, the re-indexing
   expression and the compaction slice bounds of _remove_agent, calculate_difference_vector, the torus branch of
   calculate_distances, the radius comparison, the argpartition index; the guards of the position setter.
   The remaining statements (dictionaries, agent.pos, cache invalidation, vstack, cdist, compress, views) are checked
   verbatim, statement for statement, in the order the models transcribe them: *)
Theorem C10_source_skeletons : gen_cs_legacy_skeleton_ok = true /\ gen_cs_exp_skeleton_ok = true.
Proof. exact (conj eq_refl eq_refl). Qed.
Print Assumptions C10_source_skeletons.

(* every translated function IS the model function the theorems above are about (15 bridges) *)
Theorem C10_source_code_is_model : source_code_is_model_statement.
Proof. exact source_code_is_model. Qed.
Print Assumptions C10_source_code_is_model.

(* the translated growth rule adds at least one row whenever it is taken - what the invariant n <= capacity needs
   (false for the unrepaired  int(round(0.2 * n))  at n = 1, 2) *)
Theorem C10_growth_positive_of_source : forall n, 1 <= gen_cs_growth (Z.of_nat n).
Proof. exact growth_positive_of_source. Qed.
Print Assumptions C10_growth_positive_of_source.

(* _remove_agent: the model's compaction is the slice copy with the translated bounds (equal lengths), n decremented *)
Theorem C10_source_compaction : forall s a index s',
  aget a (e_a2i s) = Some index -> (index < e_n s)%nat -> remove_agent s a = Ok s' ->
  e_store s' = slice_copy (gen_cs_compact (Z.of_nat index) (Z.of_nat (e_n s))) (e_store s) /\
  (let '((a', b'), (c', d')) := gen_cs_compact (Z.of_nat index) (Z.of_nat (e_n s)) in b' - a' = d' - c') /\
  e_n s' = (e_n s - 1)%nat.
Proof. exact compact_bridge. Qed.
Print Assumptions C10_source_compaction.

(* ... so the headline statements hold of the translated source code itself.
   get_neighbors (translated delta, squared norm, selection) returns exactly the agents whose translated get_distance
   (squared) from the query point is at most radius^2, an agent at distance 0 only on request: *)
Theorem C10_legacy_radius_exact_of_source : forall x0 x1 y0 y1 t cache q r ic a,
  In a (gen_neighbors x0 x1 y0 y1 t cache q r ic) <->
  exists p, In (a, p) cache /\ gen_cs_distance2 x0 x1 y0 y1 t p q <= r * r /\
            (ic = true \/ 0 < gen_cs_distance2 x0 x1 y0 y1 t p q).
Proof. exact neighbors_exact_of_source. Qed.
Print Assumptions C10_legacy_radius_exact_of_source.

(* the translated get_heading has the (squared) length of the translated get_distance *)
Theorem C10_heading_norm_of_source : forall x0 x1 y0 y1 t a1 b1 a2 b2,
  x0 < x1 -> y0 < y1 ->
  (t = true -> x0 <= a1 <= x1 /\ x0 <= a2 <= x1 /\ y0 <= b1 <= y1 /\ y0 <= b2 <= y1) ->
  gen_cs_heading_axis (x1 - x0) t a1 a2 * gen_cs_heading_axis (x1 - x0) t a1 a2
  + gen_cs_heading_axis (y1 - y0) t b1 b2 * gen_cs_heading_axis (y1 - y0) t b1 b2
  = gen_cs_distance2 x0 x1 y0 y1 t (a1, b1) (a2, b2).
Proof. exact heading_norm_of_source. Qed.
Print Assumptions C10_heading_norm_of_source.

(* whatever the translated torus_adj returns passes the translated out_of_bounds test; whatever the translated
   position setter stores passes the translated in_bounds *)
Theorem C10_torus_in_bounds_of_source : forall x0 x1 y0 y1 t pos p',
  x0 < x1 -> y0 < y1 ->
  gen_cs_torus_adj x0 x1 y0 y1 t pos = Some p' -> gen_cs_out_of_bounds x0 x1 y0 y1 p' = false.
Proof. exact torus_adj_in_bounds_of_source. Qed.
Print Assumptions C10_torus_in_bounds_of_source.

Theorem C10_setter_in_bounds_of_source : forall bs t p v,
  bounds_ok bs = true ->
  gen_cs_setter t (gen_in_bounds bs p) p (gen_torus_correct bs p) = Some v -> gen_in_bounds bs v = true.
Proof. exact setter_stores_in_bounds_of_source. Qed.
Print Assumptions C10_setter_in_bounds_of_source.

(* the translated code computes: a torus of x in [-1, 3), y in [0, 4) (scaled by 16) *)
Example C10_source_example :
  gen_cs_torus_adj (-16) 48 0 64 true (48, -1) = Some (-16, 63) /\
  gen_cs_torus_adj (-16) 48 0 64 false (48, -1) = None /\
  gen_cs_distance2 (-16) 48 0 64 true (-8, 8) (40, 56) = 512 /\
  gen_cs_heading_axis 64 true (-8) 40 = -16 /\
  gen_neighbors (-16) 48 0 64 true [(1, (12, 28)); (2, (-16, 0)); (3, (40, 60))] (44, 0) 8 false = [2; 3] /\
  gen_cs_growth 1 = 1 /\ gen_cs_growth 101 = 20 /\ gen_cs_kth 3 = (2, 3) /\
  gen_cs_compact 1 4 = ((1, 3), (2, 4)) /\ slice_copy (gen_cs_compact 1 4) [10; 11; 12; 13; 14] = [10; 12; 13; 13; 14] /\
  gen_cs_setter true false [17; 0] [1; 0] = Some [1; 0] /\ gen_cs_setter false false [17; 0] [1; 0] = None.
Proof. vm_compute. repeat split; reflexivity. Qed.

(* ================= non-vacuity ================= *)
Definition ex_cfg (cap : nat) : ecfg := {| ec_bounds := [(-16, 48); (0, 64)]; ec_torus := true; ec_cap := cap |}.
Definition ex_ops : list eop :=
  [EAdd 1 [0; 16]; EAdd 2 [100; 16]; EAdd 3 [32; 48]; ERadius [0; 16] 32; ESet 1 [12; 28];
   ERemove 2; EAdd 4 [-20; 70]; EKNearest [12; 28] 2 [1; 3]; EDiffs [0; 0]; ERemove 1].

(* capacity 0: three growth steps, one compaction in the middle, one wrapped assignment; the history
   ends with agents 3 and 4 at the expected places and every observation equal to the specification's *)
Example C10_exp_example :
  let s := e_final (ex_cfg 0) (e_init (ex_cfg 0)) ex_ops in
  e_active s = [3; 4] /\ e_getpos s 3 = Some [32; 48] /\ e_getpos s 4 = Some [44; 6] /\ e_getpos s 1 = None /\
  length (e_store s) = 3%nat /\
  nth 3 (e_run (ex_cfg 0) (e_init (ex_cfg 0)) ex_ops) [] = [1; 0; 2; 784; -9; 3; 3; 1; 0; 16; 2; 36; 16; 3; 32; 48; -9; 1; 2; 3] /\
  nth 7 (e_run (ex_cfg 0) (e_init (ex_cfg 0)) ex_ops) [] = [1; 0; 3; 800; -9; 3; 3; 1; 12; 28; 3; 32; 48; 4; 44; 6; -9; 1; 3; 4].
Proof. vm_compute. repeat split; reflexivity. Qed.

(* the same agent 4 in the 10-operation history from capacity 0 and in its 1-operation projection from capacity 100 *)
Example C10_exp_independent_example :
  filter (e_names 4) ex_ops = [EAdd 4 [-20; 70]] /\
  e_getpos (e_final (ex_cfg 0) (e_init (ex_cfg 0)) ex_ops) 4 = Some [44; 6] /\
  e_getpos (e_final (ex_cfg 100) (e_init (ex_cfg 100)) (filter (e_names 4) ex_ops)) 4 = Some [44; 6].
Proof. vm_compute. repeat split; reflexivity. Qed.

(* growth steps of 7, 0 and 1 rows inserted into the capacity-0 history: same observations *)
Example C10_exp_growth_example :
  let l := GGrow 7 :: GOp (EAdd 1 [0; 16]) :: GOp (EAdd 2 [100; 16]) :: GGrow 0 :: GOp (ERadius [0; 16] 32)
           :: GOp (ERemove 1) :: GGrow 1 :: GOp (EAdd 4 [-20; 70]) :: [] in
  length (e_store (g_final (ex_cfg 0) (e_init (ex_cfg 0)) l)) = 8%nat /\
  length (e_store (e_final (ex_cfg 0) (e_init (ex_cfg 0)) (ops_of l))) = 2%nat /\
  g_run (ex_cfg 0) (e_init (ex_cfg 0)) l = e_run (ex_cfg 0) (e_init (ex_cfg 0)) (ops_of l) /\
  e_getpos (g_final (ex_cfg 0) (e_init (ex_cfg 0)) l) 4 = Some [44; 6].
Proof. vm_compute. repeat split; reflexivity. Qed.

(* an accepted and a refused k-nearest outcome (agent 3 is nearer than agent 4) *)
Example C10_knearest_example :
  let ds := [(1, 0); (3, 800); (4, 1508)] in
  knn_legal ds 2 [1; 3] = true /\ knn_legal ds 2 [3; 1] = true /\ knn_legal ds 2 [1; 4] = false /\
  knn_legal ds 2 [1; 1] = false /\ knn_legal ds 3 [4; 1; 3] = true.
Proof. vm_compute. repeat split; reflexivity. Qed.

(* a rejected assignment on a bounded space: Err E_OOB, state unchanged *)
Example C10_exp_reject_example :
  let c := {| ec_bounds := [(0, 16); (0, 16)]; ec_torus := false; ec_cap := 1 |} in
  let s := e_final c (e_init c) [EAdd 1 [8; 8]; EAdd 2 [16; 0]] in
  estep c s (ESet 2 [17; 0]) = (s, Some (Err E_OOB)) /\ e_getpos s 2 = Some [16; 0].
Proof. vm_compute. split; reflexivity. Qed.

Definition ex_lcfg (t : bool) : lcfg := {| lc_bounds := [(-16, 48); (0, 64)]; lc_torus := t |}.
Definition ex_lops : list lop :=
  [LPlace 1 [0; 16]; LPlace 2 [16; 16]; LNeighbors [12; 28] 12 true; LMove 1 [12; 28];
   LNeighbors [12; 28] 12 true; LMove 2 [48; 64]; LRemove 1; LNeighbors [-16; 0] 0 true; LRemove 1;
   LHeading [-8; 8] [40; 56]].

(* query (cache built) - move (cache patched) - query; wrap of the upper corner to the lower one;
   the rejected second remove; the final state has the cache of the last query *)
Example C10_legacy_example :
  let s := l_final (ex_lcfg true) l_init ex_lops in
  l_pos s = [(2, [-16; 0])] /\ l_points s = Some [[-16; 0]] /\
  map (fun o => firstn 3 o) (l_run (ex_lcfg true) l_init ex_lops) =
    [[-9; 1; 1]; [-9; 2; 1]; [0; -9; 2]; [-9; 2; 1]; [0; 1; -9]; [-9; 2; 1]; [-9; 1; 2]; [0; 2; -9];
     [-1; 2; -9]; [-16; -16; -9]].
Proof. vm_compute. repeat split; reflexivity. Qed.

Example C10_legacy_reject_example :
  let s := l_final (ex_lcfg false) l_init [LPlace 1 [0; 16]] in
  lstep (ex_lcfg false) s (LPlace 2 [48; 16]) = (s, Some (Err E_OOB)) /\
  lstep (ex_lcfg false) s (LMove 1 [0; -1]) = (s, Some (Err E_OOB)) /\
  lstep (ex_lcfg false) s (LRemove 2) = (s, Some (Err E_NOTIN)).
Proof. vm_compute. repeat split; reflexivity. Qed.

(* geometry: a 3-D torus; distance across the seam; heading of that length; wrapping *)
Example C10_geometry_example :
  let bs := [(-16, 48); (0, 64); (8, 40)] in
  bounds_ok bs = true /\ in_closed bs [-8; 8; 8] = true /\ in_closed bs [40; 56; 40] = true /\
  dist2 true bs [-8; 8; 8] [40; 56; 40] = 512 /\ diffv true bs [-8; 8; 8] [40; 56; 40] = [-16; -16; 0] /\
  dist2 false bs [-8; 8; 8] [40; 56; 40] = 5632 /\
  wrap bs [48; -1; 100] = [-16; 63; 36] /\ oob_half bs [48; 0; 8] = true /\ in_closed bs [48; 0; 8] = true /\
  axis_dist true 64 (-8) 40 = 16 /\ Z.abs (-8 - 40 + 1 * 64) = 16.
Proof. vm_compute. repeat split; reflexivity. Qed.
