(* C13 - batch_run covers the whole design once and reports consistent rows.
   ONLY statements closed by `exact`, with Print Assumptions beneath each. *)
From Coq Require Import ZArith List Bool Permutation.
From Mesa Require Import Common.ListX Model.DataCollector Model.Batch Proofs.DataCollectorProofs Proofs.BatchProofs.
Import ListNotations.
Open Scope Z_scope.

(* the kwargs list is exactly the cartesian product: a dict is in it iff it picks, parameter by parameter
   (in dict order), one of that parameter's values; Π lengths many; each exactly once when no parameter
   repeats a value *)
Theorem C13_design_exact : forall ps,
  (forall k, In k (product ps) <-> Forall2 (fun p kv => fst kv = fst p /\ In (snd kv) (snd p)) ps k) /\
  length (product ps) = fold_right (fun p acc => (length (snd p) * acc)%nat) 1%nat ps /\
  ((forall p, In p ps -> NoDup (snd p)) -> NoDup (product ps)).
Proof. intros ps. exact (conj (product_spec ps) (conj (product_length ps) (product_NoDup ps))). Qed.
Print Assumptions C13_design_exact.

(* runs = iterations x combinations, in order, labelled with pairwise distinct RunIds 0,1,2,.. *)
Theorem C13_runs_exact : forall iterations prod,
  map (fun r => (run_iter r, run_kw r)) (runs_list iterations prod)
  = flat_map (fun it => map (fun k => (it, k)) prod) (zseq iterations)
  /\ NoDup (map run_id (runs_list iterations prod)).
Proof. exact runs_design. Qed.
Print Assumptions C13_runs_exact.

(* any worker completion order (any permutation of the work list) yields the same multiset of rows *)
Theorem C13_order_irrelevant : forall max_steps period runs runs',
  Permutation runs' runs -> Permutation (batch_rows max_steps period runs') (batch_rows max_steps period runs).
Proof. exact order_irrelevant. Qed.
Print Assumptions C13_order_irrelevant.

Theorem C13_rows_repeat_params : forall max_steps period id it k r,
  In r (run_rows max_steps period (id, it, k)) -> r_run r = id /\ r_iter r = it /\ r_kw r = k.
Proof. exact rows_repeat_params. Qed.
Print Assumptions C13_rows_repeat_params.

(* the loop takes at most max_steps steps (never max_steps + 1) and stops before that only when the
   model stopped running *)
Theorem C13_stops_at_max_steps : forall k max_steps,
  let m := run_model k max_steps in
  0 <= w_steps (b_w m) <= Z.max 0 max_steps /\ (b_running m = false \/ max_steps <= w_steps (b_w m)).
Proof. exact stops_at_max_steps. Qed.
Print Assumptions C13_stops_at_max_steps.

(* for every collector state that is a function of its collect moments (C12_refinement: every state the
   DataCollector can reach): the model-level values and the agent-level values reported for step s are
   those of ONE moment - the last collection made while model.steps = s *)
Theorem C13_alignment : forall cfg ms acc d s,
  refines cfg ms acc d ->
  match last_at s ms with
  | Some w =>
      w_steps w = s /\
      model_data d s = map (fun p => (fst p, mval_at w (snd p))) (c_mreps cfg) /\
      (is_nil (c_areps cfg) = false ->
       agent_data cfg d s = map (fun a => (a_id a, combine (map fst (c_areps cfg))
                                                     (map (fun p => aval_at w a (snd p)) (c_areps cfg))))
                                (w_agents w))
  | None => model_data d s = [] /\ agent_data cfg d s = []
  end.
Proof. exact alignment. Qed.
Print Assumptions C13_alignment.

(* the last collected step is among the reported steps, and every reported step yields at least one row *)
Theorem C13_last_state_reported : forall period d l cfg id it k,
  last_opt (dedup_first Z.eqb (d_csteps d)) = Some l ->
  In l (report_steps period d) /\ In l (d_csteps d) /\ step_rows cfg d id it k l <> [].
Proof.
  intros period d l cfg id it k H. destruct (last_reported period d l H) as [H1 H2].
  exact (conj H1 (conj H2 (step_rows_nonempty cfg d id it k l))).
Qed.
Print Assumptions C13_last_state_reported.

(* non-vacuity: a 2 x 3 design with 2 iterations; a model that collects at construction and in step,
   stops at step 3, max_steps 5, period 2: rows for steps 0, 2 and the last collection 3 *)
Example C13_example :
  let ps := [(0, [1; 2]); (6, [0; 1; 7])] in
  length (product ps) = 6%nat /\ (forall p, In p ps -> NoDup (snd p)) /\
  length (runs_list 2 (product ps)) = 12%nat /\
  let k := [(0, 2); (1, 3); (2, 1)] in
  w_steps (b_w (run_model k 5)) = 3 /\ b_running (run_model k 5) = false /\
  w_steps (b_w (run_model [(0, 2)] 5)) = 5 /\
  report_steps 2 (b_d (run_model k 5)) = [0; 2; 3] /\
  length (run_rows 5 2 (0, 0, k)) = 6%nat /\
  last_opt (dedup_first Z.eqb (d_csteps (b_d (run_model k 5)))) = Some 3 /\
  (* two collects at construction and two inside every step, a model-level change between them:
     the row of a step carries the LAST collection made at that step *)
  let k2 := [(0, 1); (2, 2); (3, 2)] in
  d_csteps (b_d (run_model k2 1)) = [0; 0; 1; 1] /\
  aget 3 (d_mvars (b_d (run_model k2 1))) = Some [SInt 0; SInt 1; SInt 1; SInt 3] /\
  aget 3 (model_data (b_d (run_model k2 1)) 0) = Some (SInt 1) /\
  aget 3 (model_data (b_d (run_model k2 1)) 1) = Some (SInt 3) /\
  length (run_rows 1 1 (0, 0, k2)) = 2%nat.
Proof.
  cbv zeta. split; [vm_compute; reflexivity|]. split.
  - intros p [H|[H|[]]]; subst; simpl; repeat constructor; simpl; intuition congruence.
  - repeat split; vm_compute; reflexivity.
Qed.
