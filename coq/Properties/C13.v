(* C13 - batch_run covers the whole design once and reports consistent rows.
   ONLY statements closed by `exact`, with Print Assumptions beneath each. *)
From Coq Require Import ZArith List Bool Permutation.
From Mesa Require Import Common.ListX Generated.Tables Model.DataCollector Model.Batch Proofs.DataCollectorProofs Proofs.BatchProofs Proofs.BatchBridge.
Import ListNotations.
Open Scope Z_scope.

(* the kwargs list is exactly the cartesian product: a dict is in it iff it picks, parameter by parameter
   (in dict order), one of that parameter's values; Π lengths many; each exactly once when no parameter
   repeats a value *)
Theorem C13_design_exact : forall ps,
  (forall k, In k (product ps) <-> Forall2 (fun p kv => fst kv = fst p /\ In (snd kv) (snd p)) ps k) /\
  length (product ps) = fold_right (fun p acc => (length (snd p) * acc)%nat) 1%nat ps /\
  ((forall p, In p ps -> NoDup (snd p)) -> NoDup (product ps)).
Proof. intros ps. exact (conj (product_spec ps) (conj (product_length ps) (product_NoDup ps))). Qed.
Print Assumptions C13_design_exact.

(* runs = iterations x combinations, in order, labelled with pairwise distinct RunIds 0,1,2,.. *)
Theorem C13_runs_exact : forall iterations prod,
  map (fun r => (run_iter r, run_kw r)) (runs_list iterations prod)
  = flat_map (fun it => map (fun k => (it, k)) prod) (zseq iterations)
  /\ NoDup (map run_id (runs_list iterations prod)).
Proof. exact runs_design. Qed.
Print Assumptions C13_runs_exact.

(* any worker completion order (any permutation of the work list) yields the same multiset of rows *)
Theorem C13_order_irrelevant : forall max_steps period runs runs',
  Permutation runs' runs -> Permutation (batch_rows max_steps period runs') (batch_rows max_steps period runs).
Proof. exact order_irrelevant. Qed.
Print Assumptions C13_order_irrelevant.

Theorem C13_rows_repeat_params : forall max_steps period id it k r,
  In r (run_rows max_steps period (id, it, k)) -> r_run r = id /\ r_iter r = it /\ r_kw r = k.
Proof. exact rows_repeat_params. Qed.
Print Assumptions C13_rows_repeat_params.

(* the loop takes at most max_steps steps (never max_steps + 1) and stops before that only when the
   model stopped running *)
Theorem C13_stops_at_max_steps : forall k max_steps,
  let m := run_model k max_steps in
  0 <= w_steps (b_w m) <= Z.max 0 max_steps /\ (b_running m = false \/ max_steps <= w_steps (b_w m)).
Proof. exact stops_at_max_steps. Qed.
Print Assumptions C13_stops_at_max_steps.

(* for every collector state that is a function of its collect moments (C12_refinement: every state the
   DataCollector can reach): the model-level values and the agent-level values reported for step s are
   those of ONE moment - the last collection made while model.steps = s *)
Theorem C13_alignment : forall cfg ms acc d s,
  refines cfg ms acc d ->
  match last_at s ms with
  | Some w =>
      w_steps w = s /\
      model_data d s = map (fun p => (fst p, mval_at w (snd p))) (c_mreps cfg) /\
      (is_nil (c_areps cfg) = false ->
       agent_data cfg d s = map (fun a => (a_id a, combine (map fst (c_areps cfg))
                                                     (map (fun p => aval_at w a (snd p)) (c_areps cfg))))
                                (w_agents w))
  | None => model_data d s = [] /\ agent_data cfg d s = []
  end.
Proof. exact alignment. Qed.
Print Assumptions C13_alignment.

(* the last collected step is among the reported steps, and every reported step yields at least one row *)
Theorem C13_last_state_reported : forall period d l cfg id it k,
  last_opt (dedup_first Z.eqb (d_csteps d)) = Some l ->
  In l (report_steps period d) /\ In l (d_csteps d) /\ step_rows cfg d id it k l <> [].
Proof.
  intros period d l cfg id it k H. destruct (last_reported period d l H) as [H1 H2].
  exact (conj H1 (conj H2 (step_rows_nonempty cfg d id it k l))).
Qed.
Print Assumptions C13_last_state_reported.

(* C13_alignment for ALL models of the script language (every ic/sc collect pattern, early stop, churn,
   with/without agent reporters), every max_steps and every step s, unconditionally: the moments are
   b_trace, the worlds at which the script called collect (ghost field of the model, in call order);
   the row data of step s are the model-level AND agent-level values of one moment, the last one made
   at step s; nothing is reported for a step at which the model did not collect *)
Theorem C13_alignment_all_models : forall k max_steps s,
  let m := run_model k max_steps in
  let cfg := bm_cfg (params_of k) in
  d_csteps (b_d m) = map w_steps (b_trace m) /\
  match last_at s (b_trace m) with
  | Some w =>
      In w (b_trace m) /\ w_steps w = s /\
      model_data (b_d m) s = map (fun q => (fst q, mval_at w (snd q))) (c_mreps cfg) /\
      (is_nil (c_areps cfg) = false ->
       agent_data cfg (b_d m) s = map (fun a => (a_id a, combine (map fst (c_areps cfg))
                                                         (map (fun q => aval_at w a (snd q)) (c_areps cfg))))
                                      (w_agents w))
  | None => ~ In s (d_csteps (b_d m)) /\ model_data (b_d m) s = [] /\ agent_data cfg (b_d m) s = []
  end.
Proof. exact alignment_all_models. Qed.
Print Assumptions C13_alignment_all_models.

(* the run's last collection - the last world of the trace - is reported: its step is requested, it is
   the moment the rows of that step are built from, and there is at least one such row *)
Theorem C13_last_state_reported_all_models : forall k max_steps period w id it,
  let m := run_model k max_steps in
  last_opt (b_trace m) = Some w ->
  In (w_steps w) (report_steps period (b_d m)) /\ last_at (w_steps w) (b_trace m) = Some w /\
  step_rows (bm_cfg (params_of k)) (b_d m) id it k (w_steps w) <> [].
Proof. exact last_state_reported_all_models. Qed.
Print Assumptions C13_last_state_reported_all_models.

(* full strength of "steps each model until it stops or has taken max_steps steps" *)
Theorem C13_steps_taken : forall k max_steps,
  w_steps (b_w (run_model k max_steps)) =
  match p_stop (params_of k) with
  | None => Z.max 0 max_steps
  | Some s => Z.min (Z.max 0 max_steps) (Z.max 1 s)
  end.
Proof. exact steps_taken. Qed.
Print Assumptions C13_steps_taken.

(* batch_run = running by hand: for every parameter design, iterations, max_steps, period and every
   completion order of the work list, the rows are a permutation of the union over the runs of the rows
   built from the model constructed with the run's kwargs and stepped by hand steps_target times *)
Theorem C13_eq_by_hand : forall ps vals iterations max_steps period order,
  all_values ps = Some vals ->
  Permutation order (runs_list iterations (product vals)) ->
  batch (Batch ps iterations max_steps period)
    = Ok (batch_rows max_steps period (runs_list iterations (product vals))) /\
  Permutation (batch_rows max_steps period order)
              (flat_map (rows_by_hand max_steps period) (runs_list iterations (product vals))).
Proof.
  intros ps vals iterations max_steps period order Hv Hp. split.
  - simpl. rewrite Hv. reflexivity.
  - exact (eq_by_hand max_steps period _ order Hp).
Qed.
Print Assumptions C13_eq_by_hand.

Theorem C13_run_model_by_hand : forall k max_steps, run_model k max_steps = run_by_hand k max_steps.
Proof. exact run_model_by_hand. Qed.
Print Assumptions C13_run_model_by_hand.

(* the model's `nth i vals SNone` never falls back to its default, i.e. the code's values[positions[-1]]
   never raises IndexError: every model_vars list is as long as _collection_steps *)
Theorem C13_no_index_error : forall k max_steps,
  let d := b_d (run_model k max_steps) in
  (forall n vals, In (n, vals) (d_mvars d) -> length vals = length (d_csteps d)) /\
  (forall s i, last_pos s (d_csteps d) = Some i -> forall n vals, In (n, vals) (d_mvars d) -> (i < length vals)%nat).
Proof. exact no_index_error. Qed.
Print Assumptions C13_no_index_error.

(* ================= code-level T1: the same statements about the code TRANSLATED from the working tree =================
   gen_* are regenerated from mesa/batchrunner.py on every run (harness/tables/datacollect_batch_code.py). *)

(* the glue statements of batch_run / _model_run_func / _collect_data (model constructed with exactly **kwargs, rows built
   per reported step from _collect_data, serial loop and imap_unordered extending the results) are verbatim as modelled *)
Theorem C13_source_skeleton : gen_batch_skeleton_ok = true.
Proof. vm_compute. reflexivity. Qed.
Print Assumptions C13_source_skeleton.

(* the model functions ARE the translated ones *)
Theorem C13_model_is_source :
  (forall k max_steps, run_model k max_steps = gen_run_model k max_steps) /\
  (forall period d, report_steps period d = gen_report_steps period (d_csteps d)) /\
  (forall d s, model_data d s = gen_model_data SNone s (d_csteps d) (d_mvars d)) /\
  (forall iterations prod, runs_list iterations prod = gen_runs_list iterations prod) /\
  (forall n s is_str is_lts iterable len code elems, consistent s is_str is_lts iterable len code elems ->
     gen_param_values n is_str is_lts iterable len code elems = spec_values n s).
Proof.
  exact (conj run_model_bridge (conj report_steps_bridge (conj model_data_bridge (conj runs_list_bridge param_values_bridge)))).
Qed.
Print Assumptions C13_model_is_source.

(* the while loop with the TRANSLATED condition takes exactly min(max_steps, stop) steps *)
Theorem C13_steps_taken_of_source : forall k max_steps,
  w_steps (b_w (gen_run_model k max_steps)) =
  match p_stop (params_of k) with
  | None => Z.max 0 max_steps
  | Some s => Z.min (Z.max 0 max_steps) (Z.max 1 s)
  end.
Proof. intros k max_steps. rewrite <- run_model_bridge. exact (steps_taken k max_steps). Qed.
Print Assumptions C13_steps_taken_of_source.

(* the RunIds produced by the TRANSLATED loop nest are pairwise distinct and label iterations x combinations in order *)
Theorem C13_runs_exact_of_source : forall iterations prod,
  map (fun r => (run_iter r, run_kw r)) (gen_runs_list iterations prod)
  = flat_map (fun it => map (fun k => (it, k)) prod) (zseq iterations)
  /\ NoDup (map run_id (gen_runs_list iterations prod)).
Proof. intros iterations prod. rewrite <- runs_list_bridge. exact (runs_design iterations prod). Qed.
Print Assumptions C13_runs_exact_of_source.

(* for every BM model: the steps reported by the TRANSLATED computation contain the step of the last collection,
   and the TRANSLATED position lookup / model_data comprehension yields the model-level values of the last
   collection made at the reported step - the one _agent_records holds (C13_alignment_all_models) *)
Theorem C13_rows_of_source : forall k max_steps period s,
  let m := gen_run_model k max_steps in
  let cfg := bm_cfg (params_of k) in
  (forall w, last_opt (b_trace m) = Some w -> In (w_steps w) (gen_report_steps period (d_csteps (b_d m)))) /\
  match last_at s (b_trace m) with
  | Some w => gen_model_data SNone s (d_csteps (b_d m)) (d_mvars (b_d m))
              = map (fun q => (fst q, mval_at w (snd q))) (c_mreps cfg)
  | None => gen_model_data SNone s (d_csteps (b_d m)) (d_mvars (b_d m)) = []
  end.
Proof.
  intros k max_steps period s m cfg. unfold m. rewrite <- run_model_bridge.
  rewrite <- report_steps_bridge, <- model_data_bridge. split.
  - intros w Hw. exact (proj1 (last_state_reported_all_models k max_steps period w 0 0 Hw)).
  - pose proof (alignment_all_models k max_steps s) as [_ H]. cbv zeta in H.
    destruct (last_at s (b_trace (run_model k max_steps))); [exact (proj1 (proj2 (proj2 H)))|exact (proj1 (proj2 H))].
Qed.
Print Assumptions C13_rows_of_source.

(* batch_run's result handling TRANSLATED (serial loop; parallel branch: whatever order imap_unordered delivers the runs'
   results in - `order`, any permutation of the work list): with the translated RunId loop nest, for every design,
   iterations, max_steps, period, number_processes and completion order the rows are a permutation of the union over
   the runs of the rows of the model constructed with the run's kwargs and stepped by hand.  display_progress occurs only
   in the tqdm(...) header whose handle is used for .update() alone (checked by the translator), so it cannot matter. *)
Theorem C13_eq_by_hand_of_source : forall vals iterations max_steps period number_processes order,
  Permutation order (gen_runs_list iterations (product vals)) ->
  Permutation (gen_batch_results (run_rows max_steps period) number_processes (gen_runs_list iterations (product vals)) order)
              (flat_map (rows_by_hand max_steps period) (gen_runs_list iterations (product vals))) /\
  gen_batch_results (run_rows max_steps period) 1 (gen_runs_list iterations (product vals)) order
  = batch_rows max_steps period (runs_list iterations (product vals)).
Proof.
  intros vals iterations max_steps period n order Hp. split.
  - exact (results_eq_by_hand max_steps period n _ order Hp).
  - rewrite batch_results_bridge, <- runs_list_bridge. reflexivity.
Qed.
Print Assumptions C13_eq_by_hand_of_source.

(* non-vacuity: a 2 x 3 design with 2 iterations; a model that collects at construction and in step,
   stops at step 3, max_steps 5, period 2: rows for steps 0, 2 and the last collection 3 *)
Example C13_example :
  let ps := [(0, [1; 2]); (6, [0; 1; 7])] in
  length (product ps) = 6%nat /\ (forall p, In p ps -> NoDup (snd p)) /\
  length (runs_list 2 (product ps)) = 12%nat /\
  let k := [(0, 2); (1, 3); (2, 1)] in
  w_steps (b_w (run_model k 5)) = 3 /\ b_running (run_model k 5) = false /\
  w_steps (b_w (run_model [(0, 2)] 5)) = 5 /\
  report_steps 2 (b_d (run_model k 5)) = [0; 2; 3] /\
  length (run_rows 5 2 (0, 0, k)) = 6%nat /\
  last_opt (dedup_first Z.eqb (d_csteps (b_d (run_model k 5)))) = Some 3 /\
  (* two collects at construction and two inside every step, a model-level change between them:
     the row of a step carries the LAST collection made at that step *)
  let k2 := [(0, 1); (2, 2); (3, 2)] in
  d_csteps (b_d (run_model k2 1)) = [0; 0; 1; 1] /\
  aget 3 (d_mvars (b_d (run_model k2 1))) = Some [SInt 0; SInt 1; SInt 1; SInt 3] /\
  aget 3 (model_data (b_d (run_model k2 1)) 0) = Some (SInt 1) /\
  aget 3 (model_data (b_d (run_model k2 1)) 1) = Some (SInt 3) /\
  length (run_rows 1 1 (0, 0, k2)) = 2%nat /\
  length (b_trace (run_model k2 1)) = 4%nat /\
  map w_steps (b_trace (run_model k 5)) = [0; 1; 2; 3] /\
  steps_target (params_of k) 5 = 3 /\ steps_target (params_of [(0, 2)]) 5 = 5 /\
  all_values [(0, PMany [1; 2]); (6, PSingle 7)] = Some [(0, [1; 2]); (6, [7])] /\
  (* what the TRANSLATED per-parameter decision does with numpy arrays: a 0-d array is not a str, not a
     list|tuple|set and iterating it raises TypeError -> one value; a 1-d array -> its elements; an EMPTY 1-d
     array is not rejected (only empty list|tuple|set are) -> no values -> no runs; an empty list -> ValueError *)
  gen_param_values 0 false false false 0 2 [] = Some [(0, 2)] /\
  gen_param_values 0 false false true 2 99 [4; 5] = Some [(0, 4); (0, 5)] /\
  gen_param_values 0 false false true 0 99 [] = Some [] /\
  gen_param_values 0 false true true 0 99 [] = None /\
  consistent (PMany []) false false true 0 99 [] /\
  runs_list 3 (product [(0, []); (6, [1; 2])]) = [].
Proof.
  cbv zeta. split; [vm_compute; reflexivity|]. split.
  - intros p [H|[H|[]]]; subst; simpl; repeat constructor; simpl; intuition congruence.
  - repeat split; try (vm_compute; reflexivity).
    apply (CSeq [] 99 false). right. reflexivity.
Qed.
