(* C20 - visualization data shows each agent once, where it is, as portrayed; property layers in
   the grid's orientation; the model-parameter check accepts exactly the keyword-callable sets;
   parameters are split without loss.
   ONLY statements closed by `exact`, with Print Assumptions beneath each. *)
From Coq Require Import ZArith List Bool Permutation.
From Mesa Require Import Common.ListX Generated.Tables Model.Viz Proofs.VizProofs Proofs.VizBridge.
Import ListNotations.
Open Scope Z_scope.

(* For EVERY space (any family, any size), portrayal table and history of place / move / remove /
   change-kind / layer / drawing operations starting from the empty space: the agents in the space
   have distinct ids, draw_space succeeds, and the markers of all ax.scatter calls together are
   a permutation of ONE marker per agent in the space: at that agent's drawing location
   (draw_loc of its current pos / cell coordinate) with the size, colour, marker and z-order its
   portrayal returned, defaults otherwise (drawn_mark).  Nobody is lost, duplicated or given
   another agent's colour / size by the mask arithmetic of _scatter. *)
Theorem C20_one_marker_each : forall c ops,
  let sp := c_space c in let pt := c_portrayal c in
  let st := exec sp pt (init_state c) ops in
  NoDup (map a_id (st_agents st)) /\
  exists gs, draw_groups sp pt (st_agents st) = Some gs /\
             Permutation (drawn_marks gs) (map (drawn_mark sp pt) (st_agents st)).
Proof. exact one_marker_each. Qed.
Print Assumptions C20_one_marker_each.

(* the mask arithmetic on its own, for ANY columns (not only reachable ones) *)
Theorem C20_scatter_partition : forall ms, Permutation (drawn_marks (scatter (cols_of ms))) ms.
Proof. exact scatter_perm. Qed.
Print Assumptions C20_scatter_partition.

(* collect_agent_data after every history: it does not fail and its columns, read back row by
   row, are the agents' markers in space order *)
Theorem C20_collect_each : forall c ops,
  let sp := c_space c in let pt := c_portrayal c in
  let st := exec sp pt (init_state c) ops in
  exists cl, collect pt (dflt_size sp) (st_agents st) = Some cl /\
             cols_marks cl = map (the_mark pt (dflt_size sp)) (st_agents st).
Proof. exact collect_each. Qed.
Print Assumptions C20_collect_each.

(* Altair: for the supported space types the chart rows are a permutation of one row per agent,
   x, y = its location, the other fields exactly the portrayal's own keys *)
Theorem C20_altair_one_row_each : forall c ops,
  let sp := c_space c in let pt := c_portrayal c in
  let st := exec sp pt (init_state c) ops in
  ((sp_altair sp = 1 \/ sp_altair sp = 2) /\ grid_family sp) \/ (sp_altair sp = 3 /\ has_pos sp) ->
  exists rows, altair_data sp pt (st_agents st) = Some rows /\
               Permutation rows (map (arow_of pt) (st_agents st)).
Proof. exact altair_one_row_each. Qed.
Print Assumptions C20_altair_one_row_each.

(* "where it is": an accepted operation changes exactly the named agent's (kind, location) entry
   to exactly what was asked and nobody else's; a rejected one changes no agent at all.  Together
   with the theorems above: what is drawn is the CURRENT location and kind. *)
Theorem C20_where_it_is : forall sp pt st o id',
  accepted sp st o = true ->
  lookup id' (fst (step sp pt st o)) =
  match o with
  | Place id k x y => if id' =? id then Some (k, Some (addr_coord sp x y)) else lookup id' st
  | Move id x y => if id' =? id
                   then option_map (fun i => (fst i, Some (addr_coord sp x y))) (lookup id st)
                   else lookup id' st
  | Remove id => if id' =? id then None else lookup id' st
  | SetKind id k => if id' =? id then option_map (fun i => (k, snd i)) (lookup id st) else lookup id' st
  | _ => lookup id' st
  end.
Proof. exact step_lookup. Qed.
Print Assumptions C20_where_it_is.

Theorem C20_rejected_changes_nothing : forall sp pt st o,
  accepted sp st o = false -> st_agents (fst (step sp pt st o)) = st_agents st.
Proof. exact step_rejected. Qed.
Print Assumptions C20_rejected_changes_nothing.

(* the same for whole histories: the (kind, location) table after ops ++ [o] is the table after
   ops updated as o asks if o is accepted there, and unchanged otherwise *)
Theorem C20_history_lookup : forall c ops o id',
  let sp := c_space c in let pt := c_portrayal c in
  lookup id' (exec sp pt (init_state c) (ops ++ [o]))
  = lookup_after sp (exec sp pt (init_state c) ops) o id'.
Proof. exact history_lookup. Qed.
Print Assumptions C20_history_lookup.

(* the agent marker of hex cell (x, y) is centred on hexagon (col x, row y) of the drawn mesh:
   ((y - 1) mod 2) of draw_hex_grid and (row % 2 == 0) of _get_hexmesh are the same shift, for all
   integers (Python's floor modulo = Z.modulo) *)
Theorem C20_hex_center_is_mesh_center : forall x y, hex_center (x, y) = mesh_center x y.
Proof. exact hex_center_is_mesh_center. Qed.
Print Assumptions C20_hex_center_is_mesh_center.

(* imshow(data.T, origin="lower"): pixel (column x, row y) shows data[x][y] *)
Theorem C20_layer_orientation : forall w h d x y,
  0 <= x < w -> 0 <= y < h -> image_at (transpose w h d) x y = dget d x y.
Proof. exact layer_orientation. Qed.
Print Assumptions C20_layer_orientation.

(* hexagon layers: the hexagon centred where cell (x, y)'s agents are drawn gets data[x][y] *)
Theorem C20_hex_layer_orientation : forall w h d x y,
  0 <= x < w -> 0 <= y < h ->
  lookup_coord (hex_center (x, y)) (hex_layer_pairs w h d) = Some (dget d x y).
Proof. exact hex_layer_orientation. Qed.
Print Assumptions C20_hex_layer_orientation.

(* for every constructor signature (distinct names, first parameter "self") and every parameter
   set not naming "self": the check returns normally exactly when the signature has no *args
   (policy) and Python can bind the keyword call *)
Theorem C20_check_iff_bindable : forall s ps,
  wf_sig s -> ~ In SELF ps ->
  (check s ps = 0 <-> existsb (is_kind VarPos) s = false /\ bindable s ps = true).
Proof. exact check_iff_bindable. Qed.
Print Assumptions C20_check_iff_bindable.

(* the check of the unchanged tree (defect #27) violates both directions *)
Theorem C20_check_unrepaired_refuted :
  (exists s ps, wf_sig s /\ ~ In SELF ps /\ existsb (is_kind VarPos) s = false /\
                bindable s ps = true /\ check_unrepaired s ps <> 0) /\
  (exists s ps, wf_sig s /\ ~ In SELF ps /\ bindable s ps = false /\ check_unrepaired s ps = 0).
Proof. exact check_unrepaired_refuted. Qed.
Print Assumptions C20_check_unrepaired_refuted.

(* split_model_params: input and fixed together are a permutation of the given parameters (keys
   and values), every input is a Slider / dict with "type", no fixed one is *)
Theorem C20_split_lossless : forall ps,
  let r := split_model_params ps in
  Permutation (fst r ++ snd r) ps /\
  (forall kv, In kv (fst r) -> adjustable (snd kv)) /\
  (forall kv, In kv (snd r) -> ~ adjustable (snd kv)).
Proof. exact split_lossless. Qed.
Print Assumptions C20_split_lossless.

(* ModelCreator (as repaired) hands the check fixed AND user-adjustable parameters: its verdict is
   the verdict on all given names, hence (C20_check_iff_bindable) on keyword-callability with all of them *)
Theorem C20_creator_checks_every_parameter : forall s ps,
  let r := split_model_params ps in
  check s (map fst (snd r ++ fst r)) = check s (map fst ps).
Proof. exact creator_checks_all. Qed.
Print Assumptions C20_creator_checks_every_parameter.

(* The thing the correspondence runs: at a DrawMpl operation anywhere in ANY history, the
   observation produced by run_case is the canonical form (sorted rows) of exactly the required
   markers - so "model = implementation" on that operation is literally "implementation = statement". *)
Theorem C20_run_case_draw_is_statement : forall c pre post,
  c_ops c = pre ++ DrawMpl :: post ->
  let sp := c_space c in let pt := c_portrayal c in
  let st := exec sp pt (init_state c) pre in
  nth (length pre) (run_case c) [] = obs_rows (map mark_row (map (drawn_mark sp pt) (st_agents st))).
Proof. exact run_case_draw. Qed.
Print Assumptions C20_run_case_draw_is_statement.

Theorem C20_collect_observation_is_statement : forall c ops,
  let sp := c_space c in let pt := c_portrayal c in
  let st := exec sp pt (init_state c) ops in
  obs_collect sp pt (st_agents st) = obs_rows (map mark_row (map (the_mark pt (dflt_size sp)) (st_agents st))).
Proof. exact obs_collect_spec. Qed.
Print Assumptions C20_collect_observation_is_statement.

Theorem C20_altair_observation_is_statement : forall c ops,
  let sp := c_space c in let pt := c_portrayal c in
  let st := exec sp pt (init_state c) ops in
  ((sp_altair sp = 1 \/ sp_altair sp = 2) /\ grid_family sp) \/ (sp_altair sp = 3 /\ has_pos sp) ->
  obs_altair sp pt (st_agents st) = obs_rows (map arow_row (map (arow_of pt) (st_agents st))).
Proof. exact obs_altair_spec. Qed.
Print Assumptions C20_altair_observation_is_statement.

(* canonical observations: sorting forgets exactly the order *)
Theorem C20_observation_canonical : forall l l', Permutation l l' -> obs_rows l = obs_rows l'.
Proof. exact obs_rows_perm. Qed.
Print Assumptions C20_observation_canonical.

(* property layers are drawn from their CURRENT values: a write changes exactly one entry ... *)
Theorem C20_layer_write_is_current : forall w h d x y v x' y',
  layer_shape w h d -> 0 <= x < w -> 0 <= y < h -> 0 <= x' -> 0 <= y' ->
  dget (layer_set d x y v) x' y' = if (x' =? x) && (y' =? y) then v else dget d x' y'.
Proof. exact layer_set_get. Qed.
Print Assumptions C20_layer_write_is_current.

(* ... and, for every space with layers (imshow and hexagon mesh alike), what is shown at the
   drawing position of each cell, rows first, is the layer's entry for that cell *)
Theorem C20_layer_view_is_statement : forall sp d,
  layer_view sp d = map (fun c => Some (dget d (fst c) (snd c))) (mesh_cells (sp_w sp) (sp_h sp)).
Proof. exact layer_view_spec. Qed.
Print Assumptions C20_layer_view_is_statement.

(* ---- code-level tie (T1): the functions below are TRANSLATED from the working tree on every run
   (harness/tables/viz_code.py -> Generated.Tables gen_...); the model functions the theorems above talk about
   ARE the translated source code (Proofs/VizBridge.v), and the headline theorems hold of that code itself ---- *)
Theorem C20_source_check_is_model : forall s ps, check s ps = gen_check_model_params s ps.
Proof. exact check_bridge. Qed.
Print Assumptions C20_source_check_is_model.

Theorem C20_source_split_is_model :
  (forall v, check_param_is_fixed v = gen_check_param_is_fixed v) /\
  (forall ps, split_model_params ps = gen_split_model_params ps).
Proof. exact (conj fixed_bridge split_bridge). Qed.
Print Assumptions C20_source_split_is_model.

Theorem C20_source_scatter_is_model : forall c, scatter c = gen_scatter c.
Proof. exact scatter_bridge. Qed.
Print Assumptions C20_source_scatter_is_model.

Theorem C20_source_collect_is_model :
  (forall a, agent_loc a = gen_agent_loc a) /\
  (forall pt dflt a, the_mark pt dflt a =
     gen_collect_mark dflt DEF_COLOR DEF_MARKER DEF_ZORDER (portray pt (a_kind a)) (loc_of a)).
Proof. exact (conj agent_loc_bridge collect_mark_bridge). Qed.
Print Assumptions C20_source_collect_is_model.

Theorem C20_source_hex_is_model :
  (forall p, hex_center p = (gen_hex_center_x (fst p) (snd p), gen_hex_center_y (snd p))) /\
  (forall w h, mesh_centres w h = gen_mesh_centres w h).
Proof. exact (conj hex_center_bridge mesh_bridge). Qed.
Print Assumptions C20_source_hex_is_model.

Theorem C20_source_layers_are_model : forall w h d,
  transpose w h d = gen_layer_image_cmap w h d /\ transpose w h d = gen_layer_image_color w h d /\
  hex_layer_pairs w h d = combine (gen_mesh_centres w h) (gen_hex_layer_colors w h d).
Proof. intros w h d. exact (conj (layer_cmap_bridge w h d) (conj (layer_color_bridge w h d) (hex_layer_bridge w h d))). Qed.
Print Assumptions C20_source_layers_are_model.

Theorem C20_source_altair_xy : forall p,
  gen_altair_xy_old p = p /\ gen_altair_xy_new p = p /\ gen_altair_xy_cont p = p.
Proof. exact altair_xy_bridge. Qed.
Print Assumptions C20_source_altair_xy.

(* the headline theorems, about the translated source code *)
Theorem C20_check_iff_bindable_of_source : forall s ps,
  wf_sig s -> ~ In SELF ps ->
  (gen_check_model_params s ps = 0 <-> existsb (is_kind VarPos) s = false /\ bindable s ps = true).
Proof. exact check_iff_bindable_of_source. Qed.
Print Assumptions C20_check_iff_bindable_of_source.

Theorem C20_scatter_partition_of_source : forall ms, Permutation (drawn_marks (gen_scatter (cols_of ms))) ms.
Proof. exact scatter_partition_of_source. Qed.
Print Assumptions C20_scatter_partition_of_source.

Theorem C20_split_lossless_of_source : forall ps,
  let r := gen_split_model_params ps in
  Permutation (fst r ++ snd r) ps /\
  (forall kv, In kv (fst r) -> adjustable (snd kv)) /\
  (forall kv, In kv (snd r) -> ~ adjustable (snd kv)).
Proof. exact split_lossless_of_source. Qed.
Print Assumptions C20_split_lossless_of_source.

Theorem C20_hex_layer_orientation_of_source : forall w h d x y,
  0 <= x < w -> 0 <= y < h ->
  lookup_coord (gen_hex_center_x x y, gen_hex_center_y y)
               (combine (gen_mesh_centres w h) (gen_hex_layer_colors w h d)) = Some (dget d x y).
Proof. exact hex_layer_orientation_of_source. Qed.
Print Assumptions C20_hex_layer_orientation_of_source.

Theorem C20_layer_orientation_of_source : forall w h d x y,
  0 <= x < w -> 0 <= y < h ->
  image_at (gen_layer_image_cmap w h d) x y = dget d x y /\
  image_at (gen_layer_image_color w h d) x y = dget d x y.
Proof. exact layer_orientation_of_source. Qed.
Print Assumptions C20_layer_orientation_of_source.

Theorem C20_drawn_mark_of_source : forall sp pt a,
  drawn_mark sp pt a =
  let m := gen_collect_mark (dflt_size sp) DEF_COLOR DEF_MARKER DEF_ZORDER (portray pt (a_kind a))
                            (get (gen_agent_loc a) (0, 0)) in
  {| m_loc := draw_loc sp (m_loc m); m_s := m_s m; m_c := m_c m; m_m := m_m m; m_z := m_z m |}.
Proof. exact drawn_mark_of_source. Qed.
Print Assumptions C20_drawn_mark_of_source.

(* ---- round 3: wrappers, encodings, colour scales, constructor kwargs ---- *)
(* make_space_component(backend=...)(model) hands Solara exactly the data of draw_space / _draw_grid ... *)
Theorem C20_component_same_data : forall sp pt st,
  step sp pt st (DrawMplC false) = step sp pt st DrawMpl /\
  step sp pt st (DrawAltairC false) = step sp pt st DrawAltair.
Proof. exact component_same_data. Qed.
Print Assumptions C20_component_same_data.

(* ... and without an agent_portrayal, after any history, one default marker per agent *)
Theorem C20_component_default_portrayal : forall c ops,
  let sp := c_space c in let pt := c_portrayal c in
  let st := exec sp pt (init_state c) ops in
  snd (step sp pt st (DrawMplC true)) = obs_rows (map mark_row (map (drawn_mark sp []) (st_agents st))).
Proof. exact component_default_portrayal. Qed.
Print Assumptions C20_component_default_portrayal.

(* Altair encodings (colour / size legends and scales), code as repaired (fixes/C20-10): after any history on an
   Altair-supported space the chart encodes colour (size) exactly when some agent in the space has one in its portrayal *)
Theorem C20_altair_encoding : forall c ops,
  let sp := c_space c in let pt := c_portrayal c in
  let st := exec sp pt (init_state c) ops in
  altair_supported sp ->
  (enc_color sp pt (st_agents st) = 1 <-> exists a, In a (st_agents st) /\ oflag (pd_color (portray pt (a_kind a))) = 1) /\
  (enc_size sp pt (st_agents st) = 1 <-> exists a, In a (st_agents st) /\ oflag (pd_size (portray pt (a_kind a))) = 1).
Proof. exact altair_encoding_all_rows. Qed.
Print Assumptions C20_altair_encoding.

(* the encodings are computed by the TRANSLATED source expression (harness/tables/viz_code.py: which dict the
   tooltip / color / size tests read, and how it is built) *)
Theorem C20_source_altair_encodings : forall rows,
  gen_altair_enc_dict rows = rows_union rows /\
  gen_altair_enc_flags (rows_union rows) =
    [oflag (pd_color (rows_union rows)); oflag (pd_size (rows_union rows));
     oflag (pd_marker (rows_union rows)); oflag (pd_zorder (rows_union rows))].
Proof. intros rows. split; reflexivity. Qed.
Print Assumptions C20_source_altair_encodings.

Definition enc_case : case :=
  {| c_space := {| sp_family := Orth; sp_w := 2; sp_h := 1; sp_x0 := 0; sp_y0 := 0; sp_single := false;
                   sp_legacy := true; sp_altair := 2; sp_points := [] |};
     c_portrayal := [(0, pd_empty); (1, {| pd_size := Some 40; pd_color := Some 3; pd_marker := None; pd_zorder := None |})];
     c_layer := None; c_ops := [Place 1 0 0 0; Place 2 1 1 0] |}.

(* the shape of the unrepaired code (encodings from the first row only) violates the statement *)
Theorem C20_altair_encoding_first_row_only_refuted :
  exists rows : list arow,
    (exists r, In r rows /\ pd_color (ar_d r) = Some 3 /\ pd_size (ar_d r) = Some 40) /\
    oflag (pd_color (rows_first rows)) = 0 /\ oflag (pd_size (rows_first rows)) = 0 /\
    oflag (pd_color (rows_union rows)) = 1 /\ oflag (pd_size (rows_union rows)) = 1.
Proof.
  exists [ {| ar_loc := (0, 0); ar_d := pd_empty |};
           {| ar_loc := (1, 0); ar_d := {| pd_size := Some 40; pd_color := Some 3; pd_marker := None; pd_zorder := None |} |} ].
  split; [eexists; split; [right; left; reflexivity|split; reflexivity]|]. vm_compute. repeat split; reflexivity.
Qed.
Print Assumptions C20_altair_encoding_first_row_only_refuted.

(* colour scales: inside [vmin, vmax] different layer values are always shown differently (every mode, alpha 1/4..1) *)
Theorem C20_layer_values_distinguished : forall fam cm lo hi a4 v v',
  lo < hi -> lo <= v <= hi -> lo <= v' <= hi -> 0 < a4 <= 4 ->
  shown fam cm lo hi a4 v = shown fam cm lo hi a4 v' -> v = v'.
Proof. exact shown_injective. Qed.
Print Assumptions C20_layer_values_distinguished.

(* observations about the normalisation expressions (what reaches Matplotlib):
   - imshow colour mode does not saturate at vmax when alpha < 1 (clip(normalized * alpha)), hexagons do (clip(normalized) * alpha)
   - with vmin = vmax (a constant layer under the default scale) colour mode gives alpha 0 everywhere (as repaired by
     fixes/C20-11; the unrepaired imshow branch divided by zero: NaN alpha), colormap mode shows the entries *)
Theorem C20_layer_scale_observations :
  (shown Orth true 0 4 2 8 <> shown Orth true 0 4 2 4 /\ shown Hex true 0 4 2 8 = shown Hex true 0 4 2 4) /\
  (forall lo v, shown_degenerate Orth true lo v = 0 /\ shown_degenerate Hex true lo v = 0) /\
  (forall lo v, shown_degenerate Orth false lo v = v).
Proof.
  split; [split; [vm_compute; discriminate|vm_compute; reflexivity]|].
  split; [intros lo v; split; reflexivity|reflexivity].
Qed.
Print Assumptions C20_layer_scale_observations.

(* "property layers are drawn from their current values": NO value is ever shown wrongly - for every scale
   vmin <= vmax (degenerate or not), family, mode and alpha the displayed intensity is monotone in the layer value
   (a larger value is never shown weaker; strictly increasing inside a proper scale: C20_layer_values_distinguished)
   and in colour mode it is always a proper alpha in [0, 1] (units: 4 (vmax - vmin)), never NaN or infinite *)
Theorem C20_layer_value_monotone : forall fam cm lo hi a4 v v',
  lo <= hi -> 0 < a4 <= 4 -> v <= v' -> value_shown fam cm lo hi a4 v <= value_shown fam cm lo hi a4 v'.
Proof. exact value_shown_monotone. Qed.
Print Assumptions C20_layer_value_monotone.

(* every constant layer, the infinities included, gets alpha 0 in colour mode (what DrawInfLayer observes) ... *)
Theorem C20_constant_layer_alpha_zero : forall c, c <> XNaN -> alpha_color_mode c c c = AZero.
Proof. exact constant_layer_alpha_zero. Qed.
Print Assumptions C20_constant_layer_alpha_zero.

(* ... whereas guarding the division by  span = vmax - vmin; span != 0  hands Matplotlib NaN for a layer of +-inf *)
Theorem C20_span_guard_refuted :
  alpha_color_mode_span PInf PInf PInf = ANaN /\ alpha_color_mode_span NInf NInf NInf = ANaN /\
  (forall z, alpha_color_mode_span (Fin z) (Fin z) (Fin z) = AZero).
Proof. exact span_guard_refuted. Qed.
Print Assumptions C20_span_guard_refuted.

Theorem C20_layer_alpha_proper : forall fam lo hi a4 v,
  lo <= hi -> 0 < a4 <= 4 -> 0 <= value_shown fam true lo hi a4 v <= 4 * (hi - lo).
Proof. exact value_shown_alpha. Qed.
Print Assumptions C20_layer_alpha_proper.

(* ModelCreator: the keyword arguments the model is (re)created with are exactly one (name, value) per given
   parameter - the fixed value itself, or the initial value of the Slider / option dict - nothing lost or invented *)
Theorem C20_creator_kwargs_lossless : forall ps,
  Permutation (creator_kwargs ps) (map (fun kv => (fst kv, pv_value (snd kv))) ps).
Proof. exact creator_kwargs_lossless. Qed.
Print Assumptions C20_creator_kwargs_lossless.

(* ------------------------------------------------------------------ non-vacuity *)
Definition ex_space : space :=
  {| sp_family := Hex; sp_w := 3; sp_h := 2; sp_x0 := 0; sp_y0 := 0; sp_single := false;
     sp_legacy := false; sp_altair := 1; sp_points := [] |}.
Definition ex_case : case :=
  {| c_space := ex_space;
     c_portrayal := [(0, {| pd_size := Some 7; pd_color := Some 3; pd_marker := None; pd_zorder := Some 6 |});
                     (1, {| pd_size := None; pd_color := None; pd_marker := Some 1; pd_zorder := None |})];
     c_layer := Some [[1; 2]; [3; 4]; [5; 6]];
     c_ops := [Place 1 0 2 1; Place 2 1 2 1; Place 3 5 0 0; Move 1 1 0; SetKind 3 1; Remove 2; Place 9 0 7 7] |}.

(* three agents, two in one cell, one moved, one removed, one rejected placement: two agents
   remain, drawn in two scatter groups at hexagon centres (3,0) and (1,0); agent 1 has size 7/4 and
   z-order 6/4 = 1.5 from its portrayal, agent 3 the default size 180^2/3^2 and z-order 1 *)
Example C20_example_one_marker_each :
  let st := exec ex_space (c_portrayal ex_case) (init_state ex_case) (c_ops ex_case) in
  map a_id (st_agents st) = [3; 1] /\
  option_map (fun gs => map mark_row (drawn_marks gs))
             (draw_groups ex_space (c_portrayal ex_case) (st_agents st))
  = Some [[1; 0; 3600; 1; 0; 1; 4]; [3; 0; 7; 4; 3; 0; 6]].
Proof. vm_compute. split; reflexivity. Qed.

Example C20_example_scatter_partition :
  length (scatter (cols_of [ {| m_loc := (0, 0); m_s := (1, 1); m_c := 0; m_m := 0; m_z := 1 |};
                             {| m_loc := (1, 0); m_s := (2, 1); m_c := 1; m_m := 1; m_z := 1 |};
                             {| m_loc := (1, 0); m_s := (3, 1); m_c := 2; m_m := 0; m_z := 2 |} ])) = 4%nat.
Proof. vm_compute. reflexivity. Qed.

Example C20_example_altair :
  let st := exec ex_space (c_portrayal ex_case) (init_state ex_case) (c_ops ex_case) in
  (sp_altair ex_space = 1 /\ grid_family ex_space) /\
  option_map (map arow_row) (altair_data ex_space (c_portrayal ex_case) (st_agents st))
  = Some [[0; 0; 0; 0; 0; 0; 1; 1; 0; 0]; [1; 0; 1; 7; 1; 3; 0; 0; 1; 6]].
Proof. split; [split; [reflexivity|right; reflexivity]|vm_compute; reflexivity]. Qed.

Example C20_example_where_it_is :
  let st := exec ex_space (c_portrayal ex_case) (init_state ex_case) [Place 1 0 2 1; Place 2 1 2 1] in
  accepted ex_space st (Move 1 1 0) = true /\ accepted ex_space st (Place 1 0 0 0) = false /\
  accepted ex_space st (Move 2 3 0) = false /\
  lookup 1 (fst (step ex_space [] st (Move 1 1 0))) = Some (0, Some (1, 0)).
Proof. vm_compute. repeat split; reflexivity. Qed.

Example C20_example_hex_center :
  hex_center (2, 3) = (4, 9) /\ hex_center (2, 4) = (5, 12) /\ hex_center (0, -1) = (0, -3).
Proof. vm_compute. repeat split; reflexivity. Qed.

Example C20_example_layer :
  transpose 3 2 [[1; 2]; [3; 4]; [5; 6]] = [[1; 3; 5]; [2; 4; 6]] /\
  image_at (transpose 3 2 [[1; 2]; [3; 4]; [5; 6]]) 2 1 = 6 /\
  lookup_coord (hex_center (2, 1)) (hex_layer_pairs 3 2 [[1; 2]; [3; 4]; [5; 6]]) = Some 6.
Proof. vm_compute. repeat split; reflexivity. Qed.

(* def __init__(self, a, b=1, /, c, *, d, **options) *)
Definition ex_sig : list param :=
  [ {| pn := SELF; pk := PosOrKw; pdef := false |}; {| pn := 1; pk := PosOnly; pdef := true |};
    {| pn := 3; pk := PosOrKw; pdef := false |}; {| pn := 4; pk := KwOnly; pdef := false |};
    {| pn := 6; pk := VarKw; pdef := false |} ].
Example C20_example_check :
  NoDup (map pn ex_sig) /\ ~ In SELF [3; 4; 1; 9] /\
  check ex_sig [3; 4; 1; 9] = 0 /\ bindable ex_sig [3; 4; 1; 9] = true /\
  check ex_sig [4] = E_MISSING /\ bindable ex_sig [4] = false.
Proof.
  split; [repeat constructor; simpl; intuition discriminate|].
  split; [simpl; intuition discriminate|]. vm_compute. repeat split; reflexivity.
Qed.

Example C20_example_split :
  split_model_params [(1, VFixed 5); (2, VSlider 6); (3, VDictType 7); (4, VDictNoType 8)]
  = ([(2, VSlider 6); (3, VDictType 7)], [(1, VFixed 5); (4, VDictNoType 8)]).
Proof. vm_compute. reflexivity. Qed.

(* def __init__(self, a, b=1, /, c, *, d, **options) needs c and d: a Slider for c counts *)
Example C20_example_creator :
  step ex_space [] (init_state ex_case) (Creator ex_sig [(3, VSlider 5); (4, VFixed 1)]) = (init_state ex_case, [0; 2; 3; 5; 4; 1]) /\
  step ex_space [] (init_state ex_case) (Creator ex_sig [(3, VSlider 5)]) = (init_state ex_case, [-1; 2]).
Proof. vm_compute. split; reflexivity. Qed.

Example C20_example_run_case :
  run_case {| c_space := ex_space; c_portrayal := c_portrayal ex_case; c_layer := None;
              c_ops := [Place 1 0 2 1; Place 2 1 2 1; DrawMpl; DrawAltair] |}
  = [[0; 1; 2; 1; 7; 4; 3; 0; 6];
     [0; 2; 2; 1; 7; 4; 3; 0; 6; 2; 1; 3600; 1; 0; 1; 4];
     [0; 2; 4; 3; 7; 4; 3; 0; 6; 4; 3; 3600; 1; 0; 1; 4];
     [0; 2; 2; 1; 0; 0; 0; 0; 1; 1; 0; 0; 2; 1; 1; 7; 1; 3; 0; 0; 1; 6]].
Proof. vm_compute. reflexivity. Qed.

Example C20_example_layer_write :
  layer_shape 3 2 [[1; 2]; [3; 4]; [5; 6]] /\
  layer_view ex_space (layer_set [[1; 2]; [3; 4]; [5; 6]] 2 0 9) = [Some 1; Some 3; Some 9; Some 2; Some 4; Some 6].
Proof. split; [split; [reflexivity|repeat constructor]|vm_compute; reflexivity]. Qed.

Example C20_example_source :
  gen_check_model_params ex_sig [3; 4; 1; 9] = 0 /\ gen_check_model_params ex_sig [4] = 2 /\
  length (gen_scatter (cols_of [ {| m_loc := (0, 0); m_s := (1, 1); m_c := 0; m_m := 0; m_z := 4 |};
                                 {| m_loc := (1, 0); m_s := (2, 1); m_c := 1; m_m := 1; m_z := 6 |} ])) = 4%nat /\
  gen_mesh_centres 2 2 = [(1, 0); (3, 0); (0, 3); (2, 3)] /\
  (gen_hex_center_x 1 1, gen_hex_center_y 1) = (2, 3) /\
  gen_hex_layer_colors 3 2 [[1; 2]; [3; 4]; [5; 6]] = [1; 3; 5; 2; 4; 6] /\
  gen_split_model_params [(1, VFixed 5); (2, VSlider 6)] = ([(2, VSlider 6)], [(1, VFixed 5)]).
Proof. vm_compute. repeat split; reflexivity. Qed.

Example C20_example_round3 :
  let st := exec (c_space enc_case) (c_portrayal enc_case) (init_state enc_case) (c_ops enc_case) in
  obs_altair_enc (c_space enc_case) (c_portrayal enc_case) (st_agents st) = [0; 1; 1; 0; 0; 0; 1] /\
  obs_altair_enc (c_space enc_case) (c_portrayal enc_case) (st_agents (exec (c_space enc_case) (c_portrayal enc_case) st [Move 1 1 0; Move 1 0 0; Remove 1]))
    = [0; 1; 1; 0; 0; 0; 1] /\
  creator_kwargs [(1, VFixed 5); (2, VSlider 6); (3, VDictType 7); (4, VDictNoType 8)] = [(1, 5); (4, 8); (2, 6); (3, 7)] /\
  obs_layer ex_space [[3; 3]; [3; 3]; [3; 3]] true None None 4 true = [0; 2; 3; 0; 0; 0; 0; 0; 0; 1] /\
  obs_layer (c_space enc_case) [[3]; [5]] true (Some 3) (Some 3) 4 false = [0; 1; 2; 0; 0; 0] /\
  value_shown Orth true 0 8 2 5 = 10 /\ value_shown Hex true 0 8 2 5 = 10 /\ value_shown Orth true 0 8 2 20 = 32.
Proof. vm_compute. repeat split; reflexivity. Qed.

Example C20_example_inf_layer :
  snd (step ex_space [] (init_state ex_case) (DrawInfLayer true false)) = [0; 2; 3; 0; 0; 0; 0; 0; 0] /\
  snd (step (c_space enc_case) [] {| st_agents := []; st_layer := Some [[1]; [2]] |} (DrawInfLayer false true))
    = [0; 1; 2; -1000000007; -1000000007] /\
  snd (step (c_space enc_case) [] (init_state enc_case) (DrawInfLayer true true)) = [-2].
Proof. vm_compute. repeat split; reflexivity. Qed.
