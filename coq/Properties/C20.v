From Coq Require Import ZArith List Bool.
From Mesa Require Import Common.ListX Model.Viz Proofs.VizProofs.
Import ListNotations.
Open Scope Z_scope.
