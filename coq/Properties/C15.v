(* C15 - ABMSimulator steps once per tick; chunking a run never changes it.
   Model: Model/Devs.v (the code after fixes C14-1, C14-2, C15-1); vocabulary: Model/DevsSpec.v.
   ONLY statements closed by `exact`, with Print Assumptions beneath each, and an Example per theorem. *)
From Coq Require Import ZArith List Bool Sorted.
From Mesa Require Import Generated.Tables Model.Devs Model.DevsSpec
  Proofs.DevsProofs Proofs.DevsChunkProofs Proofs.DevsStepProofs Proofs.DevsTopProofs Proofs.DevsVizProofs Proofs.DevsVizTopProofs Proofs.DevsOrderProofs Proofs.DevsBridge
  Model.DevsLife Proofs.DevsOnceProofs Proofs.DevsTop14Proofs Proofs.DevsLifeProofs Proofs.DevsBoundaryProofs.
Import ListNotations.
Open Scope Z_scope.

(* T1: what the source says about priorities: HIGH < DEFAULT < LOW as numbers (a smaller number runs first),
   and every site of ABMSimulator that schedules model.step uses HIGH. *)
Theorem C15_source_priorities :
  gen_prio_value PHigh < gen_prio_value PDefault /\ gen_prio_value PDefault < gen_prio_value PLow.
Proof. exact prio_values_ordered. Qed.
Print Assumptions C15_source_priorities.

Theorem C15_source_step_priority : gen_step_prio = PHigh.
Proof. exact step_prio_high. Qed.
Print Assumptions C15_source_step_priority.

(* ---------------------------------------------------------------- chunking *)
(* run_until t1 followed by run_until t2 (t1 <= t2) is run_until t2: same final state (clock, event list,
   steps, dead callables, id counter), and the log is the concatenation.  For EVERY state satisfying the
   event-list invariant, both simulator classes, any user code. *)
Theorem C15_chunking_two : forall cfg fuel st t1 t2 st1 l1 st2 l2, inv st -> t1 <= t2 ->
  run_loop cfg fuel t1 st = (st1, l1, true) -> run_loop cfg fuel t2 st1 = (st2, l2, true) ->
  exists n, run_loop cfg n t2 st = (st2, l1 ++ l2, true).
Proof. exact chunking_two. Qed.
Print Assumptions C15_chunking_two.

(* run_next_event (when the user callable does not raise) is one iteration of the same loop *)
Theorem C15_run_next_is_one_iteration : forall cfg st st1 l1 n2 t2 st2 l2, inv st ->
  run_next cfg st = (st1, l1) -> has_raise l1 = false ->
  (forall e rest, pop_event (s_events st) = Some (e, rest) -> e_time e <= t2) ->
  run_loop cfg n2 t2 st1 = (st2, l2, true) ->
  run_loop cfg (S n2) t2 st = (st2, l1 ++ l2, true).
Proof. exact run_next_chunk. Qed.
Print Assumptions C15_run_next_is_one_iteration.

(* The partition theorem.  After setup and ANY history `ops`, advance the simulation by ANY list of pieces
   run_until / run_for / run_next_event that do not go beyond T (`within`), then run_until T: the final state
   and the concatenated event trace are those of run_until T in one piece.  (true = no piece ran out of fuel.) *)
Theorem C15_chunking : forall cfg fuel ops ps T st1 l1 st2 l2,
  within cfg fuel (final cfg fuel (init cfg) ops) T ps ->
  run_pieces cfg fuel (final cfg fuel (init cfg) ops) ps = (st1, l1, true) ->
  run_loop cfg fuel T st1 = (st2, l2, true) ->
  exists n, run_loop cfg n T (final cfg fuel (init cfg) ops) = (st2, l1 ++ l2, true).
Proof. exact chunking_final. Qed.
Print Assumptions C15_chunking.

(* the visualisation's loop `for _ in range(n): simulator.run_for(d)` (solara_viz.py: do_step, d = 1) is one
   run_until(now + n*d) *)
Theorem C15_run_for_pieces : forall cfg fuel n d st st1 l1, inv st -> 0 <= d -> (0 < n)%nat ->
  run_pieces cfg fuel st (repeat (PFor d) n) = (st1, l1, true) ->
  exists m, run_loop cfg m (s_time st + Z.of_nat n * d) st = (st1, l1, true).
Proof. exact run_for_pieces. Qed.
Print Assumptions C15_run_for_pieces.

(* SimulatorController.do_step advances the simulator by run_for(gen_viz_run_for) per frame (literal read from
   solara_viz.py by T1): n frames are one run_until(now + n*delta), and under ABMSimulator started at an integer
   tick the model has then stepped exactly up to the new clock *)
Theorem C15_viz_do_step : forall cfg fuel n st st1 l1, inv st -> (0 < n)%nat ->
  run_pieces cfg fuel st (repeat (PFor (gen_viz_run_for * SCALE)) n) = (st1, l1, true) ->
  exists m, run_loop cfg m (s_time st + Z.of_nat n * (gen_viz_run_for * SCALE)) st = (st1, l1, true).
Proof. exact viz_do_step. Qed.
Print Assumptions C15_viz_do_step.

Theorem C15_viz_steps : forall cfg fuel n st st1 l1, c_abm cfg = true -> inv st -> step_inv st -> (0 < n)%nat ->
  s_time st mod SCALE = 0 ->
  run_pieces cfg fuel st (repeat (PFor (gen_viz_run_for * SCALE)) n) = (st1, l1, true) ->
  s_steps st1 * SCALE = s_time st + Z.of_nat n * (gen_viz_run_for * SCALE) /\
  s_time st1 = s_time st + Z.of_nat n * (gen_viz_run_for * SCALE).
Proof. exact viz_steps. Qed.
Print Assumptions C15_viz_steps.

(* run_until at any horizons below T, then run_until T *)
Theorem C15_run_until_pieces : forall cfg fuel ts st T st1 l1 st2 l2, inv st -> Forall (fun t => t <= T) ts ->
  run_pieces cfg fuel st (map PUntil ts) = (st1, l1, true) -> run_loop cfg fuel T st1 = (st2, l2, true) ->
  exists m, run_loop cfg m T st = (st2, l1 ++ l2, true).
Proof. exact run_until_pieces. Qed.
Print Assumptions C15_run_until_pieces.

(* the one-piece result is unique: fuel only decides whether the run completes *)
Theorem C15_one_piece_unique : forall cfg n m t st a b,
  run_loop cfg n t st = (fst a, snd a, true) -> run_loop cfg m t st = (fst b, snd b, true) -> a = b.
Proof. exact run_loop_deterministic. Qed.
Print Assumptions C15_one_piece_unique.

(* ---------------------------------------------------------------- one step per tick *)
(* After setup of an ABMSimulator and any history whose run horizons are not before the clock: exactly one
   model.step event is pending, it is live, scheduled for tick steps+1 at the source's step priority, and the
   clock lies in [steps, steps+1] ticks. *)
Theorem C15_step_invariant : forall cfg fuel ops, c_abm cfg = true -> ops_ok cfg fuel (init cfg) ops ->
  step_inv (final cfg fuel (init cfg) ops).
Proof. exact step_inv_final. Qed.
Print Assumptions C15_step_invariant.

(* model.steps equals the clock after every run_until / run_for to an integer horizon t >= now *)
Theorem C15_steps_eq_clock : forall cfg fuel ops t st' l, c_abm cfg = true -> ops_ok cfg fuel (init cfg) ops ->
  s_time (final cfg fuel (init cfg) ops) <= t -> t mod SCALE = 0 ->
  run_loop cfg fuel t (final cfg fuel (init cfg) ops) = (st', l, true) ->
  s_steps st' * SCALE = t /\ s_time st' = t.
Proof. exact steps_eq_clock_final. Qed.
Print Assumptions C15_steps_eq_clock.

(* C15 in one statement: such a run ends with steps = clock = t and stepped exactly once at every tick in between *)
Theorem C15_step_every_tick : forall cfg fuel ops t st' l, c_abm cfg = true -> ops_ok cfg fuel (init cfg) ops ->
  s_time (final cfg fuel (init cfg) ops) <= t -> t mod SCALE = 0 ->
  run_loop cfg fuel t (final cfg fuel (init cfg) ops) = (st', l, true) ->
  s_steps st' * SCALE = t /\ s_time st' = t /\
  steps_of l = tick_list (s_steps (final cfg fuel (init cfg) ops))
                         (Z.to_nat (s_steps st' - s_steps (final cfg fuel (init cfg) ops))).
Proof. exact step_every_tick_final. Qed.
Print Assumptions C15_step_every_tick.

(* after run_next_event (which may stop inside a tick): clock - 1 <= steps <= clock *)
Theorem C15_steps_near_clock : forall cfg fuel ops st' l, c_abm cfg = true -> ops_ok cfg fuel (init cfg) ops ->
  run_next cfg (final cfg fuel (init cfg) ops) = (st', l) ->
  s_time st' - SCALE <= s_steps st' * SCALE <= s_time st'.
Proof. exact steps_near_clock_final. Qed.
Print Assumptions C15_steps_near_clock.

(* exactly once per tick: the model.step calls logged by a run are the consecutive ticks steps+1 .. steps',
   each at its own time k*SCALE *)
Theorem C15_step_once_per_tick : forall cfg fuel endt st st' l ok, c_abm cfg = true -> inv st -> step_inv st ->
  s_time st <= endt -> run_loop cfg fuel endt st = (st', l, ok) ->
  steps_of l = tick_list (s_steps st) (Z.to_nat (s_steps st' - s_steps st)) /\ s_steps st <= s_steps st'.
Proof. exact steps_once_per_tick. Qed.
Print Assumptions C15_step_once_per_tick.

(* ahead of same-tick events of lower priority: an event that is popped at the tick of the pending step, before
   it, has a priority number <= the step's, and the step's is the least there is *)
Theorem C15_step_before_lower_priority : forall st e rest, inv st -> step_inv st ->
  pop_event (s_events st) = Some (e, rest) ->
  e_step e = false -> e_time e = (s_steps st + 1) * SCALE -> e_prio e <= gen_prio_value gen_step_prio.
Proof. exact step_before_lower_priority. Qed.
Print Assumptions C15_step_before_lower_priority.

Theorem C15_step_priority_is_highest : forall p, gen_prio_value gen_step_prio <= gen_prio_value p.
Proof. exact step_prio_is_highest. Qed.
Print Assumptions C15_step_priority_is_highest.

(* ---------------------------------------------------------------- code-level tie (T1) *)
(* _execute_event of both classes, the run_until loops and run_for, with their conditions TRANSLATED from the working
   tree (harness/tables/devs_code.py), are the functions of the model (Proofs/DevsBridge.v) *)
Theorem C15_source_skeleton : gen_devs_skeleton_ok = true.
Proof. vm_compute. reflexivity. Qed.
Print Assumptions C15_source_skeleton.

Theorem C15_source_execute_event_is_model : forall cfg st e, exec_event cfg st e = src_exec_event cfg st e.
Proof. exact exec_event_of_source. Qed.
Print Assumptions C15_source_execute_event_is_model.

Theorem C15_source_run_for_is_model : forall cfg fuel d st,
  run_loop cfg fuel (s_time st + d) st = src_run_for cfg fuel d st.
Proof. exact run_for_of_source. Qed.
Print Assumptions C15_source_run_for_is_model.

(* under ABMSimulator the generated _execute_event re-schedules model.step exactly when it executes it *)
Theorem C15_step_resched_of_source : forall cfg st e, c_abm cfg = true ->
  src_exec_event cfg st e =
  execute cfg (if e_step e then fst (schedule_relative cfg (set_time st (e_time e)) SCALE gen_step_prio (-1) (-1) true [])
               else set_time st (e_time e)) e.
Proof. exact step_resched_of_source. Qed.
Print Assumptions C15_step_resched_of_source.

(* chunking, stated about the generated loop *)
Theorem C15_chunking_of_source : forall cfg fuel st t1 t2 st1 l1 st2 l2, inv st -> t1 <= t2 ->
  src_run_loop cfg fuel t1 st = (st1, l1, true) -> src_run_loop cfg fuel t2 st1 = (st2, l2, true) ->
  exists n, src_run_loop cfg n t2 st = (st2, l1 ++ l2, true).
Proof. exact chunking_of_source. Qed.
Print Assumptions C15_chunking_of_source.

(* ---------------------------------------------------------------- the life cycle: reset() and setup(<a new model>) *)
(* while a model is attached the step invariant holds, over every life cycle whose run horizons are not before the clock
   (the step counter is the attached model's: it restarts at 0 with the new model of a setup) ... *)
Theorem C15_lifecycle_step_invariant : forall cfg fuel ops m, c_abm cfg = true -> inv (m_st m) -> xstep_inv m ->
  xops_ok cfg fuel m ops -> xstep_inv (xfinal cfg fuel m ops) /\ inv (m_st (xfinal cfg fuel m ops)).
Proof. exact xstep_inv_history. Qed.
Print Assumptions C15_lifecycle_step_invariant.

(* ... so model.steps = clock after every run_until / run_for to an integer horizon, also after reset() + setup() *)
Theorem C15_lifecycle_steps_eq_clock : forall cfg fuel ops b t st' l, c_abm cfg = true -> xops_ok cfg fuel (xinit cfg b) ops ->
  m_setup (xfinal cfg fuel (xinit cfg b) ops) = true ->
  s_time (m_st (xfinal cfg fuel (xinit cfg b) ops)) <= t -> t mod SCALE = 0 ->
  run_loop cfg fuel t (m_st (xfinal cfg fuel (xinit cfg b) ops)) = (st', l, true) ->
  s_steps st' * SCALE = t /\ s_time st' = t.
Proof. exact xsteps_eq_clock. Qed.
Print Assumptions C15_lifecycle_steps_eq_clock.

(* the boundary of the quantifier: an ABMSimulator run to a NON-integer horizon completes with a clock that is not a tick,
   steps <> clock, and schedule_event_next_tick is then refused as a unit mismatch - which is why horizons are integers *)
Theorem C15_boundary_non_integer_horizon : forall cfg fuel t st st' l, c_abm cfg = true -> inv st -> step_inv st ->
  s_time st <= t -> t mod SCALE <> 0 -> run_loop cfg fuel t st = (st', l, true) ->
  s_time st' = t /\ s_steps st' * SCALE <> s_time st' /\ s_steps st' * SCALE < t < (s_steps st' + 1) * SCALE /\
  forall p tag h body, memz h (s_dead st') = false -> snd (do_sched cfg st' KTick 0 p tag h body) = R_UNIT.
Proof. exact abm_non_integer_horizon. Qed.
Print Assumptions C15_boundary_non_integer_horizon.

(* an interrupted run (user exception) keeps the step invariant; resuming completes the same run *)
Theorem C15_interrupted_state_ok : forall cfg n endt st st1 l1, inv st -> s_time st <= endt ->
  run_loop cfg n endt st = (st1, l1, false) ->
  inv st1 /\ s_time st <= s_time st1 <= endt /\ (c_abm cfg = true -> step_inv st -> step_inv st1).
Proof. exact interrupted_state_ok. Qed.
Print Assumptions C15_interrupted_state_ok.

(* ---------------------------------------------------------------- non-vacuity *)
(* an ABM history: step at tick 1 schedules a HIGH event for now and one for the next tick; a user event at
   tick 2 schedules another; pieces run_next_event, run_for 1, run_until 3, then run_until 4. *)
Definition ex_cfg : config :=
  {| c_abm := true;
     c_script := [(1, [ASched KNow 0 PHigh 50 0 []; ASched KTick 0 PDefault 51 0 []])] |}.
Definition ex_ops : list op :=
  [OSched KAbs 16 PHigh 1 0 [ASched KRel 8 PDefault 2 0 []]; OSched KAbs 16 PDefault 3 0 [ACancel 4];
   OSched KAbs 24 PDefault 4 0 []].
Definition ex_pieces : list piece := [PNext; PFor 8; PNext; PUntil 24].

Example C15_chunking_example :
  let st := final ex_cfg 50 (init ex_cfg) ex_ops in
  let r1 := run_pieces ex_cfg 50 st ex_pieces in
  let r2 := run_loop ex_cfg 50 32 (fst (fst r1)) in
  within ex_cfg 50 st 32 ex_pieces /\
  snd r1 = true /\ snd r2 = true /\ length (snd (fst r1) ++ snd (fst r2)) = 13%nat /\ s_steps (fst (fst r2)) = 4 /\
  run_loop ex_cfg 50 32 st = (fst (fst r2), snd (fst r1) ++ snd (fst r2), true).
Proof.
  cbv zeta. split.
  - cbn [within ex_pieces piece_within]. repeat split; try (vm_compute; discriminate).
    + intros e rest H. vm_compute in H. inversion H; subst. vm_compute. discriminate.
    + intros e rest H. vm_compute in H. inversion H; subst. vm_compute. discriminate.
  - repeat split; vm_compute; reflexivity.
Qed.

Example C15_step_example :
  c_abm ex_cfg = true /\ ops_ok ex_cfg 50 (init ex_cfg) (ex_ops ++ [ORunNext; ORunFor 8; ORunUntil 24]) /\
  s_steps (final ex_cfg 50 (init ex_cfg) (ex_ops ++ [ORunNext; ORunFor 8; ORunUntil 24])) = 3 /\
  steps_of (snd (run_state ex_cfg 50 (init ex_cfg) (ex_ops ++ [ORunNext; ORunFor 8; ORunUntil 24])))
    = [(1, 8); (2, 16); (3, 24)].
Proof.
  split; [reflexivity|]. split.
  - cbn [ops_ok ex_ops app op_ok]. repeat split; vm_compute; discriminate.
  - split; vm_compute; reflexivity.
Qed.

Example C15_run_for_example :
  let st := final ex_cfg 50 (init ex_cfg) ex_ops in
  let r := run_pieces ex_cfg 50 st (repeat (PFor (gen_viz_run_for * SCALE)) 4) in
  snd r = true /\ run_loop ex_cfg 50 (s_time st + 4 * 8) st = (fst (fst r), snd (fst r), true) /\
  s_steps (fst (fst r)) = 4 /\ length (snd (fst r)) = 13%nat.
Proof. cbv zeta. repeat split; vm_compute; reflexivity. Qed.

Example C15_step_invariant_example :
  step_inv (init ex_cfg) /\ inv (init ex_cfg) /\
  exists e rest, pop_event (s_events (init ex_cfg)) = Some (e, rest) /\ e_step e = true /\ e_time e = 8.
Proof.
  split; [apply step_inv_init; reflexivity|]. split; [apply inv_init|].
  eexists. eexists. repeat split; vm_compute; reflexivity.
Qed.

Example C15_lifecycle_example :
  let ops := [XOp (ORunUntil 24); XReset; XSetup; XOp (ORunFor 16)] in
  xops_ok ex_cfg 50 (xinit ex_cfg true) ops /\ m_setup (xfinal ex_cfg 50 (xinit ex_cfg true) ops) = true /\
  s_steps (m_st (xfinal ex_cfg 50 (xinit ex_cfg true) ops)) = 2 /\ s_time (m_st (xfinal ex_cfg 50 (xinit ex_cfg true) ops)) = 16.
Proof. cbv zeta. split; [cbn [xops_ok xop_ok]; repeat split; vm_compute; discriminate|]. repeat split; vm_compute; reflexivity. Qed.

Example C15_boundary_example :
  let r := run_loop ex_cfg 50 20 (init ex_cfg) in
  snd r = true /\ s_time (fst (fst r)) = 20 /\ s_steps (fst (fst r)) = 2 /\ 20 mod SCALE <> 0 /\
  snd (do_sched ex_cfg (fst (fst r)) KTick 0 PDefault 9 0 []) = R_UNIT.
Proof. cbv zeta. repeat split; try (vm_compute; reflexivity). vm_compute. discriminate. Qed.
