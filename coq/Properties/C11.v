(* C11 - property layers and cell attributes are one value; selection is exact
   (+ the property-layer sites of C18).  ONLY statements closed by `exact`, with
   Print Assumptions beneath each.  The model is Model/PropLayer.v: `step`/`run_state` are the
   functions the correspondence check runs (run_case = run_ops (init ..) ops). *)
From Coq Require Import ZArith List Bool.
From Mesa Require Import Common.ListX Generated.Tables Model.PropLayer Proofs.PropLayerProofs Proofs.PropLayerEmpty.
Import ListNotations.
Open Scope Z_scope.

(* After ANY history on a discrete-space grid (layers created, added, removed, re-added, written
   through either view, bulk set/modify, agents moved ...), for every coordinate and every name:
   reading the cell attribute and reading the layer through the grid give the same answer
   (the same value, or both fail because there is no such layer / the index is out of range). *)
Theorem C11_one_value : forall multi cap dims ops c n,
  let st := run_state (init true multi cap dims) ops in cell_read st c n = layer_read st n c.
Proof. exact one_value. Qed.
Print Assumptions C11_one_value.

(* ... because the grid's layer dict, the PropertyDescriptors on the cell class and
   _mesa_properties never disagree, every attached layer exists and has the grid's shape.
   Holds for both implementations (legacy: only the attached-layer part is non-trivial). *)
Theorem C11_tables_invariant : forall d multi cap dims ops, inv (run_state (init d multi cap dims) ops).
Proof. intros d multi cap dims ops. apply run_state_inv. exact (inv_init d multi cap dims). Qed.
Print Assumptions C11_tables_invariant.

(* a write through the cell attribute is read back through the layer (and the cell), and no
   other cell of that layer changes *)
Theorem C11_write_read_cell : forall st c n v st',
  inv st -> step st (CellWrite c n v) = (st', ROk []) ->
  layer_read st' n c = Some v /\ cell_read st' c n = Some v /\
  (forall c', valid_coord (s_dims st) c' = true -> c' <> c -> layer_read st' n c' = layer_read st n c').
Proof. exact cell_write_read. Qed.
Print Assumptions C11_write_read_cell.

(* a write through the layer (also with negative indices) is read back through the cell *)
Theorem C11_write_read_layer : forall st c n v st',
  inv st -> s_discrete st = true -> step st (LayerWrite (ByName n) c v) = (st', ROk []) ->
  cell_read st' c n = Some v /\ layer_read st' n c = Some v.
Proof. exact layer_write_read. Qed.
Print Assumptions C11_write_read_layer.

(* set_cells, conditional or not: every cell holds the new value exactly where the condition held
   on the old value, through both views *)
Theorem C11_bulk_set : forall st n v cd st' c,
  inv st -> step st (SetCells (ByName n) v cd) = (st', ROk []) ->
  layer_read st' n c = option_map (fun x => if eval_ocond cd x then v else x) (layer_read st n c) /\
  (s_discrete st = true -> cell_read st' c n = layer_read st' n c).
Proof. exact set_cells_spec. Qed.
Print Assumptions C11_bulk_set.

(* modify_cells with a binary ufunc, a unary ufunc or a python function, conditional or not *)
Theorem C11_bulk_modify : forall st n fm f hasval cd st' c,
  inv st -> step st (ModifyCells (ByName n) fm f hasval cd) = (st', ROk []) ->
  layer_read st' n c =
    option_map (fun x => if eval_ocond cd x then apply_fop f x else x) (layer_read st n c) /\
  (s_discrete st = true -> cell_read st' c n = layer_read st' n c).
Proof. exact modify_cells_spec. Qed.
Print Assumptions C11_bulk_modify.

(* T1: in the CURRENT source of both implementations the filter stages of select_cells come in
   the order masks, only_empty, conditions, extreme values (the model runs them in the extracted
   order, so a reordering in the source breaks this theorem and with it C11_select_exact) ... *)
Theorem C11_source_select_order :
  gen_select_order_discrete = [SMasks; SEmpty; SConds; SExts] /\
  gen_select_order_legacy = [SMasks; SEmpty; SConds; SExts].
Proof. exact source_select_order. Qed.
Print Assumptions C11_source_select_order.

(* ... and only_empty and-s an ARRAY into the mask: `self._mesa_property_layers["empty"].data`
   (not the PropertyLayer object, defect #15) resp. `self.empty_mask` *)
Theorem C11_source_only_empty_array : gen_select_empty_is_array = (true, true).
Proof. reflexivity. Qed.
Print Assumptions C11_source_only_empty_array.

(* select_cells, both implementations, any state: the selected coordinates are exactly the grid
   coordinates that satisfy every mask, the only_empty flag (through the emptiness layer / mask),
   every condition, and - criterion by criterion in dictionary order - hold the highest / lowest
   value among the cells that passed everything before that criterion. *)
Theorem C11_select_exact : forall st conds exts masks oe m,
  select_mask st conds exts masks oe = inl m ->
  map fst m = all_coords (s_dims st) /\
  forall c, In c (mask_list m) <->
            (In c (all_coords (s_dims st)) /\ passes_exts st (passes_base st masks oe conds) exts c).
Proof. exact select_exact. Qed.
Print Assumptions C11_select_exact.

(* the list form is the row-major list of exactly the coordinates whose mask entry is True *)
Theorem C11_list_mask_same : forall m : bmask,
  mask_list m = map fst (filter (fun kb => snd kb) m) /\
  (forall c, In c (mask_list m) <-> In (c, true) m).
Proof. exact list_mask_same. Qed.
Print Assumptions C11_list_mask_same.

(* C18, property-layer sites (add_property_layer clashing with a layer / a cell attribute / of the
   wrong shape, remove_property_layer of a missing layer, set_cell / modify_cell out of bounds or
   with an invalid operation, modify_cells without the value, select_cells with a missing layer or
   an invalid mode, place_agent / move_agent onto an occupied SingleGrid cell, move_relative
   without a cell in that direction): in every reachable state of a legacy grid or of a cell space
   without capacity limit, whatever call the model rejects leaves the whole state unchanged ...
   (the one rejection outside this theorem is "Cell is full", which first executes
   `self.empty = False`: see C18_proplayer_full_cell below) *)
Theorem C18_proplayer_atomic : forall st o st' k,
  reachable st -> (s_discrete st = true -> s_cap st = 0) -> step st o = (st', RErr k) -> st' = st.
Proof. exact atomic_reachable. Qed.
Print Assumptions C18_proplayer_atomic.

(* ... and so does every later observation *)
Theorem C18_proplayer_atomic_continue : forall st o st' k ops,
  reachable st -> (s_discrete st = true -> s_cap st = 0) -> step st o = (st', RErr k) ->
  run_ops st' ops = run_ops st ops.
Proof. exact atomic_continue. Qed.
Print Assumptions C18_proplayer_atomic_continue.

(* ... and in every state reached by a history that does not itself write the "empty" layer, for
   either implementation and ANY capacity >= 0, EVERY rejection leaves the state identical - also
   "Cell is full" (place, cell setter / move_to, move_relative into a full cell), whose
   `self.empty = False` before the raise is a no-op because a full cell is not empty. *)
Theorem C18_proplayer_full_cell : forall d multi cap dims ops o st' k,
  (d = true -> 0 <= cap /\ clean ops = true) ->
  let st := run_state (init d multi cap dims) ops in
  step st o = (st', RErr k) -> st' = st.
Proof. exact atomic_clean. Qed.
Print Assumptions C18_proplayer_full_cell.

(* ---------------- non-vacuity ---------------- *)
Definition ex_ops : list op :=
  [Create 1 1 1; Create 2 2 16; SetArray (ByName 1) [0; 2; 2; 1]; Place 7 [0; 1];
   ModifyCells (ByName 2) UBin (FAdd 8) true (Some (CGe, 16))].
Definition ex_st : state := run_state (init true false 0 [2; 2]) ex_ops.

Example C11_one_value_example :
  cell_read ex_st [1; 0] 1 = Some 2 /\ layer_read ex_st 1 [1; 0] = Some 2 /\
  cell_read ex_st [0; 1] 0 = Some 0 /\ cell_read ex_st [1; 1] 2 = Some 24.
Proof. vm_compute. repeat split. Qed.

Example C11_write_read_example :
  exists st', step ex_st (CellWrite [1; 1] 1 5) = (st', ROk []) /\ layer_read st' 1 [-1; -1] = Some 5.
Proof. eexists. split; vm_compute; reflexivity. Qed.

Example C11_bulk_example :
  exists st', step ex_st (ModifyCells (ByName 1) UUn FNeg false (Some (CGt, 1))) = (st', ROk []) /\
              layer_read st' 1 [0; 1] = Some (-2) /\ layer_read st' 1 [1; 1] = Some 1.
Proof. eexists. split; [vm_compute; reflexivity|]. vm_compute. split; reflexivity. Qed.

(* only_empty + condition + "highest" with a tie: (0,1) holds 2 but is occupied *)
Example C11_select_example :
  exists m, select_mask ex_st [(2, (CGe, 16))] [(1, 0)] [[true; true; true; true]] true = inl m /\
            mask_list m = [[1; 0]].
Proof. eexists. split; vm_compute; reflexivity. Qed.

Example C18_proplayer_atomic_example :
  reachable ex_st /\
  step ex_st (Create 1 1 0) = (ex_st, RErr E_VALUE) /\            (* name taken *)
  step ex_st (Create 101 1 0) = (ex_st, RErr E_VALUE) /\          (* cell attribute *)
  step ex_st (RemoveLayer 5) = (ex_st, RErr E_KEY) /\
  step ex_st (LayerWrite (ByName 1) [2; 0] 1) = (ex_st, RErr E_INDEX) /\
  step ex_st (ModifyCells (ByName 1) UBin (FAdd 1) false None) = (ex_st, RErr E_VALUE).
Proof.
  split; [exists true, false, 0, [2; 2], ex_ops; reflexivity|]. vm_compute. repeat split.
Qed.

(* The built-in emptiness layer: after ANY history that does not itself write to or detach the
   layer "empty" - agents placed, moved (cell setter / move_to / move_relative), removed, also into
   full cells of a capacity-limited space (rejected); any other layers created, removed, written,
   bulk modified; selections - for every cell the layer, read through the grid or through the
   cell attribute, says "empty" exactly when no agent is in the cell. *)
Theorem C11_empty_layer_true : forall multi cap dims ops c,
  0 <= cap -> clean ops = true -> valid_coord dims c = true ->
  let st := run_state (init true multi cap dims) ops in
  layer_read st EMPTY c = Some (b2z (negb (occupied (s_agents st) c))) /\
  cell_read st c EMPTY = Some (b2z (negb (occupied (s_agents st) c))).
Proof. exact empty_layer_true. Qed.
Print Assumptions C11_empty_layer_true.

(* The legacy mask, SingleGrid and MultiGrid (several agents per cell) alike: after ANY history
   (no side condition: no operation of the model can write the mask except place/move/remove),
   empty_mask[c] = (no agent in c) for every cell. *)
Theorem C11_empty_mask_true : forall multi cap dims ops c,
  valid_coord dims c = true ->
  let st := run_state (init false multi cap dims) ops in
  aget (s_emask st) c = Some (b2z (negb (occupied (s_agents st) c))).
Proof. exact empty_mask_true. Qed.
Print Assumptions C11_empty_mask_true.

(* select_cells in terms of ACTUAL emptiness, for every reachable state of either implementation
   (discrete: the history does not itself write the "empty" layer, capacity >= 0 or none):
   the selected coordinates are exactly the grid coordinates that satisfy every mask, hold no agent
   (if only_empty), satisfy every condition and are - criterion by criterion - extreme among those. *)
Theorem C11_select_exact_actual : forall d multi cap dims ops conds exts masks oe m,
  (d = true -> 0 <= cap /\ clean ops = true) ->
  let st := run_state (init d multi cap dims) ops in
  select_mask st conds exts masks oe = inl m ->
  forall c, In c (mask_list m) <->
            (In c (all_coords dims) /\ passes_exts st (passes_actual st masks oe conds) exts c).
Proof. exact select_exact_actual. Qed.
Print Assumptions C11_select_exact_actual.

(* MultiGrid: two agents in (1,1); the mask flips only when the last one leaves *)
Example C11_empty_mask_example :
  let run ops := run_state (init false true 0 [2; 2]) ops in
  let ops := [Place 1 [0; 1]; Place 2 [1; 1]; Place 3 [1; 1]; Move 1 [0; 0]; Remove 2] in
  avals (s_emask (run ops)) = [0; 1; 1; 0] /\ avals (s_emask (run (ops ++ [Remove 3]))) = [0; 1; 1; 1] /\
  (* SingleGrid: the second agent is refused, moving onto an occupied cell is refused *)
  map (fun o => snd (step (run_state (init false false 0 [2; 2]) [Place 1 [0; 1]; Place 2 [1; 1]]) o))
      [Place 3 [1; 1]; Move 1 [1; 1]; Move 1 [0; 1]] = [RErr E_EXC; RErr E_EXC; ROk []].
Proof. vm_compute. repeat split. Qed.

(* capacity 1: the full cell refuses (place, move_to, move_relative), the layer stays right *)
Example C11_empty_layer_example :
  let ops := ex_ops ++ [Place 8 [0; 1]; Move 7 [1; 1]; MoveRel 7 [-1; 0] false; MoveRel 7 [-1; -1] false;
                        Place 8 [0; 0]; Move 8 [0; 1]; RemoveLayer 2; Remove 7] in
  clean ops = true /\
  map (fun c => layer_read (run_state (init true false 1 [2; 2]) ops) EMPTY c) (all_coords [2; 2])
    = [Some 0; Some 1; Some 1; Some 1] /\
  map snd (s_agents (run_state (init true false 1 [2; 2]) ops)) = [[0; 0]].
Proof. vm_compute. repeat split. Qed.

Example C11_select_exact_actual_example :
  let st := run_state (init false true 0 [2; 2]) [NewLayer 1 1 [2; 2] 3; AddLayer 0; Place 1 [0; 0]; Place 2 [0; 0];
                                                  LayerWrite (ByName 1) [1; 1] 5; Remove 1] in
  exists m, select_mask st [(1, (CGe, 3))] [(1, 1)] [] true = inl m /\ mask_list m = [[0; 1]; [1; 0]] /\
            occupied (s_agents st) [0; 0] = true.
Proof. eexists. vm_compute. repeat split. Qed.

Example C18_proplayer_full_cell_example :
  let st := run_state (init true false 1 [2; 2]) [Create 1 1 0; Place 1 [0; 0]; Place 2 [0; 1]] in
  map (fun o => step st o) [Place 3 [0; 0]; Move 2 [0; 0]; MoveRel 2 [0; -1] false; MoveRel 2 [0; 1] false]
    = [(st, RErr E_EXC); (st, RErr E_EXC); (st, RErr E_EXC); (st, RErr E_VALUE)].
Proof. vm_compute. reflexivity. Qed.
