From Coq Require Import ZArith List Bool.
From Mesa Require Import Common.ListX Model.PropLayer Proofs.PropLayerProofs.
Import ListNotations.
Open Scope Z_scope.
