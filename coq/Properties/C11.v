(* C11 - property layers and cell attributes are one value; selection is exact
   (+ the property-layer sites of C18).  ONLY statements closed by `exact`, with
   Print Assumptions beneath each.  The model is Model/PropLayer.v: `step`/`run_state` are the
   functions the correspondence check runs (run_case = run_ops (init ..) ops). *)
From Coq Require Import ZArith List Bool.
From Mesa Require Import Common.ListX Generated.Tables Model.PropLayer Proofs.PropLayerProofs Proofs.PropLayerEmpty
  Proofs.PropLayerBridge.
Import ListNotations.
Open Scope Z_scope.

(* After ANY history on a discrete-space grid (layers created, added, removed, re-added, written
   through either view, bulk set/modify, agents moved ...), for every coordinate and every name:
   reading the cell attribute and reading the layer through the grid give the same answer
   (the same value, or both fail because there is no such layer / the index is out of range). *)
Theorem C11_one_value : forall multi cap dims ops c n,
  let st := run_state (init true multi cap dims) ops in cell_read st c n = layer_read st n c.
Proof. exact one_value. Qed.
Print Assumptions C11_one_value.

(* ... because the grid's layer dict, the PropertyDescriptors on the cell class and
   _mesa_properties never disagree, every attached layer exists and has the grid's shape.
   Holds for both implementations (legacy: only the attached-layer part is non-trivial). *)
Theorem C11_tables_invariant : forall d multi cap dims ops, inv (run_state (init d multi cap dims) ops).
Proof. intros d multi cap dims ops. apply run_state_inv. exact (inv_init d multi cap dims). Qed.
Print Assumptions C11_tables_invariant.

(* a write through the cell attribute is read back through the layer (and the cell), and no
   other cell of that layer changes *)
Theorem C11_write_read_cell : forall st c n v st',
  inv st -> step st (CellWrite c n v) = (st', ROk []) ->
  layer_read st' n c = Some v /\ cell_read st' c n = Some v /\
  (forall c', valid_coord (s_dims st) c' = true -> c' <> c -> layer_read st' n c' = layer_read st n c').
Proof. exact cell_write_read. Qed.
Print Assumptions C11_write_read_cell.

(* a write through the layer (also with negative indices) is read back through the cell *)
Theorem C11_write_read_layer : forall st c n v st',
  inv st -> s_discrete st = true -> step st (LayerWrite (ByName n) c v) = (st', ROk []) ->
  cell_read st' c n = Some v /\ layer_read st' n c = Some v.
Proof. exact layer_write_read. Qed.
Print Assumptions C11_write_read_layer.

(* set_cells, conditional or not: every cell holds the new value exactly where the condition held
   on the old value, through both views *)
Theorem C11_bulk_set : forall st n v cd st' c,
  inv st -> step st (SetCells (ByName n) v cd) = (st', ROk []) ->
  layer_read st' n c = option_map (fun x => if eval_ocond cd x then v else x) (layer_read st n c) /\
  (s_discrete st = true -> cell_read st' c n = layer_read st' n c).
Proof. exact set_cells_spec. Qed.
Print Assumptions C11_bulk_set.

(* modify_cells with a binary ufunc, a unary ufunc or a python function, conditional or not *)
Theorem C11_bulk_modify : forall st n fm f hasval cd st' c,
  inv st -> step st (ModifyCells (ByName n) fm f hasval cd) = (st', ROk []) ->
  layer_read st' n c =
    option_map (fun x => if eval_ocond cd x then apply_fop f x else x) (layer_read st n c) /\
  (s_discrete st = true -> cell_read st' c n = layer_read st' n c).
Proof. exact modify_cells_spec. Qed.
Print Assumptions C11_bulk_modify.

(* T1: in the CURRENT source of both implementations the filter stages of select_cells come in
   the order masks, only_empty, conditions, extreme values (the model runs them in the extracted
   order, so a reordering in the source breaks this theorem and with it C11_select_exact) ... *)
Theorem C11_source_select_order :
  gen_select_order_discrete = [SMasks; SEmpty; SConds; SExts] /\
  gen_select_order_legacy = [SMasks; SEmpty; SConds; SExts].
Proof. exact source_select_order. Qed.
Print Assumptions C11_source_select_order.

(* ... and only_empty and-s an ARRAY into the mask: `self._mesa_property_layers["empty"].data`
   (not the PropertyLayer object, defect #15) resp. `self.empty_mask` *)
Theorem C11_source_only_empty_array : gen_select_empty_is_array = (true, true).
Proof. reflexivity. Qed.
Print Assumptions C11_source_only_empty_array.

(* select_cells, both implementations, any state: the selected coordinates are exactly the grid
   coordinates that satisfy every mask, the only_empty flag (through the emptiness layer / mask),
   every condition, and - criterion by criterion in dictionary order - hold the highest / lowest
   value among the cells that passed everything before that criterion. *)
Theorem C11_select_exact : forall st conds exts masks oe m,
  select_mask st conds exts masks oe = inl m ->
  map fst m = all_coords (s_dims st) /\
  forall c, In c (mask_list m) <->
            (In c (all_coords (s_dims st)) /\ passes_exts st (passes_base st masks oe conds) exts c).
Proof. exact select_exact. Qed.
Print Assumptions C11_select_exact.

(* the list form is the row-major list of exactly the coordinates whose mask entry is True *)
Theorem C11_list_mask_same : forall m : bmask,
  mask_list m = map fst (filter (fun kb => snd kb) m) /\
  (forall c, In c (mask_list m) <-> In (c, true) m).
Proof. exact list_mask_same. Qed.
Print Assumptions C11_list_mask_same.

(* C18, property-layer sites (add_property_layer clashing with a layer / a cell attribute / of the
   wrong shape, remove_property_layer of a missing layer, set_cell / modify_cell out of bounds or
   with an invalid operation, modify_cells without the value, select_cells with a missing layer or
   an invalid mode, place_agent / move_agent onto an occupied SingleGrid cell, move_relative
   without a cell in that direction): in every reachable state of a legacy grid or of a cell space
   without capacity limit, whatever call the model rejects leaves the whole state unchanged ...
   (the one rejection outside this theorem is "Cell is full", which first executes
   `self.empty = False`: see C18_proplayer_full_cell below) *)
Theorem C18_proplayer_atomic : forall st o st' k,
  reachable st -> (s_discrete st = true -> s_cap st = 0) -> step st o = (st', RErr k) -> st' = st.
Proof. exact atomic_reachable. Qed.
Print Assumptions C18_proplayer_atomic.

(* ... and so does every later observation *)
Theorem C18_proplayer_atomic_continue : forall st o st' k ops,
  reachable st -> (s_discrete st = true -> s_cap st = 0) -> step st o = (st', RErr k) ->
  run_ops st' ops = run_ops st ops.
Proof. exact atomic_continue. Qed.
Print Assumptions C18_proplayer_atomic_continue.

(* ... and in every state reached by a history that does not itself write the "empty" layer, for
   either implementation and ANY capacity >= 0, EVERY rejection leaves the state identical - also
   "Cell is full" (place, cell setter / move_to, move_relative into a full cell), whose
   `self.empty = False` before the raise is a no-op because a full cell is not empty. *)
Theorem C18_proplayer_full_cell : forall d multi cap dims ops o st' k,
  (d = true -> 0 <= cap /\ clean ops = true) ->
  let st := run_state (init d multi cap dims) ops in
  step st o = (st', RErr k) -> st' = st.
Proof. exact atomic_clean. Qed.
Print Assumptions C18_proplayer_full_cell.

(* ---------------- non-vacuity ---------------- *)
Definition ex_ops : list op :=
  [Create 1 1 1; Create 2 2 16; SetArray (ByName 1) [0; 2; 2; 1]; Place 7 [0; 1];
   ModifyCells (ByName 2) UBin (FAdd 8) true (Some (CGe, 16))].
Definition ex_st : state := run_state (init true false 0 [2; 2]) ex_ops.

Example C11_one_value_example :
  cell_read ex_st [1; 0] 1 = Some 2 /\ layer_read ex_st 1 [1; 0] = Some 2 /\
  cell_read ex_st [0; 1] 0 = Some 0 /\ cell_read ex_st [1; 1] 2 = Some 24.
Proof. vm_compute. repeat split. Qed.

Example C11_write_read_example :
  exists st', step ex_st (CellWrite [1; 1] 1 5) = (st', ROk []) /\ layer_read st' 1 [-1; -1] = Some 5.
Proof. eexists. split; vm_compute; reflexivity. Qed.

Example C11_bulk_example :
  exists st', step ex_st (ModifyCells (ByName 1) UUn FNeg false (Some (CGt, 1))) = (st', ROk []) /\
              layer_read st' 1 [0; 1] = Some (-2) /\ layer_read st' 1 [1; 1] = Some 1.
Proof. eexists. split; [vm_compute; reflexivity|]. vm_compute. split; reflexivity. Qed.

(* only_empty + condition + "highest" with a tie: (0,1) holds 2 but is occupied *)
Example C11_select_example :
  exists m, select_mask ex_st [(2, (CGe, 16))] [(1, 0)] [[true; true; true; true]] true = inl m /\
            mask_list m = [[1; 0]].
Proof. eexists. split; vm_compute; reflexivity. Qed.

Example C18_proplayer_atomic_example :
  reachable ex_st /\
  step ex_st (Create 1 1 0) = (ex_st, RErr E_VALUE) /\            (* name taken *)
  step ex_st (Create 101 1 0) = (ex_st, RErr E_VALUE) /\          (* cell attribute *)
  step ex_st (RemoveLayer 5) = (ex_st, RErr E_KEY) /\
  step ex_st (LayerWrite (ByName 1) [2; 0] 1) = (ex_st, RErr E_INDEX) /\
  step ex_st (ModifyCells (ByName 1) UBin (FAdd 1) false None) = (ex_st, RErr E_VALUE).
Proof.
  split; [exists true, false, 0, [2; 2], ex_ops; reflexivity|]. vm_compute. repeat split.
Qed.

(* The built-in emptiness layer: after ANY history that does not itself write to or detach the
   layer "empty" - agents placed, moved (cell setter / move_to / move_relative), removed, also into
   full cells of a capacity-limited space (rejected); any other layers created, removed, written,
   bulk modified; selections - for every cell the layer, read through the grid or through the
   cell attribute, says "empty" exactly when no agent is in the cell. *)
Theorem C11_empty_layer_true : forall multi cap dims ops c,
  0 <= cap -> clean ops = true -> valid_coord dims c = true ->
  let st := run_state (init true multi cap dims) ops in
  layer_read st EMPTY c = Some (b2z (negb (occupied (s_agents st) c))) /\
  cell_read st c EMPTY = Some (b2z (negb (occupied (s_agents st) c))).
Proof. exact empty_layer_true. Qed.
Print Assumptions C11_empty_layer_true.

(* The legacy mask, SingleGrid and MultiGrid (several agents per cell) alike: after ANY history
   (no side condition: no operation of the model can write the mask except place/move/remove),
   empty_mask[c] = (no agent in c) for every cell. *)
Theorem C11_empty_mask_true : forall multi cap dims ops c,
  valid_coord dims c = true ->
  let st := run_state (init false multi cap dims) ops in
  aget (s_emask st) c = Some (b2z (negb (occupied (s_agents st) c))).
Proof. exact empty_mask_true. Qed.
Print Assumptions C11_empty_mask_true.

(* select_cells in terms of ACTUAL emptiness, for every reachable state of either implementation
   (discrete: the history does not itself write the "empty" layer, capacity >= 0 or none):
   the selected coordinates are exactly the grid coordinates that satisfy every mask, hold no agent
   (if only_empty), satisfy every condition and are - criterion by criterion - extreme among those. *)
Theorem C11_select_exact_actual : forall d multi cap dims ops conds exts masks oe m,
  (d = true -> 0 <= cap /\ clean ops = true) ->
  let st := run_state (init d multi cap dims) ops in
  select_mask st conds exts masks oe = inl m ->
  forall c, In c (mask_list m) <->
            (In c (all_coords dims) /\ passes_exts st (passes_actual st masks oe conds) exts c).
Proof. exact select_exact_actual. Qed.
Print Assumptions C11_select_exact_actual.

(* MultiGrid: two agents in (1,1); the mask flips only when the last one leaves *)
Example C11_empty_mask_example :
  let run ops := run_state (init false true 0 [2; 2]) ops in
  let ops := [Place 1 [0; 1]; Place 2 [1; 1]; Place 3 [1; 1]; Move 1 [0; 0]; Remove 2] in
  avals (s_emask (run ops)) = [0; 1; 1; 0] /\ avals (s_emask (run (ops ++ [Remove 3]))) = [0; 1; 1; 1] /\
  (* SingleGrid: the second agent is refused, moving onto an occupied cell is refused *)
  map (fun o => snd (step (run_state (init false false 0 [2; 2]) [Place 1 [0; 1]; Place 2 [1; 1]]) o))
      [Place 3 [1; 1]; Move 1 [1; 1]; Move 1 [0; 1]] = [RErr E_EXC; RErr E_EXC; ROk []].
Proof. vm_compute. repeat split. Qed.

(* capacity 1: the full cell refuses (place, move_to, move_relative), the layer stays right *)
Example C11_empty_layer_example :
  let ops := ex_ops ++ [Place 8 [0; 1]; Move 7 [1; 1]; MoveRel 7 [-1; 0] 1 false; MoveRel 7 [-1; -1] 1 false;
                        Place 8 [0; 0]; Move 8 [0; 1]; RemoveLayer 2; Remove 7] in
  clean ops = true /\
  map (fun c => layer_read (run_state (init true false 1 [2; 2]) ops) EMPTY c) (all_coords [2; 2])
    = [Some 0; Some 1; Some 1; Some 1] /\
  map snd (s_agents (run_state (init true false 1 [2; 2]) ops)) = [[0; 0]].
Proof. vm_compute. repeat split. Qed.

Example C11_select_exact_actual_example :
  let st := run_state (init false true 0 [2; 2]) [NewLayer 1 1 [2; 2] 3; AddLayer 0; Place 1 [0; 0]; Place 2 [0; 0];
                                                  LayerWrite (ByName 1) [1; 1] 5; Remove 1] in
  exists m, select_mask st [(1, (CGe, 3))] [(1, 1)] [] true = inl m /\ mask_list m = [[0; 1]; [1; 0]] /\
            occupied (s_agents st) [0; 0] = true.
Proof. eexists. vm_compute. repeat split. Qed.

Example C18_proplayer_full_cell_example :
  let st := run_state (init true false 1 [2; 2]) [Create 1 1 0; Place 1 [0; 0]; Place 2 [0; 1]] in
  map (fun o => step st o) [Place 3 [0; 0]; Move 2 [0; 0]; MoveRel 2 [0; -1] 1 false; MoveRel 2 [0; 1] 1 false]
    = [(st, RErr E_EXC); (st, RErr E_EXC); (st, RErr E_EXC); (st, RErr E_VALUE)].
Proof. vm_compute. reflexivity. Qed.

(* ===================================================================================================
   Code-level T1: the bodies of the modelled functions, TRANSLATED from the working tree on every run
   (harness/tables/proplayer_code.py -> gen_* in Generated/Tables.v), are the functions of the model;
   and the headline statements hold of the translated code itself.
   =================================================================================================== *)

(* ufunc_requires_additional_input (both files, as repaired): "more than one INPUT" *)
Theorem C11_source_ufunc_arity : forall nin,
  gen_ufunc_nin_test_d nin = (1 <? nin) /\ gen_ufunc_nin_test_l nin = (1 <? nin).
Proof. intros nin. split; [exact (arity_bridge_d nin)|exact (arity_bridge_l nin)]. Qed.
Print Assumptions C11_source_ufunc_arity.

(* modify_cells (condition array, dispatch on ufunc / arity / python function, the missing value, np.where) *)
Theorem C11_source_modify_cells_is_model : forall L fm f hasval cd cu,
  gen_modify_cells_d (l_data L) (fm_is_ufunc fm) cu (fm_nin fm) hasval (is_some cd) (eval_ocond cd)
                     (apply_fop f) (apply_fop f) = model_modify_cells L fm f hasval cd /\
  gen_modify_cells_l (l_data L) (fm_is_ufunc fm) cu (fm_nin fm) hasval (is_some cd) (eval_ocond cd)
                     (apply_fop f) (apply_fop f) = model_modify_cells L fm f hasval cd.
Proof. intros. split; [apply modify_cells_bridge_d|apply modify_cells_bridge_l]. Qed.
Print Assumptions C11_source_modify_cells_is_model.

(* set_cells (legacy: also for a ufunc condition; its shape test never fires) *)
Theorem C11_source_set_cells_is_model : forall d v cd cu,
  gen_set_cells_d d v (is_some cd) cu (eval_ocond cd) = GOk (model_set_cells d v cd) /\
  gen_set_cells_l d v (is_some cd) cu (eval_ocond cd) = GOk (model_set_cells d v cd).
Proof. intros. split; [apply set_cells_bridge_d|apply set_cells_bridge_l]. Qed.
Print Assumptions C11_source_set_cells_is_model.

(* legacy modify_cell: IndexError first, python function / value given / ValueError *)
Theorem C11_source_modify_cell_is_model : forall L c fm f hasval,
  (forall c', norm_coord (l_dims L) c = Some c' -> aget (l_data L) c' <> None) ->
  (fm = UUn -> hasval = false) ->
  gen_modify_cell_l (l_dims L) (l_data L) c (fm_single_arg fm) hasval (apply_fop f) (apply_fop f)
  = model_modify_cell L c fm f hasval.
Proof. exact modify_cell_bridge. Qed.
Print Assumptions C11_source_modify_cell_is_model.

(* PropertyDescriptor.__get__ / __set__ index the layer's CURRENT array by the cell's coordinate:
   the model's cell attribute read and write are these two methods *)
Theorem C11_source_descriptor_is_model : forall st c n v,
  cell_read st c n =
    match assoc n (s_descr st) with
    | Some id => match get_obj st id with Some L => gen_descr_get (l_dims L) (l_data L) c | None => None end
    | None => None
    end /\
  cell_setattr st c n v =
    match assoc n (s_descr st) with
    | Some id => match get_obj st id with
                 | Some L => match gen_descr_set (l_dims L) (l_data L) c v with
                             | GOk d => set_data st id L d
                             | GErr _ _ => st
                             end
                 | None => st
                 end
    | None => st
    end.
Proof. intros. split; [apply cell_read_of_source|apply cell_setattr_of_source]. Qed.
Print Assumptions C11_source_descriptor_is_model.

(* add_property_layer / remove_property_layer: the validations in source order, the exception raised by
   each, the three table updates (and for remove the partially updated tables at each failure point) *)
Theorem C11_source_add_layer_is_model : forall st id L,
  (s_discrete st = true ->
   add_layer st id L =
   match gen_add_layer_d (s_dims st) (l_dims L) (l_name L) id (s_grid st) (s_descr st) (s_props st) with
   | GOk (g, d, p) => (set_tables st g d p, ROk [])
   | GErr k _ => (st, RErr k)
   end) /\
  (forall gw gh lw lh, s_discrete st = false -> s_dims st = [gw; gh] -> l_dims L = [lw; lh] ->
   add_layer st id L =
   match gen_add_layer_l gw gh lw lh (l_name L) id (s_grid st) with
   | GOk g => (set_tables st g (s_descr st) (s_props st), ROk [])
   | GErr k _ => (st, RErr k)
   end).
Proof. intros. split; [apply add_layer_bridge_d|intros; apply add_layer_bridge_l; assumption]. Qed.
Print Assumptions C11_source_add_layer_is_model.

Theorem C11_source_remove_layer_is_model : forall st n,
  (s_discrete st = true ->
   remove_layer st n =
   match gen_remove_layer_d n (s_grid st) (s_descr st) (s_props st) with
   | GOk (g, d, p) => (set_tables st g d p, ROk [])
   | GErr k (g, d, p) => (set_tables st g d p, RErr k)
   end) /\
  (s_discrete st = false ->
   remove_layer st n =
   match gen_remove_layer_l n (s_grid st) with
   | GOk g => (set_tables st g (s_descr st) (s_props st), ROk [])
   | GErr k _ => (st, RErr k)
   end).
Proof. intros. split; [apply remove_layer_bridge_d|apply remove_layer_bridge_l]. Qed.
Print Assumptions C11_source_remove_layer_is_model.

(* the extreme-value loop body of select_cells: masked max / min, equality mask, logical_and *)
Theorem C11_source_extreme_step_is_model : forall m d mode, aligned m d ->
  gen_ext_step_d m d mode = (if (mode =? HIGHEST) || (mode =? LOWEST) then GOk (ext_step m d mode) else GErr E_VALUE m) /\
  gen_ext_step_l m d mode = (if (mode =? HIGHEST) || (mode =? LOWEST) then GOk (ext_step m d mode) else GErr E_VALUE m).
Proof. intros m d mode H. split; [apply ext_step_bridge_d|apply ext_step_bridge_l]; exact H. Qed.
Print Assumptions C11_source_extreme_step_is_model.

(* the model's step for bulk modification IS the translated function applied to the layer's array *)
Theorem C11_step_modify_cells_of_source : forall st r fm f hasval cd id L cu,
  resolve st r = Some id -> get_obj st id = Some L ->
  step st (ModifyCells r fm f hasval cd) =
  lift_data st id L
    (if s_discrete st
     then gen_modify_cells_d (l_data L) (fm_is_ufunc fm) cu (fm_nin fm) hasval (is_some cd) (eval_ocond cd) (apply_fop f) (apply_fop f)
     else gen_modify_cells_l (l_data L) (fm_is_ufunc fm) cu (fm_nin fm) hasval (is_some cd) (eval_ocond cd) (apply_fop f) (apply_fop f)).
Proof. exact step_modify_cells_of_source. Qed.
Print Assumptions C11_step_modify_cells_of_source.

(* HEADLINE, about the translated source: whenever the translated modify_cells completes, every cell
   holds `op old` exactly where the condition held on the old value, and the old value elsewhere *)
Theorem C11_bulk_modify_of_source : forall L fm f hasval cd cu d',
  (gen_modify_cells_d (l_data L) (fm_is_ufunc fm) cu (fm_nin fm) hasval (is_some cd) (eval_ocond cd)
                      (apply_fop f) (apply_fop f) = GOk d' \/
   gen_modify_cells_l (l_data L) (fm_is_ufunc fm) cu (fm_nin fm) hasval (is_some cd) (eval_ocond cd)
                      (apply_fop f) (apply_fop f) = GOk d') ->
  forall c, aget d' c = option_map (fun x => if eval_ocond cd x then apply_fop f x else x) (aget (l_data L) c).
Proof. intros L fm f hasval cd cu d' [H|H]; [eapply bulk_modify_of_source_d|eapply bulk_modify_of_source_l]; exact H. Qed.
Print Assumptions C11_bulk_modify_of_source.

(* HEADLINE, about the translated loop body of the extreme-value stage: it accepts exactly "highest" /
   "lowest" and keeps exactly the candidate cells whose value is the maximum / minimum over the candidates *)
Theorem C11_extreme_exact_of_source : forall st F P d mode n m',
  (forall c, In c (all_coords (s_dims st)) -> (F c = true <-> P c)) ->
  grid_data st n = Some d -> akeys d = all_coords (s_dims st) ->
  (gen_ext_step_d (fmask F (all_coords (s_dims st))) d mode = GOk m' \/
   gen_ext_step_l (fmask F (all_coords (s_dims st))) d mode = GOk m') ->
  (mode = HIGHEST \/ mode = LOWEST) /\
  exists F', m' = fmask F' (all_coords (s_dims st)) /\
    forall c, In c (all_coords (s_dims st)) ->
      (F' c = true <-> (P c /\ forall c', In c' (all_coords (s_dims st)) -> P c' -> better mode d c' c)).
Proof. exact extreme_exact_of_source. Qed.
Print Assumptions C11_extreme_exact_of_source.

(* get_neighborhood_mask (both): given the neighbourhood, the mask covers the grid and is True exactly on it *)
Theorem C11_nbhd_mask_of_source : forall dims nb m c,
  (gen_nbhd_mask_d dims nb = GOk m \/ gen_nbhd_mask_l dims nb = GOk m) ->
  In c (all_coords dims) ->
  map fst m = all_coords dims /\ (mget m c = true <-> In c nb).
Proof. exact nbhd_mask_of_source. Qed.
Print Assumptions C11_nbhd_mask_of_source.

Example C11_source_code_example :
  let d : garr := [([0; 0], 1); ([0; 1], 3); ([1; 0], 3); ([1; 1], 0)] in
  (* np.add with value 2 where x > 0; the same without the value; np.negative *)
  gen_modify_cells_d d true false 2 true true (fun x => x >? 0) (fun x => x) (fun x => x + 2)
    = GOk [([0; 0], 3); ([0; 1], 5); ([1; 0], 5); ([1; 1], 0)] /\
  gen_modify_cells_l d true false 2 false false (fun _ => true) (fun x => x) (fun x => x + 2) = GErr 1 d /\
  gen_modify_cells_d d true false 1 false false (fun _ => true) Z.opp (fun x => x)
    = GOk [([0; 0], -1); ([0; 1], -3); ([1; 0], -3); ([1; 1], 0)] /\
  gen_set_cells_l d 9 true false (fun x => x =? 3) = GOk [([0; 0], 1); ([0; 1], 9); ([1; 0], 9); ([1; 1], 0)] /\
  gen_modify_cell_l [2; 2] d [-1; 0] true false (fun x => x * 2) (fun x => x) = GOk [([0; 0], 1); ([0; 1], 3); ([1; 0], 6); ([1; 1], 0)] /\
  gen_modify_cell_l [2; 2] d [2; 0] true false (fun x => x) (fun x => x) = GErr 3 d /\
  (* highest among the candidates (0,0),(0,1),(1,0): the tie (0,1),(1,0) *)
  gen_ext_step_d [([0; 0], true); ([0; 1], true); ([1; 0], true); ([1; 1], false)] d 0
    = GOk [([0; 0], false); ([0; 1], true); ([1; 0], true); ([1; 1], false)] /\
  gen_ext_step_l [([0; 0], false); ([0; 1], false); ([1; 0], false); ([1; 1], false)] d 1
    = GOk [([0; 0], false); ([0; 1], false); ([1; 0], false); ([1; 1], false)] /\
  gen_ext_step_d [([0; 0], true)] d 2 = GErr 1 [([0; 0], true)] /\
  (* add: wrong shape / name taken / cell attribute / accepted; remove: missing / present *)
  gen_add_layer_d [2; 2] [2; 3] 1 5 [(0, 0)] [(0, 0)] [0] = GErr 1 ([(0, 0)], [(0, 0)], [0]) /\
  gen_add_layer_d [2; 2] [2; 2] 0 5 [(0, 0)] [(0, 0)] [0] = GErr 1 ([(0, 0)], [(0, 0)], [0]) /\
  gen_add_layer_d [2; 2] [2; 2] 101 5 [(0, 0)] [(0, 0)] [0] = GErr 1 ([(0, 0)], [(0, 0)], [0]) /\
  gen_add_layer_d [2; 2] [2; 2] 1 5 [(0, 0)] [(0, 0)] [0] = GOk ([(0, 0); (1, 5)], [(0, 0); (1, 5)], [0; 1]) /\
  gen_remove_layer_d 1 [(0, 0)] [(0, 0)] [0] = GErr 2 ([(0, 0)], [(0, 0)], [0]) /\
  gen_remove_layer_d 1 [(0, 0); (1, 5)] [(0, 0); (1, 5)] [0; 1] = GOk ([(0, 0)], [(0, 0)], [0]) /\
  gen_add_layer_l 2 2 2 3 1 0 [] = GErr 1 [] /\ gen_remove_layer_l 1 [] = GErr 1 [] /\
  gen_nbhd_mask_d [2; 2] [[0; 1]; [1; 1]] = GOk [([0; 0], false); ([0; 1], true); ([1; 0], false); ([1; 1], true)].
Proof. vm_compute. repeat split. Qed.

(* ===================================================================================================
   Round 3: get_neighborhood_mask and aggregate as operations of the model, hex / torus moves, dtype boundary
   =================================================================================================== *)

(* get_neighborhood_mask (the model's step runs the translated body on the neighbourhood the grid reports):
   for EVERY neighbourhood inside the grid - the empty one included (fix C11-4) - the mask covers the
   grid in row-major order and is True exactly on the neighbourhood; nothing else changes *)
Theorem C11_nbhd_mask_exact : forall st nb,
  forallb (valid_coord (s_dims st)) nb = true ->
  step st (NbhdMask nb) =
  (st, ROk (map (fun c => b2z (existsb (coord_eqb c) nb)) (all_coords (s_dims st)))).
Proof. exact nbhd_mask_step. Qed.
Print Assumptions C11_nbhd_mask_exact.

(* legacy hex grids (finding / fix C11-5): the get_neighborhood_mask they execute - _HexGrid's own, once it has one,
   else the inherited one - is translated as gen_nbhd_mask_h and computes exactly what the model runs for legacy grids *)
Theorem C11_nbhd_mask_hex_of_source : forall dims nb, gen_nbhd_mask_h dims nb = gen_nbhd_mask_l dims nb.
Proof. exact nbhd_mask_hex_agrees. Qed.
Print Assumptions C11_nbhd_mask_hex_of_source.

Example C11_nbhd_mask_hex_example :
  gen_nbhd_mask_h [2; 2] [[0; 1]] = GOk [([0; 0], false); ([0; 1], true); ([1; 0], false); ([1; 1], false)] /\
  gen_nbhd_mask_h [1; 1] [] = GOk [([0; 0], false)].
Proof. vm_compute. split; reflexivity. Qed.

(* aggregate / aggregate_property over an attached layer: np.sum is the sum, np.mean the sum over the
   number of cells, np.max / np.min an attained bound - of exactly the values the cells show through
   their attribute, cell by cell *)
Theorem C11_aggregate_exact : forall st n id L,
  inv st -> s_discrete st = true -> assoc n (s_grid st) = Some id -> get_obj st id = Some L ->
  let cells := map (fun c => opt_z (cell_read st c n)) (all_coords (s_dims st)) in
  step st (Aggregate (ByName n) SUM) = (st, ROk [zsum cells]) /\
  step st (Aggregate (ByName n) MEAN) = (st, ROk [zsum cells; Z.of_nat (length (all_coords (s_dims st)))]) /\
  (forall t, step st (Aggregate (ByName n) MAX) = (st, ROk [t]) -> In t cells /\ forall v, In v cells -> v <= t) /\
  (forall t, step st (Aggregate (ByName n) MIN) = (st, ROk [t]) -> In t cells /\ forall v, In v cells -> t <= v).
Proof. exact aggregate_exact. Qed.
Print Assumptions C11_aggregate_exact.

(* the documented boundary of the dtype modelling: over bool / int / float layers and operands, the
   (layer dtype, form, operation, operand dtype) combinations the generators feed to modify_cells are EXACTLY
   those for which NumPy's result dtype (dtype_result, validated against NumPy on every run by the
   ProbeDtype operations of the correspondence) is the layer's own dtype *)
Theorem C11_dtype_boundary : forall ldt fm f vdt,
  0 <= ldt <= 2 -> 0 <= vdt <= 2 ->
  (admissible ldt fm f vdt = true <-> dtype_result ldt fm f vdt = ldt).
Proof. exact dtype_boundary. Qed.
Print Assumptions C11_dtype_boundary.

Example C11_round3_example :
  (* a 1x1 grid: the neighbourhood without the centre is empty, the mask all False *)
  step (init true false 0 [1; 1]) (NbhdMask []) = (init true false 0 [1; 1], ROk [0]) /\
  step (init false false 0 [2; 2]) (NbhdMask [[0; 1]; [1; 1]]) = (init false false 0 [2; 2], ROk [0; 1; 0; 1]) /\
  (* hex torus 2x2: from (0,1) (odd row -> the "even" table) direction (-1,-1) wraps to (1,0);
     (1,-1) is not a hex direction there *)
  (let st := run_state (init true false 1 [2; 2]) [Place 1 [0; 1]; Place 2 [0; 0]] in
   map snd (s_agents (fst (step st (MoveRel 1 [-1; -1] 2 true)))) = [[0; 0]; [1; 0]] /\
   snd (step st (MoveRel 1 [1; -1] 2 true)) = RErr E_VALUE /\
   snd (step st (MoveRel 1 [0; -1] 2 true)) = RErr E_EXC /\          (* (0,0) is full *)
   snd (step st (MoveRel 1 [-1; -1] 2 false)) = RErr E_VALUE) /\       (* off the grid without the torus *)
  (* aggregate over an int layer [0;2;2;1] *)
  map (fun k => snd (step ex_st (Aggregate (ByName 1) k))) [0; 1; 2; 3; 7]
    = [ROk [5]; ROk [2]; ROk [0]; ROk [5; 4]; RErr E_VALUE] /\
  (* dtype: int layer + float operand -> float; bool negative -> TypeError; int + bool stays int *)
  dtype_result 1 UBin (FAdd 8) 2 = 2 /\ dtype_result 0 UUn FNeg 0 = DT_TYPEERROR /\ dtype_result 1 UBin (FAdd 1) 0 = 1 /\
  admissible 1 UBin (FAdd 8) 2 = false /\ admissible 1 PyFn (FMax 1) 0 = false /\ admissible 2 UBin (FMax 3) 1 = true.
Proof. vm_compute. repeat split. Qed.

(* PropertyLayer.select_cells(condition, return_list) of a single layer (both implementations): list and
   mask form select exactly the coordinates whose value satisfies the condition, in row-major order *)
Theorem C11_layer_select_exact : forall st r cd id L,
  resolve st r = Some id -> get_obj st id = Some L ->
  let m := map (fun kx : coord * Z => (fst kx, eval_cond cd (snd kx))) (l_data L) in
  (forall aslist, step st (LayerSelect r cd aslist) = (st, ROk (select_obs m aslist))) /\
  map fst m = akeys (l_data L) /\
  forall c, In c (mask_list m) <-> exists x, In (c, x) (l_data L) /\ eval_cond cd x = true.
Proof. exact layer_select_exact. Qed.
Print Assumptions C11_layer_select_exact.

Example C11_layer_select_example :
  snd (step ex_st (LayerSelect (ByName 1) (CGe, 2) true)) = ROk [2; 0; 1; 1; 0] /\
  snd (step ex_st (LayerSelect (ByHandle 1) (CLt, 2) false)) = ROk [1; 0; 0; 1].
Proof. vm_compute. split; reflexivity. Qed.
