(* C01 - a seeded run is reproducible in every process, hash seed and history.
   What Coq carries (DESIGN section 4, C01): (a) results do not depend on the iteration order of the one
   hash-ordered container on a stochastic path, (b) every derived collection carries the model's generator,
   (c) shuffles / choices are functions of (members in insertion order, generator outcome); plus the registry
   order.  "Whatever process / hash seed" itself is explored implementation-against-implementation by
   harness/props/C01.py - no executable model exhibits it.
   ONLY statements closed by `exact`, with Print Assumptions beneath each. *)
From Coq Require Import ZArith List Bool Permutation Lia.
From Mesa Require Import Common.ListX Generated.Tables Model.Rng Model.Seed Proofs.RngProofs Proofs.RngBridge.
Import ListNotations.
Open Scope Z_scope.

(* (b) every AgentSet derived from the model - by any nesting of select / shuffle / sort / groupby / copy, from
   model.agents, agents_by_type, the agents of a space - carries model.random, provided the space was built with
   it and the derivation does not go through one of the two documented unseeded fall-backs. *)
Theorem C01_gen_propagates : forall w d c,
  seeded_space w -> wf_term w d -> eval w d = Ok c -> gen c = MODEL_GEN.
Proof. exact gen_propagates. Qed.
Print Assumptions C01_gen_propagates.

(* exact characterisation (refinement to a five-line specification): the generator of ANY derivation that evaluates
   is the one fixed by the first constructor on its receiver spine - so the two unseeded fall-backs and an unseeded
   space are the ONLY ways to meet a foreign generator *)
Theorem C01_gen_refines_spec : forall w d c, eval w d = Ok c -> gen c = gen_spec w d.
Proof. exact gen_refines_spec. Qed.
Print Assumptions C01_gen_refines_spec.

Theorem C01_cell_gen_refines_spec : forall w d c, ceval w d = Ok c -> gen c = cgen_spec w d.
Proof. exact cgen_refines_spec. Qed.
Print Assumptions C01_cell_gen_refines_spec.

(* same for CellCollections: all_cells, empties, neighbourhoods, nested selections *)
Theorem C01_cell_gen_propagates : forall w d c,
  seeded_space w -> wf_cterm d -> ceval w d = Ok c -> gen c = MODEL_GEN.
Proof. exact cgen_propagates. Qed.
Print Assumptions C01_cell_gen_propagates.

(* ... and along every history of create / remove / place / move_to_empty / derive operations: no observation the
   correspondence compares ever shows a foreign generator (no operation swaps the generator of the space) *)
Theorem C01_gen_propagates_history : forall srt ops w,
  seeded_space w -> run_wf srt w ops -> Forall no_foreign_gen (run_ops srt w ops).
Proof. exact history_no_foreign. Qed.
Print Assumptions C01_gen_propagates_history.

(* reset_randomizer re-seeds the generator object in place: it changes no collection, so everything derived before a
   reset is still the same collection with the same generator after any number of resets (and, being an op of the
   history, C01_gen_propagates_history covers derivations made between and after resets) *)
Theorem C01_reset_keeps_collections : forall srt n w d,
  eval (final srt w (repeat Reset n)) d = eval w d /\ final srt w (repeat Reset n) = w.
Proof. exact resets_preserve_derivations. Qed.
Print Assumptions C01_reset_keeps_collections.

(* further spaces: legacy MultiGrid / HexSingleGrid / HexMultiGrid / NetworkGrid / ContinuousSpace and the experimental
   ContinuousSpace.  The documented first-agent fall-back as a constructor of its own: it yields the model's generator
   exactly when the legacy space holds an agent ... *)
Theorem C01_legacy_fallback_spec : forall l, legacy_fallback l = MODEL_GEN <-> l <> [].
Proof. exact legacy_fallback_spec. Qed.
Print Assumptions C01_legacy_fallback_spec.

(* ... so `space.agents` of a legacy space carries model.random iff the space is not empty (wf_term excludes exactly the
   empty legacy space), and of an experimental ContinuousSpace the generator the space was built with; both are covered
   by C01_gen_propagates / C01_gen_refines_spec / C01_gen_propagates_history / C01_gen_of_source through TXAgents *)
Theorem C01_space_agents_gen : forall w s x,
  znth (w_xspaces w) s = Some x ->
  eval w (TXAgents s) = Ok {| members := xs_members x; gen := xs_agents_gen x |} /\
  (xs_legacy x = true -> (xs_agents_gen x = MODEL_GEN <-> xs_members x <> [])) /\
  (xs_legacy x = false -> xs_agents_gen x = xs_gen x).
Proof. exact xagents_gen_spec. Qed.
Print Assumptions C01_space_agents_gen.

(* the observable is sharp: the unseeded fall-back IS seen *)
Theorem C01_unseeded_is_visible : forall w d c, eval w (TNew d false) = Ok c -> gen c = OTHER_GEN.
Proof. exact unseeded_is_visible. Qed.
Print Assumptions C01_unseeded_is_visible.

(* (a) legacy move_to_empty: with the `sorted(...)` the source applies (re-read from the source on every run:
   gen_mte_choice_sorted), the whole step - destination, new grid, observation - is the same for every
   iteration order of the set of empties *)
Theorem C01_source_sorts_empties : gen_mte_choice_sorted = true.
Proof. vm_compute. reflexivity. Qed.
Print Assumptions C01_source_sorts_empties.

Theorem C01_move_to_empty_perm_invariant : forall w a pi pi' k tape,
  Permutation pi pi' ->
  step gen_mte_choice_sorted w (MoveToEmpty a pi k tape) = step gen_mte_choice_sorted w (MoveToEmpty a pi' k tape).
Proof. rewrite C01_source_sorts_empties. exact move_to_empty_perm_invariant. Qed.
Print Assumptions C01_move_to_empty_perm_invariant.

(* lifted to whole histories: two runs whose move_to_empty calls saw the empties in different orders produce the same
   observations and end in the same world *)
Theorem C01_history_perm_invariant : forall ops ops', Forall2 op_perm ops ops' ->
  forall w, run_ops gen_mte_choice_sorted w ops = run_ops gen_mte_choice_sorted w ops' /\
            final gen_mte_choice_sorted w ops = final gen_mte_choice_sorted w ops'.
Proof. rewrite C01_source_sorts_empties. exact history_perm_invariant. Qed.
Print Assumptions C01_history_perm_invariant.

(* ... and without it the statement fails (what the T1 tie protects against) *)
Theorem C01_unsorted_choice_depends_on_order :
  exists w a pi pi' k, Permutation pi pi' /\
    snd (step false w (MoveToEmpty a pi k [])) <> snd (step false w (MoveToEmpty a pi' k [])).
Proof. exact unsorted_choice_depends_on_order. Qed.
Print Assumptions C01_unsorted_choice_depends_on_order.

(* both branches (rejection sampling and choice) land on an empty cell of the grid, for every legal outcome *)
Theorem C01_move_to_empty_sound : forall srt w pi k tape p,
  choose_empty srt w pi k tape = Ok p -> In p (l_empties w).
Proof. exact choose_empty_sound. Qed.
Print Assumptions C01_move_to_empty_sound.

(* DiscreteSpace.select_random_empty_cell: both strategies return an empty cell of the space, for every outcome;
   the cells are consulted in creation order (an ordered mapping), never in hash order *)
Theorem C01_select_random_empty_sound : forall srt w k c,
  snd (step srt w (SelectRandomEmpty k)) = [w_sgen w; c] -> In c (map fst (w_cells w)) /\ cell_empty w c = true.
Proof. exact select_random_empty_sound. Qed.
Print Assumptions C01_select_random_empty_sound.

Theorem C01_try_random_empty_sound : forall w tape c,
  try_random w tape = Ok c -> In c (map fst (w_cells w)) /\ cell_empty w c = true.
Proof. exact try_random_sound. Qed.
Print Assumptions C01_try_random_empty_sound.

(* select_random_cell / select_random_agent / choice: the result is the element at the drawn index of the
   sequence in insertion order *)
Theorem C01_choice_is_member : forall (l : list Z) k x, choice_from l k = Ok x -> In x l.
Proof. exact (@choice_from_sound Z). Qed.
Print Assumptions C01_choice_is_member.

(* move_agent_to_one_of: the destination is one of the given positions; with selection="closest" no given
   position is strictly nearer - for EVERY outcome of the shuffle and of the final choice *)
Theorem C01_one_of_choice_sound : forall cur ps closest idxs k p,
  one_of_choice cur ps closest idxs k = Ok p ->
  In p ps /\ (closest = true -> forall q, In q ps -> dist2 p cur <= dist2 q cur).
Proof. exact one_of_choice_sound. Qed.
Print Assumptions C01_one_of_choice_sound.

(* shuffle_do / random.shuffle on any list: a permutation, determined by the list order and the index outcome *)
Theorem C01_shuffle_apply_is_permutation : forall (l : list Z) idxs l',
  shuffle_apply l idxs = Ok l' -> Permutation l l'.
Proof. exact (@shuffle_is_permutation Z). Qed.
Print Assumptions C01_shuffle_apply_is_permutation.

(* (c) a shuffle is a permutation of the members, keeps the generator, and its result depends on nothing but the
   member sequence and the generator's outcome (two different worlds / derivations with the same member sequence
   give the same shuffled sequence) *)
Theorem C01_shuffle_is_permutation : forall w d idxs c c',
  eval w d = Ok c -> eval w (TShuffle d idxs) = Ok c' -> Permutation (members c) (members c') /\ gen c' = gen c.
Proof. exact shuffle_members_permutation. Qed.
Print Assumptions C01_shuffle_is_permutation.

Theorem C01_shuffle_function_of_order : forall w w' d d' idxs c c',
  eval w d = Ok c -> eval w' d' = Ok c' -> members c = members c' ->
  members_of (eval w (TShuffle d idxs)) = members_of (eval w' (TShuffle d' idxs)).
Proof. exact shuffle_function_of_order. Qed.
Print Assumptions C01_shuffle_function_of_order.

(* agents are iterated in creation order: after every history the registry's ids are strictly increasing and
   below the next id (no hash order anywhere) *)
Theorem C01_registry_order_is_creation_order : forall srt ops w,
  1 <= w_next w -> reg_ok w -> reg_ok (final srt w ops).
Proof. exact registry_order_is_creation_order. Qed.
Print Assumptions C01_registry_order_is_creation_order.

Theorem C01_registry_ids_increase : forall lo hi l, incr_in lo hi l ->
  forall i j x y, (i < j)%nat -> nth_opt l i = Some x -> nth_opt l j = Some y -> x < y.
Proof. exact incr_in_lt. Qed.
Print Assumptions C01_registry_ids_increase.

(* ---------------------------------------------------------------- non-vacuity *)
Definition ex_world : world :=
  {| w_agents := [ {| a_id := 1; a_cls := 0; a_key := 5 |}; {| a_id := 2; a_cls := 1; a_key := 3 |};
                   {| a_id := 4; a_cls := 0; a_key := 5 |} ];
     w_next := 5; w_sgen := MODEL_GEN;
     w_cells := [(0, [1]); (1, []); (2, [2; 4]); (3, [])]; w_conn := [(0, [1; 2]); (1, [0; 3]); (2, [0; 3]); (3, [1; 2])];
     w_lw := 2; w_lh := 2; w_lgrid := [((0, 1), 2)]; w_cutoff := 13;
     w_xspaces := [ {| xs_legacy := true; xs_keyed := true; xs_single := false; xs_gen := OTHER_GEN; xs_items := [] |};      (* a MultiGrid *)
                    {| xs_legacy := false; xs_keyed := false; xs_single := false; xs_gen := MODEL_GEN; xs_items := [] |} ]  (* an experimental ContinuousSpace *) |}.

Example C01_example_gen :
  seeded_space ex_world /\
  wf_term ex_world (TGroup (TSort (TShuffle (TSelect TAgents 4 (Some 2)) [1; 0]) true) 5) /\
  eval ex_world (TGroup (TSort (TShuffle (TSelect TAgents 4 (Some 2)) [1; 0]) true) 5)
    = Ok {| members := [4; 1]; gen := MODEL_GEN |} /\
  wf_term ex_world TLegacyAgents /\
  wf_cterm (CSelect (CNbhd 0 true) true (Some 1)) /\
  ceval ex_world (CSelect (CNbhd 0 true) true (Some 1)) = Ok {| members := [1]; gen := MODEL_GEN |} /\
  (* the unseeded fall-back evaluates, and is seen *)
  eval ex_world (TSort (TNew TAgents false) false) = Ok {| members := [1; 4; 2]; gen := OTHER_GEN |}.
Proof. vm_compute. repeat split; congruence. Qed.

Example C01_example_history :
  let ops := [Create 1 [7; 8]; Derive (TShuffle (TByType 1) [2; 0; 1]); Reset; Remove 4; Derive TLegacyAgents;
              MoveToEmpty 1 [(1, 1); (0, 0); (1, 0)] 2 []; Derive TLegacyAgents; DeriveC CEmpties] in
  run_wf true ex_world ops /\ reg_ok ex_world /\
  run_ops true ex_world ops =
    [[0; 5; 6]; [0; 6; 2; 5]; [0; 0]; [0; 1; 2; 5; 6]; [0; 2]; [0; 1; 1; 0; 1; 2; 1; 1; 1]; [0; 2; 1]; [0; 1; 3]].
Proof. vm_compute. repeat split; try congruence; try lia. Qed.

Example C01_example_perm :
  Permutation [(1, 1); (0, 0); (1, 0)] [(0, 0); (1, 0); (1, 1)] /\
  choose_empty true ex_world [(1, 1); (0, 0); (1, 0)] 1 [] = Ok (1, 0) /\
  choose_empty true ex_world [(0, 0); (1, 0); (1, 1)] 1 [] = Ok (1, 0).
Proof.
  split; [|vm_compute; split; reflexivity].
  exact (Permutation_cons_append [(0, 0); (1, 0)] (1, 1)).
Qed.

Example C01_example_history_perm :
  Forall2 op_perm [LRemove 2; MoveToEmpty 1 [(1, 1); (0, 0); (1, 0); (0, 1)] 3 []]
                  [LRemove 2; MoveToEmpty 1 [(0, 0); (0, 1); (1, 0); (1, 1)] 3 []] /\
  run_ops true ex_world [LRemove 2; MoveToEmpty 1 [(1, 1); (0, 0); (1, 0); (0, 1)] 3 []] = [[0]; [0; 1; 1; 1; 1; 1]] /\
  gen_spec ex_world (TSelect (TNew TLegacyAgents false) 0 None) = OTHER_GEN.
Proof.
  split; [|vm_compute; split; reflexivity].
  constructor; [apply op_perm_refl|]. constructor; [|constructor]. apply op_perm_mte.
  change [(1, 1); (0, 0); (1, 0); (0, 1)] with ([(1, 1)] ++ [(0, 0); (1, 0); (0, 1)]).
  eapply perm_trans; [apply Permutation_app_comm|]. cbn.
  apply perm_skip. eapply perm_trans; [apply perm_swap|]. apply perm_skip. apply Permutation_refl.
Qed.

Example C01_example_spaces :
  let ops := [Derive (TXAgents 0); XPlace 0 2 3; XPlace 0 1 1; XPlace 0 4 3; Derive (TSort (TXAgents 0) true);
              XCreate 1 7; XCreate 1 0; Derive (TShuffle (TXAgents 1) [1; 0]); XRemove 0 1; Remove 5; Derive (TXAgents 1);
              MoveToEmpty 4 [] 0 []; Derive (TXAgents 7)] in
  run_ops true ex_world ops =
    [[1]; [-2]; [0; 1]; [0; 1; 4]; [0; 1; 4]; [0; 5]; [0; 5; 6]; [0; 6; 5]; [0; 4]; [0; 1; 2; 4; 6]; [0; 6]; [-2]; [-2]] /\
  wf_term (final true ex_world ops) (TXAgents 0) /\ wf_term (final true ex_world ops) (TXAgents 1) /\
  ~ wf_term ex_world (TXAgents 0).
Proof. vm_compute. repeat split; try congruence; try (intros H; apply H; reflexivity). Qed.

(* the cell space of the model is data (cells in creation order, connection lists): the theorems above hold for every
   cell space - orthogonal grids, HexGrid, Network, VoronoiGrid; this is the 5-centroid Voronoi space the driver builds *)
Example C01_example_voronoi :
  let w := {| w_agents := [ {| a_id := 1; a_cls := 0; a_key := 2 |} ]; w_next := 2; w_sgen := MODEL_GEN;
              w_cells := [(0, []); (1, [1]); (2, []); (3, []); (4, [])];
              w_conn := [(0, [4; 1; 2]); (1, [4; 0; 3]); (2, [4; 3; 0]); (3, [4; 1; 2]); (4, [0; 1; 3; 2])];
              w_lw := 1; w_lh := 1; w_lgrid := []; w_cutoff := 7; w_xspaces := [] |} in
  seeded_space w /\ wf_cterm (CSelect (CNbhd 4 true) true None) /\
  ceval w (CSelect (CNbhd 4 true) true None) = Ok {| members := [0; 3; 2; 4]; gen := MODEL_GEN |} /\
  run_ops true w [RandomAgent (CNbhd 0 false) 0; SelectRandomEmpty 3; TryRandomEmpty [1; 4]] = [[0; 1]; [0; 4]; [0; 4]].
Proof. vm_compute. repeat split; congruence. Qed.

Example C01_example_choices :
  let ops := [ShuffleDo (TByType 0) [1; 0]; RandomCell (CNbhd 0 false) 1; RandomAgent CAll 2; SelectRandomEmpty 1;
              TryRandomEmpty [0; 2; 3]; MoveOneOf 2 [(1, 1); (0, 0); (1, 0)] true [2; 0; 1] 1;
              MoveOneOf 2 [(1, 1)] false [] 0] in
  run_wf true ex_world ops /\
  run_ops true ex_world ops =
    [[0; 4; 1]; [0; 2]; [0; 4]; [0; 3]; [0; 3]; [0; 0; 0; 0; 0; 2]; [0; 1; 1; 1; 1; 2]] /\
  one_of_choice (0, 1) [(1, 1); (0, 0); (1, 0)] true [2; 0; 1] 1 = Ok (0, 0).
Proof. vm_compute. repeat split; congruence. Qed.

(* ================================================================ code-level T1 (harness/tables/rng_code.py) *)
(* Every constructor call of a generator-carrying class (AgentSet, CellCollection, Cell / cell_klass, DiscreteSpace
   subclasses incl. super().__init__, the experimental ContinuousSpace) or of GroupBy anywhere in the mesa package
   (library and bundled examples), as re-read from the working tree: none omits the generator, none passes anything but
   self.random / model.random / its own `random` parameter / the documented legacy first-agent fall-back *)
Theorem C01_all_sites_propagate : all_sites_propagate gen_rng_sites = true.
Proof. vm_compute. reflexivity. Qed.
Print Assumptions C01_all_sites_propagate.

(* the fall-back kind occurs only in the three legacy `.agents` properties (exactly what wf_term excludes when the space
   is empty); space constructors hand their own generator to their cells and to super().__init__ *)
Theorem C01_only_legacy_fallbacks : only_legacy_fallbacks gen_rng_sites = true /\ space_ctor_ok gen_rng_sites = true.
Proof. vm_compute. split; reflexivity. Qed.
Print Assumptions C01_only_legacy_fallbacks.

(* at every site Model/Rng.v transcribes, the source passes exactly the kind of generator the model assumes *)
Theorem C01_sites_match_model : sites_match_model gen_rng_sites = true.
Proof. vm_compute. reflexivity. Qed.
Print Assumptions C01_sites_match_model.

(* headline theorem restated over the source: the generator computed from the `random=` expressions READ FROM THE SOURCE
   (gen_src) is the generator of every derivation that evaluates, and it is model.random for every well-formed
   derivation of a model whose space was built with model.random *)
Theorem C01_gen_of_source : forall w d c, eval w d = Ok c -> gen c = gen_src w d.
Proof. exact (gen_of_source C01_sites_match_model). Qed.
Print Assumptions C01_gen_of_source.

Theorem C01_cell_gen_of_source : forall w d c, ceval w d = Ok c -> gen c = cgen_src w d.
Proof. exact (cgen_of_source C01_sites_match_model). Qed.
Print Assumptions C01_cell_gen_of_source.

Theorem C01_gen_propagates_of_source : forall w d c,
  seeded_space w -> wf_term w d -> eval w d = Ok c -> gen_src w d = MODEL_GEN.
Proof. exact (gen_src_propagates C01_sites_match_model). Qed.
Print Assumptions C01_gen_propagates_of_source.

(* Model.__init__ / reset_randomizer / reset_rng, translated statement by statement from mesa/model.py, ARE the
   functions of Model/Seed.v *)
Theorem C01_source_model_init_is_model : forall seed rng std_ok np_ok dn ds cur,
  gen_model_init seed rng std_ok np_ok dn ds cur = option_map lift_init (m_model_init seed rng std_ok np_ok dn ds).
Proof. exact model_init_bridge. Qed.
Print Assumptions C01_source_model_init_is_model.

Theorem C01_source_reset_randomizer_is_model : forall seed cur rng std_ok np_ok dn ds,
  gen_reset_randomizer seed cur rng std_ok np_ok dn ds =
  let r := m_reset_randomizer seed cur in
  Some (if r_in_place r then @None (option Z) else Some (r_reseed r),
        if r_in_place r then Some (r_reseed r) else @None (option Z),
        @None (option Z), Some (r_seed r)).
Proof. exact reset_randomizer_bridge. Qed.
Print Assumptions C01_source_reset_randomizer_is_model.

Theorem C01_source_reset_rng_is_model : forall rng seed cur std_ok np_ok dn ds,
  gen_reset_rng rng seed cur std_ok np_ok dn ds =
  Some (@None (option Z), @None (option Z), Some (m_reset_rng rng), @None (option Z)).
Proof. exact reset_rng_bridge. Qed.
Print Assumptions C01_source_reset_rng_is_model.

(* the boundary: seed= and rng= both given is rejected (ValueError) before any generator is created, and that is the
   only rejected combination *)
Theorem C01_both_given_rejected_of_source : forall seed rng std_ok np_ok dn ds cur,
  gen_model_init seed rng std_ok np_ok dn ds cur = None <-> (seed <> None /\ rng <> None).
Proof. exact both_given_rejected_of_source. Qed.
Print Assumptions C01_both_given_rejected_of_source.

(* Agent.random / Agent.rng read model.random / model.rng at every access (properties, nothing cached in __init__): the
   agents of a model always draw from the model's CURRENT generators, also after reset_rng re-bound model.rng *)
Theorem C01_agent_generators_are_models_of_source :
  gen_agent_random_is_models = true /\ gen_agent_rng_is_models = true.
Proof. vm_compute. split; reflexivity. Qed.
Print Assumptions C01_agent_generators_are_models_of_source.

Theorem C01_source_init_skeleton : gen_model_init_skeleton_ok = true.
Proof. vm_compute. reflexivity. Qed.
Print Assumptions C01_source_init_skeleton.

(* "re-seeding a model's generators with the seed they started from replays the same random stream", about the
   translated source: on every non-raising path of Model.__init__ (seed=, rng= accepted by random.Random, rng= that
   needs the numpy fall-back) the recorded _seed IS what model.random was seeded with, and reset_randomizer() hands
   exactly that value to self.random.seed - in place, never re-binding self.random (which is what lets the Reset
   operation of Model/Rng.v leave every collection's generator untouched: C01_reset_keeps_collections) *)
Theorem C01_reset_replays_of_source : forall seed rng std_ok np_ok dn ds cur0 ra rs rg sr,
  gen_model_init seed rng std_ok np_ok dn ds cur0 = Some (ra, rs, rg, sr) ->
  exists r s, ra = Some r /\ sr = Some s /\ s = r /\ rs = None /\
    forall rng' std' np' dn' ds',
      gen_reset_randomizer None s rng' std' np' dn' ds' = Some (None, Some r, None, Some s).
Proof. exact reset_replays_of_source. Qed.
Print Assumptions C01_reset_replays_of_source.

Theorem C01_reset_in_place_of_source : forall seed cur rng std_ok np_ok dn ds,
  exists x s, gen_reset_randomizer seed cur rng std_ok np_ok dn ds = Some (None, Some x, None, Some s) /\ s = x.
Proof. exact reset_in_place_of_source. Qed.
Print Assumptions C01_reset_in_place_of_source.

Example C01_example_seeds :
  gen_model_init None (Some 42) true true 7 8 None = Some (Some (Some 42), None, Some (Some 42), Some (Some 42)) /\
  gen_model_init None (Some 42) false true 7 8 None = Some (Some (Some 7), None, Some (Some 42), Some (Some 7)) /\
  gen_model_init (Some 5) None true false 7 8 None = Some (Some (Some 5), None, Some (Some 8), Some (Some 5)) /\
  gen_model_init (Some 5) (Some 6) true true 7 8 None = None /\
  gen_reset_randomizer None (Some 42) None true true 0 0 = Some (None, Some (Some 42), None, Some (Some 42)) /\
  (length gen_rng_sites >= 30)%nat /\ src_kind SCreateAgents = KModelRandom /\ src_kind SLegacyAgents = KFirstAgentOrNone.
Proof. vm_compute. repeat split; try congruence; try lia. Qed.

(* T1 table: nowhere in mesa/ are the elements of a set / dict-view difference consumed in iteration order (for,
   comprehension, list(), random choice ...) without sorted(): such an order depends on memory addresses, i.e. on what ran
   earlier in the process *)
Theorem C01_no_unordered_iteration_sites : gen_unordered_iteration_sites = [].
Proof. vm_compute. reflexivity. Qed.
Print Assumptions C01_no_unordered_iteration_sites.

(* ---------------------------------------------------------------- T1 table: nothing in mesa/ (library and bundled
   examples) touches a process-global generator.  LAST in this file on purpose: when the scan finds a site this
   statement stops checking and the run reports the tie as broken (the oracle then supplies the failing model). *)
Theorem C01_no_global_generator_sites : gen_global_rng_sites = [].
Proof. vm_compute. reflexivity. Qed.
Print Assumptions C01_no_global_generator_sites.
