(* C03 - AgentSet behaves as an ordered set and its queries match list semantics.
   ONLY statements closed by `exact`, with Print Assumptions beneath each, and one Example of
   non-vacuity per theorem.  All statements are about Model/AgentSet.v `step` - the function
   `run_case` folds over a history - for ALL tables, pools, member lists, user functions of the
   DSLs and histories. *)
From Coq Require Import ZArith List Bool Lia Permutation Sorted.
From Mesa Require Import Common.ListX Generated.Tables Model.AgentSet Proofs.AgentSetProofs Proofs.AgentSetBridge.
Import ListNotations.
Open Scope Z_scope.

(* ------------------------------------------------------------------ select *)
(* The counting generator with `break` returns the first `limit` members that pass the filter and
   the type test, in order; limit (int k) = k, limit inf = no limit, limit (float k/2^j) =
   floor(|s| * k / 2^j) of the ORIGINAL size. *)
Theorem C03_select_spec : forall t p am ty m r,
  select_members t p am ty m = Some r ->
  r = take_lim (limit am (zlen m)) (filter (keepb t p ty) m).
Proof. exact select_spec. Qed.
Print Assumptions C03_select_spec.

(* select fails only when the filter raises on a member, and never otherwise *)
Theorem C03_select_total : forall t p am ty m,
  (forall a, In a m -> keep t p ty a <> None) -> exists r, select_members t p am ty m = Some r.
Proof. exact select_total. Qed.
Print Assumptions C03_select_total.

Theorem C03_select_error_only_if_filter_raises : forall t p am ty m,
  select_members t p am ty m = None -> exists a, In a m /\ keep t p ty a = None.
Proof. exact select_none. Qed.
Print Assumptions C03_select_error_only_if_filter_raises.

(* exactly when: the generator REACHES, before its count hits the limit, a member on which the
   filter raises (a raising member behind the break is never looked at) *)
Theorem C03_select_error_iff : forall t p am ty m,
  select_members t p am ty m = None <->
  is_fast p am ty = false /\
  exists pre a post, m = pre ++ a :: post /\ keep t p ty a = None /\
    (forall b, In b pre -> keep t p ty b <> None) /\
    reached (limit am (zlen m)) (zlen (filter (keepb t p ty) pre)) = false.
Proof. exact select_none_iff. Qed.
Print Assumptions C03_select_error_iff.

(* how many: at_most is an upper limit (an int is a count), reached whenever enough members match;
   a limit at least as large as the number of matches keeps every match *)
Theorem C03_select_count : forall t p am ty m r,
  select_members t p am ty m = Some r ->
  let matches := zlen (filter (keepb t p ty) m) in
  match limit am (zlen m) with
  | None => zlen r = matches
  | Some n => zlen r = Z.min (Z.max 0 n) matches
  end.
Proof. exact select_count. Qed.
Print Assumptions C03_select_count.

Theorem C03_select_all_when_limit_large : forall t p am ty m r,
  select_members t p am ty m = Some r ->
  match limit am (zlen m) with None => True | Some n => zlen (filter (keepb t p ty) m) <= n end ->
  r = filter (keepb t p ty) m.
Proof. exact select_all_when_limit_large. Qed.
Print Assumptions C03_select_all_when_limit_large.

(* two unlimited selects in a row = one select with the conjunction of the filters *)
Theorem C03_select_twice : forall t p q m r1 r2,
  select_members t (Some p) AInf None m = Some r1 ->
  select_members t (Some q) AInf None r1 = Some r2 ->
  r2 = filter (fun a => keepb t (Some p) None a && keepb t (Some q) None a) m.
Proof. exact select_twice. Qed.
Print Assumptions C03_select_twice.

(* a float fraction is rounded DOWN and never exceeds the set *)
Theorem C03_select_fraction_floor : forall len k j,
  0 <= j -> 0 <= len -> 0 <= k <= 2 ^ j ->
  exists n, limit (AFrac k j) len = Some n /\ 0 <= n <= len /\
            n * 2 ^ j <= len * k < (n + 1) * 2 ^ j.
Proof. exact limit_frac_floor. Qed.
Print Assumptions C03_select_fraction_floor.

Example C03_select_example :
  let t := [(1, {| a_cls := 1; a_attrs := [(0, 5)] |}); (2, {| a_cls := 0; a_attrs := [(0, 1)] |});
            (3, {| a_cls := 2; a_attrs := [(0, 2)] |}); (4, {| a_cls := 1; a_attrs := [(0, 0)] |});
            (5, {| a_cls := 3; a_attrs := [] |})] in
  (* at_most = 0.5 of 4 agents, filter a0 <= 2, type B (C is a subclass): 3 and 4 pass, 2 is an A *)
  select_members t (Some (PAttrLe 0 2)) (AFrac 1 1) (Some 1) [1; 2; 3; 4] = Some [3; 4] /\
  (* the filter raises on agent 5 (no a0) ... *)
  select_members t (Some (PAttrLe 0 2)) AInf None [1; 2; 5] = None /\
  (* ... unless the break comes first *)
  select_members t (Some (PAttrLe 0 2)) (AInt 1) None [1; 2; 5] = Some [2] /\
  limit (AFrac 3 2) 5 = Some 3 /\
  (* two selects in a row *)
  select_members t (Some (PAttrLe 0 2)) AInf None [1; 2; 3; 4] = Some [2; 3; 4] /\
  select_members t (Some (PIdMod 2 0)) AInf None [2; 3; 4] = Some [2; 4].
Proof. vm_compute. repeat split. Qed.

(* ------------------------------------------------------------------ sort *)
(* sort returns a permutation, sorted by key in the requested direction (descending unless
   ascending), STABLE in both directions: the members with any given key keep their order. *)
Theorem C03_sort_spec : forall t k asc m r,
  sort_members t k asc m = Some r ->
  let kf := key_or0 t k in
  Permutation m r /\ key_sorted asc kf r /\
  (forall v, filter (fun a => kf a =? v) r = filter (fun a => kf a =? v) m).
Proof. exact sort_spec. Qed.
Print Assumptions C03_sort_spec.

(* ... and it is the only such list: any list sorted in that direction in which the members of
   each key appear as in the original IS the result (so the model's insertion sort and any other
   stable sort, e.g. CPython's, cannot differ). *)
Theorem C03_sort_unique : forall t k asc m r l',
  sort_members t k asc m = Some r ->
  let kf := key_or0 t k in
  key_sorted asc kf l' ->
  (forall v, filter (fun a => kf a =? v) l' = filter (fun a => kf a =? v) m) ->
  l' = r.
Proof. exact sort_unique. Qed.
Print Assumptions C03_sort_unique.

(* sorting an already sorted set again by the same key and direction changes nothing *)
Theorem C03_sort_idempotent : forall t k asc m r,
  sort_members t k asc m = Some r -> sort_members t k asc r = Some r.
Proof. exact sort_idempotent. Qed.
Print Assumptions C03_sort_idempotent.

(* derived sets: selecting (no limit) from the sorted set = sorting the selected set *)
Theorem C03_select_sort_commute : forall t k asc p ty m r1 r2 r3 r4,
  sort_members t k asc m = Some r1 -> select_members t p AInf ty r1 = Some r2 ->
  select_members t p AInf ty m = Some r3 -> sort_members t k asc r3 = Some r4 ->
  r2 = r4.
Proof. exact select_sort_commute. Qed.
Print Assumptions C03_select_sort_commute.

(* when no two members share a key, sort depends only on who is in the set, not on the order they
   are in (sorting after any shuffle gives the same list); with ties the order matters only
   through the stable order of the tied members (C03_sort_spec) *)
Theorem C03_sort_order_independent_without_ties : forall t k asc m m' r r',
  NoDup (map (key_or0 t k) m) -> Permutation m m' ->
  sort_members t k asc m = Some r -> sort_members t k asc m' = Some r' -> r' = r.
Proof. exact sort_order_independent. Qed.
Print Assumptions C03_sort_order_independent_without_ties.

Theorem C03_sort_error_iff_key_raises : forall t k asc m,
  sort_members t k asc m = None <-> exists a, In a m /\ eval_key t k a = None.
Proof. exact sort_none. Qed.
Print Assumptions C03_sort_error_iff_key_raises.

Example C03_sort_example :
  let t := [(1, {| a_cls := 0; a_attrs := [(0, 1)] |}); (2, {| a_cls := 0; a_attrs := [(0, 0)] |});
            (3, {| a_cls := 0; a_attrs := [(0, 1)] |}); (4, {| a_cls := 0; a_attrs := [(0, 0)] |});
            (5, {| a_cls := 0; a_attrs := [(1, 1)] |})] in
  sort_members t (KAttr 0) false [1; 2; 3; 4] = Some [1; 3; 2; 4] /\   (* descending, ties in order *)
  sort_members t (KAttr 0) true [1; 2; 3; 4] = Some [2; 4; 1; 3] /\    (* ascending, ties in order *)
  sort_members t (KAttr 0) true [1; 5] = None /\
  sort_members t (KAttr 0) false [1; 3; 2; 4] = Some [1; 3; 2; 4] /\    (* sorted again: unchanged *)
  (* select after sort = sort after select *)
  select_members t (Some (PIdMod 2 0)) AInf None [1; 3; 2; 4] = Some [2; 4] /\
  select_members t (Some (PIdMod 2 0)) AInf None [1; 2; 3; 4] = Some [2; 4] /\
  sort_members t (KAttr 0) false [2; 4] = Some [2; 4] /\
  (* distinct keys: any order of the same members sorts to the same list; tied keys: not *)
  sort_members t KId true [3; 1; 4; 2] = Some [1; 2; 3; 4] /\ sort_members t KId true [2; 4; 1; 3] = Some [1; 2; 3; 4] /\
  sort_members t (KAttr 0) true [3; 1; 4; 2] = Some [4; 2; 3; 1].
Proof. vm_compute. repeat split. Qed.

(* ------------------------------------------------------------------ shuffle *)
(* whatever outcome the generator produced, if the model accepts it, it is a permutation of the
   members: nobody lost, nobody duplicated *)
Theorem C03_shuffle_perm : forall outcome m,
  perm_check outcome m = true -> NoDup m ->
  Permutation m outcome /\ NoDup outcome /\ length outcome = length m /\
  (forall a, In a outcome <-> In a m).
Proof. exact shuffle_legal. Qed.
Print Assumptions C03_shuffle_perm.

(* ... and the model accepts exactly the permutations: no legal outcome is ever rejected *)
Theorem C03_shuffle_legal_iff_permutation : forall outcome m,
  perm_check outcome m = true <-> Permutation m outcome.
Proof. exact perm_check_iff. Qed.
Print Assumptions C03_shuffle_legal_iff_permutation.

Example C03_shuffle_example :
  perm_check [3; 1; 2] [1; 2; 3] = true /\ perm_check [3; 1; 1] [1; 2; 3] = false /\
  perm_check [3; 1] [1; 2; 3] = false /\ NoDup [1; 2; 3].
Proof. vm_compute. repeat split; repeat constructor; simpl; intuition discriminate. Qed.

(* ------------------------------------------------------------------ groupby *)
(* group keys are the distinct key values in first-seen order; each group is exactly the members
   with that key, in order, and is never empty; a key has a group iff some member has it; the
   groups together are a permutation of the members (a partition). *)
Theorem C03_groupby_partition : forall kf l,
  let g := groupby_members kf l in
  map fst g = dedup_first Z.eqb (map kf l) /\
  NoDup (map fst g) /\
  (forall k mem, In (k, mem) g -> mem = filter (fun a => kf a =? k) l /\ mem <> []) /\
  (forall k, assoc k g = None <-> ~ In k (map kf l)) /\
  Permutation (concat (map snd g)) l.
Proof. exact groupby_spec. Qed.
Print Assumptions C03_groupby_partition.

(* what the GroupBy op of a history returns is that partition (or AttributeError when the key
   raises on a member), and it changes nothing *)
Theorem C03_groupby_step : forall st s k rt m,
  members st s = Some m ->
  step st (GroupBy s k rt) =
  match all_some (eval_key (st_tbl st) k) m with
  | Some _ => let g := groupby_members (key_or0 (st_tbl st) k) m in
              (st, ROk (b2z rt :: zlen g :: flat_map (fun e => fst e :: zlen (snd e) :: snd e) g))
  | None => (st, RErr E_ATTR)
  end.
Proof. exact step_groupby. Qed.
Print Assumptions C03_groupby_step.

(* groupby(k).groups[kv] stored as a new set: the filter, or KeyError and nothing changes *)
Theorem C03_groupby_group_is_filter : forall st s k kv d m ks,
  members st s = Some m -> valid_slot d = true ->
  all_some (eval_key (st_tbl st) k) m = Some ks ->
  let kf := key_or0 (st_tbl st) k in
  (In kv (map kf m) ->
     step st (GroupGet s k kv d) = (store st d (filter (fun a => kf a =? kv) m), ROk [])) /\
  (~ In kv (map kf m) -> step st (GroupGet s k kv d) = (st, RErr E_KEY)).
Proof. exact step_groupget. Qed.
Print Assumptions C03_groupby_group_is_filter.

(* GroupBy.count / agg / do over the groups.  agg can never raise ValueError (no group is empty),
   raises AttributeError only when a member lacks the attribute, else gives one value per group in
   group order; do("set", name, v) over the groups is s.set(name, v) on the set. *)
Theorem C03_groupby_count : forall st s k m ks,
  members st s = Some m -> all_some (eval_key (st_tbl st) k) m = Some ks ->
  let kf := key_or0 (st_tbl st) k in
  step st (GroupCount s k) =
  (st, ROk (zlen (groupby_members kf m) ::
            flat_map (fun e => [fst e; zlen (snd e)]) (groupby_members kf m))).
Proof. exact step_group_count. Qed.
Print Assumptions C03_groupby_count.

Theorem C03_groupby_agg : forall st s k n f m ks,
  members st s = Some m -> all_some (eval_key (st_tbl st) k) m = Some ks ->
  let g := groupby_members (key_or0 (st_tbl st) k) m in
  snd (step st (GroupAgg s k n f)) <> RErr E_VALUE /\
  (snd (step st (GroupAgg s k n f)) = RErr E_ATTR ->
     exists a, In a m /\ attr_of (st_tbl st) a n = None) /\
  ((forall a, In a m -> attr_of (st_tbl st) a n <> None) ->
     step st (GroupAgg s k n f) =
     (st, ROk (flat_map (fun e => [fst e; agg_val (st_tbl st) n f (snd e)]) g))).
Proof. exact step_group_agg. Qed.
Print Assumptions C03_groupby_agg.

Theorem C03_groupby_do_set_is_set : forall st s k n v m ks,
  members st s = Some m -> all_some (eval_key (st_tbl st) k) m = Some ks ->
  step st (GroupDoSet s k n v) = step st (SetAttr s n v).
Proof. exact step_group_do_set. Qed.
Print Assumptions C03_groupby_do_set_is_set.

Example C03_groupby_methods_example :
  let st := {| st_tbl := [(1, {| a_cls := 0; a_attrs := [(0, 4); (1, 7)] |});
                          (2, {| a_cls := 1; a_attrs := [(0, -2)] |});
                          (3, {| a_cls := 2; a_attrs := [(1, 1); (0, 4)] |})];
               st_pool := [(0, [3; 1; 2])] |} in
  all_some (eval_key (st_tbl st) (KAttr 0)) [3; 1; 2] = Some [4; 4; -2] /\
  snd (step st (GroupCount 0 (KAttr 0))) = ROk [2; 4; 2; -2; 1] /\
  snd (step st (GroupAgg 0 (KAttr 0) 0 FMin)) = ROk [4; 4; -2; -2] /\
  snd (step st (GroupAgg 0 (KAttr 0) 1 FMax)) = RErr E_ATTR /\
  snd (step st (GroupAgg 0 KCls 1 FSum)) = RErr E_ATTR /\
  attr_of (st_tbl (fst (step st (GroupDoSet 0 (KAttr 0) 1 5)))) 2 1 = Some 5.
Proof. vm_compute. repeat split. Qed.

Example C03_groupby_example :
  groupby_members (fun a => a mod 3) [4; 2; 7; 3; 5; 1] = [(1, [4; 7; 1]); (2, [2; 5]); (0, [3])].
Proof. vm_compute. reflexivity. Qed.

(* ------------------------------------------------------------------ get / set / agg / map *)
(* a comprehension over the members that may raise: the values are the map, an exception arises
   exactly when the function raises on some member *)
Theorem C03_comprehension_is_map : forall (f : id -> option Z) l,
  (forall r, all_some f l = Some r -> map f l = map Some r /\ length r = length l) /\
  (all_some f l = None <-> exists a, In a l /\ f a = None).
Proof. exact comprehension_is_map. Qed.
Print Assumptions C03_comprehension_is_map.

Theorem C03_get_is_map : forall st s (names : list Z) (single : bool) mode dflt m,
  members st s = Some m -> mode = 0 \/ mode = 1 ->
  let names' := if single then firstn 1 names else names in
  step st (Get s names single mode dflt) =
  match all_some (get_row (st_tbl st) names' mode dflt) m with
  | Some rows => (st, ROk (zlen rows :: concat rows))
  | None => (st, RErr E_ATTR)
  end.
Proof. exact step_get. Qed.
Print Assumptions C03_get_is_map.

(* handle_missing="default" never fails: every missing attribute reads as the default *)
Theorem C03_get_default_total : forall t names dflt m,
  all_some (get_row t names 1 dflt) m =
  Some (map (fun a => map (fun n => match attr_of t a n with Some v => v | None => dflt end) names) m).
Proof. exact get_default_total. Qed.
Print Assumptions C03_get_default_total.

(* handle_missing="error": a row is the list of attribute values, or AttributeError *)
Theorem C03_get_error_row : forall t names dflt a,
  get_row t names 0 dflt a = all_some (attr_of t a) names.
Proof. exact get_row_error. Qed.
Print Assumptions C03_get_error_row.

Theorem C03_map_is_map : forall st s f m,
  members st s = Some m ->
  step st (Map s f) =
  match all_some (eval_mapf (st_tbl st) f) m with
  | Some vals => (st, ROk (zlen vals :: vals))
  | None => (st, RErr E_ATTR)
  end.
Proof. exact step_map. Qed.
Print Assumptions C03_map_is_map.

(* set: members (that exist) get the value, every other attribute of every agent, every class and
   every set of the pool stay as they were *)
Theorem C03_set_spec : forall st s n v m,
  members st s = Some m ->
  let st' := fst (step st (SetAttr s n v)) in
  snd (step st (SetAttr s n v)) = ROk [1] /\
  st_pool st' = st_pool st /\
  map fst (st_tbl st') = map fst (st_tbl st) /\
  (forall a, cls_of (st_tbl st') a = cls_of (st_tbl st) a) /\
  (forall a n', attr_of (st_tbl st') a n' =
     match assoc a (st_tbl st) with
     | None => None
     | Some _ => if memb Z.eqb a m && (n' =? n) then Some v else attr_of (st_tbl st) a n'
     end).
Proof. exact set_spec. Qed.
Print Assumptions C03_set_spec.

(* agg: func applied to the list of values: sum, len, and min/max = a least/greatest element of the
   values (ValueError on the empty list); AttributeError when a member lacks the attribute *)
Theorem C03_agg_spec : forall st s n m vals,
  members st s = Some m -> all_some (fun a => attr_of (st_tbl st) a n) m = Some vals ->
  step st (Agg s n FSum) = (st, ROk [fold_right Z.add 0 vals]) /\
  step st (Agg s n FLen) = (st, ROk [zlen m]) /\
  (vals = [] -> step st (Agg s n FMin) = (st, RErr E_VALUE) /\ step st (Agg s n FMax) = (st, RErr E_VALUE)) /\
  (vals <> [] -> exists lo hi,
     step st (Agg s n FMin) = (st, ROk [lo]) /\ step st (Agg s n FMax) = (st, ROk [hi]) /\
     In lo vals /\ In hi vals /\ Forall (fun y => lo <= y <= hi) vals).
Proof. exact agg_spec. Qed.
Print Assumptions C03_agg_spec.

Theorem C03_agg_missing : forall st s n f m,
  members st s = Some m -> (exists a, In a m /\ attr_of (st_tbl st) a n = None) ->
  step st (Agg s n f) = (st, RErr E_ATTR).
Proof. exact agg_missing. Qed.
Print Assumptions C03_agg_missing.

Definition ex_state : state :=
  {| st_tbl := [(1, {| a_cls := 0; a_attrs := [(0, 4); (1, 7)] |});
                (2, {| a_cls := 1; a_attrs := [(0, -2)] |});
                (3, {| a_cls := 2; a_attrs := [(1, 1); (0, 4)] |});
                (4, {| a_cls := 3; a_attrs := [(0, 0)] |})];
     st_pool := [(0, [3; 1; 2]); (2, [4; 1])] |}.

Example C03_get_set_agg_map_example :
  members ex_state 0 = Some [3; 1; 2] /\
  snd (step ex_state (Get 0 [0; 1] false 1 9)) = ROk [3; 4; 1; 4; 7; -2; 9] /\
  snd (step ex_state (Get 0 [0; 1] false 0 9)) = RErr E_ATTR /\
  snd (step ex_state (Get 0 [0; 1] true 0 9)) = ROk [3; 4; 4; -2] /\
  snd (step ex_state (Map 0 (MMeth 10))) = ROk [3; 14; 14; 8] /\
  snd (step ex_state (Agg 0 0 FMin)) = ROk [-2] /\ snd (step ex_state (Agg 0 0 FSum)) = ROk [6] /\
  snd (step ex_state (Agg 0 1 FMax)) = RErr E_ATTR /\
  attr_of (st_tbl (fst (step ex_state (SetAttr 0 1 5)))) 2 1 = Some 5 /\
  attr_of (st_tbl (fst (step ex_state (SetAttr 0 1 5)))) 4 1 = None.
Proof. vm_compute. repeat split. Qed.

(* ------------------------------------------------------------------ ordered-set laws *)
(* adding a present agent / discarding an absent one changes NOTHING (the very same state),
   removing an absent one fails with KeyError and changes nothing, adding an absent one appends,
   discarding/removing a present one deletes exactly it (order of the others kept);
   `in` is membership of the iteration list. *)
Theorem C03_ordered_set_laws : forall st s a m ag,
  members st s = Some m -> assoc a (st_tbl st) = Some ag ->
  (In a m -> step st (Add s a) = (st, ROk [])) /\
  (~ In a m -> step st (Add s a) = (store st s (m ++ [a]), ROk [])) /\
  (~ In a m -> step st (Discard s a) = (st, ROk [])) /\
  (In a m -> step st (Discard s a) = (store st s (remove_key Z.eqb a m), ROk [])) /\
  (~ In a m -> step st (Remove s a) = (st, RErr E_KEY)) /\
  (In a m -> step st (Remove s a) = (store st s (remove_key Z.eqb a m), ROk [])) /\
  (forall y, In y (remove_key Z.eqb a m) <-> In y m /\ y <> a) /\
  (exists b, step st (Contains s a) = (st, ROk [b2z b]) /\ (b = true <-> In a m)).
Proof. exact ordered_set_laws. Qed.
Print Assumptions C03_ordered_set_laws.

(* len = length of the iteration list, s[i] = its i-th element (negative i from the end,
   IndexError outside), s[lo:hi] = the list slice, iteration = the members *)
Theorem C03_sequence_laws : forall st s m,
  members st s = Some m ->
  step st (Len s) = (st, ROk [zlen m]) /\
  step st (Iter s) = (st, ROk m) /\
  (forall i, 0 <= i < zlen m -> step st (Index s i) = (st, ROk [nth (Z.to_nat i) m 0])) /\
  (forall i, - zlen m <= i < 0 -> step st (Index s i) = (st, ROk [nth (Z.to_nat (zlen m + i)) m 0])) /\
  (forall i, i < - zlen m \/ zlen m <= i -> step st (Index s i) = (st, RErr E_INDEX)) /\
  (forall lo hi, step st (Slice s lo hi) = (st, ROk (zlen (slice m lo hi) :: slice m lo hi))) /\
  slice m None None = m /\
  (forall lo hi, 0 <= lo <= hi -> hi <= zlen m ->
     slice m (Some lo) (Some hi) = firstn (Z.to_nat (hi - lo)) (skipn (Z.to_nat lo) m)).
Proof. exact sequence_laws. Qed.
Print Assumptions C03_sequence_laws.

(* the methods AgentSet inherits from collections.abc.MutableSet / Sequence (they run on the
   methods above): pop takes the FIRST member (KeyError on an empty set), clear empties,
   reversed is the reversed list, index is the position of the agent (ValueError when absent),
   count is 0 or 1 *)
Theorem C03_inherited_methods : forall st s m,
  members st s = Some m ->
  (m = [] -> step st (Pop s) = (st, RErr E_KEY)) /\
  (forall x r, m = x :: r -> NoDup m -> step st (Pop s) = (store st s r, ROk [x])) /\
  step st (Clear s) = (store st s [], ROk []) /\
  step st (Reversed s) = (st, ROk (rev m)) /\
  (forall a ag, assoc a (st_tbl st) = Some ag ->
    (In a m -> exists j, step st (IndexOf s a) = (st, ROk [j]) /\ 0 <= j < zlen m /\
                        nth (Z.to_nat j) m 0 = a /\ ~ In a (firstn (Z.to_nat j) m)) /\
    (~ In a m -> step st (IndexOf s a) = (st, RErr E_VALUE)) /\
    (NoDup m -> step st (Count s a) = (st, ROk [if memb Z.eqb a m then 1 else 0]))).
Proof. exact inherited_methods. Qed.
Print Assumptions C03_inherited_methods.

Example C03_inherited_methods_example :
  members ex_state 0 = Some [3; 1; 2] /\ NoDup [3; 1; 2] /\
  snd (step ex_state (Pop 0)) = ROk [3] /\ members (fst (step ex_state (Pop 0))) 0 = Some [1; 2] /\
  members (fst (step ex_state (Clear 0))) 0 = Some [] /\
  snd (step (fst (step ex_state (Clear 0))) (Pop 0)) = RErr E_KEY /\
  snd (step ex_state (IndexOf 0 2)) = ROk [2] /\ snd (step ex_state (IndexOf 0 4)) = RErr E_VALUE /\
  snd (step ex_state (Count 0 4)) = ROk [0] /\ snd (step ex_state (Reversed 0)) = ROk [2; 1; 3].
Proof.
  split; [reflexivity|]. split; [repeat constructor; simpl; intuition discriminate|].
  vm_compute. repeat split.
Qed.

(* AgentSet(agents) keeps the first occurrence of each agent *)
Theorem C03_constructor_dedups : forall l,
  NoDup (new_set l) /\ (forall a, In a (new_set l) <-> In a l).
Proof. exact new_set_spec. Qed.
Print Assumptions C03_constructor_dedups.

Example C03_ordered_set_example :
  members ex_state 0 = Some [3; 1; 2] /\ assoc 4 (st_tbl ex_state) <> None /\ ~ In 4 [3; 1; 2] /\
  step ex_state (Add 0 1) = (ex_state, ROk []) /\
  members (fst (step ex_state (Add 0 4))) 0 = Some [3; 1; 2; 4] /\
  step ex_state (Remove 0 4) = (ex_state, RErr E_KEY) /\
  members (fst (step ex_state (Remove 0 1))) 0 = Some [3; 2] /\
  snd (step ex_state (Index 0 (-1))) = ROk [2] /\ snd (step ex_state (Index 0 3)) = RErr E_INDEX /\
  snd (step ex_state (Slice 0 (Some 1) (Some (-1)))) = ROk [1; 1] /\ new_set [3; 1; 3; 2; 1] = [3; 1; 2].
Proof.
  vm_compute. repeat split; try discriminate. intros [H|[H|[H|[]]]]; discriminate.
Qed.

(* ------------------------------------------------------------------ in-place = copy; frames *)
(* For select, sort and shuffle (r), on any state: when the operation succeeds with result x, the
   in-place form leaves slot s = x, the copying form leaves slot d = x and - when d is another
   slot - the original exactly as it was; every other set of the pool and all attributes are
   untouched by both forms; the in-place form returns the set itself, the copying form a new one. *)
Theorem C03_inplace_eq_copy : forall st s r d m x,
  members st s = Some m -> valid_slot d = true -> transform (st_tbl st) r m = TOk x ->
  let st1 := fst (step st (mk_op s r true d)) in
  let st2 := fst (step st (mk_op s r false d)) in
  members st1 s = Some x /\ members st2 d = Some x /\
  (d <> s -> members st2 s = Some m) /\
  (forall i, i <> s -> members st1 i = members st i) /\
  (forall i, i <> d -> members st2 i = members st i) /\
  st_tbl st1 = st_tbl st /\ st_tbl st2 = st_tbl st /\
  snd (step st (mk_op s r true d)) = ROk [1] /\ snd (step st (mk_op s r false d)) = ROk [0].
Proof. exact inplace_eq_copy. Qed.
Print Assumptions C03_inplace_eq_copy.

(* Sequences of operations on the same set: s.op1(inplace=True); s.op2(inplace=True); ... ends
   with the same members as  x = x.op1(); x = x.op2(); ...  on a copy x of s, for EVERY list of
   select/sort/shuffle operations, including the ones that raise on the way; neither run touches
   any other set of its pool, and both leave the attributes alone. *)
Theorem C03_inplace_sequence_eq_copy_sequence : forall rs st1 st2 s d,
  valid_slot d = true -> members st1 s = members st2 d -> st_tbl st1 = st_tbl st2 ->
  members (run_inplace st1 s d rs) s = members (run_copy st2 d rs) d /\
  st_tbl (run_inplace st1 s d rs) = st_tbl (run_copy st2 d rs) /\
  (forall i, i <> s -> members (run_inplace st1 s d rs) i = members st1 i) /\
  (forall i, i <> d -> members (run_copy st2 d rs) i = members st2 i).
Proof. exact inplace_sequence_eq_copy_sequence. Qed.
Print Assumptions C03_inplace_sequence_eq_copy_sequence.

Example C03_inplace_sequence_example :
  let copied := fst (step ex_state (Select 0 None AInf None false 1)) in
  (* sort; a select whose filter raises (agent 2 has no a1); a legal shuffle; half of 3 = 1; an illegal outcome *)
  let rs := [RSort (KAttr 0) true; RSelect (Some (PAttrLe 1 3)) AInf None; RShuffle [1; 2; 3];
             RSelect None (AFrac 1 1) None; RShuffle [2; 1]] in
  valid_slot 1 = true /\ members copied 0 = members copied 1 /\
  members (run_inplace copied 0 1 rs) 0 = Some [1] /\ members (run_copy copied 1 rs) 1 = Some [1] /\
  members (run_copy copied 1 rs) 0 = Some [3; 1; 2].
Proof. vm_compute. repeat split. Qed.

(* Sequences: a history in which no operation targets slot i (copying forms into other slots,
   in-place forms on other sets, any query, set, groupby) leaves set i exactly as it was. *)
Theorem C03_copy_frame : forall ops i st,
  Forall (fun o => target o <> Some i) ops -> members (final st ops) i = members st i.
Proof. exact final_slot_frame. Qed.
Print Assumptions C03_copy_frame.

(* ... and only `set` ever changes an attribute *)
Theorem C03_attribute_frame : forall ops st,
  Forall (fun o => writes_tbl o = false) ops -> st_tbl (final st ops) = st_tbl st.
Proof. exact final_tbl_frame. Qed.
Print Assumptions C03_attribute_frame.

(* a call that raises (or is rejected) leaves the WHOLE state - every set, every attribute -
   exactly as it was: failing filters/keys in in-place select/sort, remove of an absent agent,
   get with a missing attribute, min of nothing, index out of range, unknown group *)
Theorem C03_rejected_call_changes_nothing : forall st o,
  (forall v, snd (step st o) <> ROk v) -> fst (step st o) = st.
Proof. exact step_rejected_frame. Qed.
Print Assumptions C03_rejected_call_changes_nothing.

(* Every set of the pool, after ANY history from ANY initial agent list (duplicates allowed in the
   constructor argument), holds each agent at most once. *)
Theorem C03_members_nodup : forall c s m,
  members (final (init_state c) (c_ops c)) s = Some m -> NoDup m.
Proof. exact case_nodup. Qed.
Print Assumptions C03_members_nodup.

Theorem C03_nodup_invariant : forall ops st, wf st -> wf (final st ops).
Proof. exact final_wf. Qed.
Print Assumptions C03_nodup_invariant.

(* No history invents a member: whoever is in some set afterwards was in some set before or was
   the argument of an `add`. *)
Theorem C03_no_invention : forall ops st a,
  known_in (final st ops) a -> known_in st a \/ Exists (fun o => adds o a) ops.
Proof. exact final_known. Qed.
Print Assumptions C03_no_invention.

(* What the correspondence compares after every operation determines the observable state: two
   states (agent ids positive, as handed out by Mesa) with the same observation have the same
   members in every slot of the pool and the same value for every observed attribute of every
   agent.  So "observations agree" = "every set and every attribute agree". *)
Theorem C03_observation_determines_state : forall st st',
  pos_pool (st_pool st) -> pos_pool (st_pool st') -> length (st_tbl st) = length (st_tbl st') ->
  obs_state st = obs_state st' ->
  (forall s, In s slots -> members st s = members st' s) /\
  Forall2 (fun e e' => forall n, In n attr_names -> assoc n (a_attrs (snd e)) = assoc n (a_attrs (snd e')))
          (st_tbl st) (st_tbl st').
Proof. exact obs_state_inj. Qed.
Print Assumptions C03_observation_determines_state.

Example C03_observation_example :
  pos_pool (st_pool ex_state) /\
  obs_state ex_state = [-7; -5; 3; 1; 2; -4; -5; 4; 1; -4; -4; -4; -6;
                        1; 4; 1; 7; 0; 0;  1; -2; 0; 0; 0; 0;  1; 4; 1; 1; 0; 0;  1; 0; 0; 0; 0; 0].
Proof.
  split; [|vm_compute; reflexivity].
  intros s m. unfold slot_get, ex_state. simpl.
  destruct (s =? 0); [intros H; inversion H; repeat constructor|].
  destruct (s =? 2); [intros H; inversion H; repeat constructor|discriminate].
Qed.

(* the observations run_case produces are those of the step function the theorems talk about *)
Theorem C03_run_is_fold_of_step : forall ops1 ops2 st,
  run_ops st (ops1 ++ ops2) = run_ops st ops1 ++ run_ops (final st ops1) ops2.
Proof. exact run_ops_app. Qed.
Print Assumptions C03_run_is_fold_of_step.

Example C03_frames_example :
  let ops := [Select 0 (Some (PAttrLe 0 3)) AInf None false 1; Sort 1 (KAttr 0) true true 1;
              Shuffle 0 [1; 2; 3] false 3; Remove 1 2; SetAttr 3 1 0; Select 1 (Some (PAttrLe 1 0)) AInf None true 1] in
  Forall (fun o => target o <> Some 0) ops /\ Forall (fun o => target o <> Some 2) ops /\
  members (final ex_state ops) 0 = Some [3; 1; 2] /\ members (final ex_state ops) 2 = Some [4; 1] /\
  members (final ex_state ops) 1 = Some [] /\ members (final ex_state ops) 3 = Some [1; 2; 3] /\
  wf ex_state /\
  transform (st_tbl ex_state) (RSort (KAttr 0) false) [3; 1; 2] = TOk [3; 1; 2] /\
  (forall v, snd (step ex_state (Sort 0 (KAttr 1) false true 0)) <> ROk v).
Proof.
  split; [repeat constructor; simpl; try discriminate; intros H; inversion H; discriminate|].
  split; [repeat constructor; simpl; try discriminate; intros H; inversion H; discriminate|].
  split; [vm_compute; reflexivity|]. split; [vm_compute; reflexivity|].
  split; [vm_compute; reflexivity|]. split; [vm_compute; reflexivity|].
  split.
  - intros s m. unfold members, slot_get, ex_state. simpl.
    destruct (s =? 0); [intros H; inversion H; repeat constructor; simpl; intuition discriminate|].
    destruct (s =? 2); [intros H; inversion H; repeat constructor; simpl; intuition discriminate|discriminate].
  - split; [vm_compute; reflexivity|]. intros v. vm_compute. discriminate.
Qed.

(* ================================================================== round 3: breadth
   ---- set algebra inherited from collections.abc.Set / MutableSet (membership and ORDER as the code
   produces them; the result of the copying forms is built without the generator: that is C01's matter) *)
Theorem C03_setop_step : forall st s1 s2 o inplace d m1 m2,
  members st s1 = Some m1 -> members st s2 = Some m2 -> valid_slot d = true ->
  step st (SetOp s1 s2 o inplace d) =
  (store st (if inplace then s1 else d) (set_binop o inplace m1 m2), ROk [b2z inplace]).
Proof. exact step_setop. Qed.
Print Assumptions C03_setop_step.

(* |, &, -, ^ and |=, &=, -=, ^= are union, intersection, difference, symmetric difference *)
Theorem C03_setop_membership : forall o inplace m1 m2 a,
  NoDup m1 -> NoDup m2 ->
  (In a (set_binop o inplace m1 m2) <->
   match o with
   | SUnion => In a m1 \/ In a m2
   | SInter => In a m1 /\ In a m2
   | SDiff => In a m1 /\ ~ In a m2
   | SXor => (In a m1 /\ ~ In a m2) \/ (~ In a m1 /\ In a m2)
   end).
Proof. exact set_binop_In. Qed.
Print Assumptions C03_setop_membership.

Theorem C03_setop_nodup : forall o inplace m1 m2,
  NoDup m1 -> NoDup m2 -> NoDup (set_binop o inplace m1 m2).
Proof. exact set_binop_NoDup. Qed.
Print Assumptions C03_setop_nodup.

(* order: a | b and a |= b keep a's order and append b's new members in b's order; a ^ b is a's own members
   then b's own; a - b and a & b (in place) keep a's order - but the copying a & b is in B's order
   (`value for value in other if value in self`), by definition of set_binop *)
Theorem C03_setop_union_order : forall m1 m2, NoDup m1 -> NoDup m2 ->
  set_binop SUnion false m1 m2 = m1 ++ filter (notin m1) m2 /\
  set_binop SUnion true m1 m2 = m1 ++ filter (notin m1) m2.
Proof. exact union_order. Qed.
Print Assumptions C03_setop_union_order.

Theorem C03_setop_xor_order : forall m1 m2, NoDup m1 -> NoDup m2 ->
  set_binop SXor false m1 m2 = filter (notin m2) m1 ++ filter (notin m1) m2.
Proof. exact xor_order. Qed.
Print Assumptions C03_setop_xor_order.

(* ==, <=, isdisjoint are the set relations (== ignores the order) *)
Theorem C03_setcmp : forall st s1 s2 c m1 m2,
  members st s1 = Some m1 -> members st s2 = Some m2 ->
  step st (SetCmp s1 s2 c) = (st, ROk [b2z (set_cmp c m1 m2)]).
Proof. exact step_setcmp. Qed.
Print Assumptions C03_setcmp.

Theorem C03_setcmp_spec : forall c m1 m2, NoDup m1 -> NoDup m2 ->
  (set_cmp c m1 m2 = true <->
   match c with
   | CEq => forall a, In a m1 <-> In a m2
   | CLe => incl m1 m2
   | CDisjoint => forall a, In a m1 -> In a m2 -> False
   end).
Proof. exact set_cmp_spec. Qed.
Print Assumptions C03_setcmp_spec.

Example C03_setop_example :
  set_binop SUnion false [3; 1; 2] [4; 1; 5] = [3; 1; 2; 4; 5] /\
  set_binop SInter false [3; 1; 2] [2; 4; 3] = [2; 3] /\ set_binop SInter true [3; 1; 2] [2; 4; 3] = [3; 2] /\
  set_binop SDiff false [3; 1; 2] [2; 4] = [3; 1] /\
  set_binop SXor false [3; 1; 2] [2; 4] = [3; 1; 4] /\ set_binop SXor true [3; 1; 2] [4; 2] = [3; 1; 4] /\
  set_cmp CEq [3; 1; 2] [1; 2; 3] = true /\ set_cmp CLe [3; 1] [1; 2; 3] = true /\ set_cmp CLe [3; 4] [1; 2; 3] = false /\
  set_cmp CDisjoint [3; 1] [2; 4] = true /\ NoDup [3; 1; 2].
Proof. vm_compute. repeat split; repeat constructor; simpl; intuition discriminate. Qed.

(* ---- GroupBy.map / do with method names and callables; result_type "list" vs "agentset" *)
Theorem C03_groupby_map : forall st s k rt gm m ks,
  members st s = Some m -> all_some (eval_key (st_tbl st) k) m = Some ks ->
  let g := groupby_members (key_or0 (st_tbl st) k) m in
  step st (GroupMap s k rt gm) =
  match group_map (st_tbl st) rt gm g with Some r => (st, ROk r) | None => (st, RErr E_ATTR) end.
Proof. exact step_group_map. Qed.
Print Assumptions C03_groupby_map.

(* one entry per group in group order; it fails exactly when the method fails on some group *)
Theorem C03_groupby_map_values : forall t rt gm g,
  (forall r, group_map t rt gm g = Some r ->
     r = flat_map (fun e => fst e :: match gm_apply t rt gm (snd e) with Some vs => vs | None => [] end) g) /\
  (group_map t rt gm g = None <-> exists e, In e g /\ gm_apply t rt gm (snd e) = None).
Proof. exact group_map_values. Qed.
Print Assumptions C03_groupby_map_values.

(* len works on both result types; a method only AgentSet has ("get") on result_type="list" is an
   AttributeError as soon as there is one group *)
Theorem C03_groupby_map_len : forall t rt b g,
  group_map t rt (GMLen b) g = Some (flat_map (fun e => [fst e; zlen (snd e)]) g).
Proof. exact group_map_len. Qed.
Print Assumptions C03_groupby_map_len.

Theorem C03_groupby_map_method_on_lists : forall t n g, g <> [] -> group_map t false (GMGet n) g = None.
Proof. exact group_map_get_on_lists. Qed.
Print Assumptions C03_groupby_map_method_on_lists.

(* do: a callable works on both result types and so does "set" on agentsets: it is s.set(n, v);
   "set" on lists raises before anything is written (unless there is no group at all) *)
Theorem C03_groupby_do : forall st s k rt by_name n v m ks,
  members st s = Some m -> all_some (eval_key (st_tbl st) k) m = Some ks ->
  (by_name = false \/ rt = true \/ m = [] -> step st (GroupDo s k rt by_name n v) = step st (SetAttr s n v)) /\
  (by_name = true -> rt = false -> m <> [] -> step st (GroupDo s k rt by_name n v) = (st, RErr E_ATTR)).
Proof. exact step_group_do. Qed.
Print Assumptions C03_groupby_do.

Example C03_groupby_map_do_example :
  snd (step ex_state (GroupMap 0 (KAttr 0) false (GMLen true))) = ROk [4; 2; -2; 1] /\
  snd (step ex_state (GroupMap 0 (KAttr 0) true (GMGet 0))) = ROk [4; 2; 4; 4; -2; 1; -2] /\
  snd (step ex_state (GroupMap 0 (KAttr 0) false (GMGet 0))) = RErr E_ATTR /\
  snd (step ex_state (GroupMap 0 (KAttr 0) false (GMSumAttr 1))) = RErr E_ATTR /\
  snd (step ex_state (GroupDo 0 (KAttr 0) false true 1 5)) = RErr E_ATTR /\
  attr_of (st_tbl (fst (step ex_state (GroupDo 0 (KAttr 0) false false 1 5)))) 2 1 = Some 5 /\
  snd (step ex_state (GroupBy 0 (KAttr 0) false)) = ROk [0; 2; 4; 2; 3; 1; -2; 1; 2].
Proof. vm_compute. repeat split. Qed.

(* ---- tuple sort keys: key = lambda a: (k1(a), k2(a)) compares lexicographically.  The result is a
   permutation, sorted by the first component in the requested direction, the members sharing a first
   component are sorted by the second, and members with the same pair keep their order (stable) *)
Theorem C03_sort_tuple_keys : forall t k1 k2 asc m r,
  sort2_members t k1 k2 asc m = Some r ->
  let f1 := key_or0 t k1 in let f2 := key_or0 t k2 in
  Permutation m r /\ key_sorted asc f1 r /\
  (forall v, key_sorted asc f2 (filter (fun a => f1 a =? v) r)) /\
  (forall v w, filter (fun a => f2 a =? w) (filter (fun a => f1 a =? v) r) =
               filter (fun a => f2 a =? w) (filter (fun a => f1 a =? v) m)).
Proof. exact sort2_spec. Qed.
Print Assumptions C03_sort_tuple_keys.

Theorem C03_sort_tuple_keys_error_iff : forall t k1 k2 asc m,
  sort2_members t k1 k2 asc m = None <->
  exists a, In a m /\ (eval_key t k1 a = None \/ eval_key t k2 a = None).
Proof. exact sort2_none. Qed.
Print Assumptions C03_sort_tuple_keys_error_iff.

Example C03_sort_tuple_example :
  let t := [(1, {| a_cls := 0; a_attrs := [(0, 1); (1, 5)] |}); (2, {| a_cls := 0; a_attrs := [(0, 0); (1, 7)] |});
            (3, {| a_cls := 0; a_attrs := [(0, 1); (1, 3)] |}); (4, {| a_cls := 0; a_attrs := [(0, 0); (1, 7)] |});
            (5, {| a_cls := 0; a_attrs := [(0, 1)] |})] in
  sort2_members t (KAttr 0) (KAttr 1) true [1; 2; 3; 4] = Some [2; 4; 3; 1] /\
  sort2_members t (KAttr 0) (KAttr 1) false [1; 2; 3; 4] = Some [1; 3; 2; 4] /\
  sort2_members t (KAttr 0) (KAttr 1) true [1; 5] = None.
Proof. vm_compute. repeat split. Qed.

(* ---- string sort keys.  Strings are lists of character codes, Python compares them lexicographically
   (lex_leb).  The model's key for the string NAMES[v mod 10] is its base-128 code enc_str; the code orders
   exactly like the string and is injective, for ALL strings of at most L characters with codes 1..127 - so every
   sort / groupby theorem above, read with a KName key, is a theorem about lexicographic string order. *)
Theorem C03_string_code_is_lexicographic : forall L a b,
  str_ok L a -> str_ok L b -> (lex_leb a b = true <-> enc_str L a <= enc_str L b).
Proof. exact enc_str_lex. Qed.
Print Assumptions C03_string_code_is_lexicographic.

Theorem C03_string_code_injective : forall L a b,
  str_ok L a -> str_ok L b -> enc_str L a = enc_str L b -> a = b.
Proof. exact enc_str_inj. Qed.
Print Assumptions C03_string_code_injective.

Theorem C03_string_keys_order : forall v w,
  let sv := nth (Z.to_nat (v mod 10)) names [] in let sw := nth (Z.to_nat (w mod 10)) names [] in
  (name_key v <= name_key w <-> lex_leb sv sw = true) /\ (name_key v = name_key w <-> sv = sw).
Proof. exact name_key_order. Qed.
Print Assumptions C03_string_keys_order.

Example C03_string_keys_example :
  let t := [(1, {| a_cls := 0; a_attrs := [(0, 4)] |}); (2, {| a_cls := 0; a_attrs := [(0, 2)] |});
            (3, {| a_cls := 0; a_attrs := [(0, 6)] |}); (4, {| a_cls := 0; a_attrs := [(0, 12)] |});
            (5, {| a_cls := 0; a_attrs := [(0, 0)] |}); (6, {| a_cls := 0; a_attrs := [(0, 7)] |})] in
  (* names: 1:"b" 2:"ab" 3:"B" 4:"ab" 5:"" 6:"aa"   ascending: "" < "B" < "aa" < "ab" = "ab" < "b" *)
  sort_members t (KName 0) true [1; 2; 3; 4; 5; 6] = Some [5; 3; 6; 2; 4; 1] /\
  sort_members t (KName 0) false [1; 2; 3; 4; 5; 6] = Some [1; 2; 4; 6; 3; 5] /\
  lex_leb [66] [97; 97] = true /\ lex_leb [97; 98] [97; 97] = false /\ str_ok 3 [97; 98; 99].
Proof.
  split; [vm_compute; reflexivity|]. split; [vm_compute; reflexivity|].
  split; [reflexivity|]. split; [reflexivity|]. split; [simpl; lia|repeat constructor; lia].
Qed.

(* ---- gb.groups[kv]: the group on both result types when a member has the key; when NO member has it, a
   KeyError on "agentset" - but on "list" the GroupBy still holds the defaultdict(list), so the lookup silently
   creates and returns an empty group (documented boundary, outside the statement) *)
Theorem C03_boundary_groups_lookup : forall st s k kv rt m ks,
  members st s = Some m -> all_some (eval_key (st_tbl st) k) m = Some ks ->
  let kf := key_or0 (st_tbl st) k in
  (In kv (map kf m) ->
     step st (GroupLookup s k kv rt) =
     (st, ROk (zlen (filter (fun a => kf a =? kv) m) :: filter (fun a => kf a =? kv) m))) /\
  (~ In kv (map kf m) ->
     step st (GroupLookup s k kv rt) = if rt then (st, RErr E_KEY) else (st, ROk [0])).
Proof. exact step_group_lookup. Qed.
Print Assumptions C03_boundary_groups_lookup.

Example C03_boundary_groups_lookup_example :
  snd (step ex_state (GroupLookup 0 (KAttr 0) 4 false)) = ROk [2; 3; 1] /\
  snd (step ex_state (GroupLookup 0 (KAttr 0) 9 true)) = RErr E_KEY /\
  snd (step ex_state (GroupLookup 0 (KAttr 0) 9 false)) = ROk [0].
Proof. vm_compute. repeat split. Qed.

(* ---- the boundary of the quantifier: what select does with at_most values the statement excludes *)
(* a float above 1.0 is not converted but used as a count: the first ceil(f) matches *)
Theorem C03_boundary_float_above_one : forall len k j,
  0 <= j -> 2 ^ j < k ->
  exists n, limit (AFrac k j) len = Some n /\ (n - 1) * 2 ^ j < k <= n * 2 ^ j /\ 2 <= n.
Proof. exact limit_frac_above_one. Qed.
Print Assumptions C03_boundary_float_above_one.

(* a negative int or float (and 0, 0.0) gives a limit <= 0 ... *)
Theorem C03_boundary_negative_limit : forall am len,
  0 <= len ->
  match am with AInt k => k < 0 | AFrac k j => k < 0 | AInf => False end ->
  exists n, limit am len = Some n /\ n <= 0.
Proof. exact limit_negative. Qed.
Print Assumptions C03_boundary_negative_limit.

(* ... and with a limit <= 0 select returns the empty set without ever calling the filter *)
Theorem C03_boundary_nonpositive_selects_nobody : forall t p am ty m n,
  limit am (zlen m) = Some n -> n <= 0 -> select_members t p am ty m = Some [].
Proof. exact select_nonpositive_limit. Qed.
Print Assumptions C03_boundary_nonpositive_selects_nobody.

Example C03_boundary_example :
  let t := st_tbl ex_state in
  select_members t None (AFrac 5 1) None [3; 1; 2; 4] = Some [3; 1; 2] /\      (* at_most=2.5: three *)
  select_members t None (AFrac 3 1) None [3; 1; 2; 4] = Some [3; 1] /\         (* at_most=1.5: two   *)
  select_members t (Some (PAttrLe 1 0)) (AInt (-1)) None [3; 1; 2] = Some [] /\ (* filter would raise on 2 *)
  select_members t (Some (PAttrLe 1 0)) (AFrac (-1) 1) None [3; 1; 2] = Some [].
Proof. vm_compute. repeat split. Qed.

(* ================================================================== code-level tie (T1)
   The tests, arithmetic and loop of AgentSet.select, the reverse= argument of sort, the in-place/copy
   branches of select / sort / shuffle and the branch structure of get are TRANSLATED from the current
   mesa/agent.py on every run (harness/tables/agentset_code.py -> Generated/Tables.v: gen_select_fast,
   gen_select_limit, gen_select_keep, gen_select_loop, gen_select_count0, gen_sort_reverse, gen_*_inplace,
   gen_get_branch); what cannot be translated (dict / weak-reference statements) is compared verbatim
   (gen_select_skeleton_ok, gen_agentset_glue_ok).  The model functions ARE the translated code ... *)
Theorem C03_source_select_is_model : forall t p am ty m,
  select_members t p am ty m = gen_select_members t p am ty m.
Proof. exact select_bridge. Qed.
Print Assumptions C03_source_select_is_model.

Theorem C03_source_sort_is_model : forall t k asc m,
  sort_members t k asc m = gen_sort_members t k asc m.
Proof. exact sort_bridge. Qed.
Print Assumptions C03_source_sort_is_model.

(* ... so the headline theorems hold of the translated source code itself: select (assembled from the
   translated fast-path test, at_most conversion, counting loop with its break and keep tests) returns the
   first floor-limited matches in order, *)
Theorem C03_select_spec_of_source : forall t p am ty m r,
  gen_select_members t p am ty m = Some r ->
  r = take_lim (limit am (zlen m)) (filter (keepb t p ty) m).
Proof. exact select_spec_of_source. Qed.
Print Assumptions C03_select_spec_of_source.

(* raises exactly when the translated loop reaches a member on which the filter raises, *)
Theorem C03_select_error_of_source : forall t p am ty m,
  (gen_select_members t p am ty m = None <->
   gen_select_fast (is_none p) (is_none ty) (am_inf am) = false /\
   exists pre a post, m = pre ++ a :: post /\ src_keep t p ty a = None /\
     (forall b, In b pre -> src_keep t p ty b <> None) /\
     reached (limit am (zlen m)) (zlen (filter (keepb t p ty) pre)) = false).
Proof. exact select_error_of_source. Qed.
Print Assumptions C03_select_error_of_source.

(* and sort with the translated reverse= argument is THE stable sorted permutation in the requested direction *)
Theorem C03_sort_spec_of_source : forall t k asc m r,
  gen_sort_members t k asc m = Some r ->
  let kf := key_or0 t k in
  Permutation m r /\ key_sorted asc kf r /\
  (forall v, filter (fun a => kf a =? v) r = filter (fun a => kf a =? v) m) /\
  (forall l', key_sorted asc kf l' ->
     (forall v, filter (fun a => kf a =? v) l' = filter (fun a => kf a =? v) m) -> l' = r).
Proof. exact sort_spec_of_source. Qed.
Print Assumptions C03_sort_spec_of_source.

(* the slot a select / sort / shuffle writes and the "returned self" flag follow the translated
   `... if not inplace else self._update(...)` / `if inplace:` branches of the source *)
Theorem C03_source_inplace_branches : forall st s r inplace d m,
  members st s = Some m -> valid_slot d = true ->
  step st (mk_op s r inplace d) =
  match transform (st_tbl st) r m with
  | TOk x => (store st (if src_inplace r inplace then s else d) x, ROk [b2z (src_inplace r inplace)])
  | TErr => (st, RErr E_ATTR)
  | TIllegal => (st, RIllegal)
  end.
Proof. exact step_reorder_of_source. Qed.
Print Assumptions C03_source_inplace_branches.

(* get follows the translated handle_missing / single-name branch structure (tag = 2*uses_default + nested) *)
Theorem C03_source_get_branches : forall st s (names : list Z) (single : bool) mode dflt m,
  members st s = Some m ->
  step st (Get s names single mode dflt) =
  match gen_get_branch mode single with
  | None => (st, RErr E_VALUE)
  | Some tag =>
      let names' := if Z.even tag then firstn 1 names else names in
      match all_some (get_row (st_tbl st) names' (if tag <? 2 then 0 else 1) dflt) m with
      | Some rows => (st, ROk (zlen rows :: concat rows))
      | None => (st, RErr E_ATTR)
      end
  end.
Proof. exact get_of_source. Qed.
Print Assumptions C03_source_get_branches.

(* GroupBy.count and GroupBy.agg are the dict comprehensions of the source, translated (gen_group_count, gen_group_agg) *)
Theorem C03_source_groupby_count : forall st s k m ks,
  members st s = Some m -> all_some (eval_key (st_tbl st) k) m = Some ks ->
  let g := groupby_members (key_or0 (st_tbl st) k) m in
  step st (GroupCount s k) = (st, ROk (zlen g :: pairs_flat (gen_group_count g))).
Proof. exact step_group_count_of_source. Qed.
Print Assumptions C03_source_groupby_count.

Theorem C03_source_groupby_agg : forall st s k n f m ks,
  members st s = Some m -> all_some (eval_key (st_tbl st) k) m = Some ks ->
  (forall a, In a m -> attr_of (st_tbl st) a n <> None) ->
  let g := groupby_members (key_or0 (st_tbl st) k) m in
  step st (GroupAgg s k n f) = (st, ROk (pairs_flat (gen_group_agg (agg_or0 f) (attr_or0 (st_tbl st) n) g))).
Proof. exact step_group_agg_of_source. Qed.
Print Assumptions C03_source_groupby_agg.

Example C03_source_groupby_example :
  gen_group_count [(4, [3; 1]); (-2, [2])] = [(4, 2); (-2, 1)] /\
  gen_group_agg (agg_or0 FMax) (attr_or0 (st_tbl ex_state) 0) [(1, [3; 2]); (0, [1])] = [(1, 4); (0, 4)].
Proof. vm_compute. repeat split. Qed.

(* the signature defaults the driver relies on when it omits an argument, and the verbatim glue *)
Theorem C03_source_defaults : gen_agentset_defaults = (false, [false; false; false], 0, true, true, true).
Proof. exact defaults_bridge. Qed.
Print Assumptions C03_source_defaults.

Theorem C03_source_glue : gen_select_skeleton_ok = true /\ gen_agentset_glue_ok = true.
Proof. exact glue_ok. Qed.
Print Assumptions C03_source_glue.

Example C03_source_example :
  am_wf (AFrac 3 2) /\
  gen_select_members (st_tbl ex_state) (Some (PAttrLe 0 4)) (AFrac 3 2) (Some 0) [3; 1; 2; 4] = Some [3; 1; 2] /\
  gen_select_members (st_tbl ex_state) (Some (PAttrLe 1 9)) AInf None [3; 1; 2] = None /\
  gen_sort_members (st_tbl ex_state) (KAttr 0) false [2; 3; 4; 1] = Some [3; 1; 4; 2] /\
  gen_get_branch 1 false = Some 3 /\ gen_get_branch 7 true = None.
Proof. split; [simpl; lia|]. vm_compute. repeat split. Qed.
