From Coq Require Import ZArith List Bool.
From Mesa Require Import Common.ListX Model.AgentSet Proofs.AgentSetProofs.
Import ListNotations.
Open Scope Z_scope.
