(* C02 - the model's agent registry is exact and unique_ids are unique per model.
   ONLY statements closed by `exact`, with Print Assumptions beneath each.

   Vocabulary (Proofs/RegistryProofs.v):  for a world w reached by a history,
     w_born w     every agent ever constructed, in construction order (append-only log)
     w_removed w  the keys on which agent.remove() / deregister_agent was called (log)
     live m born removed      keys of the agents created for model m and not yet removed, in creation order
     live_cls m c born removed   ... of exact class c
     born_of m born           all agents ever created for model m, in creation order
   `final (init n) ops` is the world after the history `ops` on n initial models (NewModel adds more);
   ops range over constructor calls, create_agents (all argument forms), remove, deregister_agent,
   remove_all_agents, in-place shuffle/sort of model.agents and agents_by_type[c], and do/map/shuffle_do
   activations whose callbacks remove agents, create agents (for any model) and call remove_all_agents - and,
   since the deepening, mutation of the model's own all-agents set through the AgentSet API
   (model.agents.discard/remove(agent), model.agents.select(..., inplace=True)).  Those last ones are NOT registry
   operations: the code removes from _all_agents only.  Theorems about model.agents being EXACT therefore carry
   the hypothesis `setapi_free ops = true` (the history has none of them; C02_agents_exact_with_setapi_refuted
   shows it is needed); everything else - hard references, agents_by_type, agent_types, ids, removal,
   independence, and model.agents never holding a removed/foreign/duplicate agent - is proved for ALL histories. *)
From Coq Require Import ZArith List Bool Permutation.
From Mesa Require Import Common.ListX Generated.Tables Model.Registry Proofs.RegistryProofs Proofs.RegistryMore
  Proofs.RegistryProjection.
Import ListNotations.
Open Scope Z_scope.

(* what `live` / `live_cls` mean *)
Theorem C02_live_spec : forall m born r k,
  In k (live m born r) <-> exists a, In a born /\ a_key a = k /\ a_model a = m /\ ~ In k r.
Proof. exact live_spec. Qed.
Print Assumptions C02_live_spec.

Theorem C02_live_cls_spec : forall m c born r k,
  In k (live_cls m c born r) <->
  exists a, In a born /\ a_key a = k /\ a_model a = m /\ a_cls a = c /\ ~ In k r.
Proof. exact live_cls_spec. Qed.
Print Assumptions C02_live_cls_spec.

(* After EVERY history, for every model: the dict of hard references is exactly the agents created for
   that model and not yet removed, in creation order. *)
Theorem C02_hard_exact : forall n ops m ms,
  let w := final (init n) ops in
  getm (w_models w) m = Some ms -> m_hard ms = live m (w_born w) (w_removed w).
Proof. exact thm_hard_exact. Qed.
Print Assumptions C02_hard_exact.

(* model.agents holds exactly those agents, each once; in creation order unless one of the model's sets
   was reordered in place. *)
Theorem C02_agents_exact : forall n ops m ms,
  let w := final (init n) ops in
  getm (w_models w) m = Some ms -> setapi_free ops = true ->
  Permutation (m_all ms) (live m (w_born w) (w_removed w)) /\ NoDup (m_all ms) /\
  (m_reord ms = false -> m_all ms = live m (w_born w) (w_removed w)).
Proof. exact thm_agents_exact. Qed.
Print Assumptions C02_agents_exact.

(* agents_by_type groups exactly the live agents by exact class (a class that is not a key has no live
   agent); keys are distinct. *)
Theorem C02_by_type_exact : forall n ops m ms c,
  let w := final (init n) ops in
  getm (w_models w) m = Some ms ->
  match bt_get c (m_bt ms) with
  | Some l => Permutation l (live_cls m c (w_born w) (w_removed w)) /\
              (m_reord ms = false -> l = live_cls m c (w_born w) (w_removed w))
  | None => live_cls m c (w_born w) (w_removed w) = []
  end.
Proof. intros n ops m ms c w H. exact (thm_by_type_exact n ops m ms H c). Qed.
Print Assumptions C02_by_type_exact.

Theorem C02_agent_types_distinct : forall n ops m ms,
  getm (w_models (final (init n) ops)) m = Some ms -> NoDup (map fst (m_bt ms)).
Proof. exact thm_agent_types_nodup. Qed.
Print Assumptions C02_agent_types_distinct.

(* agent_types names every class that has a live agent (and that agent is in its class' set) *)
Theorem C02_agent_types_cover : forall n ops m ms a,
  let w := final (init n) ops in
  getm (w_models w) m = Some ms ->
  In a (w_born w) -> a_model a = m -> ~ In (a_key a) (w_removed w) ->
  exists l, bt_get (a_cls a) (m_bt ms) = Some l /\ In (a_key a) l.
Proof. intros n ops m ms a w H. exact (thm_types_cover n ops m ms H a). Qed.
Print Assumptions C02_agent_types_cover.

(* unique_ids of a model are 1, 2, 3, ... in creation order - removed agents included, so never reused -
   and the counter stands one past the number of agents ever created for the model *)
Theorem C02_ids_sequential : forall n ops m ms,
  let w := final (init n) ops in
  getm (w_models w) m = Some ms ->
  map a_uid (born_of m (w_born w)) = zrange 1 (zlen (born_of m (w_born w))) /\
  m_next ms = zlen (born_of m (w_born w)) + 1.
Proof. exact thm_ids_sequential. Qed.
Print Assumptions C02_ids_sequential.

Theorem C02_ids_unique : forall n ops a b,
  let w := final (init n) ops in
  In a (w_born w) -> In b (w_born w) -> a_model a = a_model b -> a_uid a = a_uid b -> a = b.
Proof. exact thm_ids_unique. Qed.
Print Assumptions C02_ids_unique.

(* removing twice = removing once (in ANY state, reachable or not) *)
Theorem C02_remove_idempotent : forall w k,
  w_models (agent_remove (agent_remove w k) k) = w_models (agent_remove w k) /\
  w_born (agent_remove (agent_remove w k) k) = w_born (agent_remove w k) /\
  w_nkey (agent_remove (agent_remove w k) k) = w_nkey (agent_remove w k).
Proof. exact thm_remove_idempotent. Qed.
Print Assumptions C02_remove_idempotent.

(* one remove() takes the agent out of every view of every model at once *)
Theorem C02_remove_clears_every_view : forall n ops k a,
  let w := final (init n) ops in
  find_agent (w_born w) k = Some a ->
  forall m ms, getm (w_models (agent_remove w k)) m = Some ms ->
    ~ In k (m_hard ms) /\ ~ In k (m_all ms) /\ (forall c l, bt_get c (m_bt ms) = Some l -> ~ In k l).
Proof. intros n ops k a w. exact (thm_remove_clears false w k a (reachable_inv_weak n ops)). Qed.
Print Assumptions C02_remove_clears_every_view.

(* coexisting models: an operation aimed at another model (or at an agent of another model) leaves this
   model's registry and id counter exactly as they were.  (script-free operations; activations: see
   C02_models_independent_activation) *)
Theorem C02_models_independent : forall n ops o j msj,
  let w := final (init n) ops in
  is_activate o = false -> op_target w o <> Some j ->
  getm (w_models w) j = Some msj -> getm (w_models (fst (step w o))) j = Some msj.
Proof. intros n ops o j msj w. exact (thm_frame_simple false w o j msj (reachable_inv_weak n ops)). Qed.
Print Assumptions C02_models_independent.

(* creation order: in a history without in-place shuffle/sort, model.agents and every agents_by_type set list
   the live agents in creation order *)
Theorem C02_creation_order : forall n ops m ms,
  let w := final (init n) ops in
  setapi_free ops = true -> forallb (fun o => negb (is_reorder o)) ops = true ->
  getm (w_models w) m = Some ms ->
  m_all ms = live m (w_born w) (w_removed w) /\
  forall c l, bt_get c (m_bt ms) = Some l -> l = live_cls m c (w_born w) (w_removed w).
Proof. exact thm_creation_order. Qed.
Print Assumptions C02_creation_order.

(* the two logs the statements above are phrased with are histories: every operation, in any state, only
   appends to them (so no record - key, model, unique_id, class - is ever altered or dropped) *)
Theorem C02_logs_append_only : forall w o,
  (exists ext, w_born (fst (step w o)) = w_born w ++ ext) /\
  (exists ext, w_removed (fst (step w o)) = ext ++ w_removed w).
Proof. exact logs_append_only. Qed.
Print Assumptions C02_logs_append_only.

(* coexisting models, activations: if no callback of the activation removes an agent of model j, creates an
   agent for j or calls j.remove_all_agents(), model j's registry and id counter are untouched - whatever else
   the callbacks do to other models, in whatever order the agents are activated *)
Theorem C02_models_independent_activation : forall n ops m c shuf s j,
  let w := final (init n) ops in
  (forall k, act_safe w j k (script_get k s)) ->
  getm (w_models (fst (step w (Activate m c shuf s)))) j = getm (w_models w) j.
Proof. intros n ops m c shuf s j w. exact (thm_frame_activation false w m c shuf s j (reachable_inv_weak n ops)). Qed.
Print Assumptions C02_models_independent_activation.

(* ---------- AgentSet-API mutation of model.agents (not a registry operation) ---------- *)
(* what the code guarantees whatever is done to model.agents through discard/remove/select(inplace=True),
   interleaved with anything else: model.agents never holds an agent twice, never a removed one, never one of
   another model *)
Theorem C02_agents_sound_any_history : forall n ops m ms,
  let w := final (init n) ops in
  getm (w_models w) m = Some ms ->
  NoDup (m_all ms) /\ incl (m_all ms) (live m (w_born w) (w_removed w)).
Proof. exact thm_agents_sound. Qed.
Print Assumptions C02_agents_sound_any_history.

(* ... but it is no longer exact: the full statement `forall ops, Permutation (m_all ms) (live ...)` is refuted by
   create; model.agents.discard(agent): the agent is live, hard-referenced, in agents_by_type, and not in
   model.agents *)
Theorem C02_agents_exact_with_setapi_refuted :
  exists ops ms, let w := final (init 1) ops in
    getm (w_models w) 0 = Some ms /\ live 0 (w_born w) (w_removed w) = [0] /\ m_hard ms = [0] /\
    bt_get 0 (m_bt ms) = Some [0] /\ m_all ms = [].
Proof. exact setapi_refutes_exactness. Qed.
Print Assumptions C02_agents_exact_with_setapi_refuted.

(* remove_all_agents restores full exactness: in the state after ANY history - model.agents possibly thinned out
   through discard/remove/select(inplace=True) - remove_all_agents() leaves the model with nobody live, every view
   empty, and the strict invariant (model.agents a permutation of the hard references, ...) in force again.
   Hypothesis: none of the model's registered agents is of a class that overrides remove() (remove_all_agents calls
   agent.remove() with dynamic dispatch; C02_remove_all_with_overriding_remove_refuted shows what overrides can do) *)
Theorem C02_remove_all_restores_exactness : forall n ops m ms,
  let w := final (init n) ops in
  getm (w_models w) m = Some ms ->
  (forall k a, In k (m_hard ms) -> find_agent (w_born w) k = Some a -> ov_of (a_cls a) = None) ->
  let w' := remove_all w m in
  exists ms', getm (w_models w') m = Some ms' /\
    live m (w_born w') (w_removed w') = [] /\
    m_hard ms' = [] /\ m_all ms' = [] /\ (forall c l, bt_get c (m_bt ms') = Some l -> l = []) /\
    minv true (w_born w') (w_removed w') m ms'.
Proof. intros n ops m ms w. exact (thm_remove_all_restores false w m ms (reachable_inv_weak n ops)). Qed.
Print Assumptions C02_remove_all_restores_exactness.

(* Agent subclasses overriding remove() (four shapes: work first and super().remove() late; super().remove() first
   and work afterwards; no super().remove() at all - the work being the construction of further agents; and
   an override that, after super().remove(), calls remove() of ANOTHER agent of its model if that one is still in
   model.agents - with dynamic dispatch again, so chains of agents removing each other, cycles included).  They
   are part of every theorem above: hard references, agents_by_type, agent_types, ids, soundness/exactness of
   model.agents, independence and the projection hold for all histories in which agent.remove(), remove_all_agents
   and callbacks dispatch to such overrides; an agent whose override never reaches Agent.remove simply stays live.
   What does NOT survive is "remove_all_agents empties the model": *)
Theorem C02_remove_all_with_overriding_remove_refuted :
  exists ops ms, let w := final (init 1) ops in
    getm (w_models w) 0 = Some ms /\ m_hard ms = [1; 2] /\ m_all ms = [1; 2] /\
    live 0 (w_born w) (w_removed w) = [1; 2] /\ map a_cls (w_born w) = [6; 7; 3].
Proof. exact remove_all_with_override_refuted. Qed.
Print Assumptions C02_remove_all_with_overriding_remove_refuted.

(* an overridden remove() touches the agent's own model only (its constructions are for self.model): the heap
   grows by agents of that model, every other model's registry and id counter stay as they are *)
Theorem C02_overridden_remove_is_local : forall w k j,
  (forall a, find_agent (w_born w) k = Some a -> a_model a <> j) ->
  getm (w_models (obj_remove w k)) j = getm (w_models w) j.
Proof. exact obj_remove_frame. Qed.
Print Assumptions C02_overridden_remove_is_local.

(* agent_types (= the keys of agents_by_type), EXACTLY, after any history: the classes ever instantiated for the
   model, in order of first creation.  Together with C02_by_type_exact: a class whose last agent was removed stays
   listed, with an empty AgentSet. *)
Theorem C02_agent_types_exact : forall n ops m ms,
  getm (w_models (final (init n) ops)) m = Some ms ->
  map fst (m_bt ms) = classes_ever m (w_born (final (init n) ops)).
Proof. exact thm_agent_types_exact. Qed.
Print Assumptions C02_agent_types_exact.

(* "agent_types names every class that has a live agent" (C02_agent_types_cover) - and it may name more: *)
Theorem C02_agent_types_may_name_class_without_live_agent :
  exists ops ms, let w := final (init 1) ops in
    getm (w_models w) 0 = Some ms /\ map fst (m_bt ms) = [3; 1] /\ bt_get 3 (m_bt ms) = Some [] /\
    live_cls 0 3 (w_born w) (w_removed w) = [] /\ live 0 (w_born w) (w_removed w) = [1].
Proof. exact agent_types_names_dead_class. Qed.
Print Assumptions C02_agent_types_may_name_class_without_live_agent.

(* ---------- coexisting models: the projection theorem ---------- *)
(* For every interleaved history over any number of models (from ANY state w): the final state of model m -
   hard references, model.agents, agents_by_type, id counter - is what m's own events alone make of m's
   initial state.  `trace w ops` is the sequence of atomic registry events of the history (constructor calls,
   deregistrations - also those made by callbacks inside activations and by remove_all_agents -, in-place
   reorders, AgentSet-API mutations), each addressed to one model; `mstep` runs one event on one model. *)
Theorem C02_models_independent_projection : forall ops w m ms,
  getm (w_models w) m = Some ms ->
  getm (w_models (final w ops)) m = Some (fold_left mstep (evs_for m (trace w ops)) ms).
Proof. exact projection. Qed.
Print Assumptions C02_models_independent_projection.

(* a model constructed in the middle of a history evolves from the fresh state by its own events alone *)
Theorem C02_projection_new_model : forall pre post w,
  let w1 := final w pre in
  let m := zlen (w_models w1) in
  getm (w_models (final w (pre ++ NewModel :: post))) m =
  Some (fold_left mstep (evs_for m (trace (fst (step w1 NewModel)) post)) fresh_model).
Proof. exact projection_new_model. Qed.
Print Assumptions C02_projection_new_model.

(* id sequences never influence each other: a model's counter advances by exactly the number of constructor
   calls addressed to it *)
Theorem C02_id_counter_projection : forall ops w m ms,
  getm (w_models w) m = Some ms ->
  exists ms', getm (w_models (final w ops)) m = Some ms' /\
              m_next ms' = m_next ms + zlen (filter is_create (evs_for m (trace w ops))).
Proof. exact id_counter_projection. Qed.
Print Assumptions C02_id_counter_projection.

(* T1: the statement order and constants the model hard-codes are the ones re-read from the source on this run *)
Theorem C02_source_first_id : gen_agent_first_id = FIRST_ID.
Proof. exact eq_refl. Qed.
Print Assumptions C02_source_first_id.

Theorem C02_source_statement_order :
  gen_register_order = [RHard; RByType; RAll] /\ gen_deregister_order = [RHard; RByType; RAll] /\
  gen_remove_suppresses_keyerror = true /\ gen_registry_skeleton_ok = true.
Proof. exact (conj eq_refl (conj eq_refl (conj eq_refl eq_refl))). Qed.
Print Assumptions C02_source_statement_order.

(* ---------- non-vacuity: a history with two models, three classes, create_agents with a per-agent list,
   an activation whose callbacks remove themselves / create for the other model, a double removal ---------- *)
Definition ex_ops : list op :=
  [Create 0 0 5; CreateMany 0 2 3 (FSeq [7; 8; 9]); Create 1 0 1; Create 0 1 2;
   Activate 0 None None [(1, ARemoveSelf); (2, ACreate 1 3 4); (5, ARemove 3)];
   Remove 1; Remove 1; ReorderType 1 0 [4]].

Example C02_example :
  let w := final (init 2) ex_ops in
  exists m0 m1,
    getm (w_models w) 0 = Some m0 /\ getm (w_models w) 1 = Some m1 /\
    m_all m0 = [0; 2; 5] /\ live 0 (w_born w) (w_removed w) = [0; 2; 5] /\
    bt_get 2 (m_bt m0) = Some [2] /\ bt_get 0 (m_bt m0) = Some [0] /\ bt_get 1 (m_bt m0) = Some [5] /\
    m_all m1 = [4; 6] /\ m_next m0 = 6 /\ m_next m1 = 3 /\ m_reord m0 = false /\ m_reord m1 = true /\
    map a_uid (born_of 0 (w_born w)) = [1; 2; 3; 4; 5] /\ map a_uid (born_of 1 (w_born w)) = [1; 2].
Proof. vm_compute. eexists. eexists. repeat split; reflexivity. Qed.

Example C02_example_activation_frame :
  let w := final (init 2) [Create 0 0 5; Create 1 0 1; Create 0 1 2] in
  let s := [(0, ARemoveSelf); (2, ACreate 0 3 4)] in
  (forall k, act_safe w 1 k (script_get k s)) /\
  forallb (fun o => negb (is_reorder o)) [Create 0 0 5; Create 1 0 1; Create 0 1 2] = true.
Proof.
  split; [|reflexivity]. intros k. simpl.
  destruct (k =? 0) eqn:E0.
  - apply Z.eqb_eq in E0. subst. intros a Ha Hk. vm_compute in Ha.
    destruct Ha as [<-|[<-|[<-|[]]]]; simpl in *; congruence.
  - destruct (k =? 2); simpl; [discriminate|exact I].
Qed.

(* the projection on the example history: model 1 sees exactly its three events, among them the constructor call
   made by a callback of model 0's activation *)
Example C02_example_projection :
  evs_for 1 (trace (init 2) ex_ops) = [EvCreate 4 0; EvCreate 6 3; EvReorderType 0 [4]] /\
  evs_for 0 (trace (init 2) ex_ops) =
    [EvCreate 0 0; EvCreate 1 2; EvCreate 2 2; EvCreate 3 2; EvCreate 5 1; EvRemove 1 2; EvRemove 3 2;
     EvRemove 1 2; EvRemove 1 2] /\
  setapi_free ex_ops = true.
Proof. vm_compute. repeat split; reflexivity. Qed.

(* remove_all_agents after an AgentSet-API removal: model 0 had agent 1 discarded from model.agents *)
Example C02_example_remove_all_restores :
  let w := final (init 1) [Create 0 0 1; Create 0 1 2; SetDiscard 0 1 false] in
  (exists ms, getm (w_models w) 0 = Some ms /\ m_all ms = [0] /\ m_hard ms = [0; 1]) /\
  (exists ms', getm (w_models (remove_all w 0)) 0 = Some ms' /\ m_all ms' = [] /\ m_hard ms' = [] /\
               map fst (m_bt ms') = [0; 1] /\ classes_ever 0 (w_born w) = [0; 1]).
Proof. vm_compute. split; eexists; repeat split; reflexivity. Qed.

(* overriding remove(): agent 0 (class 5) constructs a D agent and then calls super().remove(); agent 1 (class 7)
   never calls it; a callback of model 0's activation removes an agent of model 1 *)
Example C02_example_overrides :
  let w := final (init 2) [Create 0 5 1; Create 0 7 2; Create 1 0 3; Remove 0; Remove 1;
                           Activate 0 None None [(1, ARemove 2)]] in
  exists m0 m1, getm (w_models w) 0 = Some m0 /\ getm (w_models w) 1 = Some m1 /\
    m_all m0 = [1; 3] /\ m_hard m0 = [1; 3] /\ map a_cls (w_born w) = [5; 7; 0; 3] /\ m_next m0 = 4 /\
    m_all m1 = [] /\ w_removed w = [2; 0] /\
    (forall k a, In k (m_hard m1) -> find_agent (w_born w) k = Some a -> ov_of (a_cls a) = None).
Proof. vm_compute. eexists. eexists. repeat split; try reflexivity. intros k a []. Qed.

(* an override removing another agent: agents 1 and 2 (class 8) name agents 0 and 1 as the ones to take along;
   ONE remove() of agent 2 empties the model through the chain 2 -> 1 -> 0; agent 3 lives in model 1 and names an
   agent of model 0: the guard `p.model is self.model` keeps the removal local *)
Example C02_example_chain_removal :
  let w := final (init 2) [Create 0 0 5; Create 0 8 0; Create 0 8 1; Create 1 8 0; Remove 2] in
  map m_all (w_models w) = [[]; [3]] /\ w_removed w = [0; 1; 2] /\
  evs_for 0 (trace (final (init 2) [Create 0 0 5; Create 0 8 0; Create 0 8 1; Create 1 8 0]) [Remove 2]) =
    [EvRemove 2 8; EvRemove 1 8; EvRemove 0 0] /\
  map m_all (w_models (final w [Remove 3])) = [[]; []].
Proof. vm_compute. repeat split; reflexivity. Qed.
