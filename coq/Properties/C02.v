From Coq Require Import ZArith List Bool.
From Mesa Require Import Common.ListX Model.Registry Proofs.RegistryProofs.
