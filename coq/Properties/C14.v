(* C14 - preliminary *)
From Coq Require Import ZArith List Bool Sorted.
From Mesa Require Import Generated.Tables Model.Devs Model.DevsSpec Proofs.DevsProofs.
Import ListNotations.
Open Scope Z_scope.

Theorem C14_source_key : gen_event_key = [FTime; FPriority; FUid].
Proof. exact gen_event_key_is. Qed.
Print Assumptions C14_source_key.
