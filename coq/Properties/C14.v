(* C14 - the simulators run each live event once, in (time, priority, FIFO) order.
   Model: Model/Devs.v (the code after fixes C14-1, C14-2, C15-1); vocabulary: Model/DevsSpec.v.
   ONLY statements closed by `exact`, with Print Assumptions beneath each, and Examples of non-vacuity.
   `reach cfg st` = st is a state a simulation passes through (after setup, after an operation of a history,
   after a single event inside run_until/run_for/run_next_event); `final cfg fuel (init cfg) ops` = the state
   after the history `ops`; logs hold LExec e clock for every event whose callable ran. *)
From Coq Require Import ZArith List Bool Sorted.
From Mesa Require Import Generated.Tables Model.Devs Model.DevsSpec
  Proofs.DevsProofs Proofs.DevsOrderProofs Proofs.DevsOnceProofs Proofs.DevsLiveProofs Proofs.DevsAtomicProofs
  Proofs.DevsTopProofs Proofs.DevsTop14Proofs Model.Heap Model.DevsHeap Proofs.HeapProofs Proofs.DevsHeapProofs Proofs.DevsHeapSimProofs Proofs.DevsBridge
  Model.DevsLife Model.DevsHeapLife Proofs.DevsLifeProofs Proofs.DevsBoundaryProofs Proofs.DevsHeapLifeProofs.
From Coq Require Import Permutation.
Import ListNotations.
Open Scope Z_scope.

(* ---------------------------------------------------------------- T1: the key of SimulationEvent.__lt__ *)
Theorem C14_source_key : gen_event_key = [FTime; FPriority; FUid].
Proof. exact gen_event_key_is. Qed.
Print Assumptions C14_source_key.

(* the comparison the heap uses is: time, then priority number, then id *)
Theorem C14_key_spec : forall a b, ev_ltb a b = true <->
  (e_time a < e_time b \/ (e_time a = e_time b /\ (e_prio a < e_prio b \/ (e_prio a = e_prio b /\ e_uid a < e_uid b)))).
Proof. exact ev_ltb_spec. Qed.
Print Assumptions C14_key_spec.

(* ... a strict total order on events with distinct ids *)
Theorem C14_key_irreflexive : forall a, ~ ev_lt a a.
Proof. exact ev_lt_irrefl. Qed.
Print Assumptions C14_key_irreflexive.
Theorem C14_key_transitive : forall a b c, ev_lt a b -> ev_lt b c -> ev_lt a c.
Proof. exact ev_lt_trans. Qed.
Print Assumptions C14_key_transitive.
Theorem C14_key_total : forall a b, e_uid a <> e_uid b -> ev_lt a b \/ ev_lt b a.
Proof. exact ev_lt_total. Qed.
Print Assumptions C14_key_total.

(* ---------------------------------------------------------------- the event list in every reachable state *)
(* ordered by the key, every id below the counter (so ids are distinct and later = larger), nothing before the clock *)
Theorem C14_event_list_invariant : forall cfg st, reach cfg st -> inv st.
Proof. exact reach_inv. Qed.
Print Assumptions C14_event_list_invariant.

(* ... in particular the state after any history from setup *)
Theorem C14_history_states_reachable : forall cfg fuel ops, reach cfg (final cfg fuel (init cfg) ops).
Proof. exact reach_final. Qed.
Print Assumptions C14_history_states_reachable.

(* pop-min: whenever an event is taken to be executed it is live and every other live pending event -
   including everything scheduled so far by executing events - has a larger key (time, priority, id) *)
Theorem C14_order : forall cfg st e rest x, reach cfg st -> pop_event (s_events st) = Some (e, rest) ->
  e_cancelled e = false /\ (In x (s_events st) -> e_cancelled x = false -> x = e \/ ev_lt e x).
Proof. exact next_event_is_least. Qed.
Print Assumptions C14_order.

(* FIFO: ids follow the order of scheduling - an accepted schedule call gives the new event an id above every
   pending one, so among equal (time, priority) it runs after all events scheduled before it *)
Theorem C14_fifo : forall cfg st k t p tag h body st', inv st ->
  do_sched cfg st k t p tag h body = (st', R_OK) ->
  exists e, s_events st' = ev_insert e (s_events st) /\ e_uid e = s_uid st /\
            Forall (fun x => e_uid x < e_uid e) (s_events st) /\
            Forall (fun x => e_time x = e_time e -> e_prio x = e_prio e -> ev_lt x e) (s_events st).
Proof. exact fifo_ids. Qed.
Print Assumptions C14_fifo.

(* ---------------------------------------------------------------- run_until / run_for *)
(* every executed event was not cancelled, ran inside [now, horizon]; every callable (events and model.step)
   saw a clock inside [now, horizon]; clocks never decrease along the log *)
Theorem C14_log_sound : forall cfg fuel endt st st' l ok, inv st -> run_loop cfg fuel endt st = (st', l, ok) ->
  Forall (fun e => e_cancelled e = false /\ e_step e = false /\ s_time st <= e_time e <= endt) (execs l) /\
  Forall (fun c => s_time st <= c <= endt) (clocks l) /\
  StronglySorted Z.le (clocks l).
Proof. exact run_loop_log. Qed.
Print Assumptions C14_log_sound.

(* the clock equals the event's time while it runs *)
Theorem C14_clock_is_event_time : forall cfg fuel endt st st' l ok e c,
  run_loop cfg fuel endt st = (st', l, ok) -> In (LExec e c) l -> c = e_time e.
Proof. exact run_loop_exec_clock. Qed.
Print Assumptions C14_clock_is_event_time.

(* run_until t leaves the clock at t ... *)
Theorem C14_clock_at_horizon : forall cfg fuel endt st st' l,
  run_loop cfg fuel endt st = (st', l, true) -> s_time st' = endt.
Proof. exact run_loop_time. Qed.
Print Assumptions C14_clock_at_horizon.

(* ... never moves backwards when t is not before now (also when the run is cut short) ... *)
Theorem C14_clock_monotone : forall cfg fuel endt st st' l ok, inv st -> s_time st <= endt ->
  run_loop cfg fuel endt st = (st', l, ok) -> s_time st <= s_time st' <= endt.
Proof. exact run_loop_time_mono. Qed.
Print Assumptions C14_clock_monotone.

(* ... nor over a whole history whose run horizons are not before the clock *)
Theorem C14_clock_monotone_history : forall cfg fuel ops st, inv st -> ops_ok cfg fuel st ops ->
  s_time st <= s_time (final cfg fuel st ops).
Proof. exact history_time_mono. Qed.
Print Assumptions C14_clock_monotone_history.

(* ... and no live event with time <= t is left *)
Theorem C14_run_until_complete : forall cfg fuel endt st st' l, inv st -> run_loop cfg fuel endt st = (st', l, true) ->
  Forall (fun e => e_cancelled e = false -> endt < e_time e) (s_events st').
Proof. exact run_loop_done. Qed.
Print Assumptions C14_run_until_complete.

(* run_next_event executes at most one event, with the clock at its time *)
Theorem C14_run_next : forall cfg st st' l, inv st -> run_next cfg st = (st', l) ->
  Forall (fun e => e_cancelled e = false /\ s_time st <= e_time e) (execs l) /\ (length (execs l) <= 1)%nat /\
  (forall e c, In (LExec e c) l -> c = e_time e /\ s_time st' = c).
Proof. exact run_next_log. Qed.
Print Assumptions C14_run_next.

(* ---------------------------------------------------------------- exactly once *)
(* at most once: over any history from setup no two executions carry the same event id ... *)
Theorem C14_once : forall cfg fuel ops st' l,
  run_state cfg fuel (init cfg) ops = (st', l) -> NoDup (map e_uid (execs l)).
Proof. exact executed_at_most_once. Qed.
Print Assumptions C14_once.

(* ... and an executed event is no longer pending *)
Theorem C14_executed_not_pending : forall cfg fuel ops st' l e,
  run_state cfg fuel (init cfg) ops = (st', l) -> In e (execs l) ->
  forall x, In x (s_events st') -> e_uid x <> e_uid e.
Proof. exact executed_not_pending. Qed.
Print Assumptions C14_executed_not_pending.

(* no live event is ever lost: a pending, non-cancelled event with a live callable (`watch`) whose tag is not
   cancelled and whose holder is not dropped during a history (`survives`) is afterwards executed or still pending *)
Theorem C14_no_event_lost : forall cfg fuel ops st st' l x, inv st -> run_state cfg fuel st ops = (st', l) ->
  watch x st -> survives x l -> (exists c, In (LExec x c) l) \/ watch x st'.
Proof. exact run_state_keeps. Qed.
Print Assumptions C14_no_event_lost.

(* at least once: a completed run_until t executes every such event with time <= t, also those scheduled in
   the history before it *)
Theorem C14_at_least_once : forall cfg fuel endt st st' l x, inv st -> run_loop cfg fuel endt st = (st', l, true) ->
  watch x st -> e_time x <= endt -> survives x l -> exists c, In (LExec x c) l.
Proof. exact at_least_once. Qed.
Print Assumptions C14_at_least_once.

Theorem C14_at_least_once_history : forall cfg fuel ops endt st st1 l1 st2 l2 x, inv st ->
  run_state cfg fuel st ops = (st1, l1) -> run_loop cfg fuel endt st1 = (st2, l2, true) ->
  watch x st -> e_time x <= endt -> survives x (l1 ++ l2) -> exists c, In (LExec x c) (l1 ++ l2).
Proof. exact at_least_once_history. Qed.
Print Assumptions C14_at_least_once_history.

(* an accepted schedule call creates exactly such an event *)
Theorem C14_scheduled_is_pending : forall cfg st k t p tag h body st', do_sched cfg st k t p tag h body = (st', R_OK) ->
  exists x, watch x st' /\ e_tag x = tag /\ e_holder x = h /\ e_body x = body /\ e_uid x = s_uid st /\
            e_time x = sched_time st k t.
Proof. exact scheduled_is_watched. Qed.
Print Assumptions C14_scheduled_is_pending.

(* ---------------------------------------------------------------- cancelled / dead callables never run *)
Theorem C14_cancelled_never : forall cfg fuel ops u st st' l, cancelled_id u st ->
  run_state cfg fuel st ops = (st', l) -> Forall (fun e => e_uid e <> u) (execs l).
Proof. exact cancelled_never_runs. Qed.
Print Assumptions C14_cancelled_never.

(* cancel_event after any history from setup: whatever follows, the event never runs *)
Theorem C14_cancel_event_never_runs : forall cfg fuel ops tag x ops2 st' l,
  In x (s_events (do_cancel (final cfg fuel (init cfg) ops) tag)) -> e_tag x = tag -> e_step x = false ->
  run_state cfg fuel (do_cancel (final cfg fuel (init cfg) ops) tag) ops2 = (st', l) ->
  Forall (fun e => e_uid e <> e_uid x) (execs l).
Proof. exact cancel_after_history_never_runs. Qed.
Print Assumptions C14_cancel_event_never_runs.

Theorem C14_dead_callable_never : forall cfg fuel ops h st st' l, dead_holder h st ->
  run_state cfg fuel st ops = (st', l) -> Forall (fun e => e_holder e <> h) (execs l).
Proof. exact dead_never_runs. Qed.
Print Assumptions C14_dead_callable_never.

Theorem C14_dropped_callable_never : forall cfg fuel ops st h st' l,
  run_state cfg fuel (do_drop st h) ops = (st', l) -> Forall (fun e => e_holder e <> h) (execs l).
Proof. exact drop_then_never_runs. Qed.
Print Assumptions C14_dropped_callable_never.

(* ---------------------------------------------------------------- scheduling: no past, right unit, atomic *)
(* every accepted schedule_event_* is for a time >= now of the right unit, and only adds that event *)
Theorem C14_no_past_and_unit : forall cfg st k t p tag h body st',
  do_sched cfg st k t p tag h body = (st', R_OK) ->
  s_time st <= sched_time st k t /\ unit_ok (c_abm cfg) (sched_time st k t) = true /\
  exists e, s_events st' = ev_insert e (s_events st) /\ e_time e = sched_time st k t /\ e_uid e = s_uid st /\
            e_tag e = tag /\ e_cancelled e = false.
Proof. exact accepted_not_past_right_unit. Qed.
Print Assumptions C14_no_past_and_unit.

Theorem C14_past_rejected : forall cfg st k t p tag h body st' rc,
  do_sched cfg st k t p tag h body = (st', rc) -> sched_time st k t < s_time st -> rc <> R_OK.
Proof. exact past_rejected. Qed.
Print Assumptions C14_past_rejected.

Theorem C14_wrong_unit_rejected : forall cfg st k t p tag h body st' rc,
  do_sched cfg st k t p tag h body = (st', rc) -> unit_ok (c_abm cfg) (sched_time st k t) = false -> rc <> R_OK.
Proof. exact wrong_unit_rejected. Qed.
Print Assumptions C14_wrong_unit_rejected.

(* before setup(model) (case field c_setup = false): the run calls raise "simulator has not been setup" and leave the
   simulator exactly as it was; scheduling / cancelling / peak_ahead behave as after setup *)
Theorem C14_run_before_setup : forall cfg fuel st o st' ob l, is_run o = true ->
  step_op_unset cfg fuel st o = (st', ob, l) -> st' = st /\ ob = [-1; E_NOSETUP] /\ l = [].
Proof. exact run_before_setup. Qed.
Print Assumptions C14_run_before_setup.

(* C18 at the scheduling sites: a rejected call (past / wrong unit) leaves clock, event list, steps and dead set
   untouched (only the global id counter may have moved) ... *)
Theorem C18_devs_atomic_schedule : forall cfg st k t p tag h body st' rc,
  do_sched cfg st k t p tag h body = (st', rc) -> rc <> R_OK -> same_sim st' st.
Proof. exact do_sched_rejected. Qed.
Print Assumptions C18_devs_atomic_schedule.

Theorem C18_devs_atomic_view : forall cfg st k t p tag h body st' rc,
  do_sched cfg st k t p tag h body = (st', rc) -> rc <> R_OK -> view st' [] = view st [].
Proof. exact rejected_view_unchanged. Qed.
Print Assumptions C18_devs_atomic_view.

(* ... and every continuation of the history observes exactly what it would have observed without the call *)
Theorem C18_devs_atomic_continue : forall cfg fuel st k t p tag h body st' rc ops, inv st ->
  do_sched cfg st k t p tag h body = (st', rc) -> rc <> R_OK ->
  run_ops cfg fuel st' ops = run_ops cfg fuel st ops.
Proof. exact rejected_then_same_observations. Qed.
Print Assumptions C18_devs_atomic_continue.

(* ---------------------------------------------------------------- events scheduled up front; peak_ahead *)
(* when no pending event carries user code (all scheduled up front), a completed run_until t executes exactly
   the runnable events with time <= t, each once, in the order of the key *)
Theorem C14_upfront_sorted : forall cfg fuel endt st st' l, inv st -> plain (s_events st) ->
  run_loop cfg fuel endt st = (st', l, true) ->
  l = map (fun e => LExec e (e_time e)) (filter (due (s_dead st) endt) (s_events st)) /\
  s_dead st' = s_dead st /\ plain (s_events st').
Proof. exact upfront_sorted. Qed.
Print Assumptions C14_upfront_sorted.

(* peak_ahead (fix C14-1) lists live events only, in key order ... *)
Theorem C14_peek_sorted : forall st n, inv st -> StronglySorted ev_lt (peak_ahead n (s_events st)) /\
  Forall (fun e => e_cancelled e = false) (peak_ahead n (s_events st)).
Proof. exact peek_sorted. Qed.
Print Assumptions C14_peek_sorted.

(* ... its head is the event that runs next ... *)
Theorem C14_peek_head_is_next : forall st e rest, pop_event (s_events st) = Some (e, rest) ->
  peak_ahead 1 (s_events st) = [e] /\ live (s_events st) = e :: live rest.
Proof. exact peek_head_is_next. Qed.
Print Assumptions C14_peek_head_is_next.

(* ... with n large enough it shows every live event ... *)
Theorem C14_peek_all : forall st x,
  In x (peak_ahead (length (s_events st)) (s_events st)) <-> In x (s_events st) /\ e_cancelled x = false.
Proof. exact peek_all. Qed.
Print Assumptions C14_peek_all.

(* ... and the order shown is the order of execution *)
Theorem C14_peek_is_run_order : forall cfg fuel endt st st' l, inv st -> plain (s_events st) -> s_dead st = [] ->
  run_loop cfg fuel endt st = (st', l, true) ->
  execs l = filter (fun e => e_time e <=? endt) (peak_ahead (length (s_events st)) (s_events st)).
Proof. exact peek_is_run_order. Qed.
Print Assumptions C14_peek_is_run_order.

(* ---------------------------------------------------------------- heapq (heapq_model_laws) *)
(* Model/Heap.v transcribes CPython's heapq (heappush/heappop/_siftdown/_siftup on arrays; its Examples reproduce
   arrays observed on the real heapq).  For a strict weak order - which SimulationEvent.__lt__ is - it satisfies
   the priority-queue laws: contents are preserved, the heap shape is kept, heappop returns a least element. *)
Theorem C14_heapq_push_laws : forall h x,
  Permutation (x :: h) (heappush event ev_ltb h x) /\
  (heap_ok event ev_ltb h -> heap_ok event ev_ltb (heappush event ev_ltb h x)).
Proof. exact (fun h x => conj (heappush_perm event ev_ltb h x)
                              (heappush_ok event ev_ltb ev_ltb_irrefl ev_ltb_trans ev_ltb_total_weak h x)). Qed.
Print Assumptions C14_heapq_push_laws.

Theorem C14_heapq_pop_laws : forall h x h', heap_ok event ev_ltb h -> heappop event ev_ltb h = Some (x, h') ->
  Permutation h (x :: h') /\ heap_ok event ev_ltb h' /\ forall y, In y h' -> ev_ltb y x = false.
Proof. exact (fun h x h' Hok Hp => conj (heappop_perm event ev_ltb h x h' Hp)
   (conj (heappop_ok event ev_ltb ev_ltb_irrefl ev_ltb_trans ev_ltb_total_weak h x h' Hok Hp)
         (heappop_min event ev_ltb ev_ltb_irrefl ev_ltb_trans ev_ltb_total_weak h x h' Hok Hp))). Qed.
Print Assumptions C14_heapq_pop_laws.

(* Hence the abstraction made by Model/Devs.v is sound: for ANY program of pushes (of events with distinct ids) and
   pops, the heap array returns exactly the events that the list ordered by the key returns (ordered insertion /
   take the head), pop by pop. *)
Theorem C14_heap_refines_sorted_list : forall ops,
  NoDup (flat_map (fun o => match o with Push e => [e_uid e] | Pop => [] end) ops) ->
  run_heap [] ops = run_sorted [] ops.
Proof. exact heap_refines_sorted_list. Qed.
Print Assumptions C14_heap_refines_sorted_list.

Theorem C14_heap_refines_pop : forall heap sorted, refines heap sorted ->
  match heappop event ev_ltb heap, sorted with
  | None, [] => True
  | Some (x, heap'), y :: sorted' => x = y /\ refines heap' sorted'
  | _, _ => False
  end.
Proof. exact refines_pop. Qed.
Print Assumptions C14_heap_refines_pop.

Theorem C14_heap_refines_push : forall heap sorted e, refines heap sorted ->
  ~ In (e_uid e) (map e_uid sorted) -> refines (heappush event ev_ltb heap e) (ev_insert e sorted).
Proof. exact refines_push. Qed.
Print Assumptions C14_heap_refines_push.

(* ... and for the whole simulator: Model/DevsHeap.v is Model/Devs.v with the event list kept as the heapq array
   (heappush/heappop where Devs.v inserts in order / takes the head; this is the model the optional tie
   VERIF_HEAPQ_TIE=1 compares with the implementation INCLUDING the order of EventList._events).  On every history it
   produces exactly the observations of Model/Devs.v - so every theorem above also speaks about the heap-based model. *)
Theorem C14_heap_simulator_refines : forall c, map fst (h_run_case c) = run_case c.
Proof. exact heap_simulator_refines_case. Qed.
Print Assumptions C14_heap_simulator_refines.

(* the array of defect #20: pushing times 1,3,2,5,4 leaves the heap array in the order 1,3,2,5,4 (which the
   unrepaired peak_ahead returned), while the key order is 1,2,3,4,5 *)
Example C14_heap_array_example :
  let evs := map (fun t => mk_event t PDefault t t 0 false []) [8; 24; 16; 40; 32] in
  map e_time (fold_left (heappush event ev_ltb) evs []) = [8; 24; 16; 40; 32] /\
  map e_time (fold_left (fun l e => ev_insert e l) evs []) = [8; 16; 24; 32; 40] /\
  run_heap [] (map Push evs ++ [Pop; Pop; Pop]) = run_sorted [] (map Push evs ++ [Pop; Pop; Pop]).
Proof. cbv zeta. repeat split; vm_compute; reflexivity. Qed.

(* ---------------------------------------------------------------- code-level tie (T1) *)
(* The guards and the time arithmetic of schedule_event_now/_relative/_absolute/_next_tick and _schedule_event, the
   decision of the run_until loops of both classes, run_for's horizon, the tests of SimulationEvent.execute,
   EventList.pop_event and EventList.peak_ahead are TRANSLATED from the working tree on every run
   (harness/tables/devs_code.py -> the gen_ definitions of Generated.Tables); Proofs/DevsBridge.v proves them equal to the conditions of
   Model/Devs.v and rewrites the model's functions with the generated pieces only (the src_ functions).  The statements that cannot be
   translated (while True / try / except IndexError, heap calls, object glue) are checked as a statement skeleton. *)
Theorem C14_source_skeleton : gen_devs_skeleton_ok = true.
Proof. vm_compute. reflexivity. Qed.
Print Assumptions C14_source_skeleton.

(* what the source's own guards do with a schedule call: rejected iff its time is before the clock, else the event is
   for exactly that time *)
Theorem C14_source_guards : forall st k t,
  src_sched_time st k t = if sched_time st k t <? s_time st then None else Some (sched_time st k t).
Proof. exact src_sched_time_spec. Qed.
Print Assumptions C14_source_guards.

Theorem C14_source_schedule_is_model : forall cfg st k t p tag h body,
  do_sched cfg st k t p tag h body = src_do_sched cfg st k t p tag h body.
Proof. exact do_sched_of_source. Qed.
Print Assumptions C14_source_schedule_is_model.

Theorem C14_source_pop_is_model : forall l, pop_event l = src_pop l.
Proof. exact pop_event_of_source. Qed.
Print Assumptions C14_source_pop_is_model.

Theorem C14_source_peek_is_model : forall n l, 1 <= n -> peak_ahead (Z.to_nat n) l = src_peak n l [].
Proof. exact peak_ahead_of_source. Qed.
Print Assumptions C14_source_peek_is_model.

Theorem C14_source_execute_is_model : forall cfg st e st' l, e_step e = false -> execute cfg st e = (st', l) ->
  execs l = if gen_execute_runs (e_cancelled e) (negb (memz (e_holder e) (s_dead st))) then [e] else [].
Proof. exact execute_of_source. Qed.
Print Assumptions C14_source_execute_is_model.

Theorem C14_source_run_until_is_model : forall cfg fuel endt st,
  run_loop cfg fuel endt st = src_run_loop cfg fuel endt st.
Proof. exact run_loop_of_source. Qed.
Print Assumptions C14_source_run_until_is_model.

(* ... so the headline statements hold of the translated source code itself *)
Theorem C14_no_past_of_source : forall st k t t', src_sched_time st k t = Some t' ->
  s_time st <= t' /\ t' = sched_time st k t.
Proof. exact no_past_of_source. Qed.
Print Assumptions C14_no_past_of_source.

Theorem C14_run_until_of_source : forall cfg fuel endt st st' l, inv st ->
  src_run_loop cfg fuel endt st = (st', l, true) ->
  s_time st' = endt /\
  Forall (fun e => e_cancelled e = false -> src_until cfg (e_time e) endt = false) (s_events st') /\
  Forall (fun e => e_cancelled e = false /\ src_until cfg (e_time e) endt = true) (execs l) /\
  StronglySorted Z.le (clocks l).
Proof. exact run_until_of_source. Qed.
Print Assumptions C14_run_until_of_source.

Theorem C14_peek_of_source : forall st n, inv st -> 1 <= n ->
  StronglySorted ev_lt (src_peak n (s_events st) []) /\
  Forall (fun e => e_cancelled e = false) (src_peak n (s_events st) []).
Proof. exact peek_of_source. Qed.
Print Assumptions C14_peek_of_source.

(* ---------------------------------------------------------------- the life cycle (Model/DevsLife.v) *)
(* The correspondence runs `run_xcase`: histories of operations of Devs.v, reset() and setup(<a new model>) on a simulator
   that was or was not set up.  `xreach cfg m` = m is a state such a life cycle passes through. *)
(* the event-list invariant and the pop-min discipline hold in every state of every life cycle *)
Theorem C14_lifecycle_invariant : forall cfg m, xreach cfg m -> inv (m_st m).
Proof. exact xreach_inv. Qed.
Print Assumptions C14_lifecycle_invariant.

Theorem C14_lifecycle_order : forall cfg m e rest x, xreach cfg m -> pop_event (s_events (m_st m)) = Some (e, rest) ->
  e_cancelled e = false /\ (In x (s_events (m_st m)) -> e_cancelled x = false -> x = e \/ ev_lt e x).
Proof. exact xreach_next_event_is_least. Qed.
Print Assumptions C14_lifecycle_order.

(* over a whole life cycle, reset() included, no event id is executed twice *)
Theorem C14_lifecycle_once : forall cfg fuel b ops m' l,
  xrun_state cfg fuel (xinit cfg b) ops = (m', l) -> NoDup (map e_uid (execs l)).
Proof. exact executed_at_most_once_lifecycle. Qed.
Print Assumptions C14_lifecycle_once.

(* what setup() does: refused at a non-zero clock, refused while events are scheduled, otherwise a model is attached *)
Theorem C14_setup_outcome : forall cfg fuel m m' ob l, xstep cfg fuel m XSetup = (m', ob, l) ->
  (s_time (m_st m) <> 0 /\ ob = [-1; E_SETUP_TIME]) \/
  (s_time (m_st m) = 0 /\ s_events (m_st m) <> [] /\ ob = [-1; E_SETUP_EVENTS]) \/
  (s_time (m_st m) = 0 /\ s_events (m_st m) = [] /\ m' = {| m_st := setup_state cfg (m_st m); m_setup := true |}).
Proof. exact setup_outcome. Qed.
Print Assumptions C14_setup_outcome.

(* C18 for the life-cycle calls: a refused setup() and a run call without a model change nothing at all *)
Theorem C18_devs_atomic_setup : forall cfg fuel m m' ob l, xstep cfg fuel m XSetup = (m', ob, l) ->
  (ob = [-1; E_SETUP_TIME] \/ ob = [-1; E_SETUP_EVENTS]) -> m' = m /\ l = [].
Proof. exact setup_rejected_atomic. Qed.
Print Assumptions C18_devs_atomic_setup.

Theorem C18_devs_atomic_run_without_model : forall cfg fuel m o m' ob l, m_setup m = false -> is_run o = true ->
  xstep cfg fuel m (XOp o) = (m', ob, l) -> m' = m /\ ob = [-1; E_NOSETUP] /\ l = [].
Proof. exact run_without_model_atomic. Qed.
Print Assumptions C18_devs_atomic_run_without_model.

(* reset(): no model, empty list, clock at the start; the id counter, the old model's step counter and dead callables stay *)
Theorem C14_reset_outcome : forall cfg fuel m m' ob l, xstep cfg fuel m XReset = (m', ob, l) ->
  m_setup m' = false /\ s_events (m_st m') = [] /\ s_time (m_st m') = 0 /\ s_uid (m_st m') = s_uid (m_st m) /\
  s_dead (m_st m') = s_dead (m_st m) /\ s_steps (m_st m') = s_steps (m_st m) /\ l = [].
Proof. exact reset_outcome. Qed.
Print Assumptions C14_reset_outcome.

(* reset() then setup() always succeeds and gives the event list of a freshly set up simulator (up to the id counter) *)
Theorem C14_reset_then_setup : forall cfg fuel m m1 ob1 l1 m2 ob2 l2, xstep cfg fuel m XReset = (m1, ob1, l1) ->
  xstep cfg fuel m1 XSetup = (m2, ob2, l2) ->
  m_setup m2 = true /\ s_time (m_st m2) = 0 /\ s_steps (m_st m2) = 0 /\
  s_events (m_st m2) = s_events (setup_state cfg (set_uid fresh (s_uid (m_st m)))).
Proof. exact reset_then_setup. Qed.
Print Assumptions C14_reset_then_setup.

(* cancel_event of an event that already ran (no longer in the list) or is already cancelled does nothing *)
Theorem C14_cancel_executed_noop : forall st tag,
  Forall (fun e => e_tag e <> tag \/ e_step e = true) (s_events st) -> do_cancel st tag = st.
Proof. exact cancel_absent_noop. Qed.
Print Assumptions C14_cancel_executed_noop.

Theorem C14_cancel_cancelled_noop : forall st tag,
  Forall (fun e => e_tag e = tag -> e_step e = false -> e_cancelled e = true) (s_events st) -> do_cancel st tag = st.
Proof. exact cancel_cancelled_noop. Qed.
Print Assumptions C14_cancel_cancelled_noop.

Theorem C14_cancel_idempotent : forall st tag, do_cancel (do_cancel st tag) tag = do_cancel st tag.
Proof. exact cancel_idempotent. Qed.
Print Assumptions C14_cancel_idempotent.

(* the heap-array simulator with the same life-cycle layer refines run_xcase (this is what the heapq tie runs) *)
Theorem C14_heap_lifecycle_refines : forall c, map fst (h_run_xcase c) = run_xcase c.
Proof. exact heap_lifecycle_refines_case. Qed.
Print Assumptions C14_heap_lifecycle_refines.

(* ---------------------------------------------------------------- the boundary of the quantifier *)
(* "run_until(t) with t not before now": with t BEFORE now the code executes nothing and moves the clock BACK to t - the
   statement's "never moving backwards" is false there, which is why the quantifier excludes it ... *)
Theorem C14_boundary_run_until_before_now : forall cfg n endt st st' l ok, inv st -> endt < s_time st ->
  run_loop cfg (S n) endt st = (st', l, ok) ->
  l = [] /\ ok = true /\ s_time st' = endt /\ s_time st' < s_time st /\
  live (s_events st') = live (s_events st) /\ s_steps st' = s_steps st /\ s_uid st' = s_uid st /\ s_dead st' = s_dead st.
Proof. exact run_until_before_now. Qed.
Print Assumptions C14_boundary_run_until_before_now.

(* ... and afterwards an absolute time between t and the old clock is accepted (an event "before" events that already ran) *)
Theorem C14_boundary_backwards_then_past_accepted : forall cfg n endt st st' l ok t p tag h body, inv st -> endt < s_time st ->
  run_loop cfg (S n) endt st = (st', l, ok) -> endt <= t -> t < s_time st -> unit_ok (c_abm cfg) t = true ->
  memz h (s_dead st) = false ->
  snd (do_sched cfg st' KAbs t p tag h body) = R_OK.
Proof. exact backwards_then_past_accepted. Qed.
Print Assumptions C14_boundary_backwards_then_past_accepted.

(* a run cut short by fuel alone (no exception) can be resumed: with the same horizon it completes exactly the run *)
Theorem C14_resume_after_interruption : forall cfg n1 endt st st1 l1 n2 st2 l2 ok,
  run_loop cfg n1 endt st = (st1, l1, false) -> has_raise l1 = false -> run_loop cfg n2 endt st1 = (st2, l2, ok) ->
  run_loop cfg (n1 + n2) endt st = (st2, l1 ++ l2, ok).
Proof. exact run_loop_resume. Qed.
Print Assumptions C14_resume_after_interruption.

(* user callables that raise are part of the model the correspondence runs (act ARaise): the statements of a callable
   after the raise never run ... *)
Theorem C14_raise_stops_body : forall cfg st pre rest, do_acts cfg st (pre ++ ARaise :: rest) =
  (let '(st1, l1) := do_acts cfg st pre in if has_raise l1 then (st1, l1) else (st1, l1 ++ [LRaise])).
Proof. exact raise_stops_body. Qed.
Print Assumptions C14_raise_stops_body.

(* ... the exception escapes from run_until (never reported as completed), leaving a legal state: event-list invariant,
   clock between the start and the horizon (at the time of the raising event), step invariant under ABMSimulator ... *)
Theorem C14_raise_interrupts_run : forall cfg fuel endt st st1 l1 ok, inv st -> s_time st <= endt ->
  run_loop cfg fuel endt st = (st1, l1, ok) -> has_raise l1 = true ->
  ok = false /\ inv st1 /\ s_time st <= s_time st1 <= endt /\ (c_abm cfg = true -> step_inv st -> step_inv st1).
Proof. exact raise_interrupts_run. Qed.
Print Assumptions C14_raise_interrupts_run.

(* ... and a run that completed did not see an exception *)
Theorem C14_completed_run_has_no_raise : forall cfg fuel endt st st1 l1,
  run_loop cfg fuel endt st = (st1, l1, true) -> has_raise l1 = false.
Proof. exact no_raise_completes_or_fuel. Qed.
Print Assumptions C14_completed_run_has_no_raise.

Theorem C14_interrupted_state_ok : forall cfg n endt st st1 l1, inv st -> s_time st <= endt ->
  run_loop cfg n endt st = (st1, l1, false) ->
  inv st1 /\ s_time st <= s_time st1 <= endt /\ (c_abm cfg = true -> step_inv st -> step_inv st1).
Proof. exact interrupted_state_ok. Qed.
Print Assumptions C14_interrupted_state_ok.

(* ---------------------------------------------------------------- non-vacuity *)
(* DEVSimulator: events 1..5 pushed in the order of defect #20 (times 1,3,2,5,4), a tie in time and priority
   (events 6,7 at time 2), one cancelled, one whose holder is dropped; run_until 3 executes 1,3,6,7,2 *)
Definition ex14_cfg : config := {| c_abm := false; c_script := [] |}.
Definition ex14_ops : list op :=
  [OSched KAbs 8 PDefault 1 0 []; OSched KAbs 24 PDefault 2 0 []; OSched KAbs 16 PDefault 3 0 [];
   OSched KAbs 40 PDefault 4 0 []; OSched KAbs 32 PDefault 5 0 []; OSched KAbs 16 PLow 6 0 [];
   OSched KAbs 16 PLow 7 0 []; OSched KAbs 16 PHigh 8 0 []; OSched KAbs 16 PDefault 9 1 [];
   OCancel 8; ODrop 1].

Example C14_upfront_example :
  let st := final ex14_cfg 50 (init ex14_cfg) ex14_ops in
  inv st /\ plain (s_events st) /\
  map e_tag (peak_ahead 9 (s_events st)) = [1; 3; 9; 6; 7; 2; 5; 4] /\
  map e_tag (execs (snd (fst (run_loop ex14_cfg 50 24 st)))) = [1; 3; 6; 7; 2] /\
  snd (run_loop ex14_cfg 50 24 st) = true.
Proof.
  cbv zeta. split; [apply inv_final|]. split.
  - vm_compute. repeat constructor.
  - repeat split; vm_compute; reflexivity.
Qed.

(* user code: event 1 at time 1 schedules event 2 for "now" with HIGH priority and event 3 into the past
   (rejected), and cancels event 4; the run executes 1, 2, 5 *)
Definition ex14b_ops : list op :=
  [OSched KAbs 8 PDefault 1 0 [ASched KNow 0 PHigh 2 0 []; ASched KRel (-8) PDefault 3 0 []; ACancel 4];
   OSched KAbs 8 PLow 4 0 []; OSched KRel 16 PDefault 5 0 []; OSched KAbs (-8) PDefault 6 0 []].

Example C14_user_code_example :
  let r := run_state ex14_cfg 50 (init ex14_cfg) (ex14b_ops ++ [ORunUntil 24]) in
  map e_tag (execs (snd r)) = [1; 2; 5] /\ clocks (snd r) = [8; 8; 16] /\ cancels (snd r) = [4] /\
  s_time (fst r) = 24 /\ s_events (fst r) = [] /\
  ops_ok ex14_cfg 50 (init ex14_cfg) (ex14b_ops ++ [ORunUntil 24]).
Proof.
  cbv zeta. repeat split; try (vm_compute; reflexivity).
  all: vm_compute; discriminate.
Qed.

(* a rejected call: past at a DEVSimulator, wrong unit at an ABMSimulator *)
Example C14_rejected_example :
  snd (do_sched ex14_cfg (set_time (init ex14_cfg) 16) KAbs 8 PDefault 1 0 []) = R_PAST /\
  snd (do_sched {| c_abm := true; c_script := [] |} (init {| c_abm := true; c_script := [] |}) KRel 4 PDefault 1 0 []) = R_UNIT /\
  snd (do_sched ex14_cfg (init ex14_cfg) KRel (-4) PDefault 1 0 []) = R_PAST.
Proof. repeat split; vm_compute; reflexivity. Qed.

(* a watched event that survives: event 5 of the second example *)
Example C14_watch_example :
  let st := final ex14_cfg 50 (init ex14_cfg) ex14b_ops in
  exists x, watch x st /\ e_tag x = 5 /\ e_time x <= 24 /\
            survives x (snd (fst (run_loop ex14_cfg 50 24 st))) /\ snd (run_loop ex14_cfg 50 24 st) = true.
Proof.
  cbv zeta.
  exists (mk_event 16 PDefault 2 5 0 false []).
  split; [|split; [reflexivity|split; [vm_compute; discriminate|split; [|vm_compute; reflexivity]]]].
  - unfold watch. repeat split; try reflexivity. vm_compute. auto 10.
  - unfold survives. split; vm_compute; intuition discriminate.
Qed.

(* a life cycle: ABM set up, run to tick 2, reset, a run call without a model (refused), an event scheduled, setup refused
   (events pending), reset, setup accepted, run to tick 1: the step counter restarts with the new model *)
Definition exl_cfg : config := {| c_abm := true; c_script := [] |}.
Definition exl_ops : list xop :=
  [XOp (OSched KAbs 8 PDefault 1 0 []); XOp (ORunUntil 16); XSetup; XReset; XOp ORunNext;
   XOp (OSched KAbs 8 PDefault 2 0 []); XSetup; XReset; XSetup; XOp (ORunUntil 8); XOp (OCancel 1)].
Example C14_lifecycle_example :
  map (fun o => firstn 2 o) (run_xcase {| x_cfg := exl_cfg; x_setup := true; x_fuel := 50%nat; x_ops := exl_ops |})
  = [[0; 0]; [0; 16]; [-1; E_SETUP_TIME]; [0; 0]; [-1; E_NOSETUP]; [0; 0]; [-1; E_SETUP_EVENTS]; [0; 0]; [0; 0]; [0; 8]; [0; 8]] /\
  s_steps (m_st (xfinal exl_cfg 50 (xinit exl_cfg true) exl_ops)) = 1 /\
  xops_ok exl_cfg 50 (xinit exl_cfg true) exl_ops.
Proof.
  split; [vm_compute; reflexivity|]. split; [vm_compute; reflexivity|].
  cbn [xops_ok exl_ops xop_ok]. repeat split; vm_compute; discriminate.
Qed.

(* the boundary: DEVS at clock 2, run_until(1) moves the clock back to 1 and then accepts an event for 1.5 *)
Example C14_boundary_example :
  let st := final ex14_cfg 50 (init ex14_cfg) [ORunUntil 16] in
  inv st /\ 8 < s_time st /\ s_time (fst (fst (run_loop ex14_cfg 1 8 st))) = 8 /\
  snd (do_sched ex14_cfg (fst (fst (run_loop ex14_cfg 1 8 st))) KAbs 12 PDefault 1 0 []) = R_OK.
Proof. cbv zeta. split; [apply inv_final|]. repeat split; vm_compute; reflexivity. Qed.

(* a user callable that raises: event 1 (time 1) schedules event 2 and raises before cancelling event 3; run_until(3)
   propagates the exception with the clock at 1; the next run_until(3) executes 2 and 3 *)
Example C14_raise_example :
  let ops := [OSched KAbs 8 PDefault 1 0 [ASched KRel 8 PDefault 2 0 []; ARaise; ACancel 3];
              OSched KAbs 24 PDefault 3 0 []; ORunUntil 24; ORunUntil 24] in
  map (fun o => firstn 3 o) (run_ops ex14_cfg 50 (init ex14_cfg) ops) = [[0; 0; 0]; [0; 0; 0]; [-1; E_USER; 8]; [0; 24; 0]] /\
  map e_tag (execs (snd (run_state ex14_cfg 50 (init ex14_cfg) ops))) = [1; 2; 3] /\
  has_raise (snd (run_state ex14_cfg 50 (init ex14_cfg) ops)) = true.
Proof. cbv zeta. repeat split; vm_compute; reflexivity. Qed.
