(* C06 - cell spaces: agent.cell and cell.agents always mirror; capacity holds; every emptiness view agrees.
   Also the cell-space sites of C18 (C18_cellspace_atomic...): a rejected call changes nothing.
   ONLY statements closed by `exact`, Print Assumptions beneath each, an Example of non-vacuity per theorem.

   All theorems are for EVERY environment e: any number of cells, any connection function e_conn (so every
   orthogonal Moore / von Neumann grid in any dimension, hex grid, network, Voronoi mesh, torus or not), any
   per-cell capacity None / k >= 0, any assignment of agent classes, any direction table; and for EVERY
   history ops (exec e init ops is the state after running ops from the fresh space), including rejected
   operations, operations on removed agents and arbitrary recorded random outcomes. *)
From Coq Require Import ZArith List Bool.
From Coq Require Import Permutation.
From Mesa Require Import Common.ListX Generated.Tables Model.CellSpace Model.CellSpaceX Proofs.CellSpaceProofs Proofs.CellSpaceRefine Proofs.CellSpaceBridge Proofs.CellSpaceXProofs.
Import ListNotations.
Open Scope Z_scope.

(* the agent is listed in exactly the cell it reports: for every agent still in the model (and every
   CellAgent even after removal) *)
Theorem C06_mirror : forall e ops, caps_ok e ->
  let s := exec e init ops in
  forall a c, reg s a = true \/ e_kind e a <> KFixed ->
    (ptr s a = Some c <-> In a (content s c)).
Proof. exact mirror_all. Qed.
Print Assumptions C06_mirror.

(* ... exactly once, and in no other cell *)
Theorem C06_listed_once : forall e ops, caps_ok e ->
  let s := exec e init ops in
  forall a c, In a (content s c) ->
    ptr s a = Some c /\ count_occ Z.eq_dec (content s c) a = 1%nat /\
    (forall c', In a (content s c') -> c' = c).
Proof. exact listed_once_all. Qed.
Print Assumptions C06_listed_once.

(* a cell only ever lists agents of the history (1 .. nagents) *)
Theorem C06_only_known_agents : forall e ops a c, caps_ok e ->
  In a (content (exec e init ops) c) -> in_agents e a = true.
Proof. exact listed_known. Qed.
Print Assumptions C06_only_known_agents.

(* the chain of all cells' agent lists (all_cells.agents) has no duplicates *)
Theorem C06_space_lists_once : forall e ops, caps_ok e -> NoDup (all_agents e (exec e init ops)).
Proof. exact space_lists_once_all. Qed.
Print Assumptions C06_space_lists_once.

(* a cell never holds more agents than its capacity *)
Theorem C06_capacity : forall e ops, caps_ok e ->
  forall c k, e_cap e c = Some k -> 0 < k -> zlen (content (exec e init ops) c) <= k.
Proof. exact capacity_all. Qed.
Print Assumptions C06_capacity.

(* all emptiness views agree with the cells' agent lists: the stored 'empty' flag / layer, is_empty, is_full,
   empties, space.agents; an empty cell is reported by no agent of the model, a non-empty one by one it lists *)
Theorem C06_views_agree : forall e ops, caps_ok e ->
  let s := exec e init ops in
  (forall c, flag s c = is_empty s c) /\
  (forall c, is_empty s c = true <-> content s c = []) /\
  (forall c, is_full e s c = true <-> e_cap e c = Some (zlen (content s c))) /\
  (forall c, In c (empties e s) <-> In c (cells_dom e) /\ content s c = []) /\
  (forall a, In a (space_agents e s) <-> exists c, In c (cells_dom e) /\ In a (content s c)) /\
  (forall c a, is_empty s c = true -> reg s a = true \/ e_kind e a <> KFixed -> ptr s a <> Some c) /\
  (forall c, is_empty s c = false -> exists a, In a (content s c) /\ ptr s a = Some c).
Proof. exact views_agree_all. Qed.
Print Assumptions C06_views_agree.

(* select_random_empty_cell, under both strategies and for every outcome the model accepts: the cell is a cell
   of the space, holds no agents, is flagged empty, is in empties, no agent reports it, and has room *)
Theorem C06_random_empty_is_empty : forall e ops tr out c r, caps_ok e ->
  let s := exec e init ops in
  random_empty e s tr out = (Some c, r) ->
  out = Some c /\ r = Ok [c] /\ In c (cells_dom e) /\ content s c = [] /\ flag s c = true /\
  In c (empties e s) /\ rejects e s c = false /\
  (forall a, reg s a = true \/ e_kind e a <> KFixed -> ptr s a <> Some c).
Proof. exact random_empty_all. Qed.
Print Assumptions C06_random_empty_is_empty.

(* ... and every cell without agents is an accepted outcome, under both strategies (the model does not
   restrict the implementation's random choice) *)
Theorem C06_random_empty_complete : forall e s tr c,
  In c (cells_dom e) -> content s c = [] -> random_empty e s tr (Some c) = (Some c, Ok [c]).
Proof. exact random_empty_complete. Qed.
Print Assumptions C06_random_empty_complete.

(* placing into the returned cell is never rejected as full *)
Theorem C06_place_random_empty_never_full : forall e ops a tr out s' k, caps_ok e ->
  step e (exec e init ops) (PlaceRandomEmpty a tr out) = (s', Err k) ->
  k = E_FIXED \/ k = E_LOOP \/ k = E_NOEMPTY.
Proof. exact place_random_all. Qed.
Print Assumptions C06_place_random_empty_never_full.

(* removing an agent from the model takes it out of its cell (whatever remove() returns) *)
Theorem C06_remove_detaches : forall e ops a s' r, caps_ok e -> in_agents e a = true ->
  step e (exec e init ops) (Remove a) = (s', r) ->
  (forall c, ~ In a (content s' c)) /\ reg s' a = false /\
  (e_kind e a <> KFixed -> ptr s' a = None /\ r = Ok []).
Proof. exact remove_detaches_all. Qed.
Print Assumptions C06_remove_detaches.

(* model.remove_all_agents() never fails half-way, unregisters every agent, and leaves in the cells only agents that
   had left the model before the call *)
Theorem C06_remove_all_detaches : forall e ops s' r, caps_ok e ->
  let s := exec e init ops in
  step e s RemoveAll = (s', r) ->
  r = Ok [] /\
  (forall a, in_agents e a = true -> reg s' a = false) /\
  (forall a x, In a (content s' x) -> In a (content s x) /\ (in_agents e a = true -> reg s a = false)).
Proof. exact remove_all_all. Qed.
Print Assumptions C06_remove_all_detaches.

(* a rejection is always justified: agent.cell = tgt is refused only because the target holds exactly `capacity`
   agents and the agent is not one of them, or because a FixedAgent already has a cell (or is given None) *)
Theorem C06_rejection_justified : forall e ops a tgt s' k, caps_ok e ->
  let s := exec e init ops in
  step e s (SetCell a tgt) = (s', Err k) ->
  (k = E_FULL /\ ptr s a <> tgt /\ full_for e s tgt)
  \/ (k = E_FIXED /\ e_kind e a = KFixed /\ ptr s a <> None)
  \/ (k = E_ATTR /\ e_kind e a = KFixed /\ ptr s a = None /\ tgt = None).
Proof. exact rejection_justified_all. Qed.
Print Assumptions C06_rejection_justified.

(* ... and a move only because of a full target, a missing cell in that direction, no current cell, or an unknown name *)
Theorem C06_move_rejection_justified : forall e ops o s' k, caps_ok e ->
  let s := exec e init ops in
  (exists a c, o = MoveTo a c) \/ (exists a d, o = MoveRel a d) \/ (exists a name n, o = Move2D a name n) ->
  step e s o = (s', Err k) ->
  (k = E_FULL /\ exists c, full_for e s (Some c)) \/ k = E_NODIR \/ k = E_ATTR \/ k = E_BADDIR.
Proof. exact move_rejection_justified_all. Qed.
Print Assumptions C06_move_rejection_justified.

(* ---- the direction table of Grid2DMovingAgent.move, re-extracted from the source on every run (T1):
   keys are lower-case and distinct, every vector is a king's move; hence every entry is found under its own
   name in any ASCII case, and a name outside the table is rejected before anything moves *)
Theorem C06_direction_map_wellformed : dirmap_ok gen_direction_map = true.
Proof. vm_compute. reflexivity. Qed.
Print Assumptions C06_direction_map_wellformed.

Theorem C06_direction_names_case_insensitive : forall name k v,
  In (k, v) gen_direction_map -> lower name = k ->
  lookup_dir gen_direction_map (lower name) = Some v /\ vec_ok v = true.
Proof. exact (fun name k v => dirmap_case_insensitive gen_direction_map name k v C06_direction_map_wellformed). Qed.
Print Assumptions C06_direction_names_case_insensitive.

(* n, s, e, w, ne, nw, se, sw mean (row, column) steps with north = row - 1 and east = column + 1 *)
Theorem C06_direction_map_compass :
  map (lookup_dir gen_direction_map) [[110]; [115]; [101]; [119]; [110; 101]; [110; 119]; [115; 101]; [115; 119]] =
  [Some [-1; 0]; Some [1; 0]; Some [0; 1]; Some [0; -1]; Some [-1; 1]; Some [-1; -1]; Some [1; 1]; Some [1; -1]].
Proof. vm_compute. reflexivity. Qed.
Print Assumptions C06_direction_map_compass.

(* ---- the tie to what is executed: for every case the harness can print with capacities None / >= 0, the
   environment built from the case satisfies the hypothesis of all theorems above, run_case's output is the list of
   observations of the successive states, and each of those states satisfies the invariant *)
Theorem C06_run_case_covered : forall c, case_ok c = true ->
  let e := env_of_case c in
  caps_ok e /\
  run_case c = map (fun sr => obs e (fst sr) (snd sr)) (trace e init (c_ops c)) /\
  Forall (fun sr => Inv e (fst sr)) (trace e init (c_ops c)).
Proof. exact run_case_covered. Qed.
Print Assumptions C06_run_case_covered.

(* ---- C18, cell-space sites: a call that raises leaves the whole observation unchanged.
   The general statement covers every operation; the named ones are its instances for the sites listed
   in DESIGN.md (cell setter into a full cell, FixedCell setter, move_relative, Grid2DMovingAgent.move). *)
Theorem C18_cellspace_atomic : forall e ops o s' k, caps_ok e ->
  step e (exec e init ops) o = (s', Err k) ->
  view e s' = view e (exec e init ops) /\ eqv (exec e init ops) s'.
Proof. exact atomic_all. Qed.
Print Assumptions C18_cellspace_atomic.

Theorem C18_cellspace_atomic_step : forall e, caps_ok e -> forall s o s' k, Inv e s ->
  step e s o = (s', Err k) -> view e s' = view e s.
Proof. exact step_err_view. Qed.
Print Assumptions C18_cellspace_atomic_step.

Theorem C18_cellspace_atomic_cell_setter : forall e ops a tgt s' k, caps_ok e ->
  step e (exec e init ops) (SetCell a tgt) = (s', Err k) ->
  view e s' = view e (exec e init ops) /\ eqv (exec e init ops) s'.
Proof. exact (fun e ops a tgt => atomic_all e ops (SetCell a tgt)). Qed.
Print Assumptions C18_cellspace_atomic_cell_setter.

Theorem C18_cellspace_atomic_move_to : forall e ops a c s' k, caps_ok e ->
  step e (exec e init ops) (MoveTo a c) = (s', Err k) ->
  view e s' = view e (exec e init ops) /\ eqv (exec e init ops) s'.
Proof. exact (fun e ops a c => atomic_all e ops (MoveTo a c)). Qed.
Print Assumptions C18_cellspace_atomic_move_to.

Theorem C18_cellspace_atomic_move_relative : forall e ops a d s' k, caps_ok e ->
  step e (exec e init ops) (MoveRel a d) = (s', Err k) ->
  view e s' = view e (exec e init ops) /\ eqv (exec e init ops) s'.
Proof. exact (fun e ops a d => atomic_all e ops (MoveRel a d)). Qed.
Print Assumptions C18_cellspace_atomic_move_relative.

Theorem C18_cellspace_atomic_move2d : forall e ops a name n s' k, caps_ok e ->
  step e (exec e init ops) (Move2D a name n) = (s', Err k) ->
  view e s' = view e (exec e init ops) /\ eqv (exec e init ops) s'.
Proof. exact (fun e ops a name n => atomic_all e ops (Move2D a name n)). Qed.
Print Assumptions C18_cellspace_atomic_move2d.

Theorem C18_cellspace_atomic_remove : forall e ops a s' k, caps_ok e ->
  step e (exec e init ops) (Remove a) = (s', Err k) ->
  view e s' = view e (exec e init ops) /\ eqv (exec e init ops) s'.
Proof. exact (fun e ops a => atomic_all e ops (Remove a)). Qed.
Print Assumptions C18_cellspace_atomic_remove.

(* ... and is invisible to the rest of the history: every later observation is the one the history without the
   rejected call would give (C18_continue of DESIGN.md) *)
Theorem C18_cellspace_atomic_continue : forall e s o s' k rest, caps_ok e -> Inv e s ->
  step e s o = (s', Err k) -> run_ops e s' rest = run_ops e s rest.
Proof. exact rejected_then_continue. Qed.
Print Assumptions C18_cellspace_atomic_continue.

(* ---- refinement: the model implements the counting specification astep (CellSpaceRefine.v: a partial map
   agent -> cell, a cell is full when the NUMBER OF AGENTS mapped to it reaches the capacity - the shadow dictionary of
   the Python oracle).  For every history: the same result for every operation, the same agent.cell and registration,
   and every cell lists, up to order, exactly the agents the specification maps to it. *)
Theorem C06_refines_counting_spec : forall e ops, caps_ok e ->
  let s := exec e init ops in let t := aexec e ainit ops in
  results_of e init ops = aresults e ainit ops /\
  (forall a, ptr s a = a_loc t a) /\ (forall a, reg s a = a_reg t a) /\
  (forall c, Permutation (content s c) (occupants e t c)) /\
  (forall c, zlen (content s c) = zlen (occupants e t c)).
Proof. exact refines_spec. Qed.
Print Assumptions C06_refines_counting_spec.

(* ---- code-level T1: the methods themselves, TRANSLATED from the working tree on every run
   (harness/tables/cellspace_code.py -> Generated.Tables, the gen_ definitions), are the functions of the model ... *)
Theorem C06_source_is_empty : forall s c, is_empty s c = gen_is_empty s c.
Proof. exact is_empty_bridge. Qed.
Print Assumptions C06_source_is_empty.

Theorem C06_source_is_full : forall e s c, is_full e s c = gen_is_full e s c.
Proof. exact is_full_bridge. Qed.
Print Assumptions C06_source_is_full.

Theorem C06_source_add_agent : forall e s c a, add_agent e s c a = gen_add_agent e s c a.
Proof. exact add_agent_bridge. Qed.
Print Assumptions C06_source_add_agent.

Theorem C06_source_remove_agent : forall e s c a, remove_agent s c a = gen_remove_agent e s c a.
Proof. exact remove_agent_bridge. Qed.
Print Assumptions C06_source_remove_agent.

Theorem C06_source_cell_setter : forall e s a tgt, set_cell e s a tgt = to_res (gen_cell_setter e s a tgt).
Proof. exact set_cell_bridge. Qed.
Print Assumptions C06_source_cell_setter.

Theorem C06_source_fixed_setter : forall e s a tgt, fixed_set e s a tgt = to_res (gen_fixed_setter e s a tgt).
Proof. exact fixed_set_bridge. Qed.
Print Assumptions C06_source_fixed_setter.

Theorem C06_source_move_to : forall e s a c, set_cell e s a (Some c) = to_res (gen_move_to e s a (Some c)).
Proof. exact move_to_bridge. Qed.
Print Assumptions C06_source_move_to.

Theorem C06_source_move_relative : forall e s a d, move_relative e s a d = to_res (gen_move_relative e s a d).
Proof. exact move_relative_bridge. Qed.
Print Assumptions C06_source_move_relative.

Theorem C06_source_move2d : forall e s a name k, move2d e s a name k = to_res (gen_move2d e s a name k).
Proof. exact move2d_bridge. Qed.
Print Assumptions C06_source_move2d.

Theorem C06_source_remove : forall e s a, remove e s a = to_res (gen_remove e s a).
Proof. exact remove_bridge. Qed.
Print Assumptions C06_source_remove.

Theorem C06_source_empties : forall e s, empties e s = gen_empties e s.
Proof. exact empties_bridge. Qed.
Print Assumptions C06_source_empties.

Theorem C06_source_random_empty : forall e s tr out, random_empty e s tr out = gen_random_empty e s tr out.
Proof. exact random_empty_bridge. Qed.
Print Assumptions C06_source_random_empty.

(* the statements that cannot be translated (property getters `return self._mesa_cell` and the class bases the
   dispatch relies on; the random draws and `while True` around the translated acceptance test) are verbatim *)
Theorem C06_source_skeletons : gen_cell_getters_ok = true /\ gen_random_empty_skeleton_ok = true.
Proof. split; reflexivity. Qed.
Print Assumptions C06_source_skeletons.

(* ... hence one step of the model is one step over the translated methods *)
Theorem C06_source_step : forall e s o, step e s o = gen_step e s o.
Proof. exact step_bridge. Qed.
Print Assumptions C06_source_step.

(* ---- and the headline theorems hold of the translated source code: gen_exec runs a history with the methods as
   they are in the working tree *)
Theorem C06_mirror_of_source : forall e ops, caps_ok e ->
  let s := gen_exec e init ops in
  forall a c, reg s a = true \/ e_kind e a <> KFixed -> (ptr s a = Some c <-> In a (content s c)).
Proof. exact mirror_of_source. Qed.
Print Assumptions C06_mirror_of_source.

Theorem C06_capacity_of_source : forall e ops, caps_ok e ->
  forall c k, e_cap e c = Some k -> 0 < k -> zlen (content (gen_exec e init ops) c) <= k.
Proof. exact capacity_of_source. Qed.
Print Assumptions C06_capacity_of_source.

Theorem C06_views_agree_of_source : forall e ops, caps_ok e ->
  let s := gen_exec e init ops in
  (forall c, flag s c = gen_is_empty s c) /\
  (forall c, gen_is_empty s c = true <-> content s c = []) /\
  (forall c, gen_is_full e s c = true <-> e_cap e c = Some (zlen (content s c))) /\
  (forall c, In c (gen_empties e s) <-> In c (cells_dom e) /\ content s c = []).
Proof. exact views_of_source. Qed.
Print Assumptions C06_views_agree_of_source.

Theorem C06_random_empty_of_source : forall e ops tr out c r, caps_ok e ->
  let s := gen_exec e init ops in
  gen_random_empty e s tr out = (Some c, r) ->
  content s c = [] /\ flag s c = true /\ In c (gen_empties e s) /\
  (forall a, reg s a = true \/ e_kind e a <> KFixed -> ptr s a <> Some c).
Proof. exact random_empty_of_source. Qed.
Print Assumptions C06_random_empty_of_source.

Theorem C18_cellspace_atomic_of_source : forall e ops o s' k, caps_ok e ->
  gen_step e (gen_exec e init ops) o = (s', Err k) ->
  view e s' = view e (gen_exec e init ops) /\ eqv (gen_exec e init ops) s'.
Proof. exact atomic_of_source. Qed.
Print Assumptions C18_cellspace_atomic_of_source.

(* the translated cell setter itself raises only "full", and then nothing has changed *)
Theorem C18_cellspace_source_setter_atomic : forall e s a tgt s' k,
  caps_ok e -> Inv e s -> e_kind e a <> KFixed ->
  gen_cell_setter e s a tgt = (s', Some k) -> eqv s s' /\ k = E_FULL.
Proof. exact source_setter_atomic. Qed.
Print Assumptions C18_cellspace_source_setter_atomic.

Theorem C18_cellspace_source_fixed_setter_atomic : forall e s a tgt s' k,
  caps_ok e -> Inv e s -> gen_fixed_setter e s a tgt = (s', Some k) -> eqv s s'.
Proof. exact source_fixed_setter_atomic. Qed.
Print Assumptions C18_cellspace_source_fixed_setter_atomic.

(* ---- non-vacuity: one concrete space (2x2 von Neumann grid without torus, capacity 1; agents: CellAgent 1, 2,
   FixedAgent 3, Grid2DMovingAgent 4) on which the hypotheses hold and every rejecting site really rejects *)
Definition ex_case (ops : list op) : case :=
  {| c_ncells := 4; c_caps := [Some 1; Some 1; Some 1; Some 1];
     c_conn := [([-1; 0], [-1; -1; 0; 1]); ([1; 0], [2; 3; -1; -1]); ([0; 1], [1; -1; 3; -1]); ([0; -1], [-1; 0; -1; 2])];
     c_grid := true; c_kinds := [KCell; KCell; KFixed; KGrid2D]; c_ops := ops |}.
Definition ex_env : env := env_of_case (ex_case []).
Definition ex_ops : list op := [SetCell 1 (Some 0); SetCell 2 (Some 1); SetCell 4 (Some 2)].
Definition results (e : env) (ops : list op) (o : op) : result := snd (step e (exec e init ops) o).

Example C06_example_caps_ok : caps_ok ex_env.
Proof.
  intros c k. unfold ex_env, env_of_case, ex_case. cbn [e_cap c_ncells c_caps].
  destruct ((0 <=? c) && (c <? 4)); [|discriminate].
  destruct (Z.to_nat c) as [|[|[|[|[|n]]]]]; simpl; intros H; inversion H; discriminate.
Qed.

(* ================= round 3: breadth (Model/CellSpaceX.v: xstep / xexec extend step / exec by direct cell calls,
   agents created mid-history, CellCollection views, fractional capacities; xrun_case is what the correspondence runs) *)

(* (1) DIRECT calls of cell.add_agent / cell.remove_agent bypass agent.cell.  What survives them - for EVERY history,
   direct calls included: the capacity bound, flag/layer = emptiness, empties, only created agents are listed, and the
   empties collection never has agents. *)
Theorem C06_mirror_partial_direct_calls : forall e n ops, caps_ok e -> 0 <= n ->
  let x := xexec e (xinit n) ops in let s := xs x in
  (forall c k, e_cap e c = Some k -> 0 < k -> zlen (content s c) <= k) /\
  (forall c, flag s c = is_empty s c) /\
  (forall c, In c (empties e s) <-> In c (cells_dom e) /\ content s c = []) /\
  (forall a c, In a (content s c) -> 1 <= a <= born x) /\
  coll_agents e s CEmpties = [].
Proof. exact raw_calls_partial. Qed.
Print Assumptions C06_mirror_partial_direct_calls.

(* ... and what does not: the mirror itself is refuted by direct calls (the agent is listed in two cells while
   agent.cell is still None) *)
Theorem C06_mirror_refuted_by_direct_calls :
  exists e ops, caps_ok e /\
    let s := xs (xexec e (xinit 2) ops) in
    In 1 (content s 0) /\ In 1 (content s 1) /\ ptr s 1 = None /\ reg s 1 = true.
Proof.
  exists ex_env, [CellAdd 0 1; CellAdd 1 1].
  split; [exact C06_example_caps_ok|]. vm_compute. repeat split; left; reflexivity.
Qed.
Print Assumptions C06_mirror_refuted_by_direct_calls.

(* (2) histories WITHOUT direct calls - API operations of all three agent classes, agents created in the middle,
   collection queries: the full statement (this generalises C06_mirror / C06_listed_once / C06_capacity) *)
Theorem C06_mirror_growing_population : forall e n ops, caps_ok e -> api_only ops = true ->
  let s := xs (xexec e (xinit n) ops) in
  Inv e s /\
  (forall a c, reg s a = true \/ e_kind e a <> KFixed -> (ptr s a = Some c <-> In a (content s c))) /\
  (forall a c, In a (content s c) ->
     count_occ Z.eq_dec (content s c) a = 1%nat /\ forall c', In a (content s c') -> c' = c) /\
  (forall c k, e_cap e c = Some k -> 0 < k -> zlen (content s c) <= k) /\
  NoDup (coll_agents e s CAll).
Proof. exact x_mirror. Qed.
Print Assumptions C06_mirror_growing_population.

Theorem C06_new_agent_is_nowhere : forall e n ops x' r, caps_ok e -> 0 <= n ->
  let x := xexec e (xinit n) ops in
  xstep e x NewAgent = (x', r) -> r <> NotApplicable ->
  born x' = born x + 1 /\ xs x' = xs x /\ r = Ok [born x'] /\ forall c, ~ In (born x') (content (xs x') c).
Proof. exact new_agent_fresh. Qed.
Print Assumptions C06_new_agent_is_nowhere.

Theorem C18_cellspace_atomic_growing_population : forall e frac n ops o x' k, caps_ok e -> api_only ops = true ->
  let x := xexec e (xinit n) ops in
  xstep e x o = (x', Err k) -> xview e frac x' = xview e frac x /\ eqv (xs x) (xs x').
Proof. exact x_atomic. Qed.
Print Assumptions C18_cellspace_atomic_growing_population.

(* (3) all_cells / empties as CellCollection: cells, agents, select_random_cell, select_random_agent are exact *)
Theorem C06_collection_cells_exact : forall e s w c,
  (In c (coll_cells e s w) <-> In c (cells_dom e) /\ (w = CEmpties -> content s c = [])) /\ NoDup (coll_cells e s w).
Proof. exact (fun e s w c => conj (coll_cells_spec e s w c) (coll_cells_NoDup e s w)). Qed.
Print Assumptions C06_collection_cells_exact.

Theorem C06_collection_agents_exact : forall e s w a,
  In a (coll_agents e s w) <-> exists c, In c (coll_cells e s w) /\ In a (content s c).
Proof. exact coll_agents_spec. Qed.
Print Assumptions C06_collection_agents_exact.

Theorem C06_collection_random_cell : forall e x w out x' r,
  xstep e x (CollRandomCell w out) = (x', Ok r) ->
  x' = x /\ exists c, out = Some c /\ r = [c] /\ In c (cells_dom e) /\ (w = CEmpties -> content (xs x) c = []).
Proof. exact coll_random_spec. Qed.
Print Assumptions C06_collection_random_cell.

Theorem C06_collection_random_agent : forall e x w out x' r,
  xstep e x (CollRandomAgent w out) = (x', Ok r) ->
  x' = x /\ exists a c, out = Some a /\ r = [a] /\ In c (cells_dom e) /\ In a (content (xs x) c) /\ w = CAll.
Proof. exact coll_random_agent_spec. Qed.
Print Assumptions C06_collection_random_agent.

Theorem C06_collection_choice_complete : forall l x, In x l -> choice l (Some x) = Ok [x].
Proof. exact choice_complete. Qed.
Print Assumptions C06_collection_choice_complete.

(* (4) documented boundary: capacity 0 never rejects and calls the EMPTY cell full; a fractional capacity num/den admits
   exactly like ceil(num/den) and is never full; an integral one is the integer capacity *)
Theorem C06_capacity_zero_boundary : forall e s c,
  e_cap e c = Some 0 -> rejects e s c = false /\ is_full e s c = is_empty s c.
Proof. exact capacity_zero. Qed.
Print Assumptions C06_capacity_zero_boundary.

Theorem C06_float_capacity_boundary : forall num den n, 0 < den -> 0 < num ->
  q_rejects num den n = (n >=? q_ceil num den) /\ (num mod den <> 0 -> q_full num den n = false).
Proof. exact (fun num den n Hd Hn => conj (q_rejects_ceil num den n Hd Hn) (q_full_frac num den n Hd)). Qed.
Print Assumptions C06_float_capacity_boundary.

Theorem C06_integral_float_capacity : forall k den n, 0 < den ->
  q_rejects (k * den) den n = (negb (k =? 0) && (n >=? k)) /\ q_full (k * den) den n = (n =? k).
Proof. exact q_integral. Qed.
Print Assumptions C06_integral_float_capacity.

(* ================= round 4 *)
(* CellCollection.select(filter_func, at_most) on all_cells / empties (same statement shape as AgentSet.select, C03): the
   counting generator with `break` returns the first `limit` members, in collection order, that pass the filter *)
Theorem C06_select_spec : forall e s w p am,
  coll_select e s w p am =
  match limit_of (zlen (coll_cells e s w)) am with
  | None => filter (cpred_eval s p) (coll_cells e s w)
  | Some k => firstn (Z.to_nat k) (filter (cpred_eval s p) (coll_cells e s w))
  end.
Proof. exact select_spec. Qed.
Print Assumptions C06_select_spec.

(* members that pass the filter, no duplicates, at most the limit, everybody when the limit is large or infinite *)
Theorem C06_select_exact : forall e s w p am,
  let r := coll_select e s w p am in
  (forall c, In c r -> In c (coll_cells e s w) /\ cpred_eval s p c = true) /\
  NoDup r /\
  (forall k, limit_of (zlen (coll_cells e s w)) am = Some k -> 0 <= k -> zlen r <= k) /\
  (forall k, limit_of (zlen (coll_cells e s w)) am = Some k ->
             zlen (filter (cpred_eval s p) (coll_cells e s w)) <= k -> r = filter (cpred_eval s p) (coll_cells e s w)) /\
  (am = AInf -> r = filter (cpred_eval s p) (coll_cells e s w)).
Proof. exact select_exact. Qed.
Print Assumptions C06_select_exact.

Theorem C06_select_fraction_floor : forall len num den, 0 < den -> 0 <= num <= den -> 0 <= len ->
  limit_of len (AFrac num den) = Some (len * num / den) /\ 0 <= len * num / den <= len.
Proof. exact select_fraction_floor. Qed.
Print Assumptions C06_select_fraction_floor.

(* Cell.connect / Cell.disconnect edit the LIVE connections that move_relative / move read (env_x): *)
Theorem C06_connect_spec : forall e x c other key x' r,
  xstep e x (Connect c other key) = (x', r) -> r <> NotApplicable ->
  xs x' = xs x /\ born x' = born x /\
  e_conn (env_x e (born x') (ov x')) c key = Some other /\
  (forall c' d', (c, key) <> (c', d') ->
     e_conn (env_x e (born x') (ov x')) c' d' = e_conn (env_x e (born x) (ov x)) c' d').
Proof. exact connect_spec. Qed.
Print Assumptions C06_connect_spec.

Theorem C06_disconnect_spec : forall e x c other ks x' r,
  xstep e x (Disconnect c other ks) = (x', r) -> r <> NotApplicable ->
  xs x' = xs x /\ born x' = born x /\
  (forall d, In d ks -> e_conn (env_x e (born x') (ov x')) c d <> Some other) /\
  (forall c' d, c' <> c \/ e_conn (env_x e (born x) (ov x)) c' d <> Some other ->
     e_conn (env_x e (born x') (ov x')) c' d = e_conn (env_x e (born x) (ov x)) c' d).
Proof. exact disconnect_spec. Qed.
Print Assumptions C06_disconnect_spec.
(* histories with connect / disconnect are histories without direct cell calls: C06_mirror_growing_population and
   C18_cellspace_atomic_growing_population above cover them (the invariant does not read the connections). *)

Example C06_example_mirror_capacity_views :
  let s := exec ex_env init ex_ops in
  ptr s 1 = Some 0 /\ content s 0 = [1] /\ content s 1 = [2] /\ content s 2 = [4] /\ reg s 1 = true /\
  zlen (content s 1) = 1 /\ e_cap ex_env 1 = Some 1 /\
  empties ex_env s = [3] /\ is_full ex_env s 0 = true /\ flag s 3 = true /\ flag s 0 = false /\
  space_agents ex_env s = [1; 2; 4] /\ all_agents ex_env s = [1; 2; 4].
Proof. vm_compute. repeat split; reflexivity. Qed.

Example C06_example_random_empty :
  random_empty ex_env (exec ex_env init ex_ops) true (Some 3) = (Some 3, Ok [3]) /\
  random_empty ex_env (exec ex_env init ex_ops) false (Some 3) = (Some 3, Ok [3]) /\
  random_empty ex_env (exec ex_env init ex_ops) false (Some 1) = (None, Illegal) /\
  results ex_env (ex_ops ++ [SetCell 3 (Some 3)]) (PlaceRandomEmpty 3 false None) = Err E_NOEMPTY /\
  results ex_env (ex_ops ++ [SetCell 3 (Some 3)]) (PlaceRandomEmpty 1 true None) = Err E_LOOP /\
  results ex_env (ex_ops ++ [SetCell 3 (Some 0)]) (PlaceRandomEmpty 3 false (Some 3)) = Ok [] /\
  results ex_env (ex_ops ++ [SetCell 3 (Some 3)]) (PlaceRandomEmpty 3 false (Some 0)) = Err E_NOEMPTY.
Proof. vm_compute. repeat split; reflexivity. Qed.

Example C06_example_remove :
  results ex_env ex_ops (Remove 1) = Ok [] /\
  content (exec ex_env init (ex_ops ++ [Remove 1])) 0 = [] /\
  results ex_env (ex_ops ++ [SetCell 3 (Some 3); Remove 3]) (Remove 3) = Ok [] /\
  ptr (exec ex_env init (ex_ops ++ [SetCell 3 (Some 3); Remove 3])) 3 = Some 3 /\
  content (exec ex_env init (ex_ops ++ [SetCell 3 (Some 3); Remove 3])) 3 = [].
Proof. vm_compute. repeat split; reflexivity. Qed.

(* every rejecting site does reject on this space: full cell (CellAgent, FixedAgent, move_to, move_relative),
   second cell for a FixedAgent, no cell in that direction, move(north, 3) leaving the grid after one row,
   an invalid name, movement without a cell *)
Example C18_example_rejections :
  results ex_env ex_ops (SetCell 1 (Some 1)) = Err E_FULL /\
  results ex_env ex_ops (SetCell 3 (Some 1)) = Err E_FULL /\
  results ex_env (ex_ops ++ [SetCell 3 (Some 3)]) (SetCell 3 (Some 3)) = Err E_FIXED /\
  results ex_env ex_ops (MoveTo 2 0) = Err E_FULL /\
  results ex_env ex_ops (MoveRel 1 [0; 1]) = Err E_FULL /\
  results ex_env ex_ops (MoveRel 1 [-1; 0]) = Err E_NODIR /\
  results ex_env ex_ops (Move2D 4 [78; 111; 114; 116; 104] 3) = Err E_NODIR /\
  results ex_env ex_ops (Move2D 4 [78; 111; 114; 116; 104] 1) = Err E_FULL /\
  results ex_env ex_ops (Move2D 4 [120] 1) = Err E_BADDIR /\
  results ex_env [] (MoveRel 1 [0; 1]) = Err E_ATTR /\
  results ex_env ex_ops (Move2D 4 [101] 1) = Ok [] /\
  ptr (exec ex_env init (ex_ops ++ [Move2D 4 [101] 1])) 4 = Some 3.
Proof. vm_compute. repeat split; reflexivity. Qed.

Example C06_example_refinement :
  let ops := ex_ops ++ [SetCell 1 (Some 1); SetCell 3 (Some 3); Remove 3; Remove 3; Move2D 4 [110] 1; Remove 1] in
  aresults ex_env ainit ops = [Ok []; Ok []; Ok []; Err E_FULL; Ok []; Ok []; Ok []; Err E_FULL; Ok []] /\
  occupants ex_env (aexec ex_env ainit ops) 1 = [2] /\ occupants ex_env (aexec ex_env ainit ops) 3 = [] /\
  a_loc (aexec ex_env ainit ops) 3 = Some 3 /\ a_dang (aexec ex_env ainit ops) 3 = true.
Proof. vm_compute. repeat split; reflexivity. Qed.

Example C18_example_continue :
  let s := exec ex_env init ex_ops in
  Inv ex_env s /\ snd (step ex_env s (SetCell 1 (Some 1))) = Err E_FULL /\
  run_ops ex_env (fst (step ex_env s (SetCell 1 (Some 1)))) [MoveRel 1 [1; 0]; Remove 2] =
  run_ops ex_env s [MoveRel 1 [1; 0]; Remove 2].
Proof.
  split; [apply reach_inv; exact C06_example_caps_ok|]. vm_compute. split; reflexivity.
Qed.

Example C06_example_direction_names :
  In ([110; 111; 114; 116; 104], [-1; 0]) gen_direction_map /\
  lower [78; 111; 82; 116; 72] = [110; 111; 114; 116; 104] /\
  lookup_dir gen_direction_map (lower [78; 111; 82; 116; 72]) = Some [-1; 0] /\
  lookup_dir gen_direction_map (lower [120]) = None.
Proof. vm_compute. repeat split; try reflexivity. right. left. reflexivity. Qed.

Example C06_example_remove_all :
  let ops := ex_ops ++ [SetCell 3 (Some 3); Remove 2; SetCell 2 (Some 1)] in
  results ex_env ops RemoveAll = Ok [] /\
  map (content (exec ex_env init (ops ++ [RemoveAll]))) [0; 1; 2; 3] = [[]; [2]; []; []] /\
  map (reg (exec ex_env init (ops ++ [RemoveAll]))) [1; 2; 3; 4] = [false; false; false; false] /\
  empties ex_env (exec ex_env init (ops ++ [RemoveAll])) = [0; 2; 3].
Proof. vm_compute. repeat split; reflexivity. Qed.

Example C06_example_run_case :
  case_ok (ex_case (ex_ops ++ [SetCell 1 (Some 1)])) = true /\
  length (run_case (ex_case (ex_ops ++ [SetCell 1 (Some 1)]))) = 4%nat /\
  firstn 2 (nth 3 (run_case (ex_case (ex_ops ++ [SetCell 1 (Some 1)]))) []) = [-1; E_FULL].
Proof. vm_compute. repeat split; reflexivity. Qed.

Example C06_example_source :
  gen_cell_setter ex_env (gen_exec ex_env init ex_ops) 1 (Some 1) = (set_flag (gen_exec ex_env init ex_ops) 1 false, Some E_FULL) /\
  snd (gen_step ex_env (gen_exec ex_env init ex_ops) (Move2D 4 [78; 111; 114; 116; 104] 3)) = Err E_NODIR /\
  gen_empties ex_env (gen_exec ex_env init ex_ops) = [3] /\
  gen_is_full ex_env (gen_exec ex_env init ex_ops) 0 = true.
Proof. vm_compute. repeat split; reflexivity. Qed.

Example C06_example_round3 :
  let ops := [Api (SetCell 1 (Some 0)); NewAgent; Api (SetCell 5 (Some 3)); CollView CAll; CollRandomAgent CEmpties None;
              CollRandomCell CEmpties (Some 1); CollRandomAgent CAll (Some 5); Api (SetCell 5 (Some 0))] in
  api_only ops = true /\
  born (xexec ex_env (xinit 4) ops) = 4 /\            (* ex_env knows 4 agents: NewAgent is not applicable *)
  map snd [xstep ex_env (xinit 3) NewAgent] = [Ok [4]] /\
  snd (xstep ex_env (xexec ex_env (xinit 4) [Api (SetCell 1 (Some 0))]) (CollView CAll)) = Ok [4; 0; 1; 2; 3; -9; 1] /\
  snd (xstep ex_env (xexec ex_env (xinit 4) [Api (SetCell 1 (Some 0))]) (CollRandomAgent CEmpties None)) = Err E_NOEMPTY /\
  snd (xstep ex_env (xexec ex_env (xinit 4) [Api (SetCell 1 (Some 0))]) (CollRandomCell CEmpties (Some 0))) = Illegal /\
  snd (xstep ex_env (xexec ex_env (xinit 4) [Api (SetCell 1 (Some 0))]) (CellAdd 0 2)) = Err E_FULL /\
  q_rejects 5 2 2 = false /\ q_rejects 5 2 3 = true /\ q_full 5 2 3 = false /\ q_ceil 5 2 = 3.
Proof. vm_compute. repeat split; reflexivity. Qed.

Example C06_example_round4 :
  let x := xexec ex_env (xinit 4) [Api (SetCell 1 (Some 0)); Api (SetCell 4 (Some 2))] in
  coll_select ex_env (xs x) CAll PNonEmpty AInf = [0; 2] /\
  coll_select ex_env (xs x) CAll PAny (AInt 3) = [0; 1; 2] /\
  coll_select ex_env (xs x) CAll PEmpty (AFrac 1 4) = [1] /\
  coll_select ex_env (xs x) CEmpties (PIdxMod 2 1) AInf = [1; 3] /\
  coll_select ex_env (xs x) CAll PAny (AInt (-1)) = [] /\
  (* cell 0 has no connection to the north; after connect(0 -> 3, north) agent 1 moves there; after disconnect it cannot *)
  snd (xstep ex_env x (Api (MoveRel 1 [-1; 0]))) = Err E_NODIR /\
  ptr (xs (xexec ex_env x [Connect 0 3 [-1; 0]; Api (MoveRel 1 [-1; 0])])) 1 = Some 3 /\
  snd (xstep ex_env (xexec ex_env x [Connect 0 3 [-1; 0]; Disconnect 0 3 [[-1; 0]; [1; 0]]]) (Api (MoveRel 1 [-1; 0]))) = Err E_NODIR /\
  snd (xstep ex_env (xexec ex_env x [Connect 0 3 [-1; 0]]) (ConnQuery 0 [[-1; 0]; [1; 0]; [0; 1]])) = Ok [3; 2; 1] /\
  api_only [Connect 0 3 [-1; 0]; Disconnect 0 3 []; CollSelect CAll PAny AInf] = true.
Proof. vm_compute. repeat split; reflexivity. Qed.
