From Coq Require Import ZArith List Bool.
From Mesa Require Import Model.DataCollector Proofs.DataCollectorProofs.
Theorem C12_stub : True. Proof. exact stub. Qed.
Print Assumptions C12_stub.
