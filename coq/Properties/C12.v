(* C12 - DataCollector records exactly what the model showed at each collect.
   ONLY statements closed by `exact`, with Print Assumptions beneath each.
   Vocabulary (Proofs/DataCollectorProofs.v):
     collect_worlds w ops   the model worlds at the Collect operations of the history
     moments cfg ws         those worlds, minus a first collect rejected by the model-reporter validation
     ok_at cfg w            no reporter raises when evaluated at w, every agent-type key is an Agent class
     mval_at / aval_at      the value evaluating a reporter directly yields (deep copy of it)
     row_of w reps a        (w.steps, a.unique_id, values of reps on a)
     type_members w t       the agents the repaired _record_agenttype picks for class t
     accepted cfg ops       the add_table_row calls of the history that name a table and (with
                            ignore_missing=False) carry every column *)
From Coq Require Import ZArith List Bool.
From Mesa Require Import Generated.Tables Model.DataCollector Proofs.DataCollectorProofs Proofs.DataCollectorBridge.
Import ListNotations.
Open Scope Z_scope.

(* For ALL histories and ALL reporter dictionaries (names distinct, as in a Python dict): the whole
   collector state is the function `refines` of the moments and the accepted rows. *)
Theorem C12_refinement : forall cfg ops,
  NoDup (map fst (c_mreps cfg)) -> NoDup (map fst (c_tables cfg)) ->
  forallb (ok_at cfg) (collect_worlds world_init ops) = true ->
  refines cfg (moments cfg (collect_worlds world_init ops)) (accepted cfg ops)
          (s_d (exec cfg (state_init cfg) ops)).
Proof. exact refinement. Qed.
Print Assumptions C12_refinement.

(* one value per model reporter per collect: the reporter's value THEN *)
Theorem C12_model_vars : forall cfg ops,
  NoDup (map fst (c_mreps cfg)) -> NoDup (map fst (c_tables cfg)) ->
  forallb (ok_at cfg) (collect_worlds world_init ops) = true ->
  d_mvars (s_d (exec cfg (state_init cfg) ops)) =
  map (fun p => (fst p, map (fun w => mval_at w (snd p)) (moments cfg (collect_worlds world_init ops))))
      (c_mreps cfg).
Proof. intros cfg ops H1 H2 H3. exact (r_mvars _ _ _ _ (refinement cfg ops H1 H2 H3)). Qed.
Print Assumptions C12_model_vars.

(* ... immune to anything the model does later: operations other than collect / add_table_row
   (attribute writes, in-place list appends, agent churn, steps) never change the collector.
   Unconditional. *)
Theorem C12_immune_to_later_mutation : forall cfg ops1 ops2 s,
  forallb is_world_op ops2 = true ->
  s_d (exec cfg s (ops1 ++ ops2)) = s_d (exec cfg s ops1).
Proof. exact later_mutation_immune. Qed.
Print Assumptions C12_immune_to_later_mutation.

(* under step s: the rows of the LAST collect made while model.steps = s, one per agent registered
   at that moment, in registry order, each (s, unique_id, reporter values) *)
Theorem C12_agent_rows : forall cfg ops s,
  NoDup (map fst (c_mreps cfg)) -> NoDup (map fst (c_tables cfg)) ->
  forallb (ok_at cfg) (collect_worlds world_init ops) = true ->
  aget s (d_arecs (s_d (exec cfg (state_init cfg) ops))) =
  if is_nil (c_areps cfg) then None
  else match last_at s (moments cfg (collect_worlds world_init ops)) with
       | Some w => Some (map (row_of w (c_areps cfg)) (w_agents w))
       | None => None
       end.
Proof.
  intros cfg ops s H1 H2 H3. rewrite (r_arecs _ _ _ _ (refinement cfg ops H1 H2 H3)).
  exact (arecs_lookup cfg _ s).
Qed.
Print Assumptions C12_agent_rows.

(* the registry at every collect has pairwise distinct unique_ids, so "one row per agent" is exact:
   the AgentID column of a collect's rows is the duplicate-free id list of the registry *)
Theorem C12_one_row_per_agent : forall cfg ops w,
  In w (moments cfg (collect_worlds world_init ops)) ->
  NoDup (map a_id (w_agents w)) /\
  map (fun r : row => snd (fst r)) (map (row_of w (c_areps cfg)) (w_agents w)) = map a_id (w_agents w).
Proof.
  intros cfg ops w H. split; [|exact (rows_ids w _ _)].
  apply moments_incl in H.
  pose proof (collect_worlds_reg_ok ops world_init reg_ok_init) as HF.
  rewrite Forall_forall in HF. exact (proj1 (HF w H)).
Qed.
Print Assumptions C12_one_row_per_agent.

(* agent-type reporters: under step s, for every key class t, the rows of the agents of the class *)
Theorem C12_type_rows : forall cfg ops s t reps,
  NoDup (map fst (c_mreps cfg)) -> NoDup (map fst (c_tables cfg)) -> NoDup (map fst (c_treps cfg)) ->
  forallb (ok_at cfg) (collect_worlds world_init ops) = true ->
  aget t (c_treps cfg) = Some reps ->
  match aget s (d_trecs (s_d (exec cfg (state_init cfg) ops))) with
  | Some inner =>
      exists w, last_at s (moments cfg (collect_worlds world_init ops)) = Some w /\
                aget t inner = Some (map (row_of w reps) (type_members w t))
  | None => last_at s (moments cfg (collect_worlds world_init ops)) = None
  end.
Proof.
  intros cfg ops s t reps H1 H2 H3 H4 Ht.
  rewrite (r_trecs _ _ _ _ (refinement cfg ops H1 H2 H4)). rewrite trecs_lookup.
  destruct (c_treps cfg) as [|x l] eqn:E; [discriminate|]. simpl is_nil. cbv iota. rewrite <- E in *.
  destruct (last_at s (moments cfg (collect_worlds world_init ops))) as [w|]; [|reflexivity].
  exists w. split; [reflexivity|]. rewrite tinner_lookup by exact H3. rewrite Ht. reflexivity.
Qed.
Print Assumptions C12_type_rows.

(* ... and within the quantifier (key class without subclassed instances, or without direct
   instances) "the agents of the class" are exactly the isinstance-members of the registry *)
Theorem C12_type_members_quantifier : forall w t,
  (forall a, In a (w_agents w) -> is_sub (a_cls a) t = true -> a_cls a = t) \/
  (forall a, In a (w_agents w) -> a_cls a <> t) ->
  type_members w t = filter (fun a => is_sub (a_cls a) t) (w_agents w).
Proof. exact type_members_isinstance. Qed.
Print Assumptions C12_type_members_quantifier.

(* the four reporter forms yield what evaluating them directly yields *)
Theorem C12_reporter_forms : forall w a,
  (forall n, eval_mrep w (MRAttr n) = Ok (match aget n (w_attrs w) with Some v => read w v | None => SNone end)) /\
  (forall p f, eval_mrep w (MRFun p f) = eval_mfun w f) /\
  (forall f, eval_mrep w (MRMethod f) = eval_mfun w f) /\
  (forall g args, eval_mrep w (MRArgs g args) = Ok (eval_gfun g args)) /\
  (forall n, eval_arep w a (ARAttr n) = Ok (match aget n (a_attrs a) with Some z => SInt z | None => SNone end)) /\
  (forall f, eval_arep w a (ARFun f) = eval_afun w a f) /\
  (forall f, eval_arep w a (ARMethod f) = eval_afun w a f) /\
  (forall n args, eval_arep w a (ARArgs n args) = Ok (SInt (attr0 a n + zsum args))).
Proof. intros w a. repeat split. Qed.
Print Assumptions C12_reporter_forms.

(* tables: every column of table t holds, in order, the cell of each accepted row of t
   (so all columns of a table have the same length: they are column-aligned) *)
Theorem C12_tables_aligned : forall cfg ops t cols c vals,
  NoDup (map fst (c_mreps cfg)) -> NoDup (map fst (c_tables cfg)) ->
  forallb (ok_at cfg) (collect_worlds world_init ops) = true ->
  In (t, cols) (d_tables (s_d (exec cfg (state_init cfg) ops))) -> In (c, vals) cols ->
  vals = map (fun r => row_cell r c) (rows_for t (accepted cfg ops)) /\
  length vals = length (rows_for t (accepted cfg ops)).
Proof.
  intros cfg ops t cols c vals H1 H2 H3 Hin Hc.
  rewrite (r_tables _ _ _ _ (refinement cfg ops H1 H2 H3)) in Hin.
  pose proof (tables_aligned cfg _ t cols c vals Hin Hc) as E. split; [exact E|].
  rewrite E. apply map_length.
Qed.
Print Assumptions C12_tables_aligned.

(* C18 site: a rejected add_table_row leaves the whole state unchanged (hence every continuation) *)
Theorem C18_datacollector_atomic_add_table_row : forall cfg s t r ign s' e,
  step cfg s (AddRow t r ign) = (s', RErr e) -> s' = s.
Proof. exact step_addrow_atomic. Qed.
Print Assumptions C18_datacollector_atomic_add_table_row.

Theorem C18_datacollector_continue : forall cfg s t r ign s' e ops,
  step cfg s (AddRow t r ign) = (s', RErr e) -> run_ops cfg s' ops = run_ops cfg s ops.
Proof. intros cfg s t r ign s' e ops H. rewrite (step_addrow_atomic cfg s t r ign s' e H). reflexivity. Qed.
Print Assumptions C18_datacollector_continue.

(* The DataFrames are a lossless re-indexing of the records, for ALL histories (no hypothesis: also after
   collects that raised).  The modelled frames (compared with pandas' own result on every Frames operation
   of the correspondence) carry: index names (Step, AgentID); one column per reporter, in dictionary
   order; the rows in collection order.  From the frame the records are recovered:
   - agent / agent-type frame: grouping consecutive rows by their Step index gives back _agent_records
     (every step that recorded at least one row, in order, with its rows in order), each row as wide
     as the column list;
   - model-vars frame and tables (default 0..n-1 index): reading the rows back column by column gives
     model_vars / the table, labels included. *)
Theorem C12_frames_lossless : forall cfg ops,
  let d := s_d (exec cfg (state_init cfg) ops) in
  (forall fr, agent_frame cfg d = Ok fr ->
     af_index fr = [IDX_STEP; IDX_AGENTID] /\ af_cols fr = map fst (c_areps cfg) /\
     group_rows (af_rows fr) = filter nonempty (d_arecs d) /\
     (forall r, In r (af_rows fr) -> length (snd r) = length (af_cols fr))) /\
  (forall t,
     af_index (type_frame cfg d t) = [IDX_STEP; IDX_AGENTID] /\
     af_cols (type_frame cfg d t) = map fst (match aget t (c_treps cfg) with Some reps => reps | None => [] end) /\
     group_rows (af_rows (type_frame cfg d t)) = filter nonempty (type_records d t)) /\
  (forall fr, model_frame cfg d = Ok fr ->
     combine (cf_cols fr) (cols_of_rows (length (cf_cols fr)) (cf_rows fr)) = d_mvars d) /\
  (forall t cols fr, In (t, cols) (d_tables d) -> table_frame cols = Ok fr ->
     combine (cf_cols fr) (cols_of_rows (length (cf_cols fr)) (cf_rows fr)) = cols).
Proof.
  intros cfg ops d.
  pose proof (exec_wf cfg ops (state_init cfg) (init_wf cfg)) as W.
  exact (conj (fun fr => agent_frame_lossless cfg d fr W)
        (conj (fun t => type_frame_lossless cfg d t W)
        (conj (fun fr => model_frame_lossless cfg d fr)
              (fun t cols fr _ => table_frame_lossless cols fr)))).
Qed.
Print Assumptions C12_frames_lossless.

(* the records are keyed by distinct steps and every row carries its key, after every history *)
Theorem C12_records_well_formed : forall cfg ops,
  records_wf cfg (s_d (exec cfg (state_init cfg) ops)).
Proof. intros cfg ops. exact (exec_wf cfg ops (state_init cfg) (init_wf cfg)). Qed.
Print Assumptions C12_records_well_formed.

(* get_table_dataframe after ANY history (reporters that never raise at a collect, as in C12_refinement): for every
   declared table with at least one column the frame exists (no ValueError: the columns are aligned), its columns are the
   declared columns in order and row i holds the cells of the i-th accepted row of that table - None where a column was
   missing and ignore_missing=True filled it *)
Theorem C12_table_frame_rows : forall cfg ops t cs,
  NoDup (map fst (c_mreps cfg)) -> NoDup (map fst (c_tables cfg)) ->
  forallb (ok_at cfg) (collect_worlds world_init ops) = true ->
  In (t, cs) (c_tables cfg) -> cs <> [] ->
  exists cols, In (t, cols) (d_tables (s_d (exec cfg (state_init cfg) ops))) /\
    table_frame cols = Ok {| cf_cols := cs;
                             cf_rows := map (fun r => map (fun c => row_cell r c) cs) (rows_for t (accepted cfg ops)) |}.
Proof.
  intros cfg ops t cs H1 H2 H3 Hin Hne.
  rewrite (r_tables _ _ _ _ (refinement cfg ops H1 H2 H3)).
  exists (map (fun c => (c, map (fun r => row_cell r c) (rows_for t (accepted cfg ops)))) cs). split.
  - unfold tables_of. apply in_map_iff. exists (t, cs). split; [reflexivity|exact Hin].
  - exact (table_frame_rows cs _ Hne).
Qed.
Print Assumptions C12_table_frame_rows.

(* ================= collects during which a reporter raises =================
   EXACTLY the state collect leaves behind when it raises (`raised` lists the four ways: validation at the first
   collect - nothing appended; model reporter number j - reporters 0..j-1 appended, j.. not, nothing else touched;
   an agent reporter - model vars and _collection_steps complete, no agent records; an agent-type key/reporter -
   agent records done, the classes before the failing one recorded). *)
Theorem C12_collect_raises_state : forall cfg w d d' e,
  NoDup (map fst (c_mreps cfg)) -> collect cfg w d = (d', Err e) -> raised cfg w d e d'.
Proof. exact collect_raises_state. Qed.
Print Assumptions C12_collect_raises_state.

(* the model-reporter loop, raising or not: exactly the first j reporters (dictionary order) get exactly one value,
   their direct value at that moment; j = all of them iff no reporter raised.  In particular the NEXT successful
   collect after a raising one still appends exactly one value per model reporter. *)
Theorem C12_model_reporter_loop_exact : forall w rs, NoDup (map fst rs) -> forall mv,
  exists j, (j <= length rs)%nat /\
    fst (collect_mvars w rs mv) = mvars_prefix w rs j mv /\
    (forall p, In p (firstn j rs) -> res_ok (eval_mrep w (snd p)) = true) /\
    match snd (collect_mvars w rs mv) with
    | Ok _ => j = length rs
    | Err e => exists p, nth_error rs j = Some p /\ eval_mrep w (snd p) = Err e
    end.
Proof. exact collect_mvars_spec. Qed.
Print Assumptions C12_model_reporter_loop_exact.

(* whatever way collect raises: tables untouched, agent / agent-type records of every other step untouched *)
Theorem C12_collect_raises_keeps_rest : forall cfg w d d' e s,
  NoDup (map fst (c_mreps cfg)) -> collect cfg w d = (d', Err e) ->
  d_tables d' = d_tables d /\
  (s <> w_steps w -> aget s (d_arecs d') = aget s (d_arecs d) /\ aget s (d_trecs d') = aget s (d_trecs d)).
Proof.
  intros cfg w d d' e s Hnd H. split.
  - pose proof (collect_tables cfg w d) as Ht. rewrite H in Ht. exact Ht.
  - exact (raised_other_steps cfg w d e d' s (collect_raises_state cfg w d d' e Hnd H)).
Qed.
Print Assumptions C12_collect_raises_keeps_rest.

(* FINDING CANDIDATE (key C18/datacollector/collect-raising-reporter): when model reporter number j >= 1 raises,
   the first reporter's list has grown by one and reporter j's has not - the model_vars lists are ragged, positions no
   longer identify a collect, and (Example below) get_model_vars_dataframe raises ValueError ever after *)
Theorem C12_raising_reporter_leaves_ragged_model_vars : forall cfg w d j p n0 r0,
  NoDup (map fst (c_mreps cfg)) ->
  nth_error (c_mreps cfg) 0 = Some (n0, r0) -> nth_error (c_mreps cfg) j = Some p -> (0 < j)%nat ->
  forall l0 lj, aget n0 (d_mvars d) = Some l0 -> aget (fst p) (d_mvars d) = Some lj ->
  aget n0 (mvars_prefix w (c_mreps cfg) j (d_mvars d)) = Some (l0 ++ [mval_at w r0]) /\
  aget (fst p) (mvars_prefix w (c_mreps cfg) j (d_mvars d)) = Some lj.
Proof. exact raised_ragged. Qed.
Print Assumptions C12_raising_reporter_leaves_ragged_model_vars.

(* non-vacuity: reporter 1 reads model.m0 through a bound method (not validated); m0 is deleted before the second
   collect: that collect raises AttributeError after appending to reporter 0 only; the third collect (m0 set again)
   appends one value to each, the lists stay 3 vs 2 long and the model frame raises ValueError *)
Definition ex_raise_cfg : config :=
  {| c_mreps := [(0, MRFun false FSteps); (1, MRMethod (FAttr 0))]; c_areps := []; c_treps := []; c_tables := [] |}.
Definition ex_raise_ops : list op := [SetAttr 0 5; Collect; DelAttr 0; Step; Collect; SetAttr 0 7; Step; Collect].
Example C12_raise_example :
  NoDup (map fst (c_mreps ex_raise_cfg)) /\
  run_ops ex_raise_cfg (state_init ex_raise_cfg) [SetAttr 0 5; Collect; DelAttr 0; Step; Collect]
    = [[0; 2; 0; 0; 1; 0; 0; 0; 0]; [0; 2; 0; 1; 1; 0; 1; 1; 1; 5; 0; 0; 0]; [0; 2; 0; 1; 1; 0; 1; 1; 1; 5; 0; 0; 0];
       [0; 2; 0; 1; 1; 0; 1; 1; 1; 5; 0; 0; 0]; [-1; 1; 2; 0; 2; 1; 0; 1; 1; 1; 1; 1; 5; 0; 0; 0]] /\
  d_mvars (s_d (exec ex_raise_cfg (state_init ex_raise_cfg) ex_raise_ops))
    = [(0, [SInt 0; SInt 1; SInt 2]); (1, [SInt 5; SInt 7])] /\
  model_frame ex_raise_cfg (s_d (exec ex_raise_cfg (state_init ex_raise_cfg) ex_raise_ops)) = Err E_VALUE /\
  d_csteps (s_d (exec ex_raise_cfg (state_init ex_raise_cfg) ex_raise_ops)) = [0; 2].
Proof. split; [repeat constructor; simpl; intuition congruence|]. repeat split; vm_compute; reflexivity. Qed.

(* C12_refinement WITHOUT the hypothesis that no reporter raises: for ALL histories the collector state is a function of
   the collect moments INCLUDING the failed ones.  `events` lists every Collect of the history with its world and the way
   it ended (decided from the world and the validated flag alone: KInvalid | KModel j | KAgent | KType | KOk):
     model_vars[n]      = the direct values of reporter n at the moments that reached it (not KInvalid; before j for KModel j)
     _collection_steps  = the steps of the moments whose model-reporter phase completed
     _agent_records     = assignment, moment by moment, of the rows of the moments that got that far (KType, KOk)
     _agenttype_records = likewise, with the classes processed before a failing one for KType
     tables             = the accepted rows (C12_tables_aligned) *)
Theorem C12_refinement_general : forall cfg ops,
  NoDup (map fst (c_mreps cfg)) -> NoDup (map fst (c_tables cfg)) ->
  refines_g cfg (events cfg world_init false ops) (accepted cfg ops) (s_d (exec cfg (state_init cfg) ops)).
Proof. exact refinement_general. Qed.
Print Assumptions C12_refinement_general.

Theorem C12_model_vars_general : forall cfg ops,
  NoDup (map fst (c_mreps cfg)) -> NoDup (map fst (c_tables cfg)) ->
  d_mvars (s_d (exec cfg (state_init cfg) ops)) =
  map (fun p => (fst p, map (fun ev => mval_at (fst ev) (snd p))
                            (filter (fun ev => k_reached cfg (fst p) (snd ev)) (events cfg world_init false ops))))
      (c_mreps cfg).
Proof. intros cfg ops H1 H2. exact (g_mvars _ _ _ _ (refinement_general cfg ops H1 H2)). Qed.
Print Assumptions C12_model_vars_general.

(* non-vacuity on the raising history of C12_raise_example: three moments, the second ended in reporter 1 raising *)
Example C12_general_example :
  map snd (events ex_raise_cfg world_init false ex_raise_ops) = [KOk; KModel 1; KOk] /\
  csteps_g (events ex_raise_cfg world_init false ex_raise_ops) = [0; 2] /\
  mvars_g ex_raise_cfg (events ex_raise_cfg world_init false ex_raise_ops)
    = [(0, [SInt 0; SInt 1; SInt 2]); (1, [SInt 5; SInt 7])].
Proof. repeat split; vm_compute; reflexivity. Qed.

(* ================= code-level T1: the same statements about the code TRANSLATED from the working tree =================
   gen_* are regenerated from mesa/datacollection.py on every run (harness/tables/datacollect_batch_code.py). *)

(* the statements of collect / _record_agents / _record_agenttype that are not translated expression by expression are,
   verbatim, what Model/DataCollector.v transcribes (validation once, then the loop; _collection_steps appended after the
   model reporters; agent records assigned under model.steps; the (steps, unique_id) prefix of every row) *)
Theorem C12_source_skeleton : gen_collect_skeleton_ok = true.
Proof. vm_compute. reflexivity. Qed.
Print Assumptions C12_source_skeleton.

(* the model's add_table_row IS the translated rejection test + the translated per-column cell *)
Theorem C12_add_row_is_source : forall d t r ign, add_row d t r ign = gen_add_row d t r ign.
Proof. exact add_row_bridge. Qed.
Print Assumptions C12_add_row_is_source.

(* C18 for the translated code: a rejected row leaves the collector unchanged *)
Theorem C18_datacollector_atomic_of_source : forall d t r ign d' e,
  gen_add_row d t r ign = (d', Err e) -> d' = d.
Proof. exact gen_add_row_atomic. Qed.
Print Assumptions C18_datacollector_atomic_of_source.

(* column alignment for the translated code: an accepted row extends every column of its table by one cell *)
Theorem C12_tables_aligned_of_source : forall d t r ign d' cols,
  gen_add_row d t r ign = (d', Ok tt) -> aget t (d_tables d) = Some cols ->
  exists cols', aget t (d_tables d') = Some cols' /\ map fst cols' = map fst cols /\
                map (fun c => length (snd c)) cols' = map (fun c => S (length (snd c))) cols.
Proof. exact gen_add_row_aligned. Qed.
Print Assumptions C12_tables_aligned_of_source.

(* the agents of a class are chosen by the translated three-way test of _record_agenttype
   (in_types: the class is a key of agents_by_type - implied by having direct instances) *)
Theorem C12_type_agents_of_source : forall w t in_types,
  let direct := filter (fun a => a_cls a =? t) (w_agents w) in
  (negb (is_nil direct) = true -> in_types = true) ->
  type_agents w t =
  (if gen_type_choice in_types (negb (is_nil direct)) (is_agent_class t) =? 0 then Ok direct
   else if gen_type_choice in_types (negb (is_nil direct)) (is_agent_class t) =? 1
        then Ok (filter (fun a => is_sub (a_cls a) t) (w_agents w))
        else Err E_VALUE).
Proof. exact type_agents_bridge. Qed.
Print Assumptions C12_type_agents_of_source.

(* each reporter form is evaluated by the branch the translated isinstance chain of collect selects for its Python type *)
Theorem C12_dispatch_of_source : forall w r,
  eval_mrep w r = eval_by_code w (gen_dispatch (rep_is_fun r) (rep_is_str r) (rep_is_list r)) r.
Proof. exact dispatch_bridge. Qed.
Print Assumptions C12_dispatch_of_source.

(* ---- non-vacuity: a history satisfying every hypothesis above, with a mutable list mutated after
   the collect, two collects in one step, agent churn, a base-class key and a rejected row ---- *)
Definition ex_cfg : config :=
  {| c_mreps := [(0, MRAttr 0); (1, MRFun false (FAttr 0)); (2, MRMethod FCount); (3, MRArgs GSum [1; 2])];
     c_areps := [(0, ARAttr 0); (1, ARFun AId)];
     c_treps := [(1, [(0, ARAttr 0)])];
     c_tables := [(0, [0; 1])] |}.
Definition ex_ops : list op :=
  [NewList 0 [1]; Create 2 [(0, 5)]; Collect; Append 0 2; Create 3 []; Collect; Step; Remove 1; Collect;
   AddRow 0 [(0, Some 1)] false; AddRow 0 [(0, Some 1); (1, None)] false; Append 0 3].
Example C12_example :
  NoDup (map fst (c_mreps ex_cfg)) /\ NoDup (map fst (c_tables ex_cfg)) /\ NoDup (map fst (c_treps ex_cfg)) /\
  forallb (ok_at ex_cfg) (collect_worlds world_init ex_ops) = true /\
  length (moments ex_cfg (collect_worlds world_init ex_ops)) = 3%nat /\
  aget 0 (d_mvars (s_d (exec ex_cfg (state_init ex_cfg) ex_ops))) = Some [SList [1]; SList [1; 2]; SList [1; 2]] /\
  aget 0 (d_arecs (s_d (exec ex_cfg (state_init ex_cfg) ex_ops))) = Some [(0, 1, [SInt 5; SInt 1]); (0, 2, [SNone; SInt 2])] /\
  aget 1 (d_arecs (s_d (exec ex_cfg (state_init ex_cfg) ex_ops))) = Some [(1, 2, [SNone; SInt 2])] /\
  accepted ex_cfg ex_ops = [(0, [(0, Some 1); (1, None)])] /\
  (exists s' , step ex_cfg (state_init ex_cfg) (AddRow 0 [(0, Some 1)] false) = (s', RErr E_EXC)) /\
  (* the frames of that history: 3 rows in the agent frame, grouped back into the records of steps 0 and 1 *)
  (exists fr, agent_frame ex_cfg (s_d (exec ex_cfg (state_init ex_cfg) ex_ops)) = Ok fr /\
              length (af_rows fr) = 3%nat /\ af_cols fr = [0; 1] /\
              map fst (group_rows (af_rows fr)) = [0; 1]) /\
  (exists fr, model_frame ex_cfg (s_d (exec ex_cfg (state_init ex_cfg) ex_ops)) = Ok fr /\
              length (cf_rows fr) = 3%nat /\ cf_cols fr = [0; 1; 2; 3]) /\
  (* a row with a missing column accepted under ignore_missing shows up as None in the table frame *)
  (exists cols, aget 0 (d_tables (s_d (exec ex_cfg (state_init ex_cfg) (ex_ops ++ [AddRow 0 [(1, Some 9)] true])))) = Some cols /\
     table_frame cols = Ok {| cf_cols := [0; 1]; cf_rows := [[Some 1; None]; [None; Some 9]] |}).
Proof.
  repeat split; try (vm_compute; reflexivity).
  - repeat constructor; simpl; intuition congruence.
  - repeat constructor; simpl; intuition congruence.
  - repeat constructor; simpl; intuition congruence.
  - eexists. vm_compute. reflexivity.
  - eexists. vm_compute. repeat split; reflexivity.
  - eexists. vm_compute. repeat split; reflexivity.
  - eexists. vm_compute. repeat split; reflexivity.
Qed.
