(* C08 - legacy grids: pos, cell contents, empties and empty_mask never disagree.
   ONLY statements closed by `exact`, with Print Assumptions beneath each, and one Example of
   non-vacuity per theorem.  Model: Model/LegacyGrid.v (the code as repaired by fixes/C08-1..3);
   `run c init ops` is the state after the history `ops` (the same `step` the correspondence
   check evaluates through run_case), for ANY list of operations: calls outside the quantifier
   are skipped by `step` itself, illegal random outcomes are rejected by `step` itself, so no
   hypothesis on the history is needed.  wf c  :=  0 < width /\ 0 < height. *)
From Coq Require Import ZArith List Bool.
From Mesa Require Import Common.ListX Generated.Tables Model.LegacyGrid Proofs.LegacyGridProofs Proofs.LegacyGridSim Proofs.LegacyGridRefine Proofs.LegacyGridBridge Proofs.LegacyGridForms
  Model.NetGrid Proofs.NetGridProofs.
Import ListNotations.
Open Scope Z_scope.

(* --- T1: what the CURRENT source writes into _empty_mask in the four place/remove methods
       (value, nested under `if self._empties_built`), re-extracted by harness/tables/c08_mask_writes.py
       on every run; the model's place/remove use these pairs, so every theorem below is re-checked
       against them *)
Theorem C08_source_mask_writes :
  gen_mask_single_place = (false, false) /\ gen_mask_single_remove = (true, false) /\
  gen_mask_multi_place = (false, false) /\ gen_mask_multi_remove = (true, false).
Proof. vm_compute. repeat split; reflexivity. Qed.
Print Assumptions C08_source_mask_writes.

(* --- the invariant holds after every history (all four classes: c_multi; torus on/off; any size) *)
Theorem C08_agree : forall c ops, wf c -> Agree c (run c init ops).
Proof. exact agree_history. Qed.
Print Assumptions C08_agree.

(* --- an agent's pos is the one cell whose content includes it; None exactly when in no cell;
       no cell lists it twice; pos is always inside the grid *)
Theorem C08_pos_is_the_one_cell : forall c ops a,
  wf c -> let s := run c init ops in
  (forall p, pos s a = Some p <-> In a (grid s p)) /\
  (pos s a = None <-> forall q, ~ In a (grid s q)) /\
  (forall p q, In a (grid s p) -> In a (grid s q) -> p = q) /\
  (forall p, NoDup (grid s p)) /\
  (forall p, pos s a = Some p -> out_of_bounds c p = false).
Proof. exact pos_one_cell_history. Qed.
Print Assumptions C08_pos_is_the_one_cell.

(* --- a SingleGrid cell never holds two agents *)
Theorem C08_single_capacity : forall c ops p,
  wf c -> c_multi c = false -> (length (grid (run c init ops) p) <= 1)%nat.
Proof. exact single_capacity_history. Qed.
Print Assumptions C08_single_capacity.

(* --- empties (before and after the lazy build), is_cell_empty, exists_empty_cells, empty_mask,
       grid[x,y], iteration, coord_iter and agents are all the same function of the contents *)
Theorem C08_views : forall c ops,
  wf c -> let s := run c init ops in
  view_empties c s = spec_empties c s /\
  view_empties c (build_empties c s) = spec_empties c s /\
  (forall p, In p (spec_empties c s) <-> out_of_bounds c p = false /\ grid s p = []) /\
  view_mask c s = map (is_cell_empty s) (all_cells c) /\
  view_exists c s = existsb (is_cell_empty s) (all_cells c) /\
  (forall p, out_of_bounds c p = false -> mask s p = is_cell_empty s p) /\
  (forall p, view_index c s p = option_map (grid s) (torus_adj c p)) /\
  view_iter c s = map (grid s) (all_cells c) /\
  map fst (view_coord_iter c s) = view_iter c s /\ map snd (view_coord_iter c s) = all_cells c /\
  view_agents c s = concat (view_iter c s).
Proof. exact views_history. Qed.
Print Assumptions C08_views.

(* --- grid.agents (and iteration) shows every placed agent exactly once and nobody else *)
Theorem C08_agents_once : forall c ops,
  wf c -> let s := run c init ops in
  NoDup (view_agents c s) /\ forall a, In a (view_agents c s) <-> exists p, pos s a = Some p.
Proof. exact agents_once_history. Qed.
Print Assumptions C08_agents_once.

(* --- place_agent of an unplaced agent at in-grid coordinates: succeeds (always on a MultiGrid, on a
       SingleGrid iff the cell is empty) and touches nobody else, or is rejected with s' = s *)
Theorem C08_place : forall c s a p s' r,
  Agree c s -> pos s a = None -> out_of_bounds c p = false -> step c s (Place a p) = (s', r) ->
  (r = Ok [] /\ pos s' a = Some p /\ (forall b, b <> a -> pos s' b = pos s b) /\
     (c_multi c = false -> grid s p = [])) \/
  (s' = s /\ r = Err E_CELL_NOT_EMPTY /\ c_multi c = false /\ grid s p <> []).
Proof. exact place_step. Qed.
Print Assumptions C08_place.

(* --- remove_agent: pos becomes None, nobody else and no other cell is touched *)
Theorem C08_remove : forall c s a p s' r,
  Agree c s -> pos s a = Some p -> step c s (Remove a) = (s', r) ->
  r = Ok [] /\ pos s' a = None /\ (forall b, b <> a -> pos s' b = pos s b) /\
  (forall q, q <> p -> grid s' q = grid s q).
Proof. exact remove_step. Qed.
Print Assumptions C08_remove.

(* --- targets outside a toroidal grid are wrapped (any integers), everybody else stays *)
Theorem C08_torus_wrap : forall c s a pa p s' r,
  wf c -> Agree c s -> c_torus c = true -> pos s a = Some pa ->
  let target := (fst p mod c_w c, snd p mod c_h c) in
  (c_multi c = false -> blocked s a target = false) ->
  step c s (Move a p) = (s', r) ->
  r = Ok [] /\ pos s' a = Some target /\ out_of_bounds c target = false /\
  (forall b, b <> a -> pos s' b = pos s b).
Proof. exact torus_wrap_step. Qed.
Print Assumptions C08_torus_wrap.

(* --- in-grid targets are taken as they are (torus or not) *)
Theorem C08_move_in_grid : forall c s a pa p s' r,
  wf c -> Agree c s -> pos s a = Some pa -> out_of_bounds c p = false ->
  (c_multi c = false -> blocked s a p = false) ->
  step c s (Move a p) = (s', r) ->
  r = Ok [] /\ pos s' a = Some p /\ (forall b, b <> a -> pos s' b = pos s b).
Proof. exact in_grid_move_step. Qed.
Print Assumptions C08_move_in_grid.

(* --- targets outside a bounded grid are rejected, with the state literally unchanged *)
Theorem C08_bounded_reject : forall c s a p,
  c_torus c = false -> out_of_bounds c p = true -> placed s a = true ->
  step c s (Move a p) = (s, Err E_OOB) /\ step c s (Index p) = (s, Err E_OOB).
Proof. exact bounded_reject_step. Qed.
Print Assumptions C08_bounded_reject.

(* --- SingleGrid: a move onto a cell held by another agent is rejected, state unchanged;
       `blocked` means exactly "some other agent has this pos" *)
Theorem C08_single_occupied_reject : forall c s a pa p p',
  c_multi c = false -> pos s a = Some pa -> torus_adj c p = Some p' -> blocked s a p' = true ->
  step c s (Move a p) = (s, Err E_CELL_NOT_EMPTY).
Proof. exact single_occupied_reject_step. Qed.
Print Assumptions C08_single_occupied_reject.

Theorem C08_blocked_means_other_agent : forall c s a q,
  Agree c s -> c_multi c = false ->
  (blocked s a q = true <-> exists b, b <> a /\ pos s b = Some q).
Proof. exact blocked_spec. Qed.
Print Assumptions C08_blocked_means_other_agent.

(* --- move_to_empty lands on a cell that was empty (for every legal outcome of either branch);
       it is rejected only when no cell is empty, and then it always is *)
Theorem C08_move_to_empty_lands_on_empty : forall c s a pa smp out s' r,
  Agree c s -> pos s a = Some pa -> step c s (MoveToEmpty a smp out) = (s', r) ->
  (forall l, r = Ok l -> out_of_bounds c out = false /\ grid s out = [] /\ pos s' a = Some out /\
                         (forall b, b <> a -> pos s' b = pos s b)) /\
  (forall k, r = Err k -> k = E_NO_EMPTY /\ forall q, out_of_bounds c q = false -> grid s q <> []).
Proof. exact move_to_empty_step. Qed.
Print Assumptions C08_move_to_empty_lands_on_empty.

Theorem C08_move_to_empty_full_grid : forall c s a smp out,
  Agree c s -> placed s a = true -> (forall q, out_of_bounds c q = false -> grid s q <> []) ->
  step c s (MoveToEmpty a smp out) = (build_empties c s, Err E_NO_EMPTY).
Proof. exact move_to_empty_full_step. Qed.
Print Assumptions C08_move_to_empty_full_grid.

(* --- move_agent_to_one_of lands on (the wrap of) one of the offered cells; with "closest" no
       offered cell is nearer (squared toroidal / Euclidean distance between grid cells) *)
Theorem C08_move_to_one_of_member : forall c s a pa cells sl he out s' l,
  wf c -> Agree c s -> pos s a = Some pa -> cells <> [] ->
  step c s (MoveToOneOf a cells sl he out) = (s', Ok l) ->
  exists offered landing,
    In offered cells /\ torus_adj c offered = Some landing /\ pos s' a = Some landing /\
    (forall b, b <> a -> pos s' b = pos s b).
Proof. exact move_one_of_member. Qed.
Print Assumptions C08_move_to_one_of_member.

Theorem C08_closest_is_nearest : forall c s a pa cells he out s' l,
  wf c -> Agree c s -> pos s a = Some pa -> cells <> [] ->
  step c s (MoveToOneOf a cells SelClosest he out) = (s', Ok l) ->
  exists landing, pos s' a = Some landing /\
    forall q q', In q cells -> torus_adj c q = Some q' -> dist2 c landing pa <= dist2 c q' pa.
Proof. exact closest_is_nearest. Qed.
Print Assumptions C08_closest_is_nearest.

(* --- the per-axis distance used by "closest" on a torus is the true toroidal one: the least
       |d + k*n| over all wraps k, and it is attained *)
Theorem C08_toroidal_distance_is_least : forall n d,
  0 < n -> (forall k, axis_dist true n d <= Z.abs (d + k * n)) /\
           (exists k, axis_dist true n d = Z.abs (d + k * n)).
Proof. exact toroidal_distance_least. Qed.
Print Assumptions C08_toroidal_distance_is_least.

(* --- swap_pos exchanges the two positions and touches nobody else, or rejects unplaced agents *)
Theorem C08_swap : forall c s a b s' r,
  Agree c s -> step c s (Swap a b) = (s', r) ->
  (r = Ok [] /\ pos s' a = pos s b /\ pos s' b = pos s a /\ pos s a <> None /\ pos s b <> None /\
     (forall x, x <> a -> x <> b -> pos s' x = pos s x)) \/
  (s' = s /\ r = Err E_NOT_ON_GRID /\ (pos s a = None \/ pos s b = None)).
Proof. exact swap_step. Qed.
Print Assumptions C08_swap.

(* --- (C18, legacy-grid sites) a call that raises leaves the whole observation unchanged *)
Theorem C08_rejected_call_changes_nothing : forall c n s o s' e,
  wf c -> Agree c s -> step c s o = (s', Err e) -> obs_state c n s' = obs_state c n s.
Proof. exact C18_legacygrid_atomic. Qed.
Print Assumptions C08_rejected_call_changes_nothing.

(* --- why fixes/C08-2 is needed: the inherited _Grid.move_agent (torus_adj; remove; place), which the
       unchanged tree runs on a SingleGrid, is refuted as an atomic operation (defect #8) *)
Theorem C08_unpatched_single_move_agent_atomic_refuted :
  exists c s a p s' e,
    Agree c s /\ c_multi c = false /\ grid_move_agent c s a p = (s', Err e) /\
    obs_state c 2 s' <> obs_state c 2 s /\ pos s' a = None.
Proof. exact unpatched_move_agent_not_atomic. Qed.
Print Assumptions C08_unpatched_single_move_agent_atomic_refuted.

(* --- ... and every continuation of the history is observed as if the call had not been made *)
Theorem C08_rejected_call_continue : forall c n s o s' e rest,
  wf c -> Agree c s -> step c s o = (s', Err e) -> run_obs c n s' rest = run_obs c n s rest.
Proof. exact C18_legacygrid_atomic_continue. Qed.
Print Assumptions C08_rejected_call_continue.

(* --- "whether or not empties was ever read before": reading empties (ReadEmpties / ExistsEmpty
       switch the lazily built set on) at any point of any history changes nothing that any later
       call returns or shows *)
Theorem C08_empties_read_is_transparent : forall c n ops rest,
  wf c -> let s := run c init ops in
  run_obs c n (fst (step c s ReadEmpties)) rest = run_obs c n s rest /\ run_obs c n (fst (step c s ExistsEmpty)) rest = run_obs c n s rest.
Proof. exact empties_read_transparent_history. Qed.
Print Assumptions C08_empties_read_is_transparent.

(* --- refinement: seen through agent.pos alone, every call after every history is a step of the
       abstract position-map machine `aspec` (Proofs/LegacyGridRefine.v), which does not mention
       _grid, _empties or _empty_mask: placement / movers / swap / rejections exactly as the
       statement describes them *)
Theorem C08_refines_position_map : forall c ops o s' r,
  wf c -> step c (run c init ops) o = (s', r) -> aspec c (pos (run c init ops)) o (pos s') r.
Proof. exact history_refines. Qed.
Print Assumptions C08_refines_position_map.

(* --- the stream the correspondence check (T2) compares with the implementation: its i-th entry is
       produced by this very `step` from the state `run c init (first i ops)` of the theorems *)
Theorem C08_run_case_is_step : forall k i o,
  nth_error (k_ops k) i = Some o ->
  length (run_case k) = length (k_ops k) /\
  nth_error (run_case k) i =
    Some (let sr := lstep (k_cfg k) (k_layers k) (lrun (k_cfg k) (k_layers k) (init, linit) (firstn i (k_ops k))) o in
          obs_res (snd sr) ++ (-8) :: obs_state (k_cfg k) (k_n k) (fst (fst sr))
            ++ (-9) :: obs_layers (k_cfg k) (k_layers k) (snd (fst sr))) /\
  fst (lrun (k_cfg k) (k_layers k) (init, linit) (firstn i (k_ops k))) = run (k_cfg k) init (firstn i (k_ops k)).
Proof. exact run_case_is_step. Qed.
Print Assumptions C08_run_case_is_step.

(* ================================================================== round 3: layers, indexing forms, NetworkGrid *)

(* --- C08_agree for the grid WITH property layers: any history of grid calls and layer writes (set_cell,
       set_cells), any number of layers *)
Theorem C08_agree_layered : forall c k ops, wf c -> Agree c (fst (lrun c k (init, linit) ops)).
Proof. exact agree_layered_history. Qed.
Print Assumptions C08_agree_layered.

(* --- the layers never interfere: the grid part of the layered run is the layer-free run of the same history
       (so every theorem above about `run` is about the layered grid), a grid call leaves every layer untouched
       and returns what it returns without layers, a layer call leaves the grid state literally untouched, and
       the layers after a history are those of its layer calls alone *)
Theorem C08_layers_never_interfere : forall c k,
  (forall ops s L, fst (lrun c k (s, L) ops) = run c s ops) /\
  (forall s L o, is_layer_op o = false -> lstep c k (s, L) o = ((fst (step c s o), L), snd (step c s o))) /\
  (forall s L l, fst (fst (lstep c k (s, L) (LayerOp l))) = s) /\
  (forall ops s L, snd (lrun c k (s, L) ops) = snd (lrun c k (init, L) (layer_ops ops))).
Proof. exact layers_never_interfere. Qed.
Print Assumptions C08_layers_never_interfere.

(* --- C18 continue / transparency of reading empties for the stream run_case produces (grid + layers) *)
Theorem C08_rejected_call_continue_layered : forall c n k s L o s' e rest,
  wf c -> Agree c s -> step c s o = (s', Err e) ->
  lrun_obs c n k (s', L) rest = lrun_obs c n k (s, L) rest.
Proof. exact C18_legacygrid_atomic_continue_layered. Qed.
Print Assumptions C08_rejected_call_continue_layered.

Theorem C08_empties_read_is_transparent_layered : forall c n k ops rest,
  wf c -> let sl := lrun c k (init, linit) ops in
  lrun_obs c n k (fst (lstep c k sl ReadEmpties)) rest = lrun_obs c n k sl rest /\
  lrun_obs c n k (fst (lstep c k sl ExistsEmpty)) rest = lrun_obs c n k sl rest.
Proof. exact empties_read_transparent_layered. Qed.
Print Assumptions C08_empties_read_is_transparent_layered.

(* --- every indexing / iteration form shows the contents of the cells it names *)
Theorem C08_index_forms : forall c ops,
  wf c -> let s := run c init ops in
  (forall a p, In a (grid s p) <-> pos s a = Some p) /\
  (forall x, 0 <= x < c_w c ->
     view_col c s x = Some (map (fun y => grid s (x, y)) (zrange 0 (c_h c - 1))) /\
     view_col c s (x - c_w c) = view_col c s x) /\
  (forall x, x < - c_w c \/ c_w c <= x -> view_col c s x = None) /\
  (forall p, out_of_bounds c p = false -> view_index c s p = Some (grid s p)) /\
  (forall l r, view_list c s l = Some r <-> exists l', map (torus_adj c) l = map Some l' /\ r = map (grid s) l') /\
  (c_torus c = true -> forall l, view_list c s l = Some (map (fun p => grid s (fst p mod c_w c, snd p mod c_h c)) l)) /\
  (forall x, 0 <= x < c_w c -> view_slice_y c s x None None = view_col c s x) /\
  (forall y, 0 <= y < c_h c -> view_slice_x c s None None y = Some (map (fun x => grid s (x, y)) (zrange 0 (c_w c - 1)))) /\
  view_slice_xy c s None None None None = view_iter c s /\
  map fst (view_coord_iter c s) = view_iter c s /\
  (forall lo hi i, In i (pyslice (c_w c) lo hi) -> 0 <= i < c_w c) /\
  (forall lo hi i, In i (pyslice (c_h c) lo hi) -> 0 <= i < c_h c) /\
  (forall a l, In a (view_cell_list s l) <-> exists p, In p l /\ pos s a = Some p) /\
  (forall p, view_form c s (FCellList [p] true) = view_form c s (FCellList [p] false)).
Proof. exact index_forms_history. Qed.
Print Assumptions C08_index_forms.

(* --- Python's lo:hi on a list of length n: bounds below 0 count from the end, both clamped to [0, n] *)
Theorem C08_slice_indices : forall n lo hi i,
  0 <= n ->
  (In i (pyslice n lo hi) <-> slice_bound n 0 lo <= i < slice_bound n n hi) /\
  (In i (pyslice n lo hi) -> 0 <= i < n).
Proof. exact pyslice_In. Qed.
Print Assumptions C08_slice_indices.

(* --- the hex classes' unconditional wrap _HexGrid.torus_adj_2d and the public torus_adj: always inside the grid,
       equal to torus_adj wherever torus_adj accepts, identity inside the grid, idempotent; and it IS the function
       regenerated from the source *)
Theorem C08_hex_torus_adj_2d : forall c p,
  wf c ->
  out_of_bounds c (torus_adj_2d c p) = false /\
  (c_torus c = true -> torus_adj c p = Some (torus_adj_2d c p)) /\
  (out_of_bounds c p = false -> torus_adj_2d c p = p /\ torus_adj c p = Some p) /\
  torus_adj_2d c (torus_adj_2d c p) = torus_adj_2d c p /\
  (forall q, torus_adj c p = Some q -> torus_adj_2d c p = q).
Proof. exact hex_torus_adj_2d. Qed.
Print Assumptions C08_hex_torus_adj_2d.

Theorem C08_hex_torus_adj_2d_of_source : forall c p, torus_adj_2d c p = gen_torus_adj_2d (c_w c) (c_h c) p.
Proof. exact torus_adj_2d_bridge. Qed.
Print Assumptions C08_hex_torus_adj_2d_of_source.

(* --- NetworkGrid: the same invariant on graph nodes, after every history *)
Theorem C08_net_agree : forall nodes ops, NAgree nodes (nrun nodes ninit ops).
Proof. exact net_agree_history. Qed.
Print Assumptions C08_net_agree.

Theorem C08_net_views : forall nodes ops,
  NoDup nodes -> let s := nrun nodes ninit ops in
  (forall a n, npos s a = Some n <-> In a (ncell s n)) /\
  (forall a n, npos s a = Some n -> In n nodes) /\
  (forall n, is_nil (ncell s n) = true <-> forall a, npos s a <> Some n) /\
  (forall a, In a (ncontents s nodes) <-> exists n, npos s a = Some n) /\
  NoDup (ncontents s nodes) /\
  (forall a l, In a (ncontents s l) <-> exists n, In n l /\ npos s a = Some n) /\
  (forall a, In a (flat_map (ncell s) nodes) <-> In a (ncontents s nodes)).
Proof. exact net_views_history. Qed.
Print Assumptions C08_net_views.

Theorem C08_net_place_move : forall nodes s a,
  NAgree nodes s ->
  (forall n s' r, npos s a = None -> nstep nodes s (NPlace a n) = (s', r) ->
     (r = Ok [] /\ In n nodes /\ npos s' a = Some n /\ (forall b, b <> a -> npos s' b = npos s b)) \/
     (s' = s /\ r = Err E_KEY /\ ~ In n nodes)) /\
  (forall n0 n s' r, npos s a = Some n0 -> nstep nodes s (NMove a n) = (s', r) ->
     (r = Ok [] /\ In n nodes /\ npos s' a = Some n /\ (forall b, b <> a -> npos s' b = npos s b)) \/
     (r = Err E_KEY /\ ~ In n nodes /\ s' = s)).
Proof. exact net_place_move. Qed.
Print Assumptions C08_net_place_move.

(* --- (C18, NetworkGrid sites; fixes/C08-4 is in the tree) a NetworkGrid call that raises - place_agent /
       move_agent towards a node that is not in the graph - leaves the state literally unchanged, at every point of
       every history, and every continuation is observed as if the call had not been made *)
Theorem C08_net_rejected_call_changes_nothing : forall nodes s o s' e,
  NAgree nodes s -> nstep nodes s o = (s', Err e) -> s' = s.
Proof. exact C18_networkgrid_atomic. Qed.
Print Assumptions C08_net_rejected_call_changes_nothing.

Theorem C08_net_rejected_call_continue : forall nodes n s o s' e rest,
  NAgree nodes s -> nstep nodes s o = (s', Err e) ->
  nrun_obs nodes n s' rest = nrun_obs nodes n s rest /\ nrun nodes s' rest = nrun nodes s rest.
Proof. exact C18_networkgrid_atomic_continue. Qed.
Print Assumptions C08_net_rejected_call_continue.

(* ================================================================== code-level T1 (round 2)
   The definitions gen_* are regenerated from mesa/space.py on every run (harness/tables/legacy_space_code.py):
   pure functions by the pyexpr translator, method bodies as lg_stmt lists run by the interpreter of
   Proofs/LegacyGridBridge.v (src_place / src_remove / src_grid_move / src_move compose them the way the classes do). *)

(* --- every model function named here IS the function regenerated from the source *)
Theorem C08_source_is_model :
  (forall c p, out_of_bounds c p = gen_out_of_bounds (c_w c) (c_h c) p) /\
  (forall c p, torus_adj c p = gen_torus_adj (c_w c) (c_h c) (c_torus c) p) /\
  (forall c p q, dist2 c p q = gen_distance_squared (c_w c) (c_h c) (c_torus c) p q) /\
  (forall s p, is_cell_empty s p = gen_is_cell_empty (grid s) p) /\
  (forall c s a smp out, move_to_empty c s a smp out = move_to_empty_src c s a smp out) /\
  (forall c cur cells out,
     (memb coord_eqb out cells && forallb (fun p => dist2 c out cur <=? dist2 c p cur) cells) =
     memb coord_eqb out (gen_closest (c_w c) (c_h c) (c_torus c) cur cells)) /\
  (forall c s a p, place c s a p = src_place c s a p) /\
  (forall c s a, remove c s a = src_remove c s a) /\
  (forall c s a p, grid_move_agent c s a p = src_grid_move c s a p) /\
  (forall c s a p, move_agent c s a p = src_move c s a p).
Proof. exact source_is_model. Qed.
Print Assumptions C08_source_is_model.

(* --- C08_torus_wrap / C08_bounded_reject about the translated torus_adj itself *)
Theorem C08_torus_adj_of_source : forall w h torus p,
  0 < w -> 0 < h ->
  (torus = true -> gen_torus_adj w h torus p = Some (fst p mod w, snd p mod h) /\
                   gen_out_of_bounds w h (fst p mod w, snd p mod h) = false) /\
  (torus = false -> gen_out_of_bounds w h p = true -> gen_torus_adj w h torus p = None) /\
  (gen_out_of_bounds w h p = false -> gen_torus_adj w h torus p = Some p).
Proof. exact torus_adj_of_source. Qed.
Print Assumptions C08_torus_adj_of_source.

(* --- C08_closest_is_nearest about the translated selection loop and the translated _distance_squared *)
Theorem C08_closest_of_source : forall w h torus cur cells out,
  0 < w -> 0 < h ->
  (In out (gen_closest w h torus cur cells) <->
   In out cells /\ forall p, In p cells -> gen_distance_squared w h torus out cur <= gen_distance_squared w h torus p cur) /\
  (forall p p', gen_torus_adj w h torus p = Some p' ->
                gen_distance_squared w h torus p' cur = gen_distance_squared w h torus p cur).
Proof. exact closest_of_source. Qed.
Print Assumptions C08_closest_of_source.

(* --- the headline for the movers, about the translated bodies composed as the classes compose them:
       invariant kept, lands on the wrapped target, and ATOMIC when it raises (C18 site move_agent) *)
Theorem C08_move_of_source : forall c n s a pa p s' r,
  wf c -> Agree c s -> pos s a = Some pa -> src_move c s a p = (s', r) ->
  Agree c s' /\
  (r = Ok [] -> exists p', gen_torus_adj (c_w c) (c_h c) (c_torus c) p = Some p' /\ pos s' a = Some p' /\
                           forall b, b <> a -> pos s' b = pos s b) /\
  (forall e, r = Err e -> obs_state c n s' = obs_state c n s) /\
  (r = Ok [] \/ r = Err E_OOB \/ r = Err E_CELL_NOT_EMPTY).
Proof. exact move_of_source. Qed.
Print Assumptions C08_move_of_source.

Theorem C08_place_remove_of_source : forall c s a,
  Agree c s ->
  (forall p, pos s a = None -> out_of_bounds c p = false -> Agree c (fst (src_place c s a p))) /\
  (forall p, pos s a = Some p -> Agree c (fst (src_remove c s a)) /\ snd (src_remove c s a) = Ok [] /\
                                pos (fst (src_remove c s a)) a = None).
Proof. exact place_remove_of_source. Qed.
Print Assumptions C08_place_remove_of_source.

(* --- the glue that is checked verbatim (objects, RNG calls, warnings, f-strings): swap_pos, the rest of
       move_to_empty and of move_agent_to_one_of *)
Theorem C08_source_skeletons :
  gen_swap_pos_skeleton_ok = true /\ gen_move_to_empty_skeleton_ok = true /\ gen_move_one_of_skeleton_ok = true.
Proof. exact skeletons_ok. Qed.
Print Assumptions C08_source_skeletons.

(* ------------------------------------------------------------------ non-vacuity *)
Definition ex_cfg_s : cfg := {| c_w := 3; c_h := 2; c_torus := true; c_multi := false |}.
Definition ex_cfg_m : cfg := {| c_w := 3; c_h := 2; c_torus := false; c_multi := true |}.
Definition ex_hist : list op :=
  [Place 1 (0, 0); Place 2 (1, 1); ReadMask; Move 1 (4, 3); Move 1 (-1, 7); ReadEmpties; Swap 1 2;
   MoveToEmpty 2 false (0, 0); Remove 1; Place 1 (1, 1)].

(* C08_agree, C08_pos_is_the_one_cell, C08_single_capacity, C08_views, C08_agents_once:
   a history whose final state has agents on the grid, empties built, a rejected move inside *)
Example C08_example_history :
  wf ex_cfg_s /\ wf ex_cfg_m /\
  let s := run ex_cfg_s init ex_hist in
  pos s 1 = Some (1, 1) /\ pos s 2 = Some (0, 0) /\ built s = true /\
  view_agents ex_cfg_s s = [2; 1] /\ map enc (view_empties ex_cfg_s s) = [1; 65536; 131072; 131073] /\
  map snd (map (step ex_cfg_s (run ex_cfg_s init [Place 1 (0, 0); Place 2 (1, 1)])) [Move 1 (4, 3)])
    = [Err E_CELL_NOT_EMPTY] /\
  let m := run ex_cfg_m init ex_hist in
  pos m 1 = Some (1, 1) /\ pos m 2 = Some (0, 0) /\ view_mask ex_cfg_m m = [false; true; true; false; true; true].
Proof. vm_compute. repeat split; congruence. Qed.

(* C08_torus_wrap / C08_move_in_grid: hypotheses hold in a reachable state, target far outside *)
Example C08_example_torus_wrap :
  let s := run ex_cfg_s init [Place 1 (0, 0); Place 2 (1, 1)] in
  c_torus ex_cfg_s = true /\ pos s 1 = Some (0, 0) /\ blocked s 1 (((-7) mod 3), (9 mod 2)) = false /\
  step ex_cfg_s s (Move 1 (-7, 9)) = step ex_cfg_s s (Move 1 (2, 1)) /\
  pos (fst (step ex_cfg_s s (Move 1 (-7, 9)))) 1 = Some (2, 1).
Proof. vm_compute. repeat split; congruence. Qed.

(* C08_bounded_reject / C08_single_occupied_reject / C08_blocked_means_other_agent *)
Example C08_example_rejects :
  let s := run ex_cfg_m init [Place 1 (0, 0)] in
  c_torus ex_cfg_m = false /\ out_of_bounds ex_cfg_m (3, 0) = true /\ placed s 1 = true /\
  let t := run ex_cfg_s init [Place 1 (0, 0); Place 2 (1, 1)] in
  torus_adj ex_cfg_s (4, 3) = Some (1, 1) /\ blocked t 1 (1, 1) = true /\ blocked t 2 (1, 1) = false.
Proof. vm_compute. repeat split; congruence. Qed.

(* C08_move_to_empty_*: an Ok outcome, and a full 1x2 SingleGrid *)
Example C08_example_move_to_empty :
  let s := run ex_cfg_s init [Place 1 (0, 0); Place 2 (1, 1)] in
  snd (step ex_cfg_s s (MoveToEmpty 1 false (2, 0))) = Ok [] /\
  snd (step ex_cfg_s s (MoveToEmpty 1 true (2, 0))) = Ok [] /\
  snd (step ex_cfg_s s (MoveToEmpty 1 false (1, 1))) = Illegal /\
  let c := {| c_w := 1; c_h := 2; c_torus := false; c_multi := false |} in
  let f := run c init [Place 1 (0, 0); Place 2 (0, 1)] in
  placed f 1 = true /\ snd (step c f (MoveToEmpty 1 false (0, 0))) = Err E_NO_EMPTY.
Proof. vm_compute. repeat split; congruence. Qed.

(* C08_move_to_one_of_member / C08_closest_is_nearest / C08_toroidal_distance_is_least: offers more than one
   grid size away; (9,0) wraps to (4,0), one step from (0,0) on a 5x4 torus, and beats (2,0) *)
Example C08_example_closest :
  let c := {| c_w := 5; c_h := 4; c_torus := true; c_multi := true |} in
  let s := run c init [Place 1 (0, 0)] in
  snd (step c s (MoveToOneOf 1 [(9, 0); (2, 0)] SelClosest HNone (9, 0))) = Ok [] /\
  pos (fst (step c s (MoveToOneOf 1 [(9, 0); (2, 0)] SelClosest HNone (9, 0)))) 1 = Some (4, 0) /\
  snd (step c s (MoveToOneOf 1 [(9, 0); (2, 0)] SelClosest HNone (2, 0))) = Illegal /\
  axis_dist true 5 9 = 1 /\ axis_dist true 5 (-11) = 1.
Proof. vm_compute. repeat split; congruence. Qed.

(* C08_swap: both outcomes *)
Example C08_example_swap :
  let s := run ex_cfg_s init [Place 1 (0, 0); Place 2 (1, 1)] in
  pos (fst (step ex_cfg_s s (Swap 1 2))) 1 = Some (1, 1) /\
  pos (fst (step ex_cfg_s s (Swap 1 2))) 2 = Some (0, 0) /\
  snd (step ex_cfg_s s (Swap 1 3)) = Err E_NOT_ON_GRID.
Proof. vm_compute. repeat split; congruence. Qed.

(* C08_rejected_call_changes_nothing: every raising site is reachable *)
Example C08_example_rejections_reachable :
  let s := run ex_cfg_s init [Place 1 (0, 0); Place 2 (1, 1)] in
  map (fun o => snd (step ex_cfg_s s o))
      [Place 3 (1, 1); Move 1 (1, 1); Swap 1 3; MoveToOneOf 1 [(1, 1)] SelBad HNone (0, 0);
       MoveToOneOf 1 [] SelRandom HError (0, 0); MoveToOneOf 1 [(4, 3)] SelRandom HNone (4, 3)]
  = [Err E_CELL_NOT_EMPTY; Err E_CELL_NOT_EMPTY; Err E_NOT_ON_GRID; Err E_BAD_SELECTION;
     Err E_NO_POSITIONS; Err E_CELL_NOT_EMPTY] /\
  snd (step ex_cfg_m (run ex_cfg_m init [Place 1 (0, 0)]) (Move 1 (3, 0))) = Err E_OOB.
Proof. vm_compute. repeat split; congruence. Qed.

(* C08_rejected_call_continue / C08_empties_read_is_transparent: a continuation that places, moves,
   uses move_to_empty (choice branch) and reads the mask, from a state where empties is not built *)
Example C08_example_transparent :
  let s := run ex_cfg_m init [Place 1 (0, 0); Place 2 (0, 0)] in
  let rest := [Move 1 (2, 1); MoveToEmpty 2 false (1, 1); Remove 1; ReadMask; ReadEmpties] in
  built s = false /\ built (fst (step ex_cfg_m s ReadEmpties)) = true /\ length (run_obs ex_cfg_m 2 s rest) = 5%nat /\ run_obs ex_cfg_m 2 (fst (step ex_cfg_m s ReadEmpties)) rest = run_obs ex_cfg_m 2 s rest.
Proof. vm_compute. repeat split; congruence. Qed.

(* C08_place / C08_remove / C08_refines_position_map / C08_run_case_is_step *)
Example C08_example_place_remove :
  let s := run ex_cfg_s init [Place 1 (0, 0)] in
  pos s 2 = None /\ out_of_bounds ex_cfg_s (2, 1) = false /\
  snd (step ex_cfg_s s (Place 2 (2, 1))) = Ok [] /\ snd (step ex_cfg_s s (Place 2 (0, 0))) = Err E_CELL_NOT_EMPTY /\
  snd (step ex_cfg_s s (Remove 1)) = Ok [] /\
  nth_error ex_hist 3 = Some (Move 1 (4, 3)) /\
  nth_error (run_case {| k_cfg := ex_cfg_s; k_n := 2; k_layers := 0; k_ops := ex_hist |}) 3 =
    Some [-1; 2; -8; 0; 65537; -7; 1; 1; 0; 0; 1; 2; 0; 0; -7; 1; 65536; 131072; 131073; -7; 0; 1; 1; 0; 1; 1; -9].
Proof. vm_compute. repeat split; congruence. Qed.

(* the C08_*_of_source theorems: the translated code runs (vm_compute through the interpreter) *)
Example C08_example_source :
  let s := run ex_cfg_s init [Place 1 (0, 0); Place 2 (1, 1)] in
  snd (src_move ex_cfg_s s 1 (1, 1)) = Err E_CELL_NOT_EMPTY /\
  snd (src_move ex_cfg_s s 1 (-7, 9)) = Ok [] /\ pos (fst (src_move ex_cfg_s s 1 (-7, 9))) 1 = Some (2, 1) /\
  snd (src_move ex_cfg_m (run ex_cfg_m init [Place 1 (0, 0)]) 1 (3, 0)) = Err E_OOB /\
  gen_closest 5 4 true (0, 0) [(9, 0); (2, 0); (-11, 4)] = [(9, 0); (-11, 4)] /\
  gen_torus_adj 3 2 true (-7, 9) = Some (2, 1) /\ gen_torus_adj 3 2 false (3, 0) = None /\
  snd (src_place ex_cfg_s s 3 (1, 1)) = Err E_CELL_NOT_EMPTY /\ snd (src_remove ex_cfg_s s 2) = Ok [].
Proof. vm_compute. repeat split; congruence. Qed.

(* round 3: layers, forms, NetworkGrid *)
Example C08_example_round3 :
  let ops := [Place 1 (0, 1); Place 2 (2, 0); LayerOp (LSet 0 (2, 0) 7); Move 2 (5, 2); LayerOp (LFill 1 4); Remove 1] in
  let sl := lrun ex_cfg_s 2 (init, linit) ops in
  pos (fst sl) 2 = Some (2, 0) /\ snd sl 0 (2, 0) = 7 /\ snd sl 0 (0, 0) = 0 /\ snd sl 1 (1, 1) = 4 /\
  let s := run ex_cfg_m init [Place 1 (0, 1); Place 2 (2, 0); Place 3 (2, 0)] in
  view_col ex_cfg_m s (-1) = Some [[2; 3]; []] /\ view_col ex_cfg_m s 3 = None /\
  view_list ex_cfg_m s [(2, 0); (3, 0)] = None /\
  view_list ex_cfg_s (run ex_cfg_s init [Place 1 (0, 1)]) [(3, 3); (1, 0)] = Some [[1]; []] /\
  view_slice_y ex_cfg_m s 2 (Some (-1)) None = Some [[]] /\ view_slice_x ex_cfg_m s (Some 1) None 0 = Some [[]; [2; 3]] /\
  pyslice 5 (Some (-2)) (Some 9) = [3; 4] /\ pyslice 5 (Some 4) (Some 2) = [] /\
  view_form ex_cfg_m s (FCellList [(2, 0)] true) = Ok [0; 2; 3] /\
  let t := nrun [3; 0; 7] ninit [NPlace 1 0; NPlace 2 0; NMove 1 7; NPlace 3 9] in
  NoDup [3; 0; 7] /\ npos t 1 = Some 7 /\ npos t 3 = None /\ ncontents t [3; 0; 7] = [2; 1] /\
  snd (nstep [3; 0; 7] t (NMove 2 11)) = Err E_KEY /\ npos (fst (nstep [3; 0; 7] t (NMove 2 11))) 2 = Some 0 /\
  snd (nstep [3; 0; 7] t (NPlace 3 9)) = Err E_KEY.
Proof. vm_compute. repeat split; try congruence. repeat constructor; cbn; intuition congruence. Qed.

(* round 4: torus_adj / torus_adj_2d as observed calls *)
Example C08_example_round4 :
  view_form ex_cfg_m init (FAdj (5, 7)) = Err E_OOB /\ view_form ex_cfg_s init (FAdj (5, 7)) = Ok [2; 1] /\
  view_form ex_cfg_m init (FAdj2d (5, 7)) = Ok [2; 1] /\ view_form ex_cfg_m init (FAdj2d (-1, -1)) = Ok [2; 1] /\
  gen_torus_adj_2d 3 2 (-1, -1) = (2, 1).
Proof. vm_compute. repeat split; congruence. Qed.
