From Coq Require Import ZArith List Bool.
From Mesa Require Import Common.ListX Model.LegacyGrid Proofs.LegacyGridProofs.
Import ListNotations.
Open Scope Z_scope.
