(* C09 - legacy neighbourhood queries return exactly the cells/agents in range.
   ONLY statements closed by `exact`, with Print Assumptions beneath each. *)
From Coq Require Import ZArith List Bool.
From Mesa Require Import Common.ListX Common.Reach Generated.Tables Model.LegacyNbhd Proofs.LegacyNbhdProofs Proofs.LegacyNbhdBridge
  Model.LegacyHexNet Proofs.LegacyHexNetProofs.
Import ListNotations.
Open Scope Z_scope.

(* Every grid with w,h >= 1, every position (in grid), every radius >= 0, both metrics, both
   include_center values: the computed neighbourhood is exactly the in-grid cells within r in
   Chebyshev / Manhattan distance (toroidal per-axis distance on a torus), pos itself present
   exactly when include_center is set. *)
Theorem C09_cells_exact : forall g q c,
  0 < g_w g -> 0 < g_h g -> 0 <= q_r q ->
  (In c (compute_nbhd g q) <->
   out_of_bounds g c = false /\ dist g (q_moore q) c (q_pos q) <= q_r q /\
   (c <> q_pos q \/ q_ic q = true)).
Proof. exact cells_exact. Qed.
Print Assumptions C09_cells_exact.

Theorem C09_nodup : forall g q, NoDup (compute_nbhd g q).
Proof. exact nbhd_nodup. Qed.
Print Assumptions C09_nodup.

Theorem C09_fast_eq_slow : forall g q c,
  0 <= q_r q -> fast_guard g q = true -> (In c (nb_fast q) <-> In c (nb_slow g q)).
Proof. exact fast_eq_slow. Qed.
Print Assumptions C09_fast_eq_slow.

(* The cache key tuple extracted from the CURRENT source determines all four arguments ... *)
Theorem C09_source_key_complete : key_complete gen_grid_cache_key = true.
Proof. vm_compute. reflexivity. Qed.
Print Assumptions C09_source_key_complete.

(* ... hence every history of queries on one grid instance gets, for each query, the answer a
   fresh grid would give (out-of-bounds positions are rejected, never cached). *)
Theorem C09_cache_transparent : forall g qs,
  answers gen_grid_cache_key g [] qs = map (spec_answer g) qs.
Proof. intros g qs. apply answers_history_independent. exact C09_source_key_complete. Qed.
Print Assumptions C09_cache_transparent.

Theorem C09_agents_exact : forall cs cells a,
  In a (agents_in cs cells) <-> exists p, In p cells /\ In a (cell_agents cs p).
Proof. exact agents_in_spec. Qed.
Print Assumptions C09_agents_exact.

(* ---- code-level tie (T1): the bounds test, the interior guard and both offset loop nests of
   _Grid.get_neighborhood are TRANSLATED from the current source (harness/pyexpr.py) into gen_out_of_bounds,
   gen_fast_guard, gen_nb_fast, gen_nb_slow; the remaining statements of the function are checked verbatim
   (gen_nbhd_skeleton_ok).  The model's cache-miss body is the translated code ... *)
Theorem C09_source_skeleton : gen_nbhd_skeleton_ok = true.
Proof. vm_compute. reflexivity. Qed.
Print Assumptions C09_source_skeleton.

Theorem C09_source_code_is_model : forall g q,
  compute_nbhd g q = gen_compute_nbhd (g_w g) (g_h g) (g_torus g) (q_moore q) (q_ic q) (q_pos q) (q_r q).
Proof. exact compute_bridge. Qed.
Print Assumptions C09_source_code_is_model.

(* ... so the metric-ball theorem holds of the translated source code itself *)
Theorem C09_cells_exact_of_source : forall w h torus moore ic pos r c,
  0 < w -> 0 < h -> 0 <= r ->
  (In c (gen_compute_nbhd w h torus moore ic pos r) <->
   gen_out_of_bounds w h c = false /\
   dist {| g_w := w; g_h := h; g_torus := torus |} moore c pos <= r /\ (c <> pos \/ ic = true)).
Proof. exact cells_exact_of_source. Qed.
Print Assumptions C09_cells_exact_of_source.

(* ---- legacy hex grids ---- *)
(* The two adjacency tables extracted from the CURRENT source list, for every cell of the infinite
   plane, exactly the cells whose hexagons touch it (distance 1 in cube coordinates, even-q layout) *)
Theorem C09_hex_touching : forall p c, In c (hex_raw p) <-> hexdist p c = 1.
Proof. exact hex_touching. Qed.
Print Assumptions C09_hex_touching.

(* get_neighborhood = the cells within r steps of (wrapped / clipped) touching hexagons, pos itself
   present exactly when include_center is set; no duplicates; any width, height, radius *)
Theorem C09_hex_is_ball : forall g q c,
  In c (hex_compute g q) <->
  (c <> q_pos q /\ within (hex_adj g) (Z.to_nat (q_r q)) (q_pos q) c) \/ (q_ic q = true /\ c = q_pos q).
Proof. exact hex_compute_spec. Qed.
Print Assumptions C09_hex_is_ball.

Theorem C09_hex_nodup : forall g q, NoDup (hex_compute g q).
Proof. exact hex_compute_nodup. Qed.
Print Assumptions C09_hex_nodup.

Theorem C09_hex_source_key_complete : hex_key_complete gen_hex_cache_key = true.
Proof. vm_compute. reflexivity. Qed.
Print Assumptions C09_hex_source_key_complete.

Theorem C09_hex_cache_transparent : forall g qs,
  hanswers gen_hex_cache_key g [] qs = map (fun '(p, i, r) => hex_compute g (hq p i r)) qs.
Proof. intros g qs. apply hex_answers_history_independent. exact C09_hex_source_key_complete. Qed.
Print Assumptions C09_hex_cache_transparent.

(* ---- NetworkGrid: every simple graph, every node, every radius >= 1 ---- *)
Theorem C09_network_ball : forall G node ic r c,
  simple G -> 1 <= r ->
  (In c (net_nbhd G node ic r) <->
   (c <> node /\ within (g_adj G) (Z.to_nat r) node c) \/ (ic = true /\ c = node)).
Proof. exact net_nbhd_spec. Qed.
Print Assumptions C09_network_ball.

(* the generic engine both use: level-wise expansion = nodes reachable in 1..r steps *)
Theorem C09_ball_spec : forall (A : Type) (eqb : A -> A -> bool),
  (forall a b, eqb a b = true <-> a = b) ->
  forall (adj : A -> list A) r start c, In c (ball eqb adj r start) <-> within adj r start c.
Proof. exact @ball_spec. Qed.
Print Assumptions C09_ball_spec.

Example C09_hex_example :
  let g := {| g_w := 4; g_h := 3; g_torus := true |} in
  length (hex_compute g (hq (1, 2) false 2)) = 11%nat.
Proof. vm_compute. reflexivity. Qed.

Example C09_net_example :
  let G := [(0, [1]); (1, [0; 2]); (2, [1]); (3, [])] in
  net_nbhd G 0 true 2 = [0; 1; 2] /\ net_nbhd G 3 true 5 = [3].
Proof. vm_compute. split; reflexivity. Qed.

(* non-vacuity: a 3x2 torus, radius 2 (larger than the grid allows without collisions) *)
Example C09_example :
  let g := {| g_w := 3; g_h := 2; g_torus := true |} in
  let q := {| q_pos := (0, 1); q_moore := false; q_ic := false; q_r := 2 |} in
  0 < g_w g /\ 0 < g_h g /\ 0 <= q_r q /\ out_of_bounds g (q_pos q) = false /\
  length (compute_nbhd g q) = 5%nat.
Proof. vm_compute. repeat split; congruence. Qed.
