(* C17 - a Computable is never stale and recomputes only when an input changed.
   ONLY statements closed by `exact`, with Print Assumptions beneath each.
   Model: Model/Computed.v (mesa_signal.py as repaired by fixes/C17-1..4). *)
From Coq Require Import ZArith List Bool PeanoNat Lia.
From Mesa Require Import Generated.Tables Model.Computed Proofs.ComputedProofs Proofs.ComputedBridge Proofs.ComputedKill.
Import ListNotations.
Open Scope Z_scope.

(* `den prog al sto k` is "what the function of computed k returns if evaluated right now" on
   store sto with live owners al: the direct recursive evaluation of its term. *)
Theorem C17_den_is_direct_evaluation : forall prog al sto k,
  den prog al sto k = pev prog (den prog al sto) al sto k (d_expr (cdef_at prog k)).
Proof. exact den_unfold. Qed.
Print Assumptions C17_den_is_direct_evaluation.

(* the store a read is judged against is the last value assigned to each observable *)
Theorem C17_store_is_last_assignment : forall prog nobs init pre o nm v,
  no_kill pre = true ->
  let st := final prog nobs (install prog (init_state init)) pre in
  let st' := final prog nobs (install prog (init_state init)) (pre ++ [Assign o nm v]) in
  forall o' n', store st' o' n' = if (o' =? o) && (n' =? nm) then v else store st o' n'.
Proof. exact store_after_assign. Qed.
Print Assumptions C17_store_is_last_assignment.

(* FULL STATEMENT (refuted on the code as it is, see C17_never_stale_refuted):
     forall c pre k, k < length (c_comps c) -> alive st (owner k) = true ->
       snd (read_top (c_comps c) st k) = den (c_comps c) (alive st) (store st) k
     where st = final ... (start c) pre,  for ALL histories pre (assignments, reads, writer Computeds
     AND owner collection).
   PROVED: the same for all histories without owner collection - every dependency structure
   (any number of owners, observables, computeds, branches, chains), every sequence of assignments
   (incl. restoring values), reads and writer Computeds, no bound on anything.
   Missing: histories with Kill (a collected parent owner does not mark the Computed dirty:
   known finding C17/Computed/stale-after-parent-collected). *)
Theorem C17_never_stale_partial : forall (c : case) (pre : list op) (k : nat),
  no_kill pre = true -> (k < length (c_comps c))%nat ->
  let st := final (c_comps c) (map (@length Z) (c_init c)) (start c) pre in
  snd (read_top (c_comps c) st k) = den (c_comps c) (alive st) (store st) k.
Proof. exact never_stale_case. Qed.
Print Assumptions C17_never_stale_partial.

Theorem C17_never_stale_refuted : exists (c : case) (pre : list op) (k : nat),
  (k < length (c_comps c))%nat /\
  let st := final (c_comps c) (map (@length Z) (c_init c)) (start c) pre in
  alive st (cowner (c_comps c) k) = true /\
  snd (read_top (c_comps c) st k) <> den (c_comps c) (alive st) (store st) k.
Proof.
  exists {| c_init := [[1]; [7]]; c_comps := [mkdef 0 (Add (Obs 1 0) (Obs 0 0))]; c_ops := [] |}, [Kill 1], 0%nat.
  split; [simpl; lia|]. vm_compute. split; [reflexivity|discriminate].
Qed.
Print Assumptions C17_never_stale_refuted.

(* Owner collection.  FULL STATEMENT: for all histories with Kill ops anywhere and every live computed k
   whose last evaluation read nothing (directly or through the Computables it read) of a collected owner:
   the read is not stale.  PROVED: for a collection at the end of any collection-free history and every
   computed k that is clean at that moment: if its last evaluation read nothing of the collected owner o
   (`indepf`: no remembered source on o, recursively through the remembered Computables) then k is alive
   and reading it right after the collection returns its function's value under the NEW set of live
   owners - so the refuted witness (a Computed that did read the collected owner) is the excluded case.
   Missing: computeds that are dirty at the moment of collection, and histories that go on after it
   (the comparison loop and rebuild in a state with dead owners are modelled and run in the
   correspondence, but the invariant is proved for all-alive states only). *)
Theorem C17_never_stale_unless_read_dead_owner_partial : forall prog nobs init pre o k,
  no_kill pre = true -> (k < length prog)%nat ->
  let st := final prog nobs (install prog (init_state init)) pre in
  let st' := final prog nobs (install prog (init_state init)) (pre ++ [Kill o]) in
  cowner prog k <> o -> dirty st k = false -> indepf prog (length prog) st o k = true ->
  alive st' (cowner prog k) = true /\
  snd (read_top prog st' k) = den prog (alive st') (store st') k.
Proof. exact never_stale_after_kill. Qed.
Print Assumptions C17_never_stale_unless_read_dead_owner_partial.

(* Owner collection, second step (round 4): the invariant RELATIVE TO THE HEALTHY COMPUTEDS survives collections.
   GU U st: the clean-clauses and the per-computed invariant in its environment form RDe (parents = reads of the
   last evaluation of the function alone, the Computables read being an arbitrary environment) hold for every
   computed in U; U is closed downwards along `parents`; everything structural holds for all computeds; no owner
   needs to be alive except those of U and of the remembered sources.  After ANY collection-free history and ANY
   number of collections the invariant holds for U = the computeds that at none of these collections remembered -
   directly or through the Computables they remember - a source of the collected owner; this covers computeds
   that were DIRTY at the collection (their RDe holds under the new liveness map: the comparison they will run is
   sound).  Still missing for the full statement: the evaluation chain (Computed.__call__) under GU, i.e. histories
   that assign / read dirty computeds AFTER a collection (see reports/g17.md). *)
Theorem C17_healthy_invariant_survives_collections : forall prog nobs init pre os,
  no_kill pre = true ->
  let st := final prog nobs (install prog (init_state init)) pre in
  GU prog (U_kills prog (fun j => (j < length prog)%nat) st os) (kills st os).
Proof. exact healthy_after_collections. Qed.
Print Assumptions C17_healthy_invariant_survives_collections.

(* ... hence after several collections every healthy clean computed is alive and is read exactly *)
Theorem C17_never_stale_after_collections_partial : forall prog nobs init pre os k,
  no_kill pre = true -> NoDup os ->
  let st := final prog nobs (install prog (init_state init)) pre in
  let st' := final prog nobs st (map Kill os) in
  U_kills prog (fun j => (j < length prog)%nat) st os k -> dirty st' k = false ->
  alive st' (cowner prog k) = true /\ snd (read_top prog st' k) = den prog (alive st') (store st') k.
Proof. exact never_stale_after_collections. Qed.
Print Assumptions C17_never_stale_after_collections_partial.

(* the two lemmas the evaluation chain under GU will rest on: the environment form still determines the value,
   and it survives the collection of an owner the evaluation did not read; a dirty cascade started at an
   unhealthy computed leaves the dirty flags of the healthy ones alone *)
Theorem C17_environment_form_determines_and_survives : forall prog,
  (forall al j P v, RDe prog al j P v ->
     forall sto', (forall s x, In (s, x) (flat P) -> dsrc prog al sto' s = x) ->
     den prog al sto' j = v /\ (forall p, In p (flat P) <-> In p (reads_of prog al sto' j))) /\
  (forall al o j P v, RDe prog al j P v -> owner_keyed (owner_of prog) P ->
     (forall s x, In (s, x) (flat P) -> owner_of prog s <> o) ->
     RDe prog (al_kill al o) j (pkill o P) v) /\
  (forall (U : nat -> Prop) st s, closedU U st ->
     (forall d, In d (subs st s) -> dirty st d = true \/ ~ U d) ->
     forall i, U i -> dirty (notify prog st s) i = dirty st i).
Proof. exact (fun prog => conj (RDe_det prog) (conj (RDe_kill prog) (notify_unhealthy prog))). Qed.
Print Assumptions C17_environment_form_determines_and_survives.

(* the invariant behind it holds in every reachable state, so the same is true of every read a
   function performs through a chain (ev_ok), not only of top-level reads *)
Theorem C17_never_stale_every_state_partial : forall prog st k,
  Inv prog st -> (k < length prog)%nat -> snd (read_top prog st k) = D prog st k.
Proof. exact never_stale_state. Qed.
Print Assumptions C17_never_stale_every_state_partial.

(* Reachable-state invariant (histories without owner collection): for every computed k that has run,
   Computed.parents holds EXACTLY the reads of its last evaluation - the reads its function performs
   on the store sto0 it last ran on, with the values read - its cached value is the result of that run,
   and it is subscribed to every one of them; while it is clean these are also exactly the reads and
   the result on the CURRENT store. *)
Theorem C17_parents_are_last_reads : forall prog nobs init ops k,
  no_kill ops = true -> (k < length prog)%nat ->
  let st := final prog nobs (install prog (init_state init)) ops in
  first st k = false ->
  (exists sto0, (forall p, In p (flat (parents st k)) <-> In p (reads_of prog (alive st) sto0 k)) /\
                value st k = den prog (alive st) sto0 k) /\
  (forall s x, In (s, x) (flat (parents st k)) -> In k (subs st s)) /\
  (dirty st k = false ->
     (forall p, In p (flat (parents st k)) <-> In p (reads_of prog (alive st) (store st) k)) /\
     value st k = den prog (alive st) (store st) k).
Proof. exact parents_are_last_reads. Qed.
Print Assumptions C17_parents_are_last_reads.

(* Whole histories (FULL STATEMENT: incl. owner collection; PROVED without): after any history, reading
   ANY computed j - k itself or something that reads k through a chain of any length - runs the
   function of k at most once, and only if it never ran or one of the values it read last time differs
   now; the parents it is left with are the reads of that run. *)
Theorem C17_recompute_justified_partial : forall prog nobs init ops j k,
  no_kill ops = true -> (j < length prog)%nat ->
  let st := final prog nobs (install prog (init_state init)) ops in
  let st' := fst (read_top prog st j) in
  count st' k = count st k \/
  (count st' k = count st k + 1 /\
   (first st k = true \/ exists s x, In (s, x) (flat (parents st k)) /\ dsrc prog (alive st) (store st) s <> x) /\
   (forall p, In p (flat (parents st' k)) <-> In p (reads_of prog (alive st) (store st) k))).
Proof. exact runs_only_when_changed. Qed.
Print Assumptions C17_recompute_justified_partial.

(* ... hence (derived from the two theorems above): while none of the values k read last time has changed -
   e.g. after assignments that restored them - no read of any computed re-runs k's function *)
Theorem C17_no_spurious_partial : forall prog nobs init ops j k,
  no_kill ops = true -> (j < length prog)%nat ->
  let st := final prog nobs (install prog (init_state init)) ops in
  first st k = false ->
  (forall s x, In (s, x) (flat (parents st k)) -> dsrc prog (alive st) (store st) s = x) ->
  count (fst (read_top prog st j)) k = count st k.
Proof. exact no_spurious_history. Qed.
Print Assumptions C17_no_spurious_partial.

(* ... and assignments never run a function at all (evaluation is lazy), in any state *)
Theorem C17_assignment_runs_nothing : forall prog b st o nm v st',
  set_obs prog b st o nm v = Some st' -> count st' = count st.
Proof. exact set_obs_count. Qed.
Print Assumptions C17_assignment_runs_nothing.

(* Chains: at the end of any history (without owner collection) a read of computed k equals the direct
   recursive evaluation of its term over the current store, where every `Comp k'` met on the way is again
   the direct recursive evaluation of the term of k' - through chains of any length. *)
Theorem C17_chain_read_is_recursive_evaluation : forall (c : case) (pre : list op) (k : nat),
  no_kill pre = true -> (k < length (c_comps c))%nat ->
  let prog := c_comps c in
  let st := final prog (map (@length Z) (c_init c)) (start c) pre in
  let ev := den prog (alive st) (store st) in
  snd (read_top prog st k) = pev prog ev (alive st) (store st) k (d_expr (cdef_at prog k)) /\
  (forall k', ev k' = pev prog ev (alive st) (store st) k' (d_expr (cdef_at prog k'))).
Proof. exact chain_read. Qed.
Print Assumptions C17_chain_read_is_recursive_evaluation.

(* a function that reads an observable and later assigns it is rejected - whatever it does before,
   in between (other reads, assignments to other observables, reads of Computables) and after, in
   every state *)
Theorem C17_cycle_rejected : forall prog o nm v pre mid post st, alive st o = true ->
  snd (run_acts prog (pre ++ ARead o nm :: mid ++ AWrite o nm v :: post) st) = false.
Proof. exact cycle_rejected. Qed.
Print Assumptions C17_cycle_rejected.

(* What exactly the code rejects (open issue "transitive cycles" made precise):
   an assignment from inside a function is refused iff the observable is in PROCESSING_SIGNALS then; *)
Theorem C17_write_rejected_iff_in_read_set : forall prog st o nm v, alive st o = true ->
  (snd (run_acts prog [AWrite o nm v] st) = false <-> ps_mem o nm (ps st) = true).
Proof. exact write_rejected_iff. Qed.
Print Assumptions C17_write_rejected_iff_in_read_set.

(* reading a Computable and then assigning x is rejected iff evaluating that Computable put x into the
   read set, i.e. its function was actually re-run and read x (or x was there before); *)
Theorem C17_read_computable_then_write : forall prog st k o nm v,
  (k < length prog)%nat -> alive st (cowner prog k) = true -> alive st o = true ->
  snd (run_acts prog [AReadC k; AWrite o nm v] st) = negb (ps_mem o nm (ps (fst (read_top prog st k)))).
Proof. exact read_comp_then_write. Qed.
Print Assumptions C17_read_computable_then_write.

(* so a transitive cycle through a Computable served from cache is ACCEPTED by the code, whatever that
   Computable depends on (the cycle clause of the statement holds for direct reads only) *)
Theorem C17_cycle_through_cache_accepted : forall prog st k o nm v,
  (k < length prog)%nat -> alive st (cowner prog k) = true -> alive st o = true ->
  dirty st k = false -> first st k = false -> ps_mem o nm (ps st) = false ->
  snd (run_acts prog [AReadC k; AWrite o nm v] st) = true.
Proof. exact cycle_through_cache_accepted. Qed.
Print Assumptions C17_cycle_through_cache_accepted.

(* The read set outlives the evaluation that filled it (open issue "false rejection" made precise): a read
   never removes anything from PROCESSING_SIGNALS, only a top-level assignment empties it; hence a function
   that reads NOTHING and assigns x is rejected whenever some earlier evaluation read x and no top-level
   assignment happened since, and is accepted right after one.  (The statement promises rejection of a
   function that writes what it depends on; rejecting a non-dependent write is promised neither way.) *)
Theorem C17_read_set_persists_until_assignment : forall prog,
  (forall st k o nm, ps_mem o nm (ps st) = true -> ps_mem o nm (ps (fst (read_top prog st k))) = true) /\
  (forall st o nm v st', set_obs prog false st o nm v = Some st' -> ps st' = []) /\
  (forall st o nm v, alive st o = true -> ps_mem o nm (ps st) = true -> snd (run_acts prog [AWrite o nm v] st) = false) /\
  (forall st o nm v, alive st o = true -> ps st = [] -> snd (run_acts prog [AWrite o nm v] st) = true).
Proof.
  exact (fun prog => conj (read_keeps_read_set prog) (conj (assign_clears_read_set prog)
        (conj (false_rejection prog) (no_rejection_on_empty_read_set prog)))).
Qed.
Print Assumptions C17_read_set_persists_until_assignment.

(* A rejected installation `owner.c = Computed(f)` leaves the Computed installed (dirty, not first, _value None,
   parents = what f read before the ValueError).  Reading it afterwards - in any state reached without owner
   collection - while none of those values has changed does NOT raise again: the comparison finds nothing
   changed, the Computed is marked clean and its cached _value, None, is returned (code 2). *)
Theorem C17_rejected_installation_then_read_returns_none : forall prog acts tp st,
  Inv prog st ->
  (forall k x, In (SComp k, x) (flat tp) -> (k < length prog)%nat) ->
  (forall s x, In (s, x) (flat tp) -> Dsrc prog st s = x) ->
  snd (reread_rejected prog acts tp st) = 2.
Proof. exact rejected_then_read_none. Qed.
Print Assumptions C17_rejected_installation_then_read_returns_none.

(* ---------------------------------------------------------------- code-level T1
   The methods of mesa_signal.py the model transcribes are TRANSLATED from the current source on every run
   (harness/tables/computed_code.py -> Generated.Tables: control flow, conditions and statement order from the
   source, leaves = a fixed dictionary statement -> model primitive); what cannot be translated (the
   for/else/break nest over weak references with its test cut out, the evaluation try/finally,
   Computable.__set__, BaseObservable.__set__) is checked verbatim. *)
Theorem C17_source_skeleton : gen_signal_skeleton_ok = true.
Proof. vm_compute. reflexivity. Qed.
Print Assumptions C17_source_skeleton.

(* the translated code IS the model: every function the theorems above are about equals the function
   regenerated from the source *)
Theorem C17_source_code_is_model :
  (forall prog b st o nm v, set_obs prog b st o nm v = gen_obs_set prog b st o nm v) /\
  (forall prog call cur st k, read_comp prog call cur st k = gen_comp_get prog call cur st k) /\
  (forall prog st j s v, add_parent prog st j s v = gen_add_parent prog st j s v) /\
  (forall prog st j, remove_parents prog st j = gen_remove_parents prog st j) /\
  (forall v old, gen_cmp_changed v old = negb (v =? old)) /\
  (forall prog f st c,
     set_dirty prog (S f) st c =
     if negb (c <? ncomp prog)%nat then st else if negb (alive st (cowner prog c)) then st
     else gen_set_dirty (fun s => fold_left (set_dirty prog f) (subs s (SComp c)) s) st c) /\
  (forall prog f st j,
     callf prog (S f) st j =
     gen_call prog (fun s => cmp_items prog (callf prog f) (flat (parents s j)) s) (evalf_of prog (callf prog f) j) st j) /\
  (forall prog f st j, g_callf prog f st j = callf prog f st j) /\
  (forall prog st k, g_read_top prog st k = read_top prog st k).
Proof.
  exact (conj obs_set_bridge (conj comp_get_bridge (conj add_parent_bridge (conj remove_parents_bridge
        (conj cmp_changed_bridge (conj set_dirty_bridge (conj call_bridge (conj g_callf_eq g_read_top_eq)))))))).
Qed.
Print Assumptions C17_source_code_is_model.

(* ... so the never-stale theorem holds of the machine assembled from the translated source code
   (g_read_top = gen_comp_get over gen_call over gen_obs_get / gen_comp_get / gen_cmp_changed) *)
Theorem C17_never_stale_of_source : forall (c : case) (pre : list op) (k : nat),
  gen_signal_skeleton_ok = true ->
  no_kill pre = true -> (k < length (c_comps c))%nat ->
  let st := final (c_comps c) (map (@length Z) (c_init c)) (start c) pre in
  snd (g_read_top (c_comps c) st k) = den (c_comps c) (alive st) (store st) k.
Proof. exact never_stale_of_source. Qed.
Print Assumptions C17_never_stale_of_source.

(* ... and the three facts the cycle clause rests on hold of the translated Observable.__get__ / __set__:
   a read by an evaluating function enters the read set; an inside assignment to a member of the read set is
   refused; an accepted inside assignment does not empty the read set *)
Theorem C17_cycle_rejected_of_source :
  (forall prog j st o nm, ps_mem o nm (ps (fst (gen_obs_get prog (Some j) st o nm))) = true) /\
  (forall prog st o nm v, ps_mem o nm (ps st) = true -> gen_obs_set prog true st o nm v = None) /\
  (forall prog st o nm v st', gen_obs_set prog true st o nm v = Some st' -> ps st' = ps st).
Proof. exact (conj read_registers_of_source (conj cycle_rejected_of_source clear_only_outside_of_source)). Qed.
Print Assumptions C17_cycle_rejected_of_source.

(* ---------------------------------------------------------------- non-vacuity *)
Definition ex_chain : case :=
  {| c_init := [[1; 10]];
     c_comps := [mkdef 0 (Add (Obs 0 1) (Const 1)); mkdef 0 (If (Obs 0 0) (Comp 0) (Const 0));
                 mkdef 0 (Add (Obs 0 0) (Comp 0))];
     c_ops := [] |}.

(* never stale: branch flip away from c0 and back while c0's input changes *)
Example C17_example_never_stale :
  let pre := [Read 1; Assign 0 0 0; Read 1; Assign 0 1 20; Read 1; Assign 0 0 3] in
  no_kill pre = true /\
  let st := final (c_comps ex_chain) [2%nat] (start ex_chain) pre in
  snd (read_top (c_comps ex_chain) st 1) = 21 /\ dirty st 1%nat = true /\ dirty st 0%nat = true.
Proof. vm_compute. repeat split. Qed.

(* no spurious: after `x := 2; read c2; x := 2` computed 2 is dirty, not first, and every remembered
   value (x = 2, c0 = 11) is current: the hypotheses of C17_no_spurious_partial hold non-trivially *)
Example C17_example_no_spurious :
  let pre := [Assign 0 0 2; Read 2; Assign 0 0 2] in
  no_kill pre = true /\
  let st := final (c_comps ex_chain) [2%nat] (start ex_chain) pre in
  first st 2%nat = false /\ dirty st 2%nat = true /\
  map fst (flat (parents st 2%nat)) = [SObs 0 0; SComp 0] /\
  forallb (fun p => dsrc (c_comps ex_chain) (alive st) (store st) (fst p) =? snd p) (flat (parents st 2%nat)) = true /\
  count (fst (read_top (c_comps ex_chain) st 2)) 2%nat = 2.
Proof. vm_compute. repeat split. Qed.

(* recompute justified: after x := 5 the function does run *)
Example C17_example_recompute :
  let st := final (c_comps ex_chain) [2%nat] (start ex_chain) [Assign 0 0 2; Read 2; Assign 0 0 5] in
  count st 2%nat = 2 /\ count (fst (read_top (c_comps ex_chain) st 2)) 2%nat = 3.
Proof. vm_compute. repeat split. Qed.

(* cycle: read x, write y, write x is rejected; write y alone is accepted (after a top-level
   assignment: PROCESSING_SIGNALS still holds the reads of the installing evaluations before) *)
Example C17_example_cycle :
  let st := final (c_comps ex_chain) [2%nat] (start ex_chain) [Assign 0 1 10] in
  snd (run_acts (c_comps ex_chain) [ARead 0 0; AWrite 0 1 7; AWrite 0 0 6] st) = false /\
  snd (run_acts (c_comps ex_chain) [ARead 0 0; AWrite 0 1 7] st) = true.
Proof. vm_compute. split; reflexivity. Qed.

(* parents are the last reads: after the branch flips away from c0, computed 1 remembers x only *)
Example C17_example_parents_are_last_reads :
  let pre := [Read 1; Assign 0 0 0; Read 1; Assign 0 1 20] in
  let st := final (c_comps ex_chain) [2%nat] (start ex_chain) pre in
  first st 1%nat = false /\ dirty st 1%nat = false /\
  flat (parents st 1%nat) = [(SObs 0 0, 0)] /\
  reads_of (c_comps ex_chain) (alive st) (store st) 1 = [(SObs 0 0, 0)] /\
  flat (parents st 2%nat) = [(SObs 0 0, 1); (SComp 0, 11)] /\ dirty st 2%nat = true.
Proof. vm_compute. repeat split. Qed.

(* whole-history form: reading computed 2 (which reads c0) after `y := 10` restored y does not re-run c0,
   after `y := 30` it re-runs c0 exactly once *)
Example C17_example_runs_only_when_changed :
  let prog := c_comps ex_chain in
  let st1 := final prog [2%nat] (start ex_chain) [Assign 0 1 20; Assign 0 1 10] in
  let st2 := final prog [2%nat] (start ex_chain) [Assign 0 1 20; Assign 0 1 30] in
  dirty st1 0%nat = true /\ count (fst (read_top prog st1 2)) 0%nat = count st1 0%nat /\
  count (fst (read_top prog st2 2)) 0%nat = count st2 0%nat + 1.
Proof. vm_compute. repeat split. Qed.

(* a chain of six Computables, c_i = c_(i-1) + x *)
Definition ex_long : case :=
  {| c_init := [[1]];
     c_comps := [mkdef 0 (Obs 0 0); mkdef 0 (Add (Comp 0) (Obs 0 0)); mkdef 0 (Add (Comp 1) (Obs 0 0));
                 mkdef 0 (Add (Comp 2) (Obs 0 0)); mkdef 0 (Add (Comp 3) (Obs 0 0)); mkdef 0 (Add (Comp 4) (Obs 0 0))];
     c_ops := [] |}.
Example C17_example_chain :
  let st := final (c_comps ex_long) [1%nat] (start ex_long) [Assign 0 0 7; Read 2; Assign 0 0 3] in
  snd (read_top (c_comps ex_long) st 5) = 18 /\ den (c_comps ex_long) (alive st) (store st) 5 = 18 /\
  map (count (fst (read_top (c_comps ex_long) st 5))) (seq 0 6) = [3; 3; 3; 2; 2; 2].
Proof. vm_compute. repeat split. Qed.

(* transitive cycle: c0 depends on x; a function reads c0 from cache and assigns x: accepted; when c0 is
   dirty its function is re-run, x enters the read set, and the same function is rejected *)
Example C17_example_transitive_cycle :
  let prog := c_comps ex_long in
  let st := final prog [1%nat] (start ex_long) [Assign 0 0 7; Read 0; Assign 0 0 7; Read 0] in
  let st' := final prog [1%nat] (start ex_long) [Assign 0 0 7; Read 0; Assign 0 0 8] in
  map fst (flat (parents st 0%nat)) = [SObs 0 0] /\ dirty st 0%nat = false /\ ps_mem 0 0 (ps st) = false /\
  snd (run_acts prog [AReadC 0; AWrite 0 0 9] st) = true /\
  dirty st' 0%nat = true /\ snd (run_acts prog [AReadC 0; AWrite 0 0 9] st') = false.
Proof. vm_compute. repeat split. Qed.

(* owner collection: c0 = A.x + 1 never read owner B (1), c1 = B.x + c0 did, c2 = c0 + c0 did not: collecting B
   leaves c0 and c2 exact (hypotheses of C17_never_stale_unless_read_dead_owner_partial hold), c1 is the
   refuted case *)
Definition ex_kill : case :=
  {| c_init := [[1]; [7]];
     c_comps := [mkdef 0 (Add (Obs 0 0) (Const 1)); mkdef 0 (Add (Obs 1 0) (Comp 0)); mkdef 0 (Add (Comp 0) (Comp 0))];
     c_ops := [] |}.
Example C17_example_kill :
  let prog := c_comps ex_kill in
  let st := final prog [1%nat; 1%nat] (start ex_kill) [Assign 0 0 4; Read 1; Read 2] in
  let st' := final prog [1%nat; 1%nat] (start ex_kill) ([Assign 0 0 4; Read 1; Read 2] ++ [Kill 1]) in
  dirty st 2%nat = false /\ indepf prog 3 st 1 2 = true /\ indepf prog 3 st 1 0 = true /\ indepf prog 3 st 1 1 = false /\
  snd (read_top prog st' 2) = 10 /\ den prog (alive st') (store st') 2 = 10 /\
  snd (read_top prog st' 1) = 12 /\ den prog (alive st') (store st') 1 = 5.
Proof. vm_compute. repeat split. Qed.

(* the generated machine runs: same read as the model on the branch-flip history *)
Example C17_example_of_source :
  let pre := [Read 1; Assign 0 0 0; Read 1; Assign 0 1 20; Read 1; Assign 0 0 3] in
  let st := final (c_comps ex_chain) [2%nat] (start ex_chain) pre in
  gen_signal_skeleton_ok = true /\ snd (g_read_top (c_comps ex_chain) st 1) = 21 /\
  gen_obs_set (c_comps ex_chain) true (fst (gen_obs_get (c_comps ex_chain) (Some 1%nat) st 0 0)) 0 0 5 = None.
Proof. vm_compute. repeat split. Qed.

(* false rejection: reading c1 re-runs its function, which reads x; a function that reads nothing and assigns x
   is then rejected; after a top-level assignment it is accepted *)
Example C17_example_false_rejection :
  let prog := c_comps ex_chain in
  let st := final prog [2%nat] (start ex_chain) [Assign 0 0 5; Read 1] in
  let st' := final prog [2%nat] (start ex_chain) [Assign 0 0 5; Read 1; Assign 0 1 10] in
  ps_mem 0 0 (ps st) = true /\ snd (run_acts prog [AWrite 0 0 9] st) = false /\
  ps st' = [] /\ snd (run_acts prog [AWrite 0 0 9] st') = true.
Proof. vm_compute. repeat split. Qed.

(* rejected installation read again: None (2); when the function itself made a parent Computable dirty
   before being rejected, the comparison re-runs the function and it is rejected again (1) *)
Example C17_example_rejected_then_read :
  let prog := c_comps ex_long in
  let st := final prog [1%nat] (start ex_long) [Assign 0 0 1] in
  snd (step prog [1%nat] st (WriteInsideKeep [ARead 0 0; AWrite 0 0 5])) = [4; 1; 2; 1; 1; 1; 1; 1; 1; 1] /\
  firstn 3 (snd (step prog [1%nat] st (WriteInsideKeep [AWrite 0 0 5]))) = [4; 0; 0].
Proof. vm_compute. repeat split. Qed.

(* three owners; c0 = A.x + 1, c1 = B.x + c0, c2 = C.x + c0, c3 = c0 + c0; collect B then C: c0 and c3 stay healthy
   (and exact), c1 and c2 - which read the collected owners - do not *)
Definition ex_kill2 : case :=
  {| c_init := [[1]; [7]; [3]];
     c_comps := [mkdef 0 (Add (Obs 0 0) (Const 1)); mkdef 0 (Add (Obs 1 0) (Comp 0)); mkdef 0 (Add (Obs 2 0) (Comp 0));
                 mkdef 0 (Add (Comp 0) (Comp 0))];
     c_ops := [] |}.
Example C17_example_collections :
  let prog := c_comps ex_kill2 in
  let st := final prog [1%nat; 1%nat; 1%nat] (start ex_kill2) [Assign 0 0 4; Read 1; Read 2; Read 3] in
  let st' := final prog [1%nat; 1%nat; 1%nat] st (map Kill [1; 2]) in
  indepf prog 4 st 1 3 = true /\ indepf prog 4 (kill_state st 1) 2 3 = true /\
  indepf prog 4 st 1 1 = false /\ indepf prog 4 (kill_state st 1) 2 2 = false /\
  dirty st' 3%nat = false /\ snd (read_top prog st' 3) = 10 /\ den prog (alive st') (store st') 3 = 10 /\
  snd (read_top prog st' 1) = 12 /\ den prog (alive st') (store st') 1 = 5.
Proof. vm_compute. repeat split. Qed.
