(* C17 - a Computable is never stale and recomputes only when an input changed.
   ONLY statements closed by `exact`, with Print Assumptions beneath each.
   Model: Model/Computed.v (mesa_signal.py as repaired by fixes/C17-1..4). *)
From Coq Require Import ZArith List Bool PeanoNat Lia.
From Mesa Require Import Model.Computed Proofs.ComputedProofs.
Import ListNotations.
Open Scope Z_scope.

(* `den prog al sto k` is "what the function of computed k returns if evaluated right now" on
   store sto with live owners al: the direct recursive evaluation of its term. *)
Theorem C17_den_is_direct_evaluation : forall prog al sto k,
  den prog al sto k = pev prog (den prog al sto) al sto k (d_expr (cdef_at prog k)).
Proof. exact den_unfold. Qed.
Print Assumptions C17_den_is_direct_evaluation.

(* the store a read is judged against is the last value assigned to each observable *)
Theorem C17_store_is_last_assignment : forall prog nobs init pre o nm v,
  no_kill pre = true ->
  let st := final prog nobs (install prog (init_state init)) pre in
  let st' := final prog nobs (install prog (init_state init)) (pre ++ [Assign o nm v]) in
  forall o' n', store st' o' n' = if (o' =? o) && (n' =? nm) then v else store st o' n'.
Proof. exact store_after_assign. Qed.
Print Assumptions C17_store_is_last_assignment.

(* FULL STATEMENT (refuted on the code as it is, see C17_never_stale_refuted):
     forall c pre k, k < length (c_comps c) -> alive st (owner k) = true ->
       snd (read_top (c_comps c) st k) = den (c_comps c) (alive st) (store st) k
     where st = final ... (start c) pre,  for ALL histories pre (assignments, reads, writer Computeds
     AND owner collection).
   PROVED: the same for all histories without owner collection - every dependency structure
   (any number of owners, observables, computeds, branches, chains), every sequence of assignments
   (incl. restoring values), reads and writer Computeds, no bound on anything.
   Missing: histories with Kill (a collected parent owner does not mark the Computed dirty:
   known finding C17/Computed/stale-after-parent-collected). *)
Theorem C17_never_stale_partial : forall (c : case) (pre : list op) (k : nat),
  no_kill pre = true -> (k < length (c_comps c))%nat ->
  let st := final (c_comps c) (map (@length Z) (c_init c)) (start c) pre in
  snd (read_top (c_comps c) st k) = den (c_comps c) (alive st) (store st) k.
Proof. intros c pre k. exact (never_stale (c_comps c) (map (@length Z) (c_init c)) (c_init c) pre k). Qed.
Print Assumptions C17_never_stale_partial.

Theorem C17_never_stale_refuted : exists (c : case) (pre : list op) (k : nat),
  (k < length (c_comps c))%nat /\
  let st := final (c_comps c) (map (@length Z) (c_init c)) (start c) pre in
  alive st (cowner (c_comps c) k) = true /\
  snd (read_top (c_comps c) st k) <> den (c_comps c) (alive st) (store st) k.
Proof.
  exists {| c_init := [[1]; [7]]; c_comps := [mkdef 0 (Add (Obs 1 0) (Obs 0 0))]; c_ops := [] |}, [Kill 1], 0%nat.
  split; [simpl; lia|]. vm_compute. split; [reflexivity|discriminate].
Qed.
Print Assumptions C17_never_stale_refuted.

(* the invariant behind it holds in every reachable state, so the same is true of every read a
   function performs through a chain (ev_ok), not only of top-level reads *)
Theorem C17_never_stale_every_state_partial : forall prog st k,
  Inv prog st -> (k < length prog)%nat -> snd (read_top prog st k) = D prog st k.
Proof. exact never_stale_state. Qed.
Print Assumptions C17_never_stale_every_state_partial.

(* FULL STATEMENT: for all histories (incl. owner collection).  PROVED for histories without owner
   collection: a read of computed k does not run its function when every (source, value) pair
   remembered from its last evaluation still has that value (observables: the store; computables:
   their denotation), e.g. after assignments that restored the values. *)
Theorem C17_no_spurious_partial : forall prog nobs init ops k,
  no_kill ops = true -> (k < length prog)%nat ->
  let st := final prog nobs (install prog (init_state init)) ops in
  first st k = false ->
  (forall s x, In (s, x) (flat (parents st k)) -> dsrc prog (alive st) (store st) s = x) ->
  count (fst (read_top prog st k)) k = count st k.
Proof. exact no_spurious. Qed.
Print Assumptions C17_no_spurious_partial.

(* ... conversely, whenever the function is run, it is its first run or one of the remembered
   values differs now *)
Theorem C17_recompute_justified_partial : forall prog st k,
  Inv prog st -> (k < length prog)%nat ->
  count (fst (callf prog (length prog) st k)) k <> count st k ->
  first st k = true \/ exists s x, In (s, x) (flat (parents st k)) /\ Dsrc prog st s <> x.
Proof. exact recompute_justified. Qed.
Print Assumptions C17_recompute_justified_partial.

(* a function that reads an observable and later assigns it is rejected - whatever it does before,
   in between (other reads, assignments to other observables, reads of Computables) and after, in
   every state *)
Theorem C17_cycle_rejected : forall prog o nm v pre mid post st, alive st o = true ->
  snd (run_acts prog (pre ++ ARead o nm :: mid ++ AWrite o nm v :: post) st) = false.
Proof. exact cycle_rejected. Qed.
Print Assumptions C17_cycle_rejected.

(* ---------------------------------------------------------------- non-vacuity *)
Definition ex_chain : case :=
  {| c_init := [[1; 10]];
     c_comps := [mkdef 0 (Add (Obs 0 1) (Const 1)); mkdef 0 (If (Obs 0 0) (Comp 0) (Const 0));
                 mkdef 0 (Add (Obs 0 0) (Comp 0))];
     c_ops := [] |}.

(* never stale: branch flip away from c0 and back while c0's input changes *)
Example C17_example_never_stale :
  let pre := [Read 1; Assign 0 0 0; Read 1; Assign 0 1 20; Read 1; Assign 0 0 3] in
  no_kill pre = true /\
  let st := final (c_comps ex_chain) [2%nat] (start ex_chain) pre in
  snd (read_top (c_comps ex_chain) st 1) = 21 /\ dirty st 1%nat = true /\ dirty st 0%nat = true.
Proof. vm_compute. repeat split. Qed.

(* no spurious: after `x := 2; read c2; x := 2` computed 2 is dirty, not first, and every remembered
   value (x = 2, c0 = 11) is current: the hypotheses of C17_no_spurious_partial hold non-trivially *)
Example C17_example_no_spurious :
  let pre := [Assign 0 0 2; Read 2; Assign 0 0 2] in
  no_kill pre = true /\
  let st := final (c_comps ex_chain) [2%nat] (start ex_chain) pre in
  first st 2%nat = false /\ dirty st 2%nat = true /\
  map fst (flat (parents st 2%nat)) = [SObs 0 0; SComp 0] /\
  forallb (fun p => dsrc (c_comps ex_chain) (alive st) (store st) (fst p) =? snd p) (flat (parents st 2%nat)) = true /\
  count (fst (read_top (c_comps ex_chain) st 2)) 2%nat = 2.
Proof. vm_compute. repeat split. Qed.

(* recompute justified: after x := 5 the function does run *)
Example C17_example_recompute :
  let st := final (c_comps ex_chain) [2%nat] (start ex_chain) [Assign 0 0 2; Read 2; Assign 0 0 5] in
  count st 2%nat = 2 /\ count (fst (read_top (c_comps ex_chain) st 2)) 2%nat = 3.
Proof. vm_compute. repeat split. Qed.

(* cycle: read x, write y, write x is rejected; write y alone is accepted (after a top-level
   assignment: PROCESSING_SIGNALS still holds the reads of the installing evaluations before) *)
Example C17_example_cycle :
  let st := final (c_comps ex_chain) [2%nat] (start ex_chain) [Assign 0 1 10] in
  snd (run_acts (c_comps ex_chain) [ARead 0 0; AWrite 0 1 7; AWrite 0 0 6] st) = false /\
  snd (run_acts (c_comps ex_chain) [ARead 0 0; AWrite 0 1 7] st) = true.
Proof. vm_compute. split; reflexivity. Qed.
