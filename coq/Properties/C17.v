From Coq Require Import ZArith List Bool.
From Mesa Require Import Model.Computed Proofs.ComputedProofs.
Import ListNotations.
Open Scope Z_scope.
