(* C18 - a mutating call that raises leaves all observable state unchanged.
   No model of its own: each site of the statement is a step of the model that owns that piece
   of state (C06 cell spaces, C08 legacy grids, C10 continuous spaces, C11 property layers,
   C12 DataCollector tables, C14 simulators, C16 signal registries).  Those models return, on an
   error, THE STATE THE CODE LEAVES BEHIND; the theorems below say it is the state before the call,
   and that every continuation of the history then observes exactly what it would have observed
   had the rejected call never been made.  ONLY statements closed by `exact`. *)
From Coq Require Import ZArith List Bool.
Open Scope Z_scope.
From Mesa Require Common.ListX Generated.Tables.
From Mesa Require Model.CellSpace Proofs.CellSpaceProofs Proofs.CellSpaceRefine Model.CellSpaceX Proofs.CellSpaceXProofs.
From Mesa Require Model.LegacyGrid Proofs.LegacyGridProofs Proofs.LegacyGridSim Model.NetGrid Proofs.NetGridProofs.
From Mesa Require Model.ContGeom Model.ContLegacy Model.ContExp Proofs.ContExpProofs Proofs.ContLegacyProofs.
From Mesa Require Model.PropLayer Proofs.PropLayerProofs Proofs.PropLayerEmpty.
From Mesa Require Model.DataCollector Proofs.DataCollectorProofs.
From Mesa Require Model.Devs Model.DevsSpec Proofs.DevsProofs Proofs.DevsAtomicProofs Model.DevsLife Proofs.DevsLifeProofs.
From Mesa Require Model.Signals Proofs.SignalsProofs.
Import ListNotations.

(* ---- cell spaces: cell setter into a full cell, FixedAgent placement, move_to, move_relative without a cell
        in that direction, Grid2DMovingAgent.move(dir, k), removal - every operation, every topology, every capacity *)
Module CellSpaceSites.
  Import Mesa.Model.CellSpace Mesa.Proofs.CellSpaceProofs Mesa.Proofs.CellSpaceRefine.
  Theorem C18_cellspace : forall e ops o s' k, caps_ok e ->
    step e (exec e init ops) o = (s', Err k) ->
    view e s' = view e (exec e init ops) /\ eqv (exec e init ops) s'.
  Proof. exact atomic_all. Qed.
  Theorem C18_cellspace_continue : forall e s o s' k rest, caps_ok e -> Inv e s ->
    step e s o = (s', Err k) -> run_ops e s' rest = run_ops e s rest.
  Proof. exact rejected_then_continue. Qed.
  (* ... also with agents of all three classes created in the middle of the history *)
  Import Mesa.Model.CellSpaceX Mesa.Proofs.CellSpaceXProofs.
  Theorem C18_cellspace_growing_population : forall e frac n ops o x' k, caps_ok e -> api_only ops = true ->
    let x := xexec e (xinit n) ops in
    xstep e x o = (x', Err k) -> xview e frac x' = xview e frac x /\ eqv (xs x) (xs x').
  Proof. exact x_atomic. Qed.
End CellSpaceSites.
Print Assumptions CellSpaceSites.C18_cellspace.
Print Assumptions CellSpaceSites.C18_cellspace_continue.
Print Assumptions CellSpaceSites.C18_cellspace_growing_population.

(* ---- legacy grids: place/move onto an occupied SingleGrid cell, out of bounds on a bounded grid, swap_pos,
        move_to_empty without an empty cell, move_agent_to_one_of (bad selection, handle_empty="error") *)
Module LegacyGridSites.
  Import Mesa.Model.LegacyGrid Mesa.Proofs.LegacyGridProofs Mesa.Proofs.LegacyGridSim.
  Theorem C18_legacygrid : forall c n s o s' e,
    wf c -> Agree c s -> step c s o = (s', Err e) -> obs_state c n s' = obs_state c n s.
  Proof. exact C18_legacygrid_atomic. Qed.
  Theorem C18_legacygrid_continue : forall c n s o s' e rest,
    wf c -> Agree c s -> step c s o = (s', Err e) -> run_obs c n s' rest = run_obs c n s rest.
  Proof. exact C18_legacygrid_atomic_continue. Qed.
End LegacyGridSites.
Print Assumptions LegacyGridSites.C18_legacygrid.
Print Assumptions LegacyGridSites.C18_legacygrid_continue.

(* ---- NetworkGrid: place / move towards a node that is not in the graph, placing a placed agent *)
Module NetworkGridSites.
  Import Mesa.Model.LegacyGrid Mesa.Model.NetGrid Mesa.Proofs.NetGridProofs.
  Theorem C18_networkgrid : forall nodes s o s' e,
    NAgree nodes s -> nstep nodes s o = (s', Err e) -> s' = s.
  Proof. exact C18_networkgrid_atomic. Qed.
  Theorem C18_networkgrid_history : forall nodes ops o s' e,
    nstep nodes (nrun nodes ninit ops) o = (s', Err e) -> s' = nrun nodes ninit ops.
  Proof. exact C18_networkgrid_atomic_history. Qed.
End NetworkGridSites.
Print Assumptions NetworkGridSites.C18_networkgrid.
Print Assumptions NetworkGridSites.C18_networkgrid_history.

(* ---- continuous spaces: out-of-bounds place / move / position assignment on a bounded space *)
Module ContinuousSites.
  Import Mesa.Model.ContGeom Mesa.Model.ContLegacy Mesa.Model.ContExp Mesa.Proofs.ContExpProofs Mesa.Proofs.ContLegacyProofs.
  Theorem C18_continuous_legacy : forall c ops o s' e,
    lstep c (l_final c l_init ops) o = (s', Some (Err e)) ->
    s' = l_final c l_init ops /\ (e = E_OOB \/ e = E_NOTIN).
  Proof. exact legacy_atomic. Qed.
  Theorem C18_continuous_legacy_continue : forall c ops o s' e rest,
    lstep c (l_final c l_init ops) o = (s', Some (Err e)) ->
    l_run c s' rest = l_run c (l_final c l_init ops) rest.
  Proof. exact legacy_continue. Qed.
  Theorem C18_continuous_exp : forall c ops o s' e,
    estep c (e_final c (e_init c) ops) o = (s', Some (Err e)) -> s' = e_final c (e_init c) ops.
  Proof. exact exp_atomic. Qed.
  Theorem C18_continuous_exp_continue : forall c ops o s' e rest,
    estep c (e_final c (e_init c) ops) o = (s', Some (Err e)) ->
    e_run c s' rest = e_run c (e_final c (e_init c) ops) rest.
  Proof. exact exp_continue. Qed.
End ContinuousSites.
Print Assumptions ContinuousSites.C18_continuous_legacy.
Print Assumptions ContinuousSites.C18_continuous_legacy_continue.
Print Assumptions ContinuousSites.C18_continuous_exp.
Print Assumptions ContinuousSites.C18_continuous_exp_continue.

(* ---- property layers (both implementations): clashing / mis-shaped add, remove of a missing layer,
        set/modify out of bounds or with an invalid operation *)
Module PropertyLayerSites.
  Import Mesa.Model.PropLayer Mesa.Proofs.PropLayerProofs Mesa.Proofs.PropLayerEmpty.
  (* no capacity limit (cap 0 = unlimited) or a legacy grid: every rejection, in any reachable state *)
  Theorem C18_proplayer : forall st o st' k,
    reachable st -> (s_discrete st = true -> s_cap st = 0) -> step st o = (st', RErr k) -> st' = st.
  Proof. exact atomic_reachable. Qed.
  Theorem C18_proplayer_continue : forall st o st' k ops,
    reachable st -> (s_discrete st = true -> s_cap st = 0) -> step st o = (st', RErr k) ->
    run_ops st' ops = run_ops st ops.
  Proof. exact atomic_continue. Qed.
  (* any capacity >= 0, histories that do not themselves write the "empty" layer: every rejection, "Cell is full"
     included (its `self.empty = False` before the raise is a no-op because a full cell is not empty) *)
  Theorem C18_proplayer_full_cell : forall d multi cap dims ops o st' k,
    (d = true -> 0 <= cap /\ clean ops = true) ->
    let st := run_state (init d multi cap dims) ops in
    step st o = (st', RErr k) -> st' = st.
  Proof. exact atomic_clean. Qed.
End PropertyLayerSites.
Print Assumptions PropertyLayerSites.C18_proplayer.
Print Assumptions PropertyLayerSites.C18_proplayer_continue.
Print Assumptions PropertyLayerSites.C18_proplayer_full_cell.

(* ---- DataCollector tables: add_table_row with a missing column or to an unknown table *)
Module DataCollectorSites.
  Import Mesa.Model.DataCollector Mesa.Proofs.DataCollectorProofs.
  Theorem C18_add_table_row : forall cfg s t r ign s' e,
    step cfg s (AddRow t r ign) = (s', RErr e) -> s' = s.
  Proof. exact step_addrow_atomic. Qed.
End DataCollectorSites.
Print Assumptions DataCollectorSites.C18_add_table_row.

(* ---- simulators: scheduling in the past (absolute, or relative with a negative delta) or with a time of the
        wrong unit *)
Module SimulatorSites.
  Import Mesa.Model.Devs Mesa.Model.DevsSpec Mesa.Proofs.DevsProofs Mesa.Proofs.DevsAtomicProofs.
  Theorem C18_schedule : forall cfg st k t p tag h body st' rc,
    do_sched cfg st k t p tag h body = (st', rc) -> rc <> R_OK -> same_sim st' st.
  Proof. exact do_sched_rejected. Qed.
  Theorem C18_schedule_continue : forall cfg fuel st k t p tag h body st' rc ops, inv st ->
    do_sched cfg st k t p tag h body = (st', rc) -> rc <> R_OK ->
    run_ops cfg fuel st' ops = run_ops cfg fuel st ops.
  Proof. exact rejected_then_same_observations. Qed.
  (* life cycle: setup() refused at a non-zero clock / with pending events, run calls without a model *)
  Import Mesa.Model.DevsLife Mesa.Proofs.DevsLifeProofs.
  Theorem C18_setup_rejected : forall cfg fuel m m' ob l, xstep cfg fuel m XSetup = (m', ob, l) ->
    (ob = [-1; E_SETUP_TIME] \/ ob = [-1; E_SETUP_EVENTS]) -> m' = m /\ l = [].
  Proof. exact setup_rejected_atomic. Qed.
  Theorem C18_run_without_model : forall cfg fuel m o m' ob l, m_setup m = false -> is_run o = true ->
    xstep cfg fuel m (XOp o) = (m', ob, l) -> m' = m /\ ob = [-1; E_NOSETUP] /\ l = [].
  Proof. exact run_without_model_atomic. Qed.
End SimulatorSites.
Print Assumptions SimulatorSites.C18_schedule.
Print Assumptions SimulatorSites.C18_schedule_continue.
Print Assumptions SimulatorSites.C18_setup_rejected.
Print Assumptions SimulatorSites.C18_run_without_model.

(* ---- signal registries: observe with an unknown observable or signal type, All in either position *)
Module SignalSites.
  Import Mesa.Model.Signals Mesa.Proofs.SignalsProofs.
  Theorem C18_signals : forall tb st o st' e r ds,
    step tb st o = (st', (Raised e, r, ds)) -> st' = st /\ ds = [].
  Proof. exact step_atomic. Qed.
End SignalSites.
Print Assumptions SignalSites.C18_signals.
