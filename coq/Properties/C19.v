(* C19 - copies and pickles of agent sets and cell spaces are faithful and detached.
   ONLY statements closed by `exact`, with Print Assumptions beneath each, and non-vacuity Examples.

   Vocabulary (Model/Copy.v): a heap of cells / agents / property layers / cell classes; a side = one space with
   the agents the program holds for it; copy_space = the deepcopy / pickle mechanism (Cell.__getstate__, copyreg
   hook, Grid/DiscreteSpace.__setstate__) as repaired by fixes/C19-1 and C19-2; abs_side = the abstract state
   (per cell: coordinate index, capacity, member labels in order, connections as (key, target index), the value the
   attribute `empty` reads, per layer (name, value the cell attribute reads, value in the layer)); wf_side = the
   representation invariant of a side (Proofs/CopyProofs.v); Inv = all sides well formed and pairwise separated. *)
From Coq Require Import ZArith List Bool.
From Mesa Require Import Generated.Tables Model.Copy Model.CopyWorld Proofs.CopyProofs Proofs.CopyInvProofs
  Proofs.CopyFreshProofs Proofs.CopyBridge Proofs.CopyWorldProofs.
Import ListNotations.
Open Scope Z_scope.

(* --- the copy ----------------------------------------------------------------------------------- *)

(* faithful: same cells in the same order, coordinates, capacities, members in order, connections (rebuilt from the
   space's description = those of the source), the `empty` attribute and every layer value *)
Theorem C19_faithful : forall h sd, wf_side h sd ->
  abs_side (copy_heap h sd) (copy_side h sd) = abs_side h sd.
Proof. exact copy_faithful. Qed.
Print Assumptions C19_faithful.

(* the copy is again a well-formed side: every agent's cell is the copy's own cell that lists it, all cells of the
   copy have the copy's one class, that class carries exactly the descriptors of the copy's layers, connections
   point to the copy's cells *)
Theorem C19_copy_wellformed : forall h sd, wf_side h sd -> nogrid_ok sd ->
  wf_side (copy_heap h sd) (copy_side h sd).
Proof. exact copy_wf. Qed.
Print Assumptions C19_copy_wellformed.

(* on EVERY cell of the copy, every layer attribute reads and writes the copy's own, new layer *)
Theorem C19_attrs_wired : forall h sd c nl v, wf_side h sd -> nogrid_ok sd ->
  In c (cells_of (copy_side h sd)) -> In nl (layers_of (copy_side h sd)) ->
  let h' := copy_heap h sd in
  (length (h_layers h) <= snd nl)%nat /\
  cell_get h' c (fst nl) = Some (nth (k_idx (getc h' c)) (l_data (getl h' (snd nl))) NOATTR) /\
  cell_set h' c (fst nl) v
  = upd_layer h' (snd nl) (fun lo => set_data (upd (k_idx (getc h' c)) (fun _ => v) (l_data lo)) lo).
Proof. exact copy_attrs_wired. Qed.
Print Assumptions C19_attrs_wired.

(* detached: every location the copy is made of (cells, agents, layers, class) did not exist before ... *)
Theorem C19_fresh : forall h sd, wf_side h sd ->
  (forall c, In c (fp_cells (copy_side h sd)) -> (length (h_cells h) <= c)%nat) /\
  (forall a, In a (fp_agents (copy_heap h sd) (copy_side h sd)) -> (length (h_agents h) <= a)%nat) /\
  (forall l, In l (fp_layers (copy_side h sd)) -> (length (h_layers h) <= l)%nat) /\
  (forall k, In k (fp_classes (copy_side h sd)) -> (length (h_classes h) <= k)%nat).
Proof. exact copy_fresh. Qed.
Print Assumptions C19_fresh.

(* ... hence it shares nothing with any side that existed (the source included) ... *)
Theorem C19_detached : forall h sd sd0, wf_side h sd -> wf_side h sd0 ->
  sides_disjoint (copy_heap h sd) sd0 (copy_side h sd) = true.
Proof. exact copy_detached. Qed.
Print Assumptions C19_detached.

(* ... and copying changes no existing side *)
Theorem C19_source_untouched : forall h sd sd0, wf_side h sd0 ->
  wf_side (copy_heap h sd) sd0 /\ abs_side (copy_heap h sd) sd0 = abs_side h sd0.
Proof. exact copy_leaves_others. Qed.
Print Assumptions C19_source_untouched.

(* --- all histories ------------------------------------------------------------------------------ *)

(* for every case with a sane description and EVERY history of operations (placements, moves incl. rejected ones,
   relative moves, attribute / layer writes, fill, add / remove layer, copies and copies of copies, agent-set
   operations) on any side: all sides are well formed and pairwise separated *)
Theorem C19_invariant : forall c ops, good_case c -> Inv (run_states (init_state c) ops).
Proof. exact reachable_inv. Qed.
Print Assumptions C19_invariant.

(* one operation of side i (or a copy, or an agent-set operation) leaves the abstract state of every other side j
   exactly as it was ... *)
Theorem C19_independent_step : forall st o j sd,
  Inv st -> nth_error (st_sides st) j = Some sd -> touches o j = false ->
  nth_error (st_sides (fst (step st o))) j = Some sd /\
  abs_side (st_heap (fst (step st o))) sd = abs_side (st_heap st) sd.
Proof. exact step_independent. Qed.
Print Assumptions C19_independent_step.

(* ... and so does every history that does not address side j; its whole observation is unchanged *)
Theorem C19_independent : forall st ops j sd,
  Inv st -> nth_error (st_sides st) j = Some sd -> forallb (fun o => negb (touches o j)) ops = true ->
  nth_error (st_sides (run_states st ops)) j = Some sd /\
  abs_side (st_heap (run_states st ops)) sd = abs_side (st_heap st) sd.
Proof. exact run_independent. Qed.
Print Assumptions C19_independent.

Theorem C19_independent_obs : forall st ops j sd,
  Inv st -> nth_error (st_sides st) j = Some sd -> forallb (fun o => negb (touches o j)) ops = true ->
  side_view (st_heap (run_states st ops)) j sd = side_view (st_heap st) j sd.
Proof. exact independent_obs. Qed.
Print Assumptions C19_independent_obs.

(* in every reachable state: the sides share no location, every agent points to its own side's cell, and every
   layer attribute of every cell of every side (original, copy, copy of a copy) reads that side's own layer *)
Theorem C19_detached_always : forall st, Inv st -> detachedb st = true.
Proof. exact inv_detached. Qed.
Print Assumptions C19_detached_always.

Theorem C19_wired_always : forall st i sd, Inv st -> nth_error (st_sides st) i = Some sd ->
  wiredb (st_heap st) sd = true.
Proof. exact inv_wired. Qed.
Print Assumptions C19_wired_always.

Theorem C19_attrs_wired_always : forall st i sd c nl, Inv st -> nth_error (st_sides st) i = Some sd ->
  In c (cells_of sd) -> In nl (layers_of sd) ->
  cell_get (st_heap st) c (fst nl)
  = Some (nth (k_idx (getc (st_heap st) c)) (l_data (getl (st_heap st) (snd nl))) NOATTR).
Proof. exact inv_attrs. Qed.
Print Assumptions C19_attrs_wired_always.

(* --- agent sets --------------------------------------------------------------------------------- *)

(* the copy of an AgentSet has the same members (by label) in the same order ... *)
Theorem C19_agentset_faithful : forall h ss,
  set_labels (copy_set_heap h ss) (copy_set_side h ss) = set_labels h ss.
Proof. exact copy_set_faithful. Qed.
Print Assumptions C19_agentset_faithful.

(* ... they are new objects ... *)
Theorem C19_agentset_fresh : forall h ss x, In x (set_fp (copy_set_side h ss)) ->
  (length (h_agents h) <= x < length (h_agents h) + length (ss_members ss))%nat.
Proof. exact copy_set_fp. Qed.
Print Assumptions C19_agentset_fresh.

(* ... and no operation addressed elsewhere changes the members or their order *)
Theorem C19_agentset_independent : forall st o k ss,
  Inv st -> nth_error (st_sets st) k = Some ss -> set_touches o k = false ->
  nth_error (st_sets (fst (step st o))) k = Some ss /\
  set_labels (st_heap (fst (step st o))) ss = set_labels (st_heap st) ss.
Proof. exact step_set_independent. Qed.
Print Assumptions C19_agentset_independent.

(* --- behaves like a freshly built space ------------------------------------------------------------ *)

(* the second half of the representation invariant (cell i has coordinate index i, layer arrays have one entry per cell,
   the program's label -> agent table is consistent and injective) also holds along every history *)
Theorem C19_invariant2 : forall c ops, good_case c ->
  Inv (run_states (init_state c) ops) /\ Inv2 (run_states (init_state c) ops).
Proof. exact reachable_inv2. Qed.
Print Assumptions C19_invariant2.

(* refinement: along EVERY history of operations of a side (all eight kinds, incl. rejected moves and add / remove
   layer) the result codes and the abstract states are exactly those the abstract machine `astep` (ordered lists of
   labels per cell, capacities, layer values; no heap, no identities) computes from the abstract state at the start *)
Theorem C19_refinement : forall h sd ops, side_ok h sd -> wf2 h sd ->
  run_side h sd ops = arun (absf h sd) ops.
Proof. exact refine_run. Qed.
Print Assumptions C19_refinement.

(* hence two sides - in whatever heaps, built in whatever way - that are in the same abstract state show the same
   results and the same abstract states under the same operations, for ever *)
Theorem C19_behaves_fresh : forall h1 sd1 h2 sd2 ops,
  side_ok h1 sd1 -> wf2 h1 sd1 -> side_ok h2 sd2 -> wf2 h2 sd2 ->
  absf h1 sd1 = absf h2 sd2 ->
  run_side h1 sd1 ops = run_side h2 sd2 ops.
Proof. exact behaves_fresh. Qed.
Print Assumptions C19_behaves_fresh.

(* in particular the copy, continued on its own, behaves exactly as its source would have *)
Theorem C19_copy_behaves_like_source : forall h sd ops, side_ok h sd -> wf2 h sd ->
  run_side (copy_heap h sd) (copy_side h sd) ops = run_side h sd ops.
Proof. exact copy_behaves_like_source. Qed.
Print Assumptions C19_copy_behaves_like_source.

(* interleaved histories of the whole system: whatever happens on the other sides - copies included - the abstract
   state of side j after ANY history is the abstract machine run on exactly the operations addressed to side j
   (independence and fresh behaviour in one statement) *)
Theorem C19_side_history : forall st ops j sd, Inv st -> Inv2 st -> nth_error (st_sides st) j = Some sd ->
  exists sd', nth_error (st_sides (run_states st ops)) j = Some sd' /\
              absf (st_heap (run_states st ops)) sd'
              = afinal (absf (st_heap st) sd) (filter (fun o => touches o j) ops).
Proof. exact side_history. Qed.
Print Assumptions C19_side_history.

(* --- code-level tie (T1) -------------------------------------------------------------------------- *)
(* The copy / pickle hooks are TRANSLATED from the working tree on every run (harness/tables/c19_copy_code.py):
   Cell.__slots__ and Cell.__getstate__ (which slots go into the state, which are emptied, whether the instance
   __dict__ is part of it), the filter of pickle_gridcell and the shape of its reduce value, the legacy branch of
   unpickle_gridcell, the filter of Grid.__getstate__, the two loops of Grid.__setstate__ (one class for all cells;
   a descriptor and a _mesa_properties entry per layer), AgentSet.__getstate__ / __setstate__ / _update.  The few
   remaining statements are object glue and are checked verbatim: *)
Theorem C19_source_skeletons :
  gen_c19_gridcell_reduce_skeleton_ok && gen_c19_grid_setstate_skeleton_ok
  && gen_c19_dspace_setstate_skeleton_ok && gen_c19_aset_skeleton_ok && gen_c19_cell_add_remove_skeleton_ok = true.
Proof. exact skeletons_ok. Qed.
Print Assumptions C19_source_skeletons.

(* every slot of a cell is treated by the translated hooks as the model treats it: connections emptied (and rebuilt by
   __setstate__), the instance __dict__ dropped for grid cells and kept for the others, everything else carried *)
Theorem C19_source_slot_actions : forall (grid : bool) (k : Z), In k gen_c19_cell_slots ->
  (if grid then gen_grid_action k else gen_plain_action k) = model_action grid k.
Proof. exact slot_actions_bridge. Qed.
Print Assumptions C19_source_slot_actions.

Theorem C19_source_filters : forall k,
  gen_c19_gridcell_keeps k = negb (k =? S_DICT) /\
  gen_c19_gridcell_legacy_keeps k = gen_c19_gridcell_keeps k /\
  gen_c19_grid_state_keeps k = negb (k =? A_CELL_KLASS) /\
  gen_c19_cell_dict_keeps K_EMPTY = true.
Proof.
  intros k. split; [apply gridcell_keeps_bridge|split; [apply gridcell_legacy_bridge|split; [apply grid_state_keeps_bridge|]]].
  exact cell_dict_keeps_empty.
Qed.
Print Assumptions C19_source_filters.

(* the model's copy functions ARE the translated code (gen_copy_space / gen_copy_set are written with the gen_c19_*
   definitions: class assignment by the class loop, descriptor table by the descriptor loop, __dict__ handling by the
   state shape, member order by __getstate__ / _update) ... *)
Theorem C19_source_code_is_model : forall h sd ss,
  copy_space h sd = gen_copy_space h sd /\ copy_set h ss = gen_copy_set h ss.
Proof. intros h sd ss. split; [apply copy_space_bridge|apply copy_set_bridge]. Qed.
Print Assumptions C19_source_code_is_model.

(* ... so the headline theorems hold of the translated source code itself *)
Theorem C19_faithful_of_source : forall h sd, wf_side h sd ->
  abs_side (fst (gen_copy_space h sd)) (snd (gen_copy_space h sd)) = abs_side h sd.
Proof. exact faithful_of_source. Qed.
Print Assumptions C19_faithful_of_source.

Theorem C19_attrs_wired_of_source : forall h sd c nl, wf_side h sd -> nogrid_ok sd ->
  In c (cells_of (snd (gen_copy_space h sd))) -> In nl (layers_of (snd (gen_copy_space h sd))) ->
  let h' := fst (gen_copy_space h sd) in
  (length (h_layers h) <= snd nl)%nat /\
  cell_get h' c (fst nl) = Some (nth (k_idx (getc h' c)) (l_data (getl h' (snd nl))) NOATTR).
Proof. exact attrs_wired_of_source. Qed.
Print Assumptions C19_attrs_wired_of_source.

Theorem C19_agentset_faithful_of_source : forall h ss,
  set_labels (fst (gen_copy_set h ss)) (snd (gen_copy_set h ss)) = set_labels h ss.
Proof. exact agentset_faithful_of_source. Qed.
Print Assumptions C19_agentset_faithful_of_source.

(* --- non-vacuity -------------------------------------------------------------------------------- *)
(* a 2x2 von Neumann grid, capacity 2, one extra layer (name 1, default 3): place two agents, write a cell
   attribute, copy, then work on the copy and on the original *)
Definition ex_case : case :=
  {| c_space := true; c_grid := true; c_caps := [2; 2; 2; 2];
     c_conn := [[(5, 2); (7, 1)]; [(1, 0); (5, 3)]; [(3, 0); (7, 3)]; [(1, 2); (3, 1)]];
     c_layers := [(1, 3)]; c_set := [];
     c_ops := [Move 0 1 0; Move 0 2 3; SetAttr 0 3 1 7; Copy 0 0; Move 1 2 0; SetAttr 1 0 1 9; Move 0 1 3] |}.

Example C19_example_good : good_case ex_case.
Proof. apply good_caseb_ok. vm_compute. reflexivity. Qed.

(* the state before the copy: a well-formed, non-trivial side (hypotheses of C19_faithful ... C19_detached) *)
Definition ex_pre : state := run_states (init_state ex_case) [Move 0 1 0; Move 0 2 3; SetAttr 0 3 1 7].

Example C19_example_pre :
  exists sd, nth_error (st_sides ex_pre) 0 = Some sd /\ wf_side (st_heap ex_pre) sd /\ nogrid_ok sd /\
             map ac_labels (abs_side (st_heap ex_pre) sd) = [[1]; []; []; [2]] /\
             map ac_layers (abs_side (st_heap ex_pre) sd)
             = [[(0, Some 0, 0); (1, Some 3, 3)]; [(0, Some 1, 1); (1, Some 3, 3)];
                [(0, Some 1, 1); (1, Some 3, 3)]; [(0, Some 0, 0); (1, Some 7, 7)]].
Proof.
  pose proof (inv_ok _ (reachable_inv ex_case [Move 0 1 0; Move 0 2 3; SetAttr 0 3 1 7] C19_example_good)) as H.
  fold ex_pre in H.
  destruct (nth_error (st_sides ex_pre) 0) as [sd|] eqn:E; [|vm_compute in E; discriminate].
  exists sd. destruct (H O sd E) as [W [NG _]]. split; [reflexivity|]. split; [exact W|]. split; [exact NG|].
  vm_compute in E. inversion E; subst. split; vm_compute; reflexivity.
Qed.

(* after the whole history: three well-separated facts at once - the copy (side 1) has diverged from the original
   (side 0), both are wired, nothing is shared *)
Definition ex_post : state := run_states (init_state ex_case) (c_ops ex_case).

Example C19_example_post :
  Inv ex_post /\ length (st_sides ex_post) = 2%nat /\ detachedb ex_post = true /\
  map (fun sd => map ac_labels (abs_side (st_heap ex_post) sd)) (st_sides ex_post)
  = [[[]; []; []; [2; 1]]; [[1; 2]; []; []; []]].
Proof.
  split; [apply (reachable_inv ex_case (c_ops ex_case) C19_example_good)|]. vm_compute. repeat split.
Qed.

(* hypotheses of C19_independent: a history that addresses side 1 only *)
Example C19_example_independent :
  forallb (fun o => negb (touches o 0)) [Move 1 2 0; SetAttr 1 0 1 9; Leave 1 1; DelLayer 1 1] = true.
Proof. vm_compute. reflexivity. Qed.

(* agent sets *)
Definition ex_set_case : case :=
  {| c_space := false; c_grid := false; c_caps := []; c_conn := []; c_layers := []; c_set := [3; 1; 2];
     c_ops := [SCopy 0 0; SAdd 1 9; SDiscard 0 1; SRemove 1 1] |}.

Example C19_example_agentset :
  let st := run_states (init_state ex_set_case) (c_ops ex_set_case) in
  Inv st /\ map (set_labels (st_heap st)) (st_sets st) = [[3; 2]; [3; 2; 9]] /\ detachedb st = true.
Proof.
  split; [apply (reachable_inv ex_set_case (c_ops ex_set_case)); apply good_caseb_ok; vm_compute; reflexivity|].
  vm_compute. split; reflexivity.
Qed.

(* hypotheses of C19_refinement / C19_behaves_fresh / C19_copy_behaves_like_source: the state before the copy; and a
   history with a rejected move (capacity 2), a relative move, attribute writes and layer surgery does something *)
Example C19_example_fresh :
  exists sd, nth_error (st_sides ex_pre) 0 = Some sd /\ side_ok (st_heap ex_pre) sd /\ wf2 (st_heap ex_pre) sd /\
    map snd (run_side (st_heap ex_pre) sd
               [Move 0 3 3; Move 0 4 3; RelMove 0 1 7; SetAttr 0 0 1 5; AddLayer 0 2 4; DelLayer 0 1; Leave 0 9])
    = [[0]; [-1; 1]; [0]; [0]; [0]; [0]; [-2]].
Proof.
  destruct (reachable_inv2 ex_case [Move 0 1 0; Move 0 2 3; SetAttr 0 3 1 7] C19_example_good) as [I I2].
  fold ex_pre in I, I2.
  destruct (nth_error (st_sides ex_pre) 0) as [sd|] eqn:E; [|vm_compute in E; discriminate].
  exists sd. split; [reflexivity|]. split; [apply (inv_ok _ I O sd E)|]. split; [apply (I2 O sd E)|].
  vm_compute in E. inversion E; subst. vm_compute. reflexivity.
Qed.

(* ================================================================================================== *)
(* --- round 3: the world around the spaces (Model/CopyWorld.v) --------------------------------------- *)
(* The correspondence now runs `run_world`: the state and step of Model/Copy.v unchanged, plus the Model objects
   (registry model._agents incl. off-grid agents, model.grid, every agent's .model pointer), FixedAgents, agent.remove(),
   user attributes in the instance __dict__ of cells, forgetting the members of an AgentSet, and
   remove_property_layer("empty"); WCopy copies the space or the model that holds it. *)

(* every world history without remove_property_layer("empty") keeps Inv and Inv2 of the embedded state - so EVERY theorem
   above (independence, wiring, refinement, behaves-fresh) applies to worlds with copied models, off-grid and fixed agents,
   kills and forgets - and the bookkeeping of models / pointers stays consistent *)
Theorem C19_world_invariant : forall c ops, good_case c -> forallb no_delempty ops = true ->
  Inv12 (w_st (wrun_states (init_world c) ops)) /\ WS (wrun_states (init_world c) ops).
Proof. exact world_reachable. Qed.
Print Assumptions C19_world_invariant.

(* copying the MODEL (or a space from which the model is reached through an agent on the grid): the registry of the copy
   lists agents with the same labels in the same order - OFF-GRID AGENTS INCLUDED -, all of them new objects; every agent of
   the copied side points to the copy's model; the copy's model.grid is the copied space *)
Theorem C19_model_copy : forall w src root sd m,
  Inv12 (w_st w) -> WS w ->
  nth_side (st_sides (w_st w)) src = Some sd -> model_of w src = Some m ->
  Nat.leb MAX_SIDES (length (st_sides (w_st w))) = false ->
  (root =? 1) || negb (Nat.eqb (length (agents_of (st_heap (w_st w)) (s_cells (sd_space sd)))) O) = true ->
  let w' := fst (wcopy w src root) in
  let h := st_heap (w_st w) in
  let h' := st_heap (w_st w') in
  let mid := length (w_models w) in
  let reg' := nth mid (w_models w') [] in
  map (lab h') reg' = map (lab h) (nth m (w_models w) [])
  /\ (forall a, In a reg' -> (length (h_agents h) <= a)%nat)
  /\ (exists sd', nth_error (st_sides (w_st w')) (length (st_sides (w_st w))) = Some sd' /\
                  (forall a, In a reg' -> In a (FA sd')) /\
                  forall la, In la (sd_tab sd') -> lookupn (snd la) (w_amodel w') = Some mid)
  /\ nth mid (w_grid w') O = length (st_sides (w_st w))
  /\ nth (length (st_sides (w_st w))) (w_smodel w') O = mid.
Proof. exact wcopy_model. Qed.
Print Assumptions C19_model_copy.

(* what is carried.  User attributes in a cell's instance __dict__: exactly those of Network / Voronoi cells, none of a
   grid cell (pickle_gridcell drops the __dict__) *)
Theorem C19_user_attrs_carried : forall w src root sd m,
  nth_side (st_sides (w_st w)) src = Some sd -> model_of w src = Some m ->
  Nat.leb MAX_SIDES (length (st_sides (w_st w))) = false -> user_bounded w -> NoDup (cells_of sd) ->
  let w' := fst (wcopy w src root) in
  let nC := length (h_cells (st_heap (w_st w))) in
  forall i name v, (i < length (cells_of sd))%nat ->
    (In ((nC + i)%nat, name, v) (w_user w') <->
     s_grid (sd_space sd) = false /\ In (nth i (cells_of sd) O, name, v) (w_user w)).
Proof. exact wcopy_user. Qed.
Print Assumptions C19_user_attrs_carried.

Theorem C19_instance_dict_carried : forall h sd i, (i < length (cells_of sd))%nat ->
  k_dict (getc (copy_heap h sd) (length (h_cells h) + i))
  = if s_grid (sd_space sd) then [] else k_dict (getc h (nth i (cells_of sd) O)).
Proof. exact copy_instance_dict. Qed.
Print Assumptions C19_instance_dict_carried.

(* hand-made connections (Cell.connect after construction) are NOT carried by any space type: the connections of a copied
   cell are those of the space's description, whatever the source cell's connections were *)
Theorem C19_handmade_connections_not_carried : forall h sd i, (i < length (cells_of sd))%nat ->
  k_conns (getc (copy_heap h sd) (length (h_cells h) + i))
  = map (fun kj => (fst kj, (length (h_cells h) + snd kj)%nat)) (nth i (s_geom (sd_space sd)) []).
Proof. exact copy_conns_from_description. Qed.
Print Assumptions C19_handmade_connections_not_carried.

(* remove_property_layer("empty"): what the code does - the descriptor is gone, cell.empty is read from and written to the
   instance __dict__ of each cell (add_agent / remove_agent keep writing it there) ... *)
Theorem C19_remove_empty_effect : forall h sd c v, wf_side h sd -> In c (cells_of sd) ->
  let h' := fst (del_empty_side h sd) in
  cell_get h' c EMPTY = assoc EMPTY (k_dict (getc h' c)) /\
  cell_set h' c EMPTY v = upd_cell h' c (fun co' => set_dict (assoc_set EMPTY v (k_dict co')) co').
Proof. exact del_empty_effect. Qed.
Print Assumptions C19_remove_empty_effect.

(* forgetting: an AgentSet holds its members weakly.  When the program drops every strong reference the set is empty after
   a collection - unless an agent was ever created with the side's model: Agent._ids keeps that model, hence its agents *)
Theorem C19_agentset_forget : forall w s ss, nth_side (st_sets (w_st w)) s = Some ss ->
  let w' := fst (wstep w (SForget s)) in
  if nth (Z.to_nat s) (w_setpin w) true
  then w' = w
  else nth_error (st_sets (w_st w')) (Z.to_nat s) = Some {| ss_members := []; ss_tab := [] |} /\
       (forall k, k <> Z.to_nat s -> nth_error (st_sets (w_st w')) k = nth_error (st_sets (w_st w)) k) /\
       st_sides (w_st w') = st_sides (w_st w) /\ st_heap (w_st w') = st_heap (w_st w).
Proof. exact forget_spec. Qed.
Print Assumptions C19_agentset_forget.

(* --- round 4: refinement for the world layer ------------------------------------------------------------ *)
(* one plain world operation, seen from side j: the abstract state moves by the abstract machine of Model/Copy.v on the
   operation actually performed (`weffect`: a refused operation on a FixedAgent - also one removed with its cell pointer left
   behind -, a user attribute, a hand-made connection: none; move_relative along a hand-made connection: the move to its
   target; PlaceFixed: the placement; agent.remove(): leaving the cell) *)
Theorem C19_world_step_refines : forall w o j sd,
  Inv12 (w_st w) -> plain o = true -> nth_error (st_sides (w_st w)) j = Some sd ->
  exists sd', nth_error (st_sides (w_st (fst (wstep w o)))) j = Some sd' /\
    absf (st_heap (w_st (fst (wstep w o)))) sd'
    = match weffect w o with
      | Some o' => if touches o' j then fst (astep (absf (st_heap (w_st w)) sd) o') else absf (st_heap (w_st w)) sd
      | None => absf (st_heap (w_st w)) sd
      end.
Proof. exact wstep_refines. Qed.
Print Assumptions C19_world_step_refines.

(* a copy of the space or of the model starts in the abstract state of its source, whatever travelled in the registry, and
   changes no existing side *)
Theorem C19_world_copy_refines : forall w src root sd m,
  Inv12 (w_st w) -> nth_side (st_sides (w_st w)) src = Some sd -> model_of w src = Some m ->
  Nat.leb MAX_SIDES (length (st_sides (w_st w))) = false ->
  let w' := fst (wcopy w src root) in
  (exists sd2, nth_error (st_sides (w_st w')) (length (st_sides (w_st w))) = Some sd2 /\
               absf (st_heap (w_st w')) sd2 = absf (st_heap (w_st w)) sd) /\
  (forall j sdj, nth_error (st_sides (w_st w)) j = Some sdj ->
     nth_error (st_sides (w_st w')) j = Some sdj /\ absf (st_heap (w_st w')) sdj = absf (st_heap (w_st w)) sdj).
Proof. exact wcopy_refines. Qed.
Print Assumptions C19_world_copy_refines.

(* C19_world_refinement (the analogue of C19_refinement / C19_side_history for worlds): along EVERY world history without
   remove_property_layer("empty") the abstract state of side j is the abstract machine run on exactly the operations
   performed on side j *)
Theorem C19_world_refinement : forall w ops j sd,
  Inv12 (w_st w) -> forallb no_delempty ops = true -> nth_error (st_sides (w_st w)) j = Some sd ->
  exists sd', nth_error (st_sides (w_st (wrun_states w ops))) j = Some sd' /\
    absf (st_heap (w_st (wrun_states w ops))) sd'
    = afinal (absf (st_heap (w_st w)) sd) (filter (fun o' => touches o' j) (weffects w ops)).
Proof. exact world_side_history. Qed.
Print Assumptions C19_world_refinement.

(* random selections on a side (all_cells / empties / neighbourhood collections, select_random_empty_cell under both
   strategies, shuffle_do / shuffle on agent sets) change no side; which generator they consume is checked on the
   implementation: the acting side's own, never another side's (correspondence + oracle on random.getstate()) *)
Theorem C19_draw_leaves_world : forall w s kind arg,
  fst (wstep w (Draw s kind arg)) = w /\ fst (wstep w (SDraw s kind)) = w.
Proof. exact draw_leaves_world. Qed.
Print Assumptions C19_draw_leaves_world.

Example C19_example_draw :
  let w := wrun_states (init_world ex_case) [Inner (Move 0 1 0); WCopy 0 0 0] in
  map (fun o => snd (wstep w o)) [Draw 1 0 0; Draw 1 1 0; Draw 0 3 0; Draw 1 6 3; Draw 1 5 9; SDraw 0 0]
  = [[0; 1]; [0; 1]; [0; 1]; [-1; E_EMPTY]; [-2]; [-2]].
Proof. vm_compute. reflexivity. Qed.

(* non-vacuity: a history with a FixedAgent that is removed (ghost pointer: further placements refused), a hand-made
   connection followed by move_relative, and a model copy; the performed operations are what the theorem says *)
Example C19_example_world_refinement :
  let ops := [PlaceFixed 0 5 0; Inner (Move 0 1 0); Connect 0 0 900 3; Inner (RelMove 0 1 900); Kill 0 5; PlaceFixed 0 5 2;
              WCopy 0 0 1; Inner (RelMove 1 1 900)] in
  forallb no_delempty ops = true /\
  weffects (init_world ex_case) ops = [Move 0 5 0; Move 0 1 0; Move 0 1 3; Leave 0 5; RelMove 1 1 900] /\
  map snd (map (fun k => wstep (wrun_states (init_world ex_case) (firstn k ops)) (nth k ops (SForget 9))) [5%nat; 7%nat])
  = [[-1; E_FIXED]; [-1; E_NODIR]].
Proof. vm_compute. repeat split. Qed.

(* --- non-vacuity / documented refutations (round 3) --- *)
(* a world in which agent 6 has left the grid and agent 7 was removed from the model; then the SPACE is deep-copied: the model
   is reached through agent 1, so the off-grid agent 6 travels in the registry; 7 (deregistered, off-grid) does not *)
Definition ex_wops : list wop :=
  [Inner (Move 0 1 0); PlaceFixed 0 5 0; Inner (Move 0 6 1); Inner (Leave 0 6); Inner (Move 0 7 3); Kill 0 7;
   SetUser 0 3 10 4].

Example C19_example_world :
  let w := wrun_states (init_world ex_case) ex_wops in
  Inv12 (w_st w) /\ WS w /\
  (exists sd, nth_side (st_sides (w_st w)) 0 = Some sd /\ model_of w 0 = Some O /\
              negb (Nat.eqb (length (agents_of (st_heap (w_st w)) (s_cells (sd_space sd)))) O) = true) /\
  let w' := fst (wcopy w 0 0) in
  map (lab (st_heap (w_st w'))) (nth 1 (w_models w') []) = [1; 5; 6] /\
  map (lab (st_heap (w_st w))) (nth 0 (w_models w) []) = [1; 5; 6] /\
  (* the copy of FixedAgent 5 is fixed: moving it on the copy is refused *)
  snd (wstep w' (Inner (Move 1 5 2))) = [-1; E_FIXED] /\
  (* the grid copy dropped the user attribute of cell 3 *)
  user_code w 3 10 = 4 /\ user_code w' 7 10 = NOATTR.
Proof.
  cbv zeta. destruct (world_reachable ex_case ex_wops C19_example_good eq_refl) as [I S].
  split; [exact I|]. split; [exact S|]. clear I S. split.
  - destruct (nth_side (st_sides (w_st (wrun_states (init_world ex_case) ex_wops))) 0) as [sd|] eqn:E;
      [|vm_compute in E; discriminate].
    exists sd. split; [reflexivity|]. split; [vm_compute; reflexivity|].
    vm_compute in E. inversion E; subst. vm_compute. reflexivity.
  - vm_compute. repeat split.
Qed.

(* hand-made connection: cell 0 of the source gets an extra connection (key 99 -> cell 3); the copy does not have it *)
Example C19_example_handmade_connection :
  let h := upd_cell (st_heap ex_pre) 0 (fun co => {| k_cls := k_cls co; k_idx := k_idx co; k_cap := k_cap co;
                                                      k_agents := k_agents co; k_conns := k_conns co ++ [(99, 3%nat)];
                                                      k_dict := k_dict co |}) in
  exists sd, nth_error (st_sides ex_pre) 0 = Some sd /\
    assoc 99 (k_conns (getc h 0)) = Some 3%nat /\
    assoc 99 (k_conns (getc (copy_heap h sd) (length (h_cells h) + 0))) = None.
Proof.
  cbv zeta. destruct (nth_error (st_sides ex_pre) 0) as [sd|] eqn:E; [|vm_compute in E; discriminate].
  exists sd. split; [reflexivity|]. vm_compute in E. inversion E; subst. split; vm_compute; reflexivity.
Qed.

(* ... and the copy of a grid whose "empty" layer was removed is NOT faithful in that attribute: cell 0 of the source reads
   empty = 0 from its instance __dict__, the copied cell has no such attribute (C19_faithful needs wf_side, which requires
   grid cells to have an empty instance __dict__; C19_world_invariant excludes DelEmpty for this reason) *)
Example C19_remove_empty_copy_refuted :
  let w := wrun_states (init_world ex_case) [DelEmpty 0; Inner (Move 0 1 0)] in
  let w' := fst (wcopy w 0 0) in
  exists sd sd', nth_error (st_sides (w_st w')) 0 = Some sd /\ nth_error (st_sides (w_st w')) 1 = Some sd' /\
    map ac_empty (abs_side (st_heap (w_st w')) sd) = [Some 0; None; None; None] /\
    map ac_empty (abs_side (st_heap (w_st w')) sd') = [None; None; None; None] /\
    map ac_labels (abs_side (st_heap (w_st w')) sd') = map ac_labels (abs_side (st_heap (w_st w')) sd).
Proof.
  cbv zeta.
  set (w' := fst (wcopy (wrun_states (init_world ex_case) [DelEmpty 0; Inner (Move 0 1 0)]) 0 0)).
  destruct (nth_error (st_sides (w_st w')) 0) as [sd|] eqn:E0; [|vm_compute in E0; discriminate].
  destruct (nth_error (st_sides (w_st w')) 1) as [sd'|] eqn:E1; [|vm_compute in E1; discriminate].
  exists sd, sd'. split; [reflexivity|]. split; [reflexivity|].
  vm_compute in E0, E1. inversion E0; subst. inversion E1; subst. vm_compute. repeat split.
Qed.

(* forgetting on an unpinned copy of an agent set, and on the pinned original *)
Example C19_example_forget :
  let w := wrun_states (init_world ex_set_case) [Inner (SCopy 0 0); SForget 1; SForget 0] in
  map (set_labels (st_heap (w_st w))) (st_sets (w_st w)) = [[3; 1; 2]; []] /\ w_setpin w = [true; false].
Proof. vm_compute. split; reflexivity. Qed.
