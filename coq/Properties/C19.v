From Coq Require Import ZArith List Bool.
From Mesa Require Import Model.Copy Proofs.CopyProofs.
Theorem C19_stub : True. Proof. exact stub_true. Qed.
Print Assumptions C19_stub.
