(* Model of the cell-space geometry of mesa/discrete_space (property C07). Definitions only.

   1. Cell._neighborhood / Cell.get_neighborhood / Cell.neighborhood  (cell.py:145-203),
      AS REPAIRED by fixes/C07-1-neighborhood-center-rule.diff, over an ARBITRARY connection
      function  conn : cell -> list cell  (= list(cell.connections.values()), dict order),
      with the three memoisation layers (functools.cache on _neighborhood and on
      get_neighborhood, cached_property neighborhood) as one explicit cache whose key tuples
      come from Generated.Tables (T1).  [nbhd_src] is the recursion as it stands in the
      unchanged source (kept for the refutation / partial theorems).
   2. Grid._connect_single_cell_nd / _2d, the Moore / von Neumann n-D offset constructions,
      HexGrid's parity-selected tables (grid.py:161-180, 211-228, 242-267, 273-290).
   3. Network._connect_single_cell (network.py:51-57) over an adjacency built like
      networkx.Graph.add_edges_from.
   4. VoronoiGrid._connect_cells (voronoi.py:221-230): NOT a model of Bowyer-Watson; the
      specification "Delaunay edges" with an exact integer in-circle test (brute force).
   5. histories: Build (read all connections) / Nbhd / NbhdProp, run_case. *)
From Coq Require Import ZArith List Bool.
From Mesa Require Import Common.ListX Generated.Tables.
Import ListNotations.
Open Scope Z_scope.

Definition cell := Z.

(* ------------------------------------------------------------------ dict-of-cells helpers *)
Definition zmem (x : Z) (l : list Z) : bool := memb Z.eqb x l.
Definition zdedup (l : list Z) : list Z := dedup_first Z.eqb l.      (* keys after successive inserts *)
Definition zpop (x : Z) (l : list Z) : list Z := remove_key Z.eqb x l. (* d.pop(x, None) *)
Definition zset (x : Z) (l : list Z) : list Z := if zmem x l then l else l ++ [x]. (* d[x] = ... *)

Fixpoint zl_eqb (a b : list Z) : bool :=
  match a, b with
  | [], [] => true
  | x :: a', y :: b' => (x =? y) && zl_eqb a' b'
  | _, _ => false
  end.

(* ------------------------------------------------------------------ 1. neighbourhoods *)
Section Nbhd.
  Variable conn : cell -> list cell.

  (* radius = S n.  Repaired code:
       if radius == 1: neighborhood = {nb: ... for nb in self.connections.values()}
       else:           neighborhood = {}; for nb in ...values(): neighborhood.update(nb._neighborhood(radius-1, include_center=True))
       if include_center: neighborhood[self] = self._agents
       else:              neighborhood.pop(self, None)                                   *)
  Fixpoint nbhd (n : nat) (ic : bool) (c : cell) : list cell :=
    let raw := match n with
               | O => zdedup (conn c)
               | S m => zdedup (flat_map (nbhd m true) (conn c))
               end in
    if ic then zset c raw else zpop c raw.

  (* the unchanged source (cell.py:186-203): centre added only at radius 1, popped only above *)
  Fixpoint nbhd_src (n : nat) (ic : bool) (c : cell) : list cell :=
    match n with
    | O => let raw := zdedup (conn c) in if ic then zset c raw else raw
    | S m => let raw := zdedup (flat_map (nbhd_src m true) (conn c)) in
             if ic then raw else zpop c raw
    end.

  (* --- memoisation.  A cache key is  fn :: form :: <one Z per parameter named by T1>;
         fn: 0 = get_neighborhood, 1 = _neighborhood, 2 = the cached_property;
         form distinguishes call shapes that functools.cache keeps apart
         (positional / keyword / no arguments; the recursive call is `(radius-1, include_center=True)`) *)
  Variable pI pG : option (list cparam).   (* parameters functools.cache keys on; None = not cached *)
  Variable cprop : bool.                   (* Cell.neighborhood is a cached_property *)

  Definition b2z (b : bool) : Z := if b then 1 else 0.
  Definition param_val (c : cell) (r : Z) (ic : bool) (p : cparam) : Z :=
    match p with CSelf => c | CRadius => r | CCenter => b2z ic end.
  Definition key_of (ps : list cparam) (fn form : Z) (c : cell) (r : Z) (ic : bool) : list Z :=
    fn :: form :: map (param_val c r ic) ps.

  Definition cache := list (list Z * list cell).
  Fixpoint cache_get (k : list Z) (ch : cache) : option (list cell) :=
    match ch with
    | [] => None
    | (k', v) :: t => if zl_eqb k k' then Some v else cache_get k t
    end.
  Definition c_lookup (cfg : option (list cparam)) (fn form : Z) c r ic (ch : cache) : option (list cell) :=
    match cfg with None => None | Some ps => cache_get (key_of ps fn form c r ic) ch end.
  Definition c_store (cfg : option (list cparam)) (fn form : Z) c r ic (v : list cell) (ch : cache) : cache :=
    match cfg with None => ch | Some ps => (key_of ps fn form c r ic, v) :: ch end.

  Definition FN_GET : Z := 0.
  Definition FN_INNER : Z := 1.
  Definition FN_PROP : Z := 2.
  Definition FORM_REC : Z := 9.   (* _neighborhood(radius - 1, include_center=True) *)
  Definition FORM_KW : Z := 1.    (* _neighborhood(radius=radius, include_center=include_center) *)

  (* for nb in connections.values(): neighborhood.update(f(nb)) *)
  Fixpoint union_loop (f : cell -> cache -> cache * list cell) (l : list cell) (ch : cache)
           (acc : list cell) : cache * list cell :=
    match l with
    | [] => (ch, acc)
    | nb :: t => let r := f nb ch in union_loop f t (fst r) (acc ++ snd r)
    end.

  (* Cell._neighborhood behind functools.cache; radius = S n >= 1 *)
  Fixpoint nb_memo (n : nat) (form : Z) (ic : bool) (c : cell) (ch : cache) {struct n}
    : cache * list cell :=
    match c_lookup pI FN_INNER form c (Z.of_nat n + 1) ic ch with
    | Some v => (ch, v)
    | None =>
        let res := match n with
                   | O => (ch, conn c)
                   | S m => union_loop (nb_memo m FORM_REC true) (conn c) ch []
                   end in
        let raw := zdedup (snd res) in
        let v := if ic then zset c raw else zpop c raw in
        (c_store pI FN_INNER form c (Z.of_nat n + 1) ic v (fst res), v)
    end.

  Inductive result (A : Type) := Ok (a : A) | Err (kind : Z).
  Arguments Ok {A}. Arguments Err {A}.
  Definition E_RADIUS : Z := 1.   (* ValueError("radius must be larger than one") *)

  (* Cell.get_neighborhood(radius, include_center) called in shape `form` *)
  Definition get_neighborhood (form : Z) (c : cell) (r : Z) (ic : bool) (ch : cache)
    : cache * result (list cell) :=
    match c_lookup pG FN_GET form c r ic ch with
    | Some v => (ch, Ok v)
    | None =>
        if r <? 1 then (ch, Err E_RADIUS)
        else let res := nb_memo (Z.to_nat (r - 1)) FORM_KW ic c ch in
             (c_store pG FN_GET form c r ic (snd res) (fst res), Ok (snd res))
    end.

  Definition FORM_NOARGS : Z := 3.
  Definition full_key : option (list cparam) := if cprop then Some [CSelf; CRadius; CCenter] else None.
  (* Cell.neighborhood: cached_property around self.get_neighborhood() *)
  Definition neighborhood_prop (c : cell) (ch : cache) : cache * result (list cell) :=
    match c_lookup full_key FN_PROP 0 c 1 false ch with
    | Some v => (ch, Ok v)
    | None =>
        match get_neighborhood FORM_NOARGS c 1 false ch with
        | (ch', Ok v) => (c_store full_key FN_PROP 0 c 1 false v ch', Ok v)
        | (ch', Err k) => (ch', Err k)
        end
    end.
End Nbhd.
Arguments Ok {A}. Arguments Err {A}.

(* ------------------------------------------------------------------ 2. grids *)
Definition coord := list Z.

Fixpoint zip_with {A B C : Type} (f : A -> B -> C) (a : list A) (b : list B) : list C :=
  match a, b with
  | x :: a', y :: b' => f x y :: zip_with f a' b'
  | _, _ => []
  end.

(* itertools.product over the axes: first axis slowest *)
Fixpoint product_ (l : list (list Z)) : list coord :=
  match l with
  | [] => [[]]
  | h :: t => flat_map (fun x => map (cons x) (product_ t)) h
  end.

Definition all_coords (dims : list Z) : list coord := product_ (map (fun d => zrange 0 (d - 1)) dims).
(* position of a coordinate in all_coords (the cell id used in observations) *)
Definition coord_id (dims : list Z) (c : coord) : Z :=
  fold_left (fun acc p => acc * snd p + fst p) (combine c dims) 0.

(* list.remove(x): first occurrence *)
Fixpoint remove_first (x : coord) (l : list coord) : list coord :=
  match l with
  | [] => []
  | y :: t => if zl_eqb x y then t else y :: remove_first x t
  end.

(* OrthogonalMooreGrid._connect_cells_nd: product([-1,0,1], repeat=n) minus the centre *)
Definition moore_offsets (n : nat) : list coord :=
  remove_first (repeat 0 n) (product_ (repeat [-1; 0; 1] n)).

Fixpoint set_nth (i : nat) (v : Z) (l : list Z) : list Z :=
  match l, i with
  | [], _ => []
  | _ :: t, O => v :: t
  | x :: t, S j => x :: set_nth j v t
  end.
(* OrthogonalVonNeumannGrid._connect_cells_nd: for dim: for delta in [-1, 1]: offset = [0]*n; offset[dim] = delta *)
Definition vn_offsets (n : nat) : list coord :=
  flat_map (fun dim => map (fun delta => set_nth dim delta (repeat 0 n)) [-1; 1]) (seq 0 n).

Definition in_bounds (dims : list Z) (c : coord) : bool :=
  forallb (fun p => (0 <=? fst p) && (fst p <? snd p)) (combine c dims).

(* Grid._connect_single_cell_nd, one offset *)
Definition connect_nd (torus : bool) (dims : list Z) (c d : coord) : option coord :=
  let n := zip_with Z.add c d in
  let n := if torus then zip_with Z.modulo n dims else n in
  if in_bounds dims n then Some n else None.

(* Grid._connect_single_cell_2d, one offset: i, j = coordinate; height, width = dimensions *)
Definition connect_2d (torus : bool) (dims : list Z) (c : coord) (d : Z * Z) : option coord :=
  match c, dims with
  | [i; j], [height; width] =>
      let ni := i + fst d in let nj := j + snd d in
      let ni' := if torus then ni mod height else ni in
      let nj' := if torus then nj mod width else nj in
      if (0 <=? ni') && (ni' <? height) && (0 <=? nj') && (nj' <? width) then Some [ni'; nj'] else None
  | _, _ => None
  end.

(* connections of one cell: (key offset, target coordinate) in insertion order.
   The offset lists have no repetitions (C07_offsets_nodup), so no dict entry is overwritten. *)
Definition conns_nd (torus : bool) (dims : list Z) (offsets : list coord) (c : coord) : list (coord * coord) :=
  flat_map (fun d => match connect_nd torus dims c d with Some n => [(d, n)] | None => [] end) offsets.
Definition conns_2d (torus : bool) (dims : list Z) (offsets : list (Z * Z)) (c : coord) : list (coord * coord) :=
  flat_map (fun d => match connect_2d torus dims c d with Some n => [([fst d; snd d], n)] | None => [] end) offsets.

(* Grid._connect_cells dispatch on _ndims == 2 *)
Definition orth_conns (moore torus : bool) (dims : list Z) (c : coord) : list (coord * coord) :=
  if (length dims =? 2)%nat
  then conns_2d torus dims (if moore then gen_moore_offsets_2d else gen_vn_offsets_2d) c
  else conns_nd torus dims (if moore then moore_offsets (length dims) else vn_offsets (length dims)) c.

(* HexGrid._connect_cells_2d:  i = cell.coordinate[axis]; offsets = A if <test i> else B  (test translated: gen_hex_select) *)
Definition hex_offsets (c : coord) : list (Z * Z) :=
  let p := nth (Z.to_nat gen_hex_parity_axis) c 0 in
  if gen_hex_select p
  then (if gen_hex_body_is_even_table then gen_hex_even_offsets else gen_hex_odd_offsets)
  else (if gen_hex_body_is_even_table then gen_hex_odd_offsets else gen_hex_even_offsets).
Definition hex_conns (torus : bool) (dims : list Z) (c : coord) : list (coord * coord) :=
  conns_2d torus dims (hex_offsets c) c.

(* cube coordinates of the hexagon at row i, column j in the layout the tables describe
   ("even-q": even columns are shoved half a cell towards larger i) *)
Definition cube_q (i j : Z) : Z := j.
Definition cube_r (i j : Z) : Z := i - (j + j mod 2) / 2.
Definition cube_dist (i j i' j' : Z) : Z :=
  let dq := cube_q i' j' - cube_q i j in
  let dr := cube_r i' j' - cube_r i j in
  Z.max (Z.abs dq) (Z.max (Z.abs dr) (Z.abs (dq + dr))).

(* ------------------------------------------------------------------ 3. network *)
(* networkx.Graph(); add_nodes_from(range(n)); add_edges_from(edges): adjacency dict order *)
Definition net_adj (edges : list (Z * Z)) (u : Z) : list Z :=
  zdedup (flat_map (fun e => if fst e =? u then [snd e] else if snd e =? u then [fst e] else []) edges).

(* networkx.DiGraph: G.neighbors(u) = successors of u, in edge insertion order *)
Definition dnet_adj (edges : list (Z * Z)) (u : Z) : list Z :=
  zdedup (flat_map (fun e => if fst e =? u then [snd e] else []) edges).

(* ------------------------------------------------------------------ 4. Voronoi = Delaunay edges (specification) *)
Definition pt := (Z * Z)%type.
Definition orient (a b c : pt) : Z :=
  (fst b - fst a) * (snd c - snd a) - (snd b - snd a) * (fst c - fst a).
(* > 0 iff p lies strictly inside the circle through a, b, c given counter-clockwise *)
Definition incircle_det (a b c p : pt) : Z :=
  let ax := fst a - fst p in let ay := snd a - snd p in
  let bx := fst b - fst p in let by_ := snd b - snd p in
  let cx := fst c - fst p in let cy := snd c - snd p in
  (ax * ax + ay * ay) * (bx * cy - cx * by_)
  - (bx * bx + by_ * by_) * (ax * cy - cx * ay)
  + (cx * cx + cy * cy) * (ax * by_ - bx * ay).
Definition strictly_inside (a b c p : pt) : bool :=
  let o := orient a b c in
  if o >? 0 then incircle_det a b c p >? 0
  else if o <? 0 then incircle_det a c b p >? 0
  else false.
(* the circle through a b c is a proper circle with no point of pts strictly inside *)
Definition empty_circle (pts : list pt) (a b c : pt) : bool :=
  negb (orient a b c =? 0) && forallb (fun p => negb (strictly_inside a b c p)) pts.
Definition znth {A} (l : list A) (i : Z) (d : A) : A := if i <? 0 then d else nth (Z.to_nat i) l d.
Definition idxs {A} (l : list A) : list Z := zrange 0 (Z.of_nat (length l) - 1).
(* i ~ j  iff  some third centroid k gives a triangle with an empty circumcircle
   (for >= 3 points in general position these are exactly the Delaunay edges; two points: the one edge) *)
Definition delaunay_adj (pts : list pt) (i j : Z) : bool :=
  negb (i =? j) &&
  ((Z.of_nat (length pts) =? 2) ||
   existsb (fun k => negb (k =? i) && negb (k =? j) &&
                     empty_circle pts (znth pts i (0, 0)) (znth pts j (0, 0)) (znth pts k (0, 0))) (idxs pts)).
Definition delaunay_nbrs (pts : list pt) (i : Z) : list Z := filter (delaunay_adj pts i) (idxs pts).

(* translation validation of one triangulation (the triangles VoronoiGrid's Delaunay object exports):
   every exported triangle, read in each of its six vertex orders, has in-range distinct vertices and an
   empty proper circumcircle; and every (i, j, k) with an empty circumcircle has its edge i-j in some triangle *)
Definition tri := (Z * Z * Z)%type.
Definition perms3 (t : tri) : list tri :=
  let '(a, b, c) := t in [(a, b, c); (b, a, c); (a, c, b); (c, a, b); (b, c, a); (c, b, a)].
Definition in_range (pts : list pt) (i : Z) : bool := (0 <=? i) && (i <? Z.of_nat (length pts)).
Definition pnt (pts : list pt) (i : Z) : pt := znth pts i (0, 0).
Definition tri_ok (pts : list pt) (t : tri) : bool :=
  let '(x, y, z) := t in
  in_range pts x && in_range pts y && in_range pts z &&
  negb (x =? y) && negb (x =? z) && negb (y =? z) &&
  empty_circle pts (pnt pts x) (pnt pts y) (pnt pts z).
Definition tri_adj (tris : list tri) (i j : Z) : bool :=
  existsb (fun t => existsb (fun p => let '(x, y, _) := p in (x =? i) && (y =? j)) (perms3 t)) tris.
Definition delaunay_cert (pts : list pt) (tris : list tri) : bool :=
  forallb (fun t => forallb (tri_ok pts) (perms3 t)) tris &&
  forallb (fun i => forallb (fun j => forallb (fun k =>
     implb (negb (i =? j) && negb (k =? i) && negb (k =? j) &&
            empty_circle pts (pnt pts i) (pnt pts j) (pnt pts k))
           (tri_adj tris i j)) (idxs pts)) (idxs pts)) (idxs pts).
Definition tri_edges (tris : list tri) : list Z :=
  zdedup (flat_map (fun t => let '(a, b, c) := t in
            [Z.min a b * 1000 + Z.max a b; Z.min a c * 1000 + Z.max a c; Z.min b c * 1000 + Z.max b c]) tris).

(* ------------------------------------------------------------------ 5. histories *)
Inductive space :=
| SOrth (moore : bool) (dims : list Z) (torus : bool)
| SHex (dims : list Z) (torus : bool)
| SNet (n : Z) (edges : list (Z * Z))
| SDNet (n : Z) (edges : list (Z * Z))          (* Network over a networkx.DiGraph: neighbours = successors *)
| SVor (pts : list pt).

(* the connection table of the whole space by geometry: per cell (all_cells order) the list of
   (key code, target id) *)
Definition offset_code (d : coord) : Z := fold_left (fun acc x => acc * 3 + (x + 1)) d 1.
Definition enc_conns (dims : list Z) (l : list (coord * coord)) : list (Z * cell) :=
  map (fun p => (offset_code (fst p), coord_id dims (snd p))) l.
Definition space_conns (sp : space) : list (list (Z * cell)) :=
  match sp with
  | SOrth moore dims torus => map (fun c => enc_conns dims (orth_conns moore torus dims c)) (all_coords dims)
  | SHex dims torus => map (fun c => enc_conns dims (hex_conns torus dims c)) (all_coords dims)
  | SNet n edges => map (fun u => gen_net_connect (net_adj edges u)) (zrange 0 (n - 1))
  | SDNet n edges => map (fun u => gen_net_connect (dnet_adj edges u)) (zrange 0 (n - 1))
  | SVor pts => map (fun i => map (fun j => (i * 1000 + j, j)) (delaunay_nbrs pts i)) (idxs pts)
  end.

Definition table := list (list cell).
Definition conn_of (t : table) (c : cell) : list cell := znth t c [].
Definition cell_exists (t : table) (c : cell) : bool := (0 <=? c) && (c <? Z.of_nat (length t)).

Inductive op :=
| Build (tbl : table)                           (* read every cell's connections; tbl = what the implementation holds *)
| Nbhd (form : Z) (c : cell) (r : Z) (ic : bool) (* cell.get_neighborhood(r, ic); form 0 positional, 1 keyword *)
| NbhdProp (c : cell)                           (* cell.neighborhood *)
| Cert (tris : list tri)                        (* VoronoiGrid: every triangle of triangulation.triangles, validated here *)
| Place (a : Z) (c : cell)                      (* CellAgent a enters cell c (created, or moved: agent.cell = c) *)
| NbhdAgents (form : Z) (c : cell) (r : Z) (ic : bool). (* get_neighborhood(r, ic) as a CellCollection: len and .agents *)

Definition obs_set (l : list Z) : list Z := (if has_dup l then 1 else 0) :: zsort l.
Definition obs_conn_row (row : list (Z * cell)) : list Z :=
  (-5) :: zsort (map (fun p => fst p * 1000000 + snd p) row).
Definition obs_conns (t : list (list (Z * cell))) : list Z := flat_map obs_conn_row t.
Definition obs_result (r : result (list cell)) : list Z :=
  match r with Ok v => obs_set v | Err k => [-1; k] end.

(* VoronoiGrid._connect_cells end to end: `full` = every triangle of the Bowyer-Watson triangulation (vertices
   0..3 = corners of the frame, centroid k = vertex k+4).  The exported triangles and the (cell, (key, target))
   connect calls are computed by the TRANSLATED source (gen_vor_export, gen_vor_connect). *)
Definition vconn := (Z * ((Z * Z) * Z))%type.
Definition vor_emitted (conns : list vconn) (i j : Z) : bool :=
  existsb (fun e => (fst e =? i) && (snd (snd e) =? j)) conns.
Definition vor_entry_ok (pts : list pt) (e : vconn) : bool :=
  let '(x, ((k1, k2), y)) := e in
  in_range pts x && in_range pts y && (k1 =? x) && (k2 =? y) && delaunay_adj pts x y.
Definition vor_conn_cert (pts : list pt) (full : list tri) : bool :=
  let exported := gen_vor_export full in
  let conns := gen_vor_connect exported full in
  delaunay_cert pts exported && forallb (vor_entry_ok pts) conns &&
  (if Z.of_nat (length pts) =? 2 then vor_emitted conns 0 1 && vor_emitted conns 1 0 else true).
Definition vor_cell_codes (conns : list vconn) (i : Z) : list Z :=
  zdedup (flat_map (fun e => let '(x, ((k1, k2), y)) := e in
                             if x =? i then [(k1 * 1000 + k2) * 1000000 + y] else []) conns).

Definition obs_cert (sp : space) (full : list tri) : list Z :=
  match sp with
  | SVor pts =>
      let exported := gen_vor_export full in
      let conns := gen_vor_connect exported full in
      (if vor_conn_cert pts full then 1 else 0) :: zsort (tri_edges exported) ++
      (-8) :: flat_map (fun i => (-5) :: zsort (vor_cell_codes conns i)) (idxs pts)
  | _ => [-2]
  end.

(* agents: (agent id, cell) in order of arrival; a cell's _agents list = its agents in that order *)
Definition placement := list (Z * cell).
Definition agents_at (ag : placement) (c : cell) : list Z := map fst (filter (fun p => snd p =? c) ag).
(* agent.cell = c : leave the old cell (if any), append to the new one *)
Definition place (ag : placement) (a : Z) (c : cell) : placement := filter (fun p => negb (fst p =? a)) ag ++ [(a, c)].
(* CellCollection.agents: chain over the cells' agent lists *)
Definition agents_in (ag : placement) (cells : list cell) : list Z := flat_map (agents_at ag) cells.
(* len(collection), then the agents as a set *)
Definition obs_collection (ag : placement) (r : result (list cell)) : list Z :=
  match r with
  | Ok v => Z.of_nat (length v) :: obs_set (agents_in ag v)
  | Err k => [-1; k]
  end.

Record state := { st_tbl : option table; st_cache : cache; st_agents : placement }.
Definition init_state : state := {| st_tbl := None; st_cache := []; st_agents := [] |}.

Section Step.
  Variable pI pG : option (list cparam).
  Variable cprop : bool.
  Variable sp : space.

  Definition step (st : state) (o : op) : state * list Z :=
    match o with
    | Build tbl =>
        (match st_tbl st with
         | None => {| st_tbl := Some tbl; st_cache := st_cache st; st_agents := st_agents st |}
         | Some _ => st
         end, obs_conns (space_conns sp))
    | Nbhd form c r ic =>
        match st_tbl st with
        | None => (st, [-2])
        | Some t =>
            if cell_exists t c then
              let res := get_neighborhood (conn_of t) pI pG form c r ic (st_cache st) in
              ({| st_tbl := Some t; st_cache := fst res; st_agents := st_agents st |}, obs_result (snd res))
            else (st, [-2])
        end
    | NbhdProp c =>
        match st_tbl st with
        | None => (st, [-2])
        | Some t =>
            if cell_exists t c then
              let res := neighborhood_prop (conn_of t) pI pG cprop c (st_cache st) in
              ({| st_tbl := Some t; st_cache := fst res; st_agents := st_agents st |}, obs_result (snd res))
            else (st, [-2])
        end
    | Cert tris => (st, obs_cert sp tris)
    | Place a c =>
        match st_tbl st with
        | None => (st, [-2])
        | Some t =>
            if cell_exists t c then
              let ag := place (st_agents st) a c in
              ({| st_tbl := Some t; st_cache := st_cache st; st_agents := ag |}, obs_set (agents_at ag c))
            else (st, [-2])
        end
    | NbhdAgents form c r ic =>
        (* the CellCollection returned by get_neighborhood: its length and its agents, read NOW
           (the cached dict holds the cells' live agent lists) *)
        match st_tbl st with
        | None => (st, [-2])
        | Some t =>
            if cell_exists t c then
              let res := get_neighborhood (conn_of t) pI pG form c r ic (st_cache st) in
              ({| st_tbl := Some t; st_cache := fst res; st_agents := st_agents st |},
               obs_collection (st_agents st) (snd res))
            else (st, [-2])
        end
    end.

  Fixpoint run_ops (st : state) (ops : list op) : list (list Z) :=
    match ops with
    | [] => []
    | o :: t => let r := step st o in snd r :: run_ops (fst r) t
    end.
End Step.

Record case := { c_space : space; c_ops : list op }.
Definition run_case (c : case) : list (list Z) :=
  run_ops gen_cell_inner_cache gen_cell_get_cache gen_cell_nbhd_cached_property
          (c_space c) init_state (c_ops c).
