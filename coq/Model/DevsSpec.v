(* Vocabulary used by the statements of C14 / C15 (no proofs, nothing the correspondence runs):
   reachable states, partitions of a run into pieces, the step invariant, projections of logs. *)
From Coq Require Import ZArith List Bool Sorted.
From Mesa Require Import Generated.Tables Model.Devs.
Import ListNotations.
Open Scope Z_scope.

Definition ev_lt (a b : event) : Prop := ev_ltb a b = true.

(* the invariant of the event list: ordered by the key, ids below the counter, nothing before the clock *)
Definition inv (st : state) : Prop :=
  StronglySorted ev_lt (s_events st) /\
  Forall (fun e => e_uid e < s_uid st /\ s_time st <= e_time e) (s_events st).

(* what a rejected call may touch: only the global id counter *)
Definition same_sim (a b : state) : Prop :=
  s_time a = s_time b /\ s_events a = s_events b /\ s_steps a = s_steps b /\ s_dead a = s_dead b.

(* every state a simulation passes through: after setup, after each operation of a history, and after
   each single event executed inside run_until / run_for / run_next_event *)
Inductive reach (cfg : config) : state -> Prop :=
| reach_init : reach cfg (init cfg)
| reach_op : forall fuel st o st' ob l, reach cfg st -> step_op cfg fuel st o = (st', ob, l) -> reach cfg st'
| reach_exec : forall st e rest st' l, reach cfg st -> pop_event (s_events st) = Some (e, rest) ->
    exec_event cfg (set_events st rest) e = (st', l) -> reach cfg st'.

(* --- projections of a log --- *)
Definition exec_of (i : logitem) : list event := match i with LExec e _ => [e] | _ => [] end.
Definition execs (l : list logitem) : list event := flat_map exec_of l.
Definition clock_of (i : logitem) : list Z :=
  match i with LExec _ c => [c] | LStep _ c => [c] | _ => [] end.
Definition clocks (l : list logitem) : list Z := flat_map clock_of l.
Definition step_of (i : logitem) : list (Z * Z) := match i with LStep k c => [(k, c)] | _ => [] end.
Definition steps_of (l : list logitem) : list (Z * Z) := flat_map step_of l.

Definition cancel_of (i : logitem) : list Z := match i with LCancel t => [t] | _ => [] end.
Definition cancels (l : list logitem) : list Z := flat_map cancel_of l.     (* tags cancelled during l *)
Definition drop_of (i : logitem) : list Z := match i with LDrop h => [h] | _ => [] end.
Definition drops (l : list logitem) : list Z := flat_map drop_of l.         (* holders dropped during l *)

(* ticks a+1 .. a+n with their times *)
Fixpoint tick_list (a : Z) (n : nat) : list (Z * Z) :=
  match n with O => [] | S m => (a + 1, (a + 1) * SCALE) :: tick_list (a + 1) m end.

(* an event "would run": not cancelled, callable alive *)
Definition runnable (dead : list Z) (e : event) : bool :=
  negb (e_cancelled e) && negb (memz (e_holder e) dead).

(* events without user code that are not model.step: "scheduled up front" *)
Definition plain (l : list event) : Prop := Forall (fun e => e_step e = false /\ e_body e = []) l.

(* --- vocabulary of the C14 statements --- *)
(* a runnable event that is due at a run_until endt *)
Definition due (dead : list Z) (endt : Z) (e : event) : bool := runnable dead e && (e_time e <=? endt).
(* x is pending, not cancelled, not model.step, and its callable is alive *)
Definition watch (x : event) (st : state) : Prop :=
  In x (s_events st) /\ e_cancelled x = false /\ e_step x = false /\ memz (e_holder x) (s_dead st) = false.
(* during the log l nobody cancelled x's tag or dropped x's holder *)
Definition survives (x : event) (l : list logitem) : Prop :=
  ~ In (e_tag x) (cancels l) /\ ~ In (e_holder x) (drops l).
(* the callable holder h is dead *)
Definition dead_holder (h : Z) (st : state) : Prop := memz h (s_dead st) = true.
(* the event id u is cancelled: it was handed out already, and whatever is pending under it is cancelled *)
Definition cancelled_id (u : Z) (st : state) : Prop :=
  u < s_uid st /\ forall x, In x (s_events st) -> e_uid x = u -> e_cancelled x = true.


(* --- C15: cutting a run into pieces --- *)
Inductive piece := PUntil (t : Z) | PFor (d : Z) | PNext.

Definition run_piece (cfg : config) (fuel : nat) (st : state) (p : piece) : state * list logitem * bool :=
  match p with
  | PUntil t => run_loop cfg fuel t st
  | PFor d => run_loop cfg fuel (s_time st + d) st
  | PNext => let '(s, l) := run_next cfg st in (s, l, negb (has_raise l))
  end.

Fixpoint run_pieces (cfg : config) (fuel : nat) (st : state) (ps : list piece) : state * list logitem * bool :=
  match ps with
  | [] => (st, [], true)
  | p :: r =>
      let '(st1, l1, ok1) := run_piece cfg fuel st p in
      let '(st2, l2, ok2) := run_pieces cfg fuel st1 r in
      (st2, l1 ++ l2, ok1 && ok2)
  end.

(* no piece goes beyond T: horizons <= T, and run_next_event is only used while the next event is <= T *)
Definition piece_within (st : state) (T : Z) (p : piece) : Prop :=
  match p with
  | PUntil t => t <= T
  | PFor d => s_time st + d <= T
  | PNext => forall e rest, pop_event (s_events st) = Some (e, rest) -> e_time e <= T
  end.
Fixpoint within (cfg : config) (fuel : nat) (st : state) (T : Z) (ps : list piece) : Prop :=
  match ps with
  | [] => True
  | p :: r => piece_within st T p /\ within cfg fuel (fst (fst (run_piece cfg fuel st p))) T r
  end.

(* --- C15: the step invariant of ABMSimulator --- *)
(* exactly one model.step event is pending; it is live, for tick steps+1, at the priority read from the
   source; the clock is inside [steps, steps+1] ticks *)
Definition step_inv (st : state) : Prop :=
  (exists s, filter e_step (s_events st) = [s] /\ e_cancelled s = false /\
             e_time s = (s_steps st + 1) * SCALE /\ e_prio s = gen_prio_value gen_step_prio) /\
  s_steps st * SCALE <= s_time st <= (s_steps st + 1) * SCALE.

(* run calls of a history that stay inside the quantifier: horizons not before the clock *)
Definition op_ok (st : state) (o : op) : Prop :=
  match o with ORunUntil t => s_time st <= t | ORunFor d => 0 <= d | _ => True end.
Fixpoint ops_ok (cfg : config) (fuel : nat) (st : state) (ops : list op) : Prop :=
  match ops with
  | [] => True
  | o :: r => op_ok st o /\ ops_ok cfg fuel (fst (fst (step_op cfg fuel st o))) r
  end.
Definition final (cfg : config) (fuel : nat) (st : state) (ops : list op) : state :=
  fst (run_state cfg fuel st ops).
