(* Models of mesa/space.py  _HexGrid.get_neighborhood (level-wise expansion with the parity
   tables re-extracted from the source, its own cache key) and NetworkGrid.get_neighborhood
   (G.neighbors for radius 1, shortest-path ball otherwise), plus the combined case type the
   correspondence runs for C09.  Definitions only. *)
From Coq Require Import ZArith List Bool.
From Mesa Require Import Common.ListX Common.Reach Generated.Tables Model.LegacyNbhd.
Import ListNotations.
Open Scope Z_scope.

(* ---------------- legacy hex grids ---------------- *)
Definition hex_raw (p : coord) : list coord :=
  let offs := if (fst p) mod 2 =? 0 then gen_lhex_even_col else gen_lhex_odd_col in
  map (fun d => (fst p + fst d, snd p + snd d)) offs.

Definition hex_adj (g : grid) (p : coord) : list coord :=
  if g_torus g
  then map (fun c => (fst c mod g_w g, snd c mod g_h g)) (hex_raw p)
  else filter (fun c => negb (out_of_bounds g c)) (hex_raw p).

Definition hex_compute (g : grid) (q : query) : list coord :=
  let s := dedup_first coord_eqb (ball coord_eqb (hex_adj g) (Z.to_nat (q_r q)) (q_pos q)) in
  if q_ic q
  then (if memb coord_eqb (q_pos q) s then s else q_pos q :: s)
  else remove_key coord_eqb (q_pos q) s.

(* hex queries have no `moore` argument: the record field is fixed to true *)
Definition hq (pos : coord) (ic : bool) (r : Z) : query :=
  {| q_pos := pos; q_moore := true; q_ic := ic; q_r := r |}.

Definition hex_get_neighborhood (fields : list nb_field) (g : grid) (c : cache) (q : query)
  : cache * list coord :=
  let k := key_of fields q in
  match cache_get k c with
  | Some v => (c, v)
  | None => let v := hex_compute g q in ((k, v) :: c, v)
  end.

Inductive hop_ :=
| HNbhd (pos : coord) (ic : bool) (r : Z)
| HNbrs (pos : coord) (ic : bool) (r : Z).

Definition hstep (fields : list nb_field) (g : grid) (cs : contents) (c : cache) (o : hop_)
  : cache * list Z :=
  match o with
  | HNbhd pos ic r =>
      let '(c', v) := hex_get_neighborhood fields g c (hq pos ic r) in (c', obs_cells v)
  | HNbrs pos ic r =>
      let '(c', v) := hex_get_neighborhood fields g c (hq pos ic r) in (c', obs_agents (agents_in cs v))
  end.

Fixpoint hrun (fields : list nb_field) (g : grid) (cs : contents) (c : cache) (ops : list hop_)
  : list (list Z) :=
  match ops with
  | [] => []
  | o :: t => let '(c', ob) := hstep fields g cs c o in ob :: hrun fields g cs c' t
  end.

(* ---------------- NetworkGrid ---------------- *)
Definition graph := list (Z * list Z).          (* node -> neighbours, as networkx lists them *)
Fixpoint g_adj (G : graph) (n : Z) : list Z :=
  match G with
  | [] => []
  | (m, l) :: t => if n =? m then l else g_adj t n
  end.

Definition net_nbhd (G : graph) (node : Z) (ic : bool) (r : Z) : list Z :=
  if r =? 1 then g_adj G node ++ (if ic then [node] else [])
  else
    (* single_source_shortest_path_length(G, node, r): node itself at distance 0 plus the ball *)
    let d := dedup_first Z.eqb (node :: ball Z.eqb (g_adj G) (Z.to_nat r) node) in
    let d := if ic then d else remove_key Z.eqb node d in
    zsort d.

Definition ncontents := list (Z * list Z).       (* node -> agent ids *)
Definition net_agents (cs : ncontents) (nodes : list Z) : list Z := flat_map (g_adj cs) nodes.

Inductive nop :=
| NNbhd (node : Z) (ic : bool) (r : Z)
| NNbrs (node : Z) (ic : bool) (r : Z)
| NContents (nodes : list Z).      (* get_cell_list_contents / iter_cell_list_contents over any iterable of nodes *)

Definition nstep (G : graph) (cs : ncontents) (o : nop) : list Z :=
  match o with
  | NNbhd n ic r => let v := net_nbhd G n ic r in (if has_dup v then 1 else 0) :: zsort v
  | NNbrs n ic r => obs_agents (net_agents cs (net_nbhd G n ic r))
  | NContents l => obs_agents (net_agents cs l)
  end.

(* ---------------- what the correspondence runs ---------------- *)
Inductive case9 :=
| COrth (c : case)
| CHex (g : grid) (cs : contents) (ops : list hop_)
| CNet (G : graph) (cs : ncontents) (ops : list nop).

Definition run_case9 (c : case9) : list (list Z) :=
  match c with
  | COrth c => run_case c
  | CHex g cs ops => hrun gen_hex_cache_key g cs [] ops
  | CNet G cs ops => map (nstep G cs) ops
  end.
