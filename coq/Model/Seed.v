(* C01 - the seed handling of mesa/model.py (as repaired by "remember the seed of model.random when a model is built
   with rng=<int>"): Model.__init__, reset_randomizer, reset_rng.  Hand transcription; the same three functions are
   regenerated from the working tree on every run (harness/tables/rng_code.py -> Generated.Tables.gen_model_init,
   gen_reset_randomizer, gen_reset_rng) and Proofs/RngBridge.v proves that they agree.

   A seed-like Python value is `option Z` (None = Python None = "seed from OS entropy").  Whether random.Random /
   numpy's default_rng ACCEPT the value (int: yes; SeedSequence, Generator, list: random.Random raises TypeError) and
   what the fall-backs draw are inputs.  Definitions only. *)
From Coq Require Import ZArith List Bool.
Import ListNotations.
Open Scope Z_scope.

Record init_result := {
  i_random : option Z;     (* what model.random = random.Random(.) was seeded with *)
  i_rng : option Z;        (* what model.rng = np.random.default_rng(.) was seeded with *)
  i_seed : option Z        (* model._seed *)
}.

Definition m_model_init (seed rng : option Z) (std_ok np_ok : bool) (drawn_np drawn_std : Z) : option init_result :=
  match seed, rng with
  | Some _, Some _ => None                                   (* ValueError: either rng or seed, not both *)
  | None, _ =>
      (* self.rng = default_rng(rng); try: self.random = Random(rng); seed = rng
         except TypeError: seed = int(self.rng.integers(..)); self.random = Random(seed) ; self._seed = seed *)
      if std_ok then Some {| i_random := rng; i_rng := rng; i_seed := rng |}
      else Some {| i_random := Some drawn_np; i_rng := rng; i_seed := Some drawn_np |}
  | Some _, None =>
      (* self.random = Random(seed); self._seed = seed; try: self.rng = default_rng(seed)
         except TypeError: rng = self.random.randint(0, sys.maxsize); self.rng = default_rng(rng) *)
      if np_ok then Some {| i_random := seed; i_rng := seed; i_seed := seed |}
      else Some {| i_random := seed; i_rng := Some drawn_std; i_seed := seed |}
  end.

Record reset_result := {
  r_reseed : option Z;     (* argument of the re-seeding *)
  r_in_place : bool;       (* true: self.random.seed(x) on the existing object;  false: self.random re-bound *)
  r_seed : option Z        (* model._seed afterwards *)
}.

(* if seed is None: seed = self._seed ; self.random.seed(seed) ; self._seed = seed *)
Definition m_reset_randomizer (seed cur_seed : option Z) : reset_result :=
  let s := match seed with None => cur_seed | Some _ => seed end in
  {| r_reseed := s; r_in_place := true; r_seed := s |}.

(* self.rng = np.random.default_rng(rng): a new Generator by design (None = entropy) *)
Definition m_reset_rng (rng : option Z) : option Z := rng.
