(* Model of mesa/experimental/devs/eventlist.py (SimulationEvent, EventList) and
   mesa/experimental/devs/simulator.py (Simulator, ABMSimulator, DEVSimulator), following the code
   as repaired by fixes/C14-1 (peak_ahead walks the events in pop order), fixes/C14-2
   (schedule_event_relative rejects a negative delta) and fixes/C15-1 (the step for the next tick is
   scheduled in _execute_event, which run_until and run_next_event both use).

   Times are dyadic: every time/delta is an integer number of 1/8 (SCALE = 8), so an ABMSimulator
   time is "of the right unit" (an int, or a float with is_integer()) iff it is a multiple of 8.

   heapq is abstracted as a priority queue w.r.t. SimulationEvent.__lt__: the event list is kept
   as a list ordered by the comparison tuple extracted from the source (Generated.Tables);
   heappush = ordered insertion, heappop = take the head.  (The heap array order is observable
   only through the unrepaired peak_ahead.)  Weak references: an event's callable is a bound
   method of a `holder` object; dropping the holder kills the callable (CPython refcounting).
   User code = a small DSL (`act`) interpreted here and built as Python closures by the harness;
   a schedule call made by user code is wrapped in try/except by the harness, so a rejection is
   logged and the event goes on.  Definitions only. *)
From Coq Require Import ZArith List Bool.
From Mesa Require Import Generated.Tables.
Import ListNotations.
Open Scope Z_scope.

Definition SCALE : Z := 8.

Inductive skind := KNow | KRel | KAbs | KTick.
(* schedule_event_now / _relative(delta) / _absolute(time) / _next_tick (ABMSimulator only) *)

Inductive act :=
| ASched (k : skind) (t : Z) (p : prio_name) (tag holder : Z) (body : list act)
| ACancel (tag : Z)
| ADrop (holder : Z)
| ARaise.                                (* the user callable raises an exception here *)

Record event := {
  e_time : Z; e_prio : Z; e_uid : Z;        (* the fields SimulationEvent.__lt__ may look at *)
  e_tag : Z; e_holder : Z; e_step : bool;   (* e_step: fn is model.step *)
  e_cancelled : bool; e_body : list act }.

(* --- SimulationEvent.__lt__ : lexicographic on the tuple extracted from the source --- *)
Definition field_of (e : event) (f : ev_field) : Z :=
  match f with FTime => e_time e | FPriority => e_prio e | FUid => e_uid e end.
Fixpoint lex_ltb (a b : list Z) : bool :=
  match a, b with
  | x :: a', y :: b' => (x <? y) || ((x =? y) && lex_ltb a' b')
  | _, _ => false
  end.
Definition ev_key (e : event) : list Z := map (field_of e) gen_event_key.
Definition ev_ltb (a b : event) : bool := lex_ltb (ev_key a) (ev_key b).

(* --- EventList --- *)
Fixpoint ev_insert (e : event) (l : list event) : list event :=     (* add_event / heappush *)
  match l with
  | [] => [e]
  | h :: t => if ev_ltb e h then e :: l else h :: ev_insert e t
  end.

Fixpoint pop_event (l : list event) : option (event * list event) :=   (* pop_event: skips cancelled *)
  match l with
  | [] => None
  | h :: t => if e_cancelled h then pop_event t else Some (h, t)
  end.

Definition live (l : list event) : list event := filter (fun e => negb (e_cancelled e)) l.
Definition peak_ahead (n : nat) (l : list event) : list event := firstn n (live l).

(* --- simulator state --- *)
Record state := {
  s_time : Z; s_events : list event; s_uid : Z; s_steps : Z; s_dead : list Z }.
Record config := { c_abm : bool; c_script : list (Z * list act) }.
(* c_script: what the user's model.step does at tick k (model.steps = k) *)

Definition set_time (st : state) (t : Z) : state :=
  {| s_time := t; s_events := s_events st; s_uid := s_uid st; s_steps := s_steps st; s_dead := s_dead st |}.
Definition set_events (st : state) (l : list event) : state :=
  {| s_time := s_time st; s_events := l; s_uid := s_uid st; s_steps := s_steps st; s_dead := s_dead st |}.
Definition set_uid (st : state) (u : Z) : state :=
  {| s_time := s_time st; s_events := s_events st; s_uid := u; s_steps := s_steps st; s_dead := s_dead st |}.
Definition set_steps (st : state) (k : Z) : state :=
  {| s_time := s_time st; s_events := s_events st; s_uid := s_uid st; s_steps := k; s_dead := s_dead st |}.
Definition set_dead (st : state) (d : list Z) : state :=
  {| s_time := s_time st; s_events := s_events st; s_uid := s_uid st; s_steps := s_steps st; s_dead := d |}.

Definition memz (x : Z) (l : list Z) : bool := existsb (Z.eqb x) l.

(* check_time_unit *)
Definition unit_ok (abm : bool) (t : Z) : bool := if abm then (t mod SCALE =? 0) else true.

Definition R_OK : Z := 0.
Definition R_PAST : Z := 1.     (* ValueError "trying to schedule an event in the past" *)
Definition R_UNIT : Z := 2.     (* ValueError "time unit mismatch" *)
Definition R_SKIP : Z := 5.     (* the harness does not make the call (holder gone / no such method) *)

Definition mk_event (t : Z) (p : prio_name) (uid tag holder : Z) (stp : bool) (body : list act) : event :=
  {| e_time := t; e_prio := gen_prio_value p; e_uid := uid; e_tag := tag; e_holder := holder;
     e_step := stp; e_cancelled := false; e_body := body |}.

(* SimulationEvent(...) (takes the next unique_id) followed by _schedule_event *)
Definition schedule (cfg : config) (st : state) (t : Z) (p : prio_name) (tag holder : Z) (stp : bool)
           (body : list act) : state * Z :=
  let e := mk_event t p (s_uid st) tag holder stp body in
  let st1 := set_uid st (s_uid st + 1) in
  if unit_ok (c_abm cfg) t then (set_events st1 (ev_insert e (s_events st1)), R_OK)
  else (st1, R_UNIT).

(* schedule_event_relative (with fix C14-2) *)
Definition schedule_relative (cfg : config) (st : state) (d : Z) (p : prio_name) (tag holder : Z)
           (stp : bool) (body : list act) : state * Z :=
  if d <? 0 then (st, R_PAST) else schedule cfg st (s_time st + d) p tag holder stp body.

Definition do_sched (cfg : config) (st : state) (k : skind) (t : Z) (p : prio_name) (tag holder : Z)
           (body : list act) : state * Z :=
  if memz holder (s_dead st) then (st, R_SKIP) else
  match k with
  | KAbs => if s_time st >? t then (st, R_PAST) else schedule cfg st t p tag holder false body
  | KRel => schedule_relative cfg st t p tag holder false body
  | KNow => schedule_relative cfg st 0 p tag holder false body
  | KTick => if c_abm cfg then schedule_relative cfg st SCALE p tag holder false body else (st, R_SKIP)
  end.

(* the time the accepted event got (for the log) *)
Definition sched_time (st : state) (k : skind) (t : Z) : Z :=
  match k with KAbs => t | KRel => s_time st + t | KNow => s_time st | KTick => s_time st + SCALE end.

(* event.cancel() on the event(s) the harness knows under this tag; model.step events have no tag *)
Definition cancel_ev (tag : Z) (e : event) : event :=
  if (e_tag e =? tag) && negb (e_step e) then
    {| e_time := e_time e; e_prio := e_prio e; e_uid := e_uid e; e_tag := e_tag e; e_holder := e_holder e;
       e_step := e_step e; e_cancelled := true; e_body := e_body e |}
  else e.
Definition do_cancel (st : state) (tag : Z) : state := set_events st (map (cancel_ev tag) (s_events st)).
Definition do_drop (st : state) (h : Z) : state := set_dead st (h :: s_dead st).

Inductive logitem :=
| LExec (e : event) (clock : Z)          (* the callable of e ran, with simulator.time = clock *)
| LStep (steps clock : Z)                (* model.step ran: model.steps after the increment, clock *)
| LSched (rc tag t : Z)                  (* user code called schedule_event_*: outcome, tag, time *)
| LCancel (tag : Z)                      (* cancel_event on the event(s) known under this tag (not observed: *)
| LDrop (holder : Z)                     (* dropping a holder    - kept for the statements of the theorems) *)
| LRaise.                                (* the user callable raised: the exception propagates out of the run call *)

Definition is_raise (i : logitem) : bool := match i with LRaise => true | _ => false end.
Definition has_raise (l : list logitem) : bool := existsb is_raise l.

Definition do_act (cfg : config) (st : state) (a : act) : state * list logitem :=
  match a with
  | ASched k t p tag h body =>
      let '(st1, rc) := do_sched cfg st k t p tag h body in
      (st1, [LSched rc tag (if rc =? R_OK then sched_time st k t else 0)])
  | ACancel tag => (do_cancel st tag, [LCancel tag])
  | ADrop h => (do_drop st h, [LDrop h])
  | ARaise => (st, [LRaise])
  end.

(* the body of a callable: statement after statement, until one raises (the rest of the body never runs) *)
Fixpoint do_acts (cfg : config) (st : state) (acts : list act) : state * list logitem :=
  match acts with
  | [] => (st, [])
  | a :: r =>
      let '(st1, l1) := do_act cfg st a in
      if has_raise l1 then (st1, l1) else
      let '(st2, l2) := do_acts cfg st1 r in
      (st2, l1 ++ l2)
  end.

Fixpoint script_for (k : Z) (s : list (Z * list act)) : list act :=
  match s with
  | [] => []
  | (k', a) :: r => if k =? k' then a else script_for k r
  end.

(* event.execute() *)
Definition execute (cfg : config) (st : state) (e : event) : state * list logitem :=
  if e_cancelled e then (st, [])
  else if e_step e then
    (* Model._wrapped_step: steps += 1, then the user's step *)
    let st1 := set_steps st (s_steps st + 1) in
    let '(st2, l) := do_acts cfg st1 (script_for (s_steps st1) (c_script cfg)) in
    (st2, LStep (s_steps st1) (s_time st1) :: l)
  else if memz (e_holder e) (s_dead st) then (st, [])      (* fn() is None: silently nothing *)
  else
    let '(st2, l) := do_acts cfg st (e_body e) in
    (st2, LExec e (s_time st) :: l).

(* Simulator._execute_event / ABMSimulator._execute_event (fix C15-1) *)
Definition exec_event (cfg : config) (st : state) (e : event) : state * list logitem :=
  let st0 := set_time st (e_time e) in
  let st1 := if c_abm cfg && e_step e
             then fst (schedule_relative cfg st0 SCALE gen_step_prio (-1) (-1) true [])
             else st0 in
  execute cfg st1 e.

(* run_until: the while True loop, with explicit fuel; false = out of fuel *)
Fixpoint run_loop (cfg : config) (fuel : nat) (endt : Z) (st : state) : state * list logitem * bool :=
  match fuel with
  | O => (st, [], false)
  | S n =>
      match pop_event (s_events st) with
      | None => (set_time (set_events st []) endt, [], true)
      | Some (e, rest) =>
          if e_time e <=? endt then
            let '(st1, l1) := exec_event cfg (set_events st rest) e in
            if has_raise l1 then (st1, l1, false)      (* the exception escapes from run_until: event consumed, clock at its time *)
            else
            let '(st2, l2, ok) := run_loop cfg n endt st1 in
            (st2, l1 ++ l2, ok)
          else (set_events (set_time (set_events st rest) endt) (ev_insert e rest), [], true)
      end
  end.

Definition run_next (cfg : config) (st : state) : state * list logitem :=
  match pop_event (s_events st) with
  | None => (set_events st [], [])
  | Some (e, rest) => exec_event cfg (set_events st rest) e
  end.

(* --- histories --- *)
Inductive op :=
| OSched (k : skind) (t : Z) (p : prio_name) (tag holder : Z) (body : list act)
| OCancel (tag : Z)
| ODrop (holder : Z)
| ORunUntil (t : Z)
| ORunFor (d : Z)
| ORunNext
| OPeek (n : Z).

Definition enc_log (i : logitem) : list Z :=
  match i with
  | LExec e c => [0; e_tag e; c]
  | LStep k c => [3; k; c]
  | LSched rc tag t => [if rc =? R_OK then 4 else rc; tag; t]
  | LCancel _ => []
  | LDrop _ => []
  | LRaise => []
  end.
Definition enc_ev (e : event) : list Z := [e_tag e; e_time e; e_prio e].

(* what is observed after every operation: clock, model.steps, the live pending events in pop
   order, and what user code logged during the operation *)
Definition view (st : state) (log : list logitem) : list Z :=
  let lv := live (s_events st) in
  [s_time st; s_steps st; Z.of_nat (length lv)] ++ flat_map enc_ev lv ++ flat_map enc_log log.

Definition E_PAST : Z := 1.
Definition E_UNIT : Z := 2.
Definition E_EMPTY : Z := 3.

Definition E_USER : Z := 7.
(* how a run call ends: the user's exception propagated / completed / (model only) out of fuel *)
Definition run_head (l : list logitem) (ok : bool) : list Z :=
  if has_raise l then [-1; E_USER] else [if ok then 0 else -4].

Definition step_op (cfg : config) (fuel : nat) (st : state) (o : op) : state * list Z * list logitem :=
  match o with
  | OSched k t p tag h body =>
      let '(st1, rc) := do_sched cfg st k t p tag h body in
      let hd := if rc =? R_OK then [0] else if rc =? R_SKIP then [-2] else [-1; rc] in
      (st1, hd ++ view st1 [], [])
  | OCancel tag => let st1 := do_cancel st tag in (st1, 0 :: view st1 [], [LCancel tag])
  | ODrop h => let st1 := do_drop st h in (st1, 0 :: view st1 [], [LDrop h])
  | ORunUntil t =>
      let '(st1, l, ok) := run_loop cfg fuel t st in
      (st1, run_head l ok ++ view st1 l, l)
  | ORunFor d =>
      let '(st1, l, ok) := run_loop cfg fuel (s_time st + d) st in
      (st1, run_head l ok ++ view st1 l, l)
  | ORunNext => let '(st1, l) := run_next cfg st in (st1, run_head l true ++ view st1 l, l)
  | OPeek n =>
      match s_events st with
      | [] => (st, [-1; E_EMPTY], [])
      | _ => let pk := peak_ahead (Z.to_nat n) (s_events st) in
             (st, 0 :: Z.of_nat (length pk) :: flat_map enc_ev pk, [])
      end
  end.

(* all observations, and the concatenated log, of a history *)
Fixpoint run_ops (cfg : config) (fuel : nat) (st : state) (ops : list op) : list (list Z) :=
  match ops with
  | [] => []
  | o :: r => let '(st1, ob, _) := step_op cfg fuel st o in ob :: run_ops cfg fuel st1 r
  end.

Fixpoint run_state (cfg : config) (fuel : nat) (st : state) (ops : list op) : state * list logitem :=
  match ops with
  | [] => (st, [])
  | o :: r =>
      let '(st1, _, l1) := step_op cfg fuel st o in
      let '(st2, l2) := run_state cfg fuel st1 r in
      (st2, l1 ++ l2)
  end.

(* Simulator.__init__ + setup(model): ABMSimulator.setup schedules model.step for tick 1 *)
Definition fresh : state := {| s_time := 0; s_events := []; s_uid := 0; s_steps := 0; s_dead := [] |}.
Definition init (cfg : config) : state :=
  if c_abm cfg then fst (schedule_relative cfg fresh SCALE gen_step_prio (-1) (-1) true []) else fresh.

(* --- before setup(model): scheduling, cancelling and peak_ahead work as usual (ABMSimulator has no model.step event
   yet); run_until / run_for / run_next_event raise "simulator has not been setup" before touching anything --- *)
Definition E_NOSETUP : Z := 4.
Definition is_run (o : op) : bool :=
  match o with ORunUntil _ | ORunFor _ | ORunNext => true | _ => false end.
Definition step_op_unset (cfg : config) (fuel : nat) (st : state) (o : op) : state * list Z * list logitem :=
  if is_run o then (st, [-1; E_NOSETUP], []) else step_op cfg fuel st o.
Fixpoint run_ops_unset (cfg : config) (fuel : nat) (st : state) (ops : list op) : list (list Z) :=
  match ops with
  | [] => []
  | o :: r => let '(st1, ob, _) := step_op_unset cfg fuel st o in ob :: run_ops_unset cfg fuel st1 r
  end.

(* c_setup = false: the history runs on a simulator on which setup was never called *)
Record case := { c_cfg : config; c_setup : bool; c_fuel : nat; c_ops : list op }.
Definition run_case (c : case) : list (list Z) :=
  if c_setup c then run_ops (c_cfg c) (c_fuel c) (init (c_cfg c)) (c_ops c)
  else run_ops_unset (c_cfg c) (c_fuel c) fresh (c_ops c).
