(* Model of mesa/experimental/mesa_signals (C16, and the signal-registry site of C18):
     HasObservables.observe / unobserve / clear_all_subscriptions / notify / _mesa_notify
     Observable.__set__, ObservableList.__set__, SignalingList mutators and the mutators
     collections.abc.MutableSequence derives from them (pop, remove, extend, +=, reverse, clear).
   Transcribed statement by statement from the code AS REPAIRED by fixes/C16-*.diff:
     - observe validates every requested (name, type) first, then subscribes (no re-binding of
       signal_type);  unobserve does not re-bind signal_type;  __delitem__ reads the removed item
       before deleting;  an overriding observable's signal types win over the overridden one's.
   Python values: ints are Z, a list of ints is list Z; a dict is an association list; the
   subscriber lists hold handler ids, a weak reference is dead iff its id is in st_dead.
   Where the source iterates a Python set (signal types) the model iterates the T1 table; the
   observation reads the registry through sget only, so the iteration order cannot show.
   A mutator's notifications and its data updates do not depend on each other (handlers in
   scope only record), so a list operation is computed as (new data, signals to emit) and the
   signals are then sent one by one through notify1, which prunes dead references as
   _mesa_notify does.  Definitions only. *)
From Coq Require Import ZArith List Bool.
From Mesa Require Import Common.ListX Generated.Tables.
Import ListNotations.
Open Scope Z_scope.

(* ------------------------------------------------------------------ values and signals *)
Inductive val := VNone | VInt (z : Z) | VList (l : list Z).
Inductive idx := INone | IInt (i : Z) | ISlice (a b c : option Z).
(* what a mutator hands to notify(name, old, new, type, index=...) *)
Record emit := { e_type : Z; e_old : val; e_new : val; e_index : idx }.
Record signal := { s_owner : Z; s_name : Z; s_type : Z; s_old : val; s_new : val; s_index : idx }.
Definition mk_signal (owner n : Z) (e : emit) : signal :=
  {| s_owner := owner; s_name := n; s_type := e_type e; s_old := e_old e; s_new := e_new e;
     s_index := e_index e |}.
Definition delivery := (Z * signal)%type.          (* handler id, the signal it was called with *)

Definition E_UNKNOWN_NAME : Z := 1.   (* observe: ValueError, observable not known *)
Definition E_UNKNOWN_TYPE : Z := 2.   (* observe: ValueError, signal type not emitted *)
Definition E_KEY : Z := 3.            (* unobserve(unknown, All()): KeyError *)
Definition E_INDEX : Z := 4.          (* IndexError *)
Definition E_VALUE : Z := 5.          (* ValueError from list (remove missing, slice size, step 0) *)
Definition E_ATTR : Z := 6.           (* AttributeError: list never assigned *)

(* ------------------------------------------------------------------ Python list primitives *)
Definition zlen (l : list Z) : Z := Z.of_nat (length l).
Definition zmem (x : Z) (l : list Z) : bool := existsb (Z.eqb x) l.
Definition norm_index (n i : Z) : option Z :=
  let j := if i <? 0 then i + n else i in
  if (0 <=? j) && (j <? n) then Some j else None.
Definition znth (l : list Z) (j : Z) : Z := nth (Z.to_nat j) l 0.
Definition zupd (l : list Z) (j v : Z) : list Z :=
  firstn (Z.to_nat j) l ++ v :: skipn (S (Z.to_nat j)) l.
Definition zdel (l : list Z) (j : Z) : list Z :=
  firstn (Z.to_nat j) l ++ skipn (S (Z.to_nat j)) l.
(* list.insert clamps the index *)
Definition ins_pos (n i : Z) : Z := if i <? 0 then Z.max 0 (i + n) else Z.min i n.
Definition py_insert (l : list Z) (i v : Z) : list Z :=
  let j := Z.to_nat (ins_pos (zlen l) i) in firstn j l ++ v :: skipn j l.

(* slice.indices(len): PySlice_Unpack + PySlice_AdjustIndices *)
Definition slice_adj (len step v : Z) : Z :=
  if v <? 0 then (let v' := v + len in if v' <? 0 then (if step <? 0 then -1 else 0) else v')
  else if v >=? len then (if step <? 0 then len - 1 else len) else v.
Definition slice_indices (len : Z) (a b c : option Z) : option (Z * Z * Z) :=
  let step := match c with Some s => s | None => 1 end in
  if step =? 0 then None
  else
    let start := match a with Some v => slice_adj len step v | None => if step <? 0 then len - 1 else 0 end in
    let stop := match b with Some v => slice_adj len step v | None => if step <? 0 then -1 else len end in
    Some (start, stop, step).
Definition slice_len (start stop step : Z) : Z :=
  if step <? 0 then (if stop <? start then (start - stop - 1) / (- step) + 1 else 0)
  else (if start <? stop then (stop - start - 1) / step + 1 else 0).
Definition slice_positions (start stop step : Z) : list Z :=
  map (fun k => start + k * step) (zrange 0 (slice_len start stop step - 1)).
Definition getslice (l : list Z) (ps : list Z) : list Z := map (znth l) ps.
Fixpoint del_positions (i : Z) (l : list Z) (ps : list Z) : list Z :=
  match l with
  | [] => []
  | x :: t => if zmem i ps then del_positions (i + 1) t ps else x :: del_positions (i + 1) t ps
  end.
Fixpoint set_positions (l : list Z) (ps vs : list Z) : list Z :=
  match ps, vs with
  | p :: ps', v :: vs' => set_positions (zupd l p v) ps' vs'
  | _, _ => l
  end.
Definition splice (l : list Z) (start stop : Z) (vs : list Z) : list Z :=
  firstn (Z.to_nat start) l ++ vs ++ skipn (Z.to_nat (Z.max start stop)) l.
Fixpoint index_of (i : Z) (v : Z) (l : list Z) : option Z :=     (* Sequence.index *)
  match l with
  | [] => None
  | x :: t => if x =? v then Some i else index_of (i + 1) v t
  end.

(* ------------------------------------------------------------------ SignalingList *)
Inductive lop :=
| LAppend (v : Z)
| LInsert (i v : Z)
| LSetItem (i v : Z)
| LSetSlice (a b c : option Z) (vs : list Z)
| LDelItem (i : Z)
| LDelSlice (a b c : option Z)
| LPop (i : option Z)
| LRemove (v : Z)
| LExtend (vs : list Z)
| LExtendSelf
| LIAdd (vs : list Z)        (* owner.l += vs : extend, then the descriptor's __set__ *)
| LReverse
| LClear.

Inductive lres := LOk (d : list Z) (es : list emit) (ret : val) | LErr (kind : Z).

Section ListOps.
  Variable tb : sig_tables.

  Definition em_replace (old new : val) (ix : idx) : emit :=
    {| e_type := tb_emit_setitem tb; e_old := old; e_new := new; e_index := ix |}.
  Definition em_remove (old : val) (ix : idx) : emit :=
    {| e_type := tb_emit_delitem tb; e_old := old; e_new := VNone; e_index := ix |}.
  Definition em_insert (v i : Z) : emit :=
    {| e_type := tb_emit_insert tb; e_old := VNone; e_new := VInt v; e_index := IInt i |}.
  Definition em_append (v i : Z) : emit :=
    {| e_type := tb_emit_append tb; e_old := VNone; e_new := VInt v; e_index := IInt i |}.
  Definition em_change (old new : val) : emit :=
    {| e_type := tb_emit_assign tb; e_old := old; e_new := new; e_index := INone |}.

  (* __setitem__(index, value), int index *)
  Definition p_setitem (d : list Z) (i v : Z) : lres :=
    match norm_index (zlen d) i with
    | None => LErr E_INDEX                                 (* old_value = self.data[index] raises *)
    | Some j => LOk (zupd d j v) [em_replace (VInt (znth d j)) (VInt v) (IInt i)] VNone
    end.
  (* __setitem__(slice, values) *)
  Definition p_setslice (d : list Z) (a b c : option Z) (vs : list Z) : lres :=
    match slice_indices (zlen d) a b c with
    | None => LErr E_VALUE                                 (* slice step cannot be zero *)
    | Some (start, stop, step) =>
        let ps := slice_positions start stop step in
        let old := getslice d ps in
        if step =? 1 then
          LOk (splice d start stop vs) [em_replace (VList old) (VList vs) (ISlice a b c)] VNone
        else if zlen vs =? zlen ps then
          LOk (set_positions d ps vs) [em_replace (VList old) (VList vs) (ISlice a b c)] VNone
        else LErr E_VALUE                                  (* extended slice of another size *)
    end.
  (* __delitem__(index) as repaired: old_value = self.data[index] *)
  Definition p_delitem (d : list Z) (i : Z) : lres :=
    match norm_index (zlen d) i with
    | None => LErr E_INDEX
    | Some j => LOk (zdel d j) [em_remove (VInt (znth d j)) (IInt i)] VNone
    end.
  Definition p_delslice (d : list Z) (a b c : option Z) : lres :=
    match slice_indices (zlen d) a b c with
    | None => LErr E_VALUE
    | Some (start, stop, step) =>
        let ps := slice_positions start stop step in
        LOk (del_positions 0 d ps) [em_remove (VList (getslice d ps)) (ISlice a b c)] VNone
    end.
  Definition p_insert (d : list Z) (i v : Z) : lres := LOk (py_insert d i v) [em_insert v i] VNone.
  Definition p_append (d : list Z) (v : Z) : lres := LOk (d ++ [v]) [em_append v (zlen d)] VNone.

  (* MutableSequence.pop: v = self[index]; del self[index]; return v *)
  Definition l_pop (d : list Z) (i : Z) : lres :=
    match norm_index (zlen d) i with
    | None => LErr E_INDEX
    | Some j =>
        match p_delitem d i with
        | LOk d' es _ => LOk d' es (VInt (znth d j))
        | LErr k => LErr k
        end
    end.
  (* MutableSequence.remove: del self[self.index(value)] *)
  Definition l_remove (d : list Z) (v : Z) : lres :=
    match index_of 0 v d with
    | None => LErr E_VALUE
    | Some j => p_delitem d j
    end.
  (* MutableSequence.extend: for v in values: self.append(v) *)
  Fixpoint extend_loop (d : list Z) (vs : list Z) (acc : list emit) : list Z * list emit :=
    match vs with
    | [] => (d, acc)
    | v :: t => extend_loop (d ++ [v]) t (acc ++ [em_append v (zlen d)])
    end.
  Definition l_extend (d vs : list Z) : lres :=
    let '(d', es) := extend_loop d vs [] in LOk d' es VNone.
  (* MutableSequence.reverse: for i in range(n//2): self[i], self[n-i-1] = self[n-i-1], self[i] *)
  Fixpoint reverse_loop (fuel : nat) (i : Z) (d : list Z) (acc : list emit) : list Z * list emit :=
    match fuel with
    | O => (d, acc)
    | S f =>
        let n := zlen d in
        let a := znth d (n - i - 1) in
        let b := znth d i in
        let e1 := em_replace (VInt (znth d i)) (VInt a) (IInt i) in
        let d1 := zupd d i a in
        let e2 := em_replace (VInt (znth d1 (n - i - 1))) (VInt b) (IInt (n - i - 1)) in
        let d2 := zupd d1 (n - i - 1) b in
        reverse_loop f (i + 1) d2 (acc ++ [e1; e2])
    end.
  Definition l_reverse (d : list Z) : lres :=
    let '(d', es) := reverse_loop (Z.to_nat (zlen d / 2)) 0 d [] in LOk d' es VNone.
  (* MutableSequence.clear: try: while True: self.pop()  except IndexError: pass *)
  Fixpoint clear_loop (fuel : nat) (d : list Z) (acc : list emit) : list Z * list emit :=
    match fuel with
    | O => (d, acc)
    | S f =>
        match l_pop d (-1) with
        | LOk d' es _ => clear_loop f d' (acc ++ es)
        | LErr _ => (d, acc)
        end
    end.
  Definition l_clear (d : list Z) : lres :=
    let '(d', es) := clear_loop (S (length d)) d [] in LOk d' es VNone.

  Definition list_op (d : list Z) (o : lop) : lres :=
    match o with
    | LAppend v => p_append d v
    | LInsert i v => p_insert d i v
    | LSetItem i v => p_setitem d i v
    | LSetSlice a b c vs => p_setslice d a b c vs
    | LDelItem i => p_delitem d i
    | LDelSlice a b c => p_delslice d a b c
    | LPop None => l_pop d (-1)
    | LPop (Some i) => l_pop d i
    | LRemove v => l_remove d v
    | LExtend vs => l_extend d vs
    | LExtendSelf => l_extend d d                           (* values is self: values = list(values) *)
    | LIAdd vs =>
        (* tmp = owner.l; tmp.__iadd__(vs) (= extend; return self); owner.l = tmp  ->
           ObservableList.__set__: notify(name, current list, value, "change"), store a copy *)
        match l_extend d vs with
        | LOk d' es r => LOk d' (es ++ [em_change (VList d') (VList d')]) r
        | LErr k => LErr k
        end
    | LReverse => l_reverse d
    | LClear => l_clear d
    end.
End ListOps.

(* ------------------------------------------------------------------ the subscriber registry *)
Definition key := (Z * Z)%type.                   (* observable name, signal type *)
Definition key_eqb (a b : key) : bool := (fst a =? fst b) && (snd a =? snd b).
Definition subs := list (key * list Z).           (* subscribers[name][type] = [refs] *)
Fixpoint sget (k : key) (s : subs) : list Z :=
  match s with
  | [] => []
  | (k', l) :: t => if key_eqb k k' then l else sget k t
  end.
Fixpoint sset (k : key) (l : list Z) (s : subs) : subs :=
  match s with
  | [] => [(k, l)]
  | (k', l') :: t => if key_eqb k k' then (k, l) :: t else (k', l') :: sset k l t
  end.
Definition sclear_name (n : Z) (s : subs) : subs := filter (fun e => negb (fst (fst e) =? n)) s.

Inductive slot :=
| SObs (v : option Z) (fallback : option Z)       (* Observable: value (None = never set), fallback *)
| SList (l : option (list Z)).                    (* ObservableList *)
Record inst := { i_slots : list slot; i_subs : subs }.
Record state := { st_insts : list inst; st_dead : list Z }.

Definition alive (dead : list Z) (h : Z) : bool := negb (zmem h dead).
Definition live (dead : list Z) (l : list Z) : list Z := filter (alive dead) l.

Definition slot_at (slots : list slot) (n : Z) : option slot :=
  if n <? 0 then None else nth_error slots (Z.to_nat n).
Definition known (slots : list slot) (n : Z) : bool :=
  match slot_at slots n with Some _ => true | None => false end.
(* self.observables[name] *)
Definition types_of (tb : sig_tables) (slots : list slot) (n : Z) : list Z :=
  match slot_at slots n with
  | Some (SObs _ _) => tb_obs_types tb
  | Some (SList _) => tb_list_types tb
  | None => []
  end.
Definition all_names (slots : list slot) : list Z := zrange 0 (Z.of_nat (length slots) - 1).

Inductive target := TAll | TName (n : Z).          (* All() or a name *)
Inductive tsel := SAll | SType (t : Z).            (* All() or a signal type *)

Inductive op :=
| Observe (i : Z) (nm : target) (ty : tsel) (h : Z)
| Unobserve (i : Z) (nm : target) (ty : tsel) (h : Z)
| ClearAll (i : Z) (nm : target)
| Assign (i n v : Z)                               (* owner.<n> = v          (Observable) *)
| AssignList (i n : Z) (vs : list Z)               (* owner.<n> = [..]       (ObservableList) *)
| ListOp (i n : Z) (o : lop)                       (* owner.<n>.<mutator>(..) *)
| Kill (hs : list Z).                              (* the last strong reference to these handlers goes *)

Inductive status := Done | Raised (kind : Z) | Skipped.

Section Step.
  Variable tb : sig_tables.

  (* ---- observe (as repaired) ---- *)
  Definition sel_names (slots : list slot) (nm : target) : list Z :=
    match nm with TName n => [n] | TAll => all_names slots end.
  Definition sel_types (slots : list slot) (ty : tsel) (n : Z) : list Z :=
    match ty with SType t => [t] | SAll => types_of tb slots n end.
  Definition sel_keys (slots : list slot) (names : list Z) (ty : tsel) : list key :=
    flat_map (fun n => map (fun t => (n, t)) (sel_types slots ty n)) names.
  Definition types_ok (slots : list slot) (names : list Z) (ty : tsel) : bool :=
    match ty with
    | SAll => true
    | SType t => forallb (fun n => zmem t (types_of tb slots n)) names
    end.
  Definition sub_append (h : Z) (s : subs) (k : key) : subs := sset k (sget k s ++ [h]) s.

  Definition observe (x : inst) (nm : target) (ty : tsel) (h : Z) : inst * status :=
    let slots := i_slots x in
    match nm with
    | TName n =>
        if negb (known slots n) then (x, Raised E_UNKNOWN_NAME)
        else if negb (types_ok slots [n] ty) then (x, Raised E_UNKNOWN_TYPE)
        else ({| i_slots := slots; i_subs := fold_left (sub_append h) (sel_keys slots [n] ty) (i_subs x) |}, Done)
    | TAll =>
        let names := all_names slots in
        if negb (types_ok slots names ty) then (x, Raised E_UNKNOWN_TYPE)
        else ({| i_slots := slots; i_subs := fold_left (sub_append h) (sel_keys slots names ty) (i_subs x) |}, Done)
    end.

  (* ---- unobserve (as repaired): remaining = [ref for ref if ref() and ref() != handler] ---- *)
  Definition sub_remove (dead : list Z) (h : Z) (s : subs) (k : key) : subs :=
    sset k (filter (fun x => alive dead x && negb (x =? h)) (sget k s)) s.
  Definition unobserve (dead : list Z) (x : inst) (nm : target) (ty : tsel) (h : Z) : inst * status :=
    let slots := i_slots x in
    match nm, ty with
    | TName n, SAll =>
        if negb (known slots n) then (x, Raised E_KEY)           (* self.observables[name] *)
        else ({| i_slots := slots; i_subs := fold_left (sub_remove dead h) (sel_keys slots [n] ty) (i_subs x) |}, Done)
    | _, _ =>
        ({| i_slots := slots; i_subs := fold_left (sub_remove dead h) (sel_keys slots (sel_names slots nm) ty) (i_subs x) |}, Done)
    end.

  Definition clear_all (x : inst) (nm : target) : inst :=
    match nm with
    | TName n => {| i_slots := i_slots x; i_subs := sclear_name n (i_subs x) |}
    | TAll => {| i_slots := i_slots x; i_subs := [] |}
    end.

  (* ---- notify + _mesa_notify: call the live handlers in list order, keep only the live refs ---- *)
  Definition notify1 (dead : list Z) (owner n : Z) (s : subs) (e : emit) : subs * list delivery :=
    let k := (n, e_type e) in
    let act := live dead (sget k s) in
    (sset k act s, map (fun h => (h, mk_signal owner n e)) act).
  Fixpoint notify_all (dead : list Z) (owner n : Z) (s : subs) (es : list emit) : subs * list delivery :=
    match es with
    | [] => (s, [])
    | e :: t =>
        let '(s1, d1) := notify1 dead owner n s e in
        let '(s2, d2) := notify_all dead owner n s1 t in
        (s2, d1 ++ d2)
    end.

  Fixpoint set_slot (slots : list slot) (n : nat) (v : slot) : list slot :=
    match slots, n with
    | [], _ => []
    | _ :: t, O => v :: t
    | x :: t, S m => x :: set_slot t m v
    end.

  (* one operation on one instance: new instance, status, returned value, deliveries in call order *)
  Definition step_inst (dead : list Z) (owner : Z) (x : inst) (o : op) : inst * (status * val * list delivery) :=
    match o with
    | Observe _ nm ty h =>
        if zmem h dead then (x, (Skipped, VNone, []))
        else let '(x', st) := observe x nm ty h in (x', (st, VNone, []))
    | Unobserve _ nm ty h =>
        if zmem h dead then (x, (Skipped, VNone, []))
        else let '(x', st) := unobserve dead x nm ty h in (x', (st, VNone, []))
    | ClearAll _ nm => (clear_all x nm, (Done, VNone, []))
    | Assign _ n v =>
        match slot_at (i_slots x) n with
        | Some (SObs cur fb) =>
            (* Observable.__set__: notify(name, getattr(instance, private, fallback), value, "change"); store *)
            let old := match cur with Some c => VInt c | None => match fb with Some f => VInt f | None => VNone end end in
            let '(s', ds) := notify_all dead owner n (i_subs x) [em_change tb old (VInt v)] in
            ({| i_slots := set_slot (i_slots x) (Z.to_nat n) (SObs (Some v) fb); i_subs := s' |}, (Done, VNone, ds))
        | _ => (x, (Skipped, VNone, []))
        end
    | AssignList _ n vs =>
        match slot_at (i_slots x) n with
        | Some (SList cur) =>
            (* ObservableList.__set__: notify(name, current or [], value, "change"); store SignalingList(value) *)
            let old := match cur with Some d => VList d | None => VList [] end in
            let '(s', ds) := notify_all dead owner n (i_subs x) [em_change tb old (VList vs)] in
            ({| i_slots := set_slot (i_slots x) (Z.to_nat n) (SList (Some vs)); i_subs := s' |}, (Done, VNone, ds))
        | _ => (x, (Skipped, VNone, []))
        end
    | ListOp _ n lo =>
        match slot_at (i_slots x) n with
        | Some (SList (Some d)) =>
            match list_op tb d lo with
            | LOk d' es r =>
                let '(s', ds) := notify_all dead owner n (i_subs x) es in
                ({| i_slots := set_slot (i_slots x) (Z.to_nat n) (SList (Some d')); i_subs := s' |}, (Done, r, ds))
            | LErr k => (x, (Raised k, VNone, []))
            end
        | Some (SList None) => (x, (Raised E_ATTR, VNone, []))    (* getattr(instance, "_name") fails *)
        | _ => (x, (Skipped, VNone, []))
        end
    | Kill _ => (x, (Done, VNone, []))
    end.

  Definition op_inst (o : op) : option Z :=
    match o with
    | Observe i _ _ _ | Unobserve i _ _ _ | ClearAll i _ | Assign i _ _ | AssignList i _ _ | ListOp i _ _ => Some i
    | Kill _ => None
    end.

  Fixpoint set_inst (l : list inst) (n : nat) (v : inst) : list inst :=
    match l, n with
    | [], _ => []
    | _ :: t, O => v :: t
    | x :: t, S m => x :: set_inst t m v
    end.
  Definition inst_at (l : list inst) (i : Z) : option inst :=
    if i <? 0 then None else nth_error l (Z.to_nat i).

  Definition step (st : state) (o : op) : state * (status * val * list delivery) :=
    match o with
    | Kill hs => ({| st_insts := st_insts st; st_dead := hs ++ st_dead st |}, (Done, VNone, []))
    | _ =>
        match op_inst o with
        | None => (st, (Skipped, VNone, []))
        | Some i =>
            match inst_at (st_insts st) i with
            | None => (st, (Skipped, VNone, []))
            | Some x =>
                let '(x', out) := step_inst (st_dead st) i x o in
                ({| st_insts := set_inst (st_insts st) (Z.to_nat i) x'; st_dead := st_dead st |}, out)
            end
        end
    end.
End Step.

(* ------------------------------------------------------------------ observation *)
Definition enc_oz (o : option Z) : list Z := match o with None => [0] | Some v => [1; v] end.
Definition enc_val (v : val) : list Z :=
  match v with VNone => [0] | VInt z => [1; z] | VList l => 2 :: zlen l :: l end.
Definition enc_idx (i : idx) : list Z :=
  match i with INone => [0] | IInt i => [1; i] | ISlice a b c => 2 :: enc_oz a ++ enc_oz b ++ enc_oz c end.
Definition enc_signal (s : signal) : list Z :=
  s_owner s :: s_name s :: s_type s :: enc_val (s_old s) ++ enc_val (s_new s) ++ enc_idx (s_index s).
Definition enc_delivery (d : delivery) : list Z := fst d :: enc_signal (snd d).
Definition enc_status (s : status) : list Z :=
  match s with Done => [0] | Raised k => [-1; k] | Skipped => [-2] end.

Definition all_types : list Z := [1; 2; 3; 4; 5].
Definition enc_slot (s : slot) : list Z :=
  match s with
  | SObs None _ => [0]
  | SObs (Some v) _ => [1; v]
  | SList None => [3]
  | SList (Some l) => 2 :: zlen l :: l
  end.
(* the live subscribers per (name, type), non-empty lists only; then the values *)
Definition view_inst (dead : list Z) (x : inst) : list Z :=
  flat_map (fun n => flat_map (fun t =>
      match live dead (sget (n, t) (i_subs x)) with
      | [] => []
      | l => n :: t :: zlen l :: l
      end) all_types) (all_names (i_slots x))
  ++ [-8] ++ flat_map enc_slot (i_slots x) ++ [-9].
Definition view (st : state) : list Z := flat_map (view_inst (st_dead st)) (st_insts st).

Definition observation (st' : state) (out : status * val * list delivery) : list Z :=
  let '(s, r, ds) := out in
  enc_status s ++ enc_val r ++ [Z.of_nat (length ds)] ++ flat_map enc_delivery ds ++ [-7] ++ view st'.

(* ------------------------------------------------------------------ histories *)
Fixpoint run_ops (tb : sig_tables) (st : state) (ops : list op) : list (list Z) :=
  match ops with
  | [] => []
  | o :: t => let '(st', out) := step tb st o in observation st' out :: run_ops tb st' t
  end.
Fixpoint run_state (tb : sig_tables) (st : state) (ops : list op) : state :=
  match ops with
  | [] => st
  | o :: t => run_state tb (fst (step tb st o)) t
  end.

(* ------------------------------------------------------------------ the class hierarchy
   HasObservables.__init__:  self.observables = dict(descriptor_generator(self)).
   descriptor_generator (as repaired) walks type(obj).__mro__ from the most derived class, skips every
   name already seen in an earlier class (whatever it was bound to there) and yields
   (name, signal_types) for the BaseObservable entries.  `shadow` is the T1 flag saying that the
   source has this shadowing logic; with shadow = false the walk is the one of the unrepaired code
   (every observable entry of every class is yielded and dict() keeps the LAST value per name). *)
Inductive entry := EObs (fallback : option Z) | EList | EPlain.
Definition classdict := list (Z * entry).            (* vars(cls).items(), definition order *)
Definition is_obs (e : entry) : bool := match e with EPlain => false | _ => true end.

Fixpoint dg_class (shadow : bool) (seen : list Z) (cd : classdict) : list Z * list (Z * entry) :=
  match cd with
  | [] => (seen, [])
  | (n, e) :: t =>
      if shadow && zmem n seen then dg_class shadow seen t            (* if name in seen: continue *)
      else
        let '(seen', out) := dg_class shadow (n :: seen) t in         (* seen.add(name) *)
        (seen', if is_obs e then (n, e) :: out else out)              (* isinstance(entry, BaseObservable): yield *)
  end.
Fixpoint dg_walk (shadow : bool) (seen : list Z) (mro : list classdict) : list (Z * entry) :=
  match mro with
  | [] => []
  | cd :: t => let '(seen', out) := dg_class shadow seen cd in out ++ dg_walk shadow seen' t
  end.
(* dict(pairs): a key keeps its first position and takes the last value *)
Fixpoint dict_set (k : Z) (v : entry) (d : list (Z * entry)) : list (Z * entry) :=
  match d with
  | [] => [(k, v)]
  | (k', v') :: t => if k =? k' then (k, v) :: t else (k', v') :: dict_set k v t
  end.
Fixpoint dict_get (k : Z) (d : list (Z * entry)) : option entry :=
  match d with
  | [] => None
  | (k', v) :: t => if k =? k' then Some v else dict_get k t
  end.
Definition observables_of (shadow : bool) (mro : list classdict) : list (Z * entry) :=
  fold_left (fun d p => dict_set (fst p) (snd p) d) (dg_walk shadow [] mro) [].

(* the slot of attribute number n: kind and fallback come from the class, the value from __init__ *)
Definition slot_from (e : option entry) (given : slot) : slot :=
  match e, given with
  | Some (EObs fb), SObs v _ => SObs v fb
  | Some (EObs fb), SList _ => SObs None fb
  | Some EList, SList l => SList l
  | Some EList, SObs _ _ => SList None
  | _, s => s
  end.
Fixpoint build_slots (obs : list (Z * entry)) (n : Z) (vals : list slot) : list slot :=
  match vals with
  | [] => []
  | s :: t => slot_from (dict_get n obs) s :: build_slots obs (n + 1) t
  end.

(* a case: the class (mro, most derived first), the values __init__ assigns per instance (attribute
   number n = n-th slot; no subscribers yet), the ops *)
Record case := { c_mro : list classdict; c_vals : list (list slot); c_ops : list op }.
Definition c_insts (c : case) : list (list slot) :=
  map (build_slots (observables_of gen_dg_shadowing (c_mro c)) 0) (c_vals c).
Definition init_state (c : case) : state :=
  {| st_insts := map (fun sl => {| i_slots := sl; i_subs := [] |}) (c_insts c); st_dead := [] |}.
Definition run_case (c : case) : list (list Z) := run_ops gen_sig_tables (init_state c) (c_ops c).

(* ------------------------------------------------------------------ re-entrancy (outside the property's quantifier)
   What _mesa_notify does when the handlers it calls themselves observe / unobserve on the (name, type) being
   notified.  The loop `for observer in observers` walks the list OBJECT that was in subscribers[name][type] when the
   notification started: observe() appends to the object currently in the registry (the walked one until an
   unobserve() has replaced it by a new list), so a handler subscribed during the round is reached by the same loop;
   unobserve() stores a new filtered list in the registry and the loop goes on over the old object; at the end
   `self.subscribers[name][type] = active_observers` overwrites whatever the registry holds.  Recorded, not claimed. *)
Inductive haction := HNop | HObserve (h : Z) | HUnobserve (h : Z).
Record rstate := { r_iter : list Z;      (* the list object being walked *)
                   r_reg : list Z;       (* the list currently in subscribers[name][type] *)
                   r_same : bool;        (* are they the same object *)
                   r_active : list Z;    (* active_observers *)
                   r_calls : list Z }.   (* handlers called, in order *)
Fixpoint script_get (sc : list (Z * haction)) (h : Z) : haction :=
  match sc with [] => HNop | (k, a) :: t => if h =? k then a else script_get t h end.
Definition run_action (dead : list Z) (a : haction) (st : rstate) : rstate :=
  match a with
  | HNop => st
  | HObserve h' =>
      if r_same st
      then {| r_iter := r_iter st ++ [h']; r_reg := r_reg st ++ [h']; r_same := true; r_active := r_active st; r_calls := r_calls st |}
      else {| r_iter := r_iter st; r_reg := r_reg st ++ [h']; r_same := false; r_active := r_active st; r_calls := r_calls st |}
  | HUnobserve h' =>
      {| r_iter := r_iter st; r_reg := filter (fun x => alive dead x && negb (x =? h')) (r_reg st); r_same := false;
         r_active := r_active st; r_calls := r_calls st |}
  end.
Fixpoint notify_re (fuel : nat) (dead : list Z) (sc : list (Z * haction)) (pos : nat) (st : rstate) : option rstate :=
  match fuel with
  | O => None
  | S f =>
      match nth_error (r_iter st) pos with
      | None => Some st
      | Some h =>
          if alive dead h then
            let st1 := {| r_iter := r_iter st; r_reg := r_reg st; r_same := r_same st; r_active := r_active st;
                          r_calls := r_calls st ++ [h] |} in
            let st2 := run_action dead (script_get sc h) st1 in
            notify_re f dead sc (S pos)
              {| r_iter := r_iter st2; r_reg := r_reg st2; r_same := r_same st2; r_active := r_active st2 ++ [h];
                 r_calls := r_calls st2 |}
          else notify_re f dead sc (S pos) st
      end
  end.
(* one assignment to the observable: the registry before -> (handlers called, registry after) *)
Definition round_re (sc : list (Z * haction)) (reg : list Z) : option (list Z * list Z) :=
  match notify_re 200 [] sc 0 {| r_iter := reg; r_reg := reg; r_same := true; r_active := []; r_calls := [] |} with
  | Some st => Some (r_calls st, r_active st)
  | None => None
  end.
Record rcase := { rc_subs : list Z; rc_script : list (Z * haction); rc_rounds : nat }.
Fixpoint run_rounds (sc : list (Z * haction)) (n : nat) (reg : list Z) : list (list Z) :=
  match n with
  | O => []
  | S m =>
      match round_re sc reg with
      | Some (calls, reg') => (calls ++ [-7] ++ reg') :: run_rounds sc m reg'
      | None => [[-3]]
      end
  end.
Definition run_rcase (c : rcase) : list (list Z) := run_rounds (rc_script c) (rc_rounds c) (rc_subs c).

Inductive anycase := Plain (c : case) | Reentrant (c : rcase).
Definition run_any (a : anycase) : list (list Z) :=
  match a with Plain c => run_case c | Reentrant c => run_rcase c end.

(* ------------------------------------------------------------------ re-entrancy with assignments from handlers
   A handler may also assign to the observable being notified (conditionally on signal.new, otherwise the recursion
   never ends).  Observable.__set__ notifies BEFORE it stores, so the nested assignment (1) reads as `old` the value
   stored before the OUTER assignment, (2) runs its whole notification - over the list object currently in the
   registry, i.e. the one the outer loop is walking unless an unobserve replaced it - and replaces the registry by
   its own active list, (3) stores its value; the outer loop then goes on over the old list object, overwrites the
   registry with its own active list and finally stores the outer value: the outer store wins.  Recorded, not claimed. *)
Inductive haction2 := ANop | AObserve (h : Z) | AUnobserve (h : Z) | AAssignIf (trigger w : Z).
Record world := { w_reg : list Z; w_val : Z; w_calls : list (Z * Z * Z) }.   (* calls: handler, signal.old, signal.new *)
Record rstate2 := { q_iter : list Z; q_reg : list Z; q_same : bool; q_active : list Z; q_val : Z; q_calls : list (Z * Z * Z) }.
Fixpoint script_get2 (sc : list (Z * haction2)) (h : Z) : haction2 :=
  match sc with [] => ANop | (k, a) :: t => if h =? k then a else script_get2 t h end.

(* assign_re: `owner.x = v`;   walk: the loop of _mesa_notify for the signal (old, new) from position pos.
   Both return the walked list object as it is at the end (handlers may have appended to it). *)
Fixpoint assign_re (fuel : nat) (sc : list (Z * haction2)) (v : Z) (w : world) : option (world * list Z) :=
  match fuel with
  | O => None
  | S f =>
      match walk f sc (w_val w) v 0
                 {| q_iter := w_reg w; q_reg := w_reg w; q_same := true; q_active := []; q_val := w_val w; q_calls := w_calls w |} with
      | Some st => Some ({| w_reg := q_active st; w_val := v; w_calls := q_calls st |}, q_iter st)
      | None => None
      end
  end
with walk (fuel : nat) (sc : list (Z * haction2)) (old new : Z) (pos : nat) (st : rstate2) : option rstate2 :=
  match fuel with
  | O => None
  | S f =>
      match nth_error (q_iter st) pos with
      | None => Some st
      | Some h =>
          let st1 := {| q_iter := q_iter st; q_reg := q_reg st; q_same := q_same st; q_active := q_active st; q_val := q_val st;
                        q_calls := q_calls st ++ [(h, old, new)] |} in
          let st2 :=
            match script_get2 sc h with
            | ANop => Some st1
            | AObserve h' =>
                if q_same st1
                then Some {| q_iter := q_iter st1 ++ [h']; q_reg := q_reg st1 ++ [h']; q_same := true; q_active := q_active st1;
                             q_val := q_val st1; q_calls := q_calls st1 |}
                else Some {| q_iter := q_iter st1; q_reg := q_reg st1 ++ [h']; q_same := false; q_active := q_active st1;
                             q_val := q_val st1; q_calls := q_calls st1 |}
            | AUnobserve h' =>
                Some {| q_iter := q_iter st1; q_reg := filter (fun x => negb (x =? h')) (q_reg st1); q_same := false;
                        q_active := q_active st1; q_val := q_val st1; q_calls := q_calls st1 |}
            | AAssignIf trig w' =>
                if new =? trig then
                  match assign_re f sc w' {| w_reg := q_reg st1; w_val := q_val st1; w_calls := q_calls st1 |} with
                  | Some (wd, obj) =>
                      Some {| q_iter := if q_same st1 then obj else q_iter st1;   (* the nested loop walked (and may have grown) our object *)
                              q_reg := w_reg wd; q_same := false; q_active := q_active st1; q_val := w_val wd; q_calls := w_calls wd |}
                  | None => None
                  end
                else Some st1
            end in
          match st2 with
          | None => None
          | Some st2 =>
              walk f sc old new (S pos)
                   {| q_iter := q_iter st2; q_reg := q_reg st2; q_same := q_same st2; q_active := q_active st2 ++ [h];
                      q_val := q_val st2; q_calls := q_calls st2 |}
          end
      end
  end.

Record rcase2 := { rc2_subs : list Z; rc2_script : list (Z * haction2); rc2_init : Z; rc2_values : list Z }.
Fixpoint run_rounds2 (sc : list (Z * haction2)) (vs : list Z) (reg : list Z) (val : Z) : list (list Z) :=
  match vs with
  | [] => []
  | v :: t =>
      match assign_re 400 sc v {| w_reg := reg; w_val := val; w_calls := [] |} with
      | Some (wd, _) =>
          (flat_map (fun c => [fst (fst c); snd (fst c); snd c]) (w_calls wd) ++ [-7] ++ w_reg wd ++ [-6; w_val wd])
            :: run_rounds2 sc t (w_reg wd) (w_val wd)
      | None => [[-3]]
      end
  end.
Definition run_rcase2 (c : rcase2) : list (list Z) := run_rounds2 (rc2_script c) (rc2_values c) (rc2_subs c) (rc2_init c).

Inductive anycase2 := Plain2 (c : case) | Reentrant2 (c : rcase) | ReentrantAssign (c : rcase2).
Definition run_any2 (a : anycase2) : list (list Z) :=
  match a with Plain2 c => run_case c | Reentrant2 c => run_rcase c | ReentrantAssign c => run_rcase2 c end.
